/-
  C20 (part f) — `binary_encoder(data, parametrization="hyperspherical")` loads the data, real
  or complex, for EVERY number of qubits.  Property theorems only; proofs in
  QV/Proofs/EncodingsHS1.lean (non-interference of the steps of a chain aligned with a walk of
  pairwise different bit strings of non-decreasing weight), QV/Proofs/EncodingsHS2.lean (the gate
  list of the model is aligned with its walk; the walk visits every bit string once; built on the
  completeness of the Ehrlich walk, QV/Proofs/Ehrlich.lean) and QV/Proofs/EncodingsHS3.lean.
  Model: QV/Model/EncodingsB.lean — `hsEncoder n cplx` transliterates
  `_binary_encoder_hyperspherical` (`RY`/`U3` on the last qubit, then for every weight the walk of
  `hamming_weight_encoder(…, full_hwp=True, optimize_controls=False, phase_correction=False,
  initial_string=…)` and the gate of `_intermediate_gate`), compared verbatim with the real
  queues on every run; `hsWalk n` is the order in which the basis states are written.
-/
import QV.Proofs.EncodingsHS1
import QV.Proofs.EncodingsHS2
import QV.Proofs.EncodingsHS3
namespace QV.Props.C20
open QV QV.Enc Finset

variable {α : Type} [CommRing α]

/-- the k-th basis state the hyperspherical encoder writes (label: position `p` of the numpy
bit string is qubit `n-1-p`). -/
def hsLab (n k : Nat) : Lab := labR n ((hsWalk n).getD k [])

/-- **The walk of the hyperspherical encoder, every `n`.**  The strings `hsWalk n` (`0^n`, the
Ehrlich walks of weight `1 … n-1` chained by `_intermediate_gate`, `1^n`) all have length `n`, are
pairwise different, and every bit string of length `n` occurs: every basis state of the register
is written exactly once; there is one string more than there are steps. -/
theorem T20_binary_hs_walk (n : Nat) (hn : 1 ≤ n) :
    (∀ w ∈ hsWalk n, w.length = n) ∧ (hsWalk n).Nodup ∧
      (∀ τ : List Bool, τ.length = n → τ ∈ hsWalk n) ∧
      (hsChain n).length + 1 = (hsWalk n).length :=
  ⟨hsWalk_length n hn, hsWalk_nodup n hn, hsWalk_complete n hn, hsChain_length n hn⟩

/-- there are `2^n` strings, hence `2^n − 1` steps (one circuit parameter per step for real data). -/
theorem T20_binary_hs_walk_card (n : Nat) (hn : 1 ≤ n) :
    (hsWalk n).length = 2 ^ n ∧ (hsChain n).length = 2 ^ n - 1 := by
  have h1 := hsWalk_card n hn
  have h2 := hsChain_length n hn
  exact ⟨h1, by omega⟩

/-- **every step is the encoder step between two consecutive strings of the walk** (`StepRel`:
an RBS that moves one 1, controlled on all other 1s; or a rotation that adds a 1, controlled on
all 1s), and the weights never decrease along the walk. -/
theorem T20_binary_hs_aligned (n : Nat) (hn : 1 ≤ n) :
    Aligned n (hsChain n) (hsWalk n) ∧ (hsWalk n).Pairwise (fun a b => weight a ≤ weight b) :=
  ⟨hsChain_aligned n hn, hsWalk_sorted n hn⟩

/-- **State prepared by the hyperspherical binary encoder, every `n`, real or complex data.**
`binary_encoder(·, "hyperspherical")` maps `|0…0⟩` to
`Σ_k (B₀⋯B_{k-1}·A_k) |hsLab n k⟩ + (B₀⋯B_{m-1}) |hsLab n m⟩`, `m = 2^n − 1` steps, with
`A k = cos θ_k`, `B k = sin θ_k` for real data and `A k = e^{−iφ_k} cos θ_k`,
`B k = e^{iφ_k} sin θ_k` for complex data (the last step has its own two phases): hyperspherical
coordinates in the order of the walk.  No hypothesis on the gate list is left: non-interference
with the states already written is proved from the walk being duplicate-free and weight-sorted. -/
theorem T20_binary_hs_state (P : Par2 α) (hpm : ∀ k, P.p k * P.m k = 1) (cplx : Bool)
    (n : Nat) (hn : 1 ≤ n) :
    runCircuit ((hsEncoder n cplx).map (BG.sem P)) (ket zeroLab)
      = chainStateAB (fun k => ((hsChain n).getD k default).A P cplx k)
          (fun k => ((hsChain n).getD k default).B P cplx k) (hsLab n) (hsChain n).length := by
  have h := aligned_chain P hpm cplx n (hsChain n) (hsWalk n) (hsChain_aligned n hn)
    (hsWalk_length n hn) (hsWalk_nodup n hn) (hsWalk_sorted n hn)
  rw [hsWalk_head, labR_zero] at h
  exact h

/-- **Binary encoder, hyperspherical parametrisation, every `n`: the data are loaded.**  Let
`X j` be the data entry of array index `j`, `x k = X (index of the k-th visited state)` the data
in walk order (`lex_order_global` of the python code), and `r k` the partial norm `‖x[k:]‖` (for
complex data times the phase accumulated so far) with `r k · A k = x k`, `r k · B k = r (k+1)`,
`r m = x m` — the defining relations of `θ_k = arctan2(‖|x|[k+1:]‖, |x_k|)` and of the phases,
checked on the real angle computation to 1e-9 on every run.  Then `‖x‖ · ⟨y|state⟩ = X_{val y}`
for every basis label `y` of the register and `0` outside: the amplitude on the basis state with
array index `j` is `X_j / ‖X‖`. -/
theorem T20_binary_hs (P : Par2 α) (hpm : ∀ k, P.p k * P.m k = 1) (cplx : Bool)
    (n : Nat) (hn : 1 ≤ n) (X r : Nat → α)
    (hlast : r (hsChain n).length = X (val n (hsLab n (hsChain n).length)))
    (hA : ∀ k, k < (hsChain n).length →
      r k * ((hsChain n).getD k default).A P cplx k = X (val n (hsLab n k)))
    (hB : ∀ k, k < (hsChain n).length → r k * ((hsChain n).getD k default).B P cplx k = r (k + 1))
    (y : Lab) :
    r 0 * runCircuit ((hsEncoder n cplx).map (BG.sem P)) (ket zeroLab) y
      = ind (∀ q, n ≤ q → y q = false) * X (val n y) := by
  rw [T20_binary_hs_state P hpm cplx n hn,
    chainStateAB_norm _ _ (hsLab n) (hsChain n).length (fun k => X (val n (hsLab n k))) r hlast hA hB y,
    hsChain_length n hn]
  exact sum_over_walk n (hsWalk n) (hsWalk_length n hn) (hsWalk_nodup n hn) (hsWalk_complete n hn) X y

/-- every step of the real-data encoder contributes `cos θ_k` / `sin θ_k`. -/
theorem T20_binary_hs_coefficients_real (P : Par2 α) (n k : Nat) :
    ((hsChain n).getD k default).A P false k = P.c k ∧ ((hsChain n).getD k default).B P false k = P.s k := by
  cases h : ((hsChain n).getD k default).add <;> simp [ChainStep.A, ChainStep.B, stepA, stepB, ryA, ryB]

/-! ### non-vacuity -/

example : hsWalk 3 = [[false, false, false], [true, false, false], [false, false, true],
    [false, true, false], [true, true, false], [true, false, true], [false, true, true],
    [true, true, true]] := by decide

example : (hsEncoder 3 false).map BG.show = ["ry 2 0", "rbs 2 0 1", "rbs 0 1 2", "ry 2 3 c 1",
    "rbs 1 0 4 c 2", "rbs 2 1 5 c 0", "ry 2 6 c 0 1"] := by decide

private def exParS : Par2 ℚ :=
  { c := fun _ => 3 / 5, s := fun _ => 4 / 5, p := fun _ => 1, m := fun _ => 1, i := 0,
    lp0 := 1, lm0 := 1, lp1 := 1, lm1 := 1 }

private def exXS : Nat → ℚ := fun j => if j = 0 then 3 else 4
private def exRS : Nat → ℚ := fun k => if k = 0 then 5 else 4

/-- hypotheses of `T20_binary_hs` are satisfiable, `n = 1`: data `(3, 4)`, `‖x‖ = 5`,
`cos θ₀ = 3/5`, `sin θ₀ = 4/5`. -/
example (y : Lab) :
    exRS 0 * runCircuit ((hsEncoder 1 false).map (BG.sem exParS)) (ket zeroLab) y
      = ind (∀ q, 1 ≤ q → y q = false) * exXS (val 1 y) := by
  have hlen : (hsChain 1).length = 1 := by decide
  have hv1 : val 1 (hsLab 1 1) = 1 := by
    have : hsLab 1 1 = labR 1 [true] := by simp [hsLab, hsWalk, hsWalkFrom]
    rw [this]
    simp [Enc.val, labR]
  have hv0 : val 1 (hsLab 1 0) = 0 := by
    have : hsLab 1 0 = labR 1 [false] := by simp [hsLab, hsWalk, hsWalkFrom]
    rw [this]
    simp [Enc.val, labR]
  refine T20_binary_hs exParS (by intro k; simp [exParS]) false 1 (le_refl 1) exXS exRS ?_ ?_ ?_ y
  · rw [hlen, hv1]; norm_num [exXS, exRS]
  · intro k hk
    rw [hlen] at hk
    have hk0 : k = 0 := by omega
    subst hk0
    rw [hv0, (T20_binary_hs_coefficients_real exParS 1 0).1]
    norm_num [exParS, exXS, exRS]
  · intro k hk
    rw [hlen] at hk
    have hk0 : k = 0 := by omega
    subst hk0
    rw [(T20_binary_hs_coefficients_real exParS 1 0).2]
    norm_num [exParS, exRS]

end QV.Props.C20
