/-
  C12 (part d) — sequences of measurements: every outcome string the tableau routine can return
  has non-zero Born probability, for every circuit, every list of measured qubits (any order,
  repetitions allowed) and every value of the random coins.

  `TabState n T ψ` (QV/Proofs/CliffordCollapse.lean): the tableau satisfies the
  Aaronson–Gottesman invariant, its rows are non-degenerate, its stabiliser rows fix `ψ`, `ψ ≠ 0`.
  `proj q b ψ` is `ψ` projected on `x_q = b` (unnormalised), `collapse` iterates it.

  * `T12_tabstate_execution`   : the tableau after a circuit describes the state-vector result.
  * `T12_measure_step`         : one call of `M` on a qubit turns a pair (tableau, state) into the
    pair (new tableau, state projected on the returned bit) — in the random branch by the update
    of `_random_outcome` (pivot row → destabiliser, rowsum on every row with an X on `q`, new
    stabiliser `(-1)^b Z_q`), in the determined branch the projection changes nothing.
  * `T12_determined_step_certain` : a determined outcome is certain given the earlier outcomes.
  * `T12_measure_keeps_invariants`, `T12_measurement_sequence_born` : along `measure`; the state
    vector has a non-zero amplitude on a label that agrees with ALL returned bits (so correlated
    and deterministic outcomes are respected).
-/
import QV.Props.C12c
import QV.Proofs.CliffordCollapse
namespace QV.Props.C12
open QV QV.Cliff

/-- the tableau after any circuit describes the state vector the circuit produces. -/
theorem T12_tabstate_execution (n : Nat) (gs : List Gate) (hg : ∀ g ∈ gs, g.ok n) :
    TabState n (runGates gs (zeroState n)) (runSV n gs) :=
  ⟨T12_valid_circuit n gs hg _ (T12_valid_zero_state n), T12_nondegenerate_execution n gs hg,
   fun i hi => T12_stabilizer_state n gs hg i hi, runSV_nonzero n gs hg⟩

/-- one measured qubit (either branch): new tableau ↔ state projected on the returned bit. -/
theorem T12_measure_step (n : Nat) (T : Tableau) (ψ : Lab → GI) (S : TabState n T ψ) (q : Nat)
    (hq : q < n) (coin : Bool) :
    TabState n (measureQubit n T q coin).1 (proj q (measureQubit n T q coin).2.1 ψ) :=
  S.measure_step hq coin

/-- the random branch in particular: `_random_outcome`'s tableau describes the collapsed state. -/
theorem T12_random_outcome_keeps_invariants (n : Nat) (T : Tableau) (ψ : Lab → GI)
    (S : TabState n T ψ) (q p : Nat) (hq : q < n) (hp : findP n T q = some p) (b : Bool) :
    TabState n (randomOutcome n T p q b) (proj q b ψ) := S.random_step hq hp b

/-- a determined outcome is certain: projecting on it does not change the state. -/
theorem T12_determined_step_certain (n : Nat) (T : Tableau) (ψ : Lab → GI) (S : TabState n T ψ)
    (q : Nat) (hq : q < n) (hnone : findP n T q = none) (coin : Bool) :
    proj q (measureQubit n T q coin).2.1 ψ = ψ :=
  proj_eq_self (T12_determined_outcome_general n T q hq ψ S.valid S.nondeg S.fix hnone coin).2

/-- along a whole call of `M` on a list of qubits. -/
theorem T12_measure_keeps_invariants (n : Nat) (qs : List Nat) (hqs : ∀ q ∈ qs, q < n)
    (T : Tableau) (ψ : Lab → GI) (coins : List Bool) (S : TabState n T ψ) :
    TabState n (measure n T qs coins).1
      (collapse (qs.zip ((measure n T qs coins).2.map Prod.fst)) ψ) :=
  TabState.measure_all qs hqs T ψ coins S

/-- the statement `MeasurementSequence_statement` of C12c.lean asked for, at the level of outcomes. -/
def MeasurementSequenceBorn : Prop :=
  ∀ (n : Nat) (gs : List Gate), (∀ g ∈ gs, g.ok n) → ∀ (qs : List Nat), (∀ q ∈ qs, q < n) →
    ∀ coins : List Bool,
      ∃ x : Lab,
        (∀ qb ∈ qs.zip ((measure n (runGates gs (zeroState n)) qs coins).2.map Prod.fst), x qb.1 = qb.2) ∧
        runSV n gs x ≠ 0

/-- **every outcome string returned by the tableau measurement has non-zero Born probability**:
some basis label carries amplitude and agrees with every (qubit, returned bit) pair. -/
theorem T12_measurement_sequence_born : MeasurementSequenceBorn := by
  intro n gs hg qs hqs coins
  have S := T12_measure_keeps_invariants n qs hqs _ _ coins (T12_tabstate_execution n gs hg)
  obtain ⟨x, hx⟩ := S.nz
  rw [collapse_apply] at hx
  by_cases h : ∀ qb ∈ qs.zip ((measure n (runGates gs (zeroState n)) qs coins).2.map Prod.fst),
      x qb.1 = qb.2
  · rw [if_pos h] at hx; exact ⟨x, h, hx⟩
  · rw [if_neg h] at hx; exact absurd rfl hx

/-- non-vacuity / instance: Bell pair, both qubits measured, coin `1`: outcomes `11` (the second
determined), and the label `11` carries amplitude. -/
example :
    let gs := [Gate.H 0, Gate.CNOT 0 1]
    (measure 2 (runGates gs (zeroState 2)) [0, 1] [true, false]).2.map Prod.fst = [true, true] ∧
    runSV 2 gs (Lab.ofIndex 2 3) = 1 ∧ runSV 2 gs (Lab.ofIndex 2 1) = 0 := by decide +kernel

end QV.Props.C12
