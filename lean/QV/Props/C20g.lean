/-
  C20 (part g) — `hamming_weight_encoder(data, n, k, optimize_controls=False)` loads the data for
  EVERY `n` and every weight `1 ≤ k < n`, real data and complex data (RZ pairs and the final
  phase correction).  Property theorems only; proofs in QV/Proofs/EncodingsHW.lean (on top of the
  completeness of the Ehrlich walk and of the chain theorem of QV/Proofs/EncodingsHS1.lean).
  Model: QV/Model/EncodingsB.lean :: `hwEncoderB` (compared verbatim with the real queues for
  every option combination on every run).  With `optimize_controls=True` (pruned controls) the
  chain hypotheses remain decidable facts verified on the real circuits (`T20_loading_chain`).
-/
import QV.Proofs.EncodingsHW
namespace QV.Props.C20
open QV QV.Enc Finset

variable {α : Type} [CommRing α]

/-- **the walk**: the strings of `_ehrlich_algorithm(1^k 0^(n-k))` are pairwise different, there
are `C(n,k)` of them, each has length `n` and weight `k`, and every such string occurs: `hwLab n k`
enumerates the weight-`k` basis states of the register exactly once. -/
theorem T20_hw_walk (n k : Nat) (hkn : k ≤ n) :
    (ehrlichStrings (defaultInit n k)).Nodup ∧ (ehrlichStrings (defaultInit n k)).length = choose n k ∧
    (∀ s ∈ ehrlichStrings (defaultInit n k), s.length = n ∧ weight s = k) ∧
    (∀ τ : List Bool, τ.length = n → weight τ = k → τ ∈ ehrlichStrings (defaultInit n k)) :=
  hw_walk_facts n k hkn

/-- the `X` gates prepare the first string `1^k 0^(n-k)` (qubits `n-1 … n-k`). -/
theorem T20_hw_xprefix (P : Par2 α) (n k : Nat) (hkn : k ≤ n) :
    runCircuit (((List.range k).map (fun j => ({ kind := .X, q0 := n - 1 - j } : BG))).map (BG.sem P)) (ket zeroLab)
      = ket (labR n (defaultInit n k)) :=
  hw_xprefix P n k hkn

/-- **State prepared by `hamming_weight_encoder(·, n, k, optimize_controls=False)`, every `n`,
`1 ≤ k < n`** — real data, or complex data without the final correction:
`Σ_j (B₀⋯B_{j-1}·A_j) |hwLab n k j⟩ + (B₀⋯B_{m-1}) |hwLab n k m⟩`, `m = C(n,k) − 1`, with
`A j = cos θ_j`, `B j = sin θ_j` (real) resp. `e^{∓iφ_j}` times these (complex).  No hypothesis on
the gate list is left. -/
theorem T20_hw_noopt_state (P : Par2 α) (hpm : ∀ j, P.p j * P.m j = 1) (cplx pc : Bool)
    (hpc : (cplx && pc) = false) (n k : Nat) (hk : 1 ≤ k) (hkn : k < n) :
    runCircuit ((hwEncoderB n k false false cplx pc).map (BG.sem P)) (ket zeroLab)
      = chainStateAB (stepA P cplx) (stepB P cplx) (hwLab n k) (choose n k - 1) :=
  hw_noopt_state P hpm cplx pc hpc n k hk hkn

/-- … and for complex data with `_get_phase_gate_correction`: the amplitude of the last string is
multiplied by `e^{−iφ_m}`. -/
theorem T20_hw_noopt_state_complex (P : Par2 α) (hpm : ∀ j, P.p j * P.m j = 1)
    (n k : Nat) (hk : 1 ≤ k) (hkn : k < n) :
    runCircuit ((hwEncoderB n k false false true true).map (BG.sem P)) (ket zeroLab)
      = chainStateCorr (stepA P true) (stepB P true)
          (P.m (choose n k - 1) * P.m (choose n k - 1)) (hwLab n k) (choose n k - 1) :=
  hw_noopt_state_corr P hpm n k hk hkn

/-- **Hamming-weight encoder, complex data, every `n` and `1 ≤ k < n`: moduli and phases are
loaded.**  `x j` = the data entry of the `j`-th visited string, `r j` = partial norm times the
phase accumulated so far; with `r j · e^{−iφ_j} cos θ_j = x j`, `r j · e^{iφ_j} sin θ_j = r (j+1)`
and `r m · e^{−iφ_m} = x m` (checked on the real angle computation to 1e-9 on every run),
`‖x‖ · state = Σ_j x_j |hwLab n k j⟩`. -/
theorem T20_hw_noopt_complex (P : Par2 α) (hpm : ∀ j, P.p j * P.m j = 1)
    (n k : Nat) (hk : 1 ≤ k) (hkn : k < n) (x r : Nat → α)
    (hlast : r (choose n k - 1) * (P.m (choose n k - 1) * P.m (choose n k - 1)) = x (choose n k - 1))
    (hA : ∀ j, j < choose n k - 1 → r j * stepA P true j = x j)
    (hB : ∀ j, j < choose n k - 1 → r j * stepB P true j = r (j + 1)) (y : Lab) :
    r 0 * runCircuit ((hwEncoderB n k false false true true).map (BG.sem P)) (ket zeroLab) y
      = ∑ j ∈ range (choose n k - 1 + 1), x j * ket (hwLab n k j) y := by
  rw [T20_hw_noopt_state_complex P hpm n k hk hkn]
  exact chainStateCorr_norm _ _ _ (hwLab n k) (choose n k - 1) x r hlast hA hB y

/-- the same for real data (`A j = cos θ_j`, `B j = sin θ_j`, `r m = x m`). -/
theorem T20_hw_noopt_real (P : Par2 α) (hpm : ∀ j, P.p j * P.m j = 1)
    (n k : Nat) (hk : 1 ≤ k) (hkn : k < n) (x r : Nat → α)
    (hlast : r (choose n k - 1) = x (choose n k - 1))
    (hA : ∀ j, j < choose n k - 1 → r j * P.c j = x j)
    (hB : ∀ j, j < choose n k - 1 → r j * P.s j = r (j + 1)) (y : Lab) :
    r 0 * runCircuit ((hwEncoderB n k false false false true).map (BG.sem P)) (ket zeroLab) y
      = ∑ j ∈ range (choose n k - 1 + 1), x j * ket (hwLab n k j) y := by
  rw [T20_hw_noopt_state P hpm false true rfl n k hk hkn]
  exact chainStateAB_norm _ _ (hwLab n k) (choose n k - 1) x r hlast hA hB y

/-! ### non-vacuity -/

example : (hwEncoderB 3 2 false false true true).map BG.show
    = ["x 2", "x 1", "rbs 1 0 0 c 2", "rz 1 -0 c 2", "rz 0 +0 c 2", "rbs 2 1 1 c 0", "rz 2 -1 c 0",
       "rz 1 +1 c 0", "rz 2 +2*2 c 0 1"] := by decide

private def exParW : Par2 ℚ :=
  { c := fun _ => 3 / 5, s := fun _ => 4 / 5, p := fun _ => 1, m := fun _ => 1, i := 0,
    lp0 := 1, lm0 := 1, lp1 := 1, lm1 := 1 }
private def exXW : Nat → ℚ := fun j => if j = 0 then 3 else 4
private def exRW : Nat → ℚ := fun j => if j = 0 then 5 else 4

/-- hypotheses of `T20_hw_noopt_real` are satisfiable: `n = 2`, `k = 1`, data `(3, 4)`. -/
example (y : Lab) :
    exRW 0 * runCircuit ((hwEncoderB 2 1 false false false true).map (BG.sem exParW)) (ket zeroLab) y
      = ∑ j ∈ range (choose 2 1 - 1 + 1), exXW j * ket (hwLab 2 1 j) y := by
  have hc : choose 2 1 - 1 = 1 := by decide
  refine T20_hw_noopt_real exParW (by intro j; simp [exParW]) 2 1 (le_refl 1) (by norm_num) exXW exRW ?_ ?_ ?_ y
  · rw [hc]; norm_num [exXW, exRW]
  · intro j hj
    rw [hc] at hj
    have : j = 0 := by omega
    subst this; norm_num [exXW, exRW, exParW]
  · intro j hj
    rw [hc] at hj
    have : j = 0 := by omega
    subst this; norm_num [exRW, exParW]

end QV.Props.C20
