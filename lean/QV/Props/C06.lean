/-
  C06 — Updating circuit parameters is equivalent to rebuilding the circuit.
  Theorems about the bookkeeping model `QV.Model.Params` (tied to
  `qibo/models/circuit.py` by the correspondence suite of `tools/props/C06.py`, which
  runs `DriverC06.lean` against the real `Circuit.add / set_parameters / get_parameters /
  invert / copy` on every check).  All statements hold for every list of gates (any mix
  of widths, trainable or not), every parameter list and every history.
  The parameter-shift rule is in `C06b.lean`.
-/
import QV.Proofs.ParamsLemmas
set_option linter.unusedSimpArgs false
set_option linter.unusedVariables false
namespace QV.Props.C06
open QV.Params

variable {β : Type}

/-- **Flat format, the `i + k` arithmetic.**  For every list of widths `ws` (= the
    `nparams` of the trainable gates in queue order) and every parameter list `ps`, the
    loop of `_set_parameters_list` hands gate `i` exactly the slice
    `[Σ_{j<i} w_j , Σ_{j<i} w_j + w_i)` of `ps`. -/
theorem T06_flat_offsets (ws : List Nat) (ps : List β) (i : Nat) (hi : i < ws.length) :
    (flatLoop ps ws 0 0)[i]? = some ((ps.drop (ws.take i).sum).take ws[i]) := by
  rw [flatLoop_eq_splitFrom ps ws 0 0 0 (by simp), splitFrom_getElem? ps ws 0 i hi]; simp

/-- the flat loop refines the two-line specification "cut `ps` into consecutive pieces",
    the pieces concatenate to `ps`, and each has the width of its gate. -/
theorem T06_flat_refines_split (ws : List Nat) (ps : List β) (h : ps.length = ws.sum) :
    flatLoop ps ws 0 0 = splitBy ws ps ∧ (flatLoop ps ws 0 0).flatten = ps ∧
    widthsOK ws (flatLoop ps ws 0 0) = true := by
  rw [flatLoop_eq_splitBy]
  exact ⟨rfl, splitBy_flatten_of_length ws ps h, splitBy_widthsOK ws ps (by omega)⟩

example : flatLoop [10, 11, 12, 13, 14, 15] [1, 3, 2] 0 0 = [[10], [11, 12, 13], [14, 15]] := by
  decide

/-- **Trainable bookkeeping.**  For every sequence of `add`s the circuit's queue is the
    list of gates added, `parametrized_gates` / `trainable_gates` are exactly the
    parametrised / parametrised-and-trainable gates in queue order, and their `nparams`
    counters are the sums of the widths. -/
theorem T06_add_bookkeeping (gs : List (PG β)) :
    (build gs).queue = gs ∧
    (build gs).par = specList isPar (gs.map PG.skel) ∧
    (build gs).tr = specList isTr (gs.map PG.skel) := by
  have h := build_fresh gs
  rw [Fresh, build_queue] at h
  exact ⟨build_queue gs, h.1, h.2⟩

/-- membership in `trainable_gates` ⇔ the gate at that position is parametrised and
    trainable; the list has no repetition and is increasing in queue position. -/
theorem T06_trainable_iff (gs : List (PG β)) (j : Nat) :
    j ∈ (build gs).tr.idx ↔ ∃ g, gs[j]? = some g ∧ g.isParam = true ∧ g.trainable = true := by
  rw [(T06_add_bookkeeping gs).2.2]
  constructor
  · intro h
    obtain ⟨s, hs, hp⟩ := idxWhere_sat isTr (gs.map PG.skel) 0 j h
    simp [List.getElem?_map] at hs
    obtain ⟨g, hg, rfl⟩ := hs
    exact ⟨g, hg, by simpa [isTr, PG.skel] using hp⟩
  · rintro ⟨g, hg, h1, h2⟩
    have := idxWhere_complete isTr (gs.map PG.skel) 0 j g.skel (by simp [hg])
      (by simp [isTr, PG.skel, h1, h2])
    simpa [specList] using this

theorem T06_trainable_nodup (gs : List (PG β)) : (build gs).tr.idx.Nodup ∧
    ∀ j ∈ (build gs).tr.idx, j < gs.length := by
  rw [(T06_add_bookkeeping gs).2.2]
  refine ⟨idxWhere_nodup _ _ _, fun j hj => ?_⟩
  have := idxWhere_bounds isTr (gs.map PG.skel) 0 j hj
  simpa using this.2

/-- **Only trainable gates change, nothing moves.**  A successful `set_parameters` (list,
    flat or dict) keeps the queue's skeleton (classes, order, flags, widths), keeps both
    bookkeeping lists, and keeps every gate that is not parametrised-and-trainable
    exactly as it was, current values included. -/
theorem T06_only_trainable_change_list (gs : List (PG β)) (xs : List (List β)) (c' : Circ β)
    (h : setParametersList (build gs) xs = .ok c') :
    c'.queue.map PG.skel = gs.map PG.skel ∧ c'.par = (build gs).par ∧ c'.tr = (build gs).tr ∧
    ∀ (j : Nat) (g : PG β), gs[j]? = some g → (g.isParam = false ∨ g.trainable = false) → c'.queue[j]? = some g := by
  have hq := build_queue gs
  have key : ∀ vs, ({ build gs with queue := assignPerGate (build gs).queue (build gs).tr.idx vs } : Circ β) = c' →
      c'.queue.map PG.skel = gs.map PG.skel ∧ c'.par = (build gs).par ∧ c'.tr = (build gs).tr ∧
      ∀ (j : Nat) (g : PG β), gs[j]? = some g → (g.isParam = false ∨ g.trainable = false) → c'.queue[j]? = some g := by
    intro vs hc
    subst hc
    refine ⟨by simp [assignPerGate_skel, hq], rfl, rfl, ?_⟩
    intro j g hg hnt
    have hnot : j ∉ (build gs).tr.idx := by
      rw [T06_trainable_iff]
      rintro ⟨g', hg', h1, h2⟩
      rw [hg] at hg'; cases hg'
      rcases hnt with h | h <;> simp_all
    simp [assignPerGate_untouched _ _ _ _ hnot, hq, hg]
  unfold setParametersList at h
  simp only at h
  split at h
  · split at h
    · exact key _ (by injection h)
    · cases h
  · split at h
    · split at h
      · exact key _ (by injection h)
      · cases h
    · cases h

theorem T06_only_trainable_change_dict (gs : List (PG β)) (kvs : List (Nat × List β)) (c' : Circ β)
    (h : setParametersDict (build gs) kvs = .ok c') :
    c'.queue.map PG.skel = gs.map PG.skel ∧ c'.par = (build gs).par ∧ c'.tr = (build gs).tr ∧
    ∀ (j : Nat) (g : PG β), gs[j]? = some g → (g.isParam = false ∨ g.trainable = false) → c'.queue[j]? = some g := by
  have hq := build_queue gs
  unfold setParametersDict at h
  split at h
  · rename_i hkeys
    split at h
    · injection h with h; subst h
      refine ⟨by simp [assignPerGate_skel, hq], rfl, rfl, ?_⟩
      intro j g hg hnt
      have hnot : j ∉ kvs.map (·.1) := by
        intro hmem
        simp at hmem
        obtain ⟨v, hv⟩ := hmem
        have hk : j ∈ (build gs).tr.idx := by
          have := List.all_eq_true.mp hkeys (j, v) hv
          simpa using this
        rw [T06_trainable_iff] at hk
        obtain ⟨g', hg', h1, h2⟩ := hk
        rw [hg] at hg'; cases hg'
        rcases hnt with h | h <;> simp_all
      simp [assignPerGate_untouched _ _ _ _ hnot, hq, hg]
    · cases h
  · cases h

/-- **get ∘ set = id, per-gate list format.** -/
theorem T06_get_set_list (gs : List (PG β)) (xs : List (List β))
    (hn : xs.length = (build gs).tr.idx.length) (hw : widthsOK (trWidths (build gs)) xs = true) :
    ∃ c', setParametersList (build gs) xs = .ok c' ∧ getList c' false = xs := by
  obtain ⟨hnd, hr⟩ := T06_trainable_nodup gs
  refine ⟨{ build gs with queue := assignPerGate (build gs).queue (build gs).tr.idx xs }, ?_, ?_⟩
  · unfold setParametersList
    simp only []
    rw [if_pos hn, if_pos hw]
  · simp only [getList, Circ.gates]
    exact assignPerGate_read _ _ _ hnd (by simpa [build_queue] using hr) hn.symm

/-- **get ∘ set = id, flat format** (whenever the flat branch is the one dispatched to). -/
theorem T06_get_set_flat (gs : List (PG β)) (ps : List β)
    (hne : ps.length ≠ (build gs).tr.idx.length)
    (hn : ps.length = (build gs).tr.nparams) :
    ∃ c', setParametersList (build gs) (ps.map fun x => [x]) = .ok c' ∧ getFlat c' false = ps := by
  obtain ⟨hnd, hr⟩ := T06_trainable_nodup gs
  have hflat : (ps.map fun x => [x]).flatten = ps := flatten_map_singleton ps
  have hall : (ps.map fun x => [x]).all (fun x => x.length == 1) = true := by simp
  -- nparams counter = sum of the widths of the trainable gates
  have hsum : (build gs).tr.nparams = (trWidths (build gs)).sum := by
    have hb := (T06_add_bookkeeping gs)
    rw [trWidths, hb.2.2, hb.1]
    simp only [specList, sumWhere]
    have gen : ∀ (l : List (PG β)) (pre : List (PG β)) (i : Nat), i = pre.length →
        ((List.filter isTr (l.map PG.skel)).map (·.width)).sum =
        ((idxWhere isTr (l.map PG.skel) i).map (widthAt (pre ++ l))).sum := by
      intro l
      induction l with
      | nil => intros; simp [idxWhere]
      | cons a t ih =>
        intro pre i hi
        have := ih (pre ++ [a]) (i + 1) (by simp [hi])
        by_cases ha : isTr a.skel = true
        · simp [idxWhere, ha, List.filter_cons] at this ⊢
          rw [this]
          simp [widthAt, hi, PG.skel]
        · simp [idxWhere, ha, List.filter_cons] at this ⊢
          rw [this]
    simpa using gen gs [] 0 rfl
  have hlen : ps.length = (trWidths (build gs)).sum := by rw [← hsum, hn]
  have hsplit := T06_flat_refines_split (trWidths (build gs)) ps hlen
  refine ⟨⟨assignPerGate (build gs).queue (build gs).tr.idx (flatLoop ps (trWidths (build gs)) 0 0),
    (build gs).par, (build gs).tr⟩, ?_, ?_⟩
  · unfold setParametersList
    simp only [List.length_map]
    rw [if_neg hne, if_pos hn, if_pos hall, hflat]
  · have hlen2 : (build gs).tr.idx.length = (flatLoop ps (trWidths (build gs)) 0 0).length := by
      rw [hsplit.1, splitBy_length]; simp [trWidths]
    have hread := assignPerGate_read (build gs).queue (build gs).tr.idx
      (flatLoop ps (trWidths (build gs)) 0 0) hnd (by simpa [build_queue] using hr) hlen2
    simp only [getFlat, getList, Circ.gates, Bool.false_eq_true, if_false]
    rw [hread]
    exact hsplit.2.1

/-- **get ∘ set = id, dict format**: every key set is read back with its value and the
    other gates keep theirs. -/
theorem T06_get_set_dict (gs : List (PG β)) (kvs : List (Nat × List β))
    (hk : ∀ kv ∈ kvs, kv.1 ∈ (build gs).tr.idx) (hnd : (kvs.map (·.1)).Nodup)
    (hw : ∀ kv ∈ kvs, widthAt gs kv.1 = kv.2.length) :
    ∃ c', setParametersDict (build gs) kvs = .ok c' ∧
      (kvs.map (·.1)).map (valsAt c'.queue) = kvs.map (·.2) ∧
      ∀ j, j ∉ kvs.map (·.1) → c'.queue[j]? = gs[j]? := by
  have hq := build_queue gs
  have h1 : kvs.all (fun kv => (build gs).tr.idx.contains kv.1) = true := by
    simpa [List.all_eq_true] using fun a b hab => hk (a, b) hab
  have h2 : kvs.all (fun kv => widthAt (build gs).queue kv.1 == kv.2.length) = true := by
    rw [hq]; simpa [List.all_eq_true] using fun a b hab => hw (a, b) hab
  refine ⟨{ build gs with queue := assignPerGate (build gs).queue (kvs.map (·.1)) (kvs.map (·.2)) },
    ?_, ?_, ?_⟩
  · unfold setParametersDict
    rw [if_pos h1, if_pos h2]
  · apply assignPerGate_read _ _ _ hnd
    · intro i hi
      simp at hi
      obtain ⟨v, hv⟩ := hi
      rw [hq]
      exact (T06_trainable_nodup gs).2 i (hk _ hv)
    · simp
  · intro j hj
    simp only
    rw [assignPerGate_untouched _ _ _ _ hj, hq]

/-- **Setting twice = setting the last.** -/
theorem T06_last_set_wins (gs : List (PG β)) (ys xs : List (List β)) (c1 : Circ β)
    (h1 : setParametersList (build gs) ys = .ok c1) :
    setParametersList c1 xs = setParametersList (build gs) xs := by
  obtain ⟨hnd, hr⟩ := T06_trainable_nodup gs
  obtain ⟨hskel, hpar, htr, -⟩ := T06_only_trainable_change_list gs ys c1 h1
  have hq := build_queue gs
  have hwid : trWidths c1 = trWidths (build gs) := by
    simp only [trWidths, htr]
    rw [widthAt_of_skel c1.queue (build gs).queue (by rw [hskel, hq])]
  -- c1 is `build gs` with an assignment on the trainable positions
  have hform : ∃ vs, vs.length = (build gs).tr.idx.length ∧
      c1 = { build gs with queue := assignPerGate (build gs).queue (build gs).tr.idx vs } := by
    unfold setParametersList at h1
    simp only at h1
    split at h1
    · rename_i hn
      split at h1
      · injection h1 with h1; exact ⟨ys, hn, h1.symm⟩
      · cases h1
    · split at h1
      · split at h1
        · injection h1 with h1
          refine ⟨_, ?_, h1.symm⟩
          rw [flatLoop_eq_splitBy, splitBy_length]; simp [trWidths]
        · cases h1
      · cases h1
  obtain ⟨vs, hvs, hc1⟩ := hform
  have hcq : c1.queue = assignPerGate (build gs).queue (build gs).tr.idx vs := by rw [hc1]
  apply setParametersList_congr _ _ xs htr hpar hwid
  intro ws hws
  rw [hcq, assignPerGate_absorb _ _ _ _ hnd hvs.symm hws.symm]

/-- **The dispatch is unambiguous.**  If a list is as long as the number of trainable
    gates *and* as long as the total number of parameters (all widths ≥ 1, as for every
    qibo gate), then every trainable gate has width 1, so the per-gate reading — the one
    the code takes — and the flat reading assign the same values. -/
theorem T06_dispatch_unambiguous (ws : List Nat) (hpos : ∀ w ∈ ws, 1 ≤ w)
    (h : ws.length = ws.sum) : ∀ w ∈ ws, w = 1 := by
  induction ws with
  | nil => simp
  | cons a t ih =>
    have ha : 1 ≤ a := hpos a (by simp)
    have ht : ∀ w ∈ t, 1 ≤ w := fun w hw => hpos w (by simp [hw])
    have hle : t.length ≤ t.sum := length_le_sum t ht
    simp at h
    have ha1 : a = 1 := by omega
    have htl : t.length = t.sum := by omega
    intro w hw
    simp at hw
    rcases hw with rfl | hw
    · exact ha1
    · exact ih ht htl w hw

theorem T06_flat_eq_pergate_when_all_one (ws : List Nat) (ps : List β) (h1 : ∀ w ∈ ws, w = 1)
    (hl : ps.length = ws.length) : flatLoop ps ws 0 0 = ps.map fun x => [x] := by
  rw [flatLoop_eq_splitBy]
  induction ws generalizing ps with
  | nil => cases ps with
    | nil => rfl
    | cons a t => simp at hl
  | cons w rest ih =>
    cases ps with
    | nil => simp at hl
    | cons a t =>
      have hw : w = 1 := h1 w (by simp)
      subst hw
      simp [splitBy, ih t (fun w hw => h1 w (by simp [hw])) (by simpa using hl)]

/-- **Rebuild equivalence for every history.**  After any sequence of updates (any format,
    successful or refused), inversions and deep copies, the circuit state is exactly the
    state obtained by building a new circuit from the gates as they are now: the
    bookkeeping never drifts from the queue. Every view computed from the state therefore
    coincides with the view of the rebuilt circuit. -/
theorem T06_rebuild (dag : PG β → List β) (gs : List (PG β)) (ops : List (Op β)) :
    run dag (build gs) ops = build (run dag (build gs) ops).queue := by
  rw [← fresh_iff_build]
  have hstep : ∀ (c : Circ β) (op : Op β), Fresh c → Fresh (step dag c op) := by
    intro c op hc
    have hcb := (fresh_iff_build c).mp hc
    cases op with
    | setList xs =>
      simp only [step]
      cases hres : setParametersList c xs with
      | error e => simpa using hc
      | ok c' =>
        rw [hcb] at hres
        obtain ⟨hs, hp, ht, -⟩ := T06_only_trainable_change_list c.queue xs c' hres
        have : c' = { c with queue := c'.queue } := by
          cases c'; simp at hp ht ⊢; rw [hcb]; simp [hp, ht]
        simp only
        rw [this]
        exact fresh_set_queue c _ hc hs
    | setDict kvs =>
      simp only [step]
      cases hres : setParametersDict c kvs with
      | error e => simpa using hc
      | ok c' =>
        rw [hcb] at hres
        obtain ⟨hs, hp, ht, -⟩ := T06_only_trainable_change_dict c.queue kvs c' hres
        have : c' = { c with queue := c'.queue } := by
          cases c'; simp at hp ht ⊢; rw [hcb]; simp [hp, ht]
        simp only
        rw [this]
        exact fresh_set_queue c _ hc hs
    | invert => exact build_fresh _
    | copy => exact build_fresh _
  have : ∀ (ops : List (Op β)) (c : Circ β), Fresh c → Fresh (run dag c ops) := by
    intro ops
    induction ops with
    | nil => intro c hc; simpa [run] using hc
    | cons op t ih => intro c hc; exact ih (step dag c op) (hstep c op hc)
  exact this ops _ (build_fresh gs)

/-- inverting keeps the trainable flags in (reversed) queue order: the trainable gates of
    the inverse are the trainable gates of the original, reversed. -/
theorem T06_invert_skeleton (dag : PG β → List β) (gs : List (PG β)) :
    ((build gs).invert dag).queue.map PG.skel = (gs.map PG.skel).reverse := by
  simp [Circ.invert, build_queue, List.map_reverse, PG.skel, Function.comp_def]

/-- non-vacuity: a mixed circuit, flat update, read back in the three formats. -/
example :
    let gs : List (PG Int) := [⟨0, true, true, 1, [0]⟩, ⟨1, false, false, 0, []⟩,
      ⟨2, true, false, 2, [7, 8]⟩, ⟨3, true, true, 3, [0, 0, 0]⟩]
    (match setParametersList (build gs) [[5], [6], [7], [8]] with
     | .ok c => (getList c false, getFlat c true, getDict c false)
     | .error _ => ([], [], [])) =
    ([[5], [6, 7, 8]], [5, 7, 8, 6, 7, 8], [(0, [5]), (3, [6, 7, 8])]) := by decide

end QV.Props.C06
