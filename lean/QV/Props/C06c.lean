/-
  C06 (gate level) — "derived views use the current values" as a theorem about the gate-object
  model `QV.Model.GateObj`, for EVERY class table satisfying the decidable predicate
  `Table.fresh` and EVERY history of construct / update (any route) / deep copy / producer calls.

  The class table of the checked source tree is regenerated on every run by
  `tools/props/C06_gateobj.py` (introspection + poke-tracing of the real classes) and emitted
  as `lean/QV/Gen/C06_GateTable.lean` together with the kernel-decided obligation
  `Table.fresh table = true` and the instantiation of the theorems below at that table; an edit
  of qibo that makes a method read a copy which some setter does not refresh (or a deep copy share
  a written container, or a producer return a gate whose copies disagree) breaks the obligation.

  Negative witnesses: the pre-fix `PRX` (`_dagger` reading `self.theta`), the pre-fix `Unitary`
  (`init_args[0]` not refreshed), the pre-fix deep copy (shared `init_kwargs`) and
  `Circuit.invert` assigning `trainable` without `init_kwargs['trainable']` violate `fresh` — for
  every choice of the `live` certificate — and the conclusion fails on a concrete short history.
-/
import QV.Proofs.GateObj
set_option linter.unusedSimpArgs false
set_option linter.unusedVariables false
namespace QV.Props.C06
open QV.GateObj

variable {V : Type}

/-- **Invariant.**  For every fresh table and every history, every object of the store —
    constructed, updated through any setter route, deep-copied, or returned by a producer method
    of another object — holds in every live field the current value of the field's slot. -/
theorem T06_gate_history_coherent (T : Table) (hT : T.fresh = true) (F : Fn V)
    (ops : List (Op V)) : ∀ e ∈ run T F ops, Coh T e :=
  run_coh hT F ops

/-- **Views use the current values.**  After any history, what any consuming method (matrix,
    execution, qasm parameter printing, raw, decompose, …) reads from an object is what it reads
    from a freshly constructed gate of that class with the object's current values. -/
theorem T06_gate_views_current (T : Table) (hT : T.fresh = true) (F : Fn V) (ops : List (Op V))
    (e : Entry V) (he : e ∈ run T F ops) (m : View) (hm : m ∈ (T.cls e.cls).views) :
    observe m e.obj = observe m (construct (T.cls e.cls) e.cur) := by
  have hc := run_coh hT F ops e he
  have hv := (okParts (fresh_cls hT e.cls)).views m hm
  unfold observe
  apply List.map_congr_left
  intro f hf
  exact coh_eq_construct hT hc (sub_mem hv hf)

/-- **Producers use the current values.**  The gate returned by dagger / on_qubits /
    controlled_by / from_dict∘raw / Circuit.invert / … of an object after any history equals, on
    every live field of its class, the gate returned for a freshly constructed source with the
    current values; and that value is the specified function of the source's current values. -/
theorem T06_gate_producers_current (T : Table) (hT : T.fresh = true) (F : Fn V)
    (ops : List (Op V)) (e : Entry V) (he : e ∈ run T F ops) (P : Producer)
    (hP : P ∈ (T.cls e.cls).producers) (g : Field) (hg : g ∈ (T.cls P.out).live) :
    produceObj F P e.obj g = produceObj F P (construct (T.cls e.cls) e.cur) g ∧
    produceObj F P e.obj g = some (produceCur F P e.cur g.slot) := by
  have hc := run_coh hT F ops e he
  have h1 := coh_call hT F hc hP 0 g hg
  have hc' : Coh T (⟨e.cls, construct (T.cls e.cls) e.cur, 0, e.cur⟩ : Entry V) :=
    coh_construct hT e.cls 0 e.cur
  have h2 := coh_call hT F hc' hP 0 g hg
  exact ⟨h1.trans h2.symm, h1⟩

/-- **Derived gates are themselves like fresh gates.**  Every view of the gate a producer
    returns equals the view of a freshly constructed gate of the RESULT's class whose slot values
    are the specified functions of the source's current values (so chains such as
    update → invert → on_qubits → decompose never see a stale or incoherent copy). -/
theorem T06_gate_derived_views_current (T : Table) (hT : T.fresh = true) (F : Fn V)
    (ops : List (Op V)) (e : Entry V) (he : e ∈ run T F ops) (P : Producer)
    (hP : P ∈ (T.cls e.cls).producers) (m : View) (hm : m ∈ (T.cls P.out).views) :
    observe m (produceObj F P e.obj) =
      observe m (construct (T.cls P.out) (produceCur F P e.cur)) := by
  have hc := run_coh hT F ops e he
  have hnew : Coh T (⟨P.out, produceObj F P e.obj, 0, produceCur F P e.cur⟩ : Entry V) :=
    coh_call hT F hc hP 0
  have hv := (okParts (fresh_cls hT P.out)).views m hm
  unfold observe
  apply List.map_congr_left
  intro f hf
  exact coh_eq_construct hT hnew (sub_mem hv hf)

/-- **Kept slots (the `trainable` flag).**  For every producer and every pair (i, j) the table
    SPECIFIES as carried over (controlled_by with any number of controls, on_qubits,
    Circuit.on_qubits, Circuit.invert: a non-trainable gate yields a non-trainable gate), after any
    history the current value of slot `j` of the returned gate IS the current value of slot `i` of
    the source, and every live copy of that slot in the returned gate holds it. -/
theorem T06_gate_keeps_slot (T : Table) (hT : T.fresh = true) (F : Fn V) (ops : List (Op V))
    (e : Entry V) (he : e ∈ run T F ops) (P : Producer) (hP : P ∈ (T.cls e.cls).producers)
    (i j : Nat) (hk : (i, j) ∈ P.keeps) :
    produceCur F P e.cur j = e.cur i ∧
    ∀ g ∈ (T.cls P.out).live, g.slot = j → produceObj F P e.obj g = some (e.cur i) := by
  have hok := (okParts (fresh_cls hT e.cls)).producers P hP
  have h1 : produceCur F P e.cur j = e.cur i := produceCur_keeps hok F e.cur hk
  refine ⟨h1, fun g hg hgj => ?_⟩
  have hc := coh_call hT F (run_coh hT F ops e he) hP 0 g hg
  simp only at hc
  rw [hc, hgj, h1]

/-- **Isolation (deep copies included).**  Updating object `k` after any history leaves every
    other object — in particular the deep copies of `k` and the objects `k` was copied from —
    with the same class, the same current values and the same content of every view. -/
theorem T06_gate_update_isolated (T : Table) (hT : T.fresh = true) (F : Fn V)
    (ops : List (Op V)) (k s : Nat) (vals : Nat → V) (j : Nat) (hj : j ≠ k) (e : Entry V)
    (he : (run T F ops)[j]? = some e) :
    ∃ e', (run T F (ops ++ [.update k s vals]))[j]? = some e' ∧ e'.cls = e.cls ∧
      e'.cur = e.cur ∧ ∀ m ∈ (T.cls e.cls).views, observe m e'.obj = observe m e.obj := by
  obtain ⟨e', h1, h2, h3, h4⟩ :=
    update_others hT F (run T F ops) (run_coh hT F ops) k s vals j hj e he
  refine ⟨e', ?_, h2, h3, ?_⟩
  · simpa [run, List.foldl_append] using h1
  · intro m hm
    have hv := (okParts (fresh_cls hT e.cls)).views m hm
    unfold observe
    apply List.map_congr_left
    intro f hf
    exact h4 f (sub_mem hv hf)

/-- the object updated holds, slot by slot, the values just given (for the slots the setter
    assigns) — "reading back returns what was set" at the level of the specification state, and by
    `T06_gate_views_current` at the level of every view. -/
theorem T06_gate_update_sets (T : Table) (F : Fn V) (ops : List (Op V)) (k s : Nat)
    (vals : Nat → V) (t : Entry V) (S : Setter) (ht : (run T F ops)[k]? = some t)
    (hS : (T.cls t.cls).setters[s]? = some S) :
    ∃ e', (run T F (ops ++ [.update k s vals]))[k]? = some e' ∧ e'.cls = t.cls ∧
      ∀ i, e'.cur i = if i ∈ S.slots then vals i else t.cur i := by
  have hk : k < (run T F ops).length := by
    rcases Nat.lt_or_ge k (run T F ops).length with h | h
    · exact h
    · rw [List.getElem?_eq_none h] at ht; cases ht
  refine ⟨{ t with obj := writeAll t.obj S.writes vals,
                     cur := fun i => if i ∈ S.slots then vals i else t.cur i }, ?_, rfl, fun i => rfl⟩
  simp only [run, List.foldl_append, List.foldl_cons, List.foldl_nil]
  show (step T F (run T F ops) (.update k s vals))[k]? = _
  simp only [step, ht, hS]
  rw [List.getElem?_set_self (by simpa using hk)]

/-! ### non-vacuity and negative witnesses -/

section witnesses

def par (i : Nat) : Field := ⟨0, i, i⟩
def kw (i : Nat) : Field := ⟨1, i, i⟩
def arg0 : Field := ⟨2, 0, 0⟩
def attr (k slot : Nat) : Field := ⟨3, k, slot⟩
def trn (slot : Nat) : Field := ⟨4, 0, slot⟩
def kwTrn (slot : Nat) : Field := ⟨5, 0, slot⟩

/-- symbolic values: `[0, i]` = constructor-time value of slot `i`, `[1, i]` = value given by the
    last update, `j :: fn :: …` = a producer's function applied to what it read. -/
abbrev SV := List Nat
def vInit : Nat → SV := fun i => [0, i]
def vCur : Nat → SV := fun i => [1, i]
def FS : Fn SV := fun _ j fn args => (2 + j) :: fn :: (args.map (fun a => a.getD [9])).flatten

/-- `PRX`; row 0 of a one-row table.  `daggerReadsAttr = true` is the class before commit
    91af933dd (`_dagger` reading `self.theta`, `self.phi`), `false` the repaired one.  `live` is
    the closure the generator computes. -/
def prxRow (daggerReadsAttr : Bool) : Cls :=
  { name := "PRX"
    fields := [par 0, par 1, kw 0, kw 1, attr 0 0, attr 1 1]
    live := if daggerReadsAttr then [par 0, par 1, kw 0, kw 1, attr 0 0, attr 1 1]
            else [par 0, par 1, kw 0, kw 1]
    setters := [⟨"gate.parameters", [0, 1], [par 0, par 1, kw 0, kw 1]⟩]
    views := [⟨"matrix", [par 0, par 1]⟩, ⟨"raw", [kw 0, kw 1]⟩]
    producers := [⟨"dagger", 0,
      if daggerReadsAttr then
        [⟨par 0, [attr 0 0], 0⟩, ⟨par 1, [attr 1 1], 0⟩, ⟨kw 0, [attr 0 0], 0⟩, ⟨kw 1, [attr 1 1], 0⟩,
         ⟨attr 0 0, [attr 0 0], 0⟩, ⟨attr 1 1, [attr 1 1], 0⟩]
      else
        [⟨par 0, [par 0], 0⟩, ⟨par 1, [par 1], 0⟩, ⟨kw 0, [par 0], 0⟩, ⟨kw 1, [par 1], 0⟩,
         ⟨attr 0 0, [par 0], 0⟩, ⟨attr 1 1, [par 1], 0⟩], [], []⟩]
    copied := [par 0, par 1, kw 0, kw 1, attr 0 0, attr 1 1]
    shared := [] }

/-- non-vacuity: the repaired PRX row is fresh (the stale attributes `theta`, `phi` are not live) -/
example : Table.fresh [prxRow false] = true := by decide

/-- … and the theorems' hypotheses are satisfiable with a non-trivial history. -/
example : (run [prxRow false] FS
      [.construct 0 vInit, .update 0 0 vCur, .call 0 0, .copy 1, .update 2 0 vInit]).length = 3 := by
  decide

/-- the pre-fix PRX row is not fresh … -/
theorem T06_gate_prxOld_not_fresh : Table.fresh [prxRow true] = false := by decide

/-- … and the conclusion of `T06_gate_producers_current` fails on the 2-step history construct,
    update: `dagger` of the updated gate computes `_parameters[0]` from the constructor-time
    value, `dagger` of a fresh gate with the current values from the current one. -/
theorem T06_gate_prxOld_conclusion_fails :
    ((run [prxRow true] FS [.construct 0 vInit, .update 0 0 vCur])[0]?.map (fun e =>
      (Table.cls [prxRow true] e.cls).producers.map (fun P =>
        decide (produceObj FS P e.obj (par 0) =
          produceObj FS P (construct (Table.cls [prxRow true] e.cls) e.cur) (par 0)))))
      = some [false] := by decide

/-- `Unitary`; `setterWritesArg = false` is the class before commit 7b6eb8109 (the setter
    refreshed `_parameters[0]` only, while `raw` / `decompose` read `init_args[0]`). -/
def unitaryRow (setterWritesArg : Bool) : Cls :=
  { name := "Unitary"
    fields := [par 0, arg0]
    live := [par 0, arg0]
    setters := [⟨"gate.parameters", [0], if setterWritesArg then [par 0, arg0] else [par 0]⟩]
    views := [⟨"matrix", [par 0]⟩, ⟨"raw", [arg0]⟩]
    producers := []
    copied := [par 0, arg0]
    shared := [] }

example : Table.fresh [unitaryRow true] = true := by decide

theorem T06_gate_unitaryOld_not_fresh : Table.fresh [unitaryRow false] = false := by decide

/-- 2-step history construct, update: `matrix` shows the new value, `raw` of the pre-fix
    Unitary still the old matrix (the conclusion of `T06_gate_views_current` fails for `raw`). -/
theorem T06_gate_unitaryOld_conclusion_fails :
    ((run [unitaryRow false] FS [.construct 0 vInit, .update 0 0 vCur])[0]?.map (fun e =>
      (Table.cls [unitaryRow false] e.cls).views.map (fun m =>
        decide (observe m e.obj = observe m (construct (Table.cls [unitaryRow false] e.cls) e.cur)))))
      = some [true, false] := by decide

/-- deep copy; `copyShares = true` is `Circuit.copy(deep=True)` before commit 5ecf884b9: the copy
    shares `init_kwargs` with its source. -/
def rxRow (copyShares : Bool) : Cls :=
  { name := "RX"
    fields := [par 0, kw 0]
    live := [par 0, kw 0]
    setters := [⟨"gate.parameters", [0], [par 0, kw 0]⟩]
    views := [⟨"matrix", [par 0]⟩, ⟨"raw", [kw 0]⟩]
    producers := []
    copied := [par 0, kw 0]
    shared := if copyShares then [kw 0] else [] }

example : Table.fresh [rxRow false] = true := by decide

theorem T06_gate_copyOld_not_fresh : Table.fresh [rxRow true] = false := by decide

/-- construct, deep copy, update the COPY: `raw` of the ORIGINAL (object 0) shows the copy's
    new value although its current values are the constructor's. -/
theorem T06_gate_copyOld_conclusion_fails :
    ((run [rxRow true] FS [.construct 0 vInit, .copy 0, .update 1 0 vCur])[0]?.map (fun e =>
      (Table.cls [rxRow true] e.cls).views.map (fun m =>
        decide (observe m e.obj = observe m (construct (Table.cls [rxRow true] e.cls) e.cur)))))
      = some [true, false] := by decide

/-- … while with own containers the same history leaves the original alone. -/
example :
    ((run [rxRow false] FS [.construct 0 vInit, .copy 0, .update 1 0 vCur])[0]?.map (fun e =>
      (Table.cls [rxRow false] e.cls).views.map (fun m =>
        decide (observe m e.obj = observe m (construct (Table.cls [rxRow false] e.cls) e.cur)))))
      = some [true, true] := by decide

/-- `Circuit.invert`: `new_gate.trainable = gate.trainable` without the mirrored
    `init_kwargs['trainable']` (slot 1 = the flag; `invertSetsKwarg = false`): the returned gate
    is incoherent, so `decompose` / `on_qubits` / `raw` of the inverted circuit's gate see the
    constructor default of `trainable`. -/
def invRow (invertSetsKwarg : Bool) : Cls :=
  { name := "RX"
    fields := [par 0, kw 0, trn 1, kwTrn 1]
    live := [par 0, kw 0, trn 1, kwTrn 1]
    setters := [⟨"gate.parameters", [0], [par 0, kw 0]⟩]
    views := [⟨"matrix", [par 0]⟩, ⟨"trainable_gates", [trn 1]⟩, ⟨"decompose", [kw 0, kwTrn 1]⟩]
    producers := [⟨"circuit_invert", 0,
      [⟨par 0, [par 0], 0⟩, ⟨kw 0, [par 0], 0⟩, ⟨trn 1, [trn 1], 0⟩,
       ⟨kwTrn 1, if invertSetsKwarg then [trn 1] else [], 0⟩],
      if invertSetsKwarg then [trn 1, kwTrn 1] else [trn 1], [(1, 1)]⟩]
    copied := [par 0, kw 0, trn 1, kwTrn 1]
    shared := [] }

example : Table.fresh [invRow true] = true := by decide

theorem T06_gate_invert_flag_not_fresh : Table.fresh [invRow false] = false := by decide

/-- construct, then `Circuit.invert`: the views `matrix` and `trainable_gates` of the returned
    gate are those of a fresh gate with the specified values, `decompose` is not (the conclusion of
    `T06_gate_derived_views_current` fails). -/
theorem T06_gate_invert_flag_conclusion_fails :
    ((run [invRow false] FS [.construct 0 vInit])[0]?.map (fun e =>
      (Table.cls [invRow false] e.cls).producers.map (fun P =>
        (Table.cls [invRow false] P.out).views.map (fun m =>
          decide (observe m (produceObj FS P e.obj) =
            observe m (construct (Table.cls [invRow false] P.out) (produceCur FS P e.cur)))))))
      = some [[true, true, false]] := by decide

/-- the single-control fall-back `RX.controlled_by(q)` → `CRX` (slot 1 = the flag).
    `passesKwargs = false`: the CRX is built from `theta=self.parameters[0]` only, so the flag of
    the result is the constructor default whatever the source's flag. -/
def rxCtrlTable (passesKwargs : Bool) : Table :=
  [{ name := "RX", fields := [par 0, kw 0, trn 1, kwTrn 1], live := [par 0, kw 0, trn 1, kwTrn 1],
     setters := [⟨"gate.parameters", [0], [par 0, kw 0]⟩],
     views := [⟨"matrix", [par 0]⟩, ⟨"trainable_gates", [trn 1]⟩],
     producers := [⟨"controlled_by1", 1,
       if passesKwargs then
         [⟨par 0, [kw 0], 0⟩, ⟨kw 0, [kw 0], 0⟩, ⟨trn 1, [kwTrn 1], 0⟩, ⟨kwTrn 1, [kwTrn 1], 0⟩]
       else
         [⟨par 0, [par 0], 0⟩, ⟨kw 0, [par 0], 0⟩, ⟨trn 1, [], 0⟩, ⟨kwTrn 1, [], 0⟩],
       if passesKwargs then [par 0, kw 0, trn 1, kwTrn 1] else [par 0, kw 0], [(1, 1)]⟩],
     copied := [par 0, kw 0, trn 1, kwTrn 1], shared := [] },
   { name := "CRX", fields := [par 0, kw 0, trn 1, kwTrn 1], live := [par 0, kw 0, trn 1, kwTrn 1],
     setters := [⟨"gate.parameters", [0], [par 0, kw 0]⟩],
     views := [⟨"matrix", [par 0]⟩, ⟨"trainable_gates", [trn 1]⟩, ⟨"raw", [kw 0, kwTrn 1]⟩],
     producers := [], copied := [par 0, kw 0, trn 1, kwTrn 1], shared := [] }]

example : Table.fresh (rxCtrlTable true) = true := by decide

/-- a coherent result is not enough: the flag must come from the source. -/
theorem T06_gate_ctrl_drops_flag_not_fresh : Table.fresh (rxCtrlTable false) = false := by decide

/-- construct (flag `[0, 1]`), then `controlled_by(q)`: `trainable_gates` of the returned CRX sees
    the producer's constant instead of the source's flag (conclusion of `T06_gate_keeps_slot`). -/
theorem T06_gate_ctrl_drops_flag_conclusion_fails :
    ((run (rxCtrlTable false) FS [.construct 0 vInit])[0]?.map (fun e =>
      (Table.cls (rxCtrlTable false) e.cls).producers.map (fun P =>
        decide (produceObj FS P e.obj (trn 1) = some (e.cur 1)))))
      = some [false] := by decide

example :
    ((run (rxCtrlTable true) FS [.construct 0 vInit])[0]?.map (fun e =>
      (Table.cls (rxCtrlTable true) e.cls).producers.map (fun P =>
        decide (produceObj FS P e.obj (trn 1) = some (e.cur 1)))))
      = some [true] := by decide

/-- a two-row table with a producer into another class (`RX.controlled_by(q)` returns a `CRX`
    built from `init_kwargs`) is fresh: the hypotheses are satisfiable across classes. -/
example : Table.fresh
    [{ name := "RX", fields := [par 0, kw 0], live := [par 0, kw 0],
       setters := [⟨"gate.parameters", [0], [par 0, kw 0]⟩],
       views := [⟨"matrix", [par 0]⟩],
       producers := [⟨"controlled_by", 1, [⟨par 0, [kw 0], 0⟩, ⟨kw 0, [kw 0], 0⟩], [par 0, kw 0], []⟩],
       copied := [par 0, kw 0], shared := [] },
     { name := "CRX", fields := [par 0, kw 0], live := [par 0, kw 0],
       setters := [⟨"gate.parameters", [0], [par 0, kw 0]⟩],
       views := [⟨"matrix", [par 0]⟩, ⟨"raw", [kw 0]⟩],
       producers := [], copied := [par 0, kw 0], shared := [] }] = true := by decide

end witnesses

end QV.Props.C06
