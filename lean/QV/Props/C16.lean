/-
  C16 — time evolution reaches exp(-iHt).   Part 1: term grouping, merging, the symmetric
  Trotter queue and the loop of `StateEvolution.execute`, over an arbitrary commutative
  (semi)ring of scalars.  Property theorems only (proofs: QV/Proofs/Evolution.lean).
  Model: QV/Model/Evolution.lean (`fromTerms`, `HTerm.merge`, `TGroup.toTerm`,
  `trotterGates`, `execute`), tied to qibo's `TermGroup.from_terms / to_term`,
  `HamiltonianTerm.merge`, `SymbolicHamiltonian.circuit`,
  `SymbolicAdiabaticHamiltonian.circuit`, `StateEvolution.execute` by lean/DriverC16.lean.

  No register size appears: labels are total functions `Nat → Bool`; term lists, qubit
  subsets and their orders are arbitrary.  Part 2 (exponentials, step count, Runge–Kutta):
  QV/Props/C16b.lean.
-/
import QV.Proofs.Evolution
namespace QV.Props.C16
open QV QV.Evo

variable {α : Type}

/-- `from_terms` visits the terms in a rearrangement of the given list … -/
theorem T16_order_perm (ts : List (HTerm α)) : (orderTerms ts).Perm ts :=
  orderTerms_perm ts

/-- … by decreasing number of target qubits (so a parent is met before its children). -/
theorem T16_order_sorted (ts : List (HTerm α)) :
    (orderTerms ts).Pairwise (fun a b => b.qs.length ≤ a.qs.length) :=
  orderTerms_sorted ts

/-- **Partition.**  Every term of every term list lands in exactly one group: the members of
the groups, concatenated, are a rearrangement of the input (multiset preserved). -/
theorem T16_groups_partition (ts : List (HTerm α)) :
    ((fromTerms ts).flatMap (·.members)).Perm ts :=
  fromTerms_members_perm ts

/-- **Shape of a group.**  Every group is a parent followed by terms whose qubits are among
the parent's (so `merge` never raises), and the group's qubit set is the parent's. -/
theorem T16_groups_parent (ts : List (HTerm α)) (g : TGroup α) (hg : g ∈ fromTerms ts) :
    ∃ p rest, g.members = p :: rest ∧ (∀ t ∈ rest, ∀ q ∈ t.qs, q ∈ p.qs) ∧
      ∀ q, q ∈ g.qubits ↔ q ∈ p.qs :=
  fromTerms_good ts g hg

section ring
variable [CommSemiring α]

/-- **merge = sum**, any nesting and any qubit order: for a child on a subset of the parent's
qubits, the merged term (one gate on the parent's ordered qubits) acts on every state as
parent + child. -/
theorem T16_merge (p t : HTerm α) (hp : p.qs.Nodup) (ht : t.qs.Nodup)
    (hsub : ∀ q ∈ t.qs, q ∈ p.qs) (ψ : Lab → α) (x : Lab) :
    applyGate (p.merge t).gate ψ x = applyGate p.gate ψ x + applyGate t.gate ψ x :=
  applyGate_merge p t hp ht hsub ψ x

/-- the hypotheses of `T16_merge` are satisfiable with a reversed, non-adjacent qubit order. -/
example : ∃ p t : HTerm Nat, p.qs.Nodup ∧ t.qs.Nodup ∧ (∀ q ∈ t.qs, q ∈ p.qs) ∧ t.qs ≠ p.qs :=
  ⟨{ mat := fun _ _ => 1, qs := [3, 0, 2] }, { mat := fun _ _ => 1, qs := [2, 3] },
    by decide, by decide, by decide, by decide⟩

/-- **`to_term` = weighted sum of the members**, for every group `from_terms` produces and every
assignment of coefficients to the parent Hamiltonians (adiabatic evolution: `1 - s`, `s`). -/
theorem T16_toTerm (c : Nat → α) (ts : List (HTerm α)) (hn : ∀ t ∈ ts, t.qs.Nodup)
    (g : TGroup α) (hg : g ∈ fromTerms ts) (ψ : Lab → α) (x : Lab) :
    applyGate (g.toTerm c).gate ψ x
      = (g.members.map fun t => c t.ham * applyGate t.gate ψ x).sum := by
  apply applyGate_toTerm c g (fromTerms_good ts g hg)
  intro t ht
  apply hn
  apply (fromTerms_members_perm ts).mem_iff.mp
  exact List.mem_flatMap.mpr ⟨g, hg, ht⟩

/-- **Grouping preserves the Hamiltonian.**  The sum of the merged group terms acts as the
(weighted) sum of the original terms: with `c = 1` this is `Σ_groups = H - constant`; with
`c 0 = 1 - s`, `c 1 = s` it is `(1 - s) H0 + s H1` for the adiabatic Trotter circuit. -/
theorem T16_groups_sum (c : Nat → α) (ts : List (HTerm α)) (hn : ∀ t ∈ ts, t.qs.Nodup)
    (ψ : Lab → α) (x : Lab) :
    ((fromTerms ts).map fun g => applyGate (g.toTerm c).gate ψ x).sum
      = (ts.map fun t => c t.ham * applyGate t.gate ψ x).sum := by
  have h1 : ((fromTerms ts).map fun g => applyGate (g.toTerm c).gate ψ x)
      = (fromTerms ts).map fun g => (g.members.map fun t => c t.ham * applyGate t.gate ψ x).sum :=
    List.map_congr_left fun g hg => T16_toTerm c ts hn g hg ψ x
  rw [h1, ← sum_map_flatMap]
  exact ((fromTerms_members_perm ts).map _).sum_eq

/-- **Adiabatic Trotter circuit uses `(1 - s) H0 + s H1`.**  The groups of
`SymbolicAdiabaticHamiltonian` (built from the terms of both Hamiltonians, regrouped) with the
coefficients `c 0` for `h0`'s terms and `c 1` for `h1`'s: the merged gates sum up to
`c 0 · Σ h0.terms + c 1 · Σ h1.terms`. -/
theorem T16_adiabatic (c : Nat → α) (t0 t1 : List (HTerm α)) (hn0 : ∀ t ∈ t0, t.qs.Nodup)
    (hn1 : ∀ t ∈ t1, t.qs.Nodup) (ψ : Lab → α) (x : Lab) :
    ((adiabaticGroups t0 t1).map fun g => applyGate (g.toTerm c).gate ψ x).sum
      = c 0 * (t0.map fun t => applyGate t.gate ψ x).sum
        + c 1 * (t1.map fun t => applyGate t.gate ψ x).sum := by
  have hn : ∀ t ∈ adiabaticTerms t0 t1, t.qs.Nodup := by
    intro t ht
    unfold adiabaticTerms at ht
    rcases List.mem_append.mp ht with h | h
    · obtain ⟨u, hu, rfl⟩ := List.mem_map.mp h
      exact hn0 u ((fromTerms_members_perm t0).mem_iff.mp hu)
    · obtain ⟨u, hu, rfl⟩ := List.mem_map.mp h
      exact hn1 u ((fromTerms_members_perm t1).mem_iff.mp hu)
  unfold adiabaticGroups
  rw [T16_groups_sum c _ hn]
  unfold adiabaticTerms
  rw [List.map_append, List.sum_append, List.map_map, List.map_map]
  have e0 : ((fun t : HTerm α => c t.ham * applyGate t.gate ψ x) ∘ fun t : HTerm α => { t with ham := 0 })
      = fun t => c 0 * applyGate t.gate ψ x := rfl
  have e1 : ((fun t : HTerm α => c t.ham * applyGate t.gate ψ x) ∘ fun t : HTerm α => { t with ham := 1 })
      = fun t => c 1 * applyGate t.gate ψ x := rfl
  rw [e0, e1, ((fromTerms_members_perm t0).map _).sum_eq, ((fromTerms_members_perm t1).map _).sum_eq,
    List.sum_map_mul_left, List.sum_map_mul_left]

/-- the gate of a group acts on the parent's ordered qubits. -/
theorem T16_toTerm_qubits (c : Nat → α) (g : TGroup α) (p : HTerm α) (rest : List (HTerm α))
    (hm : g.members = p :: rest) : (g.toTerm c).qs = p.qs :=
  toTerm_qs c g hm

/-- **The Trotter queue is a palindrome** (groups forward, then backward). -/
theorem T16_trotter_palindrome (E : α → HTerm α → Nat → Nat → α) (c : Nat → α) (a : α)
    (gs : List (TGroup α)) : (trotterGates E c a gs).reverse = trotterGates E c a gs :=
  trotterGates_reverse E c a gs

end ring

/-- **Time-reversal symmetry of the Trotter step** `S(dt) S(-dt) = 1`, for EVERY list of
groups (commuting or not, any qubit subsets): if each exponential is undone by the exponential
of the opposite step, the whole queue for `-a` undoes the queue for `a`.  (A symmetric
one-step method has even order: this is the algebraic core of the `dt³` local error.) -/
theorem T16_trotter_reversible [CommRing α] (E : α → HTerm α → Nat → Nat → α) (c : Nat → α)
    (a : α) (gs : List (TGroup α))
    (hE : ∀ g ∈ gs,
      MGate.IsLeftInv
        { mat := E (-a) (g.toTerm c), targets := (g.toTerm c).qs, controls := [] }
        ({ mat := E a (g.toTerm c), targets := (g.toTerm c).qs, controls := [] } : MGate α))
    (ψ : Lab → α) :
    runCircuit (trotterGates E c (-a) gs) (runCircuit (trotterGates E c a gs) ψ) = ψ :=
  runCircuit_trotter_inverse E c a gs hE ψ

/-- the hypothesis of `T16_trotter_reversible` is satisfiable by a non-trivial family:
`E a t = [[1, a], [0, 1]]` on one qubit (`exp` of a nilpotent generator) over ℤ. -/
example (a : Int) (q : Nat) :
    MGate.IsLeftInv
      { mat := fun i j => if i = j then 1 else if i = 0 ∧ j = 1 then -a else 0,
        targets := [q], controls := [] }
      ({ mat := fun i j => if i = j then 1 else if i = 0 ∧ j = 1 then a else 0,
         targets := [q], controls := [] } : MGate Int) where
  targets_eq := rfl
  controls_eq := rfl
  nodup := by simp
  disj := by simp
  mul_eq := by
    intro i j hi hj
    simp only [List.length_singleton, Nat.pow_one] at hi hj ⊢
    have hi' : i = 0 ∨ i = 1 := by omega
    have hj' : j = 0 ∨ j = 1 := by omega
    rcases hi' with rfl | rfl <;> rcases hj' with rfl | rfl <;>
      simp [Finset.sum_range_succ]

/-! ### the loop of `StateEvolution.execute` -/

/-- without callbacks the result is the normalisation of `n` solver steps … -/
theorem T16_execute_final {S : Type} (step norm : S → S) (n : Nat) (s : S) :
    (execute step norm false n s).1 = norm (step^[n] s) :=
  evolveLoop_fst_nocb step norm n s [s]

/-- … with callbacks the state is normalised after every step … -/
theorem T16_execute_final_callbacks {S : Type} (step norm : S → S) (n : Nat) (s : S) :
    (execute step norm true n s).1 = norm ((fun v => norm (step v))^[n] s) :=
  evolveLoop_fst_cb step norm n s [s]

/-- … so for the solvers that do not normalise ('exp', Trotter) callbacks do not change the
result. -/
theorem T16_execute_callbacks_irrelevant {S : Type} (step : S → S) (n : Nat) (s : S) (cb : Bool) :
    (execute step id cb n s).1 = step^[n] s :=
  execute_id_fst step n s cb

/-- the callbacks see `n + 1` states: the initial one and one per step. -/
theorem T16_execute_callback_count {S : Type} (step norm : S → S) (n : Nat) (s : S) :
    (execute step norm true n s).2.length = n + 1 := by
  have h := evolveLoop_snd_cb_length step norm n s [s]
  simpa [execute, Nat.add_comm] using h

/-- every state the callbacks see after the initial one is a normalised state. -/
theorem T16_execute_callback_states {S : Type} (step norm : S → S) (n : Nat) (s : S) :
    ∀ v ∈ (execute step norm true n s).2, v = s ∨ ∃ w, v = norm w := by
  intro v hv
  rcases evolveLoop_snd_cb_mem step norm n s [s] v hv with h | h
  · exact Or.inl (List.mem_singleton.mp h)
  · exact Or.inr h

end QV.Props.C16
