/-
  C19 — noise attachment is faithful.   Part 3: the hardware-style composite model
  `IBMQNoiseModel.from_dict` INSIDE the model (QV/Model/NoiseIBMQ.lean: `fromDict`, the
  transliterated rule generation; `ibmqSpec`, the documented per-gate noisy queue), proofs in
  QV/Proofs/NoiseIBMQ.lean.

  Main theorem `T19_ibmq_refines`: for every parameters dictionary (global-number and per-qubit
  dict forms of every entry, any insertion order, any readout value form, also the dictionaries
  on which the Python raises), every circuit and every position of the class `gates.M` in the
  class table, `from_dict` followed by the proved `NoiseModel.apply` model (`attachNoise`)
  produces exactly the documented queue: in front of every measurement the readout channels of
  its qubits (dict order), after every one- / two-qubit gate its depolarizing channel(s) and then
  one thermal-relaxation channel per qubit with the gate time of the gate's arity, nothing
  after gates on three or more qubits or after channels, the gates themselves unchanged and in
  order.  The dictionary is taken as the user writes it: the keys are STRINGS, parsed by the model
  (`T19_ibmq_refines_string_keys`); the parser reads numerals of any length with blanks around
  them (`T19_ibmq_numeral`, `T19_ibmq_pair_key`, `T19_ibmq_qubit_key`), so registers with more than
  ten qubits are covered by the same statement.  The tie is tools/props/C19_ibmq.py: `fromDict`, `attachNoise` and `ibmqSpec` run
  (lean/DriverC19b.lean) against the real `IBMQNoiseModel().from_dict(...).apply(circuit)`.
-/
import QV.Proofs.NoiseIBMQ
import QV.Proofs.NoiseIBMQKeys
namespace QV.Props.C19
open QV QV.Noise

variable {V : Type}

/-- **Rule numbers can be replaced by rule parameters** (any rule list with parameters, not
only the IBMQ one): the block a gate contributes to `NoiseModel.apply(circuit).queue`, with every
channel labelled by the parameters of the rule that created it, is
`[channels of the selected readout rules] ++ [gate] ++ [channels of the other selected rules]`,
the selection (`selP`) and the channels (`chansP`) being computed without rule numbers. -/
theorem T19_decode_block (R : List (PRule V)) (g : NGate) :
    (block (R.map (·.1)) g).map (decodeItem R)
      = (selP R g true).flatMap (chansP g) ++ SItem.gate g :: (selP R g false).flatMap (chansP g) :=
  decode_block R g

/-- **`from_dict` raises exactly on the dictionaries the SPEC rejects**: a key of the dict `t1`
missing in the dict `t2` (`KeyError`) or an empty readout tuple (`IndexError`). -/
theorem T19_ibmq_from_dict_defined (mCls : Nat) (P : IBMQParams V) :
    (fromDict mCls P).isSome = paramsOk P :=
  fromDict_isSome mCls P

/-- **One gate.**  Whatever rule list `from_dict` produced, the block of a gate in the noisy
queue is the documented one. -/
theorem T19_ibmq_block (mCls : Nat) (P : IBMQParams V) (R : List (PRule V))
    (hR : fromDict mCls P = some R) (g : NGate) (hg : GateOk mCls g) :
    (block (R.map (·.1)) g).map (decodeItem R) = specBlock P g :=
  ibmq_block mCls P R hR g hg

/-- **`IBMQNoiseModel.from_dict(parameters)` then `.apply(circuit)` is the documented noisy
circuit**, for all parameter dictionaries and all circuits (`GateOk`: the flag `isM` of a gate
says whether its class is `gates.M`, a channel is not a measurement, a measurement has at least
one qubit). -/
theorem T19_ibmq_refines (mCls : Nat) (P : IBMQParams V) (queue : List NGate)
    (hq : ∀ g ∈ queue, GateOk mCls g) : ibmqApply mCls P queue = ibmqSpec P queue :=
  ibmq_refines mCls P queue hq

/-- non-vacuity: a circuit `H(0); CNOT(1, 0); TOFFOLI(0, 1, 2); M(0, 2)` (class codes 0, 10, 15,
17 = `gates.M`) satisfies the hypothesis, and on the dictionary of qibo's docstring example
(per-qubit forms, numbers as identifiers) `from_dict` succeeds and the two sides are a concrete
non-trivial queue. -/
example : ∃ (P : IBMQParams Nat) (queue : List NGate), (∀ g ∈ queue, GateOk 17 g) ∧
    (ibmqSpec P queue).isSome ∧ ((ibmqSpec P queue).getD []).length = 10 := by
  refine ⟨{ dep1 := .dict [(0, 1), (2, 2), (3, 3)], dep2 := .dict [([0, 1], 4), ([1, 0], 5)],
            t1 := .dict [(0, 6), (1, 7), (3, 8)], t2 := .dict [(3, 11), (0, 9), (1, 10)],
            gt1 := 12, gt2 := 13, ep := 14,
            ro := .dict [(0, .seq [15, 16]), (1, .num 17), (3, .seq [18])] },
          [⟨0, 0, [0], false, false⟩, ⟨1, 10, [1, 0], false, false⟩, ⟨2, 15, [0, 1, 2], false, false⟩,
           ⟨3, 17, [0, 2], true, false⟩], ?_, by decide, by decide⟩
  intro g hg
  simp only [List.mem_cons, List.not_mem_nil, or_false] at hg
  rcases hg with rfl | rfl | rfl | rfl <;> exact ⟨by decide, by decide, by decide⟩

/-- every element is a channel. -/
def AllChan (l : List (SItem V)) : Prop := ∀ it ∈ l, ∃ k p qs, it = SItem.chan k p qs

theorem filterMap_gate_allChan {l : List (SItem V)} (h : AllChan l) :
    l.filterMap (fun it => match it with | .gate g => some g | _ => none) = [] := by
  apply List.filterMap_eq_nil_iff.mpr
  intro it hit
  obtain ⟨k, p, qs, rfl⟩ := h it hit
  rfl

theorem specReadout_allChan (P : IBMQParams V) (g : NGate) : AllChan (specReadout P g) := by
  obtain ⟨d1, d2, t1, t2, g1, g2, ep, ro⟩ := P
  intro it h
  cases ro with
  | num r => simp [specReadout] at h; exact ⟨_, _, _, h⟩
  | dict l =>
    simp only [specReadout, List.mem_filterMap] at h
    obtain ⟨e, _, he⟩ := h
    cases hp : roProbs e.2 with
    | none => simp [hp] at he
    | some p => simp [hp] at he; exact ⟨_, _, _, he.symm⟩
  | other => simp [specReadout] at h

theorem specDepol_allChan (P : IBMQParams V) (g : NGate) : AllChan (specDepol P g) := by
  obtain ⟨d1, d2, t1, t2, g1, g2, ep, ro⟩ := P
  intro it h
  unfold specDepol at h
  rcases List.mem_append.mp h with h | h
  · split at h
    · cases d1 with
      | num a => simp at h; exact ⟨_, _, _, h⟩
      | dict l => simp only [List.mem_map] at h; obtain ⟨e, _, he⟩ := h; exact ⟨_, _, _, he.symm⟩
      | other => simp at h
    · simp at h
  · split at h
    · cases d2 with
      | num a => simp at h; exact ⟨_, _, _, h⟩
      | dict l => simp only [List.mem_map] at h; obtain ⟨e, _, he⟩ := h; exact ⟨_, _, _, he.symm⟩
      | other => simp at h
    · simp at h

theorem specThermal_allChan (P : IBMQParams V) (g : NGate) : AllChan (specThermal P g) := by
  obtain ⟨d1, d2, t1, t2, g1, g2, ep, ro⟩ := P
  intro it h
  unfold specThermal at h
  split at h
  · cases t1 with
    | num a =>
      cases t2 with
      | num b => simp only [List.mem_map] at h; obtain ⟨q, _, he⟩ := h; exact ⟨_, _, _, he.symm⟩
      | dict l2 => simp at h
      | other => simp at h
    | dict l1 =>
      cases t2 with
      | num b => simp at h
      | dict l2 =>
        simp only [List.mem_filterMap] at h
        obtain ⟨e, _, he⟩ := h
        cases hp : dictGet l2 e.1 with
        | none => simp [hp] at he
        | some p => simp [hp] at he; exact ⟨_, _, _, he.symm⟩
      | other => simp at h
    | other => cases t2 <;> simp at h
  · simp at h

/-- **The gates survive, in order**: erasing the channels from the documented queue gives the
input queue back (hence, with `T19_ibmq_refines`, from the real noisy queue). -/
theorem T19_ibmq_preserves (P : IBMQParams V) (queue : List NGate) :
    (queue.flatMap (specBlock P)).filterMap (fun it => match it with | .gate g => some g | _ => none)
      = queue := by
  induction queue with
  | nil => rfl
  | cons g q ih =>
    rw [List.flatMap_cons, List.filterMap_append, ih]
    have : (specBlock P g).filterMap (fun it => match it with | .gate g => some g | _ => none) = [g] := by
      unfold specBlock
      split
      · rw [List.filterMap_append, filterMap_gate_allChan (specReadout_allChan P g)]
        rfl
      · split
        · rfl
        · rw [List.filterMap_cons]
          simp only [List.filterMap_append, filterMap_gate_allChan (specDepol_allChan P g),
            filterMap_gate_allChan (specThermal_allChan P g), List.append_nil]
    rw [this]
    rfl

/-- **Gates on three or more qubits and channels already in the circuit get no noise.** -/
theorem T19_ibmq_untouched (P : IBMQParams V) (g : NGate) (hm : g.isM = false)
    (h : g.isChan = true ∨ 3 ≤ g.qubits.length) : specBlock P g = [.gate g] := by
  unfold specBlock
  rw [hm]
  rcases h with h | h
  · simp [h]
  · have h1 : (g.qubits.length == 1) = false := by simp; omega
    have h2 : (g.qubits.length == 2) = false := by simp; omega
    by_cases hc : g.isChan = true
    · simp [hc]
    · simp [hc, specDepol, specThermal, h1, h2]

/-- **A measurement gets exactly its readout channels, in front of it**: with a per-qubit
dictionary one channel for every listed qubit the measurement acts on (dictionary order), each
with `(p(0|1), p(1|0))` taken from the value of that qubit (`p`, `[p]` ↦ `(p, p)`). -/
theorem T19_ibmq_measurement (P : IBMQParams V) (g : NGate) (hm : g.isM = true)
    (l : List (Nat × ROVal V)) (hro : P.ro = .dict l) :
    specBlock P g
      = ((l.filter fun e => g.qubits.contains e.1).filterMap fun e =>
          (roProbs e.2).map fun p => SItem.chan .readout (.readout p.1 p.2) [e.1]) ++ [.gate g] := by
  unfold specBlock specReadout
  rw [hm, hro]
  rfl

/-- **A two-qubit gate with global numbers**: the depolarizing channel on the two qubits of the
gate (in the gate's order), then one thermal-relaxation channel per qubit, in the gate's order,
with the two-qubit gate time. -/
theorem T19_ibmq_two_qubit_global (P : IBMQParams V) (g : NGate) (a b : Nat) (hq : g.qubits = [a, b])
    (hm : g.isM = false) (hc : g.isChan = false) (lam t1 t2 : V)
    (h2 : P.dep2 = .num lam) (h3 : P.t1 = .num t1) (h4 : P.t2 = .num t2) :
    specBlock P g = [.gate g, .chan .depol (.depol lam) [a, b],
      .chan .thermal (.thermal t1 t2 P.gt2 P.ep) [a], .chan .thermal (.thermal t1 t2 P.gt2 P.ep) [b]] := by
  unfold specBlock specDepol specThermal
  simp [hm, hc, hq, h2, h3, h4]

/-! ### the keys of the dictionary are strings -/

/-- **The refinement for the dictionary as the user writes it** (string keys; the model parses
them with `parseQubitKey` = `int(key)` and `parsePairKey` =
`tuple(map(int, key.replace(" ", "").split("-")))`; a key that is not a numeral / a list of
numerals makes both sides `none` = the Python raises `ValueError`). -/
theorem T19_ibmq_refines_string_keys (mCls : Nat) (P : IBMQParamsS V) (queue : List NGate)
    (hq : ∀ g ∈ queue, GateOk mCls g) : ibmqApplyS mCls P queue = ibmqSpecS P queue :=
  ibmq_refines_S mCls P queue hq

/-- **The parser reads numerals of any length**: `int(str(n)) = n` in the model, for every `n`
(`decimal n` = the decimal numeral of `n`, most significant digit first). -/
theorem T19_ibmq_numeral (n : Nat) : parseNat (decimal n) = some n := parseNat_decimal n

/-- **Pair keys**: for all qubit indices `a b` (one digit or many) and any blanks around the
numerals, the key `" a - b "` denotes the ordered pair `(a, b)` … -/
theorem T19_ibmq_pair_key (a b k1 k2 k3 k4 : Nat) :
    parsePairKey (blanks k1 ++ decimal a ++ blanks k2 ++ '-' :: (blanks k3 ++ decimal b ++ blanks k4))
      = some [a, b] :=
  parsePairKey_decimal a b k1 k2 k3 k4

/-- … and a per-qubit key `" n "` denotes qubit `n`. -/
theorem T19_ibmq_qubit_key (n k1 k2 : Nat) :
    parseQubitKey (blanks k1 ++ decimal n ++ blanks k2) = some n :=
  parseQubitKey_decimal n k1 k2

/-- concrete instances on real strings: two-digit indices, both orientations, with blanks; and
what is rejected. -/
theorem T19_ibmq_key_examples :
    parsePairKey "10-11".toList = some [10, 11] ∧ parsePairKey "3 - 10".toList = some [3, 10]
      ∧ parsePairKey " 12 -0".toList = some [12, 0] ∧ parsePairKey "0-1".toList = some [0, 1]
      ∧ parsePairKey "3--4".toList = none ∧ parsePairKey "".toList = none
      ∧ parseQubitKey " 12 ".toList = some 12 ∧ parseQubitKey "1 2".toList = none := by
  decide

/-- a two-qubit gate on qubits `(10, 11)` gets the depolarizing channel of the key `"10-11"` and
not the one of `"11-10"` or `"1-0"` (whole pipeline on string keys, evaluated by the kernel). -/
theorem T19_ibmq_two_digit_pair_example :
    ibmqApplyS 17
      { dep1 := .other, dep2 := .dict [("1-0".toList, 1), ("10-11".toList, 2), ("11 - 10".toList, 3)],
        t1 := .other, t2 := .other, gt1 := 0, gt2 := 0, ep := 0, ro := .other }
      [⟨0, 10, [10, 11], false, false⟩, ⟨1, 10, [11, 10], false, false⟩, ⟨2, 10, [1, 0], false, false⟩]
    = some [.gate ⟨0, 10, [10, 11], false, false⟩, .chan .depol (.depol 2) [10, 11],
            .gate ⟨1, 10, [11, 10], false, false⟩, .chan .depol (.depol 3) [10, 11],
            .gate ⟨2, 10, [1, 0], false, false⟩, .chan .depol (.depol 1) [0, 1]] := by
  decide

/-! ### a rule restricted to no qubit -/

/-- **A rule whose qubit restriction is the EMPTY collection never applies** (`qubits=()`, `[]`,
`range(0)`, `set()` …: the intersection with the qubits of every gate is empty) — it is not the
same as a rule without restriction (`qubits=None`), which applies to every instance of the gate. -/
theorem T19_empty_filter (i : Nat) (r : Rule) (g : NGate) (h : r.qubits = some []) :
    ruleChannels i r g = [] := by
  have hs : setInter g.qubits [] = [] := by simp [setInter]
  unfold ruleChannels ruleQubits
  rw [h]
  simp [hs]

/-- … whereas the unrestricted rule with the same error does create its channels (here: a
depolarizing rule on a one-qubit gate). -/
theorem T19_no_filter_applies :
    ruleChannels 0 ⟨none, .depol, none, []⟩ ⟨0, 0, [2], false, false⟩ = [Item.chan 0 .depol [2]]
      ∧ ruleChannels 0 ⟨none, .depol, some [], []⟩ ⟨0, 0, [2], false, false⟩ = [] := by
  decide

end QV.Props.C19
