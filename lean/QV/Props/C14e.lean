/-
  C14 (continued) — the ONE global random generator under the parallel helpers, EVERY schedule.

  `backend.sample_shots` draws from numpy's global generator.  A repeated execution (noise on
  state vectors, collapsing measurements) draws inside the worker, so under
  `parallel_execution` / `parallel_circuits_execution` / `parallel_parametrized_execution`
  the workers share one stream.  `T14_par_tape_schedule_dependent` (C14b) shows by a kernel-evaluated
  witness that WHICH answers a job is given depends on the schedule.  The theorems here say what
  does NOT depend on it, for every job list, every number of workers and every schedule
  (QV/Proofs/ParallelTape.lean, induction over the schedule):

  * every answer of the generator is handed to exactly one job, none is handed out twice and
    none is skipped (`T14_par_tape_partition`) — results of different jobs are therefore built
    from disjoint parts of the stream (`T14_par_tape_disjoint`);
  * every job sees its own answers in stream order (`T14_par_tape_in_order`) and never holds an
    answer that has not been drawn (`T14_par_tape_bounded`);
  * HOW MANY answers a job has consumed is a function of its own progress alone
    (`T14_par_tape_count`), so after any complete schedule the stream has advanced by the total
    number of drawing steps (`T14_par_tape_total`).

  * with ONE worker job `j` gets the consecutive block after the blocks of the jobs before it
    (`T14_par_tape_sequential_blocks`, closed form for every job list).

  Tie: tools/props/C14_parallel.py (suite PT: the real helpers under imposed schedules, the
  positions of the draws each job received compared with `tapeRun`).
-/
import QV.Proofs.ParallelTapeSeq
namespace QV.Props.C14
open QV.Par

/-- every answer is given to exactly one job: the answers held by all jobs together are a
rearrangement of `0, 1, …, cursor-1`. -/
theorem T14_par_tape_partition (progs : List (List Bool)) (sched : List Nat) :
    (tapeRun progs sched).got.flatten.Perm (List.range (tapeRun progs sched).cursor) :=
  (tapeRun_inv progs sched).perm

/-- no answer of the stream is used by two jobs, or twice by one. -/
theorem T14_par_tape_disjoint (progs : List (List Bool)) (sched : List Nat) :
    (tapeRun progs sched).got.flatten.Nodup :=
  (T14_par_tape_partition progs sched).nodup_iff.mpr List.nodup_range

/-- every job receives its answers in the order of the stream. -/
theorem T14_par_tape_in_order (progs : List (List Bool)) (sched : List Nat) (g : List Nat)
    (hg : g ∈ (tapeRun progs sched).got) : g.Pairwise (· < ·) :=
  (tapeRun_inv progs sched).sorted g hg

theorem T14_par_tape_bounded (progs : List (List Bool)) (sched : List Nat) (g : List Nat)
    (hg : g ∈ (tapeRun progs sched).got) (x : Nat) (hx : x ∈ g) : x < (tapeRun progs sched).cursor :=
  (tapeRun_inv progs sched).bound g hg x hx

/-- how many answers job `j` has consumed depends on its own progress only. -/
theorem T14_par_tape_count (progs : List (List Bool)) (sched : List Nat) (j : Nat)
    (p : List Bool) (pc : Nat) (g : List Nat) (hp : progs[j]? = some p)
    (hpc : (tapeRun progs sched).pcs[j]? = some pc) (hg : (tapeRun progs sched).got[j]? = some g) :
    g.length = (p.take pc).count true :=
  (tapeRun_inv progs sched).count j p pc g hp hpc hg

/-- a job that has finished has consumed exactly as many answers as it has drawing steps —
under every schedule, whatever the other jobs did meanwhile. -/
theorem T14_par_tape_finished_count (progs : List (List Bool)) (sched : List Nat) (j : Nat)
    (p : List Bool) (g : List Nat) (hp : progs[j]? = some p)
    (hpc : (tapeRun progs sched).pcs[j]? = some p.length)
    (hg : (tapeRun progs sched).got[j]? = some g) : g.length = p.count true := by
  have h := T14_par_tape_count progs sched j p p.length g hp hpc hg
  rwa [List.take_length] at h

/-- the stream advances by the number of answers handed out. -/
theorem T14_par_tape_total (progs : List (List Bool)) (sched : List Nat) :
    (tapeRun progs sched).cursor = ((tapeRun progs sched).got.map List.length).sum := by
  have h := (T14_par_tape_partition progs sched).length_eq
  rw [List.length_range, List.length_flatten] at h
  exact h.symm

/-- ONE worker (the plain loop, `tapeSeq`): job `j` is given the consecutive block of answers that
starts after all answers of the jobs before it — for every job list of any length.  This is why
`parallel_*` with one worker and a seed reproduces the plain loop with the same seed (searched on
the real helpers: `parallel-seed:repeated-execution`), and with it
`T14_par_tape_schedule_dependent` shows that more workers do not. -/
theorem T14_par_tape_sequential_blocks (progs : List (List Bool)) :
    (tapeRun progs (tapeSeq progs)).got =
      (List.range progs.length).map fun j => List.range' (offset progs j) (draws (progs.getD j [])) :=
  tapeSeq_closed progs

/-- … and the stream has then advanced by the total number of drawing steps. -/
theorem T14_par_tape_sequential_cursor (progs : List (List Bool)) :
    (tapeRun progs (tapeSeq progs)).cursor = ((progs.map draws).sum) := by
  rw [tapeSeq_cursor]; simp [offset]

example : (tapeRun [[true, false, true], [true, true], [false], [true]]
    (tapeSeq [[true, false, true], [true, true], [false], [true]])).got = [[0, 1], [2, 3], [], [4]] := by decide

/-- EVERY schedule that lets every job finish — any number of workers, any interleaving — leaves
the generator advanced by the same amount (the total number of drawing steps) and every job with as
many answers as it has drawing steps: what the NEXT user of the generator sees after a parallel
helper has returned does not depend on the schedule. -/
theorem T14_par_tape_finished_total (progs : List (List Bool)) (sched : List Nat)
    (hf : Finished progs (tapeRun progs sched)) :
    (tapeRun progs sched).got.map List.length = progs.map draws ∧
    (tapeRun progs sched).cursor = (progs.map draws).sum :=
  tapeRun_finished progs sched hf

/-- the hypothesis of `T14_par_tape_finished_total` is met by the one-worker schedule (non-vacuity,
for every job list) … -/
theorem T14_par_tape_sequential_finished (progs : List (List Bool)) :
    Finished progs (tapeRun progs (tapeSeq progs)) :=
  tapeSeq_finished progs

/-- … hence any finishing schedule leaves the generator where the plain loop leaves it. -/
theorem T14_par_tape_finished_same_cursor (progs : List (List Bool)) (sched : List Nat)
    (hf : Finished progs (tapeRun progs sched)) :
    (tapeRun progs sched).cursor = (tapeRun progs (tapeSeq progs)).cursor :=
  (tapeRun_finished progs sched hf).2.trans
    (tapeRun_finished progs _ (tapeSeq_finished progs)).2.symm

/-- the hypotheses are met by a run that does draw (non-vacuity), and the conclusion is tight. -/
example : (tapeRun [[true, false, true], [true, true]] [1, 0, 0, 1, 0]).got = [[1, 3], [0, 2]] ∧
    (tapeRun [[true, false, true], [true, true]] [1, 0, 0, 1, 0]).cursor = 4 := by decide

end QV.Props.C14
