/-
  C09 — Routing output is executable on the connectivity graph and equals the input up to
  the reported layout.

  Model: QV/Model/Router.lean (tied to qibo's `transpiler/router.py` by action replay of
  every real run, see tools/props/C09.py).  A router run is an ARBITRARY sequence of
  actions `exec block` / `swap (l0,l1)` / `undo`; heuristics (costs, random.choice,
  lookahead, thresholds, seeds) only choose the next action and therefore do not occur in
  the statements.  All theorems hold for every number of qubits, every graph, every
  action sequence and every gate meaning `mats` (unitaries, measurement projectors, the
  integer matrices of the correspondence harness) over any commutative semiring.
-/
import QV.Proofs.RouterLemmas

set_option linter.unusedSectionVars false
set_option linter.unusedVariables false

namespace QV.Props.C09
open QV QV.Router QV.Props.C05

variable {α : Type} [CommSemiring α]

/-- (i) `CircuitMap.update / undo`: after any well-formed action sequence the two maps are
    lists of length n that are mutually inverse on 0..n-1. -/
theorem T09_maps (n : Nat) (as : List Action) (hw : wfAll n (init n) as = true) :
    let s := run (init n) as
    s.p2l.length = n ∧ s.l2p.length = n ∧
    (∀ l, l < n → look s.l2p l < n ∧ look s.p2l (look s.l2p l) = l) ∧
    (∀ p, p < n → look s.p2l p < n ∧ look s.l2p (look s.p2l p) = p) :=
  Inv_run (Inv_init n) as hw

/-- (iii) `final_layout` is a bijection of 0..n-1: every physical position is the image of
    exactly one logical qubit. -/
theorem T09_layout_bijection (n : Nat) (as : List Action) (hw : wfAll n (init n) as = true)
    (p : Nat) (hp : p < n) :
    ∃ l, (l < n ∧ look (finalLayout (run (init n) as)) l = p) ∧
      ∀ l', l' < n ∧ look (finalLayout (run (init n) as)) l' = p → l' = l := by
  have hI := Inv_run (Inv_init n) as hw
  refine ⟨look (run (init n) as).p2l p, ⟨(hI.2.2.2 p hp).1, hI.right_inv p⟩, ?_⟩
  rintro l' ⟨_, hl'⟩
  exact hI.l2p_injective (hl'.trans (hI.right_inv p).symm)

/-- round trip: `undo` directly after `update((l0,l1))` restores both maps and the routed
    gate list exactly. -/
theorem T09_update_undo (n : Nat) (s : RState) (hI : Inv n s) (l0 l1 : Nat)
    (h0 : l0 < n) (h1 : l1 < n) (hne : l0 ≠ l1) :
    step (step s (.swap l0 l1)) .undo = s := by
  have hw : wf n s (.swap l0 l1) = true := by simp [wf, h0, h1, hne]
  have hI1 := Inv_step hI _ hw
  have hp0 := (hI.2.2.1 l0 h0).1
  have hp1 := (hI.2.2.1 l1 h1).1
  have hpne : look s.l2p l0 ≠ look s.l2p l1 := fun e => hne (hI.l2p_injective e)
  set s1 := step s (.swap l0 l1) with hs1
  have hr1 : s1.routed = s.routed ++ [swapGate (look s.l2p l0) (look s.l2p l1)] := rfl
  have hl : s1.routed.getLast? = some (swapGate (look s.l2p l0) (look s.l2p l1)) := by
    rw [hr1]; simp
  have hq : (swapGate (look s.l2p l0) (look s.l2p l1)).qs = [look s.l2p l0, look s.l2p l1] := rfl
  have hwu : wf n s1 .undo = true := by
    simp [wf, hl, isSwapOn, swapGate, swapTag, hpne, hp0, hp1]
  have hI2 := Inv_step hI1 _ hwu
  -- maps after the two steps, pointwise
  have hmin : min (look s.l2p l0) (look s.l2p l1) < n := by
    rcases minmax_cases _ _ hpne with ⟨e, _⟩ | ⟨e, _⟩ <;> rw [e] <;> assumption
  have hmax : max (look s.l2p l0) (look s.l2p l1) < n := by
    rcases minmax_cases _ _ hpne with ⟨_, e⟩ | ⟨_, e⟩ <;> rw [e] <;> assumption
  have hmm : min (look s.l2p l0) (look s.l2p l1) ≠ max (look s.l2p l0) (look s.l2p l1) := by
    rcases minmax_cases _ _ hpne with ⟨e1, e2⟩ | ⟨e1, e2⟩ <;> rw [e1, e2]
    · exact hpne
    · exact fun e => hpne e.symm
  have hne1 : look s1.p2l (min (look s.l2p l0) (look s.l2p l1))
      ≠ look s1.p2l (max (look s.l2p l0) (look s.l2p l1)) := fun e => hmm (hI1.p2l_injective e)
  have e_s2 := step_undo_eq' hI1 hl hq
  have l2p1 : ∀ l, look s1.l2p l = tr (look s.l2p l0) (look s.l2p l1) (look s.l2p l) :=
    fun l => updateMaps_l2p hI h0 h1 hne l
  have p2l1 : ∀ p, look s1.p2l p = look s.p2l (tr (look s.l2p l0) (look s.l2p l1) p) :=
    fun p => updateMaps_p2l hI h0 h1 hne p
  have trmm : ∀ x, tr (min (look s.l2p l0) (look s.l2p l1)) (max (look s.l2p l0) (look s.l2p l1)) x
      = tr (look s.l2p l0) (look s.l2p l1) x := by
    intro x
    rcases minmax_cases _ _ hpne with ⟨e1, e2⟩ | ⟨e1, e2⟩ <;> rw [e1, e2]
    exact tr_comm _ _ _
  have l2p2 : ∀ l, look (step s1 .undo).l2p l = look s.l2p l := by
    intro l
    rw [e_s2]
    have := updateMaps_l2p (s := { s1 with routed := s1.routed.dropLast })
      (Inv_congr rfl rfl hI1) (hI1.2.2.2 _ hmin).1 (hI1.2.2.2 _ hmax).1 hne1 l
    rw [this]
    show tr (look s1.l2p _) (look s1.l2p _) (look s1.l2p l) = _
    rw [hI1.right_inv, hI1.right_inv, trmm, l2p1, tr_tr]
  have p2l2 : ∀ p, look (step s1 .undo).p2l p = look s.p2l p := by
    intro p
    rw [e_s2]
    have := updateMaps_p2l (s := { s1 with routed := s1.routed.dropLast })
      (Inv_congr rfl rfl hI1) (hI1.2.2.2 _ hmin).1 (hI1.2.2.2 _ hmax).1 hne1 p
    rw [this]
    show look s1.p2l (tr (look s1.l2p _) (look s1.l2p _) p) = _
    rw [hI1.right_inv, hI1.right_inv, trmm, p2l1, tr_tr]
  have ext : ∀ m1 m2 : List Nat, m1.length = m2.length → (∀ i, look m1 i = look m2 i) → m1 = m2 := by
    intro m1 m2 hlen hlook
    apply List.ext_getElem hlen
    intro i h1 h2
    have := hlook i
    rwa [look_lt h1, look_lt h2] at this
  have hr2 : (step s1 .undo).routed = s.routed := by
    rw [step_undo_eq hl hq]
    show s1.routed.dropLast = s.routed
    rw [hr1]; simp
  have he2 : (step s1 .undo).executed = s.executed := by
    rw [step_undo_eq hl hq]; rfl
  obtain ⟨p2l, l2p, routed, executed⟩ := s
  generalize hs2 : step s1 .undo = s2 at *
  obtain ⟨p2l', l2p', routed', executed'⟩ := s2
  simp only at hr2 he2 l2p2 p2l2
  have e1 : p2l' = p2l := ext _ _ (hI2.1.trans hI.1.symm) p2l2
  have e2 : l2p' = l2p := ext _ _ (hI2.2.1.trans hI.2.1.symm) l2p2
  rw [e1, e2, hr2, he2]

/-- (a) connectivity: if every action of the run satisfied its guard (the SWAP / the block's
    two-qubit gates sit on an edge at that moment) then every two-qubit gate of the output,
    re-attached final measurements included, lies on an edge of the graph. -/
theorem T09_edges (n : Nat) (E : List (Nat × Nat)) (as : List Action) (fms : List RGate)
    (hg : guardsOk n E (init n) as = true) (hm : ∀ m ∈ fms, m.meas = true) :
    ∀ g ∈ (appendFinal (run (init n) as) fms).routed, gateOk E g = true := by
  have h0 : AllOk E (init n) := by intro g hgm; simp [init] at hgm
  have h1 := AllOk_run h0 as hg
  intro g hgm
  simp only [appendFinal, step, List.mem_append, List.mem_map] at hgm
  rcases hgm with hgm | ⟨m, hmm, rfl⟩
  · exact h1 g hgm
  · simp [gateOk, RGate.relabel, hm m hmm]

/-- (b) semantics along a run: the routed circuit acts as the executed logical gates
    followed by the relabelling of qubits given by the current logical→physical map:
    amplitude of the routed state at physical label y = amplitude of the logical state at
    the label `l ↦ y (l2p l)`. -/
theorem T09_semantics (n : Nat) (mats : Nat → Nat → Nat → α) (as : List Action)
    (hw : wfAll n (init n) as = true) (ψ : Lab → α) :
    let s := run (init n) as
    runCircuit (s.routed.map (den mats)) ψ
      = fun y => runCircuit (s.executed.map (den mats)) ψ (pull (look s.l2p) y) :=
  SemInv_run mats ψ (Inv_init n) (SemInv_init mats n ψ) as hw

/-- the order checker is sound: an accepted `out` has the same gates (as a multiset) and
    the same operator as `inp` — block decompositions and execution orders validated by
    `pickCheck` only commute gates acting on different qubits. -/
theorem T09_order_sound (mats : Nat → Nat → Nat → α) (inp out : List RGate)
    (h : pickCheck inp out = true) (hn : ∀ g ∈ inp, g.qs.Nodup) :
    inp.Perm out ∧ ∀ ψ : Lab → α,
      runCircuit (inp.map (den mats)) ψ = runCircuit (out.map (den mats)) ψ :=
  ⟨pickCheck_perm h, fun ψ => pickCheck_sound mats h hn ψ⟩

/-- **Routing is sound.**  For every register size, graph, gate meaning, input gate list,
    trailing measurements and ARBITRARY guarded action sequence whose executed gates are
    accepted by the order checker against the input:
      (a) every two-qubit gate of the output lies on an edge,
      (b) output = P · input with P the relabelling by the final layout,
      (c) the final layout is a bijection of 0..n-1 (both maps mutually inverse),
      (d) the trailing measurements are re-attached, in order, on `l2p[q]`. -/
theorem T09_routing_sound (n : Nat) (E : List (Nat × Nat)) (mats : Nat → Nat → Nat → α)
    (input fms : List RGate) (as : List Action)
    (hg : guardsOk n E (init n) as = true)
    (hm : ∀ m ∈ fms, m.meas = true)
    (hn : ∀ g ∈ input, g.qs.Nodup)
    (hp : pickCheck input (appendFinal (run (init n) as) fms).executed = true) :
    let s := appendFinal (run (init n) as) fms
    (∀ g ∈ s.routed, gateOk E g = true) ∧
    (∀ ψ : Lab → α, runCircuit (s.routed.map (den mats)) ψ
        = fun y => runCircuit (input.map (den mats)) ψ (pull (look (finalLayout s)) y)) ∧
    Inv n s ∧
    s.routed = (run (init n) as).routed ++ fms.map (RGate.relabel (look (finalLayout s))) := by
  have hw := guardsOk_wfAll hg
  have hw' : wfAll n (init n) (as ++ [.exec fms]) = true := by
    have : ∀ (s : RState) (as : List Action), wfAll n s as = true →
        wfAll n s (as ++ [.exec fms]) = true := by
      intro s as
      induction as generalizing s with
      | nil => intro _; simp [wfAll, wf]
      | cons a as ih =>
        intro h
        simp only [wfAll, Bool.and_eq_true] at h
        simp only [List.cons_append, wfAll, Bool.and_eq_true]
        exact ⟨h.1, ih _ h.2⟩
    exact this _ _ hw
  have hrun : appendFinal (run (init n) as) fms = run (init n) (as ++ [.exec fms]) := by
    simp [appendFinal, run, List.foldl_append]
  refine ⟨T09_edges n E as fms hg hm, ?_, ?_, rfl⟩
  · intro ψ
    have h1 := T09_semantics n mats (as ++ [.exec fms]) hw' ψ
    simp only at h1
    rw [← hrun] at h1
    rw [h1, (T09_order_sound mats input _ hp hn).2 ψ]
    rfl
  · rw [hrun]
    exact Inv_run (Inv_init n) _ hw'

/-! ### StarConnectivityRouter -/

theorem starLoop_eq_trace (mid : Nat) (s : RState) (queue : List RGate) :
    starLoop mid s queue = (starTrace mid s queue).map (run s) := by
  induction queue generalizing s with
  | nil => rfl
  | cons g rest ih =>
    unfold starLoop starTrace
    cases h : starActions mid s g rest with
    | none => rfl
    | some as =>
      simp only [ih]
      cases starTrace mid (run s as) rest with
      | none => rfl
      | some bs => simp [run, List.foldl_append]

/-- `StarConnectivityRouter.__call__` is a run of the action machine: whenever it returns,
    its result is the run of the action list `as` its loop generated followed by the
    re-attachment of the deferred final measurements, so (i), (b), (c) above apply to it
    verbatim. -/
theorem T09_star_is_run (n mid : Nat) (queue : List RGate) (s : RState)
    (h : starRoute n mid queue = some s) :
    ∃ as, starTrace mid (init n) queue = some as ∧
      s = appendFinal (run (init n) as) (queue.filter isFinalMeas) ∧
      s = run (init n) (as ++ [.exec (queue.filter isFinalMeas)]) := by
  unfold starRoute at h
  rw [starLoop_eq_trace] at h
  cases ht : starTrace mid (init n) queue with
  | none => simp [ht] at h
  | some as =>
    simp only [ht, Option.map_some, Option.some.injEq] at h
    refine ⟨as, rfl, h.symm, ?_⟩
    rw [← h]
    simp [appendFinal, run, List.foldl_append]

/-! ### `_create_dag` -/

theorem dagEdgesFrom_go_forward (idx : Nat) (gate : List Nat) (sat : List Nat) (k : Nat)
    (later : List (List Nat)) :
    ∀ e ∈ dagEdgesFrom.go idx gate sat k later, e.1 = idx ∧ k ≤ e.2 ∧ e.2 < k + later.length := by
  induction later generalizing sat k with
  | nil => intro e he; simp [dagEdgesFrom.go] at he
  | cons p ps ih =>
    intro e he
    unfold dagEdgesFrom.go at he
    simp only at he
    split at he
    · simp only [List.mem_map] at he
      obtain ⟨_, _, rfl⟩ := he
      exact ⟨rfl, Nat.le_refl _, by simp⟩
    · simp only [List.mem_append, List.mem_map] at he
      rcases he with ⟨_, _, rfl⟩ | he
      · exact ⟨rfl, Nat.le_refl _, by simp⟩
      · obtain ⟨h1, h2, h3⟩ := ih _ _ e he
        refine ⟨h1, by omega, ?_⟩
        simp only [List.length_cons]; omega

/-- the dependency graph only has forward edges between existing blocks, hence is acyclic
    and every topological order starts from blocks without predecessors. -/
theorem T09_dag_forward_partial (i : Nat) (pairs : List (List Nat)) :
    ∀ e ∈ dagEdges i pairs, i ≤ e.1 ∧ e.1 < e.2 ∧ e.2 < i + pairs.length := by
  induction pairs generalizing i with
  | nil => intro e he; simp [dagEdges] at he
  | cons g rest ih =>
    intro e he
    simp only [dagEdges, List.mem_append] at he
    rcases he with he | he
    · obtain ⟨h1, h2, h3⟩ := dagEdgesFrom_go_forward i g [] (i + 1) rest e he
      simp only [List.length_cons]
      omega
    · obtain ⟨h1, h2, h3⟩ := ih (i + 1) e he
      simp only [List.length_cons]
      omega

/-- reachability in an edge list. -/
inductive Reach (E : List (Nat × Nat)) : Nat → Nat → Prop
  | edge {a b} : (a, b) ∈ E → Reach E a b
  | trans {a b c} : Reach E a b → Reach E b c → Reach E a c

/-- FULL STATEMENT, proved as `T09_dag` in Props/C09b.lean (and still checked on every run by
    the closure comparison of the real `_create_dag` with the dependency relation and by
    `pickCheck` on every recorded execution order): two blocks that share a qubit are ordered
    by the DAG. -/
def T09_dag_statement : Prop :=
  ∀ (pairs : List (List Nat)), (∀ p ∈ pairs, ∃ a b, a ≠ b ∧ p = [a, b]) →
    ∀ i j q, i < j → j < pairs.length → q ∈ pairs.getD i [] → q ∈ pairs.getD j [] →
      Reach (dagEdges 0 pairs) i j

/-- FULL STATEMENT, proved as `T09_star_guards` in Props/C09b.lean (the star model is compared
    with the real router on every run, and the guards of its action list are also evaluated by
    the driver): on a star graph with centre `mid` every action generated by the star loop
    satisfies its guard. -/
def T09_star_guards_statement : Prop :=
  ∀ (n mid : Nat) (queue : List RGate) (as : List Action), mid < n →
    (∀ g ∈ queue, g.qs.Nodup ∧ ∀ q ∈ g.qs, q < n) →
    starTrace mid (init n) queue = some as →
    guardsOk n ((List.range n).map fun x => (mid, x)) (init n) as = true

example : dagEdges 0 [[0, 1], [1, 2], [0, 2]] = [(0, 1), (0, 2), (1, 2)] := by decide

/-! ### non-vacuity -/

/-- a guarded run on the line 0-1-2: CNOT(0,2) needs one SWAP. -/
example : guardsOk 3 [(0, 1), (1, 2)] (init 3)
    [.swap 0 1, .exec [⟨7, false, [0, 2]⟩], .swap 0 2, .undo] = true := by decide

example : pickCheck [⟨5, false, [0]⟩, ⟨6, false, [1, 2]⟩, ⟨7, false, [0, 1]⟩]
    [⟨6, false, [1, 2]⟩, ⟨5, false, [0]⟩, ⟨7, false, [0, 1]⟩] = true := by decide

/-- the checker rejects a reordering of gates sharing a qubit. -/
example : pickCheck [⟨5, false, [0]⟩, ⟨7, false, [0, 1]⟩] [⟨7, false, [0, 1]⟩, ⟨5, false, [0]⟩] = false := by
  decide

/-- the guard rejects F12's SWAP on the non-adjacent pair (0,2) of a line. -/
example : guardsOk 3 [(0, 1), (1, 2)] (init 3) [.swap 0 2] = false := by decide

/-- star router, centre 2: CZ(0,1) needs SWAP(0,2); the trailing M(0,1,3) follows l2p. -/
example : (starRoute 5 2 [⟨7, false, [0, 1]⟩, ⟨1, true, [0, 1, 3]⟩]).map (fun s => (s.routed, s.l2p))
    = some ([⟨0, false, [0, 2]⟩, ⟨7, false, [2, 1]⟩, ⟨1, true, [2, 1, 3]⟩], [2, 1, 0, 3, 4]) := by
  decide

/-- a final measurement in front of a gate that needs a SWAP on its wire is deferred and
    re-attached through the final layout; a collapsing one (tag 2) is routed in place. -/
example : (starRoute 5 2 [⟨1, true, [0]⟩, ⟨2, true, [1]⟩, ⟨7, false, [0, 1]⟩]).map
      (fun s => (s.routed, s.l2p))
    = some ([⟨2, true, [1]⟩, ⟨0, false, [0, 2]⟩, ⟨7, false, [2, 1]⟩, ⟨1, true, [2]⟩], [2, 1, 0, 3, 4]) := by
  decide

end QV.Props.C09
