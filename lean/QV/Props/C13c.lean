/-
  C13 (argument evaluation) — `_unroll_expression` prints the expression tree without
  parentheses and python evaluates the text.  Model: `QV.Model.QasmExpr`, compared with
  `QASMParser.to_circuit` on every run with IEEE doubles, bit for bit (driver command
  EXPR, tools/props/C13_defs.py).
-/
import QV.Proofs.QasmExpr

namespace QV.Props.C13
open QV.QasmExpr

/-- For EVERY expression whose tree needs no parentheses when printed (a sum of terms,
each a product / quotient of atoms under unary minus signs, to any length and any
nesting of the left spines) and every value of the identifiers, python's evaluation of
the printed text performs exactly the operations of the tree, in the tree's order: the
argument handed to the gate is the value the program denotes.  No algebraic law of the
arithmetic is used (IEEE doubles satisfy none), so the statement holds bit for bit. -/
theorem T13_arg_paren_free {ν : Type} [Arith ν] (env : String → ν) (e : Expr ν)
    (he : e.isSum = true) : argValue env e = some (eval env e) := by
  obtain ⟨s, hs, hc, hx, herr, -⟩ := QV.QasmExpr.run_sum env e he
  simp [argValue, evalFlat, hs, hx, herr, hc]

/-- the parameter texts the writer emits (a literal, or a literal under a minus sign)
evaluate to themselves -/
theorem T13_arg_writer_tokens {ν : Type} [Arith ν] (env : String → ν) (v : ν) :
    argValue env (.num v) = some v ∧ argValue env (.neg (.num v)) = some (Arith.neg v) :=
  ⟨T13_arg_paren_free env _ rfl, T13_arg_paren_free env _ rfl⟩

instance : Arith Int := ⟨(· + ·), (· - ·), (· * ·), (· / ·), (- ·), 3⟩

/-- non-vacuity: `-x*2/pi - -3 + x/2*pi` is parenthesis-free -/
def exFlat : Expr Int :=
  .bin .add (.bin .sub (.bin .div (.bin .mul (.neg (.var "x")) (.num 2)) .pi) (.neg (.num 3)))
    (.bin .mul (.bin .div (.var "x") (.num 2)) .pi)
example : exFlat.isSum = true := by decide
example : argValue (fun _ => 6) exFlat = some 8 := by decide

/-- the hypothesis is needed, and the model shows what the reader does otherwise: the
tree of `2*(pi+1)` is printed as `2*pi+1` and evaluated as `(2*pi)+1`; likewise
`-(x+1)` becomes `(-x)+1` and `x/(2*pi)` becomes `(x/2)*pi` -/
theorem T13_arg_parentheses_dropped :
    argValue (fun _ => (0 : Int)) (.bin .mul (.num 2) (.bin .add .pi (.num 1))) = some 7
      ∧ eval (fun _ => (0 : Int)) (.bin .mul (.num 2) (.bin .add .pi (.num 1))) = 8
      ∧ argValue (fun _ => (5 : Int)) (.neg (.bin .add (.var "x") (.num 1))) = some (-4)
      ∧ eval (fun _ => (5 : Int)) (.neg (.bin .add (.var "x") (.num 1))) = -6
      ∧ argValue (fun _ => (12 : Int)) (.bin .div (.var "x") (.bin .mul (.num 2) .pi)) = some 18
      ∧ eval (fun _ => (12 : Int)) (.bin .div (.var "x") (.bin .mul (.num 2) .pi)) = 2 := by decide

end QV.Props.C13
