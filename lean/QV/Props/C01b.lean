/-
  C01 (continued) — State-vector execution applies exactly the circuit's unitary:
  algebraic laws of the simulator model over an arbitrary commutative semiring.
  Property theorems only (proofs are thin wrappers of QV/Proofs/SimLemmas.lean).
  Model: QV/Model/Sim.lean.  No register size appears: every statement holds for all basis
  labels `x : Nat → Bool`, i.e. for every number of qubits.

  Conventions: `δ i j` is written `if i = j then 1 else 0`; matrix facts are only required on
  indices `< 2 ^ |targets|`; "well-formed" means targets duplicate-free and controls disjoint
  from the targets.
-/
import QV.Proofs.SimLemmas
namespace QV.Props.C01
open QV Finset

variable {α : Type} [CommSemiring α]

/-- applying a gate is additive in the state. -/
theorem T01_apply_linear_add (g : MGate α) (ψ φ : Lab → α) :
    applyGate g (fun x => ψ x + φ x) = fun x => applyGate g ψ x + applyGate g φ x :=
  applyGate_add g ψ φ

/-- applying a gate is homogeneous in the state. -/
theorem T01_apply_linear_smul (g : MGate α) (c : α) (ψ : Lab → α) :
    applyGate g (fun x => c * ψ x) = fun x => c * applyGate g ψ x :=
  applyGate_smul g c ψ

/-- execution of a whole circuit is additive and homogeneous in the initial state. -/
theorem T01_execute_linear_add (gs : List (MGate α)) (ψ φ : Lab → α) :
    runCircuit gs (fun x => ψ x + φ x) = fun x => runCircuit gs ψ x + runCircuit gs φ x :=
  runCircuit_add gs ψ φ

theorem T01_execute_linear_smul (gs : List (MGate α)) (c : α) (ψ : Lab → α) :
    runCircuit gs (fun x => c * ψ x) = fun x => c * runCircuit gs ψ x :=
  runCircuit_smul gs c ψ

/-- the model in matrix-times-vector form: on duplicate-free targets the new amplitude at `x`
is `Σ_k M[idx x][k] · ψ(x with targets := k)` where the controls are all 1, and `ψ x`
elsewhere.  (`Lab.withIdx` is the closed-form "x with targets := k" of QV/Core/Bits.lean.) -/
theorem T01_apply_sum_form (g : MGate α) (hn : g.targets.Nodup) (ψ : Lab → α) (x : Lab) :
    applyGate g ψ x =
      if Lab.allOne g.controls x then
        ∑ k ∈ range (2 ^ g.targets.length),
          g.mat (Lab.idx g.targets x) k * ψ (Lab.withIdx x g.targets k)
      else ψ x := by
  simp only [Lab.withIdx_eq_wIdx]
  exact applyGate_eq_sum g hn ψ x

/-- a gate whose local matrix is the identity does nothing. -/
theorem T01_apply_identity (g : MGate α) (hn : g.targets.Nodup)
    (h1 : ∀ i j, i < 2 ^ g.targets.length → j < 2 ^ g.targets.length →
      g.mat i j = if i = j then 1 else 0) (ψ : Lab → α) :
    applyGate g ψ = ψ :=
  applyGate_one g hn h1 ψ

/-- two gates on the same targets/controls compose by the product of their local matrices
(`B` is applied first). -/
theorem T01_apply_mul (ts cs : List Nat) (hn : ts.Nodup) (hd : ∀ c, c ∈ cs → c ∉ ts)
    (A B : Nat → Nat → α) (ψ : Lab → α) :
    applyGate { mat := A, targets := ts, controls := cs }
        (applyGate { mat := B, targets := ts, controls := cs } ψ)
      = applyGate { mat := fun i j => ∑ k ∈ range (2 ^ ts.length), A i k * B k j,
                    targets := ts, controls := cs } ψ :=
  applyGate_mul ts cs hn hd A B ψ

/-- gates acting on disjoint qubit sets commute. -/
theorem T01_apply_commute_disjoint (g h : MGate α) (hng : g.targets.Nodup)
    (hnh : h.targets.Nodup)
    (hdis : ∀ r, r ∈ g.targets ++ g.controls → r ∉ h.targets ++ h.controls) (ψ : Lab → α) :
    applyGate g (applyGate h ψ) = applyGate h (applyGate g ψ) :=
  applyGate_comm_of_disjoint g h hng hnh hdis ψ

/-- if `A · B = 1` then applying `B` and then `A` on the same qubits is the identity
(with `A = B†` this is "the dagger gate undoes the gate"). -/
theorem T01_inverse (ts cs : List Nat) (hn : ts.Nodup) (hd : ∀ c, c ∈ cs → c ∉ ts)
    (A B : Nat → Nat → α)
    (hAB : ∀ i j, i < 2 ^ ts.length → j < 2 ^ ts.length →
      ∑ k ∈ range (2 ^ ts.length), A i k * B k j = if i = j then 1 else 0)
    (ψ : Lab → α) :
    applyGate { mat := A, targets := ts, controls := cs }
        (applyGate { mat := B, targets := ts, controls := cs } ψ) = ψ :=
  applyGate_inv ts cs hn hd A B hAB ψ

/-- a circuit followed by its inverse circuit is the identity: `hs` lists, in the order of
`gs`, a gate on the same qubits whose matrix is a left inverse (`MGate.IsLeftInv`, see
QV/Proofs/SimLemmas.lean); the inverse circuit is `hs` reversed. -/
theorem T01_execute_inverse {gs hs : List (MGate α)}
    (hinv : List.Forall₂ (fun h g => h.IsLeftInv g) hs gs) (ψ : Lab → α) :
    runCircuit (gs ++ hs.reverse) ψ = ψ :=
  runCircuit_inverse hinv ψ

/-- circuits on disjoint qubit sets can be executed in either order. -/
theorem T01_execute_commute_disjoint (gs hs : List (MGate α))
    (hg : ∀ g ∈ gs, g.targets.Nodup) (hh : ∀ h ∈ hs, h.targets.Nodup)
    (hdis : ∀ g ∈ gs, ∀ h ∈ hs, ∀ r, r ∈ g.targets ++ g.controls → r ∉ h.targets ++ h.controls)
    (ψ : Lab → α) :
    runCircuit (gs ++ hs) ψ = runCircuit (hs ++ gs) ψ :=
  runCircuit_comm_of_disjoint gs hs hg hh hdis ψ

/-! ### non-vacuity: the hypotheses are satisfiable on concrete small gates -/

/-- Pauli-X local matrix over `ℤ`. -/
private def X : Nat → Nat → Int := fun i j => if i + j = 1 then 1 else 0

/-- `X · X = 1` on indices `< 2`. -/
private theorem X_mul_X : ∀ i j, i < 2 → j < 2 →
    ∑ k ∈ range 2, X i k * X k j = if i = j then 1 else 0 := by
  intro i j hi hj
  have h : (i = 0 ∨ i = 1) ∧ (j = 0 ∨ j = 1) := by omega
  rcases h with ⟨rfl | rfl, rfl | rfl⟩ <;> decide

/-- controlled-X on (control 0, target 1) is its own inverse, for every state on every register. -/
example (ψ : Lab → Int) :
    applyGate { mat := X, targets := [1], controls := [0] }
      (applyGate { mat := X, targets := [1], controls := [0] } ψ) = ψ :=
  T01_inverse [1] [0] (by decide) (by decide) X X X_mul_X ψ

/-- a 2-qubit identity matrix on targets [2, 0]. -/
example (ψ : Lab → Int) :
    applyGate (α := Int) { mat := fun i j => if i = j then 1 else 0, targets := [2, 0] } ψ = ψ :=
  T01_apply_identity (α := Int) { mat := fun i j => if i = j then 1 else 0, targets := [2, 0] }
    (by decide) (fun _ _ _ _ => rfl) ψ

private def X0 : MGate Int := { mat := X, targets := [0] }
private def CX12 : MGate Int := { mat := X, targets := [2], controls := [1] }

/-- X on qubit 0 commutes with controlled-X on (control 1, target 2). -/
example (ψ : Lab → Int) :
    applyGate X0 (applyGate CX12 ψ) = applyGate CX12 (applyGate X0 ψ) :=
  T01_apply_commute_disjoint X0 CX12 (by decide) (by decide) (by decide) ψ

private theorem X0_inv : X0.IsLeftInv X0 := ⟨rfl, rfl, by decide, by decide, X_mul_X⟩
private theorem CX12_inv : CX12.IsLeftInv CX12 := ⟨rfl, rfl, by decide, by decide, X_mul_X⟩

/-- the circuit [X₀, CX₁₂] followed by its reverse is the identity. -/
example (ψ : Lab → Int) : runCircuit ([X0, CX12] ++ [X0, CX12].reverse) ψ = ψ :=
  T01_execute_inverse (.cons X0_inv (.cons CX12_inv .nil)) ψ

end QV.Props.C01
