/-
  C07 — Gate fusion and light-cone reduction preserve the meaning of a circuit.
  Property theorems only (helper lemmas: QV/Proofs/TraceEq.lean, LightCone.lean, FusedMat.lean,
  PTrace.lean, FusionInv.lean).  Models: QV/Model/TraceEq.lean, QV/Model/Fusion.lean
  (transliteration of `Circuit.fuse`, `_Queue.to_fused/from_fused`, `FusedGate.can_fuse/fuse`,
  `matrix_fused`, `Circuit.light_cone`), QV/Model/Sim.lean (the simulator).

  Scalars: an arbitrary commutative semiring `α`; conjugation an arbitrary map `conj`.  No
  register size, no bound on the number of gates, no bound on gate arities appears.

  Structure of the argument
    fusion      the algorithm's flattened output ~ₜ its input          (T07_fuse_trace, all inputs)
                `~ₜ`  ==> same action                                  (T07_traceEq_run / _run_dm)
                a fused group acts as its members in order (matrix_fused) (T07_fused_gate_product)
                groups respect max_qubits, members act inside the group (T07_fuse_groups_ok)
                ==> the fused queue acts as the original queue          (T07_fuse_preserves_state)
                nothing lost / duplicated, measurements included        (T07_fuse_perm)
                independently, for the REAL output of every generated circuit the driver
                decides `~ₜ` with a sound and complete procedure         (T07_traceEq_decision,
                                                                        T07_fuse_certificate_sound)
    light cone  queue ~ₜ cone ++ rest, rest off the observed qubits    (T07_light_cone_split)
                gates on traced qubits keep the reduced state          (T07_ptrace_gate)
                ==> reduced state of the queue = reduced state of the cone (T07_light_cone_reduced)
-/
import QV.Proofs.LightCone
import QV.Proofs.FusedMat
import QV.Proofs.PTrace
import QV.Proofs.FusionInv
import QV.Proofs.FusionTrace
namespace QV.Props.C07
open QV Finset

/-! ### trace equivalence and its decision procedure -/

section generic
variable {G : Type} {supp : G → List Nat}

/-- the decision procedure the driver runs on every real output ("per-qubit projections
coincide") is sound and complete for Mazurkiewicz trace equivalence, for lists of gates that
touch at least one qubit each. -/
theorem T07_traceEq_decision [DecidableEq G] {l₁ l₂ : List G}
    (h₁ : ∀ g ∈ l₁, supp g ≠ []) (h₂ : ∀ g ∈ l₂, supp g ≠ []) :
    traceEqB supp l₁ l₂ = true ↔ TraceEq supp l₁ l₂ :=
  traceEqB_iff h₁ h₂

/-- trace-equivalent lists are permutations of each other … -/
theorem T07_traceEq_perm {l₁ l₂ : List G} (h : TraceEq supp l₁ l₂) : l₁.Perm l₂ := h.perm

/-- … in which the gates touching any given qubit keep their relative order. -/
theorem T07_traceEq_projections {l₁ l₂ : List G} (h : TraceEq supp l₁ l₂) (q : Nat) :
    proj supp q l₁ = proj supp q l₂ := traceEq_proj h q

/-- trace equivalence is transported along any reading of the items as gates that keeps
disjointness (e.g. positions in the queue ↦ the gate objects). -/
theorem T07_traceEq_map {G' : Type} {supp' : G' → List Nat} (f : G → G')
    (hf : ∀ a b, disjointB (supp a) (supp b) = true → disjointB (supp' (f a)) (supp' (f b)) = true)
    {l₁ l₂ : List G} (h : TraceEq supp l₁ l₂) : TraceEq supp' (l₁.map f) (l₂.map f) := by
  induction h with
  | nil => exact TraceEq.nil
  | cons a _ ih => exact TraceEq.cons (f a) ih
  | swap a b l hd => exact TraceEq.swap (f a) (f b) (l.map f) (hf a b hd)
  | trans _ _ ih₁ ih₂ => exact TraceEq.trans ih₁ ih₂

/-- the same when disjointness is only known to be kept for the items of the list. -/
theorem T07_traceEq_map_mem {G' : Type} {supp' : G' → List Nat} (f : G → G')
    {l₁ l₂ : List G} (h : TraceEq supp l₁ l₂)
    (hf : ∀ a ∈ l₁, ∀ b ∈ l₁, disjointB (supp a) (supp b) = true →
      disjointB (supp' (f a)) (supp' (f b)) = true) :
    TraceEq supp' (l₁.map f) (l₂.map f) := by
  induction h with
  | nil => exact TraceEq.nil
  | cons a _ ih =>
    exact TraceEq.cons (f a) (ih (fun x hx y hy =>
      hf x (List.mem_cons_of_mem _ hx) y (List.mem_cons_of_mem _ hy)))
  | swap a b l hd =>
    exact TraceEq.swap (f a) (f b) (l.map f)
      (hf a (List.mem_cons_self ..) b (List.mem_cons_of_mem _ (List.mem_cons_self ..)) hd)
  | trans h₁ _ ih₁ ih₂ =>
    exact TraceEq.trans (ih₁ hf) (ih₂ (fun x hx y hy =>
      hf x (h₁.perm.mem_iff.mpr hx) y (h₁.perm.mem_iff.mpr hy)))

end generic

section sem
variable {α : Type} [CommSemiring α]

/-- **Trace-equivalent gate lists map every initial state to the same final state.** -/
theorem T07_traceEq_run {gs hs : List (MGate α)} (h : TraceEq MGate.supp gs hs)
    (hwf : ∀ g ∈ gs, g.targets.Nodup) (ψ : Lab → α) : runCircuit gs ψ = runCircuit hs ψ :=
  congrFun (traceEq_runCircuit h hwf) ψ

/-- the same for density matrices. -/
theorem T07_traceEq_run_dm (conj : α → α) {gs hs : List (MGate α)}
    (h : TraceEq MGate.supp gs hs) (hwf : ∀ g ∈ gs, g.targets.Nodup) (ρ : DM α) :
    runCircuitDM conj gs ρ = runCircuitDM conj hs ρ :=
  congrFun (traceEq_runCircuitDM conj h hwf) ρ

/-! ### fusion -/

/-- well-formedness of the members of a fused group on the ordered qubit list `Q`. -/
def GroupOK (Q : List Nat) (ms : List (MGate α)) : Prop :=
  Q.Nodup ∧ ∀ g ∈ ms, g.targets.Nodup ∧ g.controls.Nodup ∧ (∀ c, c ∈ g.controls → c ∉ g.targets) ∧
    ∀ q, q ∈ g.controls ++ g.targets → q ∈ Q

/-- **`matrix_fused`**: the fused gate (one matrix on the group's qubits: the product of the
members' matrices enlarged by `block_diag` for controls, Kronecker identity and axis
transposition) acts exactly as its members applied one after the other. -/
theorem T07_fused_gate_product (Q : List Nat) (ms : List (MGate α)) (h : GroupOK Q ms)
    (ψ : Lab → α) : applyGate (fusedGate Q ms) ψ = runCircuit ms ψ :=
  applyGate_fusedGate Q h.1 ms h.2 ψ

/-- enlarging a single gate to a larger ordered qubit list does not change its action. -/
theorem T07_embed_gate (Q : List Nat) (g : MGate α) (h : GroupOK Q [g]) (ψ : Lab → α) :
    applyGate { mat := embedEntry Q g, targets := Q, controls := [] } ψ = applyGate g ψ := by
  obtain ⟨hQ, hg⟩ := h
  obtain ⟨hn, hc, hd, hsub⟩ := hg g (List.mem_singleton.mpr rfl)
  exact applyGate_embed Q hQ g hn hc hd hsub ψ

/-- a queue of fused groups acts as the concatenation of the groups' members. -/
theorem T07_fused_queue_flatten (grps : List (List Nat × List (MGate α)))
    (hgr : ∀ p ∈ grps, GroupOK p.1 p.2) (ψ : Lab → α) :
    runCircuit (grps.map (fun p => fusedGate p.1 p.2)) ψ = runCircuit (grps.flatMap (·.2)) ψ := by
  induction grps generalizing ψ with
  | nil => rfl
  | cons p ps ih =>
    rw [List.map_cons, runCircuit_cons, List.flatMap_cons, runCircuit_append,
      T07_fused_gate_product p.1 p.2 (hgr p (List.mem_cons_self ..)),
      ih (fun q hq => hgr q (List.mem_cons_of_mem _ hq))]

/-- **Fusion preserves the final state** whenever the flattened fused queue is trace
equivalent to the original queue (which the driver decides for the real output of every
generated circuit, and which `T07_fuse_trace` proves for the model of the algorithm). -/
theorem T07_fused_queue_run (gs : List (MGate α)) (grps : List (List Nat × List (MGate α)))
    (hwf : ∀ g ∈ gs, g.targets.Nodup) (hgr : ∀ p ∈ grps, GroupOK p.1 p.2)
    (hteq : TraceEq MGate.supp gs (grps.flatMap (·.2))) (ψ : Lab → α) :
    runCircuit (grps.map (fun p => fusedGate p.1 p.2)) ψ = runCircuit gs ψ := by
  rw [T07_fused_queue_flatten grps hgr, T07_traceEq_run hteq hwf]

/-- the certificate checked on every run, end to end: positions `ids` (the flattened real
fused queue) of a queue of items `tg`, the Boolean decision, and any reading `sem` of the
items as gates on the same qubits. -/
theorem T07_fuse_certificate_sound (tg : List TGate) (ids : List Nat) (sem : TGate → MGate α)
    (hq : ∀ t, ∀ q, q ∈ (sem t).supp ↔ q ∈ t.qs) (hne : ∀ t ∈ tg, t.qs ≠ [])
    (hids : ∀ i ∈ ids, i < tg.length)
    (hwf : ∀ t ∈ tg, (sem t).targets.Nodup)
    (hcert : traceEqB TGate.qs tg (ids.map (fun i => tg.getD i default)) = true) (ψ : Lab → α) :
    runCircuit ((ids.map (fun i => tg.getD i default)).map sem) ψ = runCircuit (tg.map sem) ψ := by
  have hne2 : ∀ t ∈ ids.map (fun i => tg.getD i default), t.qs ≠ [] := by
    intro t ht
    obtain ⟨i, hi, rfl⟩ := List.mem_map.mp ht
    have hlt := hids i hi
    have he : tg.getD i default = tg[i] := by simp [List.getD_eq_getElem?_getD, hlt]
    rw [he]
    exact hne _ (List.getElem_mem hlt)
  have h := (T07_traceEq_decision hne hne2).mp hcert
  have hm : TraceEq MGate.supp (tg.map sem) ((ids.map (fun i => tg.getD i default)).map sem) := by
    refine T07_traceEq_map sem ?_ h
    intro a b hd
    rw [disjointB_iff] at hd ⊢
    intro q hqa hqb
    exact hd q ((hq a q).mp hqa) ((hq b q).mp hqb)
  refine (T07_traceEq_run hm ?_ ψ).symm
  intro g hg
  obtain ⟨t, ht, rfl⟩ := List.mem_map.mp hg
  exact hwf t ht

end sem

/-- **The fusion algorithm only reorders gates that commute**: for every queue (measurements
and special gates included, a special gate being a barrier on all `n` qubits), every register
size and every `max_qubits`, the flattened fused queue of the model of `Circuit.fuse` is trace
equivalent to the input queue.  (Invariant: a neighbour pointer never skips a live node that
contains its qubit; the two emptiness guards of `FusedGate.fuse` then give disjointness of
the moved block from everything in between.) -/
theorem T07_fuse_trace (n maxq : Nat) (queue : List FIn) :
    TraceEq TGate.qs (tgates n queue)
      ((fuseModel n maxq queue).flatten.map (fun i => (tgates n queue).getD i default)) :=
  fuseModel_traceEq n maxq queue

/-- proved part about the algorithm, for every queue, register size and `max_qubits`: every
group of the fused queue carries an ascending (duplicate-free) qubit list, a group of more
than one gate has at most `max_qubits` qubits, and every member acts inside the group's
qubit list (the hypotheses `GroupOK` of `T07_fused_gate_product`). -/
theorem T07_fuse_groups_ok (n maxq : Nat) (queue : List FIn) :
    ∀ p ∈ fuseModelQ n maxq queue,
      p.2.Pairwise (· < ·) ∧ (p.1.length ≤ 1 ∨ p.2.length ≤ maxq) ∧
      ∀ g ∈ p.1, g < queue.length ∧
        ∀ q ∈ (if (queue.getD g default).kind == 2 then List.range n
               else (queue.getD g default).qs), q ∈ p.2 :=
  fuseModelQ_ok n maxq queue

/-- `fuseModelQ` is `fuseModel` with the groups' qubit lists attached. -/
theorem T07_fuse_groups_fst (n maxq : Nat) (queue : List FIn) :
    (fuseModelQ n maxq queue).map Prod.fst = fuseModel n maxq queue :=
  fuseModelQ_fst n maxq queue

/-- **the flattened fused queue is a permutation of the input queue**, for every queue,
register size and `max_qubits`: fusion neither loses nor duplicates nor invents a gate
(measurements and special gates included). -/
theorem T07_fuse_perm (n maxq : Nat) (queue : List FIn) :
    (fuseModel n maxq queue).flatten.Perm (List.range queue.length) :=
  fuseModel_perm n maxq queue

section fusesem
variable {α : Type} [CommSemiring α]

/-- a reading of the positions of a queue as simulator gates: well-formed gates that touch
only the qubits the queue entry names (all `n` qubits for a special gate). -/
def SemOK (n : Nat) (queue : List FIn) (sem : Nat → MGate α) : Prop :=
  ∀ i, i < queue.length →
    (sem i).targets.Nodup ∧ (sem i).controls.Nodup ∧
    (∀ c, c ∈ (sem i).controls → c ∉ (sem i).targets) ∧
    ∀ q, q ∈ (sem i).controls ++ (sem i).targets →
      q ∈ (if (queue.getD i default).kind == 2 then List.range n else (queue.getD i default).qs)

/-- **Fusion preserves the final state — for every circuit, every fusion width and every
initial state.**  Executing the fused queue of the model (every group ONE gate whose matrix
is `matrix_fused` of its members on the group's qubit list) gives the same state as
executing the original queue gate by gate. -/
theorem T07_fuse_preserves_state (n maxq : Nat) (queue : List FIn) (sem : Nat → MGate α)
    (hsem : SemOK n queue sem) (ψ : Lab → α) :
    runCircuit ((fuseModelQ n maxq queue).map (fun p => fusedGate p.2 (p.1.map sem))) ψ
      = runCircuit ((List.range queue.length).map sem) ψ := by
  have hok := T07_fuse_groups_ok n maxq queue
  -- groups as (qubit list, member gates)
  have hmap : (fuseModelQ n maxq queue).map (fun p => fusedGate p.2 (p.1.map sem))
      = ((fuseModelQ n maxq queue).map (fun p => (p.2, p.1.map sem))).map
          (fun p => fusedGate p.1 p.2) := by
    rw [List.map_map]; rfl
  rw [hmap, T07_fused_queue_flatten]
  · -- flatMap of the members = map sem of the flattened queue
    have hflat : ((fuseModelQ n maxq queue).map (fun p => (p.2, p.1.map sem))).flatMap (·.2)
        = ((fuseModel n maxq queue).flatten).map sem := by
      rw [← T07_fuse_groups_fst n maxq queue, List.flatMap_def, List.map_map,
        List.map_flatten, List.map_map]
      rfl
    rw [hflat]
    have hlen : ∀ i ∈ (fuseModel n maxq queue).flatten, i < queue.length := by
      intro i hi
      have := (T07_fuse_perm n maxq queue).mem_iff.mp hi
      exact List.mem_range.mp this
    have htg : (tgates n queue).length = queue.length := by simp [tgates]
    have hid : ∀ i, i < queue.length → ((tgates n queue).getD i default).id = i := by
      intro i hi
      simp [tgates, List.getD_eq_getElem?_getD, hi]
    have hqs : ∀ i, i < queue.length → ((tgates n queue).getD i default).qs
        = (if (queue.getD i default).kind == 2 then List.range n else (queue.getD i default).qs) := by
      intro i hi
      simp [tgates, List.getD_eq_getElem?_getD, hi]
    have h1 : (tgates n queue).map (fun t => sem t.id) = (List.range queue.length).map sem := by
      simp [tgates, List.map_map, Function.comp_def]
    have h2 : ((fuseModel n maxq queue).flatten.map
        (fun i => (tgates n queue).getD i default)).map (fun t => sem t.id)
        = (fuseModel n maxq queue).flatten.map sem := by
      rw [List.map_map]
      apply List.map_congr_left
      intro i hi
      simp only [Function.comp_apply]
      rw [hid i (hlen i hi)]
    have hte := T07_traceEq_map_mem (supp' := MGate.supp) (fun t : TGate => sem t.id)
      (T07_fuse_trace n maxq queue) (by
        intro a ha b hb hd
        obtain ⟨i, hi, rfl⟩ := List.mem_map.mp ha
        obtain ⟨j, hj, rfl⟩ := List.mem_map.mp hb
        have hi' := List.mem_range.mp hi
        have hj' := List.mem_range.mp hj
        rw [disjointB_iff] at hd ⊢
        intro q hqa hqb
        simp only [MGate.supp] at hqa hqb
        have ha' := (hsem i hi').2.2.2 q (by
          rcases List.mem_append.mp hqa with h | h
          · exact List.mem_append_right _ h
          · exact List.mem_append_left _ h)
        have hb' := (hsem j hj').2.2.2 q (by
          rcases List.mem_append.mp hqb with h | h
          · exact List.mem_append_right _ h
          · exact List.mem_append_left _ h)
        exact hd q ha' hb')
    rw [h1, h2] at hte
    exact (T07_traceEq_run hte (by
      intro g hg
      obtain ⟨i, hi, rfl⟩ := List.mem_map.mp hg
      exact (hsem i (List.mem_range.mp hi)).1) ψ).symm
  · intro p hp
    obtain ⟨p0, hp0, rfl⟩ := List.mem_map.mp hp
    obtain ⟨hpw, _, hmem⟩ := hok p0 hp0
    refine ⟨hpw.imp (fun h => Nat.ne_of_lt h), ?_⟩
    intro g hg
    obtain ⟨i, hi, rfl⟩ := List.mem_map.mp hg
    obtain ⟨hil, hiq⟩ := hmem i hi
    obtain ⟨s1, s2, s3, s4⟩ := hsem i hil
    exact ⟨s1, s2, s3, fun q hq => hiq q (s4 q hq)⟩

end fusesem

/-! ### light cone -/

section cone
variable {G : Type} {supp : G → List Nat}

/-- **Split lemma of `Circuit.light_cone`** for every queue and every set of observed
qubits: the queue is trace equivalent to "cone, then the gates left out"; the gates left out
touch none of the observed qubits; the observed qubits and all qubits of the cone belong to
the returned (sorted) qubit list, i.e. the domain of `qubit_map`. -/
theorem T07_light_cone_split (queue : List G) (S : List Nat) :
    TraceEq supp queue ((lightCone supp queue S).1 ++ (lightCone supp queue S).2.1) ∧
      (∀ g ∈ (lightCone supp queue S).2.1, disjointB (supp g) S = true) ∧
      (∀ q ∈ S, q ∈ (lightCone supp queue S).2.2) ∧
      (∀ g ∈ (lightCone supp queue S).1, ∀ q ∈ supp g, q ∈ (lightCone supp queue S).2.2) :=
  lightCone_split queue S

/-- cone and rest keep the queue order. -/
theorem T07_light_cone_order (queue : List G) (S : List Nat) :
    (lightCone supp queue S).1.Sublist queue ∧ (lightCone supp queue S).2.1.Sublist queue := by
  have h := coneSweep_sublist (supp := supp) queue.reverse S
  constructor
  · simpa [lightCone] using h.1.reverse
  · simpa [lightCone] using h.2.reverse

end cone

section conesem
variable {α : Type} [CommSemiring α]

/-- `M† M = 1` for the local matrix of a gate. -/
def IsIsometry (conj : α → α) (g : MGate α) : Prop :=
  ∀ i j, i < 2 ^ g.targets.length → j < 2 ^ g.targets.length →
    ∑ k ∈ range (2 ^ g.targets.length), conj (g.mat k i) * g.mat k j = if i = j then 1 else 0

/-- a gate all of whose qubits (targets and controls) are traced out, with `M† M = 1`, does
not change the reduced state on the remaining qubits. -/
theorem T07_ptrace_gate (conj : α → α) (T : List Nat) (g : MGate α) (hn : g.targets.Nodup)
    (hd : ∀ c, c ∈ g.controls → c ∉ g.targets)
    (hsub : ∀ q, q ∈ g.controls ++ g.targets → q ∈ T) (hU : IsIsometry conj g) (ρ : DM α) :
    ptrace T (applyGateDM conj g ρ) = ptrace T ρ :=
  ptrace_applyGateDM conj T g hn hd hsub hU ρ

/-- **Light cone.**  For every queue of well-formed gates with `M† M = 1`, every set `S` of
observed qubits and every list `T` of traced qubits containing the qubits of the gates left
out (by `T07_light_cone_split` these avoid `S`, so `T` can be chosen disjoint from `S`, e.g.
the complement of `S`): the reduced state of the full circuit equals the reduced state of
the light-cone circuit, for every initial density matrix. -/
theorem T07_light_cone_reduced (conj : α → α) (queue : List (MGate α)) (S T : List Nat)
    (hwf : ∀ g ∈ queue, g.targets.Nodup ∧ (∀ c, c ∈ g.controls → c ∉ g.targets) ∧
      IsIsometry conj g)
    (hT : ∀ g ∈ (lightCone MGate.supp queue S).2.1, ∀ q, q ∈ g.controls ++ g.targets → q ∈ T)
    (ρ : DM α) :
    ptrace T (runCircuitDM conj queue ρ)
      = ptrace T (runCircuitDM conj (lightCone MGate.supp queue S).1 ρ) := by
  obtain ⟨hsplit, _, _, _⟩ := T07_light_cone_split (supp := MGate.supp) queue S
  rw [T07_traceEq_run_dm conj hsplit (fun g hg => (hwf g hg).1), runCircuitDM_append]
  apply ptrace_runCircuitDM'
  intro g hg
  have hq := (T07_light_cone_order (supp := MGate.supp) queue S).2.subset hg
  obtain ⟨h1, h2, h3⟩ := hwf g hq
  exact ⟨h1, h2, hT g hg, h3⟩

omit [CommSemiring α] in
/-- the gates left out never touch an observed qubit: the list of their qubits is a valid
choice of `T` that keeps all of `S`. -/
theorem T07_light_cone_rest_off (queue : List (MGate α)) (S : List Nat) :
    ∀ q ∈ S, q ∉ supportOf MGate.supp (lightCone MGate.supp queue S).2.1 := by
  intro q hq hm
  obtain ⟨g, hg, hqg⟩ := List.mem_flatMap.mp hm
  have hd := (T07_light_cone_split (supp := MGate.supp) queue S).2.1 g hg
  exact (disjointB_iff.mp hd) q hqg hq

end conesem

/-! ### non-vacuity -/

private def X : Nat → Nat → Int := fun i j => if i + j = 1 then 1 else 0
private def X0 : MGate Int := { mat := X, targets := [0] }
private def X1 : MGate Int := { mat := X, targets := [1] }
private def CX01 : MGate Int := { mat := X, targets := [1], controls := [0] }

private theorem X_iso (g : MGate Int) (hm : g.mat = X) (hl : g.targets.length = 1) :
    IsIsometry id g := by
  intro i j hi hj
  rw [hl] at hi hj ⊢
  rw [hm]
  have h : (i = 0 ∨ i = 1) ∧ (j = 0 ∨ j = 1) := by omega
  rcases h with ⟨rfl | rfl, rfl | rfl⟩ <;> decide

/-- two gates on different qubits are trace equivalent in either order, and the decision
procedure says so; gates sharing a qubit are not. -/
example : TraceEq MGate.supp [X0, X1] [X1, X0] := TraceEq.swap X0 X1 [] (by decide)
example : traceEqB TGate.qs [⟨0, [0]⟩, ⟨1, [1]⟩] [⟨1, [1]⟩, ⟨0, [0]⟩] = true := by decide
example : traceEqB TGate.qs [⟨0, [0, 1]⟩, ⟨1, [1]⟩] [⟨1, [1]⟩, ⟨0, [0, 1]⟩] = false := by decide

/-- the fusion model on H(0) H(1) CNOT(0,1) Y(0) Y(1) with max_qubits = 2: one group. -/
example : fuseModel 2 2 [⟨[0], 0⟩, ⟨[1], 0⟩, ⟨[0, 1], 0⟩, ⟨[0], 0⟩, ⟨[1], 0⟩] = [[1, 0, 2, 3, 4]] := by
  decide

/-- a measurement in the middle is a barrier on its qubit. -/
example : fuseModel 2 2 [⟨[0], 0⟩, ⟨[0], 1⟩, ⟨[0], 0⟩, ⟨[1], 0⟩] = [[0], [1], [2], [3]] := by decide

/-- hypotheses of `T07_fused_gate_product` are satisfiable: X(0) and CX(0→1) fused on [0, 1]. -/
example (ψ : Lab → Int) : applyGate (fusedGate [0, 1] [X0, CX01]) ψ = runCircuit [X0, CX01] ψ :=
  T07_fused_gate_product [0, 1] [X0, CX01]
    ⟨by decide, by
      intro g hg
      simp only [List.mem_cons, List.not_mem_nil, or_false] at hg
      rcases hg with rfl | rfl <;> exact ⟨by decide, by decide, by decide, by decide⟩⟩ ψ

/-- concrete value: the fused matrix of X(0); CX(0→1) sends |00⟩ to |11⟩ (entry (3,0) is 1). -/
example : fusedMat (α := Int) [0, 1] [X0, CX01] 3 0 = 1 := by decide

/-- hypotheses of `T07_fuse_preserves_state` are satisfiable: X(0); CX(0→1) with max_qubits 2
is fused into one gate that acts as the two gates in sequence. -/
example (ψ : Lab → Int) :
    runCircuit ((fuseModelQ 2 2 [⟨[0], 0⟩, ⟨[0, 1], 0⟩]).map
        (fun p => fusedGate p.2 (p.1.map (fun i => if i = 0 then X0 else CX01)))) ψ
      = runCircuit [X0, CX01] ψ := by
  have h := T07_fuse_preserves_state 2 2 [⟨[0], 0⟩, ⟨[0, 1], 0⟩]
    (fun i => if i = 0 then X0 else CX01)
    (by
      intro i hi
      have : i = 0 ∨ i = 1 := by simp at hi; omega
      rcases this with rfl | rfl <;> exact ⟨by decide, by decide, by decide, by decide⟩) ψ
  exact h

example : fuseModelQ 2 2 [⟨[0], 0⟩, ⟨[0, 1], 0⟩] = [([0, 1], [0, 1])] := by decide

/-- light cone of qubit 0 in  X(1); CX(0→1); X(1):  the last X(1) is left out, the cone is
the first two gates on qubits [0, 1]. -/
example : (lightCone TGate.qs [⟨0, [1]⟩, ⟨1, [0, 1]⟩, ⟨2, [1]⟩] [0])
    = ([⟨0, [1]⟩, ⟨1, [0, 1]⟩], [⟨2, [1]⟩], [0, 1]) := by decide

/-- hypotheses of `T07_light_cone_reduced` are satisfiable (observed qubit 0, traced qubit 1,
queue X(0); X(1): the cone is X(0)). -/
example (ρ : DM Int) :
    ptrace [1] (runCircuitDM id [X0, X1] ρ) = ptrace [1] (runCircuitDM id [X0] ρ) := by
  have h := T07_light_cone_reduced id [X0, X1] [0] [1]
    (by
      intro g hg
      simp only [List.mem_cons, List.not_mem_nil, or_false] at hg
      rcases hg with rfl | rfl
      · exact ⟨by decide, by decide, X_iso X0 rfl rfl⟩
      · exact ⟨by decide, by decide, X_iso X1 rfl rfl⟩)
    (by decide) ρ
  exact h

end QV.Props.C07
