/-
  C07 (second part) — what can be OBSERVED while the fused circuit runs, and the circuit object
  that `Circuit.fuse` returns.  Property theorems only (helper lemmas: QV/Proofs/FusionKeep.lean,
  QV/Proofs/FusionObs.lean).  Models: QV/Model/FusionObs.lean (+ QV/Model/Fusion.lean).

  Entries of a queue: ordinary gates, `CallbackGate`s (observe the WHOLE state at their
  position), collapsing measurements (observe the reduced state on their qubits, draw an outcome
  from an oracle, project, renormalise), deferred measurements.  The OBSERVATION TRACE of a run
  is the list of (entry id, what the entry saw) in execution order; a run returns it together
  with the final state (`orun`).  The oracle may depend on everything observed so far and on
  the reduced state it is shown; the normalisation factor is an arbitrary function of the
  reduced state and the outcome (so neither randomness nor floating point is fixed).

    observers keep their order, groups are gates      T07_fuse_keeps_observers, T07_fuse_groups_kind
    independent entries commute, trace included      T07_observation_commute
    `~ₜ` (with the observers pairwise dependent)      T07_traceEq_observation_trace
        ==> same final state, same observation trace
    **fused queue vs original queue**                 T07_fuse_observation_trace  (any lawful simulator)
                                                      T07_fuse_observation_trace_sv / _dm
    a callback that is no barrier changes the trace   T07_callback_barrier_needed (kernel witness)
    attributes of the fused circuit object            T07_fuse_flags, T07_fuse_exec_mode
    execution (single pass / shot loop) end to end    T07_fuse_execute
-/
import QV.Proofs.FusionObs
import QV.Proofs.FusionObsDM
namespace QV.Props.C07
open QV Finset

/-! ### the fusion algorithm and the observing entries -/

/-- **measurements and special gates are neither moved past each other, nor merged, nor lost**:
for every queue, register size and `max_qubits`, the entries of the flattened fused queue that
are not ordinary gates are those of the input queue, in the same order. -/
theorem T07_fuse_keeps_observers (n maxq : Nat) (queue : List FIn) :
    (fuseModel n maxq queue).flatten.filter (fun g => kindAt queue g != 0)
      = (List.range queue.length).filter (fun g => kindAt queue g != 0) :=
  fuseModel_filter_kept n maxq queue

/-- every group of the fused queue is a single entry of the input queue or consists of
ordinary gates only (a `FusedGate` never swallows a measurement or a callback). -/
theorem T07_fuse_groups_kind (n maxq : Nat) (queue : List FIn) :
    ∀ grp ∈ fuseModel n maxq queue, (∃ j, grp = [j]) ∨ ∀ g ∈ grp, kindAt queue g = 0 :=
  fuseModel_groups_kind n maxq queue

/-- the flattened fused queue is trace equivalent to the input queue even when all entries
that are not ordinary gates are made pairwise dependent (virtual qubit `n`). -/
theorem T07_fuse_trace_observers (n maxq : Nat) (queue : List FIn) (hv : QueueValid n queue)
    (hne : ∀ i, i < queue.length → kindAt queue i = 0 → gateQs n queue i ≠ []) :
    TraceEq (suppV n queue) (List.range queue.length) (fuseModel n maxq queue).flatten :=
  fuseModel_traceEqV n maxq queue hv hne

/-! ### semantics of observation -/

section sem
variable {α : Type} [CommSemiring α] {S R : Type}
variable {sp : QSpace α S R} {iso : MGate α → Prop} {n : Nat}

/-- **independent entries commute, observation included**: a gate moved across a collapsing
measurement on other qubits changes neither the reduced state the measurement sees, nor the
outcome drawn, nor the resulting state; two observing entries, or a callback and a gate, are
never independent. -/
theorem T07_observation_commute (law : sp.Lawful iso n)
    (draw : List (Nat × Obs S R) → R → Nat) (nrm : R → Nat → α) (a b : Nat × OItem α)
    (ha : a.2.WF iso n) (hb : b.2.WF iso n)
    (hd : disjointB (a.2.supp n) (b.2.supp n) = true) (r : ORun S R) :
    ostep sp draw nrm (ostep sp draw nrm r a) b = ostep sp draw nrm (ostep sp draw nrm r b) a :=
  ostep_comm draw nrm law a b ha hb hd r

/-- **trace-equivalent queues have the same final state and the same observation trace**, for
every oracle, every normalisation and every initial run state. -/
theorem T07_traceEq_observation_trace (law : sp.Lawful iso n)
    (draw : List (Nat × Obs S R) → R → Nat) (nrm : R → Nat → α) {l₁ l₂ : List (Nat × OItem α)}
    (h : TraceEq (fun e : Nat × OItem α => e.2.supp n) l₁ l₂)
    (hwf : ∀ e ∈ l₁, e.2.WF iso n) (r : ORun S R) :
    orun sp draw nrm l₁ r = orun sp draw nrm l₂ r :=
  orun_traceEq draw nrm law h hwf r

/-- **Fusion preserves the observation trace and the final state** — for every queue with
callbacks and collapsing measurements at any positions, every register size, every
`max_qubits`, every initial state, every trace so far, every oracle and every normalisation.
The fused queue of the model (each group with more than one member ONE gate with the matrix
of `matrix_fused`) is run against the original queue. -/
theorem T07_fuse_observation_trace (law : sp.Lawful iso n) (maxq : Nat) (queue : List FIn)
    (sem : Nat → OItem α) (hv : QueueValid n queue) (hs : OSemOK iso queue sem)
    (draw : List (Nat × Obs S R) → R → Nat) (nrm : R → Nat → α) (r : ORun S R) :
    orun sp draw nrm (fusedItems sem (fuseModelQ n maxq queue)) r
      = orun sp draw nrm (origItems sem queue.length) r := by
  have hok := fuseModelQ_ok n maxq queue
  have hfst := fuseModelQ_fst n maxq queue
  rw [orun_fusedItems draw nrm law sem, hfst]
  · exact (orun_traceEq draw nrm law (fuseModel_items_traceEq maxq hv hs) (by
      intro e he
      obtain ⟨i, hi, rfl⟩ := List.mem_map.1 he
      exact hs.wf hv (List.mem_range.1 hi)) r).symm
  · intro p hp
    have hmem : p.1 ∈ fuseModel n maxq queue := by
      rw [← hfst]; exact List.mem_map.2 ⟨p, hp, rfl⟩
    obtain ⟨hpw, _, hin⟩ := hok p hp
    rcases fuseModel_groups_kind n maxq queue p.1 hmem with h | h
    · exact Or.inl h
    · refine Or.inr ⟨hpw.imp (fun h => Nat.ne_of_lt h), fun i hi => ?_⟩
      obtain ⟨hil, hiq⟩ := hin i hi
      obtain ⟨g, hg, hm, _, _⟩ := (hs i hil).1 (h i hi)
      refine ⟨g, hg, hm.1, hm.2.1, hm.2.2.1, fun q hq => hiq q ?_⟩
      have hk : ((queue.getD i default).kind == 2) = false := by
        have := h i hi
        simp only [kindAt] at this
        rw [this]; rfl
      rw [hk]
      exact hm.2.2.2 q hq

/-- state vectors: the reduced state a collapsing measurement sees is the partial trace of
`|ψ⟩⟨ψ|` over the other qubits of the register. -/
theorem T07_fuse_observation_trace_sv (conj : α → α)
    (hadd : ∀ a b, conj (a + b) = conj a + conj b) (hmul : ∀ a b, conj (a * b) = conj a * conj b)
    (n maxq : Nat) (queue : List FIn) (sem : Nat → OItem α) (hv : QueueValid n queue)
    (hs : OSemOK (IsoGate conj) queue sem)
    (draw : List (Nat × Obs (Lab → α) (DM α)) → DM α → Nat) (nrm : DM α → Nat → α)
    (r : ORun (Lab → α) (DM α)) :
    orun (svSpace conj n) draw nrm (fusedItems sem (fuseModelQ n maxq queue)) r
      = orun (svSpace conj n) draw nrm (origItems sem queue.length) r :=
  T07_fuse_observation_trace (svSpace_lawful conj hadd hmul n) maxq queue sem hv hs draw nrm r

/-- density matrices (`conj` a ring homomorphism). -/
theorem T07_fuse_observation_trace_dm (conj : α → α)
    (hadd : ∀ a b, conj (a + b) = conj a + conj b) (hmul : ∀ a b, conj (a * b) = conj a * conj b)
    (h0 : conj 0 = 0) (h1 : conj 1 = 1)
    (n maxq : Nat) (queue : List FIn) (sem : Nat → OItem α) (hv : QueueValid n queue)
    (hs : OSemOK (IsoGate conj) queue sem)
    (draw : List (Nat × Obs (DM α) (DM α)) → DM α → Nat) (nrm : DM α → Nat → α)
    (r : ORun (DM α) (DM α)) :
    orun (dmSpace conj n) draw nrm (fusedItems sem (fuseModelQ n maxq queue)) r
      = orun (dmSpace conj n) draw nrm (origItems sem queue.length) r :=
  T07_fuse_observation_trace (dmSpace_lawful conj hadd hmul h0 h1 n) maxq queue sem hv hs draw nrm r

end sem

/-! ### the circuit object -/

/-- **the fused circuit object carries the attributes of the input**: `nqubits`,
`density_matrix`, `has_collapse`, `has_unitary_channel`, `measurements`, `init_kwargs`; its
queue is the fused queue. -/
theorem T07_fuse_flags (c : CircObj) (hc : CircObj.Consistent c) (entries : List FIn)
    (maxq : Nat) :
    (c.fuse entries maxq).nqubits = c.nqubits ∧
    (c.fuse entries maxq).density_matrix = c.density_matrix ∧
    (c.fuse entries maxq).has_collapse = c.has_collapse ∧
    (c.fuse entries maxq).has_unitary_channel = c.has_unitary_channel ∧
    (c.fuse entries maxq).measurements = c.measurements ∧
    (c.fuse entries maxq).init_kwargs = c.init_kwargs ∧
    (c.fuse entries maxq).queue = fuseModel c.nqubits maxq entries ∧
    CircObj.Consistent (c.fuse entries maxq) :=
  ⟨hc.1.symm, hc.2.symm, rfl, rfl, rfl, rfl, rfl, rfl, rfl⟩

/-- hence the execution mode (single pass or one pass per shot) is the same. -/
theorem T07_fuse_exec_mode (c : CircObj) (hc : CircObj.Consistent c) (entries : List FIn)
    (maxq : Nat) : (c.fuse entries maxq).repeatedExecution = c.repeatedExecution := by
  obtain ⟨_, h2, h3, h4, _⟩ := T07_fuse_flags c hc entries maxq
  unfold CircObj.repeatedExecution
  rw [h2, h3, h4]

section exec
variable {α : Type} [CommSemiring α] {S R : Type}
variable {sp : QSpace α S R} {iso : MGate α → Prop}

/-- **Executing the fused circuit object gives, shot by shot, the same final state and the
same observation trace as executing the original circuit object** (same mode, and in each
pass the same run), for every number of shots, every per-shot oracle, every initial state. -/
theorem T07_fuse_execute (c : CircObj) (hc : CircObj.Consistent c)
    (law : sp.Lawful iso c.nqubits) (maxq : Nat) (entries : List FIn) (sem : Nat → OItem α)
    (hv : QueueValid c.nqubits entries) (hs : OSemOK iso entries sem)
    (draw : Nat → List (Nat × Obs S R) → R → Nat) (nrm : R → Nat → α) (nshots : Nat) (s0 : S) :
    execObj sp draw nrm (c.fuse entries maxq)
        (fusedItems sem (fuseModelQ c.nqubits maxq entries)) nshots s0
      = execObj sp draw nrm c (origItems sem entries.length) nshots s0 := by
  unfold execObj
  rw [T07_fuse_exec_mode c hc entries maxq]
  simp only [T07_fuse_observation_trace law maxq entries sem hv hs]

end exec

/-! ### non-vacuity and the kernel witness -/

private def X : Nat → Nat → Int := fun i j => if i + j = 1 then 1 else 0
private def X0 : MGate Int := { mat := X, targets := [0] }
private def CX01 : MGate Int := { mat := X, targets := [1], controls := [0] }

/-- X(0); CallbackGate; CNOT(0,1) on two qubits. -/
private def q3 : List FIn := [⟨[0], 0⟩, ⟨[], 2⟩, ⟨[0, 1], 0⟩]
private def sem3 : Nat → OItem Int := fun i =>
  if i = 0 then .gate X0 else if i = 1 then .callback else .gate CX01

private theorem X_iso (g : MGate Int) (hm : g.mat = X) (hl : g.targets.length = 1) :
    IsoGate id g := by
  intro i j hi hj
  rw [hl] at hi hj ⊢
  rw [hm]
  have h : (i = 0 ∨ i = 1) ∧ (j = 0 ∨ j = 1) := by omega
  rcases h with ⟨rfl | rfl, rfl | rfl⟩ <;> decide

private theorem q3_valid : QueueValid 2 q3 := by unfold QueueValid q3; decide

private theorem sem3_ok : OSemOK (IsoGate id) q3 sem3 := by
  intro i hi
  have : i = 0 ∨ i = 1 ∨ i = 2 := by simp [q3] at hi; omega
  rcases this with rfl | rfl | rfl
  · refine ⟨fun _ => ⟨X0, rfl, ⟨by decide, by decide, by decide, by decide⟩, by decide,
      X_iso X0 rfl rfl⟩, fun h => by simp [kindAt, q3] at h, fun h => absurd rfl h⟩
  · exact ⟨fun h => by simp [kindAt, q3] at h, fun _ => rfl, fun _ h => absurd rfl h⟩
  · refine ⟨fun _ => ⟨CX01, rfl, ⟨by decide, by decide, by decide, by decide⟩, by decide,
      X_iso CX01 rfl rfl⟩, fun h => by simp [kindAt, q3] at h, fun h => absurd rfl h⟩

/-- the hypotheses of `T07_fuse_observation_trace_sv` are satisfiable: with the callback as a
barrier nothing is fused across it … -/
example : fuseModelQ 2 2 q3 = [([0], [0]), ([1], [0, 1]), ([2], [0, 1])] := by decide

example (draw : List (Nat × Obs (Lab → Int) (DM Int)) → DM Int → Nat) (nrm : DM Int → Nat → Int)
    (r : ORun (Lab → Int) (DM Int)) :
    orun (svSpace id 2) draw nrm (fusedItems sem3 (fuseModelQ 2 2 q3)) r
      = orun (svSpace id 2) draw nrm (origItems sem3 3) r :=
  T07_fuse_observation_trace_sv id (fun _ _ => rfl) (fun _ _ => rfl) 2 2 q3 sem3 q3_valid sem3_ok
    draw nrm r

/-- the same for density matrices, and for the execution of the circuit objects (a circuit
with `has_collapse` runs once per shot, each shot with its own oracle). -/
example (draw : List (Nat × Obs (DM Int) (DM Int)) → DM Int → Nat) (nrm : DM Int → Nat → Int)
    (r : ORun (DM Int) (DM Int)) :
    orun (dmSpace id 2) draw nrm (fusedItems sem3 (fuseModelQ 2 2 q3)) r
      = orun (dmSpace id 2) draw nrm (origItems sem3 3) r :=
  T07_fuse_observation_trace_dm id (fun _ _ => rfl) (fun _ _ => rfl) rfl rfl 2 2 q3 sem3 q3_valid
    sem3_ok draw nrm r

example (draw : Nat → List (Nat × Obs (Lab → Int) (DM Int)) → DM Int → Nat)
    (nrm : DM Int → Nat → Int) (nshots : Nat) (ψ : Lab → Int) :
    execObj (svSpace id 2) draw nrm
        ({ CircObj.init ⟨2, false, [0, 1]⟩ with has_collapse := true }.fuse q3 2)
        (fusedItems sem3 (fuseModelQ 2 2 q3)) nshots ψ
      = execObj (svSpace id 2) draw nrm { CircObj.init ⟨2, false, [0, 1]⟩ with has_collapse := true }
        (origItems sem3 3) nshots ψ :=
  T07_fuse_execute (sp := svSpace id 2) (iso := IsoGate id)
    { CircObj.init ⟨2, false, [0, 1]⟩ with has_collapse := true } ⟨rfl, rfl⟩
    (svSpace_lawful id (fun _ _ => rfl) (fun _ _ => rfl) 2) 2 q3 sem3 q3_valid sem3_ok draw nrm
    nshots ψ

/-- the value a callback computes from the state it sees: here the amplitude of `|00⟩`. -/
private def amp00 : Obs (Lab → Int) (DM Int) → Int
  | .whole s => s (fun _ => false)
  | .reduced _ _ => 0

private def ket00 : Lab → Int := fun x => if x 0 || x 1 then 0 else 1

private def logOf (items : List (Nat × OItem Int)) : List (Nat × Int) :=
  (orun (svSpace id 2) (fun _ _ => 0) (fun _ _ => 1) items { st := ket00, log := [] }).log.map
    (fun e => (e.1, amp00 e.2))

/-- … whereas in the seeded variant C07-7 (`noBarrier`: the neighbour links of a special gate
are made over `gate.qubits`, empty for a callback) X(0) and CNOT(0,1) are fused across the
callback, which moves to the front … -/
example : fuseModelQ 2 2 (noBarrier q3) = [([1], []), ([0, 2], [0, 1])] := by decide

/-- **kernel witness: the callback must be a barrier.**  On X(0); CallbackGate; CNOT(0,1) from
`|00⟩` the callback sees amplitude 0 of `|00⟩` in the original queue and in the fused queue of
the model, but amplitude 1 in the fused queue of the variant — although the variant's final
state is unchanged. -/
theorem T07_callback_barrier_needed :
    logOf (origItems sem3 3) = [(1, 0)] ∧
    logOf (fusedItems sem3 (fuseModelQ 2 2 q3)) = [(1, 0)] ∧
    logOf (fusedItems sem3 (fuseModelQ 2 2 (noBarrier q3))) = [(1, 1)] := by
  decide

/-- a collapsing measurement in the middle: CNOT(0,1), M(0, collapse=True), X(1), X(0).  The
gate on qubit 1 IS moved across the measurement (into the first group); the gate on qubit 0
is not. -/
private def q4 : List FIn := [⟨[0, 1], 0⟩, ⟨[0], 1⟩, ⟨[1], 0⟩, ⟨[0], 0⟩]
private def X1 : MGate Int := { mat := X, targets := [1] }
private def sem4 : Nat → OItem Int := fun i =>
  if i = 0 then .gate CX01 else if i = 1 then .collapse [0] else if i = 2 then .gate X1
  else .gate X0

example : fuseModelQ 2 2 q4 = [([0, 2], [0, 1]), ([1], [0]), ([3], [0])] := by decide

private theorem q4_valid : QueueValid 2 q4 := by unfold QueueValid q4; decide

private theorem sem4_ok : OSemOK (IsoGate id) q4 sem4 := by
  intro i hi
  have : i = 0 ∨ i = 1 ∨ i = 2 ∨ i = 3 := by simp [q4] at hi; omega
  rcases this with rfl | rfl | rfl | rfl
  · refine ⟨fun _ => ⟨CX01, rfl, ⟨by decide, by decide, by decide, by decide⟩, by decide,
      X_iso CX01 rfl rfl⟩, fun h => by simp [kindAt, q4] at h, fun h => absurd rfl h⟩
  · refine ⟨fun h => by simp [kindAt, q4] at h, fun h => by simp [kindAt, q4] at h,
      fun _ _ => ⟨[0], Or.inl rfl, by decide, by decide⟩⟩
  · refine ⟨fun _ => ⟨X1, rfl, ⟨by decide, by decide, by decide, by decide⟩, by decide,
      X_iso X1 rfl rfl⟩, fun h => by simp [kindAt, q4] at h, fun h => absurd rfl h⟩
  · refine ⟨fun _ => ⟨X0, rfl, ⟨by decide, by decide, by decide, by decide⟩, by decide,
      X_iso X0 rfl rfl⟩, fun h => by simp [kindAt, q4] at h, fun h => absurd rfl h⟩

/-- the hypotheses are satisfiable with a collapsing measurement across which a gate is moved:
the measurement sees the same reduced state, draws the same outcome, and the run ends in the
same state — for every oracle. -/
example (draw : List (Nat × Obs (Lab → Int) (DM Int)) → DM Int → Nat) (nrm : DM Int → Nat → Int)
    (r : ORun (Lab → Int) (DM Int)) :
    orun (svSpace id 2) draw nrm (fusedItems sem4 (fuseModelQ 2 2 q4)) r
      = orun (svSpace id 2) draw nrm (origItems sem4 4) r :=
  T07_fuse_observation_trace_sv id (fun _ _ => rfl) (fun _ _ => rfl) 2 2 q4 sem4 q4_valid sem4_ok
    draw nrm r

/-- flags: a consistent circuit with a collapsing measurement keeps `has_collapse`, so the
fused circuit is executed shot by shot. -/
example : ((CircObj.init ⟨2, false, [0, 1]⟩).fuse [] 2).Consistent := ⟨rfl, rfl⟩
example : ({ CircObj.init ⟨2, false, [0, 1]⟩ with has_collapse := true }.fuse
    [⟨[0], 0⟩, ⟨[0], 1⟩] 2).repeatedExecution = true := by decide

end QV.Props.C07
