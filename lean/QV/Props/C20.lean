/-
  C20 — Library circuit constructors build exactly what they document.
  Property theorems only; proofs in QV/Proofs/Encodings.lean.
  Model: QV/Model/Encodings.lean (gate lists of QFT, comp_basis_encoder, ghz_state,
  unary_encoder, the Ehrlich walk), executed by the simulator model QV/Model/Sim.lean.

  Scalars: an arbitrary commutative ring `α` with a parameter pack `P : Par α`
    P.h = 1/√2,  P.w e = exp(iπ/2^e) (the CU1 phases),  P.c e / P.s e = cos / sin of the
    e-th circuit parameter (RBS angles).
  Only the relations that the proofs need are assumed (`P.w 0 = -1`, `P.w (k+1)^2 = P.w k`);
  `stdPar` below shows that the complex numbers qibo uses satisfy them.
  `ket b` is the basis state with label `b : Nat → Bool`; labels are total functions, so no
  register size appears: every statement holds for every number of qubits.
-/
import Mathlib.Analysis.SpecialFunctions.Trigonometric.Basic
import QV.Proofs.Encodings
namespace QV.Props.C20
open QV QV.Enc Finset

variable {α : Type} [CommRing α]

/-! ### computational-basis encoder and GHZ -/

/-- for every bit list, the X gates of `comp_basis_encoder` map `|0…0⟩` to `|bits⟩`
(qubit `r` carries `bits[r]`). -/
theorem T20_comp_basis (P : Par α) (bits : List Bool) :
    runCircuit ((compBasis bits).map (GD.sem P)) (ket zeroLab) = ket (labOf bits) := by
  classical
  unfold compBasis
  rw [runCircuit_compBasisFrom]
  funext x
  rw [ket_apply, ket_apply]
  simp only [xorFrom_zero_eq]

/-- `ghz_state(n)`: `H(0)` and the CNOT chain give amplitude `1/√2` on `|0…0⟩` and on
`|1…1⟩` (n ones) and `0` elsewhere, for every `n ≥ 1`. -/
theorem T20_ghz (P : Par α) {n : Nat} (hn : 1 ≤ n) :
    runCircuit ((ghz n).map (GD.sem P)) (ket zeroLab)
      = fun x => P.h * (ket zeroLab x + ket (onesLab n) x) :=
  runCircuit_ghz P hn

/-! ### unary encoder, diagonal architecture -/

/-- state prepared by `unary_encoder(·, "diagonal")` for arbitrary RBS angles: amplitude
`s₀⋯s_{k-1}·c_k` on the one-hot state of qubit `n-1-k`, `s₀⋯s_{n-2}` on qubit `0`. -/
theorem T20_unary_diagonal_state (P : Par α) {n : Nat} (hn : 1 ≤ n) :
    runCircuit ((unary n false).map (GD.sem P)) (ket zeroLab) = diagState P n (n - 1) :=
  runCircuit_unary_diag P hn

/-- **Unary loader (diagonal).**  Let `r k` play the role of the partial norm `‖x[k:]‖`
(`r (n-1) = x (n-1)`), and let the angles satisfy `r k · cos θ_k = x k`,
`r k · sin θ_k = r (k+1)` — which is what `θ_k = arctan2(‖x[k+1:]‖, x_k)` (last one
`arctan2(x_{n-1}, x_{n-2})`) gives, zero tails and negative entries included.  Then
`‖x‖ · state = Σ_k x_k |one-hot(n-1-k)⟩`: the amplitudes on the documented basis states
are `x_k / ‖x‖` and every other amplitude is 0. -/
theorem T20_unary_diagonal (P : Par α) {n : Nat} (hn : 1 ≤ n) (x r : Nat → α)
    (hlast : r (n - 1) = x (n - 1))
    (hc : ∀ k, k < n - 1 → r k * P.c k = x k)
    (hs : ∀ k, k < n - 1 → r k * P.s k = r (k + 1)) (y : Lab) :
    r 0 * runCircuit ((unary n false).map (GD.sem P)) (ket zeroLab) y
      = ∑ k ∈ range n, x k * ket (oh (n - 1 - k)) y := by
  rw [T20_unary_diagonal_state P hn]
  have hn' : n = (n - 1) + 1 := by omega
  conv_rhs => rw [hn', sum_range_succ]
  have hp := norm_prod P r (n - 1) hs
  unfold diagState
  rw [mul_add, mul_sum]
  congr 1
  · apply sum_congr rfl
    intro k hk
    have hk' : k < n - 1 := mem_range.mp hk
    have h1 : n - 1 + 1 - 1 - k = n - 1 - k := by omega
    rw [h1, ← hc k hk', ← hp k (by omega)]
    ring
  · have h1 : n - 1 + 1 - 1 - (n - 1) = n - 1 - (n - 1) := by omega
    rw [h1, ← hlast, ← hp (n - 1) (le_refl _)]
    ring

/-- **Unary loaders of every architecture stay in the one-hot subspace.**  For any list of
RBS pairs on distinct qubits `< n` (tree, diagonal, or any other layout) the circuit
`X(n-1); RBS(pairs[0], θ₀); RBS(pairs[1], θ₁); …` applied to `|0…0⟩` is the one-hot
superposition whose amplitude vector is obtained by the `n`-dimensional Givens rotations
`runAmps` — the exponentially large state never has to be built to know the result
(the check uses this to test `unary_encoder` up to 64 qubits). -/
theorem T20_unary_network (P : Par α) {n : Nat} (hn : 1 ≤ n) (pairs : List (Nat × Nat))
    (hp : ∀ p ∈ pairs, p.1 ≠ p.2 ∧ p.1 < n ∧ p.2 < n) :
    runCircuit ((({ kind := .X, q0 := n - 1 } : GD) :: rbsGates pairs).map (GD.sem P)) (ket zeroLab)
      = ohState n (runAmps P (rbsGates pairs) (fun r => if r = n - 1 then 1 else 0)) := by
  rw [List.map_cons, runCircuit_cons]
  show runCircuit _ (applyGate ({ mat := matX, targets := [n - 1], controls := [] } : MGate α) _) = _
  rw [X_ket_zero, ket_oh_eq_ohState (n := n) (by omega)]
  exact runCircuit_rbs_network P n _ (rbsGates_valid hp) _

/-! ### QFT -/

/-- gate count: `n` Hadamards and `n(n-1)/2` controlled phases, i.e. `n(n+1)/2` gates,
plus `⌊n/2⌋` swaps. -/
theorem T20_qft_gate_count (n : Nat) :
    2 * (qftBody n).length = n * (n + 1) ∧ (qftSwaps n).length = n / 2 ∧
      (qft n true).length = (qftBody n).length + n / 2 ∧ (qft n false).length = (qftBody n).length := by
  refine ⟨length_qftBody n, length_qftSwaps n, ?_, ?_⟩
  · simp [qft, length_qftSwaps]
  · simp [qft]

/-- the gates before the swaps are exactly: `H(i)` for `i < n`, and one
`CU1(control j, target i, π/2^(j-i))` for every pair `i < j < n`. -/
theorem T20_qft_gates (n : Nat) (g : GD) :
    g ∈ qftBody n ↔
      (∃ i, i < n ∧ g = { kind := .H, q0 := i }) ∨
      (∃ i j, i < j ∧ j < n ∧ g = { kind := .CU1, q0 := j, q1 := i, e := j - i }) :=
  mem_qftBody n g

/-- product form: on input `|b⟩` the circuit without swaps leaves output qubit `j` in
`(|0⟩ + e^{2πi·0.b_j b_{j+1}…b_{n-1}} |1⟩)/√2`. -/
theorem T20_qft_product (P : Par α) (hw0 : P.w 0 = -1) (n : Nat) (b : Lab) :
    runCircuit ((qftBody n).map (GD.sem P)) (ket b) = qftState P n b n :=
  runCircuit_qftBody P hw0 n b

/-- the final swaps reverse the order of the `n` qubits. -/
theorem T20_qft_swaps (P : Par α) (n : Nat) (ψ : Lab → α) :
    runCircuit ((qftSwaps n).map (GD.sem P)) ψ = fun y => ψ (rev n y) :=
  runCircuit_qftSwaps P n ψ

/-- **QFT_n = DFT_{2^n} for every n.**  `⟨y| QFT(n) |b⟩ = (1/√2)^n · ω^(val b · val y)`, with
`ω = exp(2πi/2^n) = P.w (n-1)` and `val` the big-endian value of the first `n` bits (qibo's
array index, `T20_val_eq_index`); the amplitude is 0 unless `y` and `b` agree outside the
register. -/
theorem T20_qft_dft (P : Par α) (hw0 : P.w 0 = -1) (hw : ∀ k, P.w (k + 1) ^ 2 = P.w k)
    {n : Nat} (hn : 1 ≤ n) (b y : Lab) :
    runCircuit ((qft n true).map (GD.sem P)) (ket b) y
      = ind (∀ q, n ≤ q → y q = b q) * (P.h ^ n * P.w (n - 1) ^ (val n b * val n y)) :=
  qft_dft P hw0 hw hn b y

/-- with `with_swaps=False` the same matrix appears with the output index bit-reversed
(the documented qubit reversal). -/
theorem T20_qft_no_swaps_dft (P : Par α) (hw0 : P.w 0 = -1) (hw : ∀ k, P.w (k + 1) ^ 2 = P.w k)
    {n : Nat} (hn : 1 ≤ n) (b y : Lab) :
    runCircuit ((qft n false).map (GD.sem P)) (ket b) y
      = ind (∀ q, n ≤ q → y q = b q) * (P.h ^ n * P.w (n - 1) ^ (val n b * val n (rev n y))) :=
  qft_no_swaps_dft P hw0 hw hn b y

/-- `val` is the array index the simulator (and qibo) uses for a label. -/
theorem T20_val_eq_index (n : Nat) (b : Lab) : val n b = Lab.toIndex n b :=
  val_eq_toIndex n b

/-! ### Ehrlich walk (Hamming-weight encoder) -/

/-- one step of `_get_next_bistring` in a designed situation moves exactly one 1, between
the marked position and a position above it (so Hamming weight and length are kept). -/
theorem T20_ehrlich_step (bs : List Bool) (mx : Nat) (hmx : mx < bs.length)
    (hreg : (bs.getD mx false = false ∧ (nearestOne bs mx).isSome) ∨
            (bs.getD mx false = true ∧ (farthestZero bs mx (nearestOne bs mx)).isSome)) :
    (∃ i j, i < bs.length ∧ j < bs.length ∧ i ≠ j ∧ bs.getD i false = true ∧
        bs.getD j false = false ∧ (i = mx ∨ j = mx) ∧ mx ≤ i ∧ mx ≤ j ∧
        nextBits bs mx = (bs.set i false).set j true) ∧
      weight (nextBits bs mx) = weight bs ∧ (nextBits bs mx).length = bs.length :=
  ⟨nextBits_move bs mx hmx hreg, nextBits_weight bs mx hmx hreg⟩

/-- along every run whose steps are all in a designed situation (`regularRun`, an
executable test) consecutive strings differ by moving exactly one 1 and all strings have
the weight and the length of the initial one — for every length, weight and start. -/
theorem T20_ehrlich_run (fuel : Nat) (bs : List Bool) (ms : List Nat)
    (h : regularRun fuel bs ms = true) :
    ChainFrom OneMove bs ((ehrlichLoop fuel bs ms).map (·.bits)) ∧
      ∀ st ∈ ehrlichLoop fuel bs ms, weight st.bits = weight bs ∧ st.bits.length = bs.length :=
  ehrlichLoop_chain fuel bs ms h

/-! ### Hamming-weight encoder (real data): loading chain of controlled RBS gates -/

/-- **Loading chain.**  Gate `k` is `RBS(a k, b k, θ_k)` controlled on the qubits `cs k`
(exactly the gates `hamming_weight_encoder` emits for real data); `v 0, v 1, …` are the
basis states visited (the Ehrlich strings).  If every gate finds its own string with source
bit 1, destination bit 0 and all controls on, produces the next string by moving that bit,
and leaves every earlier string alone (a control off, or equal target bits) — hypotheses that
the check verifies on the real circuits for all `n ≤ 8`, every weight, with and without
`optimize_controls` — then the state is `Σ_k (s₀⋯s_{k-1} c_k) |v k⟩ + (s₀⋯s_{m-1}) |v m⟩`. -/
theorem T20_hw_chain (P : Par α) (a b : Nat → Nat) (cs : Nat → List Nat) (v : Nat → Lab) (m : Nat)
    (hab : ∀ k, k < m → a k ≠ b k)
    (hdis : ∀ k, k < m → a k ∉ cs k ∧ b k ∉ cs k)
    (hon : ∀ k, k < m → Lab.allOne (cs k) (v k) = true ∧ v k (a k) = true ∧ v k (b k) = false)
    (hnext : ∀ k, k < m → v (k + 1) = sw (a k) (b k) (v k))
    (hfix : ∀ k, k < m → ∀ j, j < k → Lab.allOne (cs k) (v j) = false ∨ v j (a k) = v j (b k)) :
    runCircuit ((List.range m).map
        (fun k => GD.sem P { kind := .RBS, q0 := a k, q1 := b k, e := k, ctrl := cs k })) (ket (v 0))
      = chainState P v m :=
  crbs_chain P a b cs v m hab hdis hon hnext hfix

/-- with the angles of `_generate_rbs_angles(data, "diagonal")` (`r k · cos θ_k = x k`,
`r k · sin θ_k = r (k+1)`, `r m = x m`, `r 0 = ‖x‖`) the chain state carries the normalised
data on the visited basis states: `‖x‖ · state = Σ_k x_k |v k⟩`. -/
theorem T20_chain_amplitudes (P : Par α) (v : Nat → Lab) (m : Nat) (x r : Nat → α)
    (hlast : r m = x m)
    (hc : ∀ k, k < m → r k * P.c k = x k)
    (hs : ∀ k, k < m → r k * P.s k = r (k + 1)) (y : Lab) :
    r 0 * chainState P v m y = ∑ k ∈ range (m + 1), x k * ket (v k) y :=
  chainState_norm P v m x r hlast hc hs y

/-! ### non-vacuity -/

/-- the hypotheses of `T20_hw_chain` hold for the 3-qubit weight-1 walk `100 → 010 → 001`
(`RBS(0,1)` then `RBS(1,2)`, no controls). -/
example (P : Par α) :
    runCircuit ((List.range 2).map
        (fun k => GD.sem P { kind := .RBS, q0 := k, q1 := k + 1, e := k, ctrl := [] })) (ket (oh 0))
      = chainState P (fun k => oh k) 2 := by
  apply T20_hw_chain P (fun k => k) (fun k => k + 1) (fun _ => []) (fun k => oh k) 2
  · intro k _; exact Nat.ne_of_lt (Nat.lt_succ_self k)
  · intro k _; simp
  · intro k _; simp [Lab.allOne, oh]
  · intro k _; exact (sw_oh_fst (Nat.ne_of_lt (Nat.lt_succ_self k))).symm
  · intro k _ j hj
    right
    have h1 : k ≠ j := by omega
    have h2 : k + 1 ≠ j := by omega
    simp [oh, h1, h2]


/-- the scalars qibo uses: `h = 1/√2`, `w e = exp(iπ/2^e)`. -/
noncomputable def stdPar (θ : Nat → ℝ) : Par ℂ where
  h := ((Real.sqrt 2 : ℝ) : ℂ)⁻¹
  w := fun e => Complex.exp ((Real.pi : ℂ) * Complex.I / (2 : ℂ) ^ e)
  c := fun e => Complex.cos (θ e)
  s := fun e => Complex.sin (θ e)

theorem stdPar_w0 (θ : Nat → ℝ) : (stdPar θ).w 0 = -1 := by
  simp [stdPar, Complex.exp_pi_mul_I]

theorem stdPar_w (θ : Nat → ℝ) (k : Nat) : (stdPar θ).w (k + 1) ^ 2 = (stdPar θ).w k := by
  simp only [stdPar]
  rw [← Complex.exp_nat_mul]
  congr 1
  push_cast
  rw [pow_succ]
  field_simp

/-- the QFT theorem instantiated at the complex numbers of the implementation. -/
example (θ : Nat → ℝ) {n : Nat} (hn : 1 ≤ n) (b y : Lab) :
    runCircuit ((qft n true).map (GD.sem (stdPar θ))) (ket b) y
      = ind (∀ q, n ≤ q → y q = b q) *
          ((stdPar θ).h ^ n * (stdPar θ).w (n - 1) ^ (val n b * val n y)) :=
  T20_qft_dft (stdPar θ) (stdPar_w0 θ) (stdPar_w θ) hn b y

private def exPar : Par ℚ := { h := 0, w := fun _ => 0, c := fun _ => 3 / 5, s := fun _ => 4 / 5 }
private def exX : Nat → ℚ := fun k => if k = 0 then 3 else 4
private def exR : Nat → ℚ := fun k => if k = 0 then 5 else 4

/-- hypotheses of `T20_unary_diagonal` are satisfiable: data `(3, 4)`, `‖x‖ = 5`,
`cos θ₀ = 3/5`, `sin θ₀ = 4/5` over ℚ. -/
example (y : Lab) :
    exR 0 * runCircuit ((unary 2 false).map (GD.sem exPar)) (ket zeroLab) y
      = ∑ k ∈ range 2, exX k * ket (oh (2 - 1 - k)) y :=
  T20_unary_diagonal exPar (n := 2) (by norm_num) exX exR (by simp [exX, exR])
    (by intro k hk; have : k = 0 := by omega
        subst this; norm_num [exX, exR, exPar])
    (by intro k hk; have : k = 0 := by omega
        subst this; norm_num [exR, exPar]) y

/-- a designed situation of the Ehrlich step: `1100`, marked position 1. -/
example : nextBits [true, true, false, false] 1 = [true, false, false, true] := by decide

example : regularRun 5 [true, true, false, false] (getMarkers [true, true, false, false] false) = true := by
  decide

end QV.Props.C20
