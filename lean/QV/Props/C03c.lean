/-
  C03 (deepening, part 2) — the shot loop of `execute_circuit_repeated`.
  Model: QV/Model/Repeated.lean (tied to backends/numpy.py, gates/measurements.py and
  measurements.py by the `REP` correspondence suite of tools/props/C03.py through
  lean/DriverC03.lean).  Proofs: QV/Proofs/Repeated.lean.

  Everything is for ALL queues `ops` (gates, collapsing and terminal measurements on any ordered
  target lists, gates conditioned on recorded outcomes), any simulator `S` (state vectors and
  density matrices are instances), any number of shots and any draws.  `shots` is the list of
  the per-shot draws (`need ops` each: one per collapsing measurement in queue order, then one
  for the terminal sample if there is a terminal measurement); the loop itself reads them from
  one flat tape `shots.flatten ++ rest`, as the real code reads one random stream.
  `wellFormed`: a conditioned gate refers to a collapsing measurement that precedes it.
-/
import QV.Proofs.Repeated
namespace QV.Props.C03
open QV QV.Rep Finset

variable {σ G : Type}

/-- **a shot sees only its own outcomes.**  The pass of one shot over the queue, run on
measurement results that already hold the rows `H` of earlier shots and on the common tape,
computes the same state, draws on the same states and leaves the same tape as the pass run alone
on empty results with this shot's draws; both append the same rows (`newRows`). -/
theorem T03_rep_shot_independent (S : Sem σ G) (ops : List (QOp G))
    (hwf : wellFormed ops 0 (fun _ => false) = true) (H : Nat → List (List Nat))
    (d rest : List Nat) (hd : ncoll ops ≤ d.length) (ψ0 : σ) :
    let p := passQueue S ops 0 { caches := fun i => ofHist (H i), tape := d ++ rest, state := ψ0 }
    let q := oneShot S ops ψ0 d
    p.state = q.state ∧ p.seen = q.seen ∧ p.tape = q.tape ++ rest ∧
      p.caches = fun i => ofHist (H i ++ newRows ops 0 d i) := by
  have h := pass_sim S ops 0 (fun _ => false) H (fun _ => []) d rest ψ0 [] hwf hd
    (by intro i hi; cases hi)
  exact ⟨h.2.2.2.2.1, h.2.2.2.2.2, h.2.2.1, h.1⟩

/-- **the reported sample table is the list of the per-shot terminal rows, in shot order**:
row `s` is the terminal sample of shot `s` executed on its own (`rowOf`). -/
theorem T03_rep_samples_table (S : Sem σ G) (ops : List (QOp G)) (ψ0 : σ)
    (hwf : wellFormed ops 0 (fun _ => false) = true) (shots : List (List Nat)) (rest : List Nat)
    (hlen : ∀ d ∈ shots, d.length = need ops) :
    (execRepeated S ops shots.length (shots.flatten ++ rest) ψ0).rows
      = if (finals ops 0).isEmpty then [] else shots.map (rowOf S ops ψ0) :=
  (shotLoop_spec S ops ψ0 hwf shots rest hlen).rows

/-- the loop consumes exactly the draws of the shots, and the state it hands over for shot `s`
(`final_states`, resp. the state given to `CircuitResult`) is the state of shot `s` executed on
its own. -/
theorem T03_rep_states (S : Sem σ G) (ops : List (QOp G)) (ψ0 : σ)
    (hwf : wellFormed ops 0 (fun _ => false) = true) (shots : List (List Nat)) (rest : List Nat)
    (hlen : ∀ d ∈ shots, d.length = need ops) :
    (execRepeated S ops shots.length (shots.flatten ++ rest) ψ0).states
        = shots.map (fun d => (oneShot S ops ψ0 d).state) ∧
      (execRepeated S ops shots.length (shots.flatten ++ rest) ψ0).tape = rest := by
  have h := shotLoop_spec S ops ψ0 hwf shots rest hlen
  refine ⟨h.states, ?_⟩
  have := h.tape
  simp only [List.flatten_nil, List.nil_append] at this
  exact this

/-- **`result.samples()` of a collapsing measurement**: after the execution the gate with
measurement index `i` (not a terminal one) holds the rows recorded shot by shot, in shot
order … -/
theorem T03_rep_collapsing_results (S : Sem σ G) (ops : List (QOp G)) (ψ0 : σ)
    (hwf : wellFormed ops 0 (fun _ => false) = true) (shots : List (List Nat)) (rest : List Nat)
    (hlen : ∀ d ∈ shots, d.length = need ops) (i : Nat) (hi : isFin ops i = false) :
    (execRepeated S ops shots.length (shots.flatten ++ rest) ψ0).caches i
      = ofHist (shots.flatMap fun d => newRows ops 0 d i) := by
  have h := shotLoop_spec S ops ψ0 hwf shots rest hlen
  unfold execRepeated
  simp only
  have hnone : (finals ops 0).find? (fun e => e.1 == i) = none := by
    rw [List.find?_eq_none]
    intro e he hc
    unfold isFin at hi
    rw [List.any_eq_false] at hi
    exact hi e he hc
  rw [hnone, h.caches]
  simp only [hi]
  rfl

/-- … and these are exactly ONE row per shot: the bits of the gate's own draw in that shot (the
`k`-th draw of the shot, `k` = number of collapsing measurements before it in the queue), in the
order of the gate's targets.  So the table has `nshots` rows, row `s` belongs to shot `s`. -/
theorem T03_rep_collapsing_rows (S : Sem σ G) (ops : List (QOp G)) (ψ0 : σ)
    (hwf : wellFormed ops 0 (fun _ => false) = true) (shots : List (List Nat)) (rest : List Nat)
    (hlen : ∀ d ∈ shots, d.length = need ops) (i k : Nat) (ts : List Nat)
    (hi : isFin ops i = false) (hk : drawIdx ops 0 0 i = some (k, ts)) :
    (execRepeated S ops shots.length (shots.flatten ++ rest) ψ0).caches i
      = ofHist (shots.map fun d => recordedBits ts (d.getD k 0)) := by
  rw [T03_rep_collapsing_results S ops ψ0 hwf shots rest hlen i hi]
  congr 1
  have : ∀ d : List Nat, newRows ops 0 d i = [recordedBits ts (d.getD k 0)] := by
    intro d
    have := newRows_eq ops 0 0 d i
    rw [List.drop_zero, hk] at this
    exact this
  simp only [this]
  clear hlen
  induction shots with
  | nil => rfl
  | cons d ds ih => rw [List.flatMap_cons, List.map_cons, ih]; rfl

/-- an index that is neither a terminal nor a collapsing measurement never gets samples. -/
theorem T03_rep_untouched (S : Sem σ G) (ops : List (QOp G)) (ψ0 : σ)
    (hwf : wellFormed ops 0 (fun _ => false) = true) (shots : List (List Nat)) (rest : List Nat)
    (hlen : ∀ d ∈ shots, d.length = need ops) (i : Nat)
    (hi : isFin ops i = false) (hk : drawIdx ops 0 0 i = none) :
    (execRepeated S ops shots.length (shots.flatten ++ rest) ψ0).caches i = none := by
  rw [T03_rep_collapsing_results S ops ψ0 hwf shots rest hlen i hi]
  have : ∀ d : List Nat, newRows ops 0 d i = [] := by
    intro d
    have := newRows_eq ops 0 0 d i
    rw [List.drop_zero, hk] at this
    exact this
  simp only [this]
  clear hlen
  induction shots with
  | nil => rfl
  | cons d ds ih => rw [List.flatMap_cons, List.nil_append, ih]

/-- every terminal measurement gets its own columns of the reported table, in the order of its
targets (`samples[:, indices]`). -/
theorem T03_rep_final_registers (S : Sem σ G) (ops : List (QOp G)) (ψ0 : σ) (nshots : Nat)
    (tape : List Nat) (i : Nat) (hi : isFin ops i = true) :
    ∃ ts, (i, ts) ∈ finals ops 0 ∧
      (execRepeated S ops nshots tape ψ0).caches i
        = some ((execRepeated S ops nshots tape ψ0).rows.map fun r => pick r (positions (globOf ops) ts)) := by
  unfold isFin at hi
  obtain ⟨e, he, hei⟩ := List.any_eq_true.mp hi
  cases hf : (finals ops 0).find? (fun e => e.1 == i) with
  | none =>
    rw [List.find?_eq_none] at hf
    exact absurd hei (hf e he)
  | some e' =>
    have hmem := List.mem_of_find?_eq_some hf
    have hp := List.find?_some hf
    have he' : e'.1 = i := by simpa using hp
    refine ⟨e'.2, by rw [← he']; exact hmem, ?_⟩
    unfold execRepeated
    simp only [hf]

/-- **frequencies = histogram of the rows**, and they sum to the number of shots. -/
theorem T03_rep_frequencies (S : Sem σ G) (ops : List (QOp G)) (ψ0 : σ)
    (hwf : wellFormed ops 0 (fun _ => false) = true) (shots : List (List Nat)) (rest : List Nat)
    (hlen : ∀ d ∈ shots, d.length = need ops) (hfin : (finals ops 0).isEmpty = false) :
    let o := execRepeated S ops shots.length (shots.flatten ++ rest) ψ0
    o.repFreq = hist (o.rows.map samplesToDecimal) ∧
      ∑ v ∈ range (2 ^ (globOf ops).length), o.repFreq v = shots.length := by
  intro o
  refine ⟨rfl, ?_⟩
  have hrows : o.rows = shots.map (rowOf S ops ψ0) := by
    have := T03_rep_samples_table S ops ψ0 hwf shots rest hlen
    rw [hfin] at this
    simpa using this
  show ∑ v ∈ range (2 ^ (globOf ops).length), hist (o.rows.map samplesToDecimal) v = _
  rw [hist_sum (N := 2 ^ (globOf ops).length)]
  · rw [hrows]; simp
  · intro s hs
    rw [hrows, List.map_map] at hs
    obtain ⟨d, _, rfl⟩ := List.mem_map.mp hs
    show samplesToDecimal (rowOf S ops ψ0 d) < _
    unfold rowOf
    have := samplesToDecimal_lt (samplesToBinary (globOf ops).length ((oneShot S ops ψ0 d).tape.headD 0))
      (samplesToBinary_le_one _ _)
    rwa [samplesToBinary_length] at this

/-! ### non-vacuity -/

/-- a simulator on a trivial state type: the bookkeeping theorems do not depend on it. -/
private def S0 : Sem Unit Unit := { gate := fun _ s => s, coll := fun _ _ s => s }

/-- `M(1, 0, collapse); RX(0, pi*m0[0]); M(0)` — one collapsing measurement on unsorted targets,
a conditioned gate, one terminal measurement. -/
private def ops0 : List (QOp Unit) := [.meas [1, 0] true, .cgate () 0 0, .meas [0] false]

example : wellFormed ops0 0 (fun _ => false) = true ∧ need ops0 = 2 ∧ isFin ops0 0 = false
    ∧ drawIdx ops0 0 0 0 = some (0, [1, 0]) ∧ (finals ops0 0).isEmpty = false := by decide

/-- three shots with draws (collapse draw over sorted targets [0,1], terminal draw): the
collapsing gate ends with three rows in shot order, bits in the order (1, 0) of its targets. -/
example : (execRepeated S0 ops0 3 [1, 0, 2, 1, 3, 1] ()).caches 0 = some [[1, 0], [0, 1], [1, 1]]
    ∧ (execRepeated S0 ops0 3 [1, 0, 2, 1, 3, 1] ()).rows = [[0], [1], [1]] := by decide

end QV.Props.C03
