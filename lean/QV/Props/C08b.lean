/-
  C08b — the multi-controlled-X decomposition, signs included.

  `QV/Props/C08.lean` states `T08_mcx_signed_statement` (the decomposition maps the signed basis
  state `(-1)^s |b⟩` to `(-1)^s |mcxSpec b⟩`, needed for `use_toffolis=False`, where the
  congruent Toffolis reverse the sign of |100⟩) without proof.  It is proved here, for all
  numbers of controls, all admissible free lists and both `use_toffolis` values
  (lemmas: QV/Proofs/XDecomposeSigned.lean).
-/
import QV.Props.C08
import QV.Proofs.XDecomposeSigned
namespace QV.Props.C08
open QV

/-- a congruent Toffoli block (`TOFFOLI.congruent(use_toffolis=False)`, the gate `rtof`) whose
    target differs from both controls, applied twice, gives back every signed basis state: the
    bit assignment is restored and the two possible sign reversals cancel. -/
theorem T08_rtof_involution (c0 c1 t : Nat) (h0 : t ≠ c0) (h1 : t ≠ c1) (sb : Bool × Lab) :
    runS [.rtof c0 c1 t, .rtof c0 c1 t] sb = sb :=
  (sinv_rtof c0 c1 t h0 h1).runS_two sb

/-- the same for the gate object `TOFFOLI(c0,c1,t).congruent(use_toffolis)` of the model (sorted
    controls, both `use_toffolis` values): applied twice it is the identity on signed basis
    states. -/
theorem T08_congruent_involution (ut : Bool) (c0 c1 t : Nat) (h0 : t ≠ c0) (h1 : t ≠ c1)
    (sb : Bool × Lab) :
    runS [congruent ut c0 c1 t, congruent ut c0 c1 t] sb = sb :=
  (sinv_congruent ut c0 c1 t h0 h1).runS_two sb

/-- non-vacuity of the hypotheses of `T08_rtof_involution`. -/
example : (2 : Nat) ≠ 0 ∧ (2 : Nat) ≠ 1 := by decide

/-- the sign reversal is real: one congruent Toffoli on |1 0 0⟩ reverses the sign … -/
example : (runS [.rtof 0 1 2] (false, fun q => q == 0)).1 = true := by decide

/-- … and the second application reverses it back. -/
example : (runS [.rtof 0 1 2, .rtof 0 1 2] (false, fun q => q == 0)).1 = false := by decide

/-- the "n ≥ 2m−1" branch (first Toffoli, V-shaped ladder of congruent Toffolis, all doubled),
    signs included: for every m ≥ 3 controls, at least m−2 free qubits, controls / target / free
    qubits pairwise distinct, and both `use_toffolis` values, the gate list maps the signed basis
    state `(-1)^s |b⟩` to `(-1)^s |b[t := b t xor AND(controls)]⟩` — all sign reversals of the
    congruent Toffolis cancel and every free qubit is returned unchanged. -/
theorem T08_ladder_signed (ut : Bool) (cs : List Nat) (t : Nat) (fs : List Nat)
    (hm : 3 ≤ cs.length) (hf : cs.length - 2 ≤ fs.length)
    (hn : (cs ++ t :: fs).Nodup) (s : Bool) (b : Lab) :
    runS (ladderHalf ut cs t fs ++ ladderHalf ut cs t fs) (s, b) = (s, mcxSpec cs t b) :=
  ladder_spec_signed ut cs t fs hm hf hn s b

/-- non-vacuity of `T08_ladder_signed`: 4 controls, 2 free qubits, `use_toffolis=False`. -/
example : ladderHalf false [1, 2, 3, 4] 0 [5, 6] =
    [.toffoli 4 6 0, .rtof 3 5 6, .rtof 1 2 5, .rtof 3 5 6] := by decide

example : 3 ≤ [1, 2, 3, 4].length ∧ [1, 2, 3, 4].length - 2 ≤ [5, 6].length ∧
    ([1, 2, 3, 4] ++ 0 :: [5, 6]).Nodup := by decide

/-- **multi-controlled X, signs included**: for all numbers of controls, all free lists
    (controls, target and free qubits pairwise distinct), both `use_toffolis` values: if
    `X.decompose` returns a gate list then running it maps the signed basis state `(-1)^s |b⟩`
    to `(-1)^s |b[t := b t xor AND(controls)]⟩`; in particular the decomposition with congruent
    Toffolis introduces no relative signs. -/
theorem T08_mcx_signed (ut : Bool) (fuel : Nat) (cs : List Nat) (t : Nat) (fs : List Nat)
    (gs : List CGate) (hn : (cs ++ t :: fs).Nodup) (h : xDecompose ut fuel cs t fs = .ok gs)
    (s : Bool) (b : Lab) : runS gs (s, b) = (s, mcxSpec cs t b) :=
  xDecompose_spec_signed ut fuel cs t fs gs hn h s b

/-- the statement left open in `QV/Props/C08.lean` (`T08_mcx_signed_statement`) holds. -/
theorem T08_mcx_signed_statement_proved : T08_mcx_signed_statement :=
  fun ut fuel cs t fs gs hn h s b => T08_mcx_signed ut fuel cs t fs gs hn h s b

/-- non-vacuity: 4 controls, one borrowed qubit (the splitting branch), `use_toffolis=False`,
    computed by the model; the list contains congruent Toffolis (`rtof`). -/
example : xDecompose false 5 [1, 2, 3, 4] 0 [5] = .ok
    [.toffoli 3 4 5, .rtof 1 2 4, .toffoli 3 4 5, .rtof 1 2 4, .toffoli 4 5 0,
     .toffoli 3 4 5, .rtof 1 2 4, .toffoli 3 4 5, .rtof 1 2 4, .toffoli 4 5 0] := by decide

example : ([1, 2, 3, 4] ++ 0 :: [5]).Nodup := by decide

/-- non-vacuity, ladder branch reached through `xDecompose` (4 controls, 2 free qubits). -/
example : xDecompose false 5 [1, 2, 3, 4] 0 [5, 6] = .ok
    [.toffoli 4 6 0, .rtof 3 5 6, .rtof 1 2 5, .rtof 3 5 6,
     .toffoli 4 6 0, .rtof 3 5 6, .rtof 1 2 5, .rtof 3 5 6] := by decide

end QV.Props.C08
