/-
  C10 — Unrolling yields only native gates and the same operator up to a global phase.

  Property theorems about the dispatch model QV/Model/Unroller.lean
  (`translate_gate`, `_translate_single_qubit_gates`, `_translate_two_qubit_gates`,
  `Unroller.__call__`, `GateDecompositions.__call__`) over an ARBITRARY table, for all
  circuits, all native sets, all recursion depths and all qubit placements.
  The hypotheses about the tables are discharged on the real tables on every run:
    * `Closed` by the Bool check `closedCheck` evaluated on the table shapes read from
      qibo (T10_closed_of_check) and by the kernel obligations `C10_tr_*_native`;
    * `TablesOK` entry by entry by the generated obligations `C10_entry_*` (for all
      parameter values, QV/Gen/C10_Ob*.lean, soundness in QV/Proofs/SymSound.lean).
-/
import QV.Proofs.Unroller
import QV.Props.C05
set_option linter.unusedSectionVars false
namespace QV.Props.C10
open QV QV.Unroll

/-! ### only native gates -/

/-- a closed table set ⇒ whatever `translate_gate` returns consists of native classes
    only; the sole exception is a pass-through gate (`I`, `Align`, `M`), returned as is. -/
theorem T10_only_native (T : Tables) (nat : Natives) (hC : Closed T nat) (fuel : Nat)
    (g : UGate) (out : List UGate) (h : translate T nat fuel g = some out) :
    (∀ y ∈ out, isNative nat y.cls = true) ∨ (passThrough g.cls = true ∧ out = [g]) := by
  rcases translateAux_native hC fuel false g out h with h' | ⟨_, h2, h3⟩
  · exact Or.inl h'
  · exact Or.inr ⟨h2, h3⟩

/-- circuits of any length: every gate of the unrolled circuit is native or is one of the
    input's own pass-through gates. -/
theorem T10_unroll_only_native (T : Tables) (nat : Natives) (hC : Closed T nat) (fuel : Nat)
    (gs out : List UGate) (h : unroll T nat fuel gs = some out) :
    ∀ y ∈ out, isNative nat y.cls = true ∨ (y ∈ gs ∧ passThrough y.cls = true) := by
  induction gs generalizing out with
  | nil =>
    simp [unroll, flatMapM] at h; subst h; intro y hy; simp at hy
  | cons g gs ih =>
    obtain ⟨a, b, ha, hb, rfl⟩ := flatMapM_cons_some h
    intro y hy
    rcases List.mem_append.1 hy with hy | hy
    · rcases T10_only_native T nat hC fuel g a ha with h1 | ⟨h1, h2⟩
      · exact Or.inl (h1 y hy)
      · subst h2
        simp at hy
        subst hy
        exact Or.inr ⟨List.mem_cons_self .., h1⟩
    · rcases ih b hb y hy with h1 | ⟨h1, h2⟩
      · exact Or.inl h1
      · exact Or.inr ⟨List.mem_cons_of_mem _ h1, h2⟩

/-- if the input's pass-through gates are measurements or native (`I` with the `I` flag),
    the unrolled circuit passes the class test of `assert_decomposition`. -/
theorem T10_unroll_classes_accepted (T : Tables) (nat : Natives) (hC : Closed T nat)
    (fuel : Nat) (gs out : List UGate) (h : unroll T nat fuel gs = some out)
    (hin : ∀ g ∈ gs, passThrough g.cls = true → g.cls = cM ∨ isNative nat g.cls = true) :
    allNative nat (out.map (·.cls)) = true := by
  simp only [allNative, List.all_map, List.all_eq_true, Function.comp, Bool.or_eq_true,
    beq_iff_eq]
  intro y hy
  rcases T10_unroll_only_native T nat hC fuel gs out h y hy with h1 | ⟨h1, h2⟩
  · exact Or.inr h1
  · exact hin y h1 h2

/-- the closure hypothesis is decidable on finite table data: the Bool check the driver
    evaluates on the real tables' shapes implies `Closed`. -/
theorem T10_closed_of_check (D : TablesData) (nat : Natives) (h : closedCheck D nat = true) :
    Closed D.toTables nat := closedCheck_sound D nat h

/-! ### gates outside the tables are errors -/

/-- a class that is a key of no table (and is not `I`/`Align`/`M`) raises — for every
    native set and every recursion depth; it is never translated into something else. -/
theorem T10_unknown_raises (T : Tables) (nat : Natives) (fuel : Nat) (g : UGate)
    (hu : Unknown T g) (hp : passThrough g.cls = false) : translate T nat fuel g = none :=
  translateAux_unknown hu hp fuel false

/-- contrapositive: anything that is translated is in a table or is a pass-through gate. -/
theorem T10_translated_is_known (T : Tables) (nat : Natives) (fuel : Nat) (g : UGate)
    (out : List UGate) (h : translate T nat fuel g = some out) :
    passThrough g.cls = true ∨ ¬ Unknown T g := by
  by_cases hp : passThrough g.cls = true
  · exact Or.inl hp
  · refine Or.inr fun hu => ?_
    rw [T10_unknown_raises T nat fuel g hu (by simpa using hp)] at h
    cases h

/-- a gate carrying `controlled_by` controls raises. -/
theorem T10_controlled_raises (T : Tables) (nat : Natives) (fuel : Nat) (g : UGate)
    (hcb : g.cb = true) (hp : passThrough g.cls = false) : translate T nat fuel g = none := by
  cases fuel with
  | zero => rfl
  | succ f => simp [translate, translateAux, hp, hcb]

/-- one untranslatable gate makes the whole `Unroller` call raise. -/
theorem T10_unroll_raises (T : Tables) (nat : Natives) (fuel : Nat) (gs : List UGate)
    (g : UGate) (hg : g ∈ gs) (h : translate T nat fuel g = none) :
    unroll T nat fuel gs = none :=
  flatMapM_none_of_mem hg h

/-! ### same operator up to a global phase -/

section Phase
variable {α : Type} [CommSemiring α]

/-- per-entry correctness of the tables lifts to `translate_gate`: the returned list acts
    as the gate up to a phase (through re-translation and the iSWAP recursion). -/
theorem T10_gate_phase (P : Submonoid α) (sem : UGate → MGate α) (T : Tables) (nat : Natives)
    (hT : TablesOK P sem T) (fuel : Nat) (g : UGate) (out : List UGate)
    (h : translate T nat fuel g = some out) : PhaseEq P (out.map sem) [sem g] :=
  translateAux_phase hT fuel false g out h

/-- … and to whole circuits of any length (phases multiply, states are arbitrary). -/
theorem T10_circuit_phase (P : Submonoid α) (sem : UGate → MGate α) (T : Tables)
    (nat : Natives) (hT : TablesOK P sem T) (fuel : Nat) (gs out : List UGate)
    (h : unroll T nat fuel gs = some out) : PhaseEq P (out.map sem) (gs.map sem) :=
  flatMapM_phase sem (fun g _ p hp => T10_gate_phase P sem T nat hT fuel g p hp) h

/-- spelled out: there is one scalar `c ∈ P` with  run(unrolled) ψ = c · run(original) ψ
    for every state ψ. -/
theorem T10_circuit_phase_run (P : Submonoid α) (sem : UGate → MGate α) (T : Tables)
    (nat : Natives) (hT : TablesOK P sem T) (fuel : Nat) (gs out : List UGate)
    (h : unroll T nat fuel gs = some out) :
    ∃ c ∈ P, ∀ (ψ : Lab → α) (x : Lab),
      runCircuit (out.map sem) ψ x = c * runCircuit (gs.map sem) ψ x :=
  T10_circuit_phase P sem T nat hT fuel gs out h

end Phase

/-! ### qubit placement -/

/-- translation commutes with relabelling: the translation of a gate placed on other
    qubits is the relabelled translation (all maps σ, all depths, all native sets). -/
theorem T10_placement (σ : Nat → Nat) (T : Tables) (nat : Natives) (fuel : Nat) (g : UGate) :
    translate T nat fuel (g.relabel σ)
      = (translate T nat fuel g).map (List.map (UGate.relabel σ)) :=
  translateAux_relabel σ T nat fuel false g

theorem T10_placement_unroll (σ : Nat → Nat) (T : Tables) (nat : Natives) (fuel : Nat)
    (gs : List UGate) :
    unroll T nat fuel (gs.map (UGate.relabel σ))
      = (unroll T nat fuel gs).map (List.map (UGate.relabel σ)) :=
  flatMapM_map _ _ _ _ (T10_placement σ T nat fuel) gs

/-- a table call on a gate placed by σ is the σ-image of the call on the template
    placement — this is `Gate.on_qubits({i: q for i, q in enumerate(gate.qubits)})`. -/
theorem T10_call_placement (σ : Nat → Nat) (t : Table) (g : UGate) :
    t.call (g.relabel σ) = (t.call g).map (List.map (UGate.relabel σ)) :=
  call_relabel σ t g

section PlacePhase
variable {α : Type} [CommSemiring α]

/-- semantic side of placement: if a list reproduces a gate up to a phase on the template
    qubits, the relabelled list reproduces the relabelled gate with the same phase, for
    every injective placement σ (states are pulled back along σ, `T05_relabel_run`). -/
theorem T10_placement_phase (P : Submonoid α) (sem : UGate → MGate α) (σ : Nat → Nat)
    (hσ : Function.Injective σ)
    (hsem : ∀ x, sem (x.relabel σ) = (sem x).relabel σ)
    (g : UGate) (d : List UGate) (h : PhaseEq P (d.map sem) [sem g]) :
    ∃ c ∈ P, ∀ (ψ : Lab → α) (x : Lab),
      runCircuit ((d.map (UGate.relabel σ)).map sem) (fun y => ψ (C05.pull σ y)) x
        = c * runCircuit [sem (g.relabel σ)] (fun y => ψ (C05.pull σ y)) x := by
  obtain ⟨c, hc, e⟩ := h
  refine ⟨c, hc, fun ψ x => ?_⟩
  have h1 : (d.map (UGate.relabel σ)).map sem = relabelCircuit σ (d.map sem) := by
    simp [relabelCircuit, List.map_map, Function.comp_def, hsem]
  have h2 : [sem (g.relabel σ)] = relabelCircuit σ [sem g] := by
    simp [relabelCircuit, hsem]
  rw [h1, h2, C05.T05_relabel_run σ hσ, C05.T05_relabel_run σ hσ]
  exact e ψ (C05.pull σ x)

end PlacePhase

/-! ### non-vacuity -/

/-- a small concrete table set: U3 table `H ↦ [U3]`, `U3 ↦ [U3]`; CZ table
    `CNOT ↦ [H 1, CZ 0 1, H 1]` (class 20 = H). -/
def demo : TablesData :=
  { gpi2 := ⟨[], []⟩,
    u3 := ⟨[20, 5], [(20, 0, [⟨5, [0], 1, false⟩]), (5, 1, [⟨5, [0], 1, false⟩])]⟩,
    cz := ⟨[8], [(8, 0, [⟨20, [1], 0, false⟩, ⟨6, [0, 1], 0, false⟩, ⟨20, [1], 0, false⟩])]⟩,
    iswap := ⟨[], []⟩, opt := ⟨[], []⟩, cnot := ⟨[], []⟩ }

/-- native set U3 | CZ (bits 5 and 6). -/
example : closedCheck demo 96 = true := by decide
example : Closed demo.toTables 96 := T10_closed_of_check demo 96 (by decide)
/-- CNOT on qubits (3,1) unrolls to U3(1) CZ(3,1) U3(1): the hypotheses of
    `T10_only_native` hold and the conclusion is not vacuous. -/
example : translate demo.toTables 96 2 ⟨8, [3, 1], 0, false⟩
    = some [⟨5, [1], 1, false⟩, ⟨6, [3, 1], 0, false⟩, ⟨5, [1], 1, false⟩] := by decide
/-- class 33 is in no table: error. -/
example : Unknown demo.toTables ⟨33, [0, 1], 0, false⟩ := by unfold Unknown; decide
example : translate demo.toTables 96 5 ⟨33, [0, 1], 0, false⟩ = none := by decide
/-- `TablesOK` is satisfiable (empty tables: only `controlled_by` gates come back, as
    themselves). -/
example (sem : UGate → MGate Int) :
    TablesOK (⊤ : Submonoid Int) sem
      ⟨⟨fun _ => false, fun _ _ => none⟩, ⟨fun _ => false, fun _ _ => none⟩,
       ⟨fun _ => false, fun _ _ => none⟩, ⟨fun _ => false, fun _ _ => none⟩,
       ⟨fun _ => false, fun _ _ => none⟩, ⟨fun _ => false, fun _ _ => none⟩⟩ := by
  intro t ht g d h
  simp only [List.mem_cons, List.not_mem_nil, or_false] at ht
  have : d = [g] := by
    rcases ht with rfl | rfl | rfl | rfl | rfl | rfl <;>
      (simp only [Table.call, Table.check] at h
       by_cases hcb : g.cb = true
       · simp [hcb] at h; exact h.symm
       · simp [hcb] at h)
  subst this
  exact PhaseEq.refl _ _
/-- a semantics natural in the placement, as `T10_placement_phase` asks. -/
example (M : Nat → Nat → Nat → Nat → Int) (σ : Nat → Nat) :
    ∀ x : UGate,
      (fun (g : UGate) => ({ mat := M g.cls g.tag, targets := g.qubits } : MGate Int)) (x.relabel σ)
        = MGate.relabel σ ((fun (g : UGate) => ({ mat := M g.cls g.tag, targets := g.qubits } : MGate Int)) x) := by
  intro x; simp [MGate.relabel, UGate.relabel]

end QV.Props.C10
