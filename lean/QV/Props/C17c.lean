/-
  C17 (part c) — completeness of the Pauli basis and what follows from it.

  * `T17_pauli_complete`, `T17_pauli_unitary_full_proved`: the statement that part b kept as a
    visible `def` (`T17_pauli_unitary_full`: `B B† = 2ⁿ·1` AND `B† B = 2ⁿ·1`) is now proved, for
    every `n`, the three vectorisation orders, the 24 Pauli orderings, over any commutative ring
    with `i² = −1` (no hypothesis on `2`: completeness is proved directly by Kronecker induction).
  * round trips `pauli_to_liouville ∘ liouville_to_pauli`, `liouville_to_pauli ∘
    pauli_to_liouville`, `chi_to_choi ∘ choi_to_chi`, `choi_to_chi ∘ chi_to_choi` with the exact
    factor for every combination of the two `normalize` flags (`4ⁿ`, `2ⁿ`, `2ⁿ`, `1`);
  * the normalised basis (`s · B`, abstract `s` with `s²·2ⁿ = 1`, `conj s = s`) is unitary;
  * path independence: `kraus_to_chi = choi_to_chi ∘ kraus_to_choi`;
    `kraus_to_liouville = choi_to_liouville ∘ kraus_to_choi` acts as the Kraus map at every
    position; in the Pauli basis the Pauli-Liouville matrix acts on Pauli coefficient vectors as
    the channel acts on operators.

  Model: QV/Model/Superop.lean; the `normalize=True` variants are the un-normalised model matrices
  multiplied by `s` (`compToPauliS`, … in QV/Proofs/PauliComplete.lean; tied on every run by
  `C17_corr_normalize` in tools/props/C17.py: `comp_basis_to_pauli(n, True, …) = 2^{-n/2} ·
  comp_basis_to_pauli(n, False, …)`, likewise `pauli_to_comp_basis`, `liouville_to_pauli`,
  `pauli_to_liouville`, `choi_to_chi`, `chi_to_choi`).
-/
import Mathlib.Data.Complex.Basic
import QV.Proofs.PauliComplete
import QV.Props.C17b
namespace QV.Props.C17
open QV QV.Superop

variable {α : Type} [CommRing α]

/-! ### completeness; the full unitarity statement -/

/-- completeness of the n-qubit Pauli strings: `Σ_k P_k[i,j] · conj P_k[i',j'] = 2ⁿ δ_ii' δ_jj'`,
for every number of qubits and every `pauli_order`. -/
theorem T17_pauli_complete {conj : α → α} {im : α} (h : ConjOK conj im) {po : List Nat}
    (hpo : ValidPO po) (n : Nat) {i j i' j' : Nat} (hi : i < 2 ^ n) (hj : j < 2 ^ n)
    (hi' : i' < 2 ^ n) (hj' : j' < 2 ^ n) :
    complN conj im po n i j i' j' = if i = i' ∧ j = j' then (2 : α) ^ n else 0 :=
  complN_eq h hpo n i j i' j' hi hj hi' hj'

/-- the completeness sum factorises over the last qubit (Kronecker lemma). -/
theorem T17_pauli_complete_kronecker_step {conj : α → α} {im : α} (h : ConjOK conj im)
    {po : List Nat} (hpo : ValidPO po) (n i j i' j' : Nat) :
    complN conj im po (n + 1) i j i' j'
      = complN conj im po n (i / 2) (j / 2) (i' / 2) (j' / 2)
        * compl1 conj im (i % 2) (j % 2) (i' % 2) (j' % 2) :=
  complN_succ h hpo n i j i' j'

/-- `B† B = 2ⁿ · 1` for the un-normalised `comp_basis_to_pauli(n, order, pauli_order)`. -/
theorem T17_pauli_unitary_left {conj : α → α} {im : α} (h : ConjOK conj im) {po : List Nat}
    (hpo : ValidPO po) (o : Order) (n : Nat) {k l : Nat} (hk : k < 4 ^ n) (hl : l < 4 ^ n) :
    matMul (4 ^ n) (conjT conj (compToPauli conj im po o n)) (compToPauli conj im po o n) k l
      = if k = l then (2 : α) ^ n else 0 :=
  conjT_compToPauli_mul h hpo o n hk hl

/-- **`T17_pauli_unitary_full` is proved**: `B B† = 2ⁿ·1` and `B† B = 2ⁿ·1`, every `n`, every
vectorisation order, every valid `pauli_order`. -/
theorem T17_pauli_unitary_full_proved {conj : α → α} {im : α} (h : ConjOK conj im) {po : List Nat}
    (hpo : ValidPO po) (o : Order) (n : Nat) : T17_pauli_unitary_full conj im po o n :=
  ⟨fun _ _ hk hl => compToPauli_mul_conjT h hpo o n hk hl,
   fun _ _ hk hl => conjT_compToPauli_mul h hpo o n hk hl⟩

/-- `pauli_to_comp_basis` is the conjugate transpose of `comp_basis_to_pauli`. -/
theorem T17_pauli_to_comp_is_adjoint {conj : α → α} {im : α} (h : ConjOK conj im) (po : List Nat)
    (o : Order) (n : Nat) :
    pauliToComp im po o n = conjT conj (compToPauli conj im po o n) :=
  pauliToComp_eq h po o n

/-- the general reason (Mathlib, adjugate): over a commutative ring a one-sided scalar inverse of a
square matrix is two-sided, provided the scalar is not a zero divisor. -/
theorem T17_scalar_inverse_two_sided {N : Nat} (A A' : Matrix (Fin N) (Fin N) α) (c : α)
    (hc : ∀ x : α, c * x = 0 → x = 0) (hAA' : A * A' = c • 1) : A' * A = c • 1 :=
  mul_scalar_comm A A' c hc hAA'

/-! ### round trips, un-normalised -/

/-- `pauli_to_liouville(liouville_to_pauli(L)) = 4ⁿ · L`  (`normalize=False` twice). -/
theorem T17_pauli_liouville_roundtrip {conj : α → α} {im : α} (h : ConjOK conj im) {po : List Nat}
    (hpo : ValidPO po) (o : Order) (n : Nat) (L : Mat α) {r c : Nat} (hr : r < 4 ^ n)
    (hc : c < 4 ^ n) :
    pauliToLiouville conj im po o n (liouvilleToPauli conj im po o n L) r c
      = (4 : α) ^ n * L r c := by
  rw [pauli_liouville_roundtrip h hpo o n L hr hc, ← mul_pow]; norm_num

/-- `liouville_to_pauli(pauli_to_liouville(P)) = 4ⁿ · P`. -/
theorem T17_liouville_pauli_roundtrip {conj : α → α} {im : α} (h : ConjOK conj im) {po : List Nat}
    (hpo : ValidPO po) (o : Order) (n : Nat) (P : Mat α) {r c : Nat} (hr : r < 4 ^ n)
    (hc : c < 4 ^ n) :
    liouvilleToPauli conj im po o n (pauliToLiouville conj im po o n P) r c
      = (4 : α) ^ n * P r c := by
  rw [liouville_pauli_roundtrip h hpo o n P hr hc, ← mul_pow]; norm_num

/-! ### round trips with the `normalize` flags -/

/-- general form: scale factors `s₁` (first conversion) and `s₂` (second conversion):
`pauli_to_liouville(liouville_to_pauli(L, s₁), s₂) = s₁² s₂² 4ⁿ · L`, and the same for the
opposite composition. -/
theorem T17_roundtrip_scaled {conj : α → α} {im : α} (h : ConjOK conj im) {po : List Nat}
    (hpo : ValidPO po) (o : Order) (n : Nat) {s₁ s₂ : α} (h1 : conj s₁ = s₁) (h2 : conj s₂ = s₂)
    (M : Mat α) {r c : Nat} (hr : r < 4 ^ n) (hc : c < 4 ^ n) :
    pauliToLiouvilleS conj im po o n s₂ (liouvilleToPauliS conj im po o n s₁ M) r c
        = (s₁ * s₁) * (s₂ * s₂) * ((2 : α) ^ n * (2 : α) ^ n) * M r c ∧
    liouvilleToPauliS conj im po o n s₂ (pauliToLiouvilleS conj im po o n s₁ M) r c
        = (s₁ * s₁) * (s₂ * s₂) * ((2 : α) ^ n * (2 : α) ^ n) * M r c :=
  ⟨pauli_liouville_roundtripS h hpo o n h1 h2 M hr hc,
   liouville_pauli_roundtripS h hpo o n h1 h2 M hr hc⟩

/-- the exact factor for each combination of the `normalize` flags, `s` being the normalisation
(`s² · 2ⁿ = 1`, `conj s = s`; `s = 1` is `normalize=False`):
(False, False) ↦ `4ⁿ`, (True, False) and (False, True) ↦ `2ⁿ`, (True, True) ↦ `1`;
for `pauli_to_liouville ∘ liouville_to_pauli`. -/
theorem T17_pauli_liouville_roundtrip_flags {conj : α → α} {im : α} (h : ConjOK conj im)
    {po : List Nat} (hpo : ValidPO po) (o : Order) (n : Nat) {s : α} (hs : conj s = s)
    (hn : s * s * (2 : α) ^ n = 1) (L : Mat α) {r c : Nat} (hr : r < 4 ^ n) (hc : c < 4 ^ n) :
    pauliToLiouvilleS conj im po o n 1 (liouvilleToPauliS conj im po o n 1 L) r c
        = (4 : α) ^ n * L r c ∧
    pauliToLiouvilleS conj im po o n 1 (liouvilleToPauliS conj im po o n s L) r c
        = (2 : α) ^ n * L r c ∧
    pauliToLiouvilleS conj im po o n s (liouvilleToPauliS conj im po o n 1 L) r c
        = (2 : α) ^ n * L r c ∧
    pauliToLiouvilleS conj im po o n s (liouvilleToPauliS conj im po o n s L) r c = L r c := by
  have h1 : conj (1 : α) = 1 := h.one
  refine ⟨?_, ?_, ?_, ?_⟩
  · rw [pauli_liouville_roundtripS h hpo o n h1 h1 L hr hc, ← mul_pow]; norm_num
  · rw [pauli_liouville_roundtripS h hpo o n hs h1 L hr hc]
    linear_combination ((2 : α) ^ n * L r c) * hn
  · rw [pauli_liouville_roundtripS h hpo o n h1 hs L hr hc]
    linear_combination ((2 : α) ^ n * L r c) * hn
  · rw [pauli_liouville_roundtripS h hpo o n hs hs L hr hc]
    linear_combination (s * s * (2 : α) ^ n * L r c + L r c) * hn

/-- the same four factors for `liouville_to_pauli ∘ pauli_to_liouville`. -/
theorem T17_liouville_pauli_roundtrip_flags {conj : α → α} {im : α} (h : ConjOK conj im)
    {po : List Nat} (hpo : ValidPO po) (o : Order) (n : Nat) {s : α} (hs : conj s = s)
    (hn : s * s * (2 : α) ^ n = 1) (P : Mat α) {r c : Nat} (hr : r < 4 ^ n) (hc : c < 4 ^ n) :
    liouvilleToPauliS conj im po o n 1 (pauliToLiouvilleS conj im po o n 1 P) r c
        = (4 : α) ^ n * P r c ∧
    liouvilleToPauliS conj im po o n 1 (pauliToLiouvilleS conj im po o n s P) r c
        = (2 : α) ^ n * P r c ∧
    liouvilleToPauliS conj im po o n s (pauliToLiouvilleS conj im po o n 1 P) r c
        = (2 : α) ^ n * P r c ∧
    liouvilleToPauliS conj im po o n s (pauliToLiouvilleS conj im po o n s P) r c = P r c := by
  have h1 : conj (1 : α) = 1 := h.one
  refine ⟨?_, ?_, ?_, ?_⟩
  · rw [liouville_pauli_roundtripS h hpo o n h1 h1 P hr hc, ← mul_pow]; norm_num
  · rw [liouville_pauli_roundtripS h hpo o n hs h1 P hr hc]
    linear_combination ((2 : α) ^ n * P r c) * hn
  · rw [liouville_pauli_roundtripS h hpo o n h1 hs P hr hc]
    linear_combination ((2 : α) ^ n * P r c) * hn
  · rw [liouville_pauli_roundtripS h hpo o n hs hs P hr hc]
    linear_combination (s * s * (2 : α) ^ n * P r c + P r c) * hn

/-- `chi_to_choi(choi_to_chi(C)) = C` and `choi_to_chi(chi_to_choi(X)) = X` with `normalize=True`
on both; `4ⁿ ·` with `normalize=False` on both (the functions are `liouville_to_pauli` /
`pauli_to_liouville` applied to the Choi / χ matrix). -/
theorem T17_chi_choi_roundtrip {conj : α → α} {im : α} (h : ConjOK conj im) {po : List Nat}
    (hpo : ValidPO po) (o : Order) (n : Nat) {s : α} (hs : conj s = s)
    (hn : s * s * (2 : α) ^ n = 1) (M : Mat α) {r c : Nat} (hr : r < 4 ^ n) (hc : c < 4 ^ n) :
    chiToChoiS conj im po o n s (choiToChiS conj im po o n s M) r c = M r c ∧
    choiToChiS conj im po o n s (chiToChoiS conj im po o n s M) r c = M r c ∧
    chiToChoiS conj im po o n 1 (choiToChiS conj im po o n 1 M) r c = (4 : α) ^ n * M r c ∧
    choiToChiS conj im po o n 1 (chiToChoiS conj im po o n 1 M) r c = (4 : α) ^ n * M r c :=
  ⟨(T17_pauli_liouville_roundtrip_flags h hpo o n hs hn M hr hc).2.2.2,
   (T17_liouville_pauli_roundtrip_flags h hpo o n hs hn M hr hc).2.2.2,
   (T17_pauli_liouville_roundtrip_flags h hpo o n hs hn M hr hc).1,
   (T17_liouville_pauli_roundtrip_flags h hpo o n hs hn M hr hc).1⟩

/-- the scaled model functions at `s = 1` are the model functions of QV/Model/Superop.lean (the
ones compared exactly with the real code). -/
theorem T17_scaled_at_one (conj : α → α) (im : α) (po : List Nat) (o : Order) (n : Nat) (M : Mat α) :
    compToPauliS conj im po o n 1 = compToPauli conj im po o n ∧
    pauliToCompS im po o n 1 = pauliToComp im po o n ∧
    liouvilleToPauliS conj im po o n 1 M = liouvilleToPauli conj im po o n M ∧
    pauliToLiouvilleS conj im po o n 1 M = pauliToLiouville conj im po o n M :=
  ⟨compToPauliS_one .., pauliToCompS_one .., liouvilleToPauliS_one .., pauliToLiouvilleS_one ..⟩

/-- the normalised `comp_basis_to_pauli(n, normalize=True, …)` is unitary: `B_s B_s† = 1` and
`B_s† B_s = 1` for any `s` with `s² · 2ⁿ = 1`, `conj s = s`. -/
theorem T17_pauli_unitary_normalised {conj : α → α} {im : α} (h : ConjOK conj im) {po : List Nat}
    (hpo : ValidPO po) (o : Order) (n : Nat) {s : α} (hs : conj s = s)
    (hn : s * s * (2 : α) ^ n = 1) {k l : Nat} (hk : k < 4 ^ n) (hl : l < 4 ^ n) :
    matMul (4 ^ n) (compToPauliS conj im po o n s) (conjT conj (compToPauliS conj im po o n s)) k l
        = (if k = l then 1 else 0) ∧
    matMul (4 ^ n) (conjT conj (compToPauliS conj im po o n s)) (compToPauliS conj im po o n s) k l
        = (if k = l then 1 else 0) :=
  compToPauliS_unitary h hpo o n hs hn hk hl

/-! ### path independence -/

/-- `kraus_to_chi(K) = choi_to_chi(kraus_to_choi(K))`, entry by entry, for every `n`, order,
`pauli_order` and Kraus list (conjugation additive). -/
theorem T17_kraus_chi_path {conj : α → α} {im : α} (h : ConjOK conj im)
    (hadd : ∀ a b, conj (a + b) = conj a + conj b) (po : List Nat) (o : Order) (n : Nat)
    (Ks : List (Mat α)) (r c : Nat) :
    krausToChi conj im po o n Ks r c
      = liouvilleToPauli conj im po o n (krausToChoi conj o (2 ^ n) n Ks) r c :=
  krausToChi_eq_path h hadd po o n Ks r c

/-- … hence `chi_to_choi(kraus_to_chi(K)) = 4ⁿ · kraus_to_choi(K)`: going to the χ matrix and back
returns the Choi matrix of the same Kraus set. -/
theorem T17_kraus_chi_choi_path {conj : α → α} {im : α} (h : ConjOK conj im)
    (hadd : ∀ a b, conj (a + b) = conj a + conj b) {po : List Nat} (hpo : ValidPO po) (o : Order)
    (n : Nat) (Ks : List (Mat α)) {r c : Nat} (hr : r < 4 ^ n) (hc : c < 4 ^ n) :
    pauliToLiouville conj im po o n (krausToChi conj im po o n Ks) r c
      = (4 : α) ^ n * krausToChoi conj o (2 ^ n) n Ks r c := by
  have e : krausToChi conj im po o n Ks
      = liouvilleToPauli conj im po o n (krausToChoi conj o (2 ^ n) n Ks) := by
    funext r c; exact krausToChi_eq_path h hadd po o n Ks r c
  rw [e]
  exact T17_pauli_liouville_roundtrip h hpo o n _ hr hc

/-- `kraus_to_liouville(K) · vec ρ = vec(Σ K ρ K†)` at EVERY position `k < d²` of the vector
(`kraus_to_liouville = choi_to_liouville ∘ kraus_to_choi` by definition of the model and of the
code; this is the statement that the composite path represents the Kraus map). -/
theorem T17_liouville_action_all (conj : α → α) (o : Order) (ho : o ≠ .system) {d : Nat} (n : Nat)
    (Ks : List (Mat α)) (ρ : Mat α) {k : Nat} (hk : k < d * d) :
    matVec (d * d) (choiToLiouville o d (krausToChoi conj o d n Ks)) (vectorization o d n ρ) k
      = vectorization o d n (applyKraus conj d Ks ρ) k :=
  krausToLiouville_action_all conj o ho n Ks ρ hk

/-- in the Pauli basis: `liouville_to_pauli(L) · (B v) = 2ⁿ · B (L v)` for every `4ⁿ × 4ⁿ`
matrix `L` and vector `v`. -/
theorem T17_pauli_liouville_action {conj : α → α} {im : α} (h : ConjOK conj im) {po : List Nat}
    (hpo : ValidPO po) (o : Order) (n : Nat) (L : Mat α) (v : Nat → α) {k : Nat} (hk : k < 4 ^ n) :
    matVec (4 ^ n) (liouvilleToPauli conj im po o n L)
        (matVec (4 ^ n) (compToPauli conj im po o n) v) k
      = (2 : α) ^ n * matVec (4 ^ n) (compToPauli conj im po o n) (matVec (4 ^ n) L v) k :=
  liouvilleToPauli_action h hpo o n L v hk

/-- Kraus → Liouville → Pauli-Liouville represents the same channel: applied to the Pauli
coefficients of `ρ` it gives `2ⁿ` times the Pauli coefficients of `Σ K ρ K†`. -/
theorem T17_kraus_pauli_action {conj : α → α} {im : α} (h : ConjOK conj im) {po : List Nat}
    (hpo : ValidPO po) (o : Order) (ho : o ≠ .system) (n : Nat) (Ks : List (Mat α)) (ρ : Mat α)
    {k : Nat} (hk : k < 4 ^ n) :
    matVec (4 ^ n) (liouvilleToPauli conj im po o n (krausToLiouville conj o (2 ^ n) n Ks))
        (matVec (4 ^ n) (compToPauli conj im po o n) (vectorization o (2 ^ n) n ρ)) k
      = (2 : α) ^ n * matVec (4 ^ n) (compToPauli conj im po o n)
          (vectorization o (2 ^ n) n (applyKraus conj (2 ^ n) Ks ρ)) k :=
  pauliLiouville_kraus_action h hpo o ho n Ks ρ hk

/-! ### non-vacuity -/

/-- ℂ with complex conjugation: the hypotheses `ConjOK`, additivity, and a normalisation `s` with
`s² · 2ⁿ = 1`, `conj s = s` exist for every even `n = 2m` (`s = 2⁻ᵐ`); for odd `n` take
`s = 1/√(2ⁿ)` in ℝ ⊂ ℂ.  Here `n = 2`, `s = 1/2`. -/
example : ∃ (s : ℂ), (starRingEnd ℂ) s = s ∧ s * s * (2 : ℂ) ^ 2 = 1 := by
  refine ⟨1 / 2, ?_, by norm_num⟩
  rw [map_div₀, map_one, map_ofNat]

example : ∀ a b : ℂ, (starRingEnd ℂ) (a + b) = (starRingEnd ℂ) a + (starRingEnd ℂ) b :=
  fun a b => map_add _ a b

/-- `2` is not a zero divisor in ℤ (hypothesis of `T17_scalar_inverse_two_sided`). -/
example : ∀ x : ℤ, 2 * x = 0 → x = 0 := by intro x hx; omega

/-- complex conjugation and `Complex.I` satisfy `ConjOK`. -/
theorem conjOK_complex : ConjOK (starRingEnd ℂ) Complex.I :=
  { zero := map_zero _, one := map_one _, neg := fun x => map_neg _ x,
    mul := fun x y => map_mul _ x y, conj_im := Complex.conj_I, im_sq := Complex.I_mul_I,
    invol := fun x => Complex.conj_conj x }

/-- all hypotheses together: two qubits, system order, ordering "YZIX", both conversions
normalised with `s = 1/2`; entry (5, 7) of an arbitrary `L` comes back. -/
example (L : Mat ℂ) :
    pauliToLiouvilleS (starRingEnd ℂ) Complex.I [2, 3, 0, 1] .system 2 (1 / 2)
      (liouvilleToPauliS (starRingEnd ℂ) Complex.I [2, 3, 0, 1] .system 2 (1 / 2) L) 5 7 = L 5 7 :=
  (T17_pauli_liouville_roundtrip_flags conjOK_complex ⟨by decide, by decide⟩ .system 2
    (by rw [map_div₀, map_one, map_ofNat]) (by norm_num) L (by decide) (by decide)).2.2.2

/-- un-normalised, column order, three qubits: the factor is `4³ = 64`. -/
example (L : Mat ℂ) :
    pauliToLiouville (starRingEnd ℂ) Complex.I [0, 1, 2, 3] .column 3
      (liouvilleToPauli (starRingEnd ℂ) Complex.I [0, 1, 2, 3] .column 3 L) 63 0 = 4 ^ 3 * L 63 0 :=
  T17_pauli_liouville_roundtrip conjOK_complex ⟨by decide, by decide⟩ .column 3 L (by decide)
    (by decide)

/-- the full unitarity statement over ℂ for every `n`, order and the default ordering. -/
example (o : Order) (n : Nat) :
    T17_pauli_unitary_full (starRingEnd ℂ) Complex.I [0, 1, 2, 3] o n :=
  T17_pauli_unitary_full_proved conjOK_complex ⟨by decide, by decide⟩ o n

end QV.Props.C17
