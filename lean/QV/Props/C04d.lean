/-
  QV.Props.C04d — the partial trace in the channel closed forms is the framework's partial trace.

  The closed-form fast paths of `gates/channels.py` (depolarizing: `(1-λ)ρ + λ/2^k · Tr_qs ρ ⊗ 1`,
  reset, Pauli twirl) are stated in C04/C04b with the channel model's `ptraceSet`.  Here it is
  proved to be (i) the recursive partial trace `ptrace` about which C07 proves invariance under
  gates on traced qubits, and (ii) entry by entry what the model of
  `quantum_info.linalg_operations.partial_trace` (density-matrix branch, property C18, compared
  exactly with the real function on every run) returns.  So the three properties share one
  notion of "reduced state".
-/
import QV.Proofs.PTraceUnify
import QV.Proofs.Linalg

namespace QV.Props.C04

open QV QV.Linalg

variable {α : Type} [CommRing α]

/-- the channel model's partial trace is the recursive partial trace of the fusion /
quantum-information models, on every duplicate-free qubit list. -/
theorem T04_ptrace_shared {qs : List Nat} (hn : qs.Nodup) (ρ : DM α) :
    ptraceSet qs ρ = ptrace qs ρ :=
  ptraceSet_eq_ptrace hn ρ

/-- … and entry `(b, c)` of the matrix that the model of `partial_trace(ρ, qs)` returns on an
`n`-qubit register is the channel model's partial trace read at the labels of `b` and `c` on the
kept qubits. -/
theorem T04_ptrace_is_partial_trace (n : Nat) {qs : List Nat} (hn : qs.Nodup) (ρ : DM α)
    (b c : Nat) :
    partialTraceDM n qs ρ b c = ptraceSet qs ρ (keptLab n qs b) (keptLab n qs c) := by
  rw [ptraceSet_eq_ptrace hn, partialTraceDM_eq_ptrace n hn]

/-- non-vacuity: a two-qubit example, tracing qubit 1 of `ρ(x,y) = [x₀ = y₀]`. -/
example : ptraceSet [1] (fun x y => if x 0 = y 0 then (1 : Int) else 0) zeroLab zeroLab = 2 := by
  simp [ptraceSet, sumOver, Lab.setMany, Lab.set, zeroLab]

end QV.Props.C04
