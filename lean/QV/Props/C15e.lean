/-
  C15 (continued) — the algebra of `SymbolicHamiltonian` objects over call histories
  (model: QV/Model/HamilAlg.lean; lemmas: QV/Proofs/HamilAlg.lean): whatever was read from
  the operands before (`terms` parsed or not), with or without handing parsed terms on to the
  result, every object of every history acts as the operator of the form the pure algebra
  gives it.  A reuse that forgets the sign of the constant in `h₁ − h₂` does not.
-/
import QV.Proofs.HamilAlg
import QV.Props.C15b
namespace QV.Props.C15
open QV

variable {α : Type} [CommRing α]

/-- **Histories: every object acts as its form.**  For every history of constructions,
`terms` reads, `+`, `−`, `@`, scalar multiples, scalar shifts and `c − h` (any length, any
interleaving, operands parsed or fresh, with or without term reuse), every object in the
store answers `h @ state` with the operator of its own form. -/
theorem T15_history_act (same : PSym α → PSym α → Bool)
    (hsame : ∀ a b, same a b = true → a = b) (hinv : ∀ s : PSym α, s.pauli = true → s.Invol)
    (reuse : Bool) (steps : List (AStep α)) (o : SObj α) (ho : o ∈ runAlg same reuse steps)
    (ψ : Lab → α) : o.act same ψ = o.form.denote ψ :=
  SObj.act_eq same hsame hinv o
    (foldl_stepAlg_cacheOK same hsame hinv reuse steps [] (by simp) o ho) ψ

/-- **Histories: forms do not see the caches.**  The forms of the objects are those of the
pure algebra of forms — independent of which `terms` were read when, and of term reuse. -/
theorem T15_history_forms (same : PSym α → PSym α → Bool) (reuse : Bool) (steps : List (AStep α)) :
    (runAlg same reuse steps).map (·.form) = runForms steps :=
  foldl_stepAlg_forms same reuse steps []

/-- **Histories: what an object answers depends only on the algebra**: the `k`-th object of
any history acts as the `k`-th form of the pure algebra, for both implementations and
every pattern of earlier reads. -/
theorem T15_history_independent (same : PSym α → PSym α → Bool)
    (hsame : ∀ a b, same a b = true → a = b) (hinv : ∀ s : PSym α, s.pauli = true → s.Invol)
    (reuse : Bool) (steps : List (AStep α)) (k : Nat) (o : SObj α)
    (ho : (runAlg same reuse steps)[k]? = some o) (ψ : Lab → α) :
    ∃ f, (runForms steps)[k]? = some f ∧ o.act same ψ = f.denote ψ := by
  refine ⟨o.form, ?_, T15_history_act same hsame hinv reuse steps o (List.mem_of_getElem? ho) ψ⟩
  rw [← T15_history_forms same reuse steps, List.getElem?_map, ho]
  rfl

/-- reading `terms` is invisible to the algebra of forms. -/
theorem T15_history_touch_invisible (steps : List (AStep α)) (fs : List (PForm α)) :
    (steps.filter (fun s => match s with | .touch _ => false | _ => true)).foldl stepForms fs
      = steps.foldl stepForms fs := by
  induction steps generalizing fs with
  | nil => rfl
  | cons s steps ih =>
    cases s <;> simp [List.foldl_cons, ih, stepForms]

/-- the forms of the compositions denote the operator algebra. -/
theorem T15_algebra_forms (f g : PForm α) (c : α) (ψ : Lab → α) (x : Lab) :
    (PForm.add f g).denote ψ x = f.denote ψ x + g.denote ψ x ∧
    (PForm.add f g.neg).denote ψ x = f.denote ψ x - g.denote ψ x ∧
    (PForm.mul f g).denote ψ x = f.denote (g.denote ψ) x ∧
    (PForm.smul c f).denote ψ x = c * f.denote ψ x ∧
    (PForm.add f (.const c)).denote ψ x = f.denote ψ x + c * ψ x ∧
    (PForm.add f (.const (-c))).denote ψ x = f.denote ψ x - c * ψ x ∧
    (PForm.add (.const c) f.neg).denote ψ x = c * ψ x - f.denote ψ x := by
  simp only [PForm.denote, PForm.neg]
  refine ⟨trivial, ?_, trivial, trivial, trivial, ?_, ?_⟩ <;> ring

/-- **Term reuse for `h₁ ± h₂`** (`sign = ±1`): for operands whose parsed terms are sound,
`terms₁ ++ sign·terms₂` with `constant₁ + sign·constant₂` is sound for the form of the
result; for operands that are not both parsed the result is fresh. -/
theorem T15_reuse_sum_sound (reuse : Bool) (s : α) (a b : SObj α) (f : PForm α)
    (ha : a.CacheOK) (hb : b.CacheOK)
    (hf : ∀ ψ x, f.denote ψ x = a.form.denote ψ x + s * b.form.denote ψ x) :
    (composeSum reuse s a b f).CacheOK := cacheOK_composeSum reuse s a b f ha hb hf

/-- **Term reuse for `c · h`.** -/
theorem T15_reuse_scale_sound (reuse : Bool) (c : α) (a : SObj α) (f : PForm α)
    (ha : a.CacheOK) (hf : ∀ ψ x, f.denote ψ x = c * a.form.denote ψ x) :
    (composeScale reuse c a f).CacheOK := cacheOK_composeScale reuse c a f ha hf

/-- non-vacuity: parsed operands with sound caches exist (the constants 0 and 1). -/
example : (SObj.mk (.const (1 : Int)) (some []) 1).CacheOK := by
  intro ts hts ψ
  simp only [Option.some.injEq] at hts
  subst hts
  funext x
  simp [TermHam.applyGates, PForm.denote]

/-- **The sign of the constant matters**: handing on `constant₁ + constant₂` for
`h₁ − h₂` (terms right) breaks the result as soon as both operands are parsed and the
subtrahend has a constant part: kernel-checked witness `0 − 1`. -/
theorem T15_reuse_constant_sign :
    ∃ a b : SObj Int, a.CacheOK ∧ b.CacheOK ∧
      ¬ (composeSubBad a b (.add a.form b.form.neg)).CacheOK := by
  refine ⟨⟨.const 0, some [], 0⟩, ⟨.const 1, some [], 1⟩, ?_, ?_, ?_⟩
  · intro ts hts ψ
    simp only [Option.some.injEq] at hts
    subst hts
    funext x
    simp [TermHam.applyGates, PForm.denote]
  · intro ts hts ψ
    simp only [Option.some.injEq] at hts
    subst hts
    funext x
    simp [TermHam.applyGates, PForm.denote]
  · intro h
    have := congrFun (h _ rfl (fun _ => 1)) (fun _ => false)
    simp [composeSubBad, TermHam.applyGates, PForm.denote, PForm.neg] at this

end QV.Props.C15
