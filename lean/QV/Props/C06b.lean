/-
  C06 (second part) — the parameter-shift rule is the true derivative.

  `qibo.derivative.parameter_shift` returns  r · (f(θ + s) − f(θ − s))  with
  s = π / (4 r), r = `gate.generator_eigenvalue()` (= 1/2 for RX, RY, RZ), where
  f(θ) = ⟨ψ₀| C(θ)† H C(θ) |ψ₀⟩ and θ enters the circuit C through one rotation gate
  U(θ) = cos(θ/2)·1 − i sin(θ/2)·P,  P² = 1  (P = X, Y, Z; checked against the real
  gate matrices on every run by `tools/props/C06.py`).

  * `T06_conjugation_trig_form` : in any complex algebra, U(θ)† A U(θ) is
      a₀ + cos θ · a₁ + sin θ · a₂  with explicit a₀ a₁ a₂ — for every A, every θ;
  * `T06_shift_rule` : every f θ = a + cos(2rθ) b + sin(2rθ) c satisfies
      f′(θ) = r · (f(θ + π/(4r)) − f(θ − π/(4r)))  — for every r ≠ 0, every θ;
  * `T06_parameter_shift_is_derivative` : for every linear functional φ (the map
      X ↦ ⟨ψ₀|V† X V|ψ₀⟩ for the gates V before the rotation), every observable A
      (= W† H W for the gates W after it), the value computed by the shift rule is the
      derivative of θ ↦ φ(U(θ)† A U(θ)).
-/
import Mathlib.Analysis.SpecialFunctions.Trigonometric.Deriv
import Mathlib.Analysis.SpecialFunctions.Trigonometric.Basic
import Mathlib.Tactic.Module
import Mathlib.Tactic.LinearCombination
namespace QV.Props.C06
open Real

section shift
variable {E : Type*} [NormedAddCommGroup E] [NormedSpace ℝ E]

/-- the family of functions the rule is exact on -/
noncomputable def trigForm (r : ℝ) (a b c : E) (θ : ℝ) : E := a + cos (2 * r * θ) • b + sin (2 * r * θ) • c

theorem T06_shift_rule (r : ℝ) (hr : r ≠ 0) (a b c : E) (θ : ℝ) :
    HasDerivAt (trigForm r a b c)
      (r • (trigForm r a b c (θ + π / (4 * r)) - trigForm r a b c (θ - π / (4 * r)))) θ := by
  have hlin : HasDerivAt (fun t : ℝ => 2 * r * t) (2 * r) θ := by
    simpa using (hasDerivAt_id θ).const_mul (2 * r)
  have hc : HasDerivAt (fun t : ℝ => cos (2 * r * t)) (-sin (2 * r * θ) * (2 * r)) θ :=
    (hasDerivAt_cos (2 * r * θ)).comp θ hlin
  have hs : HasDerivAt (fun t : ℝ => sin (2 * r * t)) (cos (2 * r * θ) * (2 * r)) θ :=
    (hasDerivAt_sin (2 * r * θ)).comp θ hlin
  have hd : HasDerivAt (trigForm r a b c)
      ((-sin (2 * r * θ) * (2 * r)) • b + (cos (2 * r * θ) * (2 * r)) • c) θ := by
    have := ((hasDerivAt_const θ a).fun_add (hc.smul_const b)).fun_add (hs.smul_const c)
    have e : trigForm r a b c = fun t : ℝ => a + cos (2 * r * t) • b + sin (2 * r * t) • c := by
      funext t; rfl
    rw [e]
    simpa using this
  have e1 : 2 * r * (θ + π / (4 * r)) = 2 * r * θ + π / 2 := by field_simp; ring
  have e2 : 2 * r * (θ - π / (4 * r)) = 2 * r * θ - π / 2 := by field_simp; ring
  convert hd using 1
  simp only [trigForm, e1, e2, cos_add_pi_div_two, sin_add_pi_div_two, cos_sub_pi_div_two,
    sin_sub_pi_div_two]
  module

/-- the case used by the code for RX, RY, RZ: eigenvalue 1/2, shift π/2, factor 1/2. -/
theorem T06_shift_rule_half (a b c : E) (θ : ℝ) :
    HasDerivAt (fun t : ℝ => a + cos t • b + sin t • c)
      ((1 / 2 : ℝ) • ((a + cos (θ + π / 2) • b + sin (θ + π / 2) • c) -
        (a + cos (θ - π / 2) • b + sin (θ - π / 2) • c))) θ := by
  have h := T06_shift_rule (1 / 2 : ℝ) (by norm_num) a b c θ
  have e : (fun t : ℝ => a + cos t • b + sin t • c) = trigForm (1 / 2 : ℝ) a b c := by
    funext t; simp [trigForm]
  rw [e]
  convert h using 2
  simp only [trigForm]
  have e3 : π / (4 * (1 / 2 : ℝ)) = π / 2 := by ring
  rw [e3]
  congr 2 <;> ring_nf

end shift

section conj
variable {A : Type*} [Ring A] [Algebra ℂ A]

/-- the rotation gate cos(θ/2)·1 − i sin(θ/2)·P and its adjoint (for Hermitian P) -/
noncomputable def rot (P : A) (θ : ℝ) : A := ((cos (θ / 2) : ℝ) : ℂ) • (1 : A) - (((sin (θ / 2) : ℝ) : ℂ) * Complex.I) • P
noncomputable def rotAdj (P : A) (θ : ℝ) : A := ((cos (θ / 2) : ℝ) : ℂ) • (1 : A) + (((sin (θ / 2) : ℝ) : ℂ) * Complex.I) • P

/-- polynomial identity behind both facts below (no relation between the scalars used) -/
theorem conj_expand (P H : A) (c u : ℂ) :
    (c • (1 : A) + u • P) * H * (c • (1 : A) - u • P) =
      (c * c) • H - (u * u) • (P * H * P) + (c * u) • (P * H - H * P) := by
  simp only [add_mul, mul_sub, smul_mul_assoc, mul_smul_comm, one_mul, mul_one,
    smul_add, smul_sub, smul_smul]
  module

theorem sI_sq (s : ℂ) : s * Complex.I * (s * Complex.I) = -(s * s) := by
  linear_combination (s * s) * Complex.I_mul_I

theorem half_angle (θ : ℝ) :
    (((cos (θ / 2) : ℝ) : ℂ)) ^ 2 + (((sin (θ / 2) : ℝ) : ℂ)) ^ 2 = 1 ∧
    ((cos θ : ℝ) : ℂ) = (((cos (θ / 2) : ℝ) : ℂ)) ^ 2 - (((sin (θ / 2) : ℝ) : ℂ)) ^ 2 ∧
    ((sin θ : ℝ) : ℂ) = 2 * ((sin (θ / 2) : ℝ) : ℂ) * ((cos (θ / 2) : ℝ) : ℂ) := by
  have e : 2 * (θ / 2) = θ := by ring
  have h0 := Real.cos_sq_add_sin_sq (θ / 2)
  have h2 := Real.cos_two_mul (θ / 2)
  have h3 := Real.sin_two_mul (θ / 2)
  rw [e] at h2 h3
  refine ⟨by exact_mod_cast h0, ?_, ?_⟩
  · have : cos θ = cos (θ / 2) ^ 2 - sin (θ / 2) ^ 2 := by nlinarith
    exact_mod_cast this
  · exact_mod_cast h3

/-- U(θ)† U(θ) = 1 whenever P² = 1: `rotAdj` is the inverse (unitarity of the model gate). -/
theorem T06_rot_unitary (P : A) (hP : P * P = 1) (θ : ℝ) : rotAdj P θ * rot P θ = 1 := by
  obtain ⟨h1, -, -⟩ := half_angle θ
  have h := conj_expand P (1 : A) ((cos (θ / 2) : ℝ) : ℂ) (((sin (θ / 2) : ℝ) : ℂ) * Complex.I)
  simp only [mul_one, one_mul, hP, sub_self, smul_zero, add_zero, sI_sq] at h
  unfold rot rotAdj
  rw [h]
  have : ∀ c s : ℂ, c ^ 2 + s ^ 2 = 1 → (c * c) • (1 : A) - (-(s * s)) • (1 : A) = 1 := by
    intro c s hcs
    have : (c * c) • (1 : A) - (-(s * s)) • (1 : A) = (c ^ 2 + s ^ 2) • (1 : A) := by module
    rw [this, hcs, one_smul]
  exact this _ _ h1

theorem T06_conjugation_trig_form (P H : A) (θ : ℝ) :
    rotAdj P θ * H * rot P θ =
      (1 / 2 : ℂ) • (H + P * H * P) + ((cos θ : ℝ) : ℂ) • ((1 / 2 : ℂ) • (H - P * H * P)) +
        ((sin θ : ℝ) : ℂ) • ((Complex.I / 2) • (P * H - H * P)) := by
  obtain ⟨h1, hcos, hsin⟩ := half_angle θ
  have h := conj_expand P H ((cos (θ / 2) : ℝ) : ℂ) (((sin (θ / 2) : ℝ) : ℂ) * Complex.I)
  rw [sI_sq] at h
  unfold rot rotAdj
  rw [h, hcos, hsin]
  generalize ((cos (θ / 2) : ℝ) : ℂ) = c at h1 ⊢
  generalize ((sin (θ / 2) : ℝ) : ℂ) = s at h1 ⊢
  have e1 : c * c = (1 / 2 : ℂ) + (c ^ 2 - s ^ 2) * (1 / 2) := by linear_combination (1 / 2 : ℂ) * h1
  have e2 : s * s = (1 / 2 : ℂ) - (c ^ 2 - s ^ 2) * (1 / 2) := by linear_combination (1 / 2 : ℂ) * h1
  rw [e1, e2]
  module

/-- **The value `parameter_shift` computes is the derivative.**  For every linear
    functional φ, observable `H` and generator `P` (an involution for RX/RY/RZ, see
    `T06_rot_unitary`; the identity itself does not need it), the expectation
    f θ = φ(U(θ)† H U(θ)) has derivative ½ (f(θ + π/2) − f(θ − π/2)) at every θ. -/
theorem T06_parameter_shift_is_derivative (φ : A →ₗ[ℂ] ℂ) (P H : A) (θ : ℝ) :
    HasDerivAt (fun t : ℝ => φ (rotAdj P t * H * rot P t))
      ((1 / 2 : ℝ) • (φ (rotAdj P (θ + π / 2) * H * rot P (θ + π / 2)) -
        φ (rotAdj P (θ - π / 2) * H * rot P (θ - π / 2)))) θ := by
  have form : ∀ t : ℝ, φ (rotAdj P t * H * rot P t) =
      φ ((1 / 2 : ℂ) • (H + P * H * P)) + cos t • φ ((1 / 2 : ℂ) • (H - P * H * P)) +
        sin t • φ ((Complex.I / 2) • (P * H - H * P)) := by
    intro t
    rw [T06_conjugation_trig_form P H t]
    simp only [map_add, map_smul, smul_eq_mul, Complex.real_smul]
  have h := T06_shift_rule_half (φ ((1 / 2 : ℂ) • (H + P * H * P)))
    (φ ((1 / 2 : ℂ) • (H - P * H * P))) (φ ((Complex.I / 2) • (P * H - H * P))) θ
  have e : (fun t : ℝ => φ (rotAdj P t * H * rot P t)) = fun t : ℝ =>
      φ ((1 / 2 : ℂ) • (H + P * H * P)) + cos t • φ ((1 / 2 : ℂ) • (H - P * H * P)) +
        sin t • φ ((Complex.I / 2) • (P * H - H * P)) := funext form
  rw [e, form (θ + π / 2), form (θ - π / 2)]
  exact h

/-- non-vacuity: `P = 1` is an involution in every algebra (and X, Y, Z are in M₂(ℂ)). -/
example (θ : ℝ) : rotAdj (1 : A) θ * rot (1 : A) θ = 1 := T06_rot_unitary 1 (by simp) θ

end conj
end QV.Props.C06
