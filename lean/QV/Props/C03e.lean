/-
  C03 (deepening, part 4) — bit-flip readout noise.
  Model: QV/Model/Bitflip.lean (tied to gates/measurements.py, result.py, measurements.py and
  backends/numpy.py by the `bitflip` suites of tools/props/C03_bitflip.py through
  lean/DriverC03.lean).  Proofs: QV/Proofs/Bitflip.lean, BitflipSM.lean, BitflipCount.lean.

  `P` is the type of probabilities and uniform random numbers: anything with `0`, `1`, `+` and a
  decidable `<` (no algebraic law is assumed unless stated).  The array `u` returned by
  `np.random.random(samples.shape)` is an input.  Nothing is bounded: qubit lists, registers,
  shots, accessor histories are arbitrary.
-/
import QV.Proofs.Bitflip
import QV.Proofs.BitflipSM
import QV.Proofs.BitflipCount
import Mathlib.Order.Basic
import Mathlib.Algebra.Group.Defs

set_option linter.unusedSectionVars false
set_option linter.unusedSimpArgs false
set_option linter.unusedVariables false

namespace QV.Props.C03
open QV QV.BF Finset

section
variable {P : Type} [Zero P] [One P] [Add P] [LT P] [DecidableLT P]

/-! ### (i) the flip map -/

/-- `_get_bitflip_tuple` raises exactly in the cases `tupleErr` lists (ValueError: a float
outside [0, 1] or a list of the wrong length; KeyError: a dictionary key that is not measured;
TypeError: anything that is not a float / list / tuple / dict) and with that exception class. -/
theorem T03_bitflip_tuple_raises_iff (qs : List Nat) (f : PForm P) (e : Err) :
    flipTuple qs f = .error e ↔ tupleErr qs f = some e :=
  flipTuple_err qs f e

/-- when it does not raise, the tuple has one entry per measured qubit and entry `j` is the
probability the documentation gives to the `j`-th qubit handed to the gate: the same number for
all qubits (float), positional (list / tuple), by qubit id with 0 for absent ids (dict). -/
theorem T03_bitflip_tuple_documented {qs : List Nat} {f : PForm P} {pt : List P}
    (h : flipTuple qs f = .ok pt) :
    pt.length = qs.length ∧ ∀ q ∈ qs, pt.getD (qs.idxOf q) 0 = docProb qs f q :=
  flipTuple_spec h

/-- **the flip map of a gate**: its keys are the measured qubits in the order given, and every
measured qubit — for every input form and every qubit order, sorted or not — is mapped to its
documented probability. -/
theorem T03_bitflip_map_documented {qs : List Nat} (hn : qs.Nodup) {f : PForm P} {m : FMap P}
    (h : flipMap qs f = .ok m) :
    m.map (·.1) = qs ∧ ∀ q ∈ qs, mapGet m q = some (docProb qs f q) :=
  flipMap_spec hn h

/-- `gates.M(...)` raises exactly when `mkErr` says so: NotImplementedError for noise on a
collapsing measurement, otherwise the first raising case of the 0→1 map, then of the 1→0 map. -/
theorem T03_bitflip_gate_raises_iff (g : MSpec P) (e : Err) :
    mkMaps g = .error e ↔ mkErr g = some e :=
  mkMaps_err g e

/-- the two maps of a constructed gate: `p0` governs 0→1 and `p1` governs 1→0, a missing `p1`
is replaced by `p0` and a missing `p0` by `p1` (`eff0`, `eff1`). -/
theorem T03_bitflip_gate_maps {g : MSpec P} (hn : g.targets.Nodup) {m0 m1 : FMap P}
    (h : mkMaps g = .ok (m0, m1)) :
    (m0.map (·.1) = g.targets ∧ ∀ q ∈ g.targets, mapGet m0 q = some (docProb g.targets (eff0 g) q)) ∧
    (m1.map (·.1) = g.targets ∧ ∀ q ∈ g.targets, mapGet m1 q = some (docProb g.targets (eff1 g) q)) :=
  mkMaps_spec hn h

/-- **the global measurement gate of a result** (first gate rebuilt, every other one merged
with `dict.update`) measures the registers' qubits concatenated, and gives every qubit the two
probabilities of the gate that measures it — for any number of registers in any qubit order. -/
theorem T03_bitflip_global_gate (gs : List (MG P)) (hk : ∀ g ∈ gs, g.Keyed)
    (hn : (gs.flatMap (·.targets)).Nodup) :
    (globalGate gs).targets = gs.flatMap (·.targets) ∧
    ∀ g ∈ gs, ∀ q ∈ g.targets, mapGet (globalGate gs).m0 q = mapGet g.m0 q ∧
        mapGet (globalGate gs).m1 q = mapGet g.m1 q :=
  ⟨(globalGate_spec gs hk hn).1, (globalGate_spec gs hk hn).2.2⟩

/-- end to end: column `q` of the probability rows handed to `backend.apply_bitflips` is the
documented probability of qubit `q` in the gate `sp` that measures it. -/
theorem T03_bitflip_columns_documented (gs : List (MG P)) (hk : ∀ g ∈ gs, g.Keyed)
    (hn : (gs.flatMap (·.targets)).Nodup) {g : MG P} (hg : g ∈ gs) {sp : MSpec P}
    (ht : sp.targets = g.targets) (hsp : mkMaps sp = .ok (g.m0, g.m1)) {q : Nat} (hq : q ∈ g.targets) :
    (mapGet (globalGate gs).m0 q).getD 0 = docProb sp.targets (eff0 sp) q ∧
    (mapGet (globalGate gs).m1 q).getD 0 = docProb sp.targets (eff1 sp) q := by
  have hnd : sp.targets.Nodup := by
    rw [ht]
    exact (List.nodup_flatMap.mp hn).1 g hg
  obtain ⟨⟨_, a⟩, ⟨_, b⟩⟩ := mkMaps_spec hnd hsp
  obtain ⟨c, d⟩ := (globalGate_spec gs hk hn).2.2 g hg q hq
  rw [c, d, a q (ht ▸ hq), b q (ht ▸ hq)]
  exact ⟨rfl, rfl⟩

/-! ### (ii) the flips -/

/-- **locality**: entry (shot `s`, column `j`) of the noisy table depends only on the same entry
of the clean table, on the same entry of the array of uniform numbers and on the probabilities
of column `j`: a clean 0 becomes 1 iff `u < p0`, a clean 1 becomes 0 iff `u < p1` (strict
comparison, the same uniform number for both). -/
theorem T03_bitflip_local {k : Nat} {p0s p1s : List P} {u : List (List P)} {rows : List (List Nat)}
    (h : Shape k p0s p1s u rows) {s j : Nat} (hs : s < rows.length) (hj : j < k) :
    ((applyBitflips p0s p1s u rows).getD s []).getD j 0
      = flipBit (p0s.getD j 0) (p1s.getD j 0) ((u.getD s []).getD j 0) ((rows.getD s []).getD j 0) :=
  applyBitflips_entry h hs hj

theorem T03_bitflip_entry_rule (p0 p1 u : P) :
    flipBit p0 p1 u 0 = (if u < p0 then 1 else 0) ∧ flipBit p0 p1 u 1 = (if u < p1 then 0 else 1) :=
  ⟨flipBit_zero p0 p1 u, flipBit_one p0 p1 u⟩

/-- the noisy table has the shape of the clean one and consists of bits. -/
theorem T03_bitflip_shape {k : Nat} {p0s p1s : List P} {u : List (List P)} {rows : List (List Nat)}
    (h : Shape k p0s p1s u rows) (hb : ∀ r ∈ rows, ∀ b ∈ r, b ≤ 1) :
    (applyBitflips p0s p1s u rows).length = rows.length ∧
      ∀ r ∈ applyBitflips p0s p1s u rows, r.length = k ∧ ∀ b ∈ r, b ≤ 1 :=
  ⟨applyBitflips_length p0s p1s u rows h.hu, applyBitflips_rows h hb⟩

/-- **all probabilities 0**: with uniform numbers that are not negative the samples are
unchanged. -/
theorem T03_bitflip_zero_unchanged {k : Nat} {p0s p1s : List P} {u : List (List P)}
    {rows : List (List Nat)} (h : Shape k p0s p1s u rows)
    (h0 : ∀ p ∈ p0s, p = 0) (h1 : ∀ p ∈ p1s, p = 0) (hu : ∀ r ∈ u, ∀ x ∈ r, ¬ x < 0) :
    applyBitflips p0s p1s u rows = rows :=
  applyBitflips_id h fun r hr x hx =>
    ⟨fun p hp => by rw [h0 p hp]; exact hu r hr x hx, fun p hp => by rw [h1 p hp]; exact hu r hr x hx⟩

/-- **all probabilities 1** (symmetric case): with uniform numbers below 1 every bit is
complemented. -/
theorem T03_bitflip_one_complemented {k : Nat} {p0s p1s : List P} {u : List (List P)}
    {rows : List (List Nat)} (h : Shape k p0s p1s u rows) (hb : ∀ r ∈ rows, ∀ b ∈ r, b ≤ 1)
    (h0 : ∀ p ∈ p0s, p = 1) (h1 : ∀ p ∈ p1s, p = 1) (hu : ∀ r ∈ u, ∀ x ∈ r, x < 1) :
    applyBitflips p0s p1s u rows = rows.map fun r => r.map fun b => 1 - b :=
  applyBitflips_compl h hb fun r hr x hx =>
    ⟨fun p hp => by rw [h0 p hp]; exact hu r hr x hx, fun p hp => by rw [h1 p hp]; exact hu r hr x hx⟩

/-- **asymmetric extremes** for one entry with `0 ≤ u < 1`: `p0 = 1, p1 = 0` reports 1 whatever
the clean bit, `p0 = 0, p1 = 1` reports 0, `p0 = p1 = 0` reports the clean bit. -/
theorem T03_bitflip_asymmetric_extremes {u : P} (hu0 : ¬ u < 0) (hu1 : u < 1) {b : Nat} (hb : b ≤ 1) :
    flipBit 1 0 u b = 1 ∧ flipBit 0 1 u b = 0 ∧ flipBit 0 0 u b = b := by
  have : b = 0 ∨ b = 1 := by omega
  rcases this with rfl | rfl
  · simp [flipBit_zero, hu0, hu1]
  · simp [flipBit_one, hu0, hu1]

/-- flips are applied row by row: one call per shot on one-row tables (repeated execution)
gives the table flipped at once with the uniform numbers stacked. -/
theorem T03_bitflip_rowwise (p0s p1s : List P) (u1 u2 : List (List P)) (r1 r2 : List (List Nat))
    (h : u1.length = r1.length) :
    applyBitflips p0s p1s (u1 ++ u2) (r1 ++ r2)
      = applyBitflips p0s p1s u1 r1 ++ applyBitflips p0s p1s u2 r2 :=
  applyBitflips_append p0s p1s u1 u2 r1 r2 h

/-- `MeasurementOutcomes.apply_bitflips(p0, p1)` raises exactly when one of the two tuples
does (`p0 = None` is a TypeError), and otherwise flips the rows it is given with the tuples over
the global qubit list; without `p1` the 0→1 tuple is used for both directions. -/
theorem T03_bitflip_api (glob : List Nat) (p0 p1 : PForm P) (u : List (List P)) (rows : List (List Nat)) :
    applyBitflipsAPI glob p0 p1 u rows =
      match flipTuple glob p0, (if p1.isNone then flipTuple glob p0 else flipTuple glob p1) with
      | .error e, _ => .error e
      | .ok _, .error e => .error e
      | .ok t0, .ok t1 => .ok (applyBitflips t0 t1 u rows) := by
  unfold applyBitflipsAPI
  cases h0 : flipTuple glob p0 with
  | error e => rfl
  | ok t0 =>
    cases hp : p1.isNone with
    | true => simp [h0]
    | false =>
      simp only [Bool.false_eq_true, if_false]
      cases flipTuple glob p1 <;> rfl

/-! ### (iii) one flipped table, many views -/

variable {c : RCfg} {nz : Noise P} {o : Oracle} {u : List (List P)}

/-- **all accessors of a noisy result are views of ONE table** — the drawn shots with the flips
applied (`noisyTable`, a function of the clean table, the probabilities and the uniform numbers
only) — for every history of `samples` / `frequencies` × binary × registers and per-gate accessor
calls, whichever comes first: with noise every accessor forces the samples, the noise is applied
once to them, and frequencies are recomputed from the noisy samples. -/
theorem T03_bitflip_views (hon : nz.on = true) (hv : NValid c nz o u) (ops : List ROp) :
    nrun c nz o u {} ops = ops.map (rview c (noisyTable c nz o u)) :=
  nrun_fresh hon hv ops

/-- the table is a function of the clean shots, the probabilities and the uniform numbers
only: the batches and the shuffle (the frequencies-first path) play no role. -/
theorem T03_bitflip_table_inputs (c : RCfg) (nz : Noise P) (o o' : Oracle) (u : List (List P))
    (h : o.shots = o'.shots) : noisyTable c nz o u = noisyTable c nz o' u := by
  unfold noisyTable; rw [h]

/-- an answer does not depend on what was asked before it. -/
theorem T03_bitflip_history_independent (hon : nz.on = true) (hv : NValid c nz o u)
    (pre pre' : List ROp) (op : ROp) :
    (nrun c nz o u {} (pre ++ [op])).getLast? = (nrun c nz o u {} (pre' ++ [op])).getLast? := by
  rw [T03_bitflip_views hon hv, T03_bitflip_views hon hv]
  simp only [List.map_append, List.map_cons, List.map_nil, List.getLast?_concat]

/-- without active noise (`has_bitflip_noise()` false) the accessor code with noise is the
accessor code without: every earlier theorem about `rrun` applies unchanged … -/
theorem T03_bitflip_off_is_clean (hoff : nz.on = false) (s : RState) (ops : List ROp) :
    nrun c nz o u s ops = rrun c o s ops :=
  nrun_quiet ops (Or.inl hoff)

/-- … and a result that already holds samples (built with `samples=` by a repeated execution,
or after its first accessor call) never has noise applied again: its answers are the views of
the table it holds, whatever the uniform numbers (non-interference with earlier draws). -/
theorem T03_bitflip_given_samples (T : List Nat) (hT : ∀ x ∈ T, x < 2 ^ c.k) (ops : List ROp) :
    nrun c nz o u (RState.withSamples c T) ops = ops.map (rview c T) := by
  rw [nrun_quiet ops (Or.inr rfl)]
  exact rrun_of_inv (rinv_withSamples c o T) hT ops

end

/-- all-zero maps switch the noise off (in any ordered additive monoid). -/
theorem T03_bitflip_zero_maps_off {P : Type} [AddMonoid P] [One P] [Preorder P] [DecidableLT P]
    (g : MG P) (h0 : ∀ kv ∈ g.m0, kv.2 = 0) (h1 : ∀ kv ∈ g.m1, kv.2 = 0) : hasNoise g = false := by
  have hz : ∀ l : List P, (∀ x ∈ l, x = 0) → sumP l = 0 := by
    intro l hl
    unfold sumP
    have : ∀ (acc : P), acc = 0 → l.foldl (· + ·) acc = 0 := by
      induction l with
      | nil => intro acc h; exact h
      | cons a l ih =>
        intro acc h
        rw [List.foldl_cons]
        apply ih (fun x hx => hl x (List.mem_cons_of_mem _ hx))
        rw [h, hl a (List.mem_cons_self ..), add_zero]
    exact this 0 rfl
  unfold hasNoise
  rw [hz _ (by intro x hx; obtain ⟨kv, hkv, rfl⟩ := List.mem_map.mp hx; exact h0 kv hkv),
    hz _ (by intro x hx; obtain ⟨kv, hkv, rfl⟩ := List.mem_map.mp hx; exact h1 kv hkv)]
  simp

/-! ### (iv) counting over a grid of uniform numbers -/

/-- **one entry over all grid values** (numerators: uniform number `x/D`, `x < D`;
probabilities `a0/D`, `a1/D`): a clean 0 is reported as 1 for exactly `a0` of the `D` values, a
clean 1 is reported as 1 for exactly `D - a1` of them — the binary asymmetric channel
`[[1-p0, p0], [p1, 1-p1]]`. -/
theorem T03_bitflip_cell_count (D a0 a1 : ℕ) (h0 : a0 ≤ D) (h1 : a1 ≤ D) {b : ℕ} (hb : b ≤ 1) :
    ∑ x ∈ range D, flipBit a0 a1 x b = (1 - b) * a0 + b * (D - a1) :=
  cell_count D a0 a1 h0 h1 hb

/-- **marginal of one measured qubit over all oracle values**: `col s` is the clean bit of the
qubit in shot `s`.  Summed over all `D^n` assignments of grid values to the `n` shots, the number
of reported ones is `D^(n-1) · Σ_s ((1 - col s)·a0 + col s·(D - a1))`; divided by `D^n`: the
expected number of ones is `n0·p0 + n1·(1 - p1)` — the clean marginal pushed through the
channel. -/
theorem T03_bitflip_column_count (n D a0 a1 : ℕ) (h0 : a0 ≤ D) (h1 : a1 ≤ D) (col : Fin n → ℕ)
    (hcol : ∀ s, col s ≤ 1) :
    ∑ x : Fin n → Fin D, ∑ s : Fin n, flipBit a0 a1 (x s : ℕ) (col s)
      = D ^ (n - 1) * ∑ s : Fin n, ((1 - col s) * a0 + col s * (D - a1)) :=
  column_count n D a0 a1 h0 h1 col hcol

/-! ### non-vacuity (probabilities as numerators over 8) -/

/-- `M(2, 0, 1, p0={0: 3})` read over ℕ: the tuple follows the order (2, 0, 1). -/
example : flipTuple [2, 0, 1] (.dict [(0, (1 : ℕ))]) = .ok [0, 1, 0] := by decide
example : flipTuple [2, 0, 1] (.list [(1 : ℕ), 0]) = .error .value := by decide
example : flipTuple [2, 0, 1] (.dict [(3, (1 : ℕ))]) = .error .key := by decide
example : mkMaps ({ targets := [1, 0], collapse := true, p0 := .scalar (1 : ℕ) }) = .error .notImplemented := by
  decide
/-- `p0=None, p1=[1, 0]`: both maps are the given one. -/
example : mkMaps ({ targets := [1, 0], p1 := .list [(1 : ℕ), 0] })
    = .ok ([(1, 1), (0, 0)], [(1, 1), (0, 0)]) := by decide

private def g1 : MG ℕ := { targets := [2, 0], m0 := [(2, 4), (0, 2)], m1 := [(2, 4), (0, 2)] }
private def g2 : MG ℕ := { targets := [1], m0 := [(1, 1)], m1 := [(1, 0)] }
example : g1.Keyed ∧ g2.Keyed ∧ ([g1, g2].flatMap (·.targets)).Nodup := by
  refine ⟨⟨rfl, rfl⟩, ⟨rfl, rfl⟩, by decide⟩
example : (noiseOf (globalGate [g1, g2])).p0 = [4, 2, 1] ∧ (noiseOf (globalGate [g1, g2])).p1 = [4, 2, 0]
    ∧ (noiseOf (globalGate [g1, g2])).on = true := by decide

private def cN : RCfg := { nregs := 2, reg := fun i => if i = 0 then [2, 0] else [1] }
private def nzN : Noise ℕ := noiseOf (globalGate [g1, g2])
private def oN : Oracle := { shots := [5, 0], batches := [], perm := [] }
private def uN : List (List ℕ) := [[3, 2, 0], [4, 1, 7]]

example : nzN.on = true ∧ NValid cN nzN oN uN := by
  refine ⟨by decide, ⟨by decide, by decide, by decide, by decide⟩⟩

/-- clean rows 101, 000; uniform numbers (3,2,0),(4,1,7) against p0 = p1 = (4,2,·) and
(1 | 0) on the last column: 3<4 flips, 2<2 does not (strict), 0<0 does not; 4<4 no, 1<2 yes,
7<1 no. -/
example : applyBitflips nzN.p0 nzN.p1 uN [[1, 0, 1], [0, 0, 0]] = [[0, 0, 1], [0, 1, 0]] := by decide
example : noisyTable cN nzN oN uN = [1, 2] := by decide

/-- the hypotheses of the p = 0 and p = 1 theorems are satisfiable (numerators: `1` is the
largest threshold, so the only uniform number below it is `0`). -/
private theorem shapeZ : Shape 2 [0, 0] [(0 : ℕ), 0] [[5, 0], [2, 7]] [[1, 0], [0, 0]] :=
  ⟨rfl, rfl, rfl, by decide, by decide⟩
example : applyBitflips [0, 0] [(0 : ℕ), 0] [[5, 0], [2, 7]] [[1, 0], [0, 0]] = [[1, 0], [0, 0]] :=
  T03_bitflip_zero_unchanged shapeZ (by decide) (by decide) (by decide)
private theorem shapeO : Shape 2 [1, 1] [(1 : ℕ), 1] [[0, 0], [0, 0]] [[1, 0], [0, 0]] :=
  ⟨rfl, rfl, rfl, by decide, by decide⟩
example : applyBitflips [1, 1] [(1 : ℕ), 1] [[0, 0], [0, 0]] [[1, 0], [0, 0]] = [[0, 1], [1, 1]] :=
  T03_bitflip_one_complemented shapeO (by decide) (by decide) (by decide) (by decide)

example : ∑ x ∈ range 8, flipBit 3 5 x 0 = 3 ∧ ∑ x ∈ range 8, flipBit 3 5 x 1 = 3 := by decide

end QV.Props.C03
