/-
  C16 — time evolution reaches exp(-iHt).   Part 2: matrix exponentials (Mathlib's
  `NormedSpace.exp` is the meaning of scipy's `expm`), the exponential and Trotter solvers
  driven by `StateEvolution.execute`, the number of steps, and the Runge–Kutta steps.
  Proofs: QV/Proofs/EvolutionExp.lean, QV/Proofs/Evolution.lean.

  Matrices are complex matrices over an arbitrary finite index type (`Fin (2 ^ n)` for an
  `n`-qubit register — no bound on `n`); each Hamiltonian term is taken already enlarged to
  the register (that the merged group gates act as the sums of their members is
  `T16_toTerm` / `T16_groups_sum` of part 1).

  The analytic error bound `‖S(dt) - exp(-i dt H)‖ = O(dt³)` for non-commuting terms is stated
  here as `def TrotterThirdOrder : Prop` and PROVED in part 3 (`QV/Props/C16c.lean`:
  `TrotterThirdOrder_proved`, explicit constant in `T16_trotter_third_order`), together with the
  algebraic second-order statement for every term list.  The direct search measures the error
  ratio on the real code on every run and evaluates the proved bound on the real circuits.
-/
import QV.Proofs.Evolution
import QV.Proofs.EvolutionExp
namespace QV.Props.C16
open QV QV.Evo NormedSpace

variable {n : Type} [Fintype n] [DecidableEq n]

/-- **Commuting terms: the Trotter step is exact.**  For pairwise commuting terms the product
of the queue (all terms for `dt/2`, then all terms backwards for `dt/2`) is
`exp(-i dt Σ h)`; the constant of the Hamiltonian only contributes a global phase. -/
theorem T16_trotter_commuting (dt : ℂ) (hs : List (Matrix n n ℂ)) (hc : hs.Pairwise Commute) :
    mtrotter (dt / 2) hs = mprop dt hs.sum :=
  mtrotter_of_commute dt hs hc

/-- non-vacuity: two different commuting matrices. -/
example : ([!![1, 0; 0, -1], !![2, 0; 0, 3]] : List (Matrix (Fin 2) (Fin 2) ℂ)).Pairwise Commute := by
  refine List.Pairwise.cons ?_ (List.pairwise_singleton _ _)
  intro b hb
  rw [List.mem_singleton.mp hb]
  show _ * _ = _ * _
  ext i j
  fin_cases i <;> fin_cases j <;> simp [Matrix.mul_apply, Fin.sum_univ_two]

/-- **Time-reversal symmetry** `S(-dt) S(dt) = 1` of the Trotter step for every list of terms,
commuting or not. -/
theorem T16_trotter_time_reversal (a : ℂ) (hs : List (Matrix n n ℂ)) :
    mtrotter (-a) hs * mtrotter a hs = 1 :=
  mtrotter_neg_mul a hs

/-- **First-order consistency, formally, for every list of terms**: with a formal halved step
`a` (`a² = 0`, commuting with the terms — the dual-number way of taking `d/dt` at `0`) every
exponential is `1 + a h` and the whole queue is `1 + a (Σh + Σh) = 1 + dt·H`.  Together with
the time-reversal symmetry (a symmetric consistent one-step method has even order) this is the
algebraic content of "the error vanishes as dt³". -/
theorem T16_trotter_first_order {R : Type*} [Ring R] (a : R) (ha : a * a = 0) (hs : List R)
    (hc : ∀ h ∈ hs, Commute a h) :
    ((hs ++ hs.reverse).map fun h => 1 + a * h).prod = 1 + a * (hs.sum + hs.sum) :=
  trotter_first_order a ha hs hc

/-- non-vacuity: a non-zero nilpotent step commuting with two non-commuting-looking terms. -/
example : ∃ (a : Matrix (Fin 2) (Fin 2) ℤ) (hs : List (Matrix (Fin 2) (Fin 2) ℤ)),
    a ≠ 0 ∧ a * a = 0 ∧ (∀ h ∈ hs, Commute a h) ∧ hs.length = 2 := by
  refine ⟨!![0, 1; 0, 0], [!![1, 2; 0, 1], !![3, 5; 0, 3]], by decide, by decide, ?_, rfl⟩
  intro h hh
  simp only [List.mem_cons, List.not_mem_nil, or_false] at hh
  rcases hh with rfl | rfl <;> (show _ * _ = _ * _) <;> decide

/-- the analytic statement: third-order local error of the symmetric step (proved in part 3,
`TrotterThirdOrder_proved` in `QV/Props/C16c.lean`). -/
def TrotterThirdOrder : Prop :=
  ∀ (m : ℕ) (hs : List (Matrix (Fin m) (Fin m) ℂ)),
    ∃ C : ℝ, ∀ dt : ℝ, |dt| ≤ 1 →
      ∀ i j, ‖(mtrotter ((dt : ℂ) / 2) hs - mprop (dt : ℂ) hs.sum) i j‖ ≤ C * |dt| ^ 3

/-- **`k` steps of the one-step propagator** are the propagator for `k dt`. -/
theorem T16_exp_steps (dt : ℂ) (H : Matrix n n ℂ) (k : ℕ) :
    mprop dt H ^ k = mprop ((k : ℂ) * dt) H :=
  mprop_pow dt H k

theorem iterate_mulVec (A : Matrix n n ℂ) (k : ℕ) (ψ : n → ℂ) :
    (fun v => A.mulVec v)^[k] ψ = (A ^ k).mulVec ψ := by
  induction k generalizing ψ with
  | zero => simp
  | succ k ih =>
    rw [Function.iterate_succ_apply, ih, Matrix.mulVec_mulVec, ← pow_succ]

/-- **The exponential solver reaches `exp(-i H (T - t0)) ψ`.**  `q` is the quotient
`(T - t0) / dt` as computed (in floating point); if it is within `1e-9` of the integer `k`
with `k dt = T - t0`, `execute` (with or without callbacks) returns `exp(-i (T - t0) H) ψ`. -/
theorem T16_exp_evolution (H : Matrix n n ℂ) (ψ : n → ℂ) (dt T t0 q : ℝ) (k : ℕ) (cb : Bool)
    (hq : |q - (k : ℤ)| < 1e-9) (hk : (k : ℝ) * dt = T - t0) :
    (execute (fun v => (mprop (dt : ℂ) H).mulVec v) id cb (nstepsR q).toNat ψ).1
      = (mprop ((T - t0 : ℝ) : ℂ) H).mulVec ψ := by
  rw [nstepsR_of_near hq, Int.toNat_natCast, execute_id_fst, iterate_mulVec,
    T16_exp_steps, ← hk]
  push_cast
  rfl

/-- **The Trotter solver on commuting terms reaches the same state.** -/
theorem T16_trotter_evolution (hs : List (Matrix n n ℂ)) (hc : hs.Pairwise Commute)
    (ψ : n → ℂ) (dt T t0 q : ℝ) (k : ℕ) (cb : Bool)
    (hq : |q - (k : ℤ)| < 1e-9) (hk : (k : ℝ) * dt = T - t0) :
    (execute (fun v => (mtrotter ((dt : ℂ) / 2) hs).mulVec v) id cb (nstepsR q).toNat ψ).1
      = (mprop ((T - t0 : ℝ) : ℂ) hs.sum).mulVec ψ := by
  rw [T16_trotter_commuting _ hs hc]
  exact T16_exp_evolution hs.sum ψ dt T t0 q k cb hq hk

/-- the hypotheses are satisfiable: `T = 0.3`, `dt = 0.1`, and the quotient computed in
binary64 (`2.9999999999999996`). -/
example : ∃ (dt T t0 q : ℝ) (k : ℕ), |q - (k : ℤ)| < 1e-9 ∧ (k : ℝ) * dt = T - t0 ∧ q ≠ k :=
  ⟨0.1, 0.3, 0, 2.9999999999999996, 3, by norm_num [abs_lt], by norm_num, by norm_num⟩

/-- **Step count.**  Whenever the computed quotient is within `1e-9` of an integer, that
integer is the number of steps … -/
theorem T16_nsteps (q : ℝ) (k : ℤ) (h : |q - k| < 1e-9) : nstepsR q = k :=
  nstepsR_of_near h

/-- … and otherwise the quotient is truncated. -/
theorem T16_nsteps_truncates (q : ℝ) (h : 1e-9 ≤ |q - round q|) : nstepsR q = ⌊q⌋ :=
  nstepsR_of_far h

/-- **Rounding model.**  If `T - t0 = k dt` exactly and the computed quotient carries a
relative error of at most `2⁻⁵⁰` (a subtraction and a division in binary64 give `≤ 2⁻⁵²·(2+ε)`)
then up to `k = 2²⁰` steps the count is exact. -/
theorem T16_nsteps_rounding (k : ℕ) (δ : ℝ) (hk : k ≤ 2 ^ 20) (hδ : |δ| ≤ 1 / 2 ^ 50) :
    nstepsR ((k : ℝ) * (1 + δ)) = k := by
  have h : |(k : ℝ) * (1 + δ) - ((k : ℤ) : ℝ)| < 1e-9 := by
    have e : (k : ℝ) * (1 + δ) - ((k : ℤ) : ℝ) = (k : ℝ) * δ := by push_cast; ring
    rw [e, abs_mul, abs_of_nonneg (Nat.cast_nonneg k)]
    have hk' : (k : ℝ) ≤ 2 ^ 20 := by exact_mod_cast hk
    calc (k : ℝ) * |δ| ≤ 2 ^ 20 * (1 / 2 ^ 50) :=
          mul_le_mul hk' hδ (abs_nonneg δ) (by positivity)
      _ < 1e-9 := by norm_num
  exact_mod_cast nstepsR_of_near h

/-- **IEEE witness of the original defect** (DESIGN §4 F22): in binary64 `0.3 / 0.1`
truncates to 2 … -/
theorem T16_nsteps_legacy_witness : nstepsLegacyF 0.3 0.0 0.1 = 2 := by decide +kernel

/-- … and the repaired formula, evaluated in the same arithmetic, gives 3 (and still truncates
a genuine non-multiple). -/
theorem T16_nsteps_float_witness :
    nstepsF 0.3 0.0 0.1 = 3 ∧ nstepsF 0.7 0.0 0.1 = 7 ∧ nstepsF 0.6 0.0 0.2 = 3
      ∧ nstepsF 0.35 0.0 0.05 = 7 ∧ nstepsF 0.25 0.0 0.1 = 2 := by decide +kernel

/-! ### Runge–Kutta -/

section rk
variable {M : Type*} [AddCommGroup M] [Module ℂ M]

/-- **One RK4 step for a constant Hamiltonian is the degree-4 Taylor polynomial of
`exp(-i dt H)`** applied to the state (`iterA H dt k ψ = (-i dt H)^k ψ`): local error `dt⁵`,
i.e. the stated order 4.  `H` is any linear operator on any complex vector space. -/
theorem T16_rk4_taylor (H : M →ₗ[ℂ] M) (dt : ℂ) (ψ : M) :
    rk4Step H H H dt ψ = ψ + iterA H dt 1 ψ + (1 / 2 : ℂ) • iterA H dt 2 ψ
      + (1 / 6 : ℂ) • iterA H dt 3 ψ + (1 / 24 : ℂ) • iterA H dt 4 ψ :=
  rk4Step_taylor H dt ψ

/-- **One RK45 (Fehlberg) step is the degree-5 Taylor polynomial plus `(-i dt H)⁶ / 2080`**:
local error `dt⁶`, the stated order 5. -/
theorem T16_rk45_taylor (H : M →ₗ[ℂ] M) (dt : ℂ) (ψ : M) :
    rk45Step H dt ψ = ψ + iterA H dt 1 ψ + (1 / 2 : ℂ) • iterA H dt 2 ψ
      + (1 / 6 : ℂ) • iterA H dt 3 ψ + (1 / 24 : ℂ) • iterA H dt 4 ψ
      + (1 / 120 : ℂ) • iterA H dt 5 ψ + (1 / 2080 : ℂ) • iterA H dt 6 ψ :=
  rk45Step_taylor H dt ψ

end rk

/-- **Negation witness** for the stages as qibo had them (`state + dt k / 2` without the
factor `-i`): already for `H = 1`, `dt = 1` on a one-dimensional space the step is not the
Taylor polynomial (it is only first-order accurate). -/
theorem T16_rk4_legacy_witness :
    rk4StepLegacy (LinearMap.id : ℂ →ₗ[ℂ] ℂ) LinearMap.id LinearMap.id 1 1
      ≠ 1 + iterA (LinearMap.id : ℂ →ₗ[ℂ] ℂ) 1 1 1 + (1 / 2 : ℂ) • iterA LinearMap.id 1 2 1
        + (1 / 6 : ℂ) • iterA LinearMap.id 1 3 1 + (1 / 24 : ℂ) • iterA LinearMap.id 1 4 1 :=
  rk4StepLegacy_ne_taylor

end QV.Props.C16
