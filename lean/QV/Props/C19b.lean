/-
  C19 (part 2) — both noisy simulation modes agree.
  Model: QV/Model/Noise.lean — `runTape` / `tapeProb` / `tapes` (`UnitaryChannel.apply` →
  `NumpyBackend.apply_channel`: one sampled index per channel met, probabilities
  `coefficients + (1 - sum,)`), `runQueueDM` (`apply_channel_density_matrix` of
  QV/Model/Channels.lean and `ρ ↦ GρG†` of QV/Model/Sim.lean).

  Scalars: any commutative ring with a conjugation `conj` that is additive and multiplicative
  (e.g. `star` on ℂ); no register size, any queue length, any operator lists, any
  coefficients (they need not even be probabilities).
-/
import Mathlib.Algebra.Star.Basic
import QV.Proofs.NoiseTraj
namespace QV.Props.C19
open QV QV.Noise

variable {α : Type} [CommRing α]

/-- **trajectory theorem.**  For a queue of unitary gates and unitary-mixture channels, the
probability-weighted sum, over ALL choices of the sampled indices, of the projectors
`|ψ_τ⟩⟨ψ_τ|` of the state-vector runs equals the density-matrix execution of the same queue
started from `|ψ⟩⟨ψ|`.  (So the mean of i.i.d. state-vector shots has the density-matrix
result as its expectation; the law of large numbers is not formalised.) -/
theorem T19_trajectory_mean (conj : α → α) (hadd : ∀ a b, conj (a + b) = conj a + conj b)
    (hmul : ∀ a b, conj (a * b) = conj a * conj b) (q : List (QItem α)) (ψ : Lab → α) :
    trajectoryMean conj q ψ = runQueueDM conj q (fun x y => ψ x * conj (ψ y)) := by
  rw [trajectoryMean_eq]
  exact meanFrom_eq_runQueueDM conj hadd hmul q ψ

/-- the hypotheses on `conj` hold for `star` of every commutative star ring (ℂ). -/
theorem T19_trajectory_mean_star {β : Type} [CommRing β] [StarRing β] (q : List (QItem β))
    (ψ : Lab → β) :
    trajectoryMean star q ψ = runQueueDM star q (fun x y => ψ x * star (ψ y)) :=
  T19_trajectory_mean star star_add star_mul' q ψ

/-- **measured statistics**: the expected one-shot outcome distribution of the state-vector
mode, `Σ_τ P(τ)·|ψ_τ(x)|²`, is the diagonal of the density-matrix result. -/
theorem T19_outcome_distribution (conj : α → α) (hadd : ∀ a b, conj (a + b) = conj a + conj b)
    (hmul : ∀ a b, conj (a * b) = conj a * conj b) (q : List (QItem α)) (ψ : Lab → α) (x : Lab) :
    ((tapes q).map fun τ => tapeProb q τ * (runTape q τ ψ x * conj (runTape q τ ψ x))).sum
      = runQueueDM conj q (fun x y => ψ x * conj (ψ y)) x x := by
  rw [← meanFrom_eq_runQueueDM conj hadd hmul q ψ]
  rfl

/-- **the tape probabilities sum to one** for every queue and all coefficients: the vector
`coefficients + (1 - sum,)` handed to the sampler is normalised by construction. -/
theorem T19_tape_prob_total (q : List (QItem α)) : ((tapes q).map (tapeProb q)).sum = 1 := by
  induction q with
  | nil => simp [tapes, tapeProb]
  | cons it q ih =>
    cases it with
    | gate g => simpa [tapes, tapeProb] using ih
    | mix ops =>
      simp only [tapes, List.map_flatMap, List.map_map, Function.comp_def, tapeProb]
      rw [sum_flatMap']
      have : ∀ i, ((tapes q).map fun τ => choiceProb ops i * tapeProb q τ).sum = choiceProb ops i := by
        intro i
        rw [List.sum_map_mul_left, ih, mul_one]
      simp only [this]
      simp only [choiceProb]
      rw [sum_range_getElem? ops (optProb ops)]
      simp only [optProb, coeffSum, foldl_add_eq_sum]
      ring

/-- a queue without channels has exactly one trajectory, the ordinary execution. -/
theorem T19_noiseless (gs : List (MGate α)) (ψ : Lab → α) :
    tapes (gs.map QItem.gate) = [[]] ∧ runTape (gs.map QItem.gate) [] ψ = runCircuit gs ψ ∧
      tapeProb (gs.map QItem.gate) [] = 1 := by
  induction gs generalizing ψ with
  | nil => exact ⟨rfl, rfl, rfl⟩
  | cons g gs ih =>
    obtain ⟨h1, h2, h3⟩ := ih (applyGate g ψ)
    refine ⟨by simpa [tapes] using h1, ?_, by simpa [tapeProb] using h3⟩
    simp only [List.map_cons, runTape]
    rw [h2]; rfl

/-- **zero-strength noise changes nothing (density-matrix mode)**: a mixture whose
coefficients are all zero acts as the identity. -/
theorem T19_zero_mixture_dm (conj : α → α) (ops : List (α × MGate α)) (h0 : ∀ t ∈ ops, t.1 = 0)
    (ρ : DM α) : runQueueDM conj [QItem.mix ops] ρ = ρ := by
  rw [runQueueDM_cons, runQueueDM_nil]
  funext x y
  show applyChannelDM conj (chanOf ops) ρ x y = ρ x y
  rw [chanOf_apply]
  have hs : coeffSum ops = 0 := by
    unfold coeffSum
    rw [foldl_add_eq_sum]
    apply List.sum_eq_zero
    intro a ha
    obtain ⟨t, ht, rfl⟩ := List.mem_map.mp ha
    exact h0 t ht
  have hz : (ops.map fun t => t.1 * applyGateDM conj t.2 ρ x y).sum = 0 := by
    apply List.sum_eq_zero
    intro a ha
    obtain ⟨t, ht, rfl⟩ := List.mem_map.mp ha
    rw [h0 t ht, zero_mul]
  rw [hs, hz]; ring

/-- **zero-strength noise changes nothing (state-vector mode)**: every index that applies an
operator has probability 0 and the index that applies nothing has probability 1. -/
theorem T19_zero_mixture_sv (ops : List (α × MGate α)) (h0 : ∀ t ∈ ops, t.1 = 0) (ψ : Lab → α) :
    (∀ i, i < ops.length → choiceProb ops i = 0) ∧ choiceProb ops ops.length = 1 ∧
      applyChoice ops ops.length ψ = ψ := by
  have hs : coeffSum ops = 0 := by
    unfold coeffSum
    rw [foldl_add_eq_sum]
    apply List.sum_eq_zero
    intro a ha
    obtain ⟨t, ht, rfl⟩ := List.mem_map.mp ha
    exact h0 t ht
  refine ⟨?_, ?_, ?_⟩
  · intro i hi
    simp only [choiceProb, List.getElem?_eq_getElem hi, optProb]
    exact h0 _ (List.getElem_mem hi)
  · simp [choiceProb, optProb, hs]
  · simp [applyChoice, optApply]

/-! ### non-vacuity: a bit-flip channel over ℤ (conj = id) -/

private def Xm : Nat → Nat → Int := fun i j => if i + j = 1 then 1 else 0
private def gX0 : MGate Int := { mat := Xm, targets := [0] }
/-- X then a "channel" that flips with weight 3 (and does nothing with weight 1 - 3). -/
private def q₀ : List (QItem Int) := [.gate gX0, .mix [(3, gX0)]]

example : tapes q₀ = [[0], [1]] := by decide
example : tapeProb q₀ [0] = 3 ∧ tapeProb q₀ [1] = -2 := by decide

/-- entry (|0⟩,|0⟩) of both modes from |0⟩: the flipped trajectory carries weight 3. -/
example : trajectoryMean id q₀ (fun x => if x 0 then 0 else 1) (fun _ => false) (fun _ => false) = 3
    ∧ runQueueDM id q₀ (fun x y => if x 0 || y 0 then 0 else 1) (fun _ => false) (fun _ => false) = 3 := by
  decide

end QV.Props.C19
