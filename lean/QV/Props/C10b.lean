/-
  C10b — the table-entry obligations meet the phase theorems of C10.

  `QV/Props/C10.lean` proves `T10_gate_phase` / `T10_circuit_phase` from the hypothesis
  `TablesOK P sem T` ("every call of every table reproduces the gate up to a scalar of `P`")
  about the simulator model; the generated obligations `C10_entry_*`, `C10_tr_*`
  (`QV/Gen/C10_Ob*.lean`) are kernel-decided statements about traced expression matrices.
  `QV/Proofs/Bridge.lean` proves that both speak about the same operators.  Here:

    * `T10_entry_phaseEq_of_obligation` : a checked obligation is, for all parameter values,
      a `PhaseEq` over the unit circle between the traced list and the traced gate — the
      conclusion `TablesOK` asks of one table call, at the template placement
    * `semOf`, `T10_semOf_natural`, `T10_entry_of_obligation` : SHAPE OF THE INSTANTIATION — the
      semantics `sem` of C10 is given by a family of local matrices `M cls tag` (the opaque tag of
      the dispatch model stands for the parameter values); an entry whose emitted gates and key
      gate are read by `M` as the traced matrices at `θ` satisfies `TablesOK`'s conclusion
    * `T10_call_phase_placed` : … and then on every placement of the gate (via `T10_call_placement`)
    * `T10_tablesOK_on_placed` : GENERAL LEMMA — if every table call on the template gates `K`
      is correct up to phase, every table call on a placed template gate (or a `controlled_by`
      gate, returned as is) is
    * `T10_tablesOK_of_calls` : `TablesOK` itself reduces to the calls on gates without
      `controlled_by` controls.
  `TablesOK` as defined in QV/Proofs/Unroller.lean quantifies over ALL `UGate`s, including
  gates with repeated qubits, for which no table is correct; what the obligations give is the
  relativised statement `T10_tablesOK_on_placed` (see the report of this file's author).
-/
import QV.Props.C10
import QV.Proofs.Bridge
set_option linter.unusedSectionVars false
namespace QV.Props.C10
open QV QV.Unroll

/-- "the traced list implements the traced gate up to a unit-modulus scalar, for all parameter
    values": what one generated entry obligation says about the simulator model. -/
def EntryPhaseEq (o : Ob) : Prop :=
  ∀ θ : Nat → ℝ, PhaseEq unitPhases (o.ls.map (SGate.toMGate θ)) [o.refGate.toMGate θ]

theorem T10_entryPhaseEq_of_single (o : Ob) (h : o.SingleStmt) : EntryPhaseEq o := by
  intro θ
  obtain ⟨c, hc, _, he⟩ := h θ
  exact ⟨c, hc, he⟩

/-- any checked obligation (any number of gates on the right) as a `PhaseEq` over the unit
    circle: the form in which C10 compares gate lists. -/
theorem T10_phaseEq_of_check (o : Ob) (hwf : o.wf = true) (h : o.check = true) (θ : Nat → ℝ) :
    PhaseEq unitPhases (o.ls.map (SGate.toMGate θ)) (o.rs.map (SGate.toMGate θ)) := by
  obtain ⟨c, hc, _, he⟩ := Ob.check_run o hwf h θ
  exact ⟨c, hc, he⟩

/-- a checked entry obligation gives the conclusion of `TablesOK` for that entry at the
    template placement, for all parameter values. -/
theorem T10_entry_phaseEq_of_obligation (o : Ob) (hs : o.singleShape = true)
    (h : o.check = true) : EntryPhaseEq o :=
  T10_entryPhaseEq_of_single o (Ob.singleStmt_of_check o hs h)

/-! ### shape of the instantiation of `sem` -/

/-- the semantics of dispatch-level gates given by a family of local matrices: class and tag
    (= parameter values) choose the matrix, the gate's qubits are its ordered targets. -/
def semOf (M : Nat → Nat → Nat → Nat → ℂ) : UGate → MGate ℂ :=
  fun u => { mat := M u.cls u.tag, targets := u.qubits }

/-- `semOf` is natural in the placement (the hypothesis `hsem` of `T10_placement_phase`). -/
theorem T10_semOf_natural (M : Nat → Nat → Nat → Nat → ℂ) (σ : Nat → Nat) (x : UGate) :
    semOf M (x.relabel σ) = (semOf M x).relabel σ := by
  simp [semOf, MGate.relabel, UGate.relabel]

/-- one entry: if `M` reads the key gate `g0` and the emitted gates `d0` as the traced matrices
    of the obligation at `θ`, the entry satisfies the conclusion of `TablesOK`. -/
theorem T10_entry_of_obligation (o : Ob) (ho : EntryPhaseEq o) (θ : Nat → ℝ)
    (M : Nat → Nat → Nat → Nat → ℂ) (g0 : UGate) (d0 : List UGate)
    (hd : d0.map (semOf M) = o.ls.map (SGate.toMGate θ))
    (hg : semOf M g0 = o.refGate.toMGate θ) :
    PhaseEq unitPhases (d0.map (semOf M)) [semOf M g0] := by
  rw [hd, hg]
  exact ho θ

/-! ### from the template placement to every placement -/

section Placed
variable {α : Type} [CommSemiring α]

/-- a table call that is correct up to phase on the template gate `g0` is correct up to the same
    phase on `g0` placed anywhere (σ a relabelling with inverse τ), on every state. -/
theorem T10_call_phase_placed (P : Submonoid α) (sem : UGate → MGate α)
    (hsem : ∀ (σ : Nat → Nat) (x : UGate), sem (x.relabel σ) = (sem x).relabel σ)
    (σ τ : Nat → Nat) (hστ : ∀ q, σ (τ q) = q) (hτσ : ∀ q, τ (σ q) = q)
    (t : Table) (g0 : UGate) (d0 : List UGate) (h0 : t.call g0 = some d0)
    (hph : PhaseEq P (d0.map sem) [sem g0]) (d : List UGate)
    (hd : t.call (g0.relabel σ) = some d) :
    PhaseEq P (d.map sem) [sem (g0.relabel σ)] := by
  rw [T10_call_placement σ t g0, h0] at hd
  simp only [Option.map_some, Option.some.injEq] at hd
  subst hd
  have hσ : Function.Injective σ := fun a b e => by
    have := congrArg τ e
    rwa [hτσ, hτσ] at this
  obtain ⟨c, hc, e⟩ := T10_placement_phase P sem σ hσ (hsem σ) g0 d0 hph
  refine ⟨c, hc, fun φ y => ?_⟩
  have hφ : (fun y => (fun x => φ (C05.pull τ x)) (C05.pull σ y)) = φ := by
    funext y
    show φ (fun r => y (σ (τ r))) = φ y
    simp only [hστ]
  have := e (fun x => φ (C05.pull τ x)) y
  rwa [hφ] at this

/-- the gates on which the obligations speak: `controlled_by` gates (returned unchanged) and
    template gates of `K` moved by a relabelling of the qubits. -/
def Placed (K : UGate → Prop) (g : UGate) : Prop :=
  g.cb = true ∨ ∃ (g0 : UGate) (σ τ : Nat → Nat),
    K g0 ∧ (∀ q, σ (τ q) = q) ∧ (∀ q, τ (σ q) = q) ∧ g = g0.relabel σ

/-- **general lemma**: if every call of every table on the template gates `K` is correct up to
    a phase, then so is every call on every placed gate — the conclusion of `TablesOK`
    relativised to `Placed K`. -/
theorem T10_tablesOK_on_placed (P : Submonoid α) (sem : UGate → MGate α)
    (hsem : ∀ (σ : Nat → Nat) (x : UGate), sem (x.relabel σ) = (sem x).relabel σ)
    (T : Tables) (K : UGate → Prop)
    (hK : ∀ t ∈ [T.gpi2, T.u3, T.cz, T.iswap, T.opt, T.cnot], ∀ g0, K g0 → ∀ d0,
      Table.call t g0 = some d0 → PhaseEq P (d0.map sem) [sem g0]) :
    ∀ t ∈ [T.gpi2, T.u3, T.cz, T.iswap, T.opt, T.cnot], ∀ g, Placed K g → ∀ d,
      Table.call t g = some d → PhaseEq P (d.map sem) [sem g] := by
  intro t ht g hg d hd
  rcases hg with hcb | ⟨g0, σ, τ, hk, h1, h2, rfl⟩
  · have : d = [g] := by
      simp only [Table.call, hcb, if_true, Option.some.injEq] at hd
      exact hd.symm
    subst this
    exact PhaseEq.refl P _
  · cases h0 : Table.call t g0 with
    | none =>
      rw [T10_call_placement σ t g0, h0] at hd
      cases hd
    | some d0 =>
      exact T10_call_phase_placed P sem hsem σ τ h1 h2 t g0 d0 h0 (hK t ht g0 hk d0 h0) d hd

/-- `TablesOK` reduces to the calls on gates without `controlled_by` controls. -/
theorem T10_tablesOK_of_calls (P : Submonoid α) (sem : UGate → MGate α) (T : Tables)
    (h : ∀ t ∈ [T.gpi2, T.u3, T.cz, T.iswap, T.opt, T.cnot], ∀ g d, g.cb = false →
      Table.call t g = some d → PhaseEq P (d.map sem) [sem g]) : TablesOK P sem T := by
  intro t ht g d hd
  cases hcb : g.cb with
  | false => exact h t ht g d hcb hd
  | true =>
    have : d = [g] := by
      simp only [Table.call, hcb, if_true, Option.some.injEq] at hd
      exact hd.symm
    subst this
    exact PhaseEq.refl P _

end Placed

/-! ### non-vacuity -/

/-- written by hand in the generated format: the `u3_dec` entry for `Z`, `Z ↦ [U3(0, 0, π)]`,
    i.e. `diag(1, -1) = e^{iπ/2} · diag(e^{-iπ/2}, e^{iπ/2})` (phase mode). -/
def demoEntry : Ob :=
  { np := 0, n := 1,
    ls := [{ mat := [[.exp (.neg (.mul .I (.div .pi (.rat 2 1)))), .rat 0 1],
                     [.rat 0 1, .exp (.mul .I (.div .pi (.rat 2 1)))]], targets := [0] }],
    rs := [{ mat := [[.rat 1 1, .rat 0 1], [.rat 0 1, .rat (-1) 1]], targets := [0] }],
    mode := .phase }

theorem demoEntry_check : demoEntry.check = true := by decide +kernel
theorem demoEntry_shape : demoEntry.singleShape = true := by decide +kernel

example : EntryPhaseEq demoEntry :=
  T10_entry_phaseEq_of_obligation demoEntry demoEntry_shape demoEntry_check

/-- the instantiation for this entry: class 1 (`Z`) is read as the traced `Z` matrix, class 5
    (`U3`) with tag 7 as the traced `U3(0,0,π)` matrix; the table call `Z(q) ↦ [U3(q)]` then
    satisfies the conclusion of `TablesOK` on the template qubit … -/
example (θ : Nat → ℝ) :
    let M : Nat → Nat → Nat → Nat → ℂ := fun cls _ =>
      if cls = 1 then (demoEntry.refGate).locMat θ else (demoEntry.ls.headD default).locMat θ
    PhaseEq unitPhases ([(⟨5, [0], 7, false⟩ : UGate)].map (semOf M)) [semOf M ⟨1, [0], 0, false⟩] := by
  intro M
  exact T10_entry_of_obligation demoEntry
    (T10_entry_phaseEq_of_obligation demoEntry demoEntry_shape demoEntry_check) θ M
    ⟨1, [0], 0, false⟩ [⟨5, [0], 7, false⟩] rfl rfl

/-- … and hence wherever the gate is placed (qubit 3 here), through a one-entry table. -/
example (θ : Nat → ℝ) :
    let M : Nat → Nat → Nat → Nat → ℂ := fun cls _ =>
      if cls = 1 then (demoEntry.refGate).locMat θ else (demoEntry.ls.headD default).locMat θ
    let t : Table := ⟨fun c => c == 1, fun _ _ => some [⟨5, [0], 7, false⟩]⟩
    let sw : Nat → Nat := fun q => if q = 0 then 3 else if q = 3 then 0 else q
    ∀ d, t.call ((⟨1, [0], 0, false⟩ : UGate).relabel sw) = some d →
      PhaseEq unitPhases (d.map (semOf M)) [semOf M ((⟨1, [0], 0, false⟩ : UGate).relabel sw)] := by
  intro M t sw d hd
  have hsw : ∀ q, sw (sw q) = q := by
    intro q
    simp only [sw]
    by_cases h0 : q = 0
    · subst h0; simp
    · by_cases h3 : q = 3
      · subst h3; simp
      · simp [h0, h3]
  refine T10_call_phase_placed unitPhases (semOf M) (T10_semOf_natural M) sw sw hsw hsw t
    ⟨1, [0], 0, false⟩ [⟨5, [0], 7, false⟩] (by decide) ?_ d hd
  exact T10_entry_of_obligation demoEntry
    (T10_entry_phaseEq_of_obligation demoEntry demoEntry_shape demoEntry_check) θ M
    ⟨1, [0], 0, false⟩ [⟨5, [0], 7, false⟩] rfl rfl

end QV.Props.C10
