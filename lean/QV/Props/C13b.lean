/-
  C13 (custom gates) — the reader's expansion of `gate` definitions is inlining by
  substitution.  Model: `QV.Model.QasmDef` (`_get_gate`, `_def_gate`,
  `CustomQASMGate.get_gate`, `_construct_fused_gate`, `FusedGate.append`), compared with
  `QASMParser.to_circuit` on every run (driver command XPD, tools/props/C13_defs.py).
-/
import QV.Proofs.QasmDef
import QV.Proofs.Qasm
import QV.Props.C13

namespace QV.Props.C13
open QV.QasmDef

/-- For EVERY program (any number of definitions, any nesting depth, redefinitions,
definitions named like built-in gates, unused or repeated formals) whose definition
bodies use only their own formal parameters as identifiers: if the reader accepts the
program, the gates it hands to `Circuit.add`, flattened, are exactly what text-level
inlining gives — each call of a defined gate replaced by its body with the actual qubits
and arguments substituted, read under the definitions that preceded it. -/
theorem T13_expand_is_inlining {ν : Type} (B : Builtins) (prog : List (Stmt ν))
    (hs : ∀ d ∈ progDefs prog, d.scoped = true) (gs : List (SG ν))
    (h : run B [] prog = some gs) : inlineProg B [] prog = some (flatten gs) :=
  run_inline B [] [] Rep.nil (by intro d hd; cases hd) prog hs gs h

/-- the same at any point of the statement loop: for the `defined_gates` the reader has
built from the definitions `ds` read so far -/
theorem T13_expand_call {ν : Type} (B : Builtins) (env : List (String × Stored ν))
    (ds : List (Def ν)) (hr : Rep B env ds) (hs : ∀ d ∈ ds, d.scoped = true)
    (c : Call ν) (g : SG ν) (h : getGate B env c = some g) :
    inline B ds c = some g.flat :=
  getGate_inline B env ds hr hs c g h

/-- SUBSTITUTION LEMMA: inlining a call whose operands were substituted (the call occurs
in the body of an enclosing definition and the enclosing call supplies `qm`, `am`) equals
substituting into the inlined gates — for every list of definitions, by induction on its
length (= nesting depth). -/
theorem T13_expand_substitution {ν : Type} (B : Builtins) (ds : List (Def ν))
    (hs : ∀ d ∈ ds, d.scoped = true) (qm : List (String × QArg)) (am : List (String × Arg ν))
    (c c' : Call ν) (h : substCall qm am c = some c') :
    inline B ds c' = (inline B ds c).bind (compileAll qm am) :=
  inline_subst B ds hs qm am c c' h

/-- a statement with a built-in name is read as that class whatever `defined_gates`
contains: user definitions cannot capture the names the writer emits, and a program
without definitions (the writer never emits one) is read statement by statement -/
theorem T13_expand_builtin_identity {ν : Type} (B : Builtins) (env : List (String × Stored ν))
    (cs : List (Call ν))
    (h : ∀ c ∈ cs, ∃ cls, B.cls c.name = some cls ∧ B.ctorOk cls (c.qs.length + c.args.length) = true) :
    run B env (cs.map Stmt.call)
      = some (cs.map fun c => SG.prim ⟨(B.cls c.name).getD "", c.qs, c.args⟩) := by
  induction cs with
  | nil => rfl
  | cons c cs ih =>
    obtain ⟨cls, h1, h2⟩ := h c (by simp)
    simp [run, getGate, h1, h2, ih fun c' hc' => h c' (by simp [hc'])]

/-- the gate statements of the writer's text: label, parameter tokens, `q[i]` operands -/
def callOfGate (g : QV.Qasm.GateS) : Call String :=
  ⟨g.label, g.params.map Arg.val, g.qubits.map QArg.idx⟩

/-- the writer's output never needs definitions: for every well-formed circuit skeleton
whose labels are built-in names with accepted arities, the reader run on the writer's
lines resolves the gate statements to the circuit's own gates (T13_qasm_roundtrip) and
`_get_gate` turns each into the plain gate of its class, whatever definitions are around -/
theorem T13_writer_needs_no_definitions (B : Builtins) (env : List (String × Stored String))
    (c : QV.Qasm.Circ) (hw : c.wf = true)
    (hl : ∀ g ∈ c.gates, ∃ cls, B.cls g.label = some cls
      ∧ B.ctorOk cls (g.qubits.length + g.params.length) = true) :
    ∃ c', QV.Qasm.importLines (QV.Qasm.exportLines c) = some c'
      ∧ run B env (c'.gates.map fun g => Stmt.call (callOfGate g))
        = some (c.gates.map fun g => SG.prim ⟨(B.cls g.label).getD "", g.qubits.map QArg.idx,
            g.params.map Arg.val⟩) := by
  refine ⟨c, T13_qasm_roundtrip c hw, ?_⟩
  have := T13_expand_builtin_identity B env (c.gates.map callOfGate) (by
    intro x hx
    obtain ⟨g, hg, rfl⟩ := List.mem_map.1 hx
    obtain ⟨cls, h1, h2⟩ := hl g hg
    exact ⟨cls, h1, by simpa [callOfGate] using h2⟩)
  simpa [List.map_map, Function.comp_def, callOfGate] using this

/-- a fused gate built for a call of a defined gate is flat (its gates are plain gates —
by construction of `Fused`) and its joined qubits contain the call's qubits and the
qubits of every gate inside: what `FusedGate.matrix` and `Circuit.add` rely on -/
theorem T13_expand_fused_covers {ν : Type} (B : Builtins) (env : List (String × Stored ν))
    (c : Call ν) (f : Fused ν) (h : getGate B env c = some (.fused f)) :
    (∃ more, f.qs = c.qs ++ more) ∧ ∀ p ∈ f.gates, ∀ q ∈ p.qs, q ∈ f.qs := by
  refine ⟨by simpa [SG.headQs] using getGate_headQs B env c _ h, ?_⟩
  simp only [getGate] at h
  cases hb : B.cls c.name with
  | some cls => simp only [hb] at h; split at h <;> cases h
  | none =>
    simp only [hb] at h
    cases hd : dictGet env c.name with
    | none => simp [hd] at h
    | some st =>
      simp only [hd] at h
      cases hg : st.getGate c.qs c.args with
      | none => simp [hg] at h
      | some f' =>
        simp only [hg, Option.some.injEq, SG.fused.injEq] at h
        subst h
        simp only [Stored.getGate] at hg
        split at hg
        · cases hg
        · split at hg
          · cases hg
          · exact construct_covers _ _ _ _ _ hg (by intro p hp; cases hp)

/-! ### non-vacuity and the limits of the statements -/

def B0 : Builtins :=
  { cls := fun nm => if nm = "rx" then some "RX" else if nm = "cx" then some "CNOT"
      else if nm = "h" then some "H" else none,
    ctorOk := fun c k => if c = "RX" then k == 2 || k == 3 else if c = "CNOT" then k == 2 else k == 1 }

/-- nested definitions, a redefinition (early binding: `blk` keeps the first `my0`), a
definition named like a built-in gate (ignored), an unused formal qubit -/
def exProg : List (Stmt Nat) :=
  [.gdef ⟨"my0", ["t"], ["a", "b"], [⟨"rx", [.sym "t"], [.name "b"]⟩, ⟨"cx", [], [.name "b", .name "a"]⟩]⟩,
   .gdef ⟨"blk", ["x", "t"], ["c", "a", "u"], [⟨"my0", [.sym "x"], [.name "a", .name "c"]⟩, ⟨"rx", [.sym "t"], [.name "a"]⟩]⟩,
   .gdef ⟨"my0", ["t"], ["a", "b"], [⟨"h", [], [.name "a"]⟩]⟩,
   .gdef ⟨"h", [], ["a"], [⟨"rx", [.val 9], [.name "a"]⟩]⟩,
   .call ⟨"blk", [.val 5, .val 7], [.idx 2, .idx 0, .idx 1]⟩,
   .call ⟨"my0", [.val 1], [.idx 1, .idx 2]⟩,
   .call ⟨"h", [], [.idx 0]⟩]

example : (∀ d ∈ progDefs exProg, d.scoped = true) ∧ (run B0 [] exProg).isSome = true := by decide
example : (run B0 [] exProg).map flatten
    = some [⟨"RX", [.idx 2], [.val 5]⟩, ⟨"CNOT", [.idx 2, .idx 0], []⟩, ⟨"RX", [.idx 0], [.val 7]⟩,
            ⟨"H", [.idx 1], []⟩, ⟨"H", [.idx 0], []⟩] := by decide
example : inlineProg B0 [] exProg = (run B0 [] exProg).map flatten := by decide

/-- the scoping hypothesis is needed: an identifier in a body that is not a formal
parameter is captured by an enclosing definition's formal of the same name — the reader
substitutes it (value 3), text-level inlining leaves it alone -/
def exCapture : List (Stmt Nat) :=
  [.gdef ⟨"my0", ["t"], ["a"], [⟨"rx", [.sym "foo"], [.name "a"]⟩]⟩,
   .gdef ⟨"my1", ["foo"], ["a"], [⟨"my0", [.sym "foo"], [.name "a"]⟩]⟩,
   .call ⟨"my1", [.val 3], [.idx 0]⟩]

theorem T13_expand_capture_witness :
    (run B0 [] exCapture).map flatten = some [⟨"RX", [.idx 0], [.val 3]⟩]
      ∧ inlineProg B0 [] exCapture = some [⟨"RX", [.idx 0], [.sym "foo"]⟩] := by decide

/-- the reader is stricter than inlining: a definition that is never called but whose body
cannot be built (here: an undefined name) makes the reader refuse the program -/
example : run B0 [] ([.gdef ⟨"bad", [], ["a"], [⟨"nodef", [], [.name "a"]⟩]⟩, .call ⟨"h", [], [.idx 0]⟩] : List (Stmt Nat)) = none
    ∧ inlineProg B0 [] ([.gdef ⟨"bad", [], ["a"], [⟨"nodef", [], [.name "a"]⟩]⟩, .call ⟨"h", [], [.idx 0]⟩] : List (Stmt Nat))
      = some [⟨"H", [.idx 0], []⟩] := by decide

example : ∃ c', substCall [("a", QArg.idx 4)] [("t", Arg.val 2)] (⟨"rx", [.sym "t"], [.name "a"]⟩ : Call Nat) = some c' :=
  ⟨_, rfl⟩

end QV.Props.C13
