/-
  C13 (results built from measurement gates) — dump / load of `MeasurementOutcomes` with
  the samples held by the gates.  Model: `QV.Model.SerialGates`, compared with result.py on
  every run (driver command RESG, tools/props/C13_results.py).
-/
import QV.Model.SerialGates
import Mathlib.Tactic.Common

namespace QV.Props.C13
open QV.SerialGates

/-- what the constructors establish and the accessors keep: samples of the object are the
ones registered on the gates, and stored frequencies are the count of stored samples -/
def GInv {S F : Type} (o : Oracle S F) (r : Res S F) : Prop :=
  (∀ s, r.samples = some s → r.gates = some s)
    ∧ (∀ s f, r.samples = some s → r.freqs = some f → f = o.count s)

theorem ginv_stepS {S F : Type} (o : Oracle S F) (hexp : ∀ f t, o.count (o.expand f t) = f)
    (r : Res S F) (h : GInv o r) : GInv o (r.stepS o) := by
  obtain ⟨h1, h2⟩ := h
  unfold Res.stepS
  cases hs : r.samples with
  | some s => exact ⟨h1, h2⟩
  | none =>
    by_cases hg : r.fromGates = true
    · simp only [hg, if_true]
      have hf : r.freqs = none := by
        simp only [Res.fromGates, Bool.and_eq_true, Option.isNone_iff_eq_none] at hg; exact hg.2
      refine ⟨fun s h => h, fun s f _ hf' => ?_⟩
      simp [hf] at hf'
    · have hg' : r.fromGates = false := by simpa using hg
      simp only [hg', Bool.false_eq_true, if_false]
      cases hf : r.freqs with
      | some f =>
        refine ⟨fun s h => by simpa using h, fun s f' hs' hf' => ?_⟩
        simp only [Option.some.injEq] at hs' hf'
        subst hs'; subst hf'; exact (hexp _ _).symm
      | none =>
        refine ⟨fun s h => by simpa using h, fun s f' _ hf' => ?_⟩
        simp [hf] at hf'

theorem ginv_stepF {S F : Type} (o : Oracle S F) (hexp : ∀ f t, o.count (o.expand f t) = f)
    (r : Res S F) (h : GInv o r) : GInv o (r.stepF o) := by
  unfold Res.stepF
  cases hf : r.freqs with
  | some f => exact h
  | none =>
    by_cases hh : r.hasSamples = true
    · simp only [hh, if_true]
      obtain ⟨k1, _⟩ := ginv_stepS o hexp r h
      refine ⟨k1, fun s f hs hf' => ?_⟩
      simp only at hs hf'
      rw [hs] at hf'
      simpa using hf'.symm
    · have hh' : r.hasSamples = false := by simpa using hh
      simp only [hh', Bool.false_eq_true, if_false]
      obtain ⟨h1, h2⟩ := h
      refine ⟨h1, fun s f hs _ => ?_⟩
      -- stored samples would make `hasSamples` true
      exfalso
      simp only at hs
      simp [Res.hasSamples, Res.fromGates, hs] at hh

theorem ginv_run {S F : Type} (o : Oracle S F) (hexp : ∀ f t, o.count (o.expand f t) = f)
    (r : Res S F) (h : GInv o r) (ops : List Op) : GInv o (r.run o ops) := by
  induction ops generalizing r with
  | nil => exact h
  | cons op ops ih =>
    apply ih
    cases op
    · exact ginv_stepS o hexp r h
    · exact ginv_stepF o hexp r h

/-- For EVERY result object — built from gates that hold shots, from a `samples=` array or
from probabilities — after ANY history of `samples()` / `frequencies()` calls: if it has
samples when it is dumped (`has_samples()`, possibly only through its gates, `_samples`
still unset), the loaded object has samples too, returns the same samples and the same
frequencies, and keeps `nshots` — whatever the loader's random tape. -/
theorem T13_result_gates_roundtrip {S F : Type} (o : Oracle S F)
    (hexp : ∀ f t, o.count (o.expand f t) = f) (r0 : Res S F) (h0 : GInv o r0)
    (ops : List Op) (t : Nat) (hh : (r0.run o ops).hasSamples = true) :
    (load (F := F) ((r0.run o ops).dump false) t).hasSamples = true
      ∧ (load (F := F) ((r0.run o ops).dump false) t).obsSamples o = (r0.run o ops).obsSamples o
      ∧ (load (F := F) ((r0.run o ops).dump false) t).obsFreq o = (r0.run o ops).obsFreq o
      ∧ (load (F := F) ((r0.run o ops).dump false) t).nshots = (r0.run o ops).nshots := by
  have hinv := ginv_run o hexp r0 h0 ops
  generalize r0.run o ops = r at hh hinv
  obtain ⟨h1, h2⟩ := hinv
  cases hs : r.samples with
  | some s =>
    have hg := h1 s hs
    refine ⟨by simp [load, Res.dump, Res.hasSamples, Res.fromGates, hs], ?_, ?_, rfl⟩
    · simp [Res.obsSamples, Res.stepS, load, Res.dump, hs]
    · cases hf : r.freqs with
      | some f =>
        have := h2 s f hs hf
        simp [Res.obsFreq, Res.stepF, Res.stepS, load, Res.dump, Res.hasSamples, Res.fromGates, hs, hf, this]
      | none =>
        simp [Res.obsFreq, Res.stepF, Res.stepS, load, Res.dump, Res.hasSamples, Res.fromGates, hs, hf]
  | none =>
    -- samples only through the gates
    have hfg : r.fromGates = true := by
      by_contra hc
      simp [Res.hasSamples, hc, hs] at hh
    have hp : r.probs = false ∧ r.freqs = none := by
      simp only [Res.fromGates, Bool.and_eq_true, Option.isNone_iff_eq_none, Bool.not_eq_true'] at hfg
      exact ⟨hfg.1.2, hfg.2⟩
    have hgs : r.gates.isSome = true := by simpa [Res.hasSamples, hfg] using hh
    obtain ⟨g, hg⟩ := Option.isSome_iff_exists.1 hgs
    refine ⟨by simp [load, Res.dump, Res.hasSamples, Res.fromGates, hs, hp.1, hg], ?_, ?_, rfl⟩
    · simp [Res.obsSamples, Res.stepS, load, Res.dump, Res.fromGates, hs, hp.1, hp.2, hg]
    · simp [Res.obsFreq, Res.stepF, Res.stepS, load, Res.dump, Res.hasSamples, Res.fromGates, hs, hp.1, hp.2, hg]

/-- the three constructors satisfy the hypothesis -/
theorem T13_result_constructors_consistent {S F : Type} (o : Oracle S F) (g : Option S) (s : S) (n : Nat) :
    GInv o (ofGates (F := F) g n) ∧ GInv o (ofSamples (F := F) s n) ∧ GInv o (ofProbs (S := S) (F := F) n) := by
  refine ⟨⟨?_, ?_⟩, ⟨?_, ?_⟩, ⟨?_, ?_⟩⟩ <;> intro a <;> simp [ofGates, ofSamples, ofProbs]

/-- a dump that omits the gates' samples "when the result has samples" loses the shots of a
gate-built result whose samples were never read: the loaded object has no samples -/
theorem T13_result_gates_strip_witness :
    (ofGates (S := Nat) (F := Nat) (some 7) 5).hasSamples = true
      ∧ (load (F := Nat) ((ofGates (S := Nat) (F := Nat) (some 7) 5).dump true) 0).hasSamples = false
      ∧ (load (F := Nat) ((ofGates (S := Nat) (F := Nat) (some 7) 5).dump false) 0).hasSamples = true := by
  decide

/-- non-vacuity of the round trip hypothesis: gate-built, dumped before any access -/
example : ((ofGates (S := Nat) (F := Nat) (some 7) 5).run ⟨id, id, id, fun f _ => f⟩ []).hasSamples = true := by
  decide

end QV.Props.C13
