/-
  C17 — Channel representations convert without changing the channel.
  Property theorems only (proofs are thin wrappers of QV/Proofs/Superop.lean).
  Model: QV/Model/Superop.lean — the index conventions of
  `quantum_info/superoperator_transformations.py` (vectorization, unvectorization,
  _reshuffling, kraus_to_choi, choi_to_liouville, liouville_to_choi, kraus_to_liouville,
  kraus_to_stinespring, stinespring_to_kraus), tied to the real code by exact correspondence
  on Gaussian-integer data on every run (tools/props/C17.py).

  Scalars: an arbitrary commutative semiring `α` with an arbitrary map `conj : α → α`
  (no property of `conj` is needed below: the statements are identities between index
  conventions).  Dimensions: an arbitrary `d` for the orders `row` and `column`; the `system`
  order needs `d = 2^n` (`WF`), for every number of qubits `n`.
-/
import QV.Proofs.Superop
namespace QV.Props.C17
open QV QV.Superop

variable {α : Type}

/-! ### vectorisation and un-vectorisation are mutually inverse, for every order -/

/-- `unvectorization(vectorization(A, order), order) = A` for every order, every dimension
(`system`: every number of qubits). -/
theorem T17_unvec_vec (o : Order) {d n : Nat} (h : WF o d n) (A : Mat α) {i j : Nat}
    (hi : i < d) (hj : j < d) :
    unvectorization o d n (vectorization o d n A) i j = A i j :=
  unvec_vec o h hi hj A

/-- `vectorization(unvectorization(v, order), order) = v`. -/
theorem T17_vec_unvec (o : Order) {d n : Nat} (h : WF o d n) (v : Nat → α) {k : Nat}
    (hk : k < d * d) :
    vectorization o d n (unvectorization o d n v) k = v k :=
  vec_unvec o h hk v

/-- the position map `(i, j) ↦ vecIdx` is a bijection between `[0,d)²` and `[0,d²)` with inverse
`k ↦ (rowOf k, colOf k)` — for `system` this is the bit-interleaving of any number of qubits. -/
theorem T17_vecIdx_bijection (o : Order) {d n : Nat} (h : WF o d n) :
    (∀ i j, i < d → j < d → vecIdx o d n i j < d * d ∧
        rowOf o d n (vecIdx o d n i j) = i ∧ colOf o d n (vecIdx o d n i j) = j) ∧
    (∀ k, k < d * d → rowOf o d n k < d ∧ colOf o d n k < d ∧
        vecIdx o d n (rowOf o d n k) (colOf o d n k) = k) :=
  ⟨fun _ _ hi hj => ⟨vecIdx_lt o h hi hj, rowOf_vecIdx o h hi hj, colOf_vecIdx o h hi hj⟩,
   fun _ hk => ⟨rowOf_lt o h hk, colOf_lt o h hk, vecIdx_rowOf_colOf o h hk⟩⟩

/-! ### reshuffling; Choi ↔ Liouville -/

/-- `_reshuffling` is an involution (row: `swapaxes(1,2)`, column: `swapaxes(0,3)`). -/
theorem T17_reshuffle_involutive (o : Order) {d : Nat} (M : Mat α) {r c : Nat}
    (hr : r < d * d) (hc : c < d * d) :
    reshuffle o d (reshuffle o d M) r c = M r c :=
  reshuffle_involutive o hr hc M

/-- `liouville_to_choi ∘ choi_to_liouville = id` and `choi_to_liouville ∘ liouville_to_choi = id`. -/
theorem T17_choi_liouville_roundtrip (o : Order) {d : Nat} (M : Mat α) {r c : Nat}
    (hr : r < d * d) (hc : c < d * d) :
    liouvilleToChoi o d (choiToLiouville o d M) r c = M r c ∧
    choiToLiouville o d (liouvilleToChoi o d M) r c = M r c :=
  ⟨reshuffle_involutive o hr hc M, reshuffle_involutive o hr hc M⟩

/-- what reshuffling does, uniformly in the order: entry `(vec(a,c), vec(b,e))` of the result
is entry `(vec(a,b), vec(c,e))` of the input. -/
theorem T17_reshuffle_spec (o : Order) (ho : o ≠ .system) {d : Nat} (n : Nat) (M : Mat α)
    {a b c e : Nat} (ha : a < d) (hb : b < d) (hc : c < d) (he : e < d) :
    reshuffle o d M (vecIdx o d n a c) (vecIdx o d n b e)
      = M (vecIdx o d n a b) (vecIdx o d n c e) :=
  reshuffle_at o ho ha hb hc he n M

section action
variable [CommSemiring α]

/-- the Choi matrix `Σ vec(K) vec(K)†` represents the Kraus map `ρ ↦ Σ K ρ K†`, for every
order (row, column, system), every dimension, every Kraus list and every operator `ρ`. -/
theorem T17_choi_action (conj : α → α) (o : Order) {d n : Nat} (h : WF o d n)
    (Ks : List (Mat α)) (ρ : Mat α) {a c : Nat} (ha : a < d) (hc : c < d) :
    applyChoi o d n (krausToChoi conj o d n Ks) ρ a c = applyKraus conj d Ks ρ a c :=
  applyChoi_krausToChoi conj o h Ks ρ ha hc

/-- for ANY `d² × d²` matrix `C` read as a Choi matrix, `choi_to_liouville(C) · vec(ρ)` is the
vectorisation of the Choi action of `C` on `ρ` (row and column orders). -/
theorem T17_liouville_of_choi (o : Order) (ho : o ≠ .system) {d : Nat} (n : Nat) (C ρ : Mat α)
    {i j : Nat} (hi : i < d) (hj : j < d) :
    matVec (d * d) (choiToLiouville o d C) (vectorization o d n ρ) (vecIdx o d n i j)
      = applyChoi o d n C ρ i j :=
  matVec_choiToLiouville o ho n C ρ hi hj

/-- `kraus_to_liouville(K) · vec(ρ) = vec(Σ K ρ K†)` (row and column orders, every dimension,
every Kraus list, every operator). -/
theorem T17_liouville_action (conj : α → α) (o : Order) (ho : o ≠ .system) {d : Nat} (n : Nat)
    (Ks : List (Mat α)) (ρ : Mat α) {i j : Nat} (hi : i < d) (hj : j < d) :
    matVec (d * d) (krausToLiouville conj o d n Ks) (vectorization o d n ρ) (vecIdx o d n i j)
      = vectorization o d n (applyKraus conj d Ks ρ) (vecIdx o d n i j) := by
  have hw : WF o d n := by
    cases o with
    | row => trivial
    | column => trivial
    | system => exact absurd rfl ho
  rw [vectorization_at o hw hi hj]
  exact (matVec_choiToLiouville o ho n _ ρ hi hj).trans (applyChoi_krausToChoi conj o hw Ks ρ hi hj)

/-- row order: the Liouville matrix is `Σ K ⊗ K*`. -/
theorem T17_liouville_kron_row (conj : α → α) {d n : Nat} (Ks : List (Mat α)) {r c : Nat}
    (hr : r < d * d) (hc : c < d * d) :
    krausToLiouville conj .row d n Ks r c
      = sumList Ks (fun K => kron d K (fun i j => conj (K i j)) r c) :=
  krausToLiouville_row conj hr hc Ks

/-- column order: the Liouville matrix is `Σ K* ⊗ K`. -/
theorem T17_liouville_kron_column (conj : α → α) {d n : Nat} (Ks : List (Mat α)) {r c : Nat}
    (hr : r < d * d) (hc : c < d * d) :
    krausToLiouville conj .column d n Ks r c
      = sumList Ks (fun K => kron d (fun i j => conj (K i j)) K r c) :=
  krausToLiouville_column conj hr hc Ks

/-- Kraus → Stinespring → Kraus with the same environment state `v` returns every operator
multiplied by `⟨v|v⟩`; any number `e` of operators, any system dimension. -/
theorem T17_stinespring_roundtrip (conj : α → α) {e a : Nat} (ha : a < e) (Ks : List (Mat α))
    (v : Nat → α) (i j : Nat) :
    stinespringToKraus e (krausToStinespring conj e Ks v) v a i j
      = (Ks.getD a (fun _ _ => 0)) i j * sumRange e (fun b => conj (v b) * v b) :=
  stinespring_roundtrip conj ha Ks v i j

/-- … hence the identity for a normalised environment state. -/
theorem T17_stinespring_roundtrip_normalised (conj : α → α) {e a : Nat} (ha : a < e)
    (Ks : List (Mat α)) (v : Nat → α) (hv : sumRange e (fun b => conj (v b) * v b) = 1)
    (i j : Nat) :
    stinespringToKraus e (krausToStinespring conj e Ks v) v a i j
      = (Ks.getD a (fun _ _ => 0)) i j := by
  rw [stinespring_roundtrip conj ha Ks v i j, hv, mul_one]

end action

/-! ### non-vacuity -/

example : WF .row 3 0 := trivial
example : WF .column 5 7 := trivial
example : WF .system 8 3 := rfl
example : (Order.row ≠ Order.system) ∧ (Order.column ≠ Order.system) := by decide

/-- system order on 2 qubits: entry (1, 2) = (row bits 01, column bits 10) sits at position
`c₀ r₀ c₁ r₁ = 1 0 0 1 = 9`. -/
example : vecIdx .system 4 2 1 2 = 9 ∧ rowOf .system 4 2 9 = 1 ∧ colOf .system 4 2 9 = 2 := by decide

/-- the default environment state `e₀` is normalised (over ℤ, `conj = id`, `e = 3`). -/
example : sumRange 3 (fun b => id ((fun k => if k = 0 then (1 : Int) else 0) b)
    * (fun k => if k = 0 then (1 : Int) else 0) b) = 1 := by decide

/-- a concrete non-symmetric Kraus operator over ℤ: `K = [[1,2],[0,3]]`, `ρ = [[1,1],[0,2]]`;
entry (0,1) of `K ρ Kᵀ` is 15, and the row-order Liouville matrix applied to `vec ρ` gives it
at position `vecIdx 0 1 = 1`. -/
example :
    let K : Mat Int := fun i j => if i = 0 ∧ j = 0 then 1 else if i = 0 ∧ j = 1 then 2
      else if i = 1 ∧ j = 1 then 3 else 0
    let ρ : Mat Int := fun i j => if i = 0 then 1 else if j = 1 then 2 else 0
    matVec 4 (krausToLiouville id .row 2 1 [K]) (vectorization .row 2 1 ρ) 1 = 15
      ∧ applyKraus id 2 [K] ρ 0 1 = 15 := by decide

end QV.Props.C17
