/-
  C04 (part c) — the constructor facts that were only searched, as theorems.

  1. COMPLETE POSITIVITY.  The weighted Kraus form `Σ_k c_k K_k ρ K_kᴴ` (Mathlib matrices over any
     finite index types, any `RCLike` field, rectangular operators allowed) maps positive
     semidefinite operators to positive semidefinite operators when `c_k ≥ 0`; so does what
     `apply_channel_density_matrix` computes, `(1 − Σc)·ρ + Σ_k c_k K_k ρ K_kᴴ`, when `Σc ≤ 1`; so
     does the ancilla extension `Φ ⊗ id_a` for every ancilla `a` (complete positivity proper,
     `T04_kraus_form_ancilla_is_extension` shows it is the extension).  And the EXECUTED model:
     on the labels of every `n`-qubit register `applyChannelDM` is the matrix expression
     `(1 − csum)·ρ + Σ_k c_k F_k ρ F_kᴴ` with `F_k = fullMat n g_k` and hence PSD-preserving.
  2. READOUT.  The gate list of `readoutChan` is exactly the family `√P[k,j]·|j⟩⟨k|`;
     `Σ_{j,k} K_{jk}†K_{jk} = diag(row sums of P)`; trace preserving ⇔ `P` row-stochastic (every
     dimension); label level: the executed channel preserves `Tr` over every register containing the
     targets, every tuple length, every `ρ`.
  3. k-QUBIT PAULI NOISE.  Every Pauli string matrix is Hermitian and unitary (both sides), every
     string length; `coefficient_sum = Σ p` by construction; the executed channel preserves the
     trace and is unital (fixes the identity of every register containing the targets).
  4. SUPEROPERATOR VIEWS.  `choiOf` (= `to_choi`) is `Σ_k c_k vec(K_k) vec(K_k)†` = the weighted
     C17 `krausToChoi`; `reshuffle` = C17's `_reshuffling`; `to_liouville(ch)·vec(ρ) = vec(Σ_k c_k
     K_k ρ K_k†)` and the Choi action likewise, every term list, every dimension, both orders;
     BRIDGE: on the labels of an `n`-qubit register a gate acts as its full matrix
     (`fullMat n g`, the model of `FusedGate(*range(n)).append(gate).matrix()`), for state vectors
     and density matrices; hence `liouvilleOf(choiTerms ch) · vec ρ = vec(applyChannelDM ch ρ)`:
     the representation queries describe the executed generic path; `to_pauli_liouville` is the
     Pauli transfer matrix `⟨P_a, execute(ch, P_b)⟩` of the executed map.

  Scalars: an arbitrary commutative ring `α` with a ring endomorphism `conj` (parts 2–4), ℂ / any
  `RCLike` field for positivity.  Helper lemmas: QV/Proofs/ChannelsCP.lean, ChannelsTP.lean,
  ChannelsSuper.lean, ChannelsPSD.lean, ChannelsPTM.lean.
-/
import Mathlib.Data.Complex.Basic
import Mathlib.Tactic.NormNum
import Mathlib.Tactic.IntervalCases
import QV.Proofs.ChannelsCP
import QV.Proofs.ChannelsTP
import QV.Proofs.ChannelsSuper
import QV.Proofs.ChannelsPSD
import QV.Proofs.ChannelsPTM
import QV.Props.C04
namespace QV.Props.C04
open QV Finset
open QV.Superop (Mat Order vecIdx vectorization matVec applyChoi krausToChoi)

/-! ## 1. complete positivity -/

section cp
open Matrix QV.CP
open scoped ComplexOrder
variable {𝕜 : Type*} [RCLike 𝕜]
variable {n m a ι : Type*} [Fintype n] [Fintype m] [Fintype a]

/-- `Σ_k c_k · K_k ρ K_kᴴ` is positive semidefinite for PSD `ρ` and `c_k ≥ 0`; any finite index
types, rectangular operators, any number of terms. -/
theorem T04_kraus_form_posSemidef (s : Finset ι) (c : ι → ℝ) (hc : ∀ k ∈ s, 0 ≤ c k)
    (K : ι → Matrix m n 𝕜) {ρ : Matrix n n 𝕜} (hρ : ρ.PosSemidef) :
    (krausForm s c K ρ).PosSemidef :=
  krausForm_posSemidef s c hc K hρ

/-- what `apply_channel_density_matrix` computes, `(1 − Σc)·ρ + Σ_k c_k K_k ρ K_kᴴ`, is PSD when
`Σc ≤ 1`. -/
theorem T04_kraus_form_with_rest_posSemidef (s : Finset ι) (c : ι → ℝ) (hc : ∀ k ∈ s, 0 ≤ c k)
    (hsum : ∑ k ∈ s, c k ≤ 1) (K : ι → Matrix n n 𝕜) {ρ : Matrix n n 𝕜} (hρ : ρ.PosSemidef) :
    ((1 - ∑ k ∈ s, c k) • ρ + krausForm s c K ρ).PosSemidef :=
  krausForm_add_rest_posSemidef s c hc hsum K hρ

omit [Fintype m] in
/-- `krausFormAnc` (operators `K_k ⊗ 1_a`) is the ancilla extension `Φ ⊗ id_a`: on product
operators it acts on the first factor only. -/
theorem T04_kraus_form_ancilla_is_extension [DecidableEq a] (s : Finset ι) (c : ι → ℝ)
    (K : ι → Matrix m n 𝕜) (A : Matrix n n 𝕜) (B : Matrix a a 𝕜) :
    krausFormAnc s c K (kroneckerMap (· * ·) A B)
      = kroneckerMap (· * ·) (krausForm s c K A) B :=
  krausFormAnc_kronecker s c K A B

/-- **complete positivity**: for every finite ancilla `a`, `Φ ⊗ id_a` maps PSD operators on the
product index to PSD operators. -/
theorem T04_kraus_form_completely_positive [DecidableEq a] (s : Finset ι) (c : ι → ℝ)
    (hc : ∀ k ∈ s, 0 ≤ c k) (K : ι → Matrix m n 𝕜) {ρ : Matrix (n × a) (n × a) 𝕜}
    (hρ : ρ.PosSemidef) : (krausFormAnc s c K ρ).PosSemidef :=
  krausFormAnc_posSemidef s c hc K hρ

/-- the executed generic path on the labels of an `n`-qubit register, as a matrix expression in
the full matrices of the channel's own gates. -/
theorem T04_executed_map_matrix_form (n : Nat) (ch : Chan ℂ)
    (hg : ∀ g ∈ ch.gates, g.targets.Nodup ∧ ∀ t ∈ g.targets, t < n) (ρ : DM ℂ) :
    regMat n (applyChannelDM (starRingEnd ℂ) ch ρ)
      = (1 - ch.csum) • regMat n ρ
        + ((ch.coeffs.zip ch.gates).map
            (fun t => t.1 • (fullMatM n t.2 * regMat n ρ * (fullMatM n t.2)ᴴ))).sum :=
  regMat_applyChannelDM n ch hg ρ

/-- **the executed model is positivity preserving on every register** (with the previous
theorems: completely positive), for non-negative coefficients and `coefficient_sum ≤ 1`. -/
theorem T04_executed_map_posSemidef (n : Nat) (ch : Chan ℂ)
    (hg : ∀ g ∈ ch.gates, g.targets.Nodup ∧ ∀ t ∈ g.targets, t < n)
    (hc : ∀ c ∈ ch.coeffs, 0 ≤ c) (h0 : 0 ≤ 1 - ch.csum) (ρ : DM ℂ)
    (hρ : (regMat n ρ).PosSemidef) :
    (regMat n (applyChannelDM (starRingEnd ℂ) ch ρ)).PosSemidef :=
  applyChannelDM_posSemidef n ch hg hc h0 ρ hρ

/-- non-vacuity: two 2×3 operators over ℂ, weights 1 and 2, `ρ = 1`. -/
example (K : Fin 2 → Matrix (Fin 2) (Fin 3) ℂ) :
    (krausForm Finset.univ (fun k : Fin 2 => (k.1 : ℝ) + 1) K (1 : Matrix (Fin 3) (Fin 3) ℂ)).PosSemidef :=
  T04_kraus_form_posSemidef _ _ (fun k _ => by positivity) K PosSemidef.one

/-- non-vacuity: weights `1/4, 1/2` (sum `≤ 1`). -/
example (K : Fin 2 → Matrix (Fin 2) (Fin 2) ℂ) :
    ((1 - ∑ k : Fin 2, ((k.1 : ℝ) + 1) / 4) • (1 : Matrix (Fin 2) (Fin 2) ℂ)
      + krausForm Finset.univ (fun k : Fin 2 => ((k.1 : ℝ) + 1) / 4) K 1).PosSemidef :=
  T04_kraus_form_with_rest_posSemidef _ _ (fun k _ => by positivity)
    (by simp [Fin.sum_univ_two]; norm_num) K PosSemidef.one

/-- non-vacuity of the ancilla statement: a 3-level ancilla. -/
example (K : Fin 2 → Matrix (Fin 2) (Fin 2) ℂ) :
    (krausFormAnc Finset.univ (fun _ : Fin 2 => (1 : ℝ)) K
      (1 : Matrix (Fin 2 × Fin 3) (Fin 2 × Fin 3) ℂ)).PosSemidef :=
  T04_kraus_form_completely_positive _ _ (fun _ _ => zero_le_one) K PosSemidef.one

/-- non-vacuity of the executed statement: amplitude damping (γ = 9/25) on qubit 1 of a 2-qubit
register, any pure state `ψ`. -/
example (ψ : Lab → ℂ) :
    (regMat 2 (applyChannelDM (starRingEnd ℂ) (ampDampChan (4 / 5) (3 / 5) 1)
      (fun x y => ψ x * star (ψ y)))).PosSemidef := by
  refine T04_executed_map_posSemidef 2 _ ?_ ?_ ?_ _ ?_
  · intro g hg
    simp [ampDampChan, krausChan, g1] at hg
    rcases hg with rfl | rfl <;> simp
  · intro c hc
    simp [ampDampChan, krausChan] at hc
    subst hc; exact zero_le_one
  · simp [ampDampChan, krausChan]
  · have : regMat 2 (fun x y => ψ x * star (ψ y))
        = vecMulVec (fun i : Fin (2 ^ 2) => ψ (Lab.ofIndex 2 i.1))
            (star fun i : Fin (2 ^ 2) => ψ (Lab.ofIndex 2 i.1)) := by
      ext i j; simp [regMat, vecMulVec_apply]
    rw [this]
    exact posSemidef_vecMulVec_self_star _

end cp

variable {α : Type} [CommRing α]

/-! ## 2. ReadoutErrorChannel -/

/-- the gate list the constructor model builds is exactly the family `√P[k,j]·|j⟩⟨k|`
(`j` outer, `k` inner), every operator on the given ordered targets. -/
theorem T04_readout_gates_are_family (sq : Nat → Nat → α) (d : Nat) (qs : List Nat) :
    (readoutChan sq d qs).gates
      = (readoutPairs d).map (fun p => ({ mat := readoutOp sq p.1 p.2, targets := qs } : MGate α)) :=
  readoutChan_gates sq d qs

/-- `Σ_{j,k} K_{jk}† K_{jk} = diag(Σ_j P[a,j])`, every dimension `d`. -/
theorem T04_readout_gram_diag (conj : α →+* α) (sq P : Nat → Nat → α)
    (hsq : ∀ k j, sq k j * sq k j = P k j) (hreal : ∀ k j, conj (sq k j) = sq k j)
    (d : Nat) {a : Nat} (ha : a < d) (b : Nat) :
    ((readoutPairs d).map (fun p => (1 : α) * gram conj d (readoutOp sq p.1 p.2) a b)).sum
      = if a = b then ∑ j ∈ range d, P a j else 0 :=
  readout_gram_sum conj sq P hsq hreal d ha b

/-- **the readout operators are trace preserving iff `P` is row-stochastic** (both directions,
every dimension). -/
theorem T04_readout_tp_iff_row_stochastic (conj : α →+* α) (sq P : Nat → Nat → α)
    (hsq : ∀ k j, sq k j * sq k j = P k j) (hreal : ∀ k j, conj (sq k j) = sq k j) (d : Nat) :
    ReadoutTP conj sq d ↔ ∀ a, a < d → ∑ j ∈ range d, P a j = 1 :=
  readoutTP_iff conj sq P hsq hreal d

/-- a Kraus family on one ordered target tuple with `c0·1 + Σ_k c_k K_k†K_k = 1` preserves the
partial trace over its targets (generalises the unitary-mixture statement). -/
theorem T04_kraus_same_targets_trace_preserved (conj : α → α) (ts : List Nat) (hn : ts.Nodup)
    (c0 : α) (terms : List (α × (Nat → Nat → α)))
    (hTP : ∀ a b, a < 2 ^ ts.length → b < 2 ^ ts.length →
      c0 * (if a = b then 1 else 0)
        + (terms.map (fun t => t.1 * gram conj (2 ^ ts.length) t.2 a b)).sum
        = if a = b then 1 else 0)
    (ρ : DM α) (z : Lab) :
    trN ts (krausFold conj c0
        (terms.map (fun t => (t.1, ({ mat := t.2, targets := ts } : MGate α)))) ρ) z
      = trN ts ρ z :=
  trN_krausFold_sameTargets conj ts hn c0 terms hTP ρ z

/-- **label level**: for row-stochastic `P` the executed readout channel preserves the trace over
every register `qs` containing the targets `ts`, for every tuple length and every `ρ`. -/
theorem T04_readout_trace_preserved (conj : α →+* α) (sq P : Nat → Nat → α)
    (hsq : ∀ k j, sq k j * sq k j = P k j) (hreal : ∀ k j, conj (sq k j) = sq k j)
    (ts : List Nat) (hn : ts.Nodup)
    (hP : ∀ a, a < 2 ^ ts.length → ∑ j ∈ range (2 ^ ts.length), P a j = 1)
    (qs : List Nat) (hsub : ∀ t, t ∈ ts → t ∈ qs) (ρ : DM α) (x : Lab) :
    trN qs (applyChannelDM conj (readoutChan sq (2 ^ ts.length) ts) ρ) x = trN qs ρ x :=
  trN_congr_of_targets ts qs hn hsub _ _ (trN_readoutChan conj sq P hsq hreal ts hn hP ρ) x

/-- non-vacuity over ℚ: `P = [[9/25, 16/25], [1, 0]]` with `√P = [[3/5, 4/5], [1, 0]]` on one
qubit inside a three-qubit register. -/
example (q : Nat) (ρ : DM ℚ) (x : Lab) :
    let sq : Nat → Nat → ℚ := fun k j =>
      if k = 0 then (if j = 0 then 3 / 5 else if j = 1 then 4 / 5 else 0)
      else if k = 1 ∧ j = 0 then 1 else 0
    trN [0, q, 7] (applyChannelDM (RingHom.id ℚ) (readoutChan sq (2 ^ [q].length) [q]) ρ) x
      = trN [0, q, 7] ρ x := by
  intro sq
  refine T04_readout_trace_preserved (RingHom.id ℚ) sq (fun k j => sq k j * sq k j)
    (fun _ _ => rfl) (fun _ _ => rfl) [q] (List.nodup_singleton q) ?_ _ (by simp) ρ x
  intro a ha
  simp only [List.length_singleton, pow_one] at ha ⊢
  interval_cases a <;> norm_num [sq, Finset.sum_range_succ]

/-- … and a matrix that is NOT row-stochastic is not trace preserving (`P = 2·1`, `d = 1`). -/
example : ¬ ReadoutTP (RingHom.id ℤ) (fun _ _ => (2 : ℤ)) 1 := by
  rw [T04_readout_tp_iff_row_stochastic (RingHom.id ℤ) (fun _ _ => 2) (fun _ _ => 4)
    (fun _ _ => by norm_num) (fun _ _ => rfl) 1]
  intro h
  have := h 0 (by decide)
  simp at this

/-! ## 3. k-qubit PauliNoiseChannel -/

/-- every Pauli string matrix is Hermitian, every string length. -/
theorem T04_pauli_string_hermitian (conj : α →+* α) (I : α) (hcI : conj I = -I)
    (codes : List Nat) (i j : Nat) :
    conj (pauliStringMat I codes i j) = pauliStringMat I codes j i :=
  pauliStringMat_herm conj I hcI codes i j

/-- **every Pauli string matrix is unitary**, `P†P = 1` on indices `< 2^k`, every `k`. -/
theorem T04_pauli_string_unitary (conj : α →+* α) (I : α) (hI : I * I = -1) (hcI : conj I = -I)
    (codes : List Nat) {i j : Nat} (hi : i < 2 ^ codes.length) (hj : j < 2 ^ codes.length) :
    ∑ k ∈ range (2 ^ codes.length),
        conj (pauliStringMat I codes k i) * pauliStringMat I codes k j
      = if i = j then 1 else 0 :=
  pauliStringMat_unitary conj I hI hcI codes i j hi hj

/-- … and `P P† = 1`. -/
theorem T04_pauli_string_unitary_row (conj : α →+* α) (I : α) (hI : I * I = -1)
    (hcI : conj I = -I) (codes : List Nat) {i j : Nat} (hi : i < 2 ^ codes.length)
    (hj : j < 2 ^ codes.length) :
    ∑ a ∈ range (2 ^ codes.length),
        pauliStringMat I codes i a * conj (pauliStringMat I codes j a)
      = if i = j then 1 else 0 :=
  pauliStringMat_unitary_row conj I hI hcI codes hi hj

/-- `coefficient_sum` of the constructed channel object is the sum of its coefficients. -/
theorem T04_pauli_channel_csum (I : α) (qs : List Nat) (ops : List (List Nat × α)) :
    (pauliChan I qs ops).csum
      = (((pauliChan I qs ops).coeffs.zip (pauliChan I qs ops).gates).map (·.1)).sum :=
  pauliChan_csum I qs ops

/-- **the k-qubit Pauli noise channel preserves the trace** over every register `qs` containing
its ordered duplicate-free targets `ts`, for every operator list (strings of length `|ts|`). -/
theorem T04_pauli_channel_trace_preserved (conj : α →+* α) (I : α) (hI : I * I = -1)
    (hcI : conj I = -I) (ts : List Nat) (hn : ts.Nodup) (ops : List (List Nat × α))
    (hlen : ∀ o ∈ ops, o.1.length = ts.length) (qs : List Nat) (hsub : ∀ t, t ∈ ts → t ∈ qs)
    (ρ : DM α) (z : Lab) :
    trN qs (applyChannelDM conj (pauliChan I ts ops) ρ) z = trN qs ρ z :=
  trN_pauliChan conj I hI hcI ts hn ops hlen qs hsub ρ z

/-- **unital**: `1_ts ⊗ τ` is a fixed point, for every `τ` on the other qubits. -/
theorem T04_pauli_channel_unital (conj : α →+* α) (I : α) (hI : I * I = -1) (hcI : conj I = -I)
    (ts : List Nat) (hn : ts.Nodup) (ops : List (List Nat × α))
    (hlen : ∀ o ∈ ops, o.1.length = ts.length) (τ : DM α) (hτ : DM.IgnoresBits ts τ) :
    applyChannelDM conj (pauliChan I ts ops) (idTensor ts τ) = idTensor ts τ :=
  pauliChan_unital conj I hI hcI ts hn ops hlen τ hτ

/-- … in particular the identity of every register `R ⊇ ts`. -/
theorem T04_pauli_channel_unital_register (conj : α →+* α) (I : α) (hI : I * I = -1)
    (hcI : conj I = -I) (ts : List Nat) (hn : ts.Nodup) (ops : List (List Nat × α))
    (hlen : ∀ o ∈ ops, o.1.length = ts.length) (R : List Nat) (hsub : ∀ t, t ∈ ts → t ∈ R) :
    applyChannelDM conj (pauliChan I ts ops) (idReg R) = idReg R :=
  pauliChan_unital_register conj I hI hcI ts hn ops hlen R hsub

/-- non-vacuity over ℂ: strings `XYZ`, `IIZ` on the non-ascending tuple `(4, 0, 2)` inside a
five-qubit register, arbitrary weights. -/
example (p q : ℂ) (ρ : DM ℂ) (z : Lab) :
    trN [0, 1, 2, 3, 4] (applyChannelDM (starRingEnd ℂ)
      (pauliChan Complex.I [4, 0, 2] [([1, 2, 3], p), ([0, 0, 3], q)]) ρ) z
      = trN [0, 1, 2, 3, 4] ρ z :=
  T04_pauli_channel_trace_preserved (starRingEnd ℂ) Complex.I Complex.I_mul_I Complex.conj_I
    [4, 0, 2] (by decide) _ (by simp) _ (by decide) ρ z

example (p q : ℂ) :
    applyChannelDM (starRingEnd ℂ)
      (pauliChan Complex.I [4, 0, 2] [([1, 2, 3], p), ([0, 0, 3], q)]) (idReg [0, 1, 2, 3, 4])
      = idReg [0, 1, 2, 3, 4] :=
  T04_pauli_channel_unital_register (starRingEnd ℂ) Complex.I Complex.I_mul_I Complex.conj_I
    [4, 0, 2] (by decide) _ (by simp) _ (by decide)

/-- the index bounds of the unitarity statement are satisfiable (`k = 3`). -/
example : (5 : Nat) < 2 ^ [1, 2, 3].length ∧ (7 : Nat) < 2 ^ [1, 2, 3].length := by decide

/-! ## 4. `to_choi` / `to_liouville` describe the executed map -/

/-- sum form of `to_choi`: `Σ_k c_k · vec(K_k)[r] · conj(vec(K_k)[s])` with the C17 vectorisation
of the order named by `col`. -/
theorem T04_choi_sum_form (conj : α → α) (D n : Nat) (col : Bool)
    (terms : List (α × (Nat → Nat → α))) (r s : Nat) :
    choiOf conj D col terms r s
      = (terms.map (fun t => t.1 * (vectorization (ordOf col) D n t.2 r
            * conj (vectorization (ordOf col) D n t.2 s)))).sum :=
  choiOf_eq_sum conj D n col terms r s

/-- `to_choi` is the weighted sum of C17's `kraus_to_choi` of each operator. -/
theorem T04_choi_eq_krausToChoi (conj : α → α) (D n : Nat) (col : Bool)
    (terms : List (α × (Nat → Nat → α))) (r s : Nat) :
    choiOf conj D col terms r s
      = (terms.map (fun t => t.1 * krausToChoi conj (ordOf col) D n [t.2] r s)).sum :=
  choiOf_eq_krausToChoi conj D n col terms r s

omit [CommRing α] in
/-- the `_reshuffling` of the channel model is the one of the C17 model (all indices). -/
theorem T04_reshuffle_eq_c17 (D : Nat) (col : Bool) (A : Nat → Nat → α) :
    reshuffle D col A = QV.Superop.reshuffle (ordOf col) D A :=
  reshuffle_eq D col A

/-- `to_choi` acts as the weighted Kraus map `Σ_k c_k K_k ρ K_k†`. -/
theorem T04_choi_action (conj : α → α) (D n : Nat) (col : Bool)
    (terms : List (α × (Nat → Nat → α))) (ρ : Mat α) {i j : Nat} (hi : i < D) (hj : j < D) :
    applyChoi (ordOf col) D n (choiOf conj D col terms) ρ i j = wKraus conj D terms ρ i j :=
  applyChoi_choiOf conj D n col terms ρ hi hj

/-- **`to_liouville · vec(ρ) = vec(Σ_k c_k K_k ρ K_k†)`**: every term list, every dimension, both
orders, every (not necessarily Hermitian) `ρ`. -/
theorem T04_liouville_action (conj : α → α) (D n : Nat) (col : Bool)
    (terms : List (α × (Nat → Nat → α))) (ρ : Mat α) {i j : Nat} (hi : i < D) (hj : j < D) :
    matVec (D * D) (liouvilleOf conj D col terms) (vectorization (ordOf col) D n ρ)
        (vecIdx (ordOf col) D n i j)
      = wKraus conj D terms ρ i j :=
  matVec_liouvilleOf conj D n col terms ρ hi hj

/-- **bridge, state vectors**: on the labels of an `n`-qubit register a gate with duplicate-free
targets `< n` (controls arbitrary) acts as the matrix `fullMat n g`. -/
theorem T04_gate_full_matrix_sv (n : Nat) (g : MGate α) (hn : g.targets.Nodup)
    (hts : ∀ t ∈ g.targets, t < n) (ψ : Lab → α) (i : Nat) :
    applyGate g ψ (Lab.ofIndex n i)
      = ∑ a ∈ range (2 ^ n), fullMat n g i a * ψ (Lab.ofIndex n a) :=
  applyGate_ofIndex n g hn hts ψ i

/-- **bridge, density matrices**: `G ρ G†` on register labels is `F ρ F†`, `F = fullMat n g`. -/
theorem T04_gate_full_matrix_dm (conj : α →+* α) (n : Nat) (g : MGate α) (hn : g.targets.Nodup)
    (hts : ∀ t ∈ g.targets, t < n) (ρ : DM α) (i j : Nat) :
    applyGateDM conj g ρ (Lab.ofIndex n i) (Lab.ofIndex n j)
      = ∑ a ∈ range (2 ^ n), ∑ b ∈ range (2 ^ n),
          fullMat n g i a * dmMat n ρ a b * conj (fullMat n g j b) :=
  applyGateDM_ofIndex conj n g hn hts ρ i j

/-- **`to_liouville(ch) · vec(ρ) = vec(execute(ch, ρ))`** for the generic path, when the identity
term with the missing weight `1 − coefficient_sum` is appended (`addId = true`): every channel
object whose gates have duplicate-free targets `< n`, both orders, every `ρ`. -/
theorem T04_liouville_executes (conj : α →+* α) (n : Nat) (col : Bool) (ch : Chan α)
    (hg : ∀ g ∈ ch.gates, g.targets.Nodup ∧ ∀ t ∈ g.targets, t < n) (ρ : DM α) {i j : Nat}
    (hi : i < 2 ^ n) (hj : j < 2 ^ n) :
    matVec (2 ^ n * 2 ^ n) (liouvilleOf conj (2 ^ n) col (choiTerms n ch true (1 - ch.csum)))
        (vectorization (ordOf col) (2 ^ n) n (dmMat n ρ)) (vecIdx (ordOf col) (2 ^ n) n i j)
      = applyChannelDM conj ch ρ (Lab.ofIndex n i) (Lab.ofIndex n j) := by
  rw [matVec_liouvilleOf conj (2 ^ n) n col _ _ hi hj]
  exact wKraus_choiTerms_executes conj n ch hg ρ hi hj

/-- the same for channels that need no identity term (`coefficient_sum = 1`: Kraus and readout
channels, mixtures whose probabilities sum to one). -/
theorem T04_liouville_executes_noId (conj : α →+* α) (n : Nat) (col : Bool) (ch : Chan α)
    (hg : ∀ g ∈ ch.gates, g.targets.Nodup ∧ ∀ t ∈ g.targets, t < n) (hsum : ch.csum = 1)
    (c0 : α) (ρ : DM α) {i j : Nat} (hi : i < 2 ^ n) (hj : j < 2 ^ n) :
    matVec (2 ^ n * 2 ^ n) (liouvilleOf conj (2 ^ n) col (choiTerms n ch false c0))
        (vectorization (ordOf col) (2 ^ n) n (dmMat n ρ)) (vecIdx (ordOf col) (2 ^ n) n i j)
      = applyChannelDM conj ch ρ (Lab.ofIndex n i) (Lab.ofIndex n j) := by
  rw [matVec_liouvilleOf conj (2 ^ n) n col _ _ hi hj]
  exact wKraus_choiTerms_executes_noId conj n ch hg hsum c0 ρ i j

/-- the Choi matrix likewise: its action is the executed map. -/
theorem T04_choi_executes (conj : α →+* α) (n : Nat) (col : Bool) (ch : Chan α)
    (hg : ∀ g ∈ ch.gates, g.targets.Nodup ∧ ∀ t ∈ g.targets, t < n) (ρ : DM α) {i j : Nat}
    (hi : i < 2 ^ n) (hj : j < 2 ^ n) :
    applyChoi (ordOf col) (2 ^ n) n (choiOf conj (2 ^ n) col (choiTerms n ch true (1 - ch.csum)))
        (dmMat n ρ) i j
      = applyChannelDM conj ch ρ (Lab.ofIndex n i) (Lab.ofIndex n j) := by
  rw [applyChoi_choiOf conj (2 ^ n) n col _ _ hi hj]
  exact wKraus_choiTerms_executes conj n ch hg ρ hi hj

/-- **`to_pauli_liouville`** (row order, un-normalised, `IXYZ` order) of ANY term list is the Pauli
transfer matrix of the weighted Kraus map: entry `(a, b)` = `⟨P_a , Σ_k c_k K_k P_b K_k†⟩` with
the Hilbert–Schmidt inner product, every `n`. -/
theorem T04_pauli_liouville_is_transfer_matrix (conj : α → α) (I : α) (n : Nat)
    (terms : List (α × (Nat → Nat → α))) (a b : Nat) :
    pauliLiouvilleOf conj I n (liouvilleOf conj (2 ^ n) false terms) a b
      = ∑ i ∈ range (2 ^ n), ∑ j ∈ range (2 ^ n),
          conj (pauliBasisMat I n a i j) * wKraus conj (2 ^ n) terms (pauliBasisMat I n b) i j :=
  pauliLiouvilleOf_eq conj I n terms a b

/-- … and for a channel object it is the transfer matrix of the EXECUTED generic path:
entry `(a, b)` = `⟨P_a , execute(ch, P_b)⟩`. -/
theorem T04_pauli_liouville_executes (conj : α →+* α) (I : α) (n : Nat) (ch : Chan α)
    (hg : ∀ g ∈ ch.gates, g.targets.Nodup ∧ ∀ t ∈ g.targets, t < n) (a b : Nat) :
    pauliLiouvilleOf conj I n
        (liouvilleOf conj (2 ^ n) false (choiTerms n ch true (1 - ch.csum))) a b
      = ∑ i ∈ range (2 ^ n), ∑ j ∈ range (2 ^ n),
          conj (pauliBasisMat I n a i j)
            * applyChannelDM conj ch (matDM n (pauliBasisMat I n b))
                (Lab.ofIndex n i) (Lab.ofIndex n j) :=
  pauliLiouvilleOf_executes conj I n ch hg a b

/-- non-vacuity: the 2-qubit Pauli noise channel on the non-ascending pair `(2, 0)` of a 3-qubit
register over ℂ, column order, entry `(5, 3)`. -/
example (p q : ℂ) (ρ : DM ℂ) :
    let ch := pauliChan Complex.I [2, 0] [([1, 2], p), ([3, 0], q)]
    matVec (2 ^ 3 * 2 ^ 3) (liouvilleOf (starRingEnd ℂ) (2 ^ 3) true (choiTerms 3 ch true (1 - ch.csum)))
        (vectorization .column (2 ^ 3) 3 (dmMat 3 ρ)) (vecIdx .column (2 ^ 3) 3 5 3)
      = applyChannelDM (starRingEnd ℂ) ch ρ (Lab.ofIndex 3 5) (Lab.ofIndex 3 3) := by
  intro ch
  refine T04_liouville_executes (starRingEnd ℂ) 3 true ch ?_ ρ (by decide) (by decide)
  intro g hg
  simp [ch, pauliChan, unitaryChan] at hg
  rcases hg with rfl | rfl <;> simp

/-- non-vacuity of the transfer-matrix statement: the same channel, entry `(⟨XIZ|, |IYI⟩)`. -/
example (p q : ℂ) :
    let ch := pauliChan Complex.I [2, 0] [([1, 2], p), ([3, 0], q)]
    pauliLiouvilleOf (starRingEnd ℂ) Complex.I 3
        (liouvilleOf (starRingEnd ℂ) (2 ^ 3) false (choiTerms 3 ch true (1 - ch.csum))) 19 8
      = ∑ i ∈ range (2 ^ 3), ∑ j ∈ range (2 ^ 3),
          (starRingEnd ℂ) (pauliBasisMat Complex.I 3 19 i j)
            * applyChannelDM (starRingEnd ℂ) ch (matDM 3 (pauliBasisMat Complex.I 3 8))
                (Lab.ofIndex 3 i) (Lab.ofIndex 3 j) := by
  intro ch
  refine T04_pauli_liouville_executes (starRingEnd ℂ) Complex.I 3 ch ?_ 19 8
  intro g hg
  simp [ch, pauliChan, unitaryChan] at hg
  rcases hg with rfl | rfl <;> simp

/-- non-vacuity (`coefficient_sum = 1`): amplitude damping over ℚ, row order. -/
example (ρ : DM ℚ) :
    matVec (2 ^ 2 * 2 ^ 2) (liouvilleOf (RingHom.id ℚ) (2 ^ 2) false
          (choiTerms 2 (ampDampChan (4 / 5) (3 / 5) 1) false 0))
        (vectorization .row (2 ^ 2) 2 (dmMat 2 ρ)) (vecIdx .row (2 ^ 2) 2 1 2)
      = applyChannelDM (RingHom.id ℚ) (ampDampChan (4 / 5) (3 / 5) 1) ρ
          (Lab.ofIndex 2 1) (Lab.ofIndex 2 2) := by
  refine T04_liouville_executes_noId (RingHom.id ℚ) 2 false _ ?_ rfl 0 ρ (by decide) (by decide)
  intro g hg
  simp [ampDampChan, krausChan, g1] at hg
  rcases hg with rfl | rfl <;> simp

/-- the model evaluates: the full matrix of `X` on qubit 1 of a 2-qubit register sends `|00⟩`
to `|01⟩`. -/
example : fullMat (α := ℤ) 2 (gX 1) 1 0 = 1 ∧ fullMat (α := ℤ) 2 (gX 1) 0 0 = 0 := by decide

end QV.Props.C04
