/-
  C17 (part b) — the Pauli change of basis used by `*_to_pauli`, `pauli_to_*`, `*_to_chi`,
  `chi_to_*`.  Model: `pauliN`, `compToPauli`, `pauliToComp`, `liouvilleToPauli`,
  `pauliToLiouville` of QV/Model/Superop.lean (tied to `basis.pauli_basis`,
  `comp_basis_to_pauli`, `pauli_to_comp_basis`, `liouville_to_pauli`, `pauli_to_liouville`
  by exact correspondence for the 24 orderings and the three vectorisation orders).

  Scalars: any commutative ring with an element `im`, `im² = -1`, and a conjugation `conj`
  satisfying `ConjOK` (ℂ with `star` is an instance, see the example).
-/
import Mathlib.Data.Complex.Basic
import QV.Proofs.PauliBasis
namespace QV.Props.C17
open QV QV.Superop

variable {α : Type} [CommRing α]

/-- the n-qubit Pauli strings are orthogonal for the Hilbert–Schmidt product:
`tr(P_k† P_l) = 2^n δ_kl`, for every number of qubits `n` and every `pauli_order`
(by induction on the Kronecker structure of the basis). -/
theorem T17_pauli_orthogonal {conj : α → α} {im : α} (h : ConjOK conj im) {po : List Nat}
    (hpo : ValidPO po) (n : Nat) {k l : Nat} (hk : k < 4 ^ n) (hl : l < 4 ^ n) :
    gramN conj im po n k l = if k = l then (2 : α) ^ n else 0 :=
  gramN_eq h hpo n k l hk hl

/-- the Hilbert–Schmidt product factorises over the last qubit (Kronecker lemma). -/
theorem T17_pauli_kronecker_step {conj : α → α} {im : α} (h : ConjOK conj im) (po : List Nat)
    (n k l : Nat) :
    gramN conj im po (n + 1) k l
      = gramN conj im po n (k / 4) (l / 4) * gram1 conj im (po.getD (k % 4) 0) (po.getD (l % 4) 0) :=
  gramN_succ h po n k l

/-- full statement of "the comp→Pauli matrix `B` is `√d` times a unitary, hence
`pauli_to_liouville ∘ liouville_to_pauli = d² · id`": both `B B† = d·1` and `B† B = d·1`.
The first half is `T17_pauli_unitary_partial` below; the second half (completeness of the Pauli
strings), the whole statement (`T17_pauli_unitary_full_proved`) and the round trips with the
exact factor per `normalize` flag are proved in part c (QV/Props/C17c.lean). -/
def T17_pauli_unitary_full (conj : α → α) (im : α) (po : List Nat) (o : Order) (n : Nat) : Prop :=
  (∀ k l, k < 4 ^ n → l < 4 ^ n →
    matMul (4 ^ n) (compToPauli conj im po o n) (conjT conj (compToPauli conj im po o n)) k l
      = if k = l then (2 : α) ^ n else 0) ∧
  (∀ k l, k < 4 ^ n → l < 4 ^ n →
    matMul (4 ^ n) (conjT conj (compToPauli conj im po o n)) (compToPauli conj im po o n) k l
      = if k = l then (2 : α) ^ n else 0)

/-- `B B† = 2^n · 1` for the un-normalised `comp_basis_to_pauli(n, order, pauli_order)`, for
every `n`, each of the three vectorisation orders and every valid `pauli_order`. -/
theorem T17_pauli_unitary_partial {conj : α → α} {im : α} (h : ConjOK conj im) {po : List Nat}
    (hpo : ValidPO po) (o : Order) (n : Nat) {k l : Nat} (hk : k < 4 ^ n) (hl : l < 4 ^ n) :
    matMul (4 ^ n) (compToPauli conj im po o n) (conjT conj (compToPauli conj im po o n)) k l
      = if k = l then (2 : α) ^ n else 0 :=
  compToPauli_mul_conjT h hpo o n hk hl

/-- a sum over the positions of a vectorised operator is the double sum over its entries, for
every order (used to make the statement above independent of the order). -/
theorem T17_sum_over_vec (o : Order) {d n : Nat} (hw : WF o d n) (f : Nat → Nat → α) :
    ∑ m ∈ Finset.range (d * d), f (rowOf o d n m) (colOf o d n m)
      = ∑ i ∈ Finset.range d, ∑ j ∈ Finset.range d, f i j :=
  sum_vec_reindex o hw f

/-! ### non-vacuity -/

/-- complex conjugation and `Complex.I` satisfy the hypotheses. -/
example : ConjOK (starRingEnd ℂ) Complex.I :=
  { zero := map_zero _, one := map_one _, neg := fun x => map_neg _ x,
    mul := fun x y => map_mul _ x y, conj_im := Complex.conj_I, im_sq := Complex.I_mul_I,
    invol := fun x => Complex.conj_conj x }

/-- "IXYZ" and a non-trivial ordering ("YZIX" = [2,3,0,1]) are valid; so are all 24. -/
example : ValidPO [0, 1, 2, 3] ∧ ValidPO [2, 3, 0, 1] := by
  refine ⟨⟨by decide, by decide⟩, ⟨by decide, by decide⟩⟩

/-- all 24 orderings. -/
example : ∀ po ∈ ([
    [0, 1, 2, 3], [0, 1, 3, 2], [0, 2, 1, 3], [0, 2, 3, 1], [0, 3, 1, 2], [0, 3, 2, 1], [1, 0,
    2, 3], [1, 0, 3, 2], [1, 2, 0, 3], [1, 2, 3, 0], [1, 3, 0, 2], [1, 3, 2, 0], [2, 0, 1, 3],
    [2, 0, 3, 1], [2, 1, 0, 3], [2, 1, 3, 0], [2, 3, 0, 1], [2, 3, 1, 0], [3, 0, 1, 2], [3, 0,
    2, 1], [3, 1, 0, 2], [3, 1, 2, 0], [3, 2, 0, 1], [3, 2, 1, 0]] : List (List Nat)), (∀ a, a < 4 → po.getD a 0 < 4) ∧
    (∀ a, a < 4 → ∀ b, b < 4 → po.getD a 0 = po.getD b 0 → a = b) := by decide

end QV.Props.C17
