/-
  C17 (part d) — channel OBJECTS: `qibo/quantum_info/quantum_networks.py`.

  Model: QV/Model/Networks.lean — the tensor bookkeeping of `QuantumNetwork`, `QuantumComb`,
  `QuantumChannel` (partition shapes, `_operator_to_tensor`, `from_operator` with and without
  `inverse`, pure vs. full storage, `full()`, `operator()`/`matrix()`, the einsum of `apply`, the
  general einsum + partition bookkeeping of `link_product`, `@`, `IdentityChannel`), compared
  exactly with the real classes on Gaussian-integer data on every run
  (tools/props/C17_networks.py, driver lean/DriverC17b.lean).

  Scalars: an arbitrary commutative semiring with a map `conj`; where sums have to be pulled
  through `conj` it is required to be a semiring homomorphism (`ConjHom`).  All statements hold
  for EVERY input / output dimension (non-square channels included) and every Kraus rank.

  Conventions established by the code (and its documentation):
    * a channel object has partition `(d_in, d_out)`; a pure one stores `ψ[in, out] = K[out, in]`;
    * the Choi operator accepted WITHOUT `inverse` is the column-vectorised one (input leg first),
      the conventional row-vectorised one (`kraus_to_choi` default, output leg first) needs
      `inverse=True` — as the class documentation says;
    * `A @ B` (= `A.link_product("jk,kl->jl", B)`, documented as "applying B to A") is the channel
      "A first, then B".

  Well-typedness: every composition statement below carries the hypothesis that the connected
  legs have EQUAL dimensions (`A.part = [d₀, d₁]`, `B.part = [d₁, d₂]`, …).  Remark: the real code
  enforces this for `channel @ channel` only; `link_product` and the super-channel branch of `@`
  leave it to `einsum`, which broadcasts a leg of dimension 1 against a larger one instead of
  refusing (input validation, outside the property; recorded as a statistic by the harness).
-/
import QV.Proofs.Networks
namespace QV.Props.C17
open QV QV.Superop QV.Networks

variable {α : Type} [CommSemiring α]

/-! ### (i) `apply` of the channel object built from a Choi operator -/

/-- `QuantumChannel.from_operator(C, (d_out, d_in), inverse=True).apply(ρ)` reads ANY matrix `C`
as a row-vectorised Choi operator, `QuantumChannel.from_operator(C, (d_in, d_out)).apply(ρ)` as a
column-vectorised one; for `d_in = d_out` this is the Choi action `applyChoi` of the conversion
model (`T17_choi_action`, `T17_liouville_of_choi`). -/
theorem T17_net_apply_is_choi_action (conj : α → α) (C ρ : Mat α) {din dout : Nat} (n : Nat)
    {j l : Nat} (hj : j < dout) (hl : l < dout) :
    chanApply conj (combFromOperator C [dout, din] true) ρ j l
        = applyChoiRect .row din dout n C ρ j l
    ∧ chanApply conj (combFromOperator C [din, dout] false) ρ j l
        = applyChoiRect .column din dout n C ρ j l :=
  ⟨chanApply_fromChoi_row conj C ρ n hj hl, chanApply_fromChoi_column conj C ρ n hj hl⟩

theorem T17_net_apply_is_choi_action_square (conj : α → α) (C ρ : Mat α) {d : Nat} (n : Nat)
    {j l : Nat} (hj : j < d) (hl : l < d) :
    chanApply conj (combFromOperator C [d, d] true) ρ j l = applyChoi .row d n C ρ j l
    ∧ chanApply conj (combFromOperator C [d, d] false) ρ j l = applyChoi .column d n C ρ j l := by
  rw [← applyChoiRect_square, ← applyChoiRect_square]
  exact T17_net_apply_is_choi_action conj C ρ n hj hl

/-- the channel object built from the row-order Choi operator `kraus_to_choi(K)` of a Kraus
family (operators `d_out × d_in`, any rank) with `inverse=True` applies as `ρ ↦ Σ K ρ K†`. -/
theorem T17_net_apply_kraus_row (conj : α → α) {din dout : Nat} (n : Nat) (Ks : List (Mat α))
    (ρ : Mat α) {j l : Nat} (hj : j < dout) (hl : l < dout) :
    chanApply conj (combFromOperator (krausToChoi conj .row din n Ks) [dout, din] true) ρ j l
      = applyKraus conj din Ks ρ j l :=
  (chanApply_fromChoi_row conj _ ρ n hj hl).trans
    (applyChoiRect_krausToChoi conj .row (by decide) n Ks ρ hj hl)

/-- … and the one built from the column-order Choi operator without `inverse`. -/
theorem T17_net_apply_kraus_column (conj : α → α) {din dout : Nat} (n : Nat) (Ks : List (Mat α))
    (ρ : Mat α) {j l : Nat} (hj : j < dout) (hl : l < dout) :
    chanApply conj (combFromOperator (krausToChoi conj .column dout n Ks) [din, dout] false) ρ j l
      = applyKraus conj din Ks ρ j l :=
  (chanApply_fromChoi_column conj _ ρ n hj hl).trans
    (applyChoiRect_krausToChoi conj .column (by decide) n Ks ρ hj hl)

/-- both constructions give the same tensor, `krausTen` (so the two documented conventions build
the same object): `T[t₀,t₁] = Σ_K K[t₁/d_out, t₀/d_in] · conj K[t₁%d_out, t₀%d_in]`. -/
theorem T17_net_choi_conventions_agree (conj : α → α) {din dout : Nat} (n : Nat)
    (Ks : List (Mat α)) {t0 t1 : Nat} (h0 : t0 < din * din) (h1 : t1 < dout * dout) :
    (combFromOperator (krausToChoi conj .row din n Ks) [dout, din] true).ten [t0, t1]
        = krausTen conj din dout Ks [t0, t1]
    ∧ (combFromOperator (krausToChoi conj .column dout n Ks) [din, dout] false).ten [t0, t1]
        = krausTen conj din dout Ks [t0, t1] :=
  ⟨fromChoi_row_ten conj n Ks h0 t1, fromChoi_column_ten conj n Ks t0 h1⟩

/-- `apply` of the reference object `krausNet`. -/
theorem T17_net_apply_krausNet (conj : α → α) {din dout : Nat} (Ks : List (Mat α)) (ρ : Mat α)
    {j l : Nat} (hj : j < dout) (hl : l < dout) :
    chanApply conj (krausNet conj din dout Ks) ρ j l = applyKraus conj din Ks ρ j l :=
  chanApply_krausNet conj Ks ρ hj hl

/-! ### (iii) pure networks -/

/-- `full()` of a pure channel object storing `ψ` is the Choi tensor of the one-element Kraus
family `K[out, in] = ψ[in, out]`. -/
theorem T17_net_full_pure_channel (conj : α → α) (N : Net α) (hp : N.pure = true)
    {din dout : Nat} (hN : N.part = [din, dout]) (t0 t1 : Nat) :
    fullTen conj N [t0, t1] = krausTen conj din dout [storedOp N] [t0, t1] :=
  fullTen_pure_channel conj N hp hN t0 t1

/-- any partition: `full()` of a pure network is `ψ[a] · conj ψ[b]` at the tensor index
`t_k = a_k p_k + b_k`, and `matrix()` is `vec ψ · vec ψ†` in C order. -/
theorem T17_net_full_pure (conj : α → α) (v : Nat → α) (part : List Nat) (s : Option (List Bool)) :
    (∀ t, fullTen conj (mkNet v part s true) t
        = v (flat part (rowIdx part t)) * conj (v (flat part (colIdx part t))))
    ∧ (∀ r c, r < prodL part → c < prodL part →
        matrix conj (mkNet v part s true) r c = v r * conj (v c)) :=
  ⟨fullTen_pure conj v part s, fun _ _ hr hc => matrix_pure conj v part s hr hc⟩

/-- the pure branch of `apply` (`einsum("ij,lk,il")`) is `K ρ K†` for the stored operator, and
`apply` is unchanged by `full(update=True)` (the `einsum("ijkl,ik")` branch on the full tensor). -/
theorem T17_net_apply_pure (conj : α → α) (N : Net α) (hp : N.pure = true) {din dout : Nat}
    (hN : N.part = [din, dout]) (ρ : Mat α) {j k : Nat} (hj : j < dout) (hk : k < dout) :
    chanApply conj N ρ j k = applyKraus conj din [storedOp N] ρ j k
    ∧ chanApply conj (fullNet conj N) ρ j k = chanApply conj N ρ j k :=
  ⟨chanApply_pure_kraus conj N hp hN ρ j k, chanApply_fullNet conj N hp hN ρ hj hk⟩

/-- `from_operator(M, partition).matrix() = M` and `_operator_to_tensor(matrix()) = tensor`, for
every partition (any number of systems). -/
theorem T17_net_operator_roundtrip (conj : α → α) (M : Mat α) (part : List Nat)
    (s : Option (List Bool)) {r c : Nat} (hr : r < prodL part) (hc : c < prodL part) :
    matrix conj (fromOperator M part s) r c = M r c :=
  matrix_fromOperator conj M part s hr hc

theorem T17_net_tensor_roundtrip (conj : α → α) (N : Net α) (hp : N.pure = false) (t : List Nat)
    (ht : InRange (rowIdx N.part t) N.part) (ht' : InRange (colIdx N.part t) N.part)
    (hl : t.length = N.part.length) :
    operatorToTensor (matrix conj N) N.part t = N.ten t :=
  operatorToTensor_matrix conj N hp t ht ht' hl

/-- the C-order flat index is a bijection between in-range multi-indices and `[0, ∏ p)`. -/
theorem T17_net_flat_bijection (ps : List Nat) :
    (∀ is, InRange is ps → flat ps is < prodL ps ∧ unflat ps (flat ps is) = is)
    ∧ (∀ k, k < prodL ps → InRange (unflat ps k) ps ∧ flat ps (unflat ps k) = k) :=
  ⟨fun is h => ⟨flat_lt ps is h, unflat_flat ps is h⟩,
   fun k h => ⟨unflat_inRange ps k h, flat_unflat ps k h⟩⟩

/-! ### (ii) link product = composition, "A first, then B" -/

/-- what `A @ B` computes on two channel objects (pure ones enter through `full()`): partition
`(d₀, d₂)`, non-pure, tensor `Σ_{t < d₁²} A[t₀,t] · B[t,t₂]`; `__matmul__` refuses differing inner
dimensions. -/
theorem T17_net_matmul_spec (conj : α → α) (A B : Net α) {d0 d1 d2 : Nat}
    (hA : A.part = [d0, d1]) (hB : B.part = [d1, d2]) (t0 t2 : Nat) :
    matmul conj A B = some (matmulCh conj A B)
    ∧ (matmulCh conj A B).part = [d0, d2] ∧ (matmulCh conj A B).pure = false
    ∧ (matmulCh conj A B).ten [t0, t2]
        = sumRange (d1 * d1) (fun t => fullTen conj A [t0, t] * fullTen conj B [t, t2]) :=
  ⟨matmul_channels conj A B hA hB, (matmulCh_part conj A B hA hB).1,
   (matmulCh_part conj A B hA hB).2, matmulCh_ten conj A B hA hB t0 t2⟩

theorem T17_net_matmul_refuses (conj : α → α) (A B : Net α) {d0 d1 d1' d2 : Nat}
    (hA : A.part = [d0, d1]) (hB : B.part = [d1', d2]) (h : d1 ≠ d1') :
    matmul conj A B = none :=
  matmul_refuses conj A B hA hB h

/-- the system_input flags of `A @ B` are the input flag of `A` and the output flag of `B`. -/
theorem T17_net_matmul_system_input (conj : α → α) (A B : Net α) {a0 a1 b0 b1 : Bool}
    (hA : A.sysIn = [a0, a1]) (hB : B.sysIn = [b0, b1]) :
    (matmulCh conj A B).sysIn = [a0, b1] :=
  matmulCh_sysIn conj A B hA hB

/-- for ARBITRARY tensors (completely positive or not, pure or not) and all dimensions
`d₀ → d₁ → d₂`: `(A @ B).apply(ρ) = B.apply(A.apply(ρ))`. -/
theorem T17_net_compose_apply (conj : α → α) (A B : Net α) {d0 d1 d2 : Nat}
    (hA : A.part = [d0, d1]) (hB : B.part = [d1, d2]) (ρ : Mat α) (j l : Nat) :
    chanApply conj (matmulCh conj A B) ρ j l
      = chanApply conj (fullNet conj B) (chanApply conj (fullNet conj A) ρ) j l :=
  chanApply_matmulCh conj A B hA hB ρ j l

/-- `A @ B` of the channel objects of two Kraus families is the channel object of the family of
products `L · K` (`K ∈ A` first). -/
theorem T17_net_compose_kraus {conj : α → α} (hc : ConjHom conj) {d0 d1 d2 : Nat}
    (Ks Ls : List (Mat α)) (t0 t2 : Nat) :
    (matmulCh conj (krausNet conj d0 d1 Ks) (krausNet conj d1 d2 Ls)).ten [t0, t2]
      = (krausNet conj d0 d2 (composeKraus d1 Ks Ls)).ten [t0, t2] :=
  matmulCh_krausNet hc Ks Ls t0 t2

/-- the same for the objects built from the (row-order, `inverse=True`) Choi operators
`kraus_to_choi(K)`, `kraus_to_choi(L)`: `A @ B` is the object built from
`kraus_to_choi({L · K})`. -/
theorem T17_net_compose_choi {conj : α → α} (hc : ConjHom conj) {d0 d1 d2 : Nat} (n : Nat)
    (Ks Ls : List (Mat α)) {t0 t2 : Nat} (h0 : t0 < d0 * d0) :
    (matmulCh conj (combFromOperator (krausToChoi conj .row d0 n Ks) [d1, d0] true)
        (combFromOperator (krausToChoi conj .row d1 n Ls) [d2, d1] true)).ten [t0, t2]
      = (combFromOperator (krausToChoi conj .row d0 n (composeKraus d1 Ks Ls)) [d2, d0] true).ten
          [t0, t2] := by
  rw [matmulCh_ten conj _ _ (combFromOperator_inv_part _ d0 d1).1 (combFromOperator_inv_part _ d1 d2).1,
    fromChoi_row_ten conj n _ h0, sumRange_eq_sum, ← krausTen_compose hc Ks Ls t0 t2]
  refine Finset.sum_congr rfl (fun t ht => ?_)
  rw [fullTen_of_not_pure conj _ (combFromOperator_inv_part _ d0 d1).2.1,
    fullTen_of_not_pure conj _ (combFromOperator_inv_part _ d1 d2).2.1,
    fromChoi_row_ten conj n Ks h0, fromChoi_row_ten conj n Ls (Finset.mem_range.mp ht)]

/-- pure ∘ pure: `N_K @ N_L` (both pure) is `full()` of the pure object storing the matrix product
`ψ_K · ψ_L` (= `(L K)ᵀ`), entrywise. -/
theorem T17_net_compose_pure {conj : α → α} (hc : ConjHom conj) (A B : Net α) (hpA : A.pure = true)
    (hpB : B.pure = true) {d0 d1 d2 : Nat} (hA : A.part = [d0, d1]) (hB : B.part = [d1, d2])
    (t0 t2 : Nat) :
    (matmulCh conj A B).ten [t0, t2]
      = krausTen conj d0 d2 [matMul d1 (storedOp B) (storedOp A)] [t0, t2] := by
  rw [matmulCh_ten conj A B hA hB, sumRange_eq_sum]
  simp only [fullTen_pure_channel conj A hpA hA, fullTen_pure_channel conj B hpB hB]
  rw [krausTen_compose hc]
  rfl

/-! ### (iv) associativity and units -/

/-- `(A @ B) @ C = A @ (B @ C)` entrywise, for arbitrary channel objects (pure or not) of
dimensions `d₀ → d₁ → d₂ → d₃`. -/
theorem T17_net_matmul_assoc (conj : α → α) (A B C : Net α) {d0 d1 d2 d3 : Nat}
    (hA : A.part = [d0, d1]) (hB : B.part = [d1, d2]) (hC : C.part = [d2, d3]) (t0 t3 : Nat) :
    (matmulCh conj (matmulCh conj A B) C).ten [t0, t3]
      = (matmulCh conj A (matmulCh conj B C)).ten [t0, t3] :=
  matmulCh_assoc conj A B C hA hB hC t0 t3

/-- `IdentityChannel(d)` is a left and a right unit of `@` (the result is the full tensor). -/
theorem T17_net_identity_unit {conj : α → α} (hc : ConjHom conj) (A : Net α) {d0 d1 : Nat}
    (hA : A.part = [d0, d1]) {t0 t1 : Nat} (h0 : t0 < d0 * d0) (h1 : t1 < d1 * d1) :
    (matmulCh conj (identityChannel d0) A).ten [t0, t1] = fullTen conj A [t0, t1]
    ∧ (matmulCh conj A (identityChannel d1)).ten [t0, t1] = fullTen conj A [t0, t1] :=
  ⟨matmulCh_identity_left hc A hA h0 t1, matmulCh_identity_right hc A hA t0 h1⟩

/-- `IdentityChannel(d).apply(ρ) = ρ`. -/
theorem T17_net_identity_apply {conj : α → α} (hc : ConjHom conj) (d : Nat) (ρ : Mat α) {j k : Nat}
    (hj : j < d) (hk : k < d) :
    chanApply conj (identityChannel d : Net α) ρ j k = ρ j k := by
  rw [chanApply_pure conj _ rfl (rfl : (identityChannel d : Net α).part = [d, d])]
  have hten : ∀ a b : Nat, (identityChannel d : Net α).ten [a, b] = if a = b then 1 else 0 :=
    fun _ _ => rfl
  simp only [hten]
  rw [Finset.sum_eq_single j]
  · rw [Finset.sum_eq_single k]
    · simp [hc.one]
    · intro b _ hb; simp [hb, hc.zero]
    · intro h; exact absurd (Finset.mem_range.mpr hk) h
  · intro b _ hb; simp [hb]
  · intro h; exact absurd (Finset.mem_range.mpr hj) h

/-- super-channel applied to a channel, `S @ B` = `"jklm,kl->jm"`: partition `(d₀, d₃)` and the
double contraction over the two inner legs. -/
theorem T17_net_super_spec (conj : α → α) (S B : Net α) {d0 d1 d2 d3 e1 e2 : Nat}
    (hS : S.part = [d0, d1, d2, d3]) (hB : B.part = [e1, e2]) (t0 t3 : Nat) :
    (matmulSuper conj S B).part = [d0, d3]
    ∧ (matmulSuper conj S B).ten [t0, t3]
        = sumRange (d1 * d1) (fun t1 => sumRange (d2 * d2) (fun t2 =>
            fullTen conj S [t0, t1, t2, t3] * fullTen conj B [t1, t2])) :=
  ⟨matmulSuper_part conj S B hS hB, matmulSuper_ten conj S B hS hB t0 t3⟩

/-- a super-channel that is a tensor product `P ⊗ Q` (`link_product("jk,lm->jklm", P, Q)`: pre-
and post-processing around an open slot) applied to a channel `B` is `P`, then `B`, then `Q`
(`(P ⊗ Q) @ B = (P @ B) @ Q`), for all dimensions `d₀ → d₁ → d₂ → d₃`. -/
theorem T17_net_super_sandwich (conj : α → α) (P Q B : Net α) {d0 d1 d2 d3 : Nat}
    (hP : P.part = [d0, d1]) (hB : B.part = [d1, d2]) (hQ : Q.part = [d2, d3]) (t0 t3 : Nat) :
    (matmulSuper conj (tensorCh conj P Q) B).ten [t0, t3]
      = (matmulCh conj (matmulCh conj P B) Q).ten [t0, t3] :=
  matmulSuper_tensorCh conj P Q B hP hB hQ t0 t3

/-- feeding the state network `QuantumChannel.from_operator(ρ)` (partition `(1, d)`) through a
channel object by link product is `apply`: `state @ N` is the state network of `N.apply(ρ)`. -/
theorem T17_net_state_link_is_apply (conj : α → α) (N : Net α) {d0 d1 : Nat}
    (hN : N.part = [d0, d1]) (ρ : Mat α) {j l : Nat} (hl : l < d1) :
    (matmulCh conj (stateNet ρ d0) N).ten [0, j * d1 + l]
      = (stateNet (chanApply conj (fullNet conj N) ρ) d1).ten [0, j * d1 + l] :=
  matmulCh_stateNet conj N hN ρ hl

/-! ### the predicates `is_causal`, `is_unital`, `is_hermitian` on channel objects -/

/-- what `is_causal()` tests on the channel object of a Kraus family (operators `d_out × d_in`),
exactly: `d_in · (Σ K†K)ᵀ = tr(Σ K†K) · 1` — the map is trace-preserving UP TO A SCALAR. -/
theorem T17_net_is_causal_kraus [DecidableEq α] (conj : α → α) (din dout : Nat)
    (Ks : List (Mat α)) :
    isCausal conj (krausNet conj din dout Ks) = true ↔
      ∀ t, t < din * din →
        din • gramIn conj dout Ks (t / din) (t % din)
          = (Finset.sum (Finset.range din) fun j => gramIn conj dout Ks j j) * eyeVec din t :=
  isCausal_krausNet conj din dout Ks

/-- a trace-preserving family gives a causal channel object. -/
theorem T17_net_is_causal_of_tp [DecidableEq α] (conj : α → α) (din dout : Nat) (Ks : List (Mat α))
    (htp : ∀ i k, i < din → k < din → gramIn conj dout Ks i k = if i = k then 1 else 0) :
    isCausal conj (krausNet conj din dout Ks) = true :=
  isCausal_of_tp conj din dout Ks htp

/-- what `is_unital()` tests: `d_out · Σ K K† = tr(Σ K K†) · 1`. -/
theorem T17_net_is_unital_kraus [DecidableEq α] (conj : α → α) (din dout : Nat)
    (Ks : List (Mat α)) :
    isUnital conj (krausNet conj din dout Ks) = true ↔
      ∀ t, t < dout * dout →
        dout • gramOut conj din Ks (t / dout) (t % dout)
          = eyeVec dout t * (Finset.sum (Finset.range dout) fun o => gramOut conj din Ks o o) :=
  isUnital_krausNet conj din dout Ks

/-- the Choi matrix (`matrix()`) of the channel object of a Kraus family is
`M[(i,o),(k,p)] = Σ_K K[o,i] · conj K[p,k]` (input leg major) and Hermitian, so `is_hermitian()`
holds (conjugation an involutive homomorphism). -/
theorem T17_net_is_hermitian_kraus [DecidableEq α] {conj : α → α} (hc : ConjHom conj)
    (hinv : ∀ x, conj (conj x) = x) (din dout : Nat) (Ks : List (Mat α)) :
    isHermitian conj (krausNet conj din dout Ks) = true
    ∧ ∀ r c, r < din * dout → c < din * dout →
        matrix conj (krausNet conj din dout Ks) r c
          = sumList Ks (fun K => K (r % dout) (r / dout) * conj (K (c % dout) (c / dout))) :=
  ⟨isHermitian_krausNet hc hinv din dout Ks, fun _ _ hr hc' => matrix_krausNet conj Ks hr hc'⟩

/-- `is_causal` accepts a map that is trace-preserving only up to a factor: twice the identity
channel on a qubit (Kraus family `{1, 1}`) is "causal" — and a non-isometric `K` is not. -/
example :
    let one : Mat Int := fun i j => if i = j then 1 else 0
    let K : Mat Int := fun i j => if i = 0 ∧ j = 0 then 1 else if i = 0 ∧ j = 1 then 2
      else if i = 1 ∧ j = 1 then 3 else 0
    isCausal id (krausNet id 2 2 [one, one]) = true ∧ isCausal id (krausNet id 2 2 [K]) = false
      ∧ isUnital id (krausNet id 2 2 [one]) = true ∧ isUnital id (krausNet id 2 2 [K]) = false := by
  decide

/-! ### non-vacuity and concrete instances -/

/-- the identity is a `ConjHom` (real scalars); so is complex conjugation on Gaussian integers
(checked on the driver's scalar type through the correspondence). -/
example : ConjHom (id : Int → Int) := ⟨rfl, rfl, fun _ _ => rfl, fun _ _ => rfl⟩

/-- a non-square channel `2 → 1` with two Kraus operators `K₁ = (1 2)`, `K₂ = (0 3)` over ℤ,
`ρ = [[1,1],[0,2]]`: `Σ K ρ Kᵀ = (1·1 + 1·2 + 2·2·2) + 3·2·3 = 11 + 18 = 29`, through both Choi
conventions. -/
example :
    let K1 : Mat Int := fun _ j => if j = 0 then 1 else 2
    let K2 : Mat Int := fun _ j => if j = 0 then 0 else 3
    let ρ : Mat Int := fun i j => if i = 0 then 1 else if j = 1 then 2 else 0
    chanApply id (combFromOperator (krausToChoi id .row 2 0 [K1, K2]) [1, 2] true) ρ 0 0 = 29
      ∧ chanApply id (combFromOperator (krausToChoi id .column 1 0 [K1, K2]) [2, 1] false) ρ 0 0 = 29
      ∧ applyKraus id 2 [K1, K2] ρ 0 0 = 29 := by decide

/-- `A @ B` is "A first": with `A = N_K`, `B = N_L`, `K = [[1,2],[0,3]]`, `L = [[1,0],[1,1]]`,
entry `[t₀,t₂] = [1, 2]` of the composed tensor is that of `L·K`, not of `K·L`. -/
example :
    let K : Mat Int := fun i j => if i = 0 ∧ j = 0 then 1 else if i = 0 ∧ j = 1 then 2
      else if i = 1 ∧ j = 1 then 3 else 0
    let L : Mat Int := fun i j => if i = 1 ∧ j = 0 then 1 else if i = j then 1 else 0
    (matmulCh id (krausNet id 2 2 [K]) (krausNet id 2 2 [L])).ten [1, 2]
        = (krausNet id 2 2 [matMul 2 L K]).ten [1, 2]
      ∧ (krausNet id 2 2 [matMul 2 L K]).ten [1, 2] ≠ (krausNet id 2 2 [matMul 2 K L]).ten [1, 2] := by
  decide

/-- the hypotheses of the round-trip statements are satisfiable: partition `(2, 3)`. -/
example : InRange [1, 2] [2, 3] ∧ flat [2, 3] [1, 2] = 5 ∧ unflat [2, 3] 5 = [1, 2] ∧ prodL [2, 3] = 6 :=
  ⟨⟨by decide, by decide, trivial⟩, by decide, by decide, by decide⟩

end QV.Props.C17
