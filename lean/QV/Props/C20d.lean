/-
  C20 (part d) — `phase_encoder`, and the loading chains of `hamming_weight_encoder` /
  `binary_encoder(·, "hyperspherical")` for real AND complex data, step by step.
  Property theorems only; proofs in QV/Proofs/EncodingsB.lean.
  Model: QV/Model/EncodingsB.lean (gate lists with symbolic angle indices, compared verbatim
  with the queues of the real constructors on every run), executed by the simulator model
  QV/Model/Sim.lean over an arbitrary commutative ring with a parameter pack `P : Par2 α`:
    P.c e / P.s e = cos / sin of the modulus angle θ_e  (RBS(θ_e), RY(2θ_e), RX(2θ_e), U3(2θ_e,·,·)),
    P.p f / P.m f = exp(±iφ_f/2) of the phase angle φ_f  (RZ(±φ_f), RZ(2φ_f), U3(·, 2φ_f, 0)),
    P.i = the imaginary unit, P.lp0 … P.lm1 = the unit phases of the last U3 gate.
  Only `P.p f · P.m f = 1` is assumed.
-/
import QV.Proofs.EncodingsB
namespace QV.Props.C20
open QV QV.Enc Finset

variable {α : Type} [CommRing α]

/-! ### phase_encoder: a product state, for every number of qubits and every rotation axis -/

/-- `phase_encoder(data, "RY")` on `n` qubits maps `|0…0⟩` to `⊗_q (cos(x_q/2)|0⟩ + sin(x_q/2)|1⟩)`
(`P.c q = cos(x_q/2)`, `P.s q = sin(x_q/2)`): the amplitude of `|y⟩` is the product of the
single-qubit amplitudes, 0 when `y` has a 1 outside the register. -/
theorem T20_phase_encoder_ry (P : Par2 α) (n : Nat) (y : Lab) :
    runCircuit ((phaseEnc n .RY).map (BG.sem P)) (ket zeroLab) y
      = ind (∀ q, n ≤ q → y q = false) * ∏ q ∈ range n, (if y q then P.s q else P.c q) := by
  rw [phaseEnc_state P n .RY (Or.inr (Or.inl rfl))]
  show _ * _ = _ * _
  congr 1
  apply prod_congr rfl
  intro q _
  cases y q <;> simp [BG.sem, matRY, mat2, b2n]

/-- `phase_encoder(data, "RX")`: `⊗_q (cos(x_q/2)|0⟩ − i·sin(x_q/2)|1⟩)`. -/
theorem T20_phase_encoder_rx (P : Par2 α) (n : Nat) (y : Lab) :
    runCircuit ((phaseEnc n .RX).map (BG.sem P)) (ket zeroLab) y
      = ind (∀ q, n ≤ q → y q = false) * ∏ q ∈ range n, (if y q then -(P.i * P.s q) else P.c q) := by
  rw [phaseEnc_state P n .RX (Or.inl rfl)]
  show _ * _ = _ * _
  congr 1
  apply prod_congr rfl
  intro q _
  cases y q <;> simp [BG.sem, matRX, mat2, b2n]

/-- `phase_encoder(data, "RZ")`: `|0…0⟩` only acquires the phase `∏_q exp(−i x_q/2)`
(`P.m q = exp(−i x_q/2)`). -/
theorem T20_phase_encoder_rz (P : Par2 α) (n : Nat) (y : Lab) :
    runCircuit ((phaseEnc n .RZ).map (BG.sem P)) (ket zeroLab) y
      = ind (∀ q, n ≤ q → y q = false) * ∏ q ∈ range n, (if y q then 0 else P.m q) := by
  rw [phaseEnc_state P n .RZ (Or.inr (Or.inr rfl))]
  show _ * _ = _ * _
  congr 1
  apply prod_congr rfl
  intro q _
  cases y q <;> simp [BG.sem, matRZ, mat2, b2n]

/-- the gate list itself: `n` uncontrolled rotations, gate `q` on qubit `q` with parameter `q`. -/
theorem T20_phase_encoder_gates (n : Nat) (rot : BK) (g : BG) :
    g ∈ phaseEnc n rot ↔ ∃ q, q < n ∧ g = { kind := rot, q0 := q, e := q, f := q } := by
  unfold phaseEnc
  simp only [List.mem_map, List.mem_range]
  constructor
  · rintro ⟨q, hq, rfl⟩; exact ⟨q, hq, rfl⟩
  · rintro ⟨q, hq, rfl⟩; exact ⟨q, hq, rfl⟩

/-! ### loading chains, real or complex data -/

/-- **Loading chain (every step kind of `hamming_weight_encoder` and of the hyperspherical
`binary_encoder`, real or complex data).**  Step `k` is described by `D k : ChainStep`:
`add = false`: the gates of `_get_gate` — `RBS(a, b, θ_k)` controlled on `cs`, for complex data
followed by `RZ(a, −φ_k)` and `RZ(b, φ_k)` with the same controls; `add = true`: the rotation that
opens the next Hamming-weight block — `RY(a, 2θ_k)` controlled on `cs`, for complex data
`U3(a, 2θ_k, 2φ_k, 0)` (the very last one `U3(a, 2θ_k, φ', λ')`).  `v 0, v 1, …` are the basis
states visited.  If every step finds its own state with all controls on and the right bit
pattern (`okAt`), produces the next state (`next`: move the 1 from `a` to `b` / set bit `a`), and
leaves every earlier state alone (`fixes`: a control is off, or — for a move — the two target
bits are equal), then the circuit maps `|v 0⟩` to
`Σ_k (B₀⋯B_{k-1}·A_k) |v k⟩ + (B₀⋯B_{m-1}) |v m⟩` with `A k = cos θ_k`, `B k = sin θ_k` for real
data and `A k = e^{−iφ_k} cos θ_k`, `B k = e^{iφ_k} sin θ_k` for complex data.  The hypotheses
are decidable facts about the gate list and are verified by the check on the real circuits
(all `n ≤ 7..8`, all weights, all option combinations) on every run. -/
theorem T20_loading_chain (P : Par2 α) (hpm : ∀ k, P.p k * P.m k = 1) (cplx : Bool)
    (D : Nat → ChainStep) (v : Nat → Lab) (m : Nat)
    (hon : ∀ k, k < m → (D k).okAt (v k))
    (hnext : ∀ k, k < m → v (k + 1) = (D k).next (v k))
    (hfix : ∀ k, k < m → ∀ j, j < k → (D k).fixes (v j)) :
    runCircuit ((numberSteps ((List.range m).map (fun k => (D k).fn cplx))).map (BG.sem P)) (ket (v 0))
      = chainStateAB (fun k => (D k).A P cplx k) (fun k => (D k).B P cplx k) v m :=
  loading_chain P hpm cplx D v m hon hnext hfix

/-- what the coefficients are: real data. -/
theorem T20_chain_coefficients_real (P : Par2 α) (d : ChainStep) (k : Nat) :
    d.A P false k = P.c k ∧ d.B P false k = P.s k := by
  cases h : d.add <;> simp [ChainStep.A, ChainStep.B, h, stepA, stepB, ryA, ryB]

/-- what the coefficients are: complex data (`P.m k · P.m k = e^{−iφ_k}`, `P.p k · P.p k = e^{iφ_k}`). -/
theorem T20_chain_coefficients_complex (P : Par2 α) (d : ChainStep) (k : Nat)
    (hl : d.add = false ∨ d.last = false) :
    d.A P true k = P.m k * P.m k * P.c k ∧ d.B P true k = P.p k * P.p k * P.s k := by
  cases h : d.add
  · simp [ChainStep.A, ChainStep.B, h, stepA, stepB]
  · have : d.last = false := by
      rcases hl with hl | hl
      · rw [h] at hl; exact absurd hl (by simp)
      · exact hl
    simp [ChainStep.A, ChainStep.B, h, this, ryA, ryB]

/-- the last U3 gate of the complex hyperspherical encoder has its own two phases:
`A = e^{−i(φ'+λ')/2} cos θ`, `B = e^{i(φ'−λ')/2} sin θ`. -/
theorem T20_chain_coefficients_last (P : Par2 α) (d : ChainStep) (k : Nat)
    (ha : d.add = true) (hl : d.last = true) :
    d.A P true k = P.lm0 * P.c k ∧ d.B P true k = P.lp1 * P.s k := by
  simp [ChainStep.A, ChainStep.B, ha, hl, ryA, ryB]

/-- **Amplitudes of a loading chain.**  Let `r k` be the partial norm `‖x[k:]‖` times the phase
accumulated so far (`r 0 = ‖x‖`), i.e. `r k · A k = x k`, `r k · B k = r (k+1)`, `r m = x m` — what
`θ_k = arctan2(‖|x|[k+1:]‖, |x_k|)`, `φ_k = −arg x_k + Σ_{j<k} φ_j` give (checked on the real angle
computation to 1e-9 on every run).  Then `‖x‖ · state = Σ_k x_k |v k⟩`. -/
theorem T20_loading_chain_amplitudes (A B : Nat → α) (v : Nat → Lab) (m : Nat) (x r : Nat → α)
    (hlast : r m = x m)
    (hA : ∀ k, k < m → r k * A k = x k)
    (hB : ∀ k, k < m → r k * B k = r (k + 1)) (y : Lab) :
    r 0 * chainStateAB A B v m y = ∑ k ∈ range (m + 1), x k * ket (v k) y :=
  chainStateAB_norm A B v m x r hlast hA hB y

/-- **Complex Hamming-weight encoder: the final phase correction.**  After the chain the gate of
`_get_phase_gate_correction` — `RZ(z, 2φ_f)` on a qubit `z` that is 0 in the last string,
controlled on qubits `zc` that are all 1 in the last string and not all 1 in any earlier one —
multiplies the amplitude of the last string by `e^{−iφ_f}` and leaves the others alone. -/
theorem T20_hw_phase_correction (P : Par2 α) (hpm : ∀ k, P.p k * P.m k = 1) (cplx : Bool)
    (D : Nat → ChainStep) (v : Nat → Lab) (m : Nat)
    (hon : ∀ k, k < m → (D k).okAt (v k))
    (hnext : ∀ k, k < m → v (k + 1) = (D k).next (v k))
    (hfix : ∀ k, k < m → ∀ j, j < k → (D k).fixes (v j))
    {z : Nat} {zc : List Nat} (f : Nat) (hz : z ∉ zc)
    (hzon : Lab.allOne zc (v m) = true) (hzv : v m z = false)
    (hzfix : ∀ j, j < m → Lab.allOne zc (v j) = false) :
    runCircuit ((numberSteps ((List.range m).map (fun k => (D k).fn cplx)) ++
        [({ kind := .RZ, q0 := z, f := f, dbl := true, ctrl := zc } : BG)]).map (BG.sem P)) (ket (v 0))
      = chainStateCorr (fun k => (D k).A P cplx k) (fun k => (D k).B P cplx k) (P.m f * P.m f) v m := by
  rw [List.map_append, runCircuit_append, loading_chain P hpm cplx D v m hon hnext hfix]
  simp only [List.map_cons, List.map_nil, runCircuit_cons, runCircuit_nil]
  exact correction_on_chain P _ _ v m f hz hzon hzv hzfix

/-- … and the amplitudes: with `r m · e^{−iφ_f} = x m` for the last string,
`‖x‖ · state = Σ_k x_k |v k⟩`: moduli AND phases of the data are loaded. -/
theorem T20_hw_complex_amplitudes (A B : Nat → α) (d : α) (v : Nat → Lab) (m : Nat) (x r : Nat → α)
    (hlast : r m * d = x m)
    (hA : ∀ k, k < m → r k * A k = x k)
    (hB : ∀ k, k < m → r k * B k = r (k + 1)) (y : Lab) :
    r 0 * chainStateCorr A B d v m y = ∑ k ∈ range (m + 1), x k * ket (v k) y :=
  chainStateCorr_norm A B d v m x r hlast hA hB y

/-! ### non-vacuity -/

private def exD : Nat → ChainStep := fun k =>
  if k = 0 then { add := true, a := 1, cs := [] }
  else if k = 1 then { add := false, a := 1, b := 0, cs := [] }
  else { add := true, a := 1, cs := [0], last := true }

private def exV : Nat → Lab := fun k =>
  if k = 0 then zeroLab else if k = 1 then oh 1 else if k = 2 then oh 0 else (oh 0).set 1 true

/-- the hypotheses of `T20_loading_chain` hold for the three steps of
`binary_encoder(·, "hyperspherical")` on 2 qubits (`RY(1)`, `RBS(1, 0)`, `RY(1)` controlled on
qubit 0; complex data: `U3`, `RBS RZ RZ`, `U3`), walk `00 → 01 → 10 → 11`. -/
example (P : Par2 α) (hpm : ∀ k, P.p k * P.m k = 1) (cplx : Bool) :
    runCircuit ((numberSteps ((List.range 3).map (fun k => (exD k).fn cplx))).map (BG.sem P)) (ket (exV 0))
      = chainStateAB (fun k => (exD k).A P cplx k) (fun k => (exD k).B P cplx k) exV 3 := by
  apply T20_loading_chain P hpm cplx exD exV 3
  · intro k hk
    have : k = 0 ∨ k = 1 ∨ k = 2 := by omega
    rcases this with rfl | rfl | rfl <;>
      simp [ChainStep.okAt, exD, exV, Lab.allOne, zeroLab, oh]
  · intro k hk
    have : k = 0 ∨ k = 1 ∨ k = 2 := by omega
    rcases this with rfl | rfl | rfl
    · funext r
      simp only [exV, exD, ChainStep.next, if_true]
      by_cases h : r = 1 <;> simp [Lab.set, zeroLab, oh, h]
    · simp only [exV, exD, ChainStep.next]
      simp only [if_true, OfNat.one_ne_ofNat, if_false, Nat.succ_ne_self, Bool.false_eq_true]
      exact (sw_oh_fst (by decide)).symm
    · simp [exV, exD, ChainStep.next]
  · intro k hk j hj
    have : (k = 1 ∧ j = 0) ∨ (k = 2 ∧ j = 0) ∨ (k = 2 ∧ j = 1) := by omega
    rcases this with ⟨rfl, rfl⟩ | ⟨rfl, rfl⟩ | ⟨rfl, rfl⟩ <;>
      simp [ChainStep.fixes, exD, exV, Lab.allOne, zeroLab, oh]

/-- the model's hyperspherical gate list on 2 qubits is this chain (real and complex). -/
example : hsEncoder 2 false = numberSteps ((List.range 3).map (fun k => (exD k).fn false)) := by decide
example : hsEncoder 2 true = numberSteps ((List.range 3).map (fun k => (exD k).fn true)) := by decide

end QV.Props.C20
