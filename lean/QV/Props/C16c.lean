/-
  C16 — time evolution reaches exp(-iHt).   Part 3: the ORDER of the symmetric Trotter step for
  EVERY list of terms (commuting or not).  Proofs: QV/Proofs/EvolutionOrder.lean (algebra in the
  truncated ring `R[a]/(a³)`), QV/Proofs/EvolutionBound.lean (analytic remainder bound).

  * `T16_trotter_second_order` — with a formal halved step `a` (`a³ = 0`) the queue
    `hs ++ hs.reverse` of truncated exponentials `1 + a h + (a h)²/2` multiplies to
    `1 + a·2H + (a·2H)²/2`, `H = Σ h`: the Taylor coefficients of the Trotter step agree with
    those of `exp(dt H)` through SECOND order (`T16_trotter_first_order` of part 2 was the `a² = 0`
    shadow of this).  `T16_trotter_taylor_coefficients` is the same statement on the coefficients.
  * `T16_symmetric_second_order`, `T16_even_error_vanishes` — what the time-reversal symmetry
    `S(a) S(-a) = 1` (part 2) forces: a consistent reversible step is automatically second order,
    and the leading error term can never sit at an even power.
  * `T16_trotter_third_order` — the analytic statement with an explicit constant:
    `‖S(dt) - exp(-i dt H)‖ ≤ 2 (e^L - 1 - L - L²/2) |dt|³` for `|dt| ≤ 1`, `L = Σ‖h_j‖`, for every
    list of complex matrices (∞-operator norm) and, in `T16_trotter_third_order_banach`, in any
    Banach algebra.  `TrotterThirdOrder_proved` discharges the statement that part 2 kept as a
    `def`; `TrotterThirdOrder_two_terms` is the Strang splitting `e^{A/2} e^{B} e^{A/2}`.
-/
import QV.Props.C16b
import QV.Proofs.EvolutionOrder
import QV.Proofs.EvolutionBound
namespace QV.Props.C16
open QV QV.Evo NormedSpace

/-! ### second order, algebraically, for every list of terms -/

/-- **Second-order agreement with the exponential, formally, for every list of terms.**
`a` is a formal halved step: `a³ = 0`, commuting with the terms (e.g. the class of `a` in
`ℂ[a]/(a³)`, terms = matrices over that ring).  Every factor of the symmetric Trotter queue is
the truncated exponential `1 + a h + (a h)²/2`, and the product over `hs ++ hs.reverse` is the
truncated exponential of `a (Σh + Σh) = dt·H`.  Hence `S(dt) - exp(dt H) = O(dt³)` coefficientwise:
this is the algebraic content of "the error vanishes as dt³". -/
theorem T16_trotter_second_order {R : Type*} [Ring R] (K : Type*) [Field K] [CharZero K]
    [Algebra K R] (a : R) (ha : a * a * a = 0) (hs : List R) (hc : ∀ h ∈ hs, Commute a h) :
    ((hs ++ hs.reverse).map fun h => 1 + a * h + (2⁻¹ : K) • (a * h * (a * h))).prod
      = 1 + a * (hs.sum + hs.sum)
        + (2⁻¹ : K) • (a * (hs.sum + hs.sum) * (a * (hs.sum + hs.sum))) :=
  trotter_second_order K a ha hs hc

/-- non-vacuity: a step with `a² ≠ 0`, `a³ = 0` commuting with two terms that do not commute
with each other (6×6 rational matrices: `a = N ⊗ 1` with `N` the 3×3 nilpotent shift, terms
`1 ⊗ X` and `1 ⊗ Z`). -/
example : ∃ (a : Matrix (Fin 3 × Fin 2) (Fin 3 × Fin 2) ℚ)
    (hs : List (Matrix (Fin 3 × Fin 2) (Fin 3 × Fin 2) ℚ)),
    a * a ≠ 0 ∧ a * a * a = 0 ∧ (∀ h ∈ hs, Commute a h) ∧
      ∃ x ∈ hs, ∃ y ∈ hs, x * y ≠ y * x := by
  let N : Matrix (Fin 3) (Fin 3) ℚ := !![0, 1, 0; 0, 0, 1; 0, 0, 0]
  let X : Matrix (Fin 2) (Fin 2) ℚ := !![0, 1; 1, 0]
  let Z : Matrix (Fin 2) (Fin 2) ℚ := !![1, 0; 0, -1]
  refine ⟨Matrix.kroneckerMap (· * ·) N 1,
    [Matrix.kroneckerMap (· * ·) 1 X, Matrix.kroneckerMap (· * ·) 1 Z], ?_, ?_, ?_, ?_⟩
  · intro h
    have := congrFun (congrFun h (0, 0)) (2, 0)
    revert this
    simp only [N]
    decide +kernel
  · decide +kernel
  · intro h hh
    simp only [List.mem_cons, List.not_mem_nil, or_false] at hh
    rcases hh with rfl | rfl <;> (show _ * _ = _ * _) <;> decide +kernel
  · refine ⟨_, List.mem_cons_self .., _, List.mem_cons_of_mem _ (List.mem_cons_self ..), ?_⟩
    decide +kernel

/-- **The Taylor coefficients of the symmetric Trotter product** in `R[a]/(a³)` (`Trunc2 R`:
coefficients of `1, a, a²`; multiplication = Cauchy product cut after `a²`): constant `1`,
linear `Σh + Σh = dt·H`, quadratic `(dt·H)²/2` — those of the exponential of `dt·H`. -/
theorem T16_trotter_taylor_coefficients {R : Type*} [Ring R] (K : Type*) [Field K] [CharZero K]
    [Algebra K R] (hs : List R) :
    ((hs ++ hs.reverse).map (Trunc2.texp K)).prod = Trunc2.texp K (hs.sum + hs.sum)
      ∧ (((hs ++ hs.reverse).map (Trunc2.texp K)).prod).c1 = hs.sum + hs.sum
      ∧ (((hs ++ hs.reverse).map (Trunc2.texp K)).prod).c2
          = (2⁻¹ : K) • ((hs.sum + hs.sum) * (hs.sum + hs.sum)) := by
  have h := trunc_trotter K hs
  exact ⟨h, by rw [h]; rfl, by rw [h]; rfl⟩

/-- evaluation `p ↦ p₀ + a p₁ + a² p₂` is multiplicative when `a³ = 0` and `a` commutes with
the coefficients: `Trunc2 R` really is `R[a]/(a³)`. -/
theorem T16_trunc_eval_mul {R : Type*} [Ring R] (a : R) (ha : a * a * a = 0) (p q : Trunc2 R)
    (h0 : Commute a p.c0) (h1 : Commute a p.c1) (h2 : Commute a p.c2) :
    Trunc2.eval a (p * q) = Trunc2.eval a p * Trunc2.eval a q :=
  Trunc2.eval_mul a ha p q h0 h1 h2

/-! ### what time-reversal symmetry forces -/

/-- the symmetric Trotter product is time-reversal symmetric in `R[a]/(a³)` as well
(`rev` = substitution `a ↦ -a`). -/
theorem T16_trotter_trunc_time_reversal {R : Type*} [Ring R] (K : Type*) [Field K] [CharZero K]
    [Algebra K R] (hs : List R) :
    ((hs ++ hs.reverse).map (Trunc2.texp K)).prod
      * (((hs ++ hs.reverse).map (Trunc2.texp K)).prod).rev = 1 :=
  trunc_trotter_rev K hs

/-- **A consistent time-reversal symmetric one-step map is second order**: if `p(0) = 1` and
`p(a) p(-a) = 1` in `R[a]/(a³)` then `2 p₂ = p₁²`, i.e. `p` agrees with `exp(a p₁)` through
second order: the `a²` error term vanishes.  (Applied to the Trotter product, whose `p₁ = dt·H`
by `T16_trotter_first_order`, this re-derives `T16_trotter_second_order`.) -/
theorem T16_symmetric_second_order {R : Type*} [Ring R] (p : Trunc2 R) (h0 : p.c0 = 1)
    (hs : p * p.rev = 1) : p.c2 + p.c2 = p.c1 * p.c1 :=
  symmetric_second_order p h0 hs

/-- non-vacuity: `p = 1 + a·3 + a²·(9/2)` over ℚ. -/
example : ∃ p : Trunc2 ℚ, p.c0 = 1 ∧ p * p.rev = 1 ∧ p.c1 ≠ 0 := by
  refine ⟨⟨1, 3, 9 / 2⟩, rfl, ?_, by norm_num⟩
  ext <;> simp [Trunc2.rev] <;> norm_num

/-- **Even-order error terms of a reversible method vanish at leading order** (any even
`k > 0`): if the step agrees with an exactly reversible flow `U(±a) = 1 + a u±`,
`U(a) U(-a) = 1`, up to `a^k E` modulo `a^{k+1}`, and is itself reversible, then
`a^k (E + E) = 0`.  So the local error of the symmetric Trotter step, being `O(dt³)`, has its
leading term at an odd power, and a global error expansion in even powers of `dt`. -/
theorem T16_even_error_vanishes {R : Type*} [Ring R] (a uP uM E : R) (k : ℕ) (hk : Even k)
    (hk0 : 0 < k) (ha : a ^ (k + 1) = 0) (cP : Commute a uP) (cE : Commute a E)
    (hU : (1 + a * uP) * (1 + a * uM) = 1)
    (hS : (1 + a * uP + a ^ k * E) * (1 + a * uM + (-a) ^ k * E) = 1) :
    a ^ k * (E + E) = 0 :=
  even_error_vanishes a uP uM E k hk hk0 ha cP cE hU hS

/-- non-vacuity (k = 2): over `ℚ[a]/(a³)` realised as upper-triangular Toeplitz 3×3 matrices,
`a` the shift, `U(±a) = 1 ± a + a²/2`, `E = 0`. -/
example : ∃ (a uP uM E : Matrix (Fin 3) (Fin 3) ℚ), a ^ 2 ≠ 0 ∧ a ^ (2 + 1) = 0 ∧ Commute a uP
    ∧ Commute a E ∧ (1 + a * uP) * (1 + a * uM) = 1
    ∧ (1 + a * uP + a ^ 2 * E) * (1 + a * uM + (-a) ^ 2 * E) = 1 := by
  refine ⟨!![0, 1, 0; 0, 0, 1; 0, 0, 0], !![1, 1 / 2, 0; 0, 1, 1 / 2; 0, 0, 1],
    !![-1, 1 / 2, 0; 0, -1, 1 / 2; 0, 0, -1], 0, ?_, ?_, ?_, ?_, ?_, ?_⟩
  · decide +kernel
  · decide +kernel
  · show _ * _ = _ * _; decide +kernel
  · show _ * _ = _ * _; decide +kernel
  · decide +kernel
  · decide +kernel

/-! ### the analytic bound -/

/-- the explicit constant: `r₃(x) = eˣ - 1 - x - x²/2` (`= Σ_{k ≥ 3} x^k / k!`, so `≤ x³ eˣ / 6`). -/
theorem T16_rem3_def (x : ℝ) : rem3 x = Real.exp x - (1 + x + x ^ 2 / 2) := rfl

/-- `r₃(x) ≤ x³ eˣ / 6` for `x ≥ 0`. -/
theorem T16_rem3_le (x : ℝ) (hx : 0 ≤ x) : rem3 x ≤ x ^ 3 / 6 * Real.exp x := rem3_le hx

/-- **Third-order local error of the symmetric Trotter step in any Banach algebra, every list of
terms**: for `‖dt‖ ≤ 1` (complex `dt` allowed),
`‖S(dt) - exp(-i dt Σh)‖ ≤ 2 r₃(Σ‖h_j‖) ‖dt‖³`.  (`‖1‖ ≤ 1` holds in every normed algebra of
interest; it is a hypothesis only because Mathlib's `NormedRing` does not include it.) -/
theorem T16_trotter_third_order_banach {𝔸 : Type*} [NormedRing 𝔸]
    [NormedAlgebra ℂ 𝔸] [CompleteSpace 𝔸] (h1 : ‖(1 : 𝔸)‖ ≤ 1) (hs : List 𝔸) (dt : ℂ)
    (hdt : ‖dt‖ ≤ 1) :
    ‖trotterProd (dt / 2) hs - propagator dt hs.sum‖
      ≤ 2 * rem3 ((hs.map fun h => ‖h‖).sum) * ‖dt‖ ^ 3 :=
  trotterProd_third_order h1 hs dt hdt

section matrix
variable {n : Type} [Fintype n] [DecidableEq n]

attribute [local instance] Matrix.linftyOpNormedRing Matrix.linftyOpNormedAlgebra

theorem linfty_norm_one_le : ‖(1 : Matrix n n ℂ)‖ ≤ 1 := by
  rcases isEmpty_or_nonempty n with h | h
  · have : (1 : Matrix n n ℂ) = 0 := Subsingleton.elim _ _
    rw [this, norm_zero]; exact zero_le_one
  · exact le_of_eq norm_one

theorem norm_entry_le_linfty (A : Matrix n n ℂ) (i j : n) : ‖A i j‖ ≤ ‖A‖ := by
  rw [Matrix.linfty_opNorm_def]
  have h1 : ‖A i j‖₊ ≤ ∑ j, ‖A i j‖₊ :=
    Finset.single_le_sum (f := fun j => ‖A i j‖₊) (fun _ _ => by simp) (Finset.mem_univ j)
  have h2 : (∑ j, ‖A i j‖₊) ≤ Finset.univ.sup fun i => ∑ j, ‖A i j‖₊ :=
    Finset.le_sup (f := fun i => ∑ j, ‖A i j‖₊) (Finset.mem_univ i)
  exact_mod_cast h1.trans h2

/-- **Third-order local error of the Trotter step circuit, complex matrices of any size, every
list of terms** (`‖·‖` = ∞-operator norm, the maximal absolute row sum): for `|dt| ≤ 1`
`‖S(dt) - exp(-i dt H)‖ ≤ 2 (e^L - 1 - L - L²/2) |dt|³`, `L = Σ‖h_j‖`, `H = Σ h_j`. -/
theorem T16_trotter_third_order (hs : List (Matrix n n ℂ)) (dt : ℂ) (hdt : ‖dt‖ ≤ 1) :
    ‖mtrotter (dt / 2) hs - mprop dt hs.sum‖
      ≤ 2 * rem3 ((hs.map fun h => ‖h‖).sum) * ‖dt‖ ^ 3 := by
  rw [mtrotter_eq, mprop_eq]
  exact trotterProd_third_order linfty_norm_one_le hs dt hdt

/-- **the bound without restriction on the step**: `‖S(dt) - exp(-i dt H)‖ ≤ 2 r₃(|dt| L)` for
every `dt` (`≈ (|dt| L)³/3` for small `|dt| L`).  The harness evaluates this inequality on the
real `h.circuit(dt).unitary()` on every run (`C16_search_trotter_bound`). -/
theorem T16_trotter_error_bound (hs : List (Matrix n n ℂ)) (dt : ℂ) :
    ‖mtrotter (dt / 2) hs - mprop dt hs.sum‖
      ≤ 2 * rem3 (‖dt‖ * (hs.map fun h => ‖h‖).sum) := by
  rw [mtrotter_eq, mprop_eq]
  exact trotterProd_error_le linfty_norm_one_le hs dt

/-- … and with any upper bound `L ≥ Σ‖h_j‖` in place of the sum of the norms (`r₃` is monotone):
e.g. `L = Σ|c_m|` over the Pauli monomials `c_m P_m` of the Hamiltonian, because a Pauli string is
a permutation matrix with unit-modulus entries (`‖c P‖ = |c|`) and the merged terms of the
Trotter groups are sums of monomials. -/
theorem T16_trotter_error_bound_of_le (hs : List (Matrix n n ℂ)) (dt : ℂ) (L : ℝ)
    (hL : (hs.map fun h => ‖h‖).sum ≤ L) :
    ‖mtrotter (dt / 2) hs - mprop dt hs.sum‖ ≤ 2 * rem3 (‖dt‖ * L) := by
  have h0 : 0 ≤ (hs.map fun h => ‖h‖).sum :=
    List.sum_nonneg (by intro x hx; obtain ⟨h, _, rfl⟩ := List.mem_map.mp hx; exact norm_nonneg h)
  have := rem3_mono (mul_nonneg (norm_nonneg dt) h0)
    (mul_le_mul_of_nonneg_left hL (norm_nonneg dt))
  linarith [T16_trotter_error_bound hs dt]

/-- the bound in closed form: `‖S(dt) - exp(-i dt H)‖ ≤ (L³ e^L / 3) |dt|³` for `|dt| ≤ 1`. -/
theorem T16_trotter_third_order_closed_form (hs : List (Matrix n n ℂ)) (dt : ℂ) (hdt : ‖dt‖ ≤ 1) :
    ‖mtrotter (dt / 2) hs - mprop dt hs.sum‖
      ≤ ((hs.map fun h => ‖h‖).sum ^ 3 * Real.exp ((hs.map fun h => ‖h‖).sum) / 3) * ‖dt‖ ^ 3 := by
  have hL : 0 ≤ (hs.map fun h => ‖h‖).sum :=
    List.sum_nonneg (by intro x hx; obtain ⟨h, _, rfl⟩ := List.mem_map.mp hx; exact norm_nonneg h)
  have h := T16_trotter_third_order hs dt hdt
  have r := rem3_le hL
  have t3 : 0 ≤ ‖dt‖ ^ 3 := by positivity
  calc _ ≤ 2 * rem3 ((hs.map fun h => ‖h‖).sum) * ‖dt‖ ^ 3 := h
    _ ≤ 2 * ((hs.map fun h => ‖h‖).sum ^ 3 / 6 * Real.exp ((hs.map fun h => ‖h‖).sum)) * ‖dt‖ ^ 3 :=
        mul_le_mul_of_nonneg_right (mul_le_mul_of_nonneg_left r (by norm_num)) t3
    _ = _ := by ring

/-- the same bound for every matrix entry. -/
theorem T16_trotter_third_order_entries (hs : List (Matrix n n ℂ)) (dt : ℝ) (hdt : |dt| ≤ 1)
    (i j : n) :
    ‖(mtrotter ((dt : ℂ) / 2) hs - mprop (dt : ℂ) hs.sum) i j‖
      ≤ 2 * rem3 ((hs.map fun h => ‖h‖).sum) * |dt| ^ 3 := by
  have h := T16_trotter_third_order hs (dt : ℂ) (by rwa [Complex.norm_real])
  rw [Complex.norm_real] at h
  exact (norm_entry_le_linfty _ i j).trans h

/-- **Strang splitting (two terms)**: `‖e^{-i dt A/2} e^{-i dt B} e^{-i dt A/2} - e^{-i dt (A+B)}‖
≤ 2 r₃(‖A‖ + ‖B‖) |dt|³` for `|dt| ≤ 1`. -/
theorem TrotterThirdOrder_two_terms (A B : Matrix n n ℂ) (dt : ℂ) (hdt : ‖dt‖ ≤ 1) :
    ‖mprop (dt / 2) A * mprop dt B * mprop (dt / 2) A - mprop dt (A + B)‖
      ≤ 2 * rem3 (‖A‖ + ‖B‖) * ‖dt‖ ^ 3 := by
  have h := T16_trotter_third_order [A, B] dt hdt
  have e : mtrotter (dt / 2) [A, B] = mprop (dt / 2) A * mprop dt B * mprop (dt / 2) A := by
    have hB : mprop (dt / 2) B * mprop (dt / 2) B = mprop dt B := by
      have := mprop_pow (dt / 2) B 2
      rw [pow_two] at this
      rw [this]; congr 1; push_cast; ring
    simp only [mtrotter, List.reverse_cons, List.reverse_nil, List.nil_append, List.cons_append,
      List.map_cons, List.map_nil, List.prod_cons, List.prod_nil, mul_one]
    rw [← hB]; simp only [mul_assoc]
  simpa [e] using h

/-- registered name of `TrotterThirdOrder_two_terms`. -/
theorem T16_strang_third_order (A B : Matrix n n ℂ) (dt : ℂ) (hdt : ‖dt‖ ≤ 1) :
    ‖mprop (dt / 2) A * mprop dt B * mprop (dt / 2) A - mprop dt (A + B)‖
      ≤ 2 * rem3 (‖A‖ + ‖B‖) * ‖dt‖ ^ 3 :=
  TrotterThirdOrder_two_terms A B dt hdt

end matrix

/-- **`TrotterThirdOrder` (kept as a `def` in part 2) holds**: for every list of complex
matrices there is a constant `C` (namely `2 r₃(Σ‖h_j‖)`) with
`|(S(dt) - exp(-i dt H))_{ij}| ≤ C |dt|³` for all real `|dt| ≤ 1`. -/
theorem TrotterThirdOrder_proved : TrotterThirdOrder := by
  intro m hs
  exact ⟨_, fun dt hdt i j => T16_trotter_third_order_entries hs dt hdt i j⟩

/-- registered name of the previous theorem. -/
theorem T16_trotter_third_order_statement : TrotterThirdOrder := TrotterThirdOrder_proved

end QV.Props.C16
