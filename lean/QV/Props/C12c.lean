/-
  C12 (part c) — measurement on the tableau against the state vector (Born rule), for every
  register size.  Objects as in C12b.lean (`pauliOp`, `runSV`); `determinedScratch`,
  `measureQubit`, `findP`, `rowsum` are the transliterations of `_determined_outcome`, `M`,
  the branch test of `M`, `_rowsum` in QV/Model/Clifford.lean (tied bit for bit on every run).

  * `T12_rowsum_is_product`        : `_rowsum`'s phase arithmetic (`2 r_h + 2 r_i + Σ exponent`, test
    `% 4 == 0`) is the product of the two Pauli operators, for commuting rows.
  * `T12_determined_scratch_fixes` : the scratch row accumulated by `_determined_outcome` is a product
    of stabiliser rows, hence fixes every state the stabiliser rows fix.
  * `T12_nondegenerate_execution`, `T12_determined_scratch_is_Z` : with the tableau invariant and
    non-degeneracy (both kept by every circuit from `zero_state`), when no stabiliser row has an X on
    qubit `q` that scratch row is `± Z_q`.
  * `T12_determined_outcome_born`  : so for every executed circuit the determined outcome returned by
    the model has Born probability 1: the (non-zero) state vector vanishes on every label whose
    bit `q` differs from the outcome.
  * `T12_random_outcome_both_possible` : in the random branch both outcomes have non-zero Born
    probability.
  Both are also stated for an arbitrary tableau/state pair satisfying the invariants
  (`T12_determined_outcome_general`, `T12_random_outcome_general`).
  That `_random_outcome`'s tableau update keeps these invariants for the collapsed state (needed
  to chain the theorems along a sequence of measurements after a random outcome) is described in
  `MeasurementSequence_statement` and proved in C12d.lean.
-/
import QV.Props.C12b
import QV.Proofs.CliffordMeas
namespace QV.Props.C12
open QV QV.Cliff

/-- `_rowsum` multiplies the operators: row `h` becomes (row `i`)·(row `h`), sign included. -/
theorem T12_rowsum_is_product (n : Nat) (a b : Row) (h : symp n a b = false) (ψ : Lab → GI) :
    pauliOp n (rowsum n a b) ψ = pauliOp n a (pauliOp n b ψ) := pauliOp_rowsum n a b h ψ

/-- the scratch row of the determined case fixes every state fixed by the commuting stabiliser
rows (any tableau, any state). -/
theorem T12_determined_scratch_fixes (n : Nat) (T : Tableau) (q : Nat) (ψ : Lab → GI)
    (hcomm : ∀ i j, i < n → j < n → symp n (getRow T (n + i)) (getRow T (n + j)) = false)
    (hfix : ∀ i, i < n → pauliOp n (getRow T (n + i)) ψ = ψ) :
    pauliOp n (determinedScratch n T q) ψ = ψ := determinedScratch_fixes n T q ψ hcomm hfix

/-- the rows of the tableau of every executed circuit are non-degenerate: a Pauli string that
commutes with all `2n` rows is the identity string. -/
theorem T12_nondegenerate_execution (n : Nat) (gs : List Gate) (hg : ∀ g ∈ gs, g.ok n) :
    NonDeg n (runGates gs (zeroState n)) :=
  nonDeg_runGates n gs hg _ (by simp [zeroState]; omega) (nonDeg_zeroState n)

/-- determined case: the scratch row is `± Z_q`. -/
theorem T12_determined_scratch_is_Z (n : Nat) (T : Tableau) (q : Nat) (hq : q < n) (hv : Valid n T)
    (hnd : NonDeg n T) (hnone : findP n T q = none) :
    ∀ k, k < n → (determinedScratch n T q).x k = false ∧ (determinedScratch n T q).z k = (k == q) :=
  determinedScratch_is_Z n T q hq hv hnd (findP_none hnone)

/-- a state fixed by `(-1)^s Z_q` vanishes on every label with bit `q ≠ s`. -/
theorem T12_signed_Z_support (n q : Nat) (hq : q < n) (s : Row)
    (hx : ∀ k, k < n → s.x k = false) (hz : ∀ k, k < n → s.z k = (k == q))
    (ψ : Lab → GI) (h : pauliOp n s ψ = ψ) (x : Lab) (hne : x q ≠ s.r) : ψ x = 0 :=
  support_of_signed_Z n q hq s hx hz ψ h x hne

/-- **determined outcome, any tableau/state pair satisfying the invariants**: the model takes the
determined branch, and the state vanishes wherever bit `q` differs from the returned outcome. -/
theorem T12_determined_outcome_general (n : Nat) (T : Tableau) (q : Nat) (hq : q < n) (ψ : Lab → GI)
    (hv : Valid n T) (hnd : NonDeg n T) (hfix : ∀ i, i < n → pauliOp n (getRow T (n + i)) ψ = ψ)
    (hnone : findP n T q = none) (coin : Bool) :
    (measureQubit n T q coin).2.2 = false ∧
      ∀ x : Lab, x q ≠ (measureQubit n T q coin).2.1 → ψ x = 0 := by
  have hcomm : ∀ i j, i < n → j < n → symp n (getRow T (n + i)) (getRow T (n + j)) = false := by
    intro i j hi hj
    rw [hv.2 (n + i) (n + j) (by omega) (by omega)]
    simp; omega
  have hZ := T12_determined_scratch_is_Z n T q hq hv hnd hnone
  have hs := T12_determined_scratch_fixes n T q ψ hcomm hfix
  simp only [measureQubit, hnone, true_and]
  intro x hne
  exact T12_signed_Z_support n q hq _ (fun k hk => (hZ k hk).1) (fun k hk => (hZ k hk).2) ψ hs x hne

/-- the full statement for executions: a determined outcome has Born probability 1. -/
def DeterminedOutcomeBorn : Prop :=
  ∀ (n : Nat) (gs : List Gate), (∀ g ∈ gs, g.ok n) → ∀ q, q < n → ∀ coin : Bool,
    findP n (runGates gs (zeroState n)) q = none →
      (measureQubit n (runGates gs (zeroState n)) q coin).2.2 = false ∧
      (∃ x, runSV n gs x ≠ 0) ∧
      ∀ x : Lab, x q ≠ (measureQubit n (runGates gs (zeroState n)) q coin).2.1 → runSV n gs x = 0

/-- **determined outcomes have Born probability 1** (first measurement after any circuit): the
state vector is not zero and all its weight is on the labels whose bit `q` is the returned bit. -/
theorem T12_determined_outcome_born : DeterminedOutcomeBorn := by
  intro n gs hg q hq coin hnone
  have h := T12_determined_outcome_general n (runGates gs (zeroState n)) q hq (runSV n gs)
    (T12_valid_circuit n gs hg _ (T12_valid_zero_state n)) (T12_nondegenerate_execution n gs hg)
    (fun i hi => T12_stabilizer_state n gs hg i hi) hnone coin
  exact ⟨h.1, runSV_nonzero n gs hg, h.2⟩

/-- **random outcome, any tableau/state pair**: if some stabiliser row has an X on qubit `q` (the
model then takes the random branch) and fixes the non-zero state, both values of bit `q` carry
amplitude. -/
theorem T12_random_outcome_general (n : Nat) (T : Tableau) (q : Nat) (hq : q < n) (ψ : Lab → GI)
    (hfix : ∀ i, i < n → pauliOp n (getRow T (n + i)) ψ = ψ) (hnz : ∃ x, ψ x ≠ 0)
    (p : Nat) (hp : findP n T q = some p) (coin : Bool) :
    (measureQubit n T q coin).2.2 = true ∧ (measureQubit n T q coin).2.1 = coin ∧
      (∃ x, x q = false ∧ ψ x ≠ 0) ∧ (∃ x, x q = true ∧ ψ x ≠ 0) := by
  obtain ⟨j, hj, rfl, hx⟩ := findP_some hp
  simp only [measureQubit, hp, true_and]
  exact both_outcomes n q hq _ hx ψ (hfix j hj) hnz

def RandomOutcomeBothPossible : Prop :=
  ∀ (n : Nat) (gs : List Gate), (∀ g ∈ gs, g.ok n) → ∀ q, q < n → ∀ p coin,
    findP n (runGates gs (zeroState n)) q = some p →
      (measureQubit n (runGates gs (zeroState n)) q coin).2.2 = true ∧
      (measureQubit n (runGates gs (zeroState n)) q coin).2.1 = coin ∧
      (∃ x, x q = false ∧ runSV n gs x ≠ 0) ∧ (∃ x, x q = true ∧ runSV n gs x ≠ 0)

/-- **random outcomes**: both results of a random measurement have non-zero Born probability
(first measurement after any circuit), so whichever the coin selects is in the Born support. -/
theorem T12_random_outcome_both_possible : RandomOutcomeBothPossible := by
  intro n gs hg q hq p coin hp
  exact T12_random_outcome_general n _ q hq (runSV n gs)
    (fun i hi => T12_stabilizer_state n gs hg i hi) (runSV_nonzero n gs hg) p hp coin

/-- the chaining statement (PROVED in C12d.lean: `T12_random_outcome_keeps_invariants`,
`T12_measure_keeps_invariants`, `T12_measurement_sequence_born`): the tableau written by
`_random_outcome` with coin `b`, together with the state vector projected on `x_q = b`, again
satisfies `Valid`, `NonDeg` and "stabiliser rows fix the state" — this chains the two theorems above
along any list of measured qubits (`measure`). -/
def MeasurementSequence_statement : String :=
  "∀ n T ψ q b, Valid n T → NonDeg n T → stabilises n T ψ → findP n T q = some p → " ++
  "let T' := randomOutcome n T p q b; Valid n T' ∧ NonDeg n T' ∧ stabilises n T' (project q b ψ)"

/-! ### non-vacuity -/

/-- commuting rows (hypothesis of `T12_rowsum_is_product`): XX and ZZ; their `rowsum` is −YY. -/
example : symp 2 (row2 true false true false) (row2 false true false true) = false ∧
    (rowsum 2 (row2 true false true false) (row2 false true false true)).r = true := by decide

/-- the determined branch occurs (hypotheses of `T12_determined_outcome_*`): qubit 0 of `X|00⟩`;
the outcome is `1`. -/
example : findP 2 (runGates [Gate.X 0] (zeroState 2)) 0 = none ∧
    (measureQubit 2 (runGates [Gate.X 0] (zeroState 2)) 0 false).2.1 = true := by decide

/-- the random branch occurs (hypotheses of `T12_random_outcome_*`): qubit 1 of the Bell pair. -/
example : findP 2 (runGates [Gate.H 0, Gate.CNOT 0 1] (zeroState 2)) 1 = some 2 := by decide

end QV.Props.C12
