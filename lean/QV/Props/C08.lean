/-
  C08 — Gate decompositions implement the same operator up to a global phase.

  * multi-controlled X (`X.decompose(*free, use_toffolis)`, model QV/Model/XDecompose.lean):
    for ALL numbers of controls, all admissible free lists, both `use_toffolis` values the
    returned gate list maps every bit assignment b to b[target := b target xor AND(controls)],
    i.e. every borrowed work qubit comes back with the value it had, whatever that value was.
  * placement: a template that equals a gate up to the scalar c on its local qubits equals the
    relabelled gate up to the same c on every placement (every relabelling of the qubits).
  * `Circuit.decompose` is the concatenation of the per-gate decompositions and equals the
    original circuit up to the product of the per-gate phases.
  The per-class facts "product of `cls.decompose()` = phase • matrix of cls, for all parameter
  values" are kernel-checked obligations regenerated from the source on every run
  (QV/Gen/C08_Ob*.lean, soundness: QV/Proofs/SymSound.lean).
-/
import QV.Proofs.XDecompose
import QV.Proofs.SimLemmas
import QV.Props.C05
set_option linter.unusedSectionVars false
set_option linter.unusedSimpArgs false
set_option linter.unusedVariables false
namespace QV.Props.C08
open QV

/-! ### multi-controlled X -/

/-- ladder lemma: a V-shaped chain `G k … G 1 G 0 G 1 … G k` of Toffoli-like gates
    (G 0 from `c 0, c 1` onto `a 0`; G (j+1) from `c (j+2), a j` onto `a (j+1)`) flips each
    `a j` iff `c 0 … c (j+1)` are all 1 and changes nothing else — every chain length. -/
theorem T08_ladder (G : Nat → CGate) (c a : Nat → Nat) (K : Nat)
    (hG0 : TofLike (G 0) (c 0) (c 1) (a 0))
    (hG : ∀ j, j < K → TofLike (G (j + 1)) (c (j + 2)) (a j) (a (j + 1)))
    (ha : ∀ i j, i < j → j ≤ K → a i ≠ a j)
    (hca : ∀ i j, i ≤ K + 1 → j ≤ K → c i ≠ a j) (b : Lab) :
    (∀ j, j ≤ K → runC (halfV G K) b (a j) = xor (b (a j)) (andUpTo c (j + 2) b)) ∧
    (∀ q, (∀ j, j ≤ K → q ≠ a j) → runC (halfV G K) b q = b q) :=
  halfV_VProp G c a K hG0 hG ha hca K (le_refl _) b

/-- the "n ≥ 2m−1" branch (first Toffoli, ladder, doubled): for every m ≥ 3 controls and at
    least m−2 free qubits the gate list computes the multi-controlled X and restores the
    free qubits. -/
theorem T08_mcx_ladder_branch (ut : Bool) (cs : List Nat) (t : Nat) (fs : List Nat)
    (hm : 3 ≤ cs.length) (hf : cs.length - 2 ≤ fs.length)
    (hn : (cs ++ t :: fs).Nodup) (b : Lab) :
    runC (ladderHalf ut cs t fs ++ ladderHalf ut cs t fs) b = mcxSpec cs t b :=
  ladder_spec ut cs t fs hm hf hn b

/-- **multi-controlled X**: for all numbers of controls, all free lists (controls, target and
    free qubits pairwise distinct), both `use_toffolis` values: if `X.decompose` returns a gate
    list then running it maps `b ↦ b[t := b t xor AND(controls)]`. -/
theorem T08_mcx (ut : Bool) (fuel : Nat) (cs : List Nat) (t : Nat) (fs : List Nat)
    (gs : List CGate) (hn : (cs ++ t :: fs).Nodup) (h : xDecompose ut fuel cs t fs = .ok gs)
    (b : Lab) : runC gs b = mcxSpec cs t b :=
  xDecompose_spec ut fuel cs t fs gs hn h b

/-- the borrowed work qubits (and the controls, and every other qubit) are returned unchanged
    whatever value they had; the target is flipped iff all controls are 1. -/
theorem T08_mcx_restores (ut : Bool) (fuel : Nat) (cs : List Nat) (t : Nat) (fs : List Nat)
    (gs : List CGate) (hn : (cs ++ t :: fs).Nodup) (h : xDecompose ut fuel cs t fs = .ok gs)
    (b : Lab) :
    (∀ q, q ≠ t → runC gs b q = b q) ∧ (∀ q, q ∈ fs → runC gs b q = b q) ∧
    runC gs b t = xor (b t) (cs.all b) := by
  rw [T08_mcx ut fuel cs t fs gs hn h b]
  refine ⟨fun q hq => Lab.cset_other _ _ _ _ hq, fun q hq => ?_, Lab.cset_same _ _ _⟩
  apply Lab.cset_other
  intro e
  subst e
  simp only [List.nodup_append, List.nodup_cons] at hn
  exact hn.2.1.1 hq

/-- `X.decompose` succeeds (never reaches its `NotImplementedError` branch in a recursive
    call) whenever there are fewer than 3 controls or at least one free qubit. -/
theorem T08_mcx_total (ut : Bool) (cs : List Nat) (t : Nat) (fs : List Nat)
    (hn : (cs ++ t :: fs).Nodup) (hfree : cs.length < 3 ∨ fs ≠ []) :
    ∃ gs, xDecompose ut (cs.length + 1) cs t fs = .ok gs :=
  xDecompose_total ut (cs.length + 1) cs t fs (Nat.lt_succ_self _) hn hfree

/-- FULL statement including signs (needed for `use_toffolis=False`, where the congruent
    Toffolis reverse the sign of |100⟩ and the signs must cancel across the doubled ladder):
    the decomposition maps the signed basis state `(-1)^s |b⟩` to `(-1)^s |mcxSpec b⟩`.
    PROVED for all inputs in QV/Props/C08b.lean (`T08_mcx_signed_statement_proved`,
    `T08_mcx_signed`; `T08_mcx` above is its sign-free part); in addition it is checked on
    every run by executing `runS` on the REAL gate lists for every basis state (m ≤ 7, see
    tools/props/C08.py) and by the exact unitary comparison. -/
def T08_mcx_signed_statement : Prop :=
  ∀ (ut : Bool) (fuel : Nat) (cs : List Nat) (t : Nat) (fs : List Nat) (gs : List CGate),
    (cs ++ t :: fs).Nodup → xDecompose ut fuel cs t fs = .ok gs →
    ∀ (s : Bool) (b : Lab), runS gs (s, b) = (s, mcxSpec cs t b)

/-- non-vacuity: 4 controls, one borrowed qubit (the splitting branch), computed by the model. -/
example : xDecompose true 5 [1, 2, 3, 4] 0 [5] = .ok
    [.toffoli 3 4 5, .toffoli 1 2 4, .toffoli 3 4 5, .toffoli 1 2 4, .toffoli 4 5 0,
     .toffoli 3 4 5, .toffoli 1 2 4, .toffoli 3 4 5, .toffoli 1 2 4, .toffoli 4 5 0] := by decide

example : ([1, 2, 3, 4] ++ 0 :: [5]).Nodup := by decide

/-! ### placement -/

variable {α : Type} [CommSemiring α]

/-- **placement**: if a template list equals the gate `M` up to the scalar `c` (on every
    state), then for every relabelling `σ` of the qubits (a bijection with inverse `τ`; every
    injective assignment of the finitely many template qubits extends to one) the relabelled
    list equals the relabelled gate up to the same `c`, on every state of every register. -/
theorem T08_placement (σ τ : Nat → Nat) (hστ : ∀ q, σ (τ q) = q) (hτσ : ∀ q, τ (σ q) = q)
    (gs : List (MGate α)) (M : MGate α) (c : α)
    (h : ∀ (ψ : Lab → α) (x : Lab), runCircuit gs ψ x = c * applyGate M ψ x)
    (φ : Lab → α) (y : Lab) :
    runCircuit (relabelCircuit σ gs) φ y = c * applyGate (M.relabel σ) φ y := by
  have hσ : Function.Injective σ := fun a b e => by
    have := congrArg τ e
    rwa [hτσ, hτσ] at this
  have hφ : (fun y => (fun x => φ (C05.pull τ x)) (C05.pull σ y)) = φ := by
    funext y
    show φ (fun r => y (σ (τ r))) = φ y
    simp only [hστ]
  have key1 := congrFun (C05.T05_relabel_run σ hσ gs (fun x => φ (C05.pull τ x))) y
  have key2 := C05.T05_relabel_apply σ hσ M (fun x => φ (C05.pull τ x)) y
  rw [hφ] at key1 key2
  rw [key1, key2]
  exact h _ _

/-- non-vacuity of the relabelling hypotheses: swapping qubits 0 and 2. -/
example : ∃ σ τ : Nat → Nat, (∀ q, σ (τ q) = q) ∧ (∀ q, τ (σ q) = q) ∧ σ 0 = 2 ∧ σ 1 = 1 := by
  refine ⟨fun q => if q = 0 then 2 else if q = 2 then 0 else q,
          fun q => if q = 0 then 2 else if q = 2 then 0 else q, ?_, ?_, rfl, rfl⟩ <;>
  · intro q
    by_cases h0 : q = 0
    · simp [h0]
    · by_cases h2 : q = 2
      · simp [h2]
      · simp [h0, h2]

/-! ### circuit-level decomposition -/

/-- `Circuit.decompose` is the concatenation of the per-gate decompositions. -/
theorem T08_circuit_decompose_flatMap {γ : Type} (dec : γ → List γ) (queue : List γ) :
    decomposeCircuit dec queue = queue.flatMap dec := by
  have h : ∀ acc, queue.foldl (fun acc g => acc ++ dec g) acc = acc ++ queue.flatMap dec := by
    induction queue with
    | nil => intro acc; simp
    | cons g gs ih => intro acc; simp [ih, List.append_assoc]
  simpa [decomposeCircuit] using h []

theorem T08_circuit_decompose_append {γ : Type} (dec : γ → List γ) (q1 q2 : List γ) :
    decomposeCircuit dec (q1 ++ q2) = decomposeCircuit dec q1 ++ decomposeCircuit dec q2 := by
  simp [T08_circuit_decompose_flatMap]

/-- **circuit**: if every gate's decomposition equals the gate up to its scalar `ph g`, the
    decomposed circuit equals the circuit up to the product of these scalars — every circuit
    length, every state (uses C01's append law and the linearity of execution). -/
theorem T08_circuit (dec : MGate α → List (MGate α)) (ph : MGate α → α) (gs : List (MGate α))
    (hdec : ∀ g, g ∈ gs → ∀ (ψ : Lab → α), runCircuit (dec g) ψ = fun x => ph g * applyGate g ψ x)
    (ψ : Lab → α) :
    runCircuit (decomposeCircuit dec gs) ψ = fun x => (gs.map ph).prod * runCircuit gs ψ x := by
  rw [T08_circuit_decompose_flatMap]
  induction gs generalizing ψ with
  | nil => funext x; simp [runCircuit]
  | cons g gs ih =>
    rw [List.flatMap_cons, runCircuit_append, hdec g List.mem_cons_self ψ, runCircuit_smul,
      runCircuit_cons]
    funext x
    rw [ih (fun g' hg' => hdec g' (List.mem_cons_of_mem _ hg'))]
    simp only [List.map_cons, List.prod_cons, mul_assoc]

/-- a product of scalars of a multiplicatively closed class (e.g. unit modulus) stays in it:
    the accumulated factor of a decomposed circuit is again a global phase. -/
theorem T08_phase_closed (P : α → Prop) (h1 : P 1) (hmul : ∀ a b, P a → P b → P (a * b))
    (ph : MGate α → α) (gs : List (MGate α)) (hg : ∀ g, g ∈ gs → P (ph g)) :
    P ((gs.map ph).prod) := by
  induction gs with
  | nil => simpa using h1
  | cons g gs ih =>
    simp only [List.map_cons, List.prod_cons]
    exact hmul _ _ (hg g List.mem_cons_self) (ih (fun g' hg' => hg g' (List.mem_cons_of_mem _ hg')))

/-- non-vacuity of `T08_circuit`: the identity decomposition with phase 1. -/
example (gs : List (MGate Int)) (ψ : Lab → Int) :
    runCircuit (decomposeCircuit (fun g => [g]) gs) ψ
      = fun x => (gs.map (fun _ => (1 : Int))).prod * runCircuit gs ψ x :=
  T08_circuit (fun g => [g]) (fun _ => 1) gs (fun g _ ψ => by funext x; simp [runCircuit]) ψ

end QV.Props.C08
