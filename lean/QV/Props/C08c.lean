/-
  C08c — the decomposition obligations meet the circuit-level theorems of C08.

  `QV/Props/C08.lean` proves `T08_placement` and `T08_circuit` from a hypothesis about the
  simulator model ("the returned list equals the gate up to the scalar c on every state");
  the generated obligations `C08_dec_*`, `C08_tab_*`, `C08_cur_*`, `C08_grbs_*`
  (`QV/Gen/C08_Ob*.lean`) are kernel-decided statements about traced expression matrices.
  `QV/Proofs/Bridge.lean` proves that both speak about the same operators; here they are joined:

    * `T08_hyp_of_obligation`       : a checked obligation gives the hypothesis of
                                      `T08_placement` / `T08_circuit`, for all parameter values
    * `T08_placement_of_obligation` : … hence the decomposition is correct on every placement
    * `T08_circuit_inst`            : `T08_circuit` for circuits given as instance lists
    * `T08_decompose_of_classes`, `T08_decompose_of_obligations` : END TO END — for a circuit all of
      whose gates are instances (any parameter values, any placement) of classes whose
      obligation holds, the decomposed circuit equals the circuit up to ONE unit-modulus
      scalar, on every state, for every circuit length.
  The generated file `QV/Gen/C08_Sem.lean` instantiates the last theorem with the obligations of
  the current qibo source on every run (`C08_decompose_circuit`).
-/
import QV.Props.C08
import QV.Props.C05b
import QV.Proofs.Bridge
set_option linter.unusedSectionVars false
namespace QV.Props.C08
open QV

/-- a checked obligation whose right side is one gate gives, for all parameter values, the
    hypothesis `h` of `T08_placement` (with `gs` the traced list, `M` the traced gate). -/
theorem T08_hyp_of_obligation (o : Ob) (hs : o.singleShape = true) (h : o.check = true)
    (θ : Nat → ℝ) :
    ∃ c : ℂ, ‖c‖ = 1 ∧ (o.mode = .exact → c = 1) ∧ ∀ (ψ : Lab → ℂ) (x : Lab),
      runCircuit (o.ls.map (SGate.toMGate θ)) ψ x = c * applyGate (o.refGate.toMGate θ) ψ x :=
  Ob.singleStmt_of_check o hs h θ

/-- … and therefore the decomposition implements the gate, with the same scalar, wherever the
    gate is placed (σ a relabelling of the qubits with inverse τ). -/
theorem T08_placement_of_obligation (o : Ob) (ho : o.SingleStmt) (θ : Nat → ℝ)
    (σ τ : Nat → Nat) (hστ : ∀ q, σ (τ q) = q) (hτσ : ∀ q, τ (σ q) = q) :
    ∃ c : ℂ, ‖c‖ = 1 ∧ (o.mode = .exact → c = 1) ∧ ∀ (φ : Lab → ℂ) (y : Lab),
      runCircuit (relabelCircuit σ (o.lsRun θ)) φ y =
        c * applyGate ((o.refGate.toMGate θ).relabel σ) φ y := by
  obtain ⟨c, hc, h1, he⟩ := ho θ
  exact ⟨c, hc, h1, fun φ y => T08_placement σ τ hστ hτσ _ _ c he φ y⟩

section Generic
variable {α : Type} [CommSemiring α]

/-- `T08_circuit` for a circuit given as a list of instances: gate `G i`, its decomposition
    `dec i`, its scalar `ph i`; the hypothesis is asked only of the instances that occur. -/
theorem T08_circuit_inst {ι : Type} (G : ι → MGate α) (dec : ι → List (MGate α)) (ph : ι → α)
    (is : List ι)
    (hdec : ∀ i ∈ is, ∀ ψ : Lab → α, runCircuit (dec i) ψ = fun x => ph i * applyGate (G i) ψ x)
    (ψ : Lab → α) :
    runCircuit (is.flatMap dec) ψ = fun x => (is.map ph).prod * runCircuit (is.map G) ψ x := by
  induction is generalizing ψ with
  | nil => funext x; simp [runCircuit]
  | cons i is ih =>
    rw [List.flatMap_cons, runCircuit_append, hdec i List.mem_cons_self ψ, runCircuit_smul]
    funext x
    rw [ih (fun j hj => hdec j (List.mem_cons_of_mem _ hj))]
    simp only [List.map_cons, List.prod_cons, mul_assoc, runCircuit_cons]

end Generic

/-! ### end to end -/

open QV.Props.C05 (Inst)

/-- the gate of an instance as the simulator sees it (class = a decomposition obligation). -/
noncomputable def refInst (i : Inst) : MGate ℂ := (i.o.refGate.toMGate i.θ).relabel i.σ
/-- its decomposition: the traced list at the same parameter values on the same qubits. -/
noncomputable def decInst (i : Inst) : List (MGate ℂ) := relabelCircuit i.σ (i.o.lsRun i.θ)

/-- **end to end, over a table of classes**: if every obligation of the table holds in the
    simulator reading, then for every circuit built from instances of its classes — any length,
    any parameter values, any placement — the decomposed circuit (`Circuit.decompose` = the
    concatenation of the per-gate lists, `T08_circuit_decompose_flatMap`) equals the circuit up
    to one unit-modulus scalar, on every state of every register. -/
theorem T08_decompose_of_classes (classes : List Ob) (hcl : ∀ o ∈ classes, o.SingleStmt)
    (is : List Inst)
    (his : ∀ i ∈ is, i.o ∈ classes ∧ (∀ q, i.σ (i.τ q) = q) ∧ (∀ q, i.τ (i.σ q) = q)) :
    ∃ c : ℂ, ‖c‖ = 1 ∧ ∀ (ψ : Lab → ℂ) (x : Lab),
      runCircuit (is.flatMap decInst) ψ x = c * runCircuit (is.map refInst) ψ x := by
  induction is with
  | nil => exact ⟨1, by simp, fun ψ x => by simp [runCircuit]⟩
  | cons i is ih =>
    obtain ⟨hm, h1, h2⟩ := his i List.mem_cons_self
    obtain ⟨c1, hc1, _, e1⟩ := T08_placement_of_obligation i.o (hcl i.o hm) i.θ i.σ i.τ h1 h2
    obtain ⟨c2, hc2, e2⟩ := ih (fun j hj => his j (List.mem_cons_of_mem _ hj))
    refine ⟨c1 * c2, by rw [norm_mul, hc1, hc2, mul_one], fun ψ x => ?_⟩
    have hfun : runCircuit (decInst i) ψ = fun y => c1 * applyGate (refInst i) ψ y :=
      funext (e1 ψ)
    rw [List.flatMap_cons, runCircuit_append, hfun, runCircuit_smul, List.map_cons,
      runCircuit_cons]
    show c1 * runCircuit (List.flatMap decInst is) (applyGate (refInst i) ψ) x = _
    rw [e2, mul_assoc]

/-- **end to end, from the kernel checks** (`Ob.check`, `Ob.singleShape` decided by the kernel). -/
theorem T08_decompose_of_obligations (is : List Inst)
    (his : ∀ i ∈ is, i.o.singleShape = true ∧ i.o.check = true ∧
      (∀ q, i.σ (i.τ q) = q) ∧ (∀ q, i.τ (i.σ q) = q)) :
    ∃ c : ℂ, ‖c‖ = 1 ∧ ∀ (ψ : Lab → ℂ) (x : Lab),
      runCircuit (is.flatMap decInst) ψ x = c * runCircuit (is.map refInst) ψ x := by
  refine T08_decompose_of_classes (is.map Inst.o) (fun o ho => ?_) is (fun i hi => ?_)
  · obtain ⟨i, hi, rfl⟩ := List.mem_map.mp ho
    obtain ⟨hs, hc, _, _⟩ := his i hi
    exact Ob.singleStmt_of_check i.o hs hc
  · obtain ⟨_, _, h1, h2⟩ := his i hi
    exact ⟨List.mem_map.mpr ⟨i, hi, rfl⟩, h1, h2⟩

/-! ### non-vacuity -/

/-- written by hand in the generated format: `Z = S · S` (exact) on qubit 0 of 1. -/
def demoZ : Ob :=
  { np := 0, n := 1,
    ls := [{ mat := [[.rat 1 1, .rat 0 1], [.rat 0 1, .I]], targets := [0] },
           { mat := [[.rat 1 1, .rat 0 1], [.rat 0 1, .I]], targets := [0] }],
    rs := [{ mat := [[.rat 1 1, .rat 0 1], [.rat 0 1, .rat (-1) 1]], targets := [0] }],
    mode := .exact }

/-- `RZ(θ) = U1(θ)` up to the phase `e^{-iθ/2}` (phase mode, one parameter). -/
def demoRZ : Ob :=
  { np := 1, n := 1,
    ls := [{ mat := [[.rat 1 1, .rat 0 1], [.rat 0 1, .exp (.mul .I (.par 0))]], targets := [0] }],
    rs := [{ mat := [[.exp (.neg (.mul .I (.div (.par 0) (.rat 2 1)))), .rat 0 1],
                     [.rat 0 1, .exp (.mul .I (.div (.par 0) (.rat 2 1)))]], targets := [0] }],
    mode := .phase }

theorem demoZ_check : demoZ.check = true := by decide +kernel
theorem demoZ_shape : demoZ.singleShape = true := by decide +kernel
theorem demoRZ_check : demoRZ.check = true := by decide +kernel
theorem demoRZ_shape : demoRZ.singleShape = true := by decide +kernel

example (θ : Nat → ℝ) :
    ∃ c : ℂ, ‖c‖ = 1 ∧ (demoRZ.mode = .exact → c = 1) ∧ ∀ (ψ : Lab → ℂ) (x : Lab),
      runCircuit (demoRZ.ls.map (SGate.toMGate θ)) ψ x = c * applyGate (demoRZ.refGate.toMGate θ) ψ x :=
  T08_hyp_of_obligation demoRZ demoRZ_shape demoRZ_check θ

/-- the hypotheses of the end-to-end theorem are satisfiable: Z on qubit 4, RZ(a) on qubit 1. -/
example (a : ℝ) :
    let sw (p : Nat) : Nat → Nat := fun q => if q = 0 then p else if q = p then 0 else q
    let is : List Inst := [⟨demoZ, fun _ => 0, sw 4, sw 4⟩, ⟨demoRZ, fun _ => a, sw 1, sw 1⟩]
    ∃ c : ℂ, ‖c‖ = 1 ∧ ∀ (ψ : Lab → ℂ) (x : Lab),
      runCircuit (is.flatMap decInst) ψ x = c * runCircuit (is.map refInst) ψ x := by
  intro sw is
  have hsw : ∀ p q, sw p (sw p q) = q := by
    intro p q
    simp only [sw]
    by_cases h0 : q = 0
    · subst h0; by_cases hp : p = 0 <;> simp [hp]
    · by_cases hp : q = p
      · subst hp; simp [h0]
      · simp [h0, hp]
  refine T08_decompose_of_obligations is (fun i hi => ?_)
  simp only [is, List.mem_cons, List.not_mem_nil, or_false] at hi
  rcases hi with rfl | rfl
  · exact ⟨demoZ_shape, demoZ_check, hsw _, hsw _⟩
  · exact ⟨demoRZ_shape, demoRZ_check, hsw _, hsw _⟩

end QV.Props.C08
