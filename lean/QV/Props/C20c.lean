/-
  C20c — `unary_encoder(data, architecture="tree")` loads the data (n a power of two).
  Property theorems only; proofs in QV/Proofs/EncodingsTree.lean.
  Model: QV/Model/Encodings.lean (`unary n true`: the python loop of `_generate_rbs_pairs`
  transliterated, RBS gates numbered in queue order), executed by the simulator model
  QV/Model/Sim.lean over an arbitrary commutative ring (`P.c e`/`P.s e` = cos/sin of the e-th
  circuit parameter).

  Heap numbering of the binary tree: node `e` has the children `2e+1` (left) and `2e+2`
  (right); the inner nodes `e < n-1` are the RBS gates in queue order, the leaves
  `e = n-1+p` are the data entries `p < n`.
-/
import Mathlib.Tactic.IntervalCases
import QV.Props.C20
import QV.Proofs.EncodingsTree
namespace QV.Props.C20
open QV QV.Enc Finset

variable {α : Type} [CommRing α]

/-- **Closed form of the tree gate list.**  For `n = 2^m` qubits (`m ≥ 1`) the queue of
`unary_encoder(·, architecture="tree")` — `X(n-1)` followed by the RBS gates on the pairs that
the python loop of `_generate_rbs_pairs` produces — is `X(n-1)` followed by the rows
`d = 0 … m-1`; row `d` consists of the `2^d` gates
`RBS(n-1-j·2^(m-d), n-1-(j·2^(m-d)+2^(m-d-1)))`, `j < 2^d`, and gate `j` of row `d` takes the
circuit parameter number `2^d-1+j` (`treeGates`, `treeRowGates`): the gates are the inner nodes
of a complete binary tree in heap order. -/
theorem T20_unary_tree_gates (m : Nat) (hm : 1 ≤ m) :
    unary (2 ^ m) true = ({ kind := .X, q0 := 2 ^ m - 1 } : GD) :: treeGates m :=
  unary_tree_eq m hm

/-- **Unary loader (tree).**  `n = 2^m` qubits.  Let `R e` play the role of the norm of the
data in the sub-tree below heap node `e` (leaves: `R (n-1+p) = x p`), and let the angles satisfy
`R e · cos θ_e = R (2e+1)`, `R e · sin θ_e = R (2e+2)` for every inner node — which is what
`_generate_rbs_angles(data, "tree", n)` computes (`θ_e = acos(r_{2e+1} / r_e)` with
`r_e = √(r_{2e+1}² + r_{2e+2}²)`, at the last level replaced by `2π − θ_e` when the right data
entry is negative; a zero sub-tree gets `θ = 0`, which satisfies the relations as well).  Then `‖x‖ · state = Σ_k x_k |one-hot(n-1-k)⟩`: the amplitudes on the
documented basis states are `x_k / ‖x‖` and every other amplitude is 0. -/
theorem T20_unary_tree (P : Par α) (m : Nat) (hm : 1 ≤ m) (x R : Nat → α)
    (hleaf : ∀ p, p < 2 ^ m → R (2 ^ m - 1 + p) = x p)
    (hc : ∀ e, e < 2 ^ m - 1 → R e * P.c e = R (2 * e + 1))
    (hs : ∀ e, e < 2 ^ m - 1 → R e * P.s e = R (2 * e + 2)) (y : Lab) :
    R 0 * runCircuit ((unary (2 ^ m) true).map (GD.sem P)) (ket zeroLab) y
      = ∑ k ∈ range (2 ^ m), x k * ket (oh (2 ^ m - 1 - k)) y := by
  rw [T20_unary_tree_gates m hm]
  exact treeGates_loader P m x R hleaf hc hs y

/-- product of the cosines (step to a left child) and sines (step to a right child) of the
gates on the path from the root `0` to heap node `e`. -/
def pathAmp (P : Par α) : Nat → α
  | 0 => 1
  | e + 1 => pathAmp P (e / 2) * (if e % 2 = 0 then P.c (e / 2) else P.s (e / 2))
decreasing_by omega

theorem pathAmp_left (P : Par α) (e : Nat) : pathAmp P (2 * e + 1) = pathAmp P e * P.c e := by
  rw [pathAmp]
  have h1 : 2 * e / 2 = e := by omega
  have h2 : 2 * e % 2 = 0 := by omega
  rw [h1, if_pos h2]

theorem pathAmp_right (P : Par α) (e : Nat) : pathAmp P (2 * e + 2) = pathAmp P e * P.s e := by
  have h0 : 2 * e + 2 = (2 * e + 1) + 1 := rfl
  rw [h0, pathAmp]
  have h1 : (2 * e + 1) / 2 = e := by omega
  have h2 : ¬ (2 * e + 1) % 2 = 0 := by omega
  rw [h1, if_neg h2]

/-- state prepared by `unary_encoder(·, "tree")` on `n = 2^m` qubits for arbitrary RBS angles:
the amplitude on the one-hot state of qubit `n-1-k` is the product of the cosines / sines along
the path from the root to leaf `k` of the gate tree (cosine when the path goes to the left
child, sine when it goes to the right child); all other amplitudes are 0. -/
theorem T20_unary_tree_state (P : Par α) (m : Nat) (hm : 1 ≤ m) (y : Lab) :
    runCircuit ((unary (2 ^ m) true).map (GD.sem P)) (ket zeroLab) y
      = ∑ k ∈ range (2 ^ m), pathAmp P (2 ^ m - 1 + k) * ket (oh (2 ^ m - 1 - k)) y := by
  have h := T20_unary_tree P m hm (fun k => pathAmp P (2 ^ m - 1 + k)) (pathAmp P)
    (fun _ _ => rfl) (fun e _ => (pathAmp_left P e).symm) (fun e _ => (pathAmp_right P e).symm) y
  have h0 : pathAmp P 0 = 1 := by rw [pathAmp]
  rw [h0, one_mul] at h
  exact h

/-! ### non-vacuity -/

/-- the closed form on 4 qubits: `RBS(3,1)` (parameter 0), then `RBS(3,2)`, `RBS(1,0)`. -/
example : treeGates 2 = [{ kind := .RBS, q0 := 3, q1 := 1, e := 0 },
    { kind := .RBS, q0 := 3, q1 := 2, e := 1 }, { kind := .RBS, q0 := 1, q1 := 0, e := 2 }] := by
  decide

private def exPar1 : Par ℚ := { h := 0, w := fun _ => 0, c := fun _ => 3 / 5, s := fun _ => 4 / 5 }
private def exX1 : Nat → ℚ := fun k => if k = 0 then 3 else 4
private def exR1 : Nat → ℚ := fun e => if e = 0 then 5 else if e = 1 then 3 else 4

/-- hypotheses of `T20_unary_tree` are satisfiable, `m = 1`: data `(3, 4)`, `‖x‖ = 5`,
`cos θ₀ = 3/5`, `sin θ₀ = 4/5` over ℚ. -/
example (y : Lab) :
    exR1 0 * runCircuit ((unary (2 ^ 1) true).map (GD.sem exPar1)) (ket zeroLab) y
      = ∑ k ∈ range (2 ^ 1), exX1 k * ket (oh (2 ^ 1 - 1 - k)) y :=
  T20_unary_tree exPar1 1 (le_refl 1) exX1 exR1
    (by intro p hp
        have hp' : p < 2 := by simpa using hp
        interval_cases p <;> norm_num [exX1, exR1])
    (by intro e he
        have he' : e < 1 := by simpa using he
        interval_cases e; norm_num [exR1, exPar1])
    (by intro e he
        have he' : e < 1 := by simpa using he
        interval_cases e; norm_num [exR1, exPar1]) y

/-- angles of `_generate_rbs_angles((3,4,0,0), "tree", 4)`: `θ₀ = 0` (the right half of the data
is zero), `cos θ₁ = 3/5`, `sin θ₁ = 4/5`, `θ₂ = 0` (zero sub-tree convention). -/
private def exPar2 : Par ℚ :=
  { h := 0, w := fun _ => 0, c := fun e => if e = 1 then 3 / 5 else 1,
    s := fun e => if e = 1 then 4 / 5 else 0 }
private def exX2 : Nat → ℚ := fun k => if k = 0 then 3 else if k = 1 then 4 else 0
/-- sub-tree norms `[5, 5, 0, 3, 4, 0, 0]`. -/
private def exR2 : Nat → ℚ := fun e =>
  if e = 0 then 5 else if e = 1 then 5 else if e = 3 then 3 else if e = 4 then 4 else 0

/-- hypotheses of `T20_unary_tree` are satisfiable with a zero sub-tree, `m = 2`: data
`(3, 4, 0, 0)`, norms `[5, 5, 0, 3, 4, 0, 0]`, angle `0` on the zero sub-tree. -/
example (y : Lab) :
    exR2 0 * runCircuit ((unary (2 ^ 2) true).map (GD.sem exPar2)) (ket zeroLab) y
      = ∑ k ∈ range (2 ^ 2), exX2 k * ket (oh (2 ^ 2 - 1 - k)) y :=
  T20_unary_tree exPar2 2 (by norm_num) exX2 exR2
    (by intro p hp
        have hp' : p < 4 := by simpa using hp
        interval_cases p <;> norm_num [exX2, exR2])
    (by intro e he
        have he' : e < 3 := by simpa using he
        interval_cases e <;> norm_num [exR2, exPar2])
    (by intro e he
        have he' : e < 3 := by simpa using he
        interval_cases e <;> norm_num [exR2, exPar2]) y

end QV.Props.C20
