/-
  C13 — exported circuits and results re-import to equivalent objects.
  Theorems about the models `QV.Model.Qasm` (QASM writer/reader on circuit skeletons)
  and `QV.Model.Serial` (gate dictionaries, result payloads).  The name table of the
  reader is a regenerated kernel obligation (QV/Gen/C13_Names.lean).
-/
import QV.Proofs.Qasm
import QV.Proofs.Serial
set_option linter.unusedSimpArgs false

namespace QV.Props.C13
open QV.Qasm QV.Serial

/-! ### QASM text round trip -/

/-- For EVERY well-formed circuit skeleton (any number of qubits, gates, registers;
register names unique, qubits in range, measured qubits of a register distinct and
non-empty) the reader run on the writer's output returns exactly the skeleton: same
`nqubits`, same (label, qubits, parameter tokens) list, same registers with the same
qubit order. -/
theorem T13_qasm_roundtrip (c : Circ) (h : c.wf = true) :
    importLines (exportLines c) = some c := by
  obtain ⟨n, gates, regs⟩ := c
  simp only [Circ.wf, Bool.and_eq_true, List.all_eq_true, Reg.wf, allLt, decide_eq_true_eq,
    Bool.not_eq_true', List.isEmpty_eq_false_iff] at h
  obtain ⟨⟨hg, hr⟩, hnd⟩ := h
  have hnd' : (regs.map (·.name)).Nodup := by simpa using hnd
  have hq : ∀ r ∈ regs, ∀ q ∈ r.qubits, q < n := fun r hr' => (hr r hr').1.1
  have hd : ∀ r ∈ regs, r.qubits.Nodup := fun r hr' => by simpa using (hr r hr').1.2
  have hne : ∀ r ∈ regs, r.qubits ≠ [] := fun r hr' => (hr r hr').2
  have p1 := parse_cregs n regs [] hnd' (by simp)
  have p2 := parse_gates n gates (regs.map cregInit) [] hg
  have p3 := parse_measAll n regs [] ([] ++ gates.map Item.gate) hq (by simpa using hnd')
  simp only [List.nil_append, List.map_nil] at p1 p2 p3
  have hparse : parse {} (exportLines ⟨n, gates, regs⟩)
      = some (stQ n (regs.map cregDone) (gates.map Item.gate ++ regs.flatMap measItems)) := by
    simp only [exportLines, List.cons_append, parse, step_qreg]
    rw [List.append_assoc, parse_append_of_eq p1, parse_append_of_eq p2, p3]
  simp only [importLines, hparse, finish, stQ]
  rw [merge_gates, merge_regs regs hnd' hne, assemble_gates n gates _ [] hg]
  have := assemble_regs n regs ([] ++ gates) [] hq hd (by simpa using hnd')
  simp only [List.nil_append] at this ⊢
  rw [this]

/-- the writer never maps two different well-formed circuits to the same text -/
theorem T13_qasm_export_injective (c d : Circ) (hc : c.wf = true) (hd : d.wf = true)
    (h : exportLines c = exportLines d) : c = d := by
  have h1 := T13_qasm_roundtrip c hc
  have h2 := T13_qasm_roundtrip d hd
  rw [h] at h1
  exact Option.some.inj (h1.symm.trans h2)

/-- a gate applied after a measurement of one of its qubits removes that register from
`measurement_tuples` (it becomes a collapsing measurement), for every circuit prefix:
the mid-circuit rule of `Circuit.add` the reader goes through. -/
theorem T13_assemble_collapse (n : Nat) (g : GateS) (gs : List GateS) (rs : List Reg)
    (rest : List QItem) (hg : allLt n g.qubits = true) :
    assemble n (.gate g :: rest) gs rs
      = assemble n rest (gs ++ [g]) (rs.filter fun r => disjointFrom r.qubits g.qubits) := by
  simp [assemble, hg]

/-- non-vacuity: a circuit with permuted / interleaved registers is well-formed and the
round trip is computed by the kernel -/
def exCirc : Circ :=
  ⟨4, [⟨"h", [0], []⟩, ⟨"cx", [3, 1], []⟩, ⟨"u3", [2], ["0.1", "-0.0", "1e-300"]⟩],
   [⟨"a", [3, 0]⟩, ⟨"b", [1]⟩, ⟨"register2", [2, 3]⟩]⟩

example : exCirc.wf = true := by decide
example : importLines (exportLines exCirc) = some exCirc := T13_qasm_roundtrip _ (by decide)

/-- without the well-formedness hypothesis the statement is false: two registers of the
same name are merged into one by the reader (so the hypothesis is needed, and
`Circuit.add` indeed refuses such circuits) -/
example : importLines (exportLines ⟨2, [], [⟨"a", [0]⟩, ⟨"a", [1]⟩]⟩)
    ≠ some ⟨2, [], [⟨"a", [0]⟩, ⟨"a", [1]⟩]⟩ := by decide

/-- the reader on measure lines written in any order still orders the register by the
classical index (not by statement order) — instance checked by evaluation -/
example : importLines [.qreg "q" 3, .creg "c" 2, .measure ⟨"q", 0⟩ "c" 1,
      .gate "h" [] [⟨"q", 1⟩], .measure ⟨"q", 2⟩ "c" 0]
    = some ⟨3, [⟨"h", [1], []⟩], [⟨"c", [2, 0]⟩]⟩ := by decide

/-! ### gate dictionaries -/

/-- `from_dict (raw g)` has the CURRENT parameters, targets and controls of `g`, for every
gate object whose constructor keywords hold its parameters under names that survive the
`REQUIRED_FIELDS_INIT_KWARGS` filter (any filter list `req`), after ANY history of parameter updates (accepted or
rejected by the setter), for both layouts (keyword parameters; `Unitary`: matrix in
`init_args[0]`). -/
theorem T13_dict_roundtrip {τ : Type} [DecidableEq τ] (req : List String) (g : GateObj τ)
    (hnd : g.paramNames.Nodup) (hinv : g.kwInv req = true) (hs : List (List τ)) :
    ∃ g', fromDict g ((g.history hs).raw req) = some g'
      ∧ g'.params = (g.history hs).params
      ∧ g'.targets = (g.history hs).targets ∧ g'.controls = (g.history hs).controls := by
  -- invariant: static data unchanged and kwInv holds along the history
  suffices H : ∀ (k : GateObj τ), k.paramNames = g.paramNames → k.argParam = g.argParam →
      k.kwInv req = true →
      ∃ g', fromDict g ((k.history hs).raw req) = some g'
        ∧ g'.params = (k.history hs).params
        ∧ g'.targets = (k.history hs).targets ∧ g'.controls = (k.history hs).controls from
    H g rfl rfl hinv
  induction hs with
  | nil =>
    intro k hn ha hk
    cases hap : g.argParam with
    | true =>
      simp only [GateObj.kwInv, ha, hap, if_true, Bool.and_eq_true, beq_iff_eq] at hk
      match hia : k.initArgs, hp : k.params, hk.2 with
      | a :: as, [p], h2 =>
        simp only [beq_iff_eq] at h2
        simp only [GateObj.history, GateObj.raw, fromDict, hap, if_true, hia]
        exact ⟨_, rfl, by simp [hp, h2], rfl, rfl⟩
    | false =>
      simp only [GateObj.kwInv, ha, hap, Bool.false_eq_true, if_false, beq_iff_eq] at hk
      simp only [GateObj.history, GateObj.raw, fromDict, hap, Bool.false_eq_true, if_false]
      rw [← hn, hk]
      exact ⟨_, rfl, rfl, rfl, rfl⟩
  | cons x xs ih =>
    intro k hn ha hk
    simp only [GateObj.history]
    apply ih
    · unfold GateObj.setParams; split
      · exact hn
      · split <;> exact hn
    · unfold GateObj.setParams; split
      · exact ha
      · split <;> exact ha
    · unfold GateObj.setParams
      split
      · exact hk
      · rename_i hlen
        have hlen' : x.length = k.paramNames.length := by simpa using hlen
        split
        · rename_i hap
          simp only [GateObj.kwInv, hap, if_true, Bool.and_eq_true, beq_iff_eq] at hk ⊢
          refine ⟨hk.1, ?_⟩
          rw [hk.1] at hlen'
          match x, hlen' with
          | [v], _ =>
            match hia : k.initArgs, hk.2 with
            | a :: as, _ => simp
            | [], h2 => simp [hia] at h2
        · rename_i hap
          simp only [GateObj.kwInv, hap, Bool.false_eq_true, if_false, beq_iff_eq] at hk ⊢
          rw [filter_updKw (fun s => req.contains s)]
          exact lookupAll_updKw _ _ _ (hn ▸ hnd) (lookupAll_present _ _ _ hk) hlen'

/-- non-vacuity: U3-like keyword layout and the `Unitary` layout satisfy the hypotheses -/
def exU3 : GateObj Int :=
  { cls := "U3", paramNames := ["theta", "phi", "lam"], argParam := false, initArgs := [0],
    initKwargs := [("theta", 1), ("phi", 2), ("lam", 3), ("trainable", 1)],
    targets := [0], controls := [], params := [1, 2, 3] }
def exUnitary : GateObj Int :=
  { cls := "Unitary", paramNames := ["u"], argParam := true, initArgs := [7, 0],
    initKwargs := [("name", 0), ("check_unitary", 1), ("trainable", 1)],
    targets := [0], controls := [], params := [7] }
example : exU3.kwInv requiredKwargs = true ∧ exU3.paramNames.Nodup := by decide
example : exUnitary.kwInv requiredKwargs = true ∧ exUnitary.paramNames.Nodup := by decide
example : ((fromDict exU3 ((exU3.history [[4, 5, 6], [9]]).raw requiredKwargs)).map (·.params)) = some [4, 5, 6] := by
  decide
/-- a parameter held under a keyword that the filter drops (`GeneralizedfSim`'s `unitary`)
does not satisfy the hypothesis, and indeed `from_dict (raw g)` is rejected -/
def exGfSim : GateObj Int :=
  { cls := "GeneralizedfSim", paramNames := ["unitary", "phi"], argParam := false,
    initArgs := [0, 1], initKwargs := [("unitary", 5), ("phi", 2), ("trainable", 1)],
    targets := [0, 1], controls := [], params := [5, 2] }
example : exGfSim.kwInv requiredKwargs = false
    ∧ (fromDict exGfSim (exGfSim.raw requiredKwargs)).isNone = true := by decide

/-! ### results -/

/-- for every result reachable by any sequence of `samples()` / `frequencies()` calls from
a consistent start (nothing drawn, or samples supplied by repeated execution): if samples
exist, the loaded object returns the same samples and the same frequencies as the
original, whatever the loader's random tape and whether or not frequencies are stored. -/
theorem T13_result_roundtrip_samples {S F : Type} (o : Oracle S F)
    (hexp : ∀ f t, o.count (o.expand f t) = f)
    (r0 : Res S F) (h0 : r0.Inv o) (ops : List Op) (savesFreq : Bool) (t : Nat) (s : S)
    (hs : (r0.run o ops).samples = some s) :
    (load ((r0.run o ops).dump savesFreq) t).obsSamples o = some s
      ∧ (load ((r0.run o ops).dump savesFreq) t).obsFreq o = (r0.run o ops).obsFreq o
      ∧ (r0.run o ops).obsFreq o = some (o.count s) := by
  have hinv := Res.run_inv o hexp r0 h0 ops
  generalize r0.run o ops = r at hs hinv
  have hr : r.obsFreq o = some (o.count s) := by
    unfold Res.obsFreq Res.step
    cases hf : r.freqs with
    | some f => simp [hf, hinv s f hs hf]
    | none => simp [hf, hs]
  refine ⟨?_, ?_, hr⟩
  · simp [Res.obsSamples, Res.step, load, Res.dump, hs]
  · rw [hr]
    unfold Res.obsFreq Res.step
    cases savesFreq with
    | false => simp [load, Res.dump, hs]
    | true =>
      cases hf : r.freqs with
      | some f => simp [load, Res.dump, hf, hinv s f hs hf]
      | none => simp [load, Res.dump, hf, hs]

/-- if the payload stores frequencies, they survive for every reachable result -/
theorem T13_result_roundtrip_freq_saved {S F : Type} (o : Oracle S F) (r : Res S F) (t : Nat)
    (f : F) (hf : r.freqs = some f) : (load (r.dump true) t).obsFreq o = some f := by
  simp [Res.obsFreq, Res.step, load, Res.dump, hf]

/-- the full claim (every reachable result, payload as written by result.py, i.e. without
`_frequencies`) -/
def C13_result_roundtrip_full : Prop :=
  ∀ (S F : Type) (o : Oracle S F) (r : Res S F) (t : Nat),
    (load (r.dump false) t).obsFreq o = r.obsFreq o

/-- it is FALSE of the model of result.py: a result whose frequencies were drawn without
samples is reloaded with fresh draws (DESIGN §4 F17) -/
theorem T13_result_freq_only_redrawn :
    ¬ C13_result_roundtrip_full := by
  intro h
  have := h Nat Nat ⟨id, id, fun t => t + 1, fun f _ => f⟩ { freqs := some 0 } 5
  simp [Res.obsFreq, Res.step, load, Res.dump] at this

/-- non-vacuity of the hypotheses of `T13_result_roundtrip_samples` -/
example : (({} : Res Nat Nat).Inv ⟨id, id, id, fun f _ => f⟩) := by
  intro s f h; simp at h

end QV.Props.C13
