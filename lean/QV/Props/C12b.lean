/-
  C12 (part b) — the tableau simulator against the state-vector simulator, for every register
  size and every circuit.

  Meaning of the objects (QV/Model/CliffordSV.lean, executable, compared with the real backends on
  every run): a state is a function `Lab → GI` of the simulator model QV/Model/Sim.lean; the
  operator of a tableau row `w` on `n` qubits is `pauliOp n w = (-1)^r · ∏_{k<n} σ(x k, z k)_k`, each
  factor a one-qubit gate applied with the simulator's `applyGate`; the operator of a Clifford
  gate is the simulator gate `g.mgate` (matrix of CliffordMat on the gate's qubits).

  * `T12_conjugation_all_qubits` (= `ConjugationAllQubits`, the statement that C12.lean only
    described): `U_g · P(w) = P(g.act w) · U_g` as operators, for every `n`, every gate on valid
    qubits and every signed Pauli string — assembled from the local facts `T12_conj_*`
    (finite, decided by the kernel) and `T12_locality`.
  * `T12_conjugation_circuit`, `T12_tableau_rows_conjugate` : the same for gate lists; the rows of
    the tableau after a circuit are the conjugates of the initial rows by the circuit's operator.
  * `T12_stabilizer_state` : every stabiliser row of the tableau after a circuit fixes the state
    vector the circuit produces from `|0…0⟩` ("stabiliser state = state-vector result").
-/
import QV.Props.C12
import QV.Proofs.CliffordSV
namespace QV.Props.C12
open QV QV.Cliff

/-- the `n`-qubit operator identity of `ConjugationAllQubits_statement`, as a proposition. -/
def ConjugationAllQubits : Prop :=
  ∀ (n : Nat) (g : Gate), g.ok n → ∀ (w : Row) (ψ : Lab → GI),
    QV.applyGate g.mgate (pauliOp n w ψ) = pauliOp n (g.act w) (QV.applyGate g.mgate ψ)

/-- **`U_g · P(w) = P(g.act w) · U_g`** for every register size, gate and signed Pauli string,
with the sign the update writes to `r`. -/
theorem T12_conjugation_all_qubits : ConjugationAllQubits := by
  intro n g hg w ψ
  obtain ⟨fI, fH, fX, fY, fZ, fS, fSDG, fSX, fSXDG⟩ := T12_conj_fixed1
  obtain ⟨fCNOT, fCZ, fCY, fSWAP, fiSWAP, fFSWAP, fECR⟩ := T12_conj_fixed2
  cases g <;> simp only [Gate.ok] at hg <;> simp only [Gate.mgate, Gate.act]
  case I q => exact conj_n1 n q hg _ _ (off_I q) (loc1_of_conj fI (eqv1_id q) signLin_id) w ψ
  case H q => exact conj_n1 n q hg _ _ (off_H q) (loc1_of_conj fH (eqv1_H q) (signLin_H 0)) w ψ
  case X q => exact conj_n1 n q hg _ _ (off_X q) (loc1_of_conj fX (eqv1_X q) (signLin_X 0)) w ψ
  case Y q => exact conj_n1 n q hg _ _ (off_Y q) (loc1_of_conj fY (eqv1_Y q) (signLin_Y 0)) w ψ
  case Z q => exact conj_n1 n q hg _ _ (off_Z q) (loc1_of_conj fZ (eqv1_Z q) (signLin_Z 0)) w ψ
  case S q => exact conj_n1 n q hg _ _ (off_S q) (loc1_of_conj fS (eqv1_S q) (signLin_S 0)) w ψ
  case SDG q => exact conj_n1 n q hg _ _ (off_SDG q) (loc1_of_conj fSDG (eqv1_SDG q) (signLin_SDG 0)) w ψ
  case SX q => exact conj_n1 n q hg _ _ (off_SX q) (loc1_of_conj fSX (eqv1_SX q) (signLin_SX 0)) w ψ
  case SXDG q =>
    exact conj_n1 n q hg _ _ (off_SXDG q) (loc1_of_conj fSXDG (eqv1_SXDG q) (signLin_SXDG 0)) w ψ
  case CNOT c t =>
    exact conj_n2 n c t hg.1 hg.2.1 hg.2.2 _ _ (off_CNOT c t)
      (loc2_of_conj fCNOT (eqv2_CNOT c t hg.2.2) (signLin_CNOT 0 1)) w ψ
  case CZ c t =>
    exact conj_n2 n c t hg.1 hg.2.1 hg.2.2 _ _ (off_CZ c t)
      (loc2_of_conj fCZ (eqv2_CZ c t hg.2.2) (signLin_CZ 0 1)) w ψ
  case CY c t =>
    exact conj_n2 n c t hg.1 hg.2.1 hg.2.2 _ _ (off_CY c t)
      (loc2_of_conj fCY (eqv2_CY c t hg.2.2) (signLin_CY 0 1)) w ψ
  case SWAP c t =>
    exact conj_n2 n c t hg.1 hg.2.1 hg.2.2 _ _ (off_SWAP c t)
      (loc2_of_conj fSWAP (eqv2_SWAP c t hg.2.2) (signLin_SWAP 0 1)) w ψ
  case iSWAP c t =>
    exact conj_n2 n c t hg.1 hg.2.1 hg.2.2 _ _ (off_iSWAP c t)
      (loc2_of_conj fiSWAP (eqv2_iSWAP c t hg.2.2) (signLin_iSWAP 0 1)) w ψ
  case FSWAP c t =>
    exact conj_n2 n c t hg.1 hg.2.1 hg.2.2 _ _ (off_FSWAP c t)
      (loc2_of_conj fFSWAP (eqv2_FSWAP c t hg.2.2) (signLin_FSWAP 0 1)) w ψ
  case ECR c t =>
    exact conj_n2 n c t hg.1 hg.2.1 hg.2.2 _ _ (off_ECR c t)
      (loc2_of_conj fECR (eqv2_ECR c t hg.2.2) (signLin_ECR 0 1)) w ψ
  case RX q k =>
    exact conj_n1 n q hg _ _ (off_RX q k) (loc1_of_conj (T12_conj_rot1 k).1 (eqv1_RX q k) (signLin_RX 0 k)) w ψ
  case RY q k =>
    exact conj_n1 n q hg _ _ (off_RY q k) (loc1_of_conj (T12_conj_rot1 k).2.1 (eqv1_RY q k) (signLin_RY 0 k)) w ψ
  case RZ q k =>
    exact conj_n1 n q hg _ _ (off_RZ q k) (loc1_of_conj (T12_conj_rot1 k).2.2 (eqv1_RZ q k) (signLin_RZ 0 k)) w ψ
  case CRX c t k =>
    exact conj_n2 n c t hg.1 hg.2.1 hg.2.2 _ _ (off_CRX c t k)
      (loc2_of_conj (T12_conj_crot k).1 (eqv2_CRX c t hg.2.2 k) (signLin_CRX 0 1 k)) w ψ
  case CRY c t k =>
    exact conj_n2 n c t hg.1 hg.2.1 hg.2.2 _ _ (off_CRY c t k)
      (loc2_of_conj (T12_conj_crot k).2.1 (eqv2_CRY c t hg.2.2 k) (signLin_CRY 0 1 k)) w ψ
  case CRZ c t k =>
    exact conj_n2 n c t hg.1 hg.2.1 hg.2.2 _ _ (off_CRZ c t k)
      (loc2_of_conj (T12_conj_crot k).2.2 (eqv2_CRZ c t hg.2.2 k) (signLin_CRZ 0 1 k)) w ψ

/-- the same for gate lists: the operator of the circuit conjugates `P(w)` into `P` of the row
obtained by applying all updates in order. -/
theorem T12_conjugation_circuit (n : Nat) (gs : List Gate) (hg : ∀ g ∈ gs, g.ok n) (w : Row)
    (ψ : Lab → GI) :
    runCircuit (gs.map Gate.mgate) (pauliOp n w ψ)
      = pauliOp n (actAll gs w) (runCircuit (gs.map Gate.mgate) ψ) := by
  induction gs generalizing w ψ with
  | nil => rfl
  | cons g gs ih =>
    simp only [List.map_cons, runCircuit_cons, actAll, List.foldl_cons]
    rw [T12_conjugation_all_qubits n g (hg g (List.mem_cons_self ..)) w ψ]
    exact ih (fun g' hg' => hg g' (List.mem_cons_of_mem _ hg')) _ _

/-- rows of the simulated tableau = conjugates of the initial rows by the circuit's operator
(every row: destabilisers, stabilisers and the scratch row; every initial tableau). -/
theorem T12_tableau_rows_conjugate (n : Nat) (gs : List Gate) (hg : ∀ g ∈ gs, g.ok n) (T : Tableau)
    (j : Nat) (hj : j < T.length) (ψ : Lab → GI) :
    runCircuit (gs.map Gate.mgate) (pauliOp n (getRow T j) ψ)
      = pauliOp n (getRow (runGates gs T) j) (runCircuit (gs.map Gate.mgate) ψ) := by
  rw [getRow_runGates gs T j hj]
  exact T12_conjugation_circuit n gs hg _ ψ

/-- **stabiliser state = state-vector result**: after any circuit of Clifford gates on valid
qubits, every stabiliser row of the tableau, as an operator, fixes the state vector that the
state-vector simulator produces from `|0…0⟩`. -/
theorem T12_stabilizer_state (n : Nat) (gs : List Gate) (hg : ∀ g ∈ gs, g.ok n) (i : Nat)
    (hi : i < n) :
    pauliOp n (getRow (runGates gs (zeroState n)) (n + i)) (runSV n gs) = runSV n gs := by
  have hlen : n + i < (zeroState n).length := by simp [zeroState]; omega
  have h := T12_tableau_rows_conjugate n gs hg (zeroState n) (n + i) hlen (zeroKet n)
  rw [getRow_zero_hi n i hi, pauliOp_unitZ_zeroKet n i hi] at h
  exact h.symm

/-- non-vacuity / concrete instance: the Bell circuit; the stabiliser rows XX and ZZ fix
`|00⟩ + |11⟩` (values at all four labels). -/
example :
    let gs := [Gate.H 0, Gate.CNOT 0 1]
    let ψ := runSV 2 gs
    ((List.range 4).map fun i => ψ (Lab.ofIndex 2 i)) = [1, 0, 0, 1] ∧
    ((List.range 4).map fun i => pauliOp 2 (getRow (runGates gs (zeroState 2)) 2) ψ (Lab.ofIndex 2 i))
      = [1, 0, 0, 1] ∧
    ((List.range 4).map fun i => pauliOp 2 (getRow (runGates gs (zeroState 2)) 3) ψ (Lab.ofIndex 2 i))
      = [1, 0, 0, 1] := by decide +kernel

end QV.Props.C12
