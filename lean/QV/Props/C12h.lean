/-
  C12 (part h) — "reproduces the same state": two circuits with the same tableau produce
  proportional state vectors, so the circuits returned by `to_circuit("AG04")` and
  `to_circuit("BM20")` prepare the state of the original circuit up to a non-zero scalar (the
  state vectors of the model are unnormalised vectors over ℤ[i]; a global phase and the
  normalisation are such scalars).

  The amplitudes of an `n`-qubit register are the values at the labels with no bit set at a
  position `≥ n` (`InReg n`).
-/
import QV.Props.C12g
import QV.Proofs.CliffordUnique
namespace QV.Props.C12
open QV QV.Cliff

theorem T12_stabFix (n : Nat) : StabFix n := fun gs hg i hi => T12_stabilizer_state n gs hg i hi

/-- **same tableau ⟹ same state**: if two Clifford circuits on valid qubits have the same
destabiliser and stabiliser rows and the second one is written with H, S, S†, CNOT, SWAP, X, Y, Z,
their state vectors from `|0…0⟩` are proportional with non-zero factors on both sides. -/
theorem T12_same_tableau_same_state (n : Nat) (cs cs' : List Gate) (hcs : ∀ g ∈ cs, g.ok n)
    (hcs' : ∀ g ∈ cs', g.ok n) (hag : ∀ g ∈ cs', g.isAG = true)
    (hE : TabEq n (runGates cs' (zeroState n)) (runGates cs (zeroState n))) :
    ∃ a b : GI, a ≠ 0 ∧ b ≠ 0 ∧ ∀ x, InReg n x → a * runSV n cs x = b * runSV n cs' x :=
  same_tableau_same_state n (T12_stabFix n) cs cs' hcs hcs' hag hE

/-- a circuit whose tableau is the identity tableau leaves `|0…0⟩` invariant up to a scalar. -/
theorem T12_identity_tableau_state (n : Nat) (ds : List Gate) (hd : ∀ g ∈ ds, g.ok n)
    (hT : TabEq n (runGates ds (zeroState n)) (zeroState n)) :
    (∀ x, InReg n x → x ≠ lab0 → runSV n ds x = 0) ∧ runSV n ds lab0 ≠ 0 :=
  zero_tableau_state n (T12_stabFix n) ds hd hT

/-- **`to_circuit("AG04")` reproduces the state** of every Clifford circuit, up to a non-zero
scalar, for every register size. -/
theorem T12_to_circuit_same_state (n : Nat) (cs : List Gate) (hcs : ∀ g ∈ cs, g.ok n) :
    ∃ a b : GI, a ≠ 0 ∧ b ≠ 0 ∧ ∀ x, InReg n x →
      a * runSV n cs x = b * runSV n (toCircuitAG04 n (runGates cs (zeroState n))) x := by
  have hv : Valid n (runGates cs (zeroState n)) := T12_valid_circuit n cs hcs _ (T12_valid_zero_state n)
  obtain ⟨hok, hE⟩ := toCircuit_spec n _ hv
  exact T12_same_tableau_same_state n cs _ hcs hok (toCircuit_isAG n _ hv) hE

/-- **`to_circuit("BM20")` reproduces the state** whenever it returns a circuit. -/
theorem T12_bm20_same_state (n : Nat) (cs : List Gate) (hcs : ∀ g ∈ cs, g.ok n) (gs : List Gate)
    (h : toCircuitBM20 n (runGates cs (zeroState n)) = some gs) :
    ∃ a b : GI, a ≠ 0 ∧ b ≠ 0 ∧ ∀ x, InReg n x → a * runSV n cs x = b * runSV n gs x := by
  have hv : Valid n (runGates cs (zeroState n)) := T12_valid_circuit n cs hcs _ (T12_valid_zero_state n)
  obtain ⟨hok, hE⟩ := toCircuitBM20_spec n _ hv gs h
  exact T12_same_tableau_same_state n cs gs hcs hok (bm20With_isAG _ n _ gs h) hE

/-! ### non-vacuity / instance -/

/-- Bell circuit and the circuit `to_circuit("AG04")` returns for its tableau: the amplitudes on
the four register labels are `(1, 0, 0, 1)` resp. a non-zero multiple of it. -/
example :
    let cs := [Gate.H 0, Gate.CNOT 0 1]
    let cs' := toCircuitAG04 2 (runGates cs (zeroState 2))
    ((List.range 4).map fun i => runSV 2 cs (Lab.ofIndex 2 i)) = [1, 0, 0, 1] ∧
    ((List.range 4).map fun i => runSV 2 cs' (Lab.ofIndex 2 i))
      = (List.range 4).map (fun i => runSV 2 cs' (Lab.ofIndex 2 0) * runSV 2 cs (Lab.ofIndex 2 i)) ∧
    runSV 2 cs' (Lab.ofIndex 2 0) ≠ 0 := by decide +kernel

/-- the register labels are the `2^n` index labels. -/
example : InReg 2 (Lab.ofIndex 2 3) := by
  intro q hq
  simp [Lab.ofIndex]
  omega

end QV.Props.C12
