/-
  C18c — kind-validity algebra of qibo's random generators
  (`qibo.quantum_info.random_ensembles`) and of the pure-state shortcuts of
  `purity` / `fidelity` (`qibo.quantum_info.metrics`), for all dimensions.

    * pure states ρ = ψψ†:  tr ρ² = ⟨ψ|ψ⟩²,  tr(ρσ) = ⟨ψ|σ|ψ⟩,  tr(ψψ† φφ†) = |⟨ψ|φ⟩|²
    * `random_density_matrix`:  A A† / tr(A A†) is Hermitian with trace one
    * `random_unitary(measure="haar")`:  Q · diag(phases) stays unitary
    * `random_stochastic_matrix`:  row normalisation gives a stochastic matrix
    * `random_hermitian`:  (A + A†)/2 is Hermitian,  A†A is Hermitian with a
      sum-of-squares quadratic form.
-/
import Mathlib.LinearAlgebra.Matrix.Trace
import Mathlib.LinearAlgebra.Matrix.ConjTranspose
import Mathlib.Data.Matrix.Mul
import Mathlib.Algebra.BigOperators.Ring.Finset
import Mathlib.Algebra.Order.BigOperators.Group.Finset
import Mathlib.Algebra.Order.Field.Basic
import Mathlib.Algebra.Star.BigOperators
import Mathlib.Data.Complex.Basic
import Mathlib.Algebra.Order.Field.Rat
import Mathlib.Tactic.Ring
import Mathlib.Tactic.NormNum
import Mathlib.Tactic.FinCases
set_option linter.unusedSectionVars false
set_option linter.unusedSimpArgs false
namespace QV.Props.C18c
open Matrix

/-! ### pure-state shortcuts -/

section pure
variable {ι : Type} [Fintype ι] [DecidableEq ι] {R : Type} [CommRing R] [StarRing R]

/-- purity of ρ = ψψ† is ⟨ψ|ψ⟩² (so 1 for a normalised state). -/
theorem T18_purity_pure (ψ : ι → R) :
    trace (vecMulVec ψ (star ψ) * vecMulVec ψ (star ψ)) = (∑ i, ψ i * star (ψ i)) ^ 2 := by
  simp only [trace, diag_apply, mul_apply, vecMulVec_apply, Pi.star_apply]
  rw [sq, Finset.sum_mul_sum]
  refine Finset.sum_congr rfl fun i _ => Finset.sum_congr rfl fun j _ => ?_
  ring

/-- the "pure shortcut" of `fidelity`: tr(ψψ† σ) = ⟨ψ|σ|ψ⟩. -/
theorem T18_fidelity_shortcut (ψ : ι → R) (σ : Matrix ι ι R) :
    trace (vecMulVec ψ (star ψ) * σ) = ∑ i, ∑ j, star (ψ i) * σ i j * ψ j := by
  simp only [trace, diag_apply, mul_apply, vecMulVec_apply, Pi.star_apply]
  rw [Finset.sum_comm]
  refine Finset.sum_congr rfl fun i _ => Finset.sum_congr rfl fun j _ => ?_
  ring

/-- both states pure: tr(ψψ† φφ†) = ⟨ψ|φ⟩ · conj⟨ψ|φ⟩ = |⟨ψ|φ⟩|². -/
theorem T18_fidelity_pure_pure (ψ φ : ι → R) :
    trace (vecMulVec ψ (star ψ) * vecMulVec φ (star φ))
      = (∑ i, star (ψ i) * φ i) * star (∑ i, star (ψ i) * φ i) := by
  simp only [trace, diag_apply, mul_apply, vecMulVec_apply, Pi.star_apply, star_sum,
    star_mul', star_star]
  rw [Finset.sum_mul_sum, Finset.sum_comm]
  refine Finset.sum_congr rfl fun i _ => Finset.sum_congr rfl fun j _ => ?_
  ring

end pure

/-! ### `random_density_matrix`:  A A† / tr(A A†) -/

section ginibre
variable {m n : Type} [Fintype m] [Fintype n] [DecidableEq m] [DecidableEq n]
variable {K : Type} [Field K] [StarRing K]

/-- the normalising trace is self-conjugate ("real"), with no hypothesis on `A`. -/
theorem T18_ginibre_trace_real (A : Matrix m n K) : star (trace (A * Aᴴ)) = trace (A * Aᴴ) := by
  rw [← trace_conjTranspose, conjTranspose_mul, conjTranspose_conjTranspose]

/-- `state @ state† / trace(state @ state†)` is Hermitian with unit trace whenever the
    trace is non-zero. -/
theorem T18_density_from_ginibre (A : Matrix m n K) (ht : trace (A * Aᴴ) ≠ 0) :
    ((trace (A * Aᴴ))⁻¹ • (A * Aᴴ))ᴴ = (trace (A * Aᴴ))⁻¹ • (A * Aᴴ)
      ∧ trace ((trace (A * Aᴴ))⁻¹ • (A * Aᴴ)) = 1
      ∧ star (trace (A * Aᴴ)) = trace (A * Aᴴ) := by
  refine ⟨?_, ?_, T18_ginibre_trace_real A⟩
  · rw [conjTranspose_smul, star_inv₀, T18_ginibre_trace_real, conjTranspose_mul,
      conjTranspose_conjTranspose]
  · rw [trace_smul, smul_eq_mul, inv_mul_cancel₀ ht]

end ginibre

/-! ### `random_unitary(measure="haar")`:  Q · diag(phases) -/

section haar
variable {n : Type} [Fintype n] [DecidableEq n] {K : Type} [CommRing K] [StarRing K]

/-- multiplying a unitary by a diagonal matrix of unit-modulus phases keeps it unitary. -/
theorem T18_haar_phase_fix (Q : Matrix n n K) (D : n → K) (hQ : Qᴴ * Q = 1)
    (hD : ∀ i, star (D i) * D i = 1) :
    (Q * diagonal D)ᴴ * (Q * diagonal D) = 1 := by
  rw [conjTranspose_mul, diagonal_conjTranspose, Matrix.mul_assoc,
    ← Matrix.mul_assoc Qᴴ, hQ, Matrix.one_mul, diagonal_mul_diagonal]
  rw [← diagonal_one]
  congr 1
  funext i
  simpa using hD i

/-- … and from the other side. -/
theorem T18_haar_phase_fix_right (Q : Matrix n n K) (D : n → K) (hQ : Q * Qᴴ = 1)
    (hD : ∀ i, D i * star (D i) = 1) :
    (Q * diagonal D) * (Q * diagonal D)ᴴ = 1 := by
  rw [conjTranspose_mul, diagonal_conjTranspose, Matrix.mul_assoc,
    ← Matrix.mul_assoc (diagonal D), diagonal_mul_diagonal]
  have : (fun i => D i * star D i) = fun _ => (1 : K) := by
    funext i; simpa using hD i
  rw [this, diagonal_one, Matrix.one_mul, hQ]

end haar

/-! ### `random_stochastic_matrix`: row normalisation -/

section stochastic
variable {n : Type} [Fintype n] {K : Type} [Field K] [LinearOrder K] [IsStrictOrderedRing K]

/-- dividing each row of an entrywise non-negative matrix by its (positive) row sum gives
    a row-stochastic matrix. -/
theorem T18_row_normalised_stochastic (M : Matrix n n K) (h0 : ∀ i j, 0 ≤ M i j)
    (hs : ∀ i, 0 < ∑ j, M i j) :
    (∀ i j, 0 ≤ M i j / ∑ k, M i k) ∧ (∀ i, ∑ j, M i j / ∑ k, M i k = 1) := by
  refine ⟨fun i j => div_nonneg (h0 i j) (hs i).le, fun i => ?_⟩
  simp only [div_eq_mul_inv]
  rw [← Finset.sum_mul, mul_inv_cancel₀ (hs i).ne']

/-- the normalised entries are also at most one. -/
theorem T18_row_normalised_le_one (M : Matrix n n K) (h0 : ∀ i j, 0 ≤ M i j)
    (hs : ∀ i, 0 < ∑ j, M i j) (i j : n) : M i j / ∑ k, M i k ≤ 1 := by
  rw [div_le_one (hs i)]
  exact Finset.single_le_sum (fun k _ => h0 i k) (Finset.mem_univ j)

end stochastic

/-! ### `random_hermitian` -/

section herm
variable {m n : Type} [Fintype m] [Fintype n] [DecidableEq n]

/-- A + A† is Hermitian; so is (A + A†)/2 (`random_hermitian`), in every star field
    (no hypothesis is needed: `star 2⁻¹ = 2⁻¹` holds automatically). -/
theorem T18_hermitian_part {K : Type} [Field K] [StarRing K] (A : Matrix n n K) :
    (A + Aᴴ)ᴴ = A + Aᴴ ∧ ((2⁻¹ : K) • (A + Aᴴ))ᴴ = (2⁻¹ : K) • (A + Aᴴ) := by
  have h : (A + Aᴴ)ᴴ = A + Aᴴ := by
    rw [conjTranspose_add, conjTranspose_conjTranspose, add_comm]
  refine ⟨h, ?_⟩
  rw [conjTranspose_smul, h, star_inv₀]
  congr 2
  exact star_ofNat 2

/-- … and c • (A + A†) is Hermitian for every self-conjugate scalar over a star ring. -/
theorem T18_hermitian_part_smul {R : Type} [CommRing R] [StarRing R] (A : Matrix n n R)
    (c : R) (hc : star c = c) : (c • (A + Aᴴ))ᴴ = c • (A + Aᴴ) := by
  rw [conjTranspose_smul, hc, conjTranspose_add, conjTranspose_conjTranspose, add_comm]

/-- the `semidefinite=True` option: A†A is Hermitian … -/
theorem T18_gram_psd_form {R : Type} [CommRing R] [StarRing R] (A : Matrix m n R) :
    (Aᴴ * A)ᴴ = Aᴴ * A := by
  rw [conjTranspose_mul, conjTranspose_conjTranspose]

/-- … and its quadratic form is a sum of "squares": x†(A†A)x = (Ax)†(Ax). -/
theorem T18_gram_quadratic_form {R : Type} [CommRing R] [StarRing R] (A : Matrix m n R)
    (x : n → R) : star x ⬝ᵥ ((Aᴴ * A) *ᵥ x) = star (A *ᵥ x) ⬝ᵥ (A *ᵥ x) := by
  rw [star_mulVec, ← mulVec_mulVec, dotProduct_mulVec]

end herm

/-! ### non-vacuity -/

open Complex in
/-- a unitary (the swap) and a genuinely complex unit-modulus phase vector. -/
example : (!![0, 1; 1, 0] : Matrix (Fin 2) (Fin 2) ℂ)ᴴ * !![0, 1; 1, 0] = 1
    ∧ ∀ i, star ((![I, 1] : Fin 2 → ℂ) i) * (![I, 1] : Fin 2 → ℂ) i = 1 := by
  constructor
  · ext i j
    fin_cases i <;> fin_cases j <;> simp [Matrix.mul_apply, Fin.sum_univ_two, conjTranspose_apply]
  · intro i
    fin_cases i <;> simp

open Complex in
example : (!![0, 1; 1, 0] : Matrix (Fin 2) (Fin 2) ℂ) * !![0, 1; 1, 0]ᴴ = 1
    ∧ ∀ i, (![I, 1] : Fin 2 → ℂ) i * star ((![I, 1] : Fin 2 → ℂ) i) = 1 := by
  constructor
  · ext i j
    fin_cases i <;> fin_cases j <;> simp [Matrix.mul_apply, Fin.sum_univ_two, conjTranspose_apply]
  · intro i
    fin_cases i <;> simp

open Complex in
/-- a complex 2×2 "Ginibre" sample with non-zero normalising trace (tr A A† = 3). -/
example : trace ((!![1, I; 0, 1] : Matrix (Fin 2) (Fin 2) ℂ) * !![1, I; 0, 1]ᴴ) ≠ 0 := by
  have : trace ((!![1, I; 0, 1] : Matrix (Fin 2) (Fin 2) ℂ) * !![1, I; 0, 1]ᴴ) = 3 := by
    simp only [trace, diag_apply, Fin.sum_univ_two, mul_apply, conjTranspose_apply]
    simp
    norm_num
  rw [this]; norm_num

/-- a non-negative rational matrix with positive row sums (3 and 4). -/
example : (∀ i j, 0 ≤ (!![1, 2; 0, 4] : Matrix (Fin 2) (Fin 2) ℚ) i j)
    ∧ ∀ i, 0 < ∑ j, (!![1, 2; 0, 4] : Matrix (Fin 2) (Fin 2) ℚ) i j := by
  constructor
  · intro i j; fin_cases i <;> fin_cases j <;> simp
  · intro i; fin_cases i <;> norm_num [Fin.sum_univ_two]

/-- a self-conjugate scalar in ℂ that is not trivially so: the real number 1/2. -/
example : star ((2 : ℂ)⁻¹) = (2 : ℂ)⁻¹ := by
  rw [star_inv₀]; congr 1; exact star_ofNat 2

end QV.Props.C18c
