/-
  C17 (part f) — the conversion WRAPPERS of `superoperator_transformations.py`
  (`to_liouville`, `to_chi`, `to_stinespring` and the 23 composite `a_to_b` functions) compose the
  primitives with consistent `order` / `normalize` / `pauli_order` / environment arguments.

  Model: QV/Model/Dispatch.lean — the call graph as a table of typed pipelines.  The table is
  regenerated from the source (Python `ast`) on every run, compared with `table`, and the
  decidable condition `tableOk` is evaluated on the REGENERATED rows by the driver
  (tools/props/C17_networks.py, suite `dispatch`).  The soundness theorem holds for every table
  satisfying `tableOk`, so a refactoring that re-routes a wrapper through other (consistent)
  functions is still covered, while a dropped / literal / mismatching `order` between two
  composed primitives makes `tableOk` false.
-/
import QV.Proofs.Dispatch
namespace QV.Props.C17
open QV QV.Dispatch

variable {Obj Chan : Type}

/-- a pipeline whose steps are sound functions, whose types chain, through which the data flows
and that hands the caller's own value on for every parameter relevant to a representation it
reads or produces, maps a representation of a channel to a representation of the SAME channel
— for every interpretation `S`, every configuration, every object and channel. -/
theorem T17_dispatch_chain_sound (S : Sem Obj Chan) {Γ : List Typing} (hΓ : ∀ t ∈ Γ, SoundT S t)
    (steps : List Step) (s d : Rep) (h : chainOk Γ s steps d = true) (c : Cfg) (x : Obj) (ch : Chan)
    (hx : S.repr s c x ch) :
    S.repr d c (run S steps c x) ch :=
  chain_sound S hΓ steps s d h c x ch hx

/-- for every table that passes `tableOk` (in particular every regenerated one): if the primitives
are sound and every wrapper computes its pipeline, every wrapper converts without changing the
channel. -/
theorem T17_dispatch_table_sound (S : Sem Obj Chan) (rows : List Row) (Γ : List Typing)
    (hΓ : ∀ t ∈ Γ, SoundT S t) (hok : tableOk Γ rows = true)
    (hdef : ∀ r ∈ rows, ∀ c x, S.fn r.name c x = run S r.steps c x) :
    ∀ r ∈ rows, SoundT S (r.name, r.src, r.dst) :=
  table_sound S rows Γ hΓ hok hdef

/-- the call graph of the current source passes. -/
theorem T17_dispatch_table_ok : tableOk prims table = true := by decide

/-- … hence, for the current source: all 26 wrappers are sound whenever the 10 primitives are. -/
theorem T17_dispatch_wrappers_sound (S : Sem Obj Chan) (hΓ : ∀ t ∈ prims, SoundT S t)
    (hdef : ∀ r ∈ table, ∀ c x, S.fn r.name c x = run S r.steps c x) :
    ∀ r ∈ table, SoundT S (r.name, r.src, r.dst) :=
  table_sound S table prims hΓ T17_dispatch_table_ok hdef

/-! ### the checker rejects the realistic slips (non-vacuity of `tableOk`) -/

/-- `kraus_to_liouville` forgetting to hand `order` to `choi_to_liouville` (so that the second
step runs with the default `"row"`): rejected. -/
theorem T17_dispatch_rejects_dropped_order :
    chainOk (("choi_to_liouville", .choi, .liouville) :: prims) .kraus
      [st "kraus_to_choi" .kraus .choi ordC,
       st "choi_to_liouville" .choi .liouville ⟨.dflt, .dflt, .dflt, .dflt, .dflt, .dflt⟩]
      .liouville = false := by decide

/-- a literal order in one of two composed primitives: rejected. -/
theorem T17_dispatch_rejects_literal_order :
    chainOk prims .op
      [st "to_choi" .op .choi ⟨.lit 1, .dflt, .dflt, .dflt, .dflt, .dflt⟩,
       st "_reshuffling" .choi .liouville ordC] .liouville = false := by decide

/-- `normalize` not handed on into the Pauli basis change: rejected. -/
theorem T17_dispatch_rejects_dropped_normalize :
    chainOk prims .op
      [st "to_choi" .op .choi ordC,
       st "liouville_to_pauli" .choi .chi ⟨.caller, .dflt, .caller, .dflt, .dflt, .dflt⟩] .chi
      = false := by decide

/-- a chain whose types do not meet (Liouville matrix fed to a function reading a Choi matrix):
rejected. -/
theorem T17_dispatch_rejects_type_mismatch :
    chainOk prims .pauli
      [st "pauli_to_liouville" .pauli .liouville pauC, st "choi_to_kraus" .choi .kraus ordC] .kraus
      = false := by decide

/-- the second call not applied to the first call's result: rejected. -/
theorem T17_dispatch_rejects_broken_dataflow :
    chainOk prims .op
      [st "to_choi" .op .choi ordC, ⟨"_reshuffling", .choi, .liouville, false, ordC⟩] .liouville
      = false := by decide

/-- the environment dimension not handed to `stinespring_to_kraus`: rejected. -/
theorem T17_dispatch_rejects_dropped_dim_env :
    chainOk prims .stinespring
      [st "stinespring_to_kraus" .stinespring .kraus envC, st "kraus_to_choi" .kraus .choi ordC]
      .choi = false := by decide

/-! ### non-vacuity of the soundness theorem: a model in which everything is sound -/

/-- the trivial interpretation (one channel, every object represents it) satisfies all
hypotheses: the theorem's assumptions are consistent. -/
example : ∃ S : Sem Unit Unit, (∀ t ∈ prims, SoundT S t)
    ∧ (∀ r ∈ table, ∀ c x, S.fn r.name c x = run S r.steps c x) :=
  ⟨⟨fun _ _ _ _ => True, fun _ _ _ => (), fun _ _ _ _ _ _ _ => trivial⟩,
   fun _ _ _ _ _ _ => trivial, fun _ _ _ _ => rfl⟩

/-- a NON-trivial interpretation showing that `repr_rel` has content: objects are numbers,
"`x` represents channel `ch` in a Choi/Liouville representation under order `o`" means
`x = ch + o`; a conversion between two order-dependent representations that is run with another
order than the caller's breaks the representation — the situation `chainOk` excludes. -/
example :
    let repr : Rep → Cfg → Nat → Nat → Prop := fun r c x ch =>
      match r with
      | .choi | .liouville => x = ch + c.order
      | _ => x = ch
    (∀ (r : Rep) (c c' : Cfg) (x ch : Nat), (∀ p ∈ relevant r, c.get p = c'.get p) →
      repr r c x ch → repr r c' x ch) ∧ ¬ (repr .choi ⟨1, 0, 0, 0, 0, 0⟩ 5 5) := by
  refine ⟨?_, by decide⟩
  intro r c c' x ch h hx
  cases r <;> simp only [relevant, List.mem_cons, List.not_mem_nil, or_false, forall_eq] at h <;>
    first
    | exact hx
    | (have h' : c.order = c'.order := h; simpa [h'] using hx)

end QV.Props.C17
