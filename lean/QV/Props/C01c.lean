/-
  C01 (deepening) — the backend PIPELINE refines the effect model.

  QV/Model/Einsum.lean transliterates `backends/einsum_utils.py` (string and axis-order
  generators) and `NumpyBackend.apply_gate` (reshape / transpose / slice `[-1]` of the merged
  control axes / einsum / concatenate / inverse transpose).  Here: that pipeline, for EVERY
  register size n, every duplicate-free target list in any order, every duplicate-free control
  list (in any order — qibo sorts it) disjoint from the targets, every matrix and state over any
  commutative semiring, computes exactly `applyGate` of QV/Model/Sim.lean on every n-qubit basis
  label (`InRange n x`: bits ≥ n are 0 — the labels `Lab.ofIndex n i` of the arrays), and raises
  exactly when the einsum alphabet (52 letters) is too small.  Plus the structural facts the
  pipeline relies on.  Proofs: QV/Proofs/Einsum.lean, EinsumOrder.lean, EinsumSV.lean.
-/
import QV.Proofs.EinsumSV
import QV.Model.Table
namespace QV.Props.C01
open QV QV.Einsum

variable {α : Type} [CommSemiring α]

/-- `prepare_strings` raises exactly when `nqubits + len(qubits)` exceeds the 52 labels. -/
theorem T01_strings_guard (ts : List Nat) (n : Nat) :
    prepareStrings ts n = none ↔ EINSUM_LEN < n + ts.length := by
  constructor
  · intro h
    by_contra hc
    simp [prepareStrings, hc] at h
  · exact prepareStrings_none

/-- closed form of `prepare_strings` on duplicate-free in-range qubits: state labels `0..n-1`,
fresh labels `n..n+k-1`, `trans = fresh ++ qubits`, `out` = state labels with the i-th qubit
renamed to the i-th fresh label. -/
theorem T01_strings_closed_form {ts : List Nat} {n : Nat} (hts : ts.Nodup)
    (hlt : ∀ t ∈ ts, t < n) (hg : n + ts.length ≤ EINSUM_LEN) :
    prepareStrings ts n = some
      ⟨List.range n, (List.range n).map (rename ts (List.range' n ts.length)),
       List.range' n ts.length ++ ts,
       List.range' (n + ts.length) (EINSUM_LEN - (n + ts.length))⟩ :=
  prepareStrings_eq hts hlt hg

example : prepareStrings [2, 0] 3 = some ⟨[0, 1, 2], [4, 1, 3], [3, 4, 2, 0], List.range' 5 47⟩ := by
  decide

/-- **einsum = gate.**  The einsum call of `apply_gate_string(ts, n)` on a state tensor and the
reshaped matrix is the uncontrolled gate action on the axes `ts` (in the order listed). -/
theorem T01_einsum_is_gate {ts : List Nat} {n : Nat} (hts : ts.Nodup) (hlt : ∀ t ∈ ts, t < n)
    (hg : n + ts.length ≤ EINSUM_LEN) (A : Lab → α) (M : Nat → Nat → α) :
    ∃ s, applyGateString ts n = some s ∧
      ∀ y, InRange n y → einsum s A (matT ts.length M) y = applyGate ⟨M, ts, []⟩ A y :=
  ⟨_, applyGateString_eq hts hlt hg, fun y hy => einsum_plain hts hlt A M y hy⟩

/-- `control_order` on ascending controls below n: the order is the controls followed by the other
qubits ascending — a permutation of `range n` — and the shifted targets are the RANKS of the
targets among the non-controls. -/
theorem T01_control_order {cs ts : List Nat} {n : Nat} (hs : cs.Pairwise (· < ·))
    (hhi : ∀ c ∈ cs, c < n) (hlt : ∀ t ∈ ts, t < n) (hd : ∀ t ∈ ts, t ∉ cs) :
    (controlOrder cs ts n).1 = cs ++ nonCtrl cs n ∧
    ((controlOrder cs ts n).1).Perm (List.range n) ∧
    (controlOrder cs ts n).2 = ts.map (fun t => (nonCtrl cs n).idxOf t) ∧
    ∀ i (h : i < ts.length),
      (nonCtrl cs n)[((controlOrder cs ts n).2)[i]'(by rw [length_controlOrder_targets]; exact h)]?
        = some ts[i] := by
  have hnd : cs.Nodup := hs.imp (fun h => Nat.ne_of_lt h)
  have h3 := controlOrder_targets (ts := ts) hs hhi hlt hd
  refine ⟨by rw [controlOrder_eq hs hhi], by rw [controlOrder_eq hs hhi]; exact order_perm hnd hhi,
    h3, fun i h => ?_⟩
  have hm : ts[i] ∈ nonCtrl cs n := mem_nonCtrl.mpr ⟨hlt _ (List.getElem_mem h), hd _ (List.getElem_mem h)⟩
  simp only [h3, List.getElem_map]
  rw [List.getElem?_eq_getElem (List.idxOf_lt_length_of_mem hm), List.getElem_idxOf]

example : controlOrder [1, 3] [4, 0] 5 = ([1, 3, 0, 2, 4], [2, 0]) := by decide

omit [CommSemiring α] in
/-- `reverse_order` of a permutation of the axes is the inverse permutation, and the final
transpose of the pipeline undoes the first one. -/
theorem T01_reverse_order_inverse {order : List Nat} {n : Nat} (hp : order.Perm (List.range n)) :
    reverseOrder order = (List.range n).map (fun r => order.idxOf r) ∧
    ∀ (T : Lab → α) (x : Lab), InRange n x →
      transposeT (reverseOrder order) (transposeT order T) x = T x := by
  refine ⟨reverseOrder_eq hp, fun T x hx => ?_⟩
  show T (push order (push (reverseOrder order) x)) = T x
  rw [push_reverseOrder hp, push_pull hp hx]

example : reverseOrder [1, 3, 0, 2, 4] = [2, 0, 3, 1, 4] := by decide

/-- **Refinement (state vectors).**  The transliterated `NumpyBackend.apply_gate` — plain branch
and `controlled_by` branch — returns, on every n-qubit basis label, exactly the amplitude that the
effect model `applyGate` states. -/
theorem T01_pipeline_refines (n : Nat) (g : MGate α) (hts : g.targets.Nodup)
    (hlt : ∀ t ∈ g.targets, t < n) (hcn : g.controls.Nodup) (hcl : ∀ c ∈ g.controls, c < n)
    (hd : ∀ c ∈ g.controls, c ∉ g.targets)
    (hg : (n - g.controls.length) + g.targets.length ≤ EINSUM_LEN) (ψ : Lab → α) :
    ∃ f, applyGateSV n g ψ = some f ∧ ∀ x, InRange n x → f x = applyGate g ψ x :=
  applyGateSV_refines n g hts hlt hcn hcl hd hg ψ

/-- non-vacuity: a gate on targets (2,0) with controls given as (3,1) on 5 qubits. -/
example : ∃ (n : Nat) (g : MGate Int), g.targets.Nodup ∧ (∀ t ∈ g.targets, t < n) ∧
    g.controls.Nodup ∧ (∀ c ∈ g.controls, c < n) ∧ (∀ c ∈ g.controls, c ∉ g.targets) ∧
    (n - g.controls.length) + g.targets.length ≤ EINSUM_LEN :=
  ⟨5, ⟨fun i j => i + 2 * j, [2, 0], [3, 1]⟩, by decide, by decide, by decide, by decide,
    by decide, by decide⟩

/-- the same on the arrays the backend returns (`reshape(state, (2**n,))`). -/
theorem T01_pipeline_table (n : Nat) (g : MGate α) (hts : g.targets.Nodup)
    (hlt : ∀ t ∈ g.targets, t < n) (hcn : g.controls.Nodup) (hcl : ∀ c ∈ g.controls, c < n)
    (hd : ∀ c ∈ g.controls, c ∉ g.targets)
    (hg : (n - g.controls.length) + g.targets.length ≤ EINSUM_LEN) (ψ : Lab → α) :
    ∃ f, applyGateSV n g ψ = some f ∧ tableOf n f = tableOf n (applyGate g ψ) := by
  obtain ⟨f, e, r⟩ := applyGateSV_refines n g hts hlt hcn hcl hd hg ψ
  refine ⟨f, e, ?_⟩
  unfold tableOf
  congr 1
  funext i
  exact r _ (inRange_ofIndex n i)

/-- `apply_gate` raises (NotImplementedError) when the labels do not suffice. -/
theorem T01_pipeline_raises (n : Nat) (g : MGate α)
    (hg : EINSUM_LEN < (n - g.controls.length) + g.targets.length) (ψ : Lab → α) :
    applyGateSV n g ψ = none :=
  applyGateSV_raises n g hg ψ

example : EINSUM_LEN < (52 - ([] : List Nat).length) + [0].length := by decide

/-- **Refinement (execution loop).**  Running the pipeline gate after gate equals `runCircuit`
on every n-qubit basis label. -/
theorem T01_pipeline_execute (n : Nat) (gs : List (MGate α)) (hok : ∀ g ∈ gs, GateOK n g)
    (ψ : Lab → α) :
    ∃ f, runSV n gs ψ = some f ∧ ∀ x, InRange n x → f x = runCircuit gs ψ x :=
  runSV_refines n gs hok ψ

example : ∀ g ∈ [(⟨fun i j => i + j, [1], [0]⟩ : MGate Int), ⟨fun i j => i * j, [0, 1], []⟩],
    GateOK 2 g := by
  intro g hg
  simp only [List.mem_cons, List.mem_nil_iff, or_false] at hg
  rcases hg with rfl | rfl <;> exact ⟨by decide, by decide, by decide, by decide, by decide, by decide⟩

end QV.Props.C01
