/-
  C11 — the full transpilation pipeline (padding, placer, router, unroller) is
  meaning-preserving end to end and its output passes the pipeline's own acceptance check.

  Model: QV/Model/Pipeline.lean (tied to `transpiler/pipeline.py`, `optimizer.py`,
  `placer.py`, `asserts.py` by the side-by-side suites and the recorded replay of every
  pass of real `Passes.__call__` runs, tools/props/C11.py).  The searches inside Random /
  Subgraph / ReverseTraversal, the routers and the unroller are oracles whose answers are
  validated (`permOf`, `routeOk`, `unrollOk`) on every real run; the theorems below hold
  for EVERY answer that passes the validation, every device, every circuit, every queue
  length and every gate meaning over any commutative semiring.  The router's semantic
  contract is the conclusion of C09 (`T09_routing_sound`), the unroller's is the
  conclusion of C10 (`T10_circuit_phase`); `T11_contracts_from_C09_C10` instantiates them.
-/
import QV.Proofs.Pipeline
import QV.Props.C09
import QV.Props.C10

set_option linter.unusedSectionVars false
set_option linter.unusedVariables false
set_option linter.unusedSimpArgs false

namespace QV.Props.C11
open QV QV.Pipe QV.Router QV.Props.C05

/-- a circuit that fits the device: one distinct device node per wire. -/
structure Fits (d : Device) (c : Circ) : Prop where
  nodup : c.wires.Nodup
  len   : c.wires.length = c.nqubits
  sub   : ∀ v ∈ c.wires, v ∈ d.nodes
  le    : c.nqubits ≤ d.nodes.length

/-! ### padding (`Preprocessing`) -/

/-- padding never refuses a circuit that fits the device. -/
theorem T11_padding_total (d : Device) (c : Circ) (hd : d.nodes.Nodup) (hc : Fits d c) :
    ∃ c', pad d c = some c' := by
  unfold pad
  have h1 : c.wires.all d.nodes.contains = true := by
    simp only [List.all_eq_true, List.contains_iff_mem]; exact hc.sub
  have h2 : ¬ c.nqubits > d.nodes.length := by have := hc.le; omega
  simp only [h1, Bool.not_true, Bool.false_eq_true, if_false, h2]
  split
  · exact ⟨_, rfl⟩
  · have hl := (filter_not_mem_perm hd hc.nodup hc.sub).length_eq
    simp only [hl, beq_self_eq_true, if_true]
    exact ⟨_, rfl⟩

/-- padding leaves the queue unchanged, keeps the circuit's own wires at their indices and
    appends device nodes that were not wires of the circuit. -/
theorem T11_padding (d : Device) (c c' : Circ) (h : pad d c = some c') :
    c'.queue = c.queue ∧
    (∃ rest, c'.wires = c.wires ++ rest ∧ ∀ v ∈ rest, v ∈ d.nodes ∧ v ∉ c.wires) ∧
    (∀ i, i < c.wires.length → c'.wires[i]? = c.wires[i]?) := by
  rcases pad_cases h with ⟨rfl, _⟩ | ⟨rfl, _, _⟩
  · exact ⟨rfl, ⟨[], by simp, by simp⟩, fun _ _ => rfl⟩
  · refine ⟨rfl, ⟨_, rfl, ?_⟩, fun i hi => ?_⟩
    · intro v hv
      simp only [List.mem_filter, Bool.not_eq_true', List.contains_eq_mem, decide_eq_false_iff_not] at hv
      exact hv
    · simp [List.getElem?_append_left hi]

/-- the padded circuit names every device node exactly once and passes `assert_placement`;
    its size is the device's. -/
theorem T11_padding_placement (d : Device) (c c' : Circ) (hd : d.nodes.Nodup) (hc : Fits d c)
    (h : pad d c = some c') :
    c'.wires.Perm d.nodes ∧ c'.nqubits = d.nodes.length ∧ assertPlacement d c' = true := by
  rcases pad_cases h with ⟨rfl, hn⟩ | ⟨rfl, _, hl⟩
  · have hp : c'.wires.Perm d.nodes :=
      (perm_of_subset_length hc.nodup hc.sub (by rw [hc.len, hn])).symm
    exact ⟨hp, hn, assertPlacement_of_perm hp hc.len⟩
  · have hp := filter_not_mem_perm hd hc.nodup hc.sub
    exact ⟨hp, rfl, assertPlacement_of_perm hp hl⟩

section Sem
variable {α : Type} [CommSemiring α]

/-- padding acts as (circuit) ⊗ (identity on the added wires): gates that only name
    wires below `n` leave any factor `χ` living on the other wires untouched — for every
    state `φ` of the circuit's wires, every `χ`, every queue. -/
theorem T11_padding_identity (n : Nat) (gs : List (MGate α))
    (hg : ∀ g ∈ gs, ∀ q ∈ g.targets, q < n)
    (φ χ : Lab → α) (hχ : ∀ q, q < n → ∀ (y : Lab) (b : Bool), χ (y.set q b) = χ y) :
    runCircuit gs (fun y => φ y * χ y) = fun x => runCircuit gs φ x * χ x :=
  runCircuit_mul_indep gs φ χ (fun g hgm q hq => hχ q (hg g hgm q hq))

end Sem

/-! ### placers -/

/-- `assert_placement` accepts exactly the one-to-one assignments: the wire names are a
    permutation of the device nodes (no node missing, none used twice), one per qubit. -/
theorem T11_placement_bijection (d : Device) (c : Circ) (hd : d.nodes.Nodup) :
    assertPlacement d c = true ↔ (c.wires.Perm d.nodes ∧ c.wires.length = c.nqubits) :=
  ⟨assertPlacement_perm hd, fun h => assertPlacement_of_perm h.1 h.2⟩

/-- a placer pass changes the wire names only — queue and size are untouched — and a
    validated answer is accepted by `assert_placement` and is a bijection onto the nodes. -/
theorem T11_placer (d : Device) (s s' : PState) (w : List Name) (hd : d.nodes.Nodup)
    (h : runPass d s (.placer (some w)) = some s') (hw : permOf d w = true) :
    s'.circ.queue = s.circ.queue ∧ s'.circ.nqubits = s.circ.nqubits ∧ s'.circ.wires = w ∧
    w.Perm d.nodes ∧ w.Nodup ∧ assertPlacement d s'.circ = true := by
  simp only [runPass] at h
  split at h
  · cases h
  · simp only [Option.bind_some] at h
    split at h
    · rename_i hlen
      injection h with h
      subst h
      have hp := permOf_perm hd hw
      refine ⟨rfl, rfl, rfl, hp, hp.nodup_iff.2 hd, assertPlacement_of_perm hp (by simpa using hlen)⟩
    · cases h

/-- `sorted(mapping, key=mapping.get)` lists exactly the keys of the mapping. -/
theorem T11_sorted_keys_perm (m : List (Name × Nat)) : (sortedKeys m).Perm (m.map (·.1)) :=
  sortedKeys_perm m

/-- for a bijection `mapping : node ↦ position` (values a permutation of 0..n-1) the new
    wire names put every node at the position the mapping gives it:
    `wire_names[mapping[k]] = k` (Random, Subgraph). -/
theorem T11_sorted_keys_index (m : List (Name × Nat))
    (hv : (m.map (·.2)).Perm (List.range m.length)) (k : Name) (v : Nat) (hm : (k, v) ∈ m) :
    (sortedKeys m)[v]? = some k :=
  sortedKeys_index m hv k v hm

/-- hand-over of the connectivity to the routers: a pair of wire indices that is an edge
    of the graph relabelled by `{name: index}` (what the routers of C09 respect) is an
    edge of the device between the wires' names (what `assert_connectivity` looks up). -/
theorem T11_edge_handover (d : Device) (w : List Name)
    (hE : ∀ e ∈ d.edges, e.1 ∈ w ∧ e.2 ∈ w) (a b : Nat)
    (h : edgeOk (relabelEdges w d.edges) a b = true) :
    d.hasEdge (wireAt w a) (wireAt w b) = true :=
  edgeOk_relabel hE h

/-- exchanging two positions of the wire names (what `StarConnectivityPlacer` does) is a
    permutation: no name lost, none duplicated. -/
theorem T11_swap_positions (w : List Name) (i j : Nat) (hi : i < w.length) (hj : j < w.length) :
    (swapAt w i j).Perm w ∧ (swapAt w i j).length = w.length :=
  ⟨swapAt_perm w i j hi hj, (swapAt_perm w i j hi hj).length_eq⟩

theorem findConnected_mem (q0 q1 : Nat) (l2p : List Nat) (rest : List RGate) (poss : List Nat) (nm : Nat)
    (h : findConnected q0 q1 l2p poss rest = some nm) : nm = q0 ∨ nm ∈ poss := by
  induction rest generalizing poss with
  | nil => simp [findConnected] at h; exact Or.inl h.symm
  | cons g rest ih =>
    unfold findConnected at h
    split at h
    · exact ih poss h
    · split at h
      · cases h
      · split at h
        · rename_i a b _
          dsimp only at h
          split at h
          · injection h with h; exact Or.inl h.symm
          · rename_i p hp
            injection h with h
            subst h
            right
            have : p ∈ poss.filter (fun p => p == look l2p a || p == look l2p b) := by
              rw [hp]; simp
            exact (List.mem_filter.1 this).1
          · rcases ih _ h with h | h
            · exact Or.inl h
            · exact Or.inr (List.mem_filter.1 h).1
        · exact ih poss h

theorem starPlaceLoop_perm (n midIdx : Nat) (w : List Name) (q : List PGate) (w' : List Name)
    (hm : midIdx < w.length) (hn : n ≤ w.length) (hq : ∀ g ∈ q, ∀ i ∈ g.qs, i < n)
    (h : starPlaceLoop n midIdx w q = some w') : w'.Perm w := by
  induction q with
  | nil => simp [starPlaceLoop] at h; subst h; exact List.Perm.refl _
  | cons g rest ih =>
    have hrest : ∀ g ∈ rest, ∀ i ∈ g.qs, i < n := fun g' hg' => hq g' (List.mem_cons_of_mem _ hg')
    unfold starPlaceLoop at h
    split at h
    · exact ih hrest h
    · split at h
      · cases h
      · split at h
        · rename_i a b hab
          split at h
          · exact ih hrest h
          · split at h
            · cases h
            · rename_i nm hnm
              injection h with h
              subst h
              have ha : a < n := hq g (List.mem_cons_self ..) a (by rw [hab]; simp)
              have hb : b < n := hq g (List.mem_cons_self ..) b (by rw [hab]; simp)
              have : nm < w.length := by
                rcases findConnected_mem _ _ _ _ _ _ hnm with h | h
                · omega
                · simp at h; omega
              exact swapAt_perm w midIdx nm hm this
        · exact ih hrest h

/-- `StarConnectivityPlacer` (modelled exactly): whenever it returns, the new wire names
    are a permutation of the old ones, hence again a bijection onto the device nodes. -/
theorem T11_star_placer (d : Device) (c : Circ) (w : List Name) (hd : d.nodes.Nodup)
    (hq : ∀ g ∈ c.queue, ∀ i ∈ g.qs, i < c.nqubits)
    (h : starPlace d c = some w) :
    w.Perm c.wires ∧ w.Perm d.nodes ∧ assertPlacement d { c with wires := w } = true := by
  unfold starPlace at h
  split at h
  · cases h
  · rename_i hp
    have hp' : assertPlacement d c = true := by simpa using hp
    obtain ⟨hperm, hlen⟩ := assertPlacement_perm hd hp'
    split at h
    · cases h
    · rename_i mid hmid
      have hmem : mid ∈ d.nodes := by
        unfold starMiddle at hmid
        split at hmid
        · cases hmid
        · split at hmid
          · cases hmid
          · have := List.mem_of_getLast? hmid
            exact (List.mem_filter.1 this).1
      have hidx : c.wires.idxOf mid < c.wires.length :=
        List.idxOf_lt_length_iff.2 (hperm.symm.subset hmem)
      have h1 := starPlaceLoop_perm c.nqubits _ c.wires c.queue w hidx (by omega) hq h
      have h2 := h1.trans hperm
      exact ⟨h1, h2, assertPlacement_of_perm h2 (by rw [h1.length_eq]; exact hlen)⟩

/-! ### acceptance of the composed pipeline -/

/-- **Acceptance.**  Placer answer a permutation of the nodes, router answer executable on
    the graph relabelled to wire indices (C09's conclusion), unroller answer native with
    its two-qubit gates on the pairs of the routed circuit's two-qubit gates (C10):
    then the output passes `assert_placement`, `assert_connectivity` (which reads the
    device names through `wire_names`) and `assert_decomposition`, i.e. `is_satisfied`. -/
theorem T11_accept (d : Device) (nat : Unroll.Natives) (w : List Name) (N : Nat)
    (q2 q3 q4 : List PGate) (l2p : List Nat)
    (hd : d.nodes.Nodup) (hE : ∀ e ∈ d.edges, e.1 ∈ d.nodes ∧ e.2 ∈ d.nodes)
    (hN : w.length = N) (hw : permOf d w = true)
    (hr : routeOk d ⟨N, w, q2⟩ q3 l2p = true) (hu : unrollOk nat q3 q4 = true) :
    isSatisfied d nat ⟨N, w, q4⟩ = true := by
  have hp := permOf_perm hd hw
  have hEw : ∀ e ∈ d.edges, e.1 ∈ w ∧ e.2 ∈ w := fun e he =>
    ⟨hp.symm.subset (hE e he).1, hp.symm.subset (hE e he).2⟩
  simp only [routeOk, Bool.and_eq_true, List.all_eq_true] at hr
  obtain ⟨⟨⟨hr1, hr2⟩, hr3⟩, hr4⟩ := hr
  simp only [unrollOk, Bool.and_eq_true, List.all_eq_true, Bool.or_eq_true] at hu
  obtain ⟨⟨hu1, hu2⟩, hu3⟩ := hu
  simp only [isSatisfied, Bool.and_eq_true]
  refine ⟨⟨assertPlacement_of_perm hp hN, ?_⟩, ?_⟩
  · -- connectivity through the wire names
    simp only [assertConnectivity, List.all_eq_true]
    intro g hg
    unfold connOk
    by_cases hm : g.meas = true
    · simp [hm]
    · have hm' : g.meas = false := by simpa using hm
      simp only [hm', Bool.false_or]
      rcases hu1 g hg with h | h
      · exact absurd h hm
      · simp only [Bool.and_eq_true, decide_eq_true_eq] at h
        rcases hu2 g hg with (h2 | h2) | h2
        · exact absurd h2 hm
        · -- not a two-qubit gate: the default branch of the match
          have hne : g.qs.length ≠ 2 := by simpa using h2
          split
          · rename_i a b hab
            rw [hab] at hne; simp at hne
          · simpa using h.1
        · simp only [List.any_eq_true, Bool.and_eq_true, Bool.not_eq_true'] at h2
          obtain ⟨hgate, hmem, hnm, hsp⟩ := h2
          have hok := hr1 hgate hmem
          simp only [gateOk, PGate.toR, hnm, Bool.false_or] at hok
          have h2len := hr2 hgate hmem
          simp only [hnm, Bool.false_or, decide_eq_true_eq] at h2len
          simp only [samePair, Bool.or_eq_true, beq_iff_eq] at hsp
          -- shape of the routed gate's qubits
          match hqs : hgate.qs, hok, h2len, hsp with
          | [a, b], hok, _, hsp =>
            have e := edgeOk_relabel hEw hok
            rcases hsp with hsp | hsp
            · rw [hsp]; exact e
            · rw [hsp]; simp only [List.reverse_cons, List.reverse_nil, List.nil_append, List.cons_append]
              rw [hasEdge_symm]; exact e
          | [], _, _, hsp =>
            rcases hsp with hsp | hsp <;> (rw [hsp]; simp)
          | [a], _, _, hsp =>
            rcases hsp with hsp | hsp <;> (rw [hsp]; simp)
          | _ :: _ :: _ :: _, _, h2len, _ => simp at h2len
  · -- native classes
    simp only [assertDecomposition, Unroll.assertDecomposition, List.all_map, List.all_eq_true,
      Function.comp, PGate.toU, Bool.or_eq_true, Bool.and_eq_true, decide_eq_true_eq]
    intro g hg
    rcases hu1 g hg with h | h
    · left; simpa [PGate.meas] using h
    · right; simp at h; exact ⟨decide_eq_true h.1, h.2⟩

section Compose
variable {α : Type} [CommSemiring α]

/-- **Semantics of the composed pipeline.**  If the router's answer equals the placed
    queue up to the relabelling by its final layout (C09) and the unroller's answer equals
    the routed queue up to a phase (C10), then the pipeline's output equals the ORIGINAL
    queue (padding and placement did not touch it) up to a phase, read through the final
    layout: amplitude of the output at physical label `x` = phase · amplitude of the
    original at the logical label `l ↦ x (l2p l)`. -/
theorem T11_compose (P : Submonoid α) (sem : PGate → MGate α) (d : Device) (c0 : Circ)
    (w : List Name) (q3 q4 : List PGate) (l2p : List Nat) (s : PState)
    (hrun : passesCall d c0 [.pre, .placer (some w), .router (some (q3, l2p)), .unroller (some q4)] = some s)
    (hR : ∀ ψ : Lab → α, runCircuit (q3.map sem) ψ
        = fun y => runCircuit (c0.queue.map sem) ψ (pull (look l2p) y))
    (hU : Unroll.PhaseEq P (q4.map sem) (q3.map sem)) :
    s.circ.queue = q4 ∧ s.circ.wires = w ∧ s.layout = some l2p ∧
    ∃ c ∈ P, ∀ (ψ : Lab → α) (x : Lab),
      runCircuit (s.circ.queue.map sem) ψ x
        = c * runCircuit (c0.queue.map sem) ψ (pull (look l2p) x) := by
  simp only [passesCall, runPasses, runPass] at hrun
  cases hp : pad d c0 with
  | none => simp [hp] at hrun
  | some c1 =>
    simp only [hp, Option.map_some, Option.bind_some] at hrun
    split at hrun
    · simp at hrun
    · try simp only [Option.bind_some] at hrun
      split at hrun
      · try simp only [Option.bind_some] at hrun
        split at hrun
        · simp at hrun
        · simp only [Option.map_some, Option.bind_some, Option.some.injEq] at hrun
          subst hrun
          obtain ⟨c, hc, e⟩ := hU
          refine ⟨rfl, rfl, rfl, c, hc, fun ψ x => ?_⟩
          rw [e ψ x, hR ψ]
      · simp at hrun

/-- the router contract and the unroller contract ARE the conclusions of C09 and C10:
    a guarded action run accepted by the order checker (T09_routing_sound) and a closed,
    entry-wise correct table set (T10_circuit_phase) give the hypotheses of `T11_compose`
    for the gate meaning `den mats ∘ toR`. -/
theorem T11_contracts_from_C09_C10 (P : Submonoid α) (n : Nat) (E : List (Nat × Nat))
    (mats : Nat → Nat → Nat → α) (q2 q3 q4 : List PGate) (fms : List RGate) (as : List Action)
    (T : Unroll.Tables) (nat : Unroll.Natives) (fuel : Nat) (semU : Unroll.UGate → MGate α)
    (hg : guardsOk n E (init n) as = true)
    (hm : ∀ m ∈ fms, m.meas = true)
    (hn : ∀ g ∈ q2, g.qs.Nodup)
    (hp : pickCheck (q2.map PGate.toR) (appendFinal (run (init n) as) fms).executed = true)
    (hq3 : q3.map PGate.toR = (appendFinal (run (init n) as) fms).routed)
    (hT : Unroll.TablesOK P semU T)
    (hu : Unroll.unroll T nat fuel (q3.map PGate.toU) = some (q4.map PGate.toU))
    (hsem : ∀ g : PGate, semU g.toU = den mats g.toR) :
    (∀ g ∈ q3, gateOk E g.toR = true) ∧
    (∀ ψ : Lab → α, runCircuit (q3.map (fun g => den mats g.toR)) ψ
        = fun y => runCircuit (q2.map (fun g => den mats g.toR)) ψ
            (pull (look (finalLayout (appendFinal (run (init n) as) fms))) y)) ∧
    Unroll.PhaseEq P (q4.map (fun g => den mats g.toR)) (q3.map (fun g => den mats g.toR)) := by
  have hn' : ∀ g ∈ q2.map PGate.toR, g.qs.Nodup := by
    intro g hg
    obtain ⟨g', hg', rfl⟩ := List.mem_map.1 hg
    exact hn g' hg'
  obtain ⟨h1, h2, _, _⟩ := C09.T09_routing_sound n E mats (q2.map PGate.toR) fms as hg hm hn' hp
  refine ⟨?_, ?_, ?_⟩
  · intro g hgm
    exact h1 _ (by rw [← hq3]; exact List.mem_map_of_mem hgm)
  · intro ψ
    have := h2 ψ
    rw [← hq3] at this
    simpa [List.map_map, Function.comp_def] using this
  · have := C10.T10_circuit_phase P semU T nat hT fuel _ _ hu
    simpa [List.map_map, Function.comp_def, hsem] using this

end Compose

/-! ### measured registers -/

/-- measured registers go through the pipeline unchanged up to the final layout: if the
    router re-attaches the trailing measurements on `l2p` (C09 (d)) and the unroller keeps
    measurement gates (validated by `unrollOk`), the output's measurement gates are the
    router's, and the trailing ones are the input's registers, in order, with every
    measured logical qubit `q` at physical position `l2p q`. -/
theorem T11_registers (nat : Unroll.Natives) (body fms q4 : List PGate) (l2p : List Nat)
    (hm : ∀ m ∈ fms, m.meas = true)
    (hu : unrollOk nat (body ++ fms.map (PGate.relabel (look l2p))) q4 = true) :
    q4.filter (·.meas) = body.filter (·.meas) ++ fms.map (PGate.relabel (look l2p)) := by
  simp only [unrollOk, Bool.and_eq_true, beq_iff_eq] at hu
  rw [hu.2, List.filter_append]
  congr 1
  apply List.filter_eq_self.2
  intro g hg
  obtain ⟨m, hmm, rfl⟩ := List.mem_map.1 hg
  simpa [PGate.relabel, PGate.meas] using hm m hmm

/-! ### non-vacuity -/

def lineDev : Device := ⟨[10, 11, 12], [(10, 11), (12, 11)]⟩

/-- a 2-qubit circuit on wires 12, 10 of the line 10-11-12: CNOT(0,1), M(1,0). -/
def demoCirc : Circ := ⟨2, [12, 10], [⟨8, 0, [0, 1]⟩, ⟨3, 0, [1, 0]⟩]⟩

example : Fits lineDev demoCirc := ⟨by decide, rfl, by decide, by decide⟩
example : pad lineDev demoCirc = some ⟨3, [12, 10, 11], demoCirc.queue⟩ := by decide
/-- placement [10, 11, 12] makes CNOT(0,1) executable; an (identity) routing, then CNOT →
    H CZ H with GPI2-type one-qubit gates (class 4) and CZ (class 6): accepted. -/
example : permOf lineDev [10, 11, 12] = true := by decide
example : routeOk lineDev ⟨3, [10, 11, 12], demoCirc.queue⟩ demoCirc.queue [0, 1, 2] = true := by decide
example : unrollOk 94 demoCirc.queue [⟨4, 1, [1]⟩, ⟨6, 0, [0, 1]⟩, ⟨4, 1, [1]⟩, ⟨3, 0, [1, 0]⟩] = true := by decide
example : isSatisfied lineDev 94 ⟨3, [10, 11, 12], [⟨4, 1, [1]⟩, ⟨6, 0, [0, 1]⟩, ⟨4, 1, [1]⟩, ⟨3, 0, [1, 0]⟩]⟩ = true := by
  decide
/-- without placement the padded circuit has CNOT on 12-10, not an edge: rejected. -/
example : assertConnectivity lineDev ⟨3, [12, 10, 11], demoCirc.queue⟩ = false := by decide
/-- a two-qubit measurement off the edges is accepted (F14). -/
example : assertConnectivity lineDev ⟨3, [12, 10, 11], [⟨3, 0, [0, 1]⟩]⟩ = true := by decide
/-- duplicated wire name: `assert_placement` refuses. -/
example : assertPlacement lineDev ⟨3, [10, 10, 12], []⟩ = false := by decide
example : sortedKeys [(10, 2), (11, 0), (12, 1)] = [11, 12, 10] := by decide
/-- star placer, centre 12 at index 2: CZ(0,1) moves the centre to wire index 0. -/
example : starPlace ⟨[10, 11, 12, 13, 14], [(12, 10), (12, 11), (13, 12), (12, 14)]⟩
    ⟨5, [10, 11, 12, 13, 14], [⟨6, 0, [0, 1]⟩, ⟨3, 0, [0, 1, 3]⟩]⟩ = some [12, 11, 10, 13, 14] := by decide

example : ([((10 : Name), 2), (11, 0), (12, 1)].map (·.2)).Perm (List.range 3) := by decide
/-- the hypothesis `hrun` of `T11_compose` is satisfiable: the four-pass pipeline runs. -/
example : (passesCall lineDev demoCirc [.pre, .placer (some [10, 11, 12]), .router (some (demoCirc.queue, [0, 1, 2])),
    .unroller (some [⟨4, 1, [1]⟩, ⟨6, 0, [0, 1]⟩, ⟨4, 1, [1]⟩, ⟨3, 0, [1, 0]⟩])]).map (fun s => (s.circ.wires, s.layout))
    = some ([10, 11, 12], some [0, 1, 2]) := by decide
/-- a placer after a router forgets the router's layout, as `Passes.__call__` does. -/
example : (passesCall lineDev ⟨3, [12, 10, 11], []⟩ [.router (some ([], [0, 1, 2])), .placer (some [10, 11, 12])]).map (·.layout)
    = some none := by decide
/-- `T11_registers`: trailing M(1,0) re-attached on l2p = [2,0,1] as M(0,2). -/
example : unrollOk 94 ([⟨8, 0, [0, 1]⟩] ++ [(⟨3, 0, [1, 0]⟩ : PGate)].map (PGate.relabel (look [2, 0, 1])))
    [⟨4, 1, [1]⟩, ⟨6, 0, [0, 1]⟩, ⟨4, 1, [1]⟩, ⟨3, 0, [0, 2]⟩] = true := by decide
/-- the validation rejects a router answer with a two-qubit gate off the edges … -/
example : routeOk lineDev ⟨3, [12, 10, 11], demoCirc.queue⟩ demoCirc.queue [0, 1, 2] = false := by decide
/-- … and an unroller answer that moved a two-qubit gate to another pair. -/
example : unrollOk 94 demoCirc.queue [⟨6, 0, [1, 2]⟩, ⟨3, 0, [1, 0]⟩] = false := by decide

end QV.Props.C11
