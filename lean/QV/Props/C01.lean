/-
  C01 — State-vector execution applies exactly the circuit's unitary.
  Property theorems only (helper lemmas live in QV/Proofs).  Model: QV/Model/Sim.lean.
-/
import QV.Model.Sim
namespace QV.Props.C01
open QV

variable {α : Type} [Zero α] [Add α] [Mul α]

/-- execution is the fold of single-gate applications in queue order. -/
theorem T01_execute_nil (ψ : Lab → α) : runCircuit ([] : List (MGate α)) ψ = ψ := rfl

theorem T01_execute_cons (g : MGate α) (gs : List (MGate α)) (ψ : Lab → α) :
    runCircuit (g :: gs) ψ = runCircuit gs (applyGate g ψ) := rfl

theorem T01_execute_fold (gs : List (MGate α)) (g : MGate α) (ψ : Lab → α) :
    runCircuit (gs ++ [g]) ψ = applyGate g (runCircuit gs ψ) := by
  simp [runCircuit, List.foldl_append]

/-- concatenating circuits composes their actions (used by C05 `+`). -/
theorem T01_execute_append (gs hs : List (MGate α)) (ψ : Lab → α) :
    runCircuit (gs ++ hs) ψ = runCircuit hs (runCircuit gs ψ) := by
  simp [runCircuit, List.foldl_append]

/-- a gate without controls multiplies the amplitudes on its target qubits by its matrix. -/
theorem T01_apply_uncontrolled (g : MGate α) (h : g.controls = []) (ψ : Lab → α) (x : Lab) :
    applyGate g ψ x =
      sumOver g.targets (fun y => g.mat (Lab.idx g.targets x) (Lab.idx g.targets y) * ψ y) x := by
  simp [applyGate, h, Lab.allOne]

/-- "act only where every control is 1": where some control is 0 nothing happens. -/
theorem T01_apply_control_off (g : MGate α) (ψ : Lab → α) (x : Lab)
    (h : ∃ c ∈ g.controls, x c = false) : applyGate g ψ x = ψ x := by
  obtain ⟨c, hc, hx⟩ := h
  have : Lab.allOne g.controls x = false := by
    simp only [Lab.allOne, List.all_eq_false]
    exact ⟨c, hc, by simp [hx]⟩
  simp [applyGate, this]

/-- where every control is 1 the gate acts on its targets as the uncontrolled gate. -/
theorem T01_apply_control_on (g : MGate α) (ψ : Lab → α) (x : Lab)
    (h : ∀ c ∈ g.controls, x c = true) :
    applyGate g ψ x = applyGate { g with controls := [] } ψ x := by
  have h1 : Lab.allOne g.controls x = true := by
    simp only [Lab.allOne, List.all_eq_true]
    exact h
  unfold applyGate
  rw [if_pos h1]
  simp [Lab.allOne]

/-- non-vacuity: a CNOT-like gate on label 10 flips the target. -/
example :
    applyGate (α := Int) { mat := fun i j => if i = 1 - j then 1 else 0, targets := [1], controls := [0] }
      (fun x => if x 0 && x 1 then 7 else 0) (fun q => q == 0) = 7 := by decide

end QV.Props.C01
