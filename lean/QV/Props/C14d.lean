/-
  C14 (continued) — the gate-level measurement result `m = circuit.add(gates.M(...))` describes
  the LAST execution of its circuit, also when executions with a `Circuit` as initial state are
  interleaved with plain ones.  Model: QV/Model/GateBinding.lean (which circuit the gates'
  `MeasurementResult` is bound to, `_final_state` of the circuit and of the temporary sum
  circuits, whose rows are registered, which results have drawn); tied to /repo by the
  `gate-binding` suite of tools/props/C14.py through lean/DriverC14.lean (command G).
-/
import QV.Proofs.GateBinding
namespace QV.Props.C14
open QV.GB

/-- repaired logic (the Circuit-initial-state branch writes `circuit._final_state` and re-binds
the measurement results): after ANY history, right after ANY execution — plain or with a circuit
as initial state — and after any further reads of the gate-level result or of that execution's
own result, `m.samples()` answers the rows of that last execution. -/
theorem T14_gate_result_last_execution (c : Cfg) (hc : c.rebind = true) (hr : c.resets = true)
    (h : List Op) (x : Op)
    (hx : x.isExec = true) (after : List Op)
    (hall : ∀ op ∈ after, op = .readGate ∨ op = .readRes (nexec h)) :
    (step c (stateAfter c {} (h ++ [x] ++ after)) .readGate).2 = .rows (nexec h) := by
  have hg := stateAfter_ginv c hc h {} (by simp [GInv])
  have hfresh := exec_fresh c hc hr (stateAfter c {} h) x hx hg.1
  have hlen : (stateAfter c {} h).drawn.length = nexec h := by simpa using hg.2
  rw [hlen] at hfresh
  rw [stateAfter_append, stateAfter_append]
  exact (read_fresh c _ _ (reads_fresh c (nexec h) after _ hfresh hall)).1

example : (step { rebind := true } (stateAfter { rebind := true } {}
    ([.plain, .readGate, .prep] ++ [.plain] ++ [.readGate, .readRes 2])) .readGate).2 = .rows 2 := by decide

/-- the logic BEFORE the repair (clean tree at the time of writing; finding
`gate-result:circuit-initial-state`): after an execution with a circuit as initial state the gates
stay bound to the temporary sum circuit — a later plain execution followed by `m.samples()`
answers the rows of the EARLIER execution, or `None` when that one has already drawn. -/
theorem T14_gate_result_unrepaired_stale :
    run { rebind := false } [.prep, .plain, .readGate] = [.created 0, .created 1, .rows 0] ∧
    run { rebind := false } [.plain, .prep, .readGate, .plain, .readGate]
      = [.created 0, .created 1, .rows 1, .created 2, .nothing] := by decide

/-- the seeded variant (Circuit.add keeps the first binding): after `r1 = c(); r2 = c(prep)` the
gate-level result answers r1's rows; with no earlier execution it raises. -/
theorem T14_gate_result_first_binding_stale :
    run { rebind := false, addRepoints := false } [.plain, .prep, .readGate]
      = [.created 0, .created 1, .rows 0] ∧
    run { rebind := false, addRepoints := false } [.prep, .readGate] = [.created 0, .raises] := by
  decide

/-- an execution path that does NOT reset the gates' shared results (seeded variant: the reset
moved into `M.apply` but not into `M.apply_density_matrix`): once an earlier result has drawn its
samples, the gate-level result keeps answering that earlier execution after a re-execution. -/
theorem T14_gate_result_no_reset_stale :
    run { rebind := true, resets := false } [.plain, .readRes 0, .plain, .readGate]
      = [.created 0, .rows 0, .created 1, .rows 0] := by decide

end QV.Props.C14
