/-
  C08e — the multi-controlled-X decomposition and `Circuit.decompose(*free)` as OPERATORS on the
  whole register, borrowed qubits in arbitrary states.

    * `T08_mcx_gates_wellformed` : every gate the model of `X.decompose` returns has its target off
                                   its controls (and the congruent Toffolis two distinct controls)
    * `T08_cgate_operator`       : X / CNOT / TOFFOLI / congruent-Toffoli block as simulator gates
                                   map `|x⟩ ↦ (-1)^{sign x} |apply x⟩`
    * `T08_mcx_operator`         : for ALL numbers of controls, all admissible free lists, both
                                   `use_toffolis` values: the returned list acts on EVERY state of
                                   every register exactly like the multi-controlled X gate — free
                                   qubits in superposition / entangled included, phase exactly 1
    * `T08_mcx_free_untouched`   : … hence any amplitude function is returned with the free
                                   qubits' bits where they were
    * `T08_circuit_free`         : `Circuit.decompose(*free)` of a queue mixing multi-controlled X
                                   gates (decomposed with the SAME free list), instances of the
                                   table classes and gates that are returned unchanged: the call
                                   succeeds and the decomposed circuit equals the circuit up to
                                   ONE unit-modulus scalar on every state; generated instance
                                   `C08_decompose_circuit_free` (no class hypothesis)
    * `T08_queue_passthrough`    : entries that are passed through (measurements, channels) stay
                                   where they are between the decomposed segments
    * `T08_clean_ladder_*`       : witness (seeded change C08-7): the cheaper "clean ancilla"
                                   ladder is right when the work qubit is 0 and wrong when it is 1;
                                   as an operator it is not the multi-controlled X.
-/
import QV.Proofs.XDecomposeOp
import QV.Props.C08b
import QV.Props.C08c
set_option linter.unusedSectionVars false
set_option linter.unusedSimpArgs false
set_option linter.unusedVariables false
namespace QV.Props.C08
open QV

/-! ### the MCX decomposition as an operator -/

/-- every gate returned by the model of `X.decompose` is well formed. -/
theorem T08_mcx_gates_wellformed (ut : Bool) (fuel : Nat) (cs : List Nat) (t : Nat) (fs : List Nat)
    (gs : List CGate) (hn : (cs ++ t :: fs).Nodup) (h : xDecompose ut fuel cs t fs = .ok gs) :
    ∀ g ∈ gs, g.WF :=
  xDecompose_wf ut fuel cs t fs gs hn h

section Ring
variable {α : Type} [CommRing α]

/-- a well-formed model gate, read as simulator gates (`CGate.toMs`: controlled X matrices; the
    congruent Toffoli as `X X CCZ X X TOFFOLI`, the right side of the kernel obligations
    `C08_congruent_*`), maps the basis state `|x⟩` to `(-1)^{sign x} |apply x⟩`: for every state
    `ψ`, `(G ψ)(apply x) = (-1)^{sign x} ψ x`. -/
theorem T08_cgate_operator (g : CGate) (hg : g.WF) (ψ : Lab → α) (x : Lab) :
    runCircuit (g.toMs : List (MGate α)) ψ (g.apply x) = sgn (g.sign x) * ψ x :=
  CGate.implements g hg ψ x

/-- … and a list of them implements `runS` (signed basis states), every list length. -/
theorem T08_cgates_operator (gs : List CGate) (hwf : ∀ g ∈ gs, g.WF) (ψ : Lab → α) (x : Lab) :
    runCircuit (toMsList gs : List (MGate α)) ψ (runS gs (false, x)).2
      = sgn (runS gs (false, x)).1 * ψ x := by
  have := runCircuit_toMs (α := α) gs hwf false ψ x
  have one : (sgn false : α) = 1 := by simp [sgn]
  rwa [one, one_mul] at this

/-- **multi-controlled X as an operator**: for all numbers of controls, all free lists (controls,
    target, free qubits pairwise distinct), both `use_toffolis` values, over every commutative
    ring of amplitudes: the returned list acts on every state `ψ` at every label `y` exactly like
    the multi-controlled X gate — whatever the state of the borrowed qubits, with phase 1. -/
theorem T08_mcx_operator (ut : Bool) (fuel : Nat) (cs : List Nat) (t : Nat) (fs : List Nat)
    (gs : List CGate) (hn : (cs ++ t :: fs).Nodup) (h : xDecompose ut fuel cs t fs = .ok gs)
    (ψ : Lab → α) (y : Lab) :
    runCircuit (toMsList gs) ψ y = applyGate (xOn cs t) ψ y :=
  xDecompose_operator ut fuel cs t fs gs hn h ψ y

/-- the borrowed qubits are returned in the state they were in: the output amplitude at `y` is
    the input amplitude at the label that differs from `y` at most at the target. -/
theorem T08_mcx_free_untouched (ut : Bool) (fuel : Nat) (cs : List Nat) (t : Nat) (fs : List Nat)
    (gs : List CGate) (hn : (cs ++ t :: fs).Nodup) (h : xDecompose ut fuel cs t fs = .ok gs)
    (ψ : Lab → α) (y : Lab) :
    ∃ y' : Lab, runCircuit (toMsList gs) ψ y = ψ y' ∧ ∀ q, q ≠ t → y' q = y q := by
  refine ⟨mcxSpec cs t y, ?_, fun q hq => Lab.cset_other _ _ _ _ hq⟩
  rw [T08_mcx_operator ut fuel cs t fs gs hn h, applyGate_mcx]

end Ring

/-- non-vacuity (splitting branch, congruent Toffolis): hypotheses satisfiable. -/
example : ([1, 2, 3, 4] ++ 0 :: [5]).Nodup ∧ ∃ gs, xDecompose false 5 [1, 2, 3, 4] 0 [5] = .ok gs :=
  ⟨by decide, T08_mcx_total false [1, 2, 3, 4] 0 [5] (by decide) (Or.inr (by simp))⟩

/-! ### `Circuit.decompose(*free)` -/

open QV.Props.C05 (Inst)

/-- a queue entry of a circuit, as `Circuit.decompose` sees it. -/
inductive QEntry where
  /-- `X(t).controlled_by(*cs)` (the gate object's sorted `control_qubits`). -/
  | mcx (cs : List Nat) (t : Nat)
  /-- an instance of a class with a table decomposition, without `controlled_by` controls. -/
  | inst (i : Inst)
  /-- a gate that `decompose` returns unchanged: classes without a decomposition and every
      `controlled_by` gate of a class other than X (see QV/Props/C08f.lean). -/
  | keep (g : MGate ℂ)

/-- the operator of an entry. -/
noncomputable def QEntry.ref : QEntry → MGate ℂ
  | .mcx cs t => xOn cs t
  | .inst i => refInst i
  | .keep g => g

/-- `gate.decompose(*free, use_toffolis)` of an entry; `none` = the call raises. -/
noncomputable def QEntry.dec (ut : Bool) (free : List Nat) : QEntry → Option (List (MGate ℂ))
  | .mcx cs t =>
    match xDecompose ut (cs.length + 1) cs t free with
    | .ok gs => some (toMsList gs)
    | _ => none
  | .inst i => some (decInst i)
  | .keep g => some [g]

/-- `Circuit.decompose(*free)`: every gate is decomposed with the same `free`; an exception in
    one gate aborts the call. -/
noncomputable def decomposeQueue (ut : Bool) (free : List Nat) : List QEntry → Option (List (MGate ℂ))
  | [] => some []
  | e :: es =>
    match e.dec ut free, decomposeQueue ut free es with
    | some d, some ds => some (d ++ ds)
    | _, _ => none

/-- the free list is admissible for an entry. -/
def QEntry.Admissible (classes : List Ob) (free : List Nat) : QEntry → Prop
  | .mcx cs t => (cs ++ t :: free).Nodup ∧ (cs.length < 3 ∨ free ≠ [])
  | .inst i => i.o ∈ classes ∧ (∀ q, i.σ (i.τ q) = q) ∧ (∀ q, i.τ (i.σ q) = q)
  | .keep _ => True

/-- **`Circuit.decompose(*free)` on the whole register.**  For every queue mixing
    multi-controlled X gates, instances of table classes whose obligation holds, and gates that are
    returned unchanged; for every free list that is admissible for each multi-controlled X (its
    controls, target and the free qubits pairwise distinct; at least one free qubit from three
    controls on) — the free qubits may be used by other gates of the circuit —; for both
    `use_toffolis` values: the call succeeds and the decomposed circuit equals the circuit up to
    one unit-modulus scalar on every state of every register, i.e. as an operator, free qubits in
    arbitrary states. -/
theorem T08_circuit_free (classes : List Ob) (hcl : ∀ o ∈ classes, o.SingleStmt)
    (ut : Bool) (free : List Nat) (queue : List QEntry)
    (hq : ∀ e ∈ queue, e.Admissible classes free) :
    ∃ out, decomposeQueue ut free queue = some out ∧
      ∃ c : ℂ, ‖c‖ = 1 ∧ ∀ (ψ : Lab → ℂ) (x : Lab),
        runCircuit out ψ x = c * runCircuit (queue.map QEntry.ref) ψ x := by
  induction queue with
  | nil => exact ⟨[], rfl, 1, by simp, fun ψ x => by simp [runCircuit]⟩
  | cons e es ih =>
    obtain ⟨ds, hds, c2, hc2, e2⟩ := ih (fun e' he' => hq e' (List.mem_cons_of_mem _ he'))
    have hadm := hq e List.mem_cons_self
    -- the entry itself
    have hentry : ∃ d, e.dec ut free = some d ∧ ∃ c1 : ℂ, ‖c1‖ = 1 ∧
        ∀ (ψ : Lab → ℂ) (x : Lab), runCircuit d ψ x = c1 * applyGate e.ref ψ x := by
      cases e with
      | mcx cs t =>
        obtain ⟨hn, hfree⟩ := hadm
        obtain ⟨gs, hgs⟩ := T08_mcx_total ut cs t free hn hfree
        refine ⟨toMsList gs, by simp [QEntry.dec, hgs], 1, by simp, fun ψ x => ?_⟩
        rw [one_mul]
        exact T08_mcx_operator ut _ cs t free gs hn hgs ψ x
      | inst i =>
        obtain ⟨hm, h1, h2⟩ := hadm
        obtain ⟨c1, hc1, _, e1⟩ := T08_placement_of_obligation i.o (hcl i.o hm) i.θ i.σ i.τ h1 h2
        exact ⟨decInst i, rfl, c1, hc1, e1⟩
      | keep g =>
        exact ⟨[g], rfl, 1, by simp, fun ψ x => by rw [one_mul]; rfl⟩
    obtain ⟨d, hd, c1, hc1, e1⟩ := hentry
    refine ⟨d ++ ds, by simp [decomposeQueue, hd, hds], c1 * c2,
      by rw [norm_mul, hc1, hc2, mul_one], fun ψ x => ?_⟩
    have hfun : runCircuit d ψ = fun y => c1 * applyGate e.ref ψ y := funext (e1 ψ)
    rw [runCircuit_append, hfun, runCircuit_smul, List.map_cons, runCircuit_cons]
    show c1 * runCircuit ds (applyGate e.ref ψ) x = _
    rw [e2, mul_assoc]

/-- from the kernel checks (no class hypothesis left). -/
theorem T08_circuit_free_of_obligations (ut : Bool) (free : List Nat) (queue : List QEntry)
    (hq : ∀ e ∈ queue, match e with
      | .mcx cs t => (cs ++ t :: free).Nodup ∧ (cs.length < 3 ∨ free ≠ [])
      | .inst i => i.o.singleShape = true ∧ i.o.check = true ∧
          (∀ q, i.σ (i.τ q) = q) ∧ (∀ q, i.τ (i.σ q) = q)
      | .keep _ => True) :
    ∃ out, decomposeQueue ut free queue = some out ∧
      ∃ c : ℂ, ‖c‖ = 1 ∧ ∀ (ψ : Lab → ℂ) (x : Lab),
        runCircuit out ψ x = c * runCircuit (queue.map QEntry.ref) ψ x := by
  let classes : List Ob := queue.filterMap fun e => match e with | .inst i => some i.o | _ => none
  refine T08_circuit_free (classes.filter fun o => o.singleShape && o.check) ?_ ut free queue ?_
  · intro o ho
    simp only [List.mem_filter, Bool.and_eq_true] at ho
    exact Ob.singleStmt_of_check o ho.2.1 ho.2.2
  · intro e he
    have := hq e he
    cases e with
    | mcx cs t => exact this
    | inst i =>
      obtain ⟨h1, h2, h3, h4⟩ := this
      refine ⟨?_, h3, h4⟩
      simp only [List.mem_filter, Bool.and_eq_true]
      refine ⟨?_, h1, h2⟩
      simp only [classes, List.mem_filterMap]
      exact ⟨.inst i, he, rfl⟩
    | keep g => trivial

/-- non-vacuity: a queue with a 4-controlled X (split branch), `Z` on qubit 4 and an unchanged gate,
    free list `[5]`. -/
example (g : MGate ℂ) :
    let sw (p : Nat) : Nat → Nat := fun q => if q = 0 then p else if q = p then 0 else q
    let queue : List QEntry := [.inst ⟨demoZ, fun _ => 0, sw 4, sw 4⟩, .mcx [1, 2, 3, 4] 0, .keep g]
    ∃ out, decomposeQueue false [5] queue = some out ∧
      ∃ c : ℂ, ‖c‖ = 1 ∧ ∀ (ψ : Lab → ℂ) (x : Lab),
        runCircuit out ψ x = c * runCircuit (queue.map QEntry.ref) ψ x := by
  intro sw queue
  have hsw : ∀ p q, sw p (sw p q) = q := by
    intro p q
    simp only [sw]
    by_cases h0 : q = 0
    · subst h0; by_cases hp : p = 0 <;> simp [hp]
    · by_cases hp : q = p
      · subst hp; simp [h0]
      · simp [h0, hp]
  refine T08_circuit_free_of_obligations false [5] queue (fun e he => ?_)
  simp only [queue, List.mem_cons, List.not_mem_nil, or_false] at he
  rcases he with rfl | rfl | rfl
  · exact ⟨demoZ_shape, demoZ_check, hsw _, hsw _⟩
  · exact ⟨by decide, Or.inr (by simp)⟩
  · trivial

/-- an exception in one gate aborts the whole call (here: a free qubit that is a control). -/
example (g : MGate ℂ) : decomposeQueue true [3] [.keep g, .mcx [1, 2, 3] 0] = none := by
  have : xDecompose true 4 [1, 2, 3] 0 [3] = .valueError := by decide
  simp [decomposeQueue, QEntry.dec, this]

/-! ### entries that are passed through (measurements, channels) -/

/-- `Circuit.decompose` on a queue with pass-through entries: `dec` for gates, the entry itself
    otherwise.  A pass-through entry stays between the decomposed segments: the circuit-level
    statement applies to each maximal run of gates separately. -/
theorem T08_queue_passthrough {γ : Type} (dec : γ → List γ) (isPass : γ → Bool)
    (hpass : ∀ g, isPass g = true → dec g = [g]) (q1 q2 : List γ) (p : γ) (hp : isPass p = true) :
    decomposeCircuit dec (q1 ++ p :: q2) = decomposeCircuit dec q1 ++ p :: decomposeCircuit dec q2 := by
  have : q1 ++ p :: q2 = q1 ++ ([p] ++ q2) := by simp
  rw [this, T08_circuit_decompose_append, T08_circuit_decompose_append]
  simp [T08_circuit_decompose_flatMap, hpass p hp]

/-- the pass-through entries of the decomposed queue are those of the queue, in order, when no
    gate's decomposition produces one. -/
theorem T08_queue_passthrough_filter {γ : Type} (dec : γ → List γ) (isPass : γ → Bool)
    (hpass : ∀ g, isPass g = true → dec g = [g])
    (hgate : ∀ g, isPass g = false → ∀ h ∈ dec g, isPass h = false) (queue : List γ) :
    (decomposeCircuit dec queue).filter isPass = queue.filter isPass := by
  rw [T08_circuit_decompose_flatMap]
  induction queue with
  | nil => rfl
  | cons g gs ih =>
    rw [List.flatMap_cons, List.filter_append, ih]
    cases hg : isPass g
    · have : (dec g).filter isPass = [] := by
        rw [List.filter_eq_nil_iff]
        intro h hh
        simp [hgate g hg h hh]
      simp [this, hg]
    · simp [hpass g hg, hg]

/-! ### witness: the "clean ancilla" ladder (seeded change C08-7) -/

/-- the cheaper ladder `[G₂, ladder↑, Toffoli on the target, ladder↓, G₂]` that computes the
    partial products of the controls on the work qubits and uncomputes them. -/
def cleanLadder (ut : Bool) (cs : List Nat) (t : Nat) (fs : List Nat) : List CGate :=
  let m := cs.length
  let gates1 := (List.range (m - 3)).map fun i =>
    congruent ut (cs.getD (m - 2 - i) 0) (fs.getD (m - 4 - i) 0) (fs.getD (m - 3 - i) 0)
  let gates2 := congruent ut (cs.getD 0 0) (cs.getD 1 0) (fs.getD 0 0)
  let first := tof (cs.getD (m - 1) 0) (fs.getD (m - 3) 0) t
  [gates2] ++ gates1.reverse ++ [first] ++ gates1 ++ [gates2]

/-- labels of a 5-qubit register for the witnesses below. -/
def lab5 (i : Nat) : Lab := Lab.ofIndex 5 i

/-- with the work qubit 4 in state 0 the clean ladder computes the 3-controlled X on all 16
    assignments of the other qubits … -/
theorem T08_clean_ladder_on_zero :
    (List.range 16).all (fun i =>
      (List.range 5).all fun q =>
        runC (cleanLadder true [1, 2, 3] 0 [4]) (lab5 (2 * i)) q == mcxSpec [1, 2, 3] 0 (lab5 (2 * i)) q)
      = true := by decide

/-- … but with the work qubit in state 1 it flips the target although control 1 and 2 are 0
    (label `|0 0 0 1 1⟩`), and the borrowed-qubit ladder of the real code does not. -/
theorem T08_clean_ladder_on_one :
    runC (cleanLadder true [1, 2, 3] 0 [4]) (lab5 3) 0 = true ∧
    mcxSpec [1, 2, 3] 0 (lab5 3) 0 = false ∧
    runC (ladderHalf true [1, 2, 3] 0 [4] ++ ladderHalf true [1, 2, 3] 0 [4]) (lab5 3) 0 = false := by
  decide

/-- **as an operator the clean ladder is not the multi-controlled X**: a state (amplitude 1 on
    the labels whose target bit is 1) and a label on which the two differ. -/
theorem T08_clean_ladder_not_operator :
    ∃ (ψ : Lab → ℤ) (y : Lab),
      runCircuit (toMsList (cleanLadder true [1, 2, 3] 0 [4])) ψ y ≠ applyGate (xOn [1, 2, 3] 0) ψ y := by
  refine ⟨fun b => if b 0 then 1 else 0, (runS (cleanLadder true [1, 2, 3] 0 [4]) (false, lab5 3)).2, ?_⟩
  have hwf : ∀ g ∈ cleanLadder true [1, 2, 3] 0 [4], g.WF := by
    intro g hg
    have : cleanLadder true [1, 2, 3] 0 [4] = [.toffoli 1 2 4, .toffoli 3 4 0, .toffoli 1 2 4] := by decide
    rw [this] at hg
    simp only [List.mem_cons, List.not_mem_nil, or_false] at hg
    rcases hg with rfl | rfl | rfl <;> exact ⟨by decide, by decide⟩
  rw [T08_cgates_operator _ hwf, applyGate_mcx]
  have h1 : (runS (cleanLadder true [1, 2, 3] 0 [4]) (false, lab5 3)).1 = false := by decide
  have h2 : (lab5 3) 0 = false := by decide
  have h3 : mcxSpec [1, 2, 3] 0 (runS (cleanLadder true [1, 2, 3] 0 [4]) (false, lab5 3)).2 0 = true := by
    decide
  rw [h1]
  simp only [h2, h3, sgn]
  decide

end QV.Props.C08
