/-
  C12 (part e) — tableau → circuit: `Clifford.to_circuit("AG04")` reproduces the tableau, hence
  the state, for every register size and every tableau satisfying the Aaronson–Gottesman
  invariant (`Valid`, proved for every executed circuit in C12.lean).

  Model: QV/Model/CliffordSynth.lean, a transliteration of `_decomposition_AG04`,
  `_set_qubit_x_to_true`, `_set_row_x_to_zero`, `_set_row_z_to_zero`,
  `_single_qubit_clifford_decomposition` and `Circuit.invert` over the tableau model of the other
  C12 theorems; on every run its gate list is compared with the real `to_circuit("AG04")`
  (names, qubits, order).

  * `T12_synth_emit_conjugates`, `T12_synth_tableau_is_conjugated` : (i) every elimination step
    applies to the working tableau exactly the update of the gate it appends; the working tableau
    is the original one conjugated by the gates recorded so far.
  * `T12_synth_pivot`, `T12_synth_row_x`, `T12_synth_row_z`, `T12_synth_stage`,
    `T12_synth_eliminated` : (ii) the three helpers do what their docstrings say and one pass of
    the main loop extends "rows `j`, `n+j` are `X_j`, `Z_j` for `j < i`" from `i` to `i + 1`.
  * `T12_synth_signs`, `T12_synth_identity_tableau` : the phase loop clears every sign; after both
    loops the working tableau is the identity tableau.
  * `T12_to_circuit_reproduces_tableau`, `T12_to_circuit_reproduces_state`,
    `T12_to_circuit_round_trip`, `T12_to_circuit_tabstate` : (iii) executing the returned
    circuit from `|0…0⟩` gives back every row of the tableau, signs included; its state vector is
    fixed by every stabiliser row of the tableau.
-/
import QV.Props.C12d
import QV.Proofs.CliffordSynth
namespace QV.Props.C12
open QV QV.Cliff

/-! ### (i) tableau and recorded circuit move together -/

/-- one `engine.G(...); circuit.add(G)` keeps "working tableau = original tableau conjugated by
the recorded gates". -/
theorem T12_synth_emit_conjugates (n : Nat) (T0 : Tableau) (s : Synth) (g : Gate) (hg : g.ok n)
    (ha : g.isAG = true) (h : Good n T0 s) : Good n T0 (emit g s) := h.emit hg ha

/-- after both loops of `_decomposition_AG04`: the working tableau is the original tableau
conjugated by the recorded gates, all on valid qubits and from the alphabet H S CNOT SWAP Z X. -/
theorem T12_synth_tableau_is_conjugated (n : Nat) (T : Tableau) (hv : Valid n T) :
    (ag04Forward n T).1 = runGates (ag04Forward n T).2 T ∧
    (∀ g ∈ (ag04Forward n T).2, g.ok n) ∧ (∀ g ∈ (ag04Forward n T).2, g.isAG = true) :=
  let G := (ag04Forward_spec T hv).1
  ⟨G.run, G.oks, G.ag⟩

/-! ### (ii) the elimination -/

/-- `_set_qubit_x_to_true`: afterwards destabiliser `i` has an X on qubit `i`. -/
theorem T12_synth_pivot (n i : Nat) (T0 : Tableau) (s : Synth) (h : Ctx n i T0 s) (hi : i < n) :
    Ctx n i T0 (setQubitXToTrue n i s) ∧ (getRow (setQubitXToTrue n i s).1 i).x i = true :=
  setQubitXToTrue_spec h hi

/-- `_set_row_x_to_zero`: afterwards destabiliser `i` is `± X_i`. -/
theorem T12_synth_row_x (n i : Nat) (T0 : Tableau) (s : Synth) (h : Ctx n i T0 s) (hi : i < n)
    (hx : (getRow s.1 i).x i = true) :
    Ctx n i T0 (setRowXToZero n i s) ∧ IsX n i (getRow (setRowXToZero n i s).1 i) :=
  setRowXToZero_spec h hi hx

/-- `_set_row_z_to_zero`: afterwards stabiliser `i` is `± Z_i` and destabiliser `i` still `± X_i`. -/
theorem T12_synth_row_z (n i : Nat) (T0 : Tableau) (s : Synth) (h : Ctx n i T0 s) (hi : i < n)
    (hX : IsX n i (getRow s.1 i)) :
    Ctx n i T0 (setRowZToZero n i s) ∧ IsX n i (getRow (setRowZToZero n i s).1 i) ∧
      IsZ n i (getRow (setRowZToZero n i s).1 (n + i)) :=
  setRowZToZero_spec h hi hX

/-- one pass of the main loop: rows `j`, `n + j` finished for `j < i` ⟹ finished for `j < i + 1`
(and the conjugation invariant kept). -/
theorem T12_synth_stage (n i : Nat) (T0 : Tableau) (s : Synth) (h : Ctx n i T0 s) (hi : i < n) :
    Ctx n (i + 1) T0 (ag04Step n i s) := ag04Step_spec h hi

/-- after the main loop every destabiliser is `± X_j` and every stabiliser `± Z_j`. -/
theorem T12_synth_eliminated (n : Nat) (T : Tableau) (hv : Valid n T) :
    Done n n (ag04Eliminate n (T, [])).1 := (ag04Eliminate_spec T hv).done

/-- the phase loop clears every sign (and keeps the rows). -/
theorem T12_synth_signs (n : Nat) (T0 : Tableau) (s : Synth) (h : Ctx n n T0 s) :
    Ctx n n T0 (fixSigns n s) ∧
      ∀ j, j < n → (getRow (fixSigns n s).1 j).r = false ∧ (getRow (fixSigns n s).1 (n + j)).r = false :=
  fixSigns_spec h

/-- after both loops the working tableau is the identity tableau (= `zero_state`). -/
theorem T12_synth_identity_tableau (n : Nat) (T : Tableau) (hv : Valid n T) :
    TabEq n (ag04Forward n T).1 (zeroState n) := (ag04Forward_spec T hv).2

/-! ### (iii) the returned circuit reproduces the tableau and the state -/

/-- **`to_circuit("AG04")` reproduces the tableau**: for every register size (the special case
`nqubits == 1` included) and every valid tableau, the returned circuit names valid qubits and,
executed on the zero state, gives back all `2n` rows on the register, signs included. -/
theorem T12_to_circuit_reproduces_tableau (n : Nat) (T : Tableau) (hv : Valid n T) :
    (∀ g ∈ toCircuitAG04 n T, g.ok n) ∧
      TabEq n (runGates (toCircuitAG04 n T) (zeroState n)) T := toCircuit_spec n T hv

/-- **… hence the state**: the state vector the state-vector simulator produces for the returned
circuit is fixed by every stabiliser row of the original tableau. -/
theorem T12_to_circuit_reproduces_state (n : Nat) (T : Tableau) (hv : Valid n T) (i : Nat)
    (hi : i < n) :
    pauliOp n (getRow T (n + i)) (runSV n (toCircuitAG04 n T)) = runSV n (toCircuitAG04 n T) := by
  obtain ⟨hok, hE⟩ := toCircuit_spec n T hv
  rw [← pauliOp_congr n (hE (n + i) (by omega))]
  exact T12_stabilizer_state n _ hok i hi

/-- round trip from a circuit: the tableau of `cs` and the tableau of `to_circuit` of it coincide;
the state vectors of both circuits are non-zero and fixed by the same stabiliser rows. -/
theorem T12_to_circuit_round_trip (n : Nat) (cs : List Gate) (hcs : ∀ g ∈ cs, g.ok n) :
    let T := runGates cs (zeroState n)
    let cs' := toCircuitAG04 n T
    (∀ g ∈ cs', g.ok n) ∧ TabEq n (runGates cs' (zeroState n)) T ∧
    (∃ x, runSV n cs x ≠ 0) ∧ (∃ x, runSV n cs' x ≠ 0) ∧
    ∀ i, i < n → pauliOp n (getRow T (n + i)) (runSV n cs) = runSV n cs ∧
      pauliOp n (getRow T (n + i)) (runSV n cs') = runSV n cs' := by
  intro T cs'
  have hv : Valid n T := T12_valid_circuit n cs hcs _ (T12_valid_zero_state n)
  obtain ⟨hok, hE⟩ := toCircuit_spec n T hv
  exact ⟨hok, hE, runSV_nonzero n cs hcs, runSV_nonzero n cs' hok,
    fun i hi => ⟨T12_stabilizer_state n cs hcs i hi, T12_to_circuit_reproduces_state n T hv i hi⟩⟩

/-- the original tableau describes the state of the returned circuit in the sense of C12d
(`TabState`), provided its rows are non-degenerate — so every measurement theorem of C12c/C12d
applies to (original tableau, state of the synthesised circuit). -/
theorem T12_to_circuit_tabstate (n : Nat) (T : Tableau) (hv : Valid n T) (hnd : NonDeg n T) :
    TabState n T (runSV n (toCircuitAG04 n T)) :=
  ⟨hv, hnd, fun i hi => T12_to_circuit_reproduces_state n T hv i hi,
   runSV_nonzero n _ (toCircuit_spec n T hv).1⟩

/-! ### non-vacuity / instances -/

/-- the hypotheses `Valid n T` are satisfiable: every executed circuit (`T12_valid_circuit`);
instance: the Bell tableau; the returned circuit acts on these qubits, in this order … -/
example :
    (toCircuitAG04 2 (runGates [Gate.H 0, Gate.CNOT 0 1] (zeroState 2))).map Gate.qubits
      = [[0], [0, 1], [0], [0]] := by decide

/-- … and reproduces the stabilisers `XX`, `ZZ` with sign `+`. -/
example :
    let T := runGates [Gate.H 0, Gate.CNOT 0 1] (zeroState 2)
    let T' := runGates (toCircuitAG04 2 T) (zeroState 2)
    ((getRow T' 2).x 0, (getRow T' 2).x 1, (getRow T' 2).z 0, (getRow T' 2).z 1, (getRow T' 2).r)
        = (true, true, false, false, false) ∧
    ((getRow T' 3).x 0, (getRow T' 3).x 1, (getRow T' 3).z 0, (getRow T' 3).z 1, (getRow T' 3).r)
        = (false, false, true, true, false) := by decide

/-- a context of stage 0 exists for every valid tableau (hypothesis of `T12_synth_pivot`, …). -/
example (n : Nat) (T : Tableau) (hv : Valid n T) : Ctx n 0 T (T, []) :=
  ⟨⟨rfl, (fun _ h => by cases h), (fun _ h => by cases h)⟩, hv, fun j hj => by omega⟩

/-- the statement has teeth: a `_set_row_x_to_zero` that reads the stabiliser row in its first
loop and forgets the Z part breaks the round trip on the tableau of `H(0) · S(0) · CNOT(0,1)`. -/
example :
    let T := runGates [Gate.H 0, Gate.S 0, Gate.CNOT 0 1] (zeroState 2)
    let bad : Synth → Synth := (fun s =>
      forRange (fun k s => emitIf ((getRow s.1 (2 + 0)).x k) (.CNOT 0 k) s) 1 1 s)
    let gs := invertCircuit (fixSigns 2 (setRowZToZero 2 1 (setRowXToZero 2 1 (setQubitXToTrue 2 1
      (setRowZToZero 2 0 (bad (setQubitXToTrue 2 0 (T, [])))))))).2
    let T' := runGates gs (zeroState 2)
    ((getRow T' 3).x 0, (getRow T' 3).x 1, (getRow T' 3).z 0, (getRow T' 3).z 1)
      ≠ ((getRow T 3).x 0, (getRow T 3).x 1, (getRow T 3).z 0, (getRow T 3).z 1) := by decide

end QV.Props.C12
