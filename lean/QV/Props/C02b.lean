/-
  C02 (deepening) — the density-matrix PIPELINE refines the effect model.

  QV/Model/Einsum.lean transliterates `NumpyBackend.apply_gate_density_matrix`: reshape to
  `2n` binary axes, (plain branch) right einsum with `conj(matrix)` then left einsum with
  `matrix`; (`controlled_by` branch) transpose by `control_order_density_matrix`, reshape to
  `(2^nc, 2^nc, 2,…,2)`, the blocks `[:N-1, N-1]` (right factor, batch einsum), `[N-1, :N-1]`
  (left factor, batch einsum), `[N-1, N-1]` (both) and the untouched `[:N-1, :N-1]`, the three
  concatenations, the inverse transpose.  Here: for EVERY n, every duplicate-free target list in
  any order, every duplicate-free control list disjoint from the targets (any order), every
  matrix and (not necessarily Hermitian) ρ over any commutative semiring and every map `conj`,
  the pipeline computes exactly `applyGateDM conj g ρ = G ρ G†` of QV/Model/Sim.lean on all
  n-qubit row/column labels — the conjugate sits on the right factor, no block is swapped.
  Proofs: QV/Proofs/EinsumDM.lean (plain), EinsumDMC.lean (4-block update).
-/
import QV.Proofs.EinsumDMC
import QV.Model.Table
namespace QV.Props.C02
open QV QV.Einsum

variable {α : Type} [CommSemiring α]

/-- closed form of `apply_gate_density_matrix_string`: `left = "inp·trest, trans -> out·trest"`,
`right = "trest·inp, trans -> trest·out"` with `trest` the `n` labels after the fresh ones. -/
theorem T02_dm_strings {ts : List Nat} {n : Nat} (hts : ts.Nodup) (hlt : ∀ t ∈ ts, t < n)
    (hg : 2 * n + ts.length ≤ EINSUM_LEN) :
    applyGateDMString ts n = some
      (⟨List.range n ++ List.range' (n + ts.length) n, List.range' n ts.length ++ ts,
        (List.range n).map (rename ts (List.range' n ts.length)) ++ List.range' (n + ts.length) n⟩,
       ⟨List.range' (n + ts.length) n ++ List.range n, List.range' n ts.length ++ ts,
        List.range' (n + ts.length) n ++ (List.range n).map (rename ts (List.range' n ts.length))⟩) :=
  applyGateDMString_eq hts hlt hg

example : applyGateDMString [1] 2
    = some (⟨[0, 1, 3, 4], [2, 1], [0, 2, 3, 4]⟩, ⟨[3, 4, 0, 1], [2, 1], [3, 4, 0, 2]⟩) := by decide

/-- the two einsums (right with the conjugate, then left) on a tensor with `2n` axes are
`G · ρ · G†` of the density matrix it reshapes to. -/
theorem T02_left_right_einsum (conj : α → α) {ts : List Nat} {n : Nat} (hts : ts.Nodup)
    (hlt : ∀ t ∈ ts, t < n) (hg : 2 * n + ts.length ≤ EINSUM_LEN) (M : Nat → Nat → α)
    (T : Lab → α) :
    ∃ lr, applyGateDMString ts n = some lr ∧
      ∀ x y, tToDM n (leftRight conj lr ts.length M T) x y
        = applyGateDM conj ⟨M, ts, []⟩ (tToDM n T) x y :=
  leftRight_eq conj hts hlt hg M T

/-- the transposition of the controlled branch puts row controls, column controls, other row
axes, other column axes in this order, and is a permutation of the `2n` axes. -/
theorem T02_control_order_dm {cs ts : List Nat} {n : Nat} (hs : cs.Pairwise (· < ·))
    (hhi : ∀ c ∈ cs, c < n) :
    (controlOrderDM cs ts n).1
        = cs ++ cs.map (· + n) ++ nonCtrl cs n ++ (nonCtrl cs n).map (· + n) ∧
    ((controlOrderDM cs ts n).1).Perm (List.range (2 * n)) := by
  have hnd : cs.Nodup := hs.imp (fun h => Nat.ne_of_lt h)
  have hop := order_perm hnd hhi
  have hlen : cs.length + (nonCtrl cs n).length = n := by
    have := perm_len hop; simpa using this
  rw [controlOrderDM_eq hs hhi hlen]
  exact ⟨rfl, orderDM_perm hop⟩

example : controlOrderDM [1] [2] 3 = ([1, 4, 0, 2, 3, 5], [1]) := by decide

/-- **Refinement (density matrices, plain branch).** -/
theorem T02_pipeline_plain (conj : α → α) (n : Nat) (g : MGate α) (hc0 : g.controls = [])
    (hts : g.targets.Nodup) (hlt : ∀ t ∈ g.targets, t < n)
    (hg : 2 * n + g.targets.length ≤ EINSUM_LEN) (ρ : DM α) :
    ∃ f, applyGateDMT conj n g ρ = some f ∧
      ∀ x y, InRange n x → InRange n y → f x y = applyGateDM conj g ρ x y :=
  applyGateDMT_plain conj n g hc0 hts hlt hg ρ

/-- **Refinement (density matrices, `controlled_by` branch: the 4-block update).** -/
theorem T02_pipeline_controlled (conj : α → α) (n : Nat) (g : MGate α) (hne : g.controls ≠ [])
    (hts : g.targets.Nodup) (hlt : ∀ t ∈ g.targets, t < n) (hcn : g.controls.Nodup)
    (hcl : ∀ c ∈ g.controls, c < n) (hd : ∀ c ∈ g.controls, c ∉ g.targets)
    (hg : 2 * (n - g.controls.length) + g.targets.length + 1 ≤ EINSUM_LEN) (ρ : DM α) :
    ∃ f, applyGateDMT conj n g ρ = some f ∧
      ∀ x y, InRange n x → InRange n y → f x y = applyGateDM conj g ρ x y :=
  applyGateDMT_controlled conj n g hne hts hlt hcn hcl hd hg ρ

/-- **Refinement (density matrices), both branches.** -/
theorem T02_pipeline_refines (conj : α → α) (n : Nat) (g : MGate α) (hok : DMGateOK n g)
    (ρ : DM α) :
    ∃ f, applyGateDMT conj n g ρ = some f ∧
      ∀ x y, InRange n x → InRange n y → f x y = applyGateDM conj g ρ x y :=
  applyGateDMT_refines conj n g hok ρ

/-- non-vacuity: targets (2,0), controls given as (3,1), 5 qubits; and a plain 2-qubit gate. -/
example : DMGateOK 5 (⟨fun i j => i + 2 * j, [2, 0], [3, 1]⟩ : MGate Int) :=
  ⟨by decide, by decide, by decide, by decide, by decide, by decide⟩
example : DMGateOK 2 (⟨fun i j => i * j, [1, 0], []⟩ : MGate Int) :=
  ⟨by decide, by decide, by decide, by decide, by decide, by decide⟩

/-- the same on the arrays the backend returns (`reshape(state, 2*(2**n,))`). -/
theorem T02_pipeline_table (conj : α → α) (n : Nat) (g : MGate α) (hok : DMGateOK n g)
    (ρ : DM α) :
    ∃ f, applyGateDMT conj n g ρ = some f ∧ tableOf2 n f = tableOf2 n (applyGateDM conj g ρ) := by
  obtain ⟨f, e, r⟩ := applyGateDMT_refines conj n g hok ρ
  refine ⟨f, e, ?_⟩
  unfold tableOf2
  congr 1
  funext i
  exact r _ _ (inRange_ofIndex n _) (inRange_ofIndex n _)

/-- the call raises when the 52 einsum labels do not suffice (`2·nactive` state labels, the fresh
target labels and, with controls, the batch label). -/
theorem T02_pipeline_raises (conj : α → α) (n : Nat) (g : MGate α) (hts : g.targets.Nodup)
    (hlt : ∀ t ∈ g.targets, t < n) (hcn : g.controls.Nodup) (hcl : ∀ c ∈ g.controls, c < n)
    (hd : ∀ c ∈ g.controls, c ∉ g.targets)
    (hg : EINSUM_LEN < 2 * (n - g.controls.length) + g.targets.length
      + (if g.controls.isEmpty then 0 else 1)) (ρ : DM α) :
    applyGateDMT conj n g ρ = none :=
  applyGateDMT_raises conj n g hts hlt hcn hcl hd hg ρ

example : EINSUM_LEN < 2 * (26 - ([] : List Nat).length) + [0].length
    + (if ([] : List Nat).isEmpty then 0 else 1) := by decide

/-- **Refinement (density-matrix execution loop).** -/
theorem T02_pipeline_execute (conj : α → α) (n : Nat) (gs : List (MGate α))
    (hok : ∀ g ∈ gs, DMGateOK n g) (ρ : DM α) :
    ∃ f, runDMT conj n gs ρ = some f ∧
      ∀ x y, InRange n x → InRange n y → f x y = runCircuitDM conj gs ρ x y :=
  runDMT_refines conj n gs hok ρ

example : ∀ g ∈ [(⟨fun i j => i + j, [1], [0]⟩ : MGate Int), ⟨fun i j => i * j, [0, 1], []⟩],
    DMGateOK 2 g := by
  intro g hg
  simp only [List.mem_cons, List.mem_nil_iff, or_false] at hg
  rcases hg with rfl | rfl <;> exact ⟨by decide, by decide, by decide, by decide, by decide, by decide⟩

end QV.Props.C02
