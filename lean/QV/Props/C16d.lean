/-
  C16 — time evolution reaches exp(-iHt).   Part 4: GLOBAL statements (many steps).
  Proofs: QV/Proofs/EvolutionGlobal.lean (telescoping, unitarity, Trotter),
  QV/Proofs/EvolutionRK.lean (Runge–Kutta, normalisation), QV/Proofs/EvolutionTimed.lean
  (solvers with a clock: time-dependent Hamiltonians).

  Setting.  The local theorems of part 3 hold in every Banach algebra with `‖1‖ ≤ 1`.  The global
  ones need in addition that the exact propagator is a contraction, which is a statement about the
  SPECTRAL norm: they are proved in an arbitrary C⋆-algebra and instantiated for complex matrices
  of any size with Mathlib's `Matrix.Norms.L2Operator` norm (the operator norm of the action on
  `EuclideanSpace ℂ n`), and for bounded operators on a Hilbert space when states are involved.
  (In the ∞-operator norm of part 3 a unitary can have norm `√dim`, so there only the version with
  a growth factor holds: `T16_telescope_pow_growth`.)

  * telescoping: `T16_telescope_pow`, `…_growth`, `…_perturb`, `T16_telescope_prod`;
  * unitarity of `exp(-i a h)` and of the whole symmetric Trotter queue for Hermitian terms:
    `T16_propagator_unitary`, `T16_trotter_step_unitary`;
  * Trotter, `k` steps: `T16_trotter_global` (`≤ k · 2 r₃(|dt| L)`), `T16_trotter_global_of_le`,
    `T16_trotter_global_order` (`≤ (L³ e^{dt L}/3) · T · dt²`), `…_const`, `T16_trotter_global_commuting`
    (`= 0`), `T16_trotter_evolution_error` (states, through `execute`);
  * Runge–Kutta, constant `H`: `T16_exp_remainder`, `T16_rk4_step_operator`, `T16_rk45_step_operator`,
    `T16_rk4_global`, `T16_rk45_global`, `T16_rk4_global_growth`, `T16_rk4_global_order`,
    `T16_rk45_global_order`; normalisation as `StateEvolution` applies it:
    `T16_rk_normalisation_callbacks`, `T16_rk4_evolution_error`, `T16_rk45_evolution_error`,
    `T16_rk_no_zero_division`; on plain vectors with `Matrix.mulVec`:
    `T16_trotter_evolution_error_matrix`, `T16_rk4_steps_error_matrix`, `T16_rk45_steps_error_matrix`;
  * time-dependent `H`: `T16_timed_execute`, `T16_timed_execute_normalising`, `T16_timed_reads`,
    `T16_timed_exp_evolution`, `T16_timed_trotter_evolution`, `T16_timed_trotter_vs_frozen`,
    `T16_timed_constant`.  What is reached is the ordered product of the frozen-step operators;
    its convergence to the time-ordered exponential is NOT attempted here.
-/
import QV.Proofs.EvolutionGlobal
import QV.Proofs.EvolutionRK
import QV.Proofs.EvolutionTimed
namespace QV.Props.C16
open QV QV.Evo NormedSpace

/-! ### telescoping (Lady Windermere's fan) in a normed ring -/

section telescope
variable {𝔸 : Type*} [NormedRing 𝔸]

/-- **`k` steps of two contractions differ by at most `k` local errors.** -/
theorem T16_telescope_pow (h1 : ‖(1 : 𝔸)‖ ≤ 1) (S E : 𝔸) (hS : ‖S‖ ≤ 1) (hE : ‖E‖ ≤ 1) (k : ℕ) :
    ‖S ^ k - E ^ k‖ ≤ k * ‖S - E‖ :=
  norm_pow_sub_pow_le h1 hS hE k

/-- non-vacuity (real numbers): two different contractions. -/
example : ∃ S E : ℝ, ‖(1 : ℝ)‖ ≤ 1 ∧ ‖S‖ ≤ 1 ∧ ‖E‖ ≤ 1 ∧ S ≠ E :=
  ⟨1 / 2, 1, by simp, by norm_num [Real.norm_eq_abs, abs_le], by simp, by norm_num⟩

/-- **with a growth factor**: `‖S‖ ≤ a`, `1 ≤ a`, `‖E‖ ≤ 1` give `‖S^k - E^k‖ ≤ k a^{k-1} ‖S - E‖`. -/
theorem T16_telescope_pow_growth (h1 : ‖(1 : 𝔸)‖ ≤ 1) (S E : 𝔸) (a : ℝ) (ha : 1 ≤ a)
    (hS : ‖S‖ ≤ a) (hE : ‖E‖ ≤ 1) (k : ℕ) : ‖S ^ k - E ^ k‖ ≤ k * a ^ (k - 1) * ‖S - E‖ :=
  norm_pow_sub_pow_le_growth h1 ha hS hE k

example : ∃ (S E a : ℝ), 1 ≤ a ∧ ‖S‖ ≤ a ∧ ‖E‖ ≤ 1 ∧ 1 < ‖S‖ :=
  ⟨2, 1, 2, by norm_num, by norm_num, by simp, by norm_num⟩

/-- **around a contraction**: `‖E‖ ≤ 1` and `‖S - E‖ ≤ e` give `‖S^k - E^k‖ ≤ (1 + e)^k - 1`
(`≤ k e e^{k e}`): no information on `‖S‖` is needed. -/
theorem T16_telescope_pow_perturb (h1 : ‖(1 : 𝔸)‖ ≤ 1) (S E : 𝔸) (e : ℝ) (hE : ‖E‖ ≤ 1)
    (hd : ‖S - E‖ ≤ e) (k : ℕ) : ‖S ^ k - E ^ k‖ ≤ (1 + e) ^ k - 1 :=
  norm_pow_sub_pow_le_perturb h1 hE hd k

example : ∃ (S E e : ℝ), ‖E‖ ≤ 1 ∧ ‖S - E‖ ≤ e ∧ 1 < ‖S‖ :=
  ⟨3 / 2, 1, 1 / 2, by simp, by norm_num [Real.norm_eq_abs, abs_le], by
    norm_num [Real.norm_eq_abs]⟩

/-- `(1 + e)^k - 1 ≤ k e · e^{k e}`. -/
theorem T16_perturb_le_exp (e : ℝ) (he : 0 ≤ e) (k : ℕ) :
    (1 + e) ^ k - 1 ≤ k * e * Real.exp (k * e) :=
  one_add_pow_sub_one_le he k

/-- **products of different steps** (time-dependent Hamiltonians): for a list of pairs
(approximate step, exact step) of contractions the ordered products differ by at most the SUM of
the local errors. -/
theorem T16_telescope_prod (h1 : ‖(1 : 𝔸)‖ ≤ 1) (l : List (𝔸 × 𝔸))
    (hl : ∀ p ∈ l, ‖p.1‖ ≤ 1 ∧ ‖p.2‖ ≤ 1) :
    ‖(l.map Prod.fst).prod - (l.map Prod.snd).prod‖ ≤ (l.map fun p => ‖p.1 - p.2‖).sum :=
  norm_prod_sub_prod_le h1 l hl

example : ∃ l : List (ℝ × ℝ), (∀ p ∈ l, ‖p.1‖ ≤ 1 ∧ ‖p.2‖ ≤ 1) ∧ l.length = 2 :=
  ⟨[(1 / 2, 1), (1, 1 / 3)], by
    intro p hp
    simp only [List.mem_cons, List.not_mem_nil, or_false] at hp
    rcases hp with rfl | rfl <;> norm_num [Real.norm_eq_abs, abs_le], rfl⟩

end telescope

/-! ### unitarity and the global Trotter bound in a C⋆-algebra -/

section cstar
variable {𝔸 : Type*} [NormedRing 𝔸] [StarRing 𝔸] [CStarRing 𝔸] [NormedAlgebra ℂ 𝔸]
  [StarModule ℂ 𝔸] [CompleteSpace 𝔸]

/-- `exp(-i a h)` is unitary for self-adjoint `h` and real `a`; in particular `‖exp(-i a h)‖ ≤ 1`. -/
theorem T16_propagator_unitary (a : ℝ) (h : 𝔸) (hh : IsSelfAdjoint h) :
    propagator (a : ℂ) h ∈ unitary 𝔸 ∧ ‖propagator (a : ℂ) h‖ ≤ 1 :=
  ⟨propagator_mem_unitary a hh, norm_propagator_le_one a hh⟩

/-- **the symmetric Trotter step operator is unitary** under the hypothesis under which each
group exponential is (self-adjoint groups, real step), for every list of groups. -/
theorem T16_trotter_step_unitary (a : ℝ) (hs : List 𝔸) (hh : ∀ h ∈ hs, IsSelfAdjoint h) :
    trotterProd (a : ℂ) hs ∈ unitary 𝔸 ∧ ‖trotterProd (a : ℂ) hs‖ ≤ 1 :=
  ⟨trotterProd_mem_unitary a hs hh, norm_trotterProd_le_one a hs hh⟩

/-- **global Trotter bound in any C⋆-algebra**: `‖S(dt)^k - exp(-i k dt H)‖ ≤ k · 2 r₃(|dt| Σ‖h_j‖)`. -/
theorem T16_trotter_global_cstar (hs : List 𝔸) (hh : ∀ h ∈ hs, IsSelfAdjoint h) (dt : ℝ) (k : ℕ) :
    ‖trotterProd ((dt : ℂ) / 2) hs ^ k - propagator ((k : ℂ) * (dt : ℂ)) hs.sum‖
      ≤ k * (2 * rem3 (|dt| * (hs.map fun h => ‖h‖).sum)) :=
  trotter_global hs hh dt k

end cstar

section matrix
variable {n : Type} [Fintype n] [DecidableEq n]
open scoped Matrix.Norms.L2Operator

/-- non-vacuity for all theorems of this section: two Hermitian 2×2 matrices that do not commute. -/
example : ∃ hs : List (Matrix (Fin 2) (Fin 2) ℂ),
    (∀ h ∈ hs, h.IsHermitian) ∧ ∃ x ∈ hs, ∃ y ∈ hs, x * y ≠ y * x := by
  refine ⟨[!![0, 1; 1, 0], !![1, 0; 0, -1]], ?_, _, List.mem_cons_self ..,
    _, List.mem_cons_of_mem _ (List.mem_cons_self ..), ?_⟩
  · intro h hh
    simp only [List.mem_cons, List.not_mem_nil, or_false] at hh
    rcases hh with rfl | rfl <;>
      (ext i j; fin_cases i <;> fin_cases j <;> simp [Matrix.conjTranspose_apply])
  · intro h
    have := congrFun (congrFun h 0) 1
    simp [Matrix.mul_apply, Fin.sum_univ_two] at this
    have h2 : (2 : ℂ) = 0 := by linear_combination -this
    norm_num at h2

/-- **the Trotter step circuit of Hermitian groups is a unitary matrix** (real step). -/
theorem T16_trotter_step_unitary_matrix (a : ℝ) (hs : List (Matrix n n ℂ))
    (hh : ∀ h ∈ hs, h.IsHermitian) :
    mtrotter (a : ℂ) hs ∈ Matrix.unitaryGroup n ℂ ∧ ‖mtrotter (a : ℂ) hs‖ ≤ 1 := by
  rw [mtrotter_eq_l2]
  exact ⟨trotterProd_mem_unitary a hs (fun h hm => hh h hm),
    norm_trotterProd_le_one a hs (fun h hm => hh h hm)⟩

/-- **Global Trotter bound, complex matrices of any size, spectral norm, every `k`, `dt`, list of
Hermitian groups**: `‖S(dt)^k - exp(-i k dt H)‖₂ ≤ k · 2 r₃(|dt| L)`, `L = Σ‖h_j‖₂`. -/
theorem T16_trotter_global (hs : List (Matrix n n ℂ)) (hh : ∀ h ∈ hs, h.IsHermitian) (dt : ℝ)
    (k : ℕ) :
    ‖mtrotter ((dt : ℂ) / 2) hs ^ k - mprop ((k : ℂ) * (dt : ℂ)) hs.sum‖
      ≤ k * (2 * rem3 (|dt| * (hs.map fun h => ‖h‖).sum)) := by
  rw [mtrotter_eq_l2, mprop_eq_l2]
  exact trotter_global hs (fun h hm => hh h hm) dt k

/-- … with any `L ≥ Σ‖h_j‖₂` (e.g. `Σ|c_m|` over the Pauli monomials: Pauli strings are unitary,
so `‖c P‖₂ = |c|`).  The harness evaluates THIS inequality on the real
`h.circuit(dt).unitary() ** k` on every run (`C16_search_global_trotter`). -/
theorem T16_trotter_global_of_le (hs : List (Matrix n n ℂ)) (hh : ∀ h ∈ hs, h.IsHermitian)
    (dt : ℝ) (k : ℕ) (L : ℝ) (hL : (hs.map fun h => ‖h‖).sum ≤ L) :
    ‖mtrotter ((dt : ℂ) / 2) hs ^ k - mprop ((k : ℂ) * (dt : ℂ)) hs.sum‖
      ≤ k * (2 * rem3 (|dt| * L)) := by
  have h0 := sum_norm_nonneg hs
  have m := rem3_mono (mul_nonneg (abs_nonneg dt) h0)
    (mul_le_mul_of_nonneg_left hL (abs_nonneg dt))
  have hk : (0 : ℝ) ≤ k := Nat.cast_nonneg k
  refine (T16_trotter_global hs hh dt k).trans (mul_le_mul_of_nonneg_left ?_ hk)
  linarith

/-- **Second-order global convergence, explicit constant**: with `T = k dt`, `dt ≥ 0`,
`‖S(dt)^k - exp(-i T H)‖₂ ≤ C(dt) · T · dt²`, `C(dt) = L³ e^{dt L} / 3`. -/
theorem T16_trotter_global_order (hs : List (Matrix n n ℂ)) (hh : ∀ h ∈ hs, h.IsHermitian)
    (dt : ℝ) (hdt : 0 ≤ dt) (k : ℕ) :
    ‖mtrotter ((dt : ℂ) / 2) hs ^ k - mprop ((k : ℂ) * (dt : ℂ)) hs.sum‖
      ≤ ((hs.map fun h => ‖h‖).sum ^ 3 * Real.exp (dt * (hs.map fun h => ‖h‖).sum) / 3)
        * (k * dt) * dt ^ 2 := by
  rw [mtrotter_eq_l2, mprop_eq_l2]
  exact trotter_global_order hs (fun h hm => hh h hm) dt hdt k

/-- … and for `dt ≤ 1` with the constant `C = L³ e^L / 3` independent of `dt`: error `≤ C · T · dt²`. -/
theorem T16_trotter_global_order_const (hs : List (Matrix n n ℂ))
    (hh : ∀ h ∈ hs, h.IsHermitian) (dt : ℝ) (hdt : 0 ≤ dt) (hdt1 : dt ≤ 1) (k : ℕ) :
    ‖mtrotter ((dt : ℂ) / 2) hs ^ k - mprop ((k : ℂ) * (dt : ℂ)) hs.sum‖
      ≤ ((hs.map fun h => ‖h‖).sum ^ 3 * Real.exp ((hs.map fun h => ‖h‖).sum) / 3)
        * (k * dt) * dt ^ 2 := by
  rw [mtrotter_eq_l2, mprop_eq_l2]
  exact trotter_global_order_const hs (fun h hm => hh h hm) dt hdt hdt1 k

/-- **Commuting terms: the global error is `0`**, as the corollary of the same telescoping chain
with local error `0` (`T16_trotter_commuting`); no Hermiticity needed, complex `dt` allowed. -/
theorem T16_trotter_global_commuting (hs : List (Matrix n n ℂ)) (hc : hs.Pairwise Commute)
    (dt : ℂ) (k : ℕ) :
    ‖mtrotter (dt / 2) hs ^ k - mprop ((k : ℂ) * dt) hs.sum‖ = 0 := by
  rw [mtrotter_eq_l2, mprop_eq_l2]
  exact trotter_global_commuting l2_norm_one_le hs hc dt k

/-- **RK4, `k` steps, constant Hermitian `H`, spectral norm**:
`‖P₄(-i dt H)^k - exp(-i k dt H)‖₂ ≤ (1 + r₅(|dt| ‖H‖))^k - 1`, `r₅(x) = eˣ - Σ_{i<5} xⁱ/i!`. -/
theorem T16_rk4_global (H : Matrix n n ℂ) (hH : H.IsHermitian) (dt : ℝ) (k : ℕ) :
    ‖rk4Op ((-(Complex.I * (dt : ℂ))) • H) ^ k - mprop ((k : ℂ) * (dt : ℂ)) H‖
      ≤ (1 + expRem 5 (|dt| * ‖H‖)) ^ k - 1 := by
  rw [mprop_eq_l2]; exact rk4_global (show IsSelfAdjoint H from hH) dt k

/-- **RK45, `k` steps**: the same with the local bound `r₇(x) + (1/720 - 1/2080) x⁶`. -/
theorem T16_rk45_global (H : Matrix n n ℂ) (hH : H.IsHermitian) (dt : ℝ) (k : ℕ) :
    ‖rk45Op ((-(Complex.I * (dt : ℂ))) • H) ^ k - mprop ((k : ℂ) * (dt : ℂ)) H‖
      ≤ (1 + rk45Loc (|dt| * ‖H‖)) ^ k - 1 := by
  rw [mprop_eq_l2]; exact rk45_global (show IsSelfAdjoint H from hH) dt k

/-- the form with the growth factor `‖P₄(z)‖ ≤ e^{‖z‖}` of the step operator:
`≤ k · e^{(k-1)|dt|‖H‖} · r₅(|dt|‖H‖)` (weaker than `T16_rk4_global`). -/
theorem T16_rk4_global_growth (H : Matrix n n ℂ) (hH : H.IsHermitian) (dt : ℝ) (k : ℕ) :
    ‖rk4Op ((-(Complex.I * (dt : ℂ))) • H) ^ k - mprop ((k : ℂ) * (dt : ℂ)) H‖
      ≤ k * Real.exp (|dt| * ‖H‖) ^ (k - 1) * expRem 5 (|dt| * ‖H‖) := by
  rw [mprop_eq_l2]; exact rk4_global_growth (show IsSelfAdjoint H from hH) dt k

/-- **order 4 for fixed `T = k dt`**: with `c = T ‖H‖⁵ e^{dt‖H‖} / 120 · dt⁴` the error is `≤ c e^c`. -/
theorem T16_rk4_global_order (H : Matrix n n ℂ) (hH : H.IsHermitian) (dt : ℝ) (hdt : 0 ≤ dt)
    (k : ℕ) :
    ‖rk4Op ((-(Complex.I * (dt : ℂ))) • H) ^ k - mprop ((k : ℂ) * (dt : ℂ)) H‖
      ≤ ((k * dt) * ‖H‖ ^ 5 * Real.exp (dt * ‖H‖) / 120 * dt ^ 4)
        * Real.exp ((k * dt) * ‖H‖ ^ 5 * Real.exp (dt * ‖H‖) / 120 * dt ^ 4) := by
  rw [mprop_eq_l2]; exact rk4_global_order (show IsSelfAdjoint H from hH) dt hdt k

/-- **order 5 for fixed `T = k dt`** (RK45): `c = T ‖H‖⁶ (e^{dt‖H‖}/720 + 1/1000) · dt⁵`, error `≤ c e^c`. -/
theorem T16_rk45_global_order (H : Matrix n n ℂ) (hH : H.IsHermitian) (dt : ℝ) (hdt : 0 ≤ dt)
    (k : ℕ) :
    ‖rk45Op ((-(Complex.I * (dt : ℂ))) • H) ^ k - mprop ((k : ℂ) * (dt : ℂ)) H‖
      ≤ ((k * dt) * ‖H‖ ^ 6 * (Real.exp (dt * ‖H‖) / 720 + 1 / 1000) * dt ^ 5)
        * Real.exp ((k * dt) * ‖H‖ ^ 6 * (Real.exp (dt * ‖H‖) / 720 + 1 / 1000) * dt ^ 5) := by
  rw [mprop_eq_l2]; exact rk45_global_order (show IsSelfAdjoint H from hH) dt hdt k

end matrix

/-! ### remainders of the exponential series -/

/-- `r_N(x) = eˣ - Σ_{i<N} xⁱ/i!` satisfies `0 ≤ r_N(x) ≤ x^N eˣ / N!` for `x ≥ 0`, and `r₃` is the
constant of part 3. -/
theorem T16_expRem_bounds (N : ℕ) (x : ℝ) (hx : 0 ≤ x) :
    0 ≤ expRem N x ∧ expRem N x ≤ x ^ N / (N.factorial : ℝ) * Real.exp x ∧ rem3 x = expRem 3 x :=
  ⟨expRem_nonneg N hx, expRem_le N hx, rem3_eq_expRem x⟩

/-- **remainder of the exponential series in a Banach algebra**, every degree:
`‖exp z - Σ_{i<N} zⁱ/i!‖ ≤ r_N(‖z‖)` and `‖Σ_{i<N} zⁱ/i!‖ ≤ e^{‖z‖}`. -/
theorem T16_exp_remainder {𝔸 : Type*} [NormedRing 𝔸] [NormedAlgebra ℂ 𝔸] [CompleteSpace 𝔸]
    (h1 : ‖(1 : 𝔸)‖ ≤ 1) (N : ℕ) (z : 𝔸) :
    ‖exp z - taylorP N z‖ ≤ expRem N ‖z‖ ∧ ‖taylorP N z‖ ≤ Real.exp ‖z‖ :=
  ⟨norm_exp_sub_taylorP_le h1 N z, norm_taylorP_le_exp h1 N z⟩

/-- local errors of the RK step operators in a Banach algebra (any `z`, in particular any `H`,
Hermitian or not, and complex `dt`). -/
theorem T16_rk_local {𝔸 : Type*} [NormedRing 𝔸] [NormedAlgebra ℂ 𝔸] [CompleteSpace 𝔸]
    (h1 : ‖(1 : 𝔸)‖ ≤ 1) (z : 𝔸) :
    ‖rk4Op z - exp z‖ ≤ expRem 5 ‖z‖ ∧ ‖rk45Op z - exp z‖ ≤ rk45Loc ‖z‖
      ∧ ‖rk4Op z‖ ≤ Real.exp ‖z‖ ∧ ‖rk45Op z‖ ≤ Real.exp ‖z‖ :=
  ⟨norm_rk4Op_sub_exp_le h1 z, norm_rk45Op_sub_exp_le h1 z, norm_rk4Op_le_exp h1 z,
    norm_rk45Op_le_exp h1 z⟩

/-! ### states: bounded operators on a Hilbert space (`EuclideanSpace ℂ (Fin (2^n))` for qubits) -/

section hilbert
variable {V : Type} [NormedAddCommGroup V] [InnerProductSpace ℂ V] [CompleteSpace V]

omit [CompleteSpace V] in
/-- **the RK4 stages of the model (transliterated from `RungeKutta4.__call__`) ARE the operator
`P₄(-i dt H) = Σ_{i<5} (-i dt H)ⁱ/i!`** applied to the state. -/
theorem T16_rk4_step_operator (H : V →L[ℂ] V) (dt : ℂ) (ψ : V) :
    rk4Step (H : V →ₗ[ℂ] V) H H dt ψ = (rk4Op ((-(Complex.I * dt)) • H)) ψ :=
  rk4Step_eq_op H dt ψ

omit [CompleteSpace V] in
/-- **the RK45 stages of the model ARE the operator `Σ_{i<6} zⁱ/i! + z⁶/2080`, `z = -i dt H`.** -/
theorem T16_rk45_step_operator (H : V →L[ℂ] V) (dt : ℂ) (ψ : V) :
    rk45Step (H : V →ₗ[ℂ] V) dt ψ = (rk45Op ((-(Complex.I * dt)) • H)) ψ :=
  rk45Step_eq_op H dt ψ

omit [CompleteSpace V] in
/-- **Normalisation as `StateEvolution` applies it for the rk solvers** (`s / ‖s‖` at the end;
with callbacks also after every step): both give `normalize (P^k ψ)`. -/
theorem T16_rk_normalisation_callbacks (P : V →L[ℂ] V) (cb : Bool) (k : ℕ) (ψ : V) :
    (execute (fun v => P v) normalize cb k ψ).1 = normalize ((P ^ k) ψ) :=
  execute_normalize P cb k ψ

/-- **RK4 through `execute`, constant self-adjoint `H`, unit initial state**: the returned state
is within `2((1 + r₅(|dt|‖H‖))^k - 1)` of `exp(-i k dt H) ψ` (the factor 2 is the price of the
final normalisation), with or without callbacks. -/
theorem T16_rk4_evolution_error (H : V →L[ℂ] V) (hH : IsSelfAdjoint H) (dt : ℝ) (cb : Bool)
    (k : ℕ) (ψ : V) (hψ : ‖ψ‖ = 1) :
    ‖(execute (fun v => rk4Step (H : V →ₗ[ℂ] V) H H (dt : ℂ) v) normalize cb k ψ).1
        - (propagator ((k : ℂ) * (dt : ℂ)) H) ψ‖
      ≤ 2 * ((1 + expRem 5 (|dt| * ‖H‖)) ^ k - 1) := by
  have e : (fun v => rk4Step (H : V →ₗ[ℂ] V) H H (dt : ℂ) v)
      = fun v => (rk4Op ((-(Complex.I * (dt : ℂ))) • H)) v := by
    funext v; exact rk4Step_eq_op H dt v
  rw [e]
  exact execute_normalize_error hH dt _ _ (rk4_local cstar_norm_one_le dt H) cb k ψ hψ

/-- **RK45 through `execute`**. -/
theorem T16_rk45_evolution_error (H : V →L[ℂ] V) (hH : IsSelfAdjoint H) (dt : ℝ) (cb : Bool)
    (k : ℕ) (ψ : V) (hψ : ‖ψ‖ = 1) :
    ‖(execute (fun v => rk45Step (H : V →ₗ[ℂ] V) (dt : ℂ) v) normalize cb k ψ).1
        - (propagator ((k : ℂ) * (dt : ℂ)) H) ψ‖
      ≤ 2 * ((1 + rk45Loc (|dt| * ‖H‖)) ^ k - 1) := by
  have e : (fun v => rk45Step (H : V →ₗ[ℂ] V) (dt : ℂ) v)
      = fun v => (rk45Op ((-(Complex.I * (dt : ℂ))) • H)) v := by
    funext v; exact rk45Step_eq_op H dt v
  rw [e]
  exact execute_normalize_error hH dt _ _ (rk45_local cstar_norm_one_le dt H) cb k ψ hψ

/-- non-vacuity: a non-zero self-adjoint operator and a unit vector (`V = ℂ`, `H = 1`). -/
example : ∃ (H : ℂ →L[ℂ] ℂ) (ψ : ℂ), IsSelfAdjoint H ∧ H ≠ 0 ∧ ‖ψ‖ = 1 :=
  ⟨1, 1, IsSelfAdjoint.one _, one_ne_zero, by simp⟩

omit [CompleteSpace V] in
/-- **the division `s / ‖s‖` is never `0/0` while the global bound is below 1**: if `P^k ψ` is
within distance `< 1` of a unit vector then `P^j ψ ≠ 0` for every `j ≤ k`. -/
theorem T16_rk_no_zero_division (P : V →L[ℂ] V) (k : ℕ) (ψ φ : V) (hφ : ‖φ‖ = 1)
    (hclose : ‖(P ^ k) ψ - φ‖ < 1) (j : ℕ) (hj : j ≤ k) : (P ^ j) ψ ≠ 0 :=
  pow_apply_ne_zero_of_close P k ψ φ hφ hclose j hj

example : ∃ (P : ℂ →L[ℂ] ℂ) (ψ φ : ℂ), ‖φ‖ = 1 ∧ ‖(P ^ 3) ψ - φ‖ < 1 :=
  ⟨1, 1, 1, by simp, by simp⟩

/-- **Trotter through `execute`, states**: for self-adjoint groups the state after `k` steps is
within `k · 2 r₃(|dt| L) ‖ψ‖` of `exp(-i k dt H) ψ` (no normalisation for this solver; callbacks
irrelevant). -/
theorem T16_trotter_evolution_error (hs : List (V →L[ℂ] V)) (hh : ∀ h ∈ hs, IsSelfAdjoint h)
    (dt : ℝ) (cb : Bool) (k : ℕ) (ψ : V) :
    ‖(execute (fun v => (trotterProd ((dt : ℂ) / 2) hs) v) id cb k ψ).1
        - (propagator ((k : ℂ) * (dt : ℂ)) hs.sum) ψ‖
      ≤ k * (2 * rem3 (|dt| * (hs.map fun h => ‖h‖).sum)) * ‖ψ‖ := by
  rw [execute_id_fst, iterate_clm, ← sub_apply]
  exact (ContinuousLinearMap.le_opNorm _ _).trans
    (mul_le_mul_of_nonneg_right (trotter_global hs hh dt k) (norm_nonneg ψ))

end hilbert

/-! ### states as plain vectors `n → ℂ` with `Matrix.mulVec` (the model of part 2) -/

section vectors
variable {n : Type} [Fintype n] [DecidableEq n]
open scoped Matrix.Norms.L2Operator

/-- Euclidean norm of a state vector. -/
noncomputable def vnorm (v : n → ℂ) : ℝ := ‖(WithLp.toLp 2 v : EuclideanSpace ℂ n)‖

/-- the spectral norm is the operator norm for the Euclidean norm of vectors. -/
theorem vnorm_mulVec_le (A : Matrix n n ℂ) (v : n → ℂ) : vnorm (A.mulVec v) ≤ ‖A‖ * vnorm v := by
  have := Matrix.l2_opNorm_mulVec A (WithLp.toLp 2 v : EuclideanSpace ℂ n)
  simpa [vnorm] using this

theorem iterate_mulVec' (A : Matrix n n ℂ) (k : ℕ) (ψ : n → ℂ) :
    (fun v => A.mulVec v)^[k] ψ = (A ^ k).mulVec ψ := by
  induction k generalizing ψ with
  | zero => simp
  | succ k ih => rw [Function.iterate_succ_apply, ih, Matrix.mulVec_mulVec, ← pow_succ]

/-- **The Trotter solver through `execute` (the very expression of `T16_trotter_evolution`, now
for NON-commuting Hermitian groups)**: the returned state is within `k · 2 r₃(|dt| L) · ‖ψ‖₂` of
`exp(-i k dt H) ψ`, with or without callbacks. -/
theorem T16_trotter_evolution_error_matrix (hs : List (Matrix n n ℂ))
    (hh : ∀ h ∈ hs, h.IsHermitian) (dt : ℝ) (cb : Bool) (k : ℕ) (ψ : n → ℂ) :
    vnorm ((execute (fun v => (mtrotter ((dt : ℂ) / 2) hs).mulVec v) id cb k ψ).1
        - (mprop ((k : ℂ) * (dt : ℂ)) hs.sum).mulVec ψ)
      ≤ k * (2 * rem3 (|dt| * (hs.map fun h => ‖h‖).sum)) * vnorm ψ := by
  rw [execute_id_fst, iterate_mulVec', ← Matrix.sub_mulVec]
  exact (vnorm_mulVec_le _ _).trans
    (mul_le_mul_of_nonneg_right (T16_trotter_global hs hh dt k) (norm_nonneg _))

/-- **`k` un-normalised RK4 steps on a vector** (what `k` calls of the real solver object do):
within `((1 + r₅(|dt|‖H‖))^k - 1) ‖ψ‖₂` of `exp(-i k dt H) ψ`. -/
theorem T16_rk4_steps_error_matrix (H : Matrix n n ℂ) (hH : H.IsHermitian) (dt : ℝ) (k : ℕ)
    (ψ : n → ℂ) :
    vnorm ((fun v => (rk4Op ((-(Complex.I * (dt : ℂ))) • H)).mulVec v)^[k] ψ
        - (mprop ((k : ℂ) * (dt : ℂ)) H).mulVec ψ)
      ≤ ((1 + expRem 5 (|dt| * ‖H‖)) ^ k - 1) * vnorm ψ := by
  rw [iterate_mulVec', ← Matrix.sub_mulVec]
  exact (vnorm_mulVec_le _ _).trans
    (mul_le_mul_of_nonneg_right (T16_rk4_global H hH dt k) (norm_nonneg _))

/-- the same for RK45. -/
theorem T16_rk45_steps_error_matrix (H : Matrix n n ℂ) (hH : H.IsHermitian) (dt : ℝ) (k : ℕ)
    (ψ : n → ℂ) :
    vnorm ((fun v => (rk45Op ((-(Complex.I * (dt : ℂ))) • H)).mulVec v)^[k] ψ
        - (mprop ((k : ℂ) * (dt : ℂ)) H).mulVec ψ)
      ≤ ((1 + rk45Loc (|dt| * ‖H‖)) ^ k - 1) * vnorm ψ := by
  rw [iterate_mulVec', ← Matrix.sub_mulVec]
  exact (vnorm_mulVec_le _ _).trans
    (mul_le_mul_of_nonneg_right (T16_rk45_global H hH dt k) (norm_nonneg _))

end vectors

/-! ### time-dependent Hamiltonians: what `execute` reaches -/

section timed
variable {T V : Type}

/-- **a solver with a clock, no normalisation** ('exp' on dense `H(t)`, Trotter on symbolic /
adiabatic `H(t)`): `execute` returns the clock advanced `k` times and the ORDERED composition of
the step maps read at the clock values `t0, adv t0, …, adv^{k-1} t0` — whatever the callbacks. -/
theorem T16_timed_execute (adv : T → T) (U : T → V → V) (cb : Bool) (k : ℕ) (t0 : T) (ψ : V) :
    (execute (timedStep adv U) (timedNorm id) cb k (t0, ψ)).1
      = (adv^[k] t0, timedIter adv U k t0 ψ) :=
  execute_timed_id adv U cb k t0 ψ

/-- **normalising solvers with a clock** (rk4 / rk45 with `H(t)`): without callbacks the ordered
composition is normalised once; with callbacks after every step. -/
theorem T16_timed_execute_normalising (adv : T → T) (U : T → V → V) (N : V → V) (k : ℕ) (t0 : T)
    (ψ : V) :
    (execute (timedStep adv U) (timedNorm N) false k (t0, ψ)).1
        = (adv^[k] t0, N (timedIter adv U k t0 ψ))
      ∧ (execute (timedStep adv U) (timedNorm N) true k (t0, ψ)).1
        = (adv^[k] t0, N (timedIter adv (fun t v => N (U t v)) k t0 ψ)) :=
  ⟨execute_timed_nocb adv U N k t0 ψ, execute_timed_cb adv U N k t0 ψ⟩

/-- **the times at which the Hamiltonian is read** during `execute` with a solver of kind `s`
(compared bit for bit with the real solvers on every run): the stage times of step `j` started at
clock `t0 + dt + … + dt` (`j` additions), concatenated in order. -/
theorem T16_timed_reads {R : Type} [Add R] [Mul R] [Div R] (nat : ℕ → R) (s : SolverKind)
    (cb : Bool) (k : ℕ) (t0 dt : R) :
    readLog nat s cb k t0 dt
      = ((fun t => t + dt)^[k] t0,
         ((List.range k).map fun j => stageTimes nat s ((fun t => t + dt)^[j] t0) dt).flatten) := by
  unfold readLog
  rw [execute_timed_id, timedIter_log]
  rfl

end timed

section timedMatrix
variable {n : Type} [Fintype n] [DecidableEq n]

/-- **The exponential solver with a time-dependent Hamiltonian reaches the ordered product of
the frozen propagators**: `exp(-i dt H(t0 + (k-1)dt)) ⋯ exp(-i dt H(t0 + dt)) exp(-i dt H(t0)) ψ`,
and the clock ends at `t0 + k dt`. -/
theorem T16_timed_exp_evolution (H : ℝ → Matrix n n ℂ) (dt t0 : ℝ) (cb : Bool) (k : ℕ)
    (ψ : n → ℂ) :
    (execute (timedStep (fun t => t + dt) (fun t v => (mprop (dt : ℂ) (H t)).mulVec v))
        (timedNorm id) cb k (t0, ψ)).1
      = (t0 + k * dt, (tprod (fun j => mprop (dt : ℂ) (H (t0 + j * dt))) k).mulVec ψ) := by
  rw [execute_timed_id, timedIter_mulVec, iterate_add_const]
  simp only [iterate_add_const]

/-- **The Trotter solver with time-dependent groups** (`SymbolicAdiabaticHamiltonian.circuit(dt, t)`,
`hs t` the merged groups with the coefficients `1 - s(t)`, `s(t)`, or a callable returning a
`SymbolicHamiltonian`): the ordered product of the Trotter step operators at `t0 + j dt`. -/
theorem T16_timed_trotter_evolution (hs : ℝ → List (Matrix n n ℂ)) (dt t0 : ℝ) (cb : Bool)
    (k : ℕ) (ψ : n → ℂ) :
    (execute (timedStep (fun t => t + dt) (fun t v => (mtrotter ((dt : ℂ) / 2) (hs t)).mulVec v))
        (timedNorm id) cb k (t0, ψ)).1
      = (t0 + k * dt, (tprod (fun j => mtrotter ((dt : ℂ) / 2) (hs (t0 + j * dt))) k).mulVec ψ) := by
  rw [execute_timed_id, timedIter_mulVec, iterate_add_const]
  simp only [iterate_add_const]

/-- for a constant Hamiltonian the ordered product is the `k`-th power (so the statements above
specialise to `T16_exp_evolution` / `T16_trotter_evolution` of part 2). -/
theorem T16_timed_constant (A : Matrix n n ℂ) (k : ℕ) : tprod (fun _ => A) k = A ^ k :=
  tprod_const A k

/-- the ordered product written as a list product (latest step leftmost). -/
theorem T16_timed_product_list (B : ℕ → Matrix n n ℂ) (k : ℕ) :
    tprod B k = ((List.range k).reverse.map B).prod :=
  tprod_eq_list B k

open scoped Matrix.Norms.L2Operator in
/-- **Time-dependent Trotter against the frozen exponentials** (spectral norm, Hermitian groups):
`‖∏_j S(dt; hs_j) - ∏_j exp(-i dt Σ hs_j)‖₂ ≤ Σ_{j<k} 2 r₃(|dt| L_j)`, `L_j = Σ‖h‖₂` over the groups of
step `j`.  (How far the frozen product is from the time-ordered exponential is not addressed.) -/
theorem T16_timed_trotter_vs_frozen (hs : ℕ → List (Matrix n n ℂ))
    (hh : ∀ j, ∀ h ∈ hs j, h.IsHermitian) (dt : ℝ) (k : ℕ) :
    ‖tprod (fun j => mtrotter ((dt : ℂ) / 2) (hs j)) k
        - tprod (fun j => mprop (dt : ℂ) (hs j).sum) k‖
      ≤ ((List.range k).map fun j => 2 * rem3 (|dt| * ((hs j).map fun h => ‖h‖).sum)).sum :=
  tprod_trotter_vs_frozen hs hh dt k

open scoped Matrix.Norms.L2Operator in
/-- … with any `L j ≥ Σ‖h‖₂` over the groups of step `j` (for the adiabatic Hamiltonian
`(1 - s_j) Σ|c⁰_m| + s_j Σ|c¹_m|` over the Pauli monomials of `h0`, `h1`).  The harness evaluates this
inequality on the product of the real `SymbolicAdiabaticHamiltonian.circuit(dt, t_j).unitary()` and
on the real `AdiabaticEvolution` on every run (`C16_search_global_adiabatic`). -/
theorem T16_timed_trotter_vs_frozen_of_le (hs : ℕ → List (Matrix n n ℂ))
    (hh : ∀ j, ∀ h ∈ hs j, h.IsHermitian) (dt : ℝ) (k : ℕ) (L : ℕ → ℝ)
    (hL : ∀ j, ((hs j).map fun h => ‖h‖).sum ≤ L j) :
    ‖tprod (fun j => mtrotter ((dt : ℂ) / 2) (hs j)) k
        - tprod (fun j => mprop (dt : ℂ) (hs j).sum) k‖
      ≤ ((List.range k).map fun j => 2 * rem3 (|dt| * L j)).sum := by
  refine (tprod_trotter_vs_frozen hs hh dt k).trans (List.sum_le_sum ?_)
  intro j _
  have m := rem3_mono (mul_nonneg (abs_nonneg dt) (sum_norm_nonneg (hs j)))
    (mul_le_mul_of_nonneg_left (hL j) (abs_nonneg dt))
  linarith

end timedMatrix

end QV.Props.C16
