/-
  C13 (operand order) — for a class whose traced row passes `ArgRow.ok` (decided by the
  kernel on the regenerated table, QV/Gen/C13_Ob1.lean) the re-imported gate reports the
  same qubits and parameters as the exported one, for EVERY choice of operands.
-/
import QV.Model.QasmArgs
import Mathlib.Tactic.Common

namespace QV.Props.C13
open QV.QasmArgs

theorem reread_written {α : Type} (w r g : List Nat) (xs : List α)
    (h : r.map (fun k => (w[k]?)) = g.map some) :
    reread r (written w xs) = reported g xs := by
  have := congrArg (List.map fun o : Option Nat => o.bind (xs[·]?)) h
  simp only [List.map_map] at this
  simp only [reread, written, reported]
  rw [show (g.map (xs[·]?)) = g.map ((fun o : Option Nat => o.bind (xs[·]?)) ∘ some) from by
    simp [Function.comp_def]]
  rw [← this]
  apply List.map_congr_left
  intro k _
  simp only [Function.comp, List.getElem?_map]
  cases w[k]? <;> simp

/-- write then read preserves `qubits` and `parameters` of the gate — any operands, any
class whose traced row is accepted: the number and the order of the qubits (controls and
targets) and of the parameters written are the ones read -/
theorem T13_operands_roundtrip {α β : Type} (r : ArgRow) (h : r.ok = true)
    (qs : List α) (ps : List β) :
    reread r.rq (written r.wq qs) = reported r.gq qs
      ∧ reread r.rp (written r.wp ps) = reported r.gp ps
      ∧ (written r.wq qs).length = r.nq ∧ (written r.wp ps).length = r.np := by
  simp only [ArgRow.ok, Bool.and_eq_true, beq_iff_eq] at h
  obtain ⟨⟨⟨⟨⟨h1, h2⟩, h3⟩, h4⟩, -⟩, -⟩ := h
  exact ⟨reread_written _ _ _ qs h3, reread_written _ _ _ ps h4, by simp [written, h1], by simp [written, h2]⟩

/-- every operand is reported when it exists: with `nq` qubits and `np` parameters
supplied nothing is lost (no `none`) -/
theorem T13_operands_defined {α : Type} (r : ArgRow) (h : r.ok = true) (qs : List α)
    (hq : qs.length = r.nq) : ∀ o ∈ reported r.gq qs, o.isSome = true := by
  simp only [ArgRow.ok, Bool.and_eq_true, List.all_eq_true, decide_eq_true_eq] at h
  intro o ho
  obtain ⟨k, hk, rfl⟩ := List.mem_map.1 ho
  have : k < qs.length := hq ▸ h.1.2 k hk
  simp [this]

/-- non-vacuity: the shape of the row of CU3 (control first; theta, phi, lam) -/
def exRow : ArgRow := ⟨"CU3", "cu3", 2, 3, [0, 1], [0, 1, 2], [0, 1], [0, 1, 2], [0, 1], [0, 1, 2]⟩
example : exRow.ok = true := by decide
/-- a writer that emitted target before control would be refused -/
example : (⟨"CU3", "cu3", 2, 3, [1, 0], [0, 1, 2], [0, 1], [0, 1, 2], [0, 1], [0, 1, 2]⟩ : ArgRow).ok = false := by
  decide

end QV.Props.C13
