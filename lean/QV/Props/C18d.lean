/-
  C18d — the algebra behind the CPTP / density-matrix generators of
  `qibo.quantum_info.random_ensembles`, for every dimension (any finite index types):

    * `random_quantum_channel(measure="bcsz")` (`_super_op_from_bcsz_measure`):
        W = X X†,  Y = Tr_out W,  S = Y^{-1/2},  Choi = (1 ⊗ S) W (1 ⊗ S)   (row order:
        Choi index = (output, input), "ijik->jk") resp. (S ⊗ 1) W (S ⊗ 1) (column order:
        Choi index = (input, output), "jiki->jk").  No matrix square root is needed:
        `S` is ANY matrix with `S·Y·S = 1` (trace preservation) and `S† = S` (positivity).
        The column-order defect repaired in /repo commit c0d49b968 ("random generators: BCSZ …")
        — `Y` computed with the row-order partial trace — violates the hypothesis `S·Y·S = 1`
        of the column theorem and gives a map that is not trace preserving: explicit 2 ⊗ 2
        rational witness.
    * `random_density_matrix(metric="bures")`:  ρ = (1+U) A A† (1+U)† / tr  — Hermitian,
        unit trace, positive semidefinite, rank ≤ the number of columns of `A`
        (also `metric="ginibre"`: rank ≤ `rank`).

  The statements are instantiated on every check run by `tools/props/C18.py`
  (`search_generator_algebra`): the hypotheses are evaluated on the Gaussian matrix
  regenerated from the seed, the model expression is compared with the matrix the real
  function returns, and the conclusions are evaluated on the returned matrix.
-/
import Mathlib.LinearAlgebra.Matrix.PosDef
import Mathlib.LinearAlgebra.Matrix.Kronecker
import Mathlib.LinearAlgebra.Matrix.Trace
import Mathlib.LinearAlgebra.Matrix.Rank
import Mathlib.LinearAlgebra.Matrix.Hermitian
import Mathlib.Algebra.Order.Star.Real
import Mathlib.Data.Rat.Star
import Mathlib.Analysis.RCLike.Basic
import Mathlib.Data.Complex.Basic
import Mathlib.Tactic.Ring
import Mathlib.Tactic.NormNum
import Mathlib.Tactic.FinCases
import QV.Props.C18c
set_option linter.unusedSectionVars false
set_option linter.unusedSimpArgs false
namespace QV.Props.C18d
open Matrix Kronecker

/-! ### partial traces of a bipartite matrix -/

section ptrace
variable {a b R : Type} [Fintype a] [Fintype b] [DecidableEq a] [DecidableEq b] [CommRing R]

/-- partial trace over the FIRST tensor factor: `einsum("ijik->jk")`. -/
def ptraceFst (W : Matrix (a × b) (a × b) R) : Matrix b b R := fun j k => ∑ x, W (x, j) (x, k)

/-- partial trace over the SECOND tensor factor: `einsum("jiki->jk")`. -/
def ptraceSnd (W : Matrix (b × a) (b × a) R) : Matrix b b R := fun j k => ∑ x, W (j, x) (k, x)

theorem one_kron_mul_apply (A : Matrix b b R) (W : Matrix (a × b) (a × b) R) (x : a) (j : b)
    (q : a × b) :
    (((1 : Matrix a a R) ⊗ₖ A) * W) (x, j) q = ∑ l, A j l * W (x, l) q := by
  simp [mul_apply, Fintype.sum_prod_type, kroneckerMap_apply, one_apply, ite_mul]

theorem mul_one_kron_apply (B : Matrix b b R) (W : Matrix (a × b) (a × b) R) (p : a × b) (x : a)
    (k : b) :
    (W * ((1 : Matrix a a R) ⊗ₖ B)) p (x, k) = ∑ m, W p (x, m) * B m k := by
  simp only [mul_apply, Fintype.sum_prod_type, kroneckerMap_apply, one_apply, ite_mul, mul_ite,
    one_mul, zero_mul, mul_zero]
  rw [Finset.sum_eq_single x]
  · simp
  · intro y _ hy; simp [hy]
  · intro h; exact absurd (Finset.mem_univ x) h

theorem kron_one_mul_apply (A : Matrix b b R) (W : Matrix (b × a) (b × a) R) (j : b) (x : a)
    (q : b × a) :
    ((A ⊗ₖ (1 : Matrix a a R)) * W) (j, x) q = ∑ l, A j l * W (l, x) q := by
  simp [mul_apply, Fintype.sum_prod_type, kroneckerMap_apply, one_apply, mul_ite, ite_mul]

theorem mul_kron_one_apply (B : Matrix b b R) (W : Matrix (b × a) (b × a) R) (p : b × a) (k : b)
    (x : a) :
    (W * (B ⊗ₖ (1 : Matrix a a R))) p (k, x) = ∑ m, W p (m, x) * B m k := by
  simp only [mul_apply, Fintype.sum_prod_type, kroneckerMap_apply, one_apply, ite_mul, mul_ite,
    mul_one, one_mul, zero_mul, mul_zero]
  refine Finset.sum_congr rfl fun m _ => ?_
  rw [Finset.sum_eq_single x]
  · simp
  · intro y _ hy; simp [hy]
  · intro h; exact absurd (Finset.mem_univ x) h

/-- operators on the kept factor commute with the partial trace over the other one (row order). -/
theorem ptraceFst_conj (A B : Matrix b b R) (W : Matrix (a × b) (a × b) R) :
    ptraceFst (((1 : Matrix a a R) ⊗ₖ A) * W * ((1 : Matrix a a R) ⊗ₖ B)) = A * ptraceFst W * B := by
  ext j k
  simp only [ptraceFst, mul_one_kron_apply, one_kron_mul_apply]
  simp only [mul_apply, ptraceFst, Finset.sum_mul, Finset.mul_sum]
  rw [Finset.sum_comm (s := Finset.univ) (t := Finset.univ)]
  refine Finset.sum_congr rfl fun m _ => ?_
  rw [Finset.sum_comm (s := Finset.univ) (t := Finset.univ)]

/-- the same for the column placement. -/
theorem ptraceSnd_conj (A B : Matrix b b R) (W : Matrix (b × a) (b × a) R) :
    ptraceSnd ((A ⊗ₖ (1 : Matrix a a R)) * W * (B ⊗ₖ (1 : Matrix a a R))) = A * ptraceSnd W * B := by
  ext j k
  simp only [ptraceSnd, mul_kron_one_apply, kron_one_mul_apply]
  simp only [mul_apply, ptraceSnd, Finset.sum_mul, Finset.mul_sum]
  rw [Finset.sum_comm (s := Finset.univ) (t := Finset.univ)]
  refine Finset.sum_congr rfl fun m _ => ?_
  rw [Finset.sum_comm (s := Finset.univ) (t := Finset.univ)]

/-- the partial trace preserves the trace. -/
theorem T18_ptraceFst_trace (W : Matrix (a × b) (a × b) R) : trace (ptraceFst W) = trace W := by
  simp only [trace, diag_apply, ptraceFst, Fintype.sum_prod_type]
  rw [Finset.sum_comm]

theorem T18_ptraceSnd_trace (W : Matrix (b × a) (b × a) R) : trace (ptraceSnd W) = trace W := by
  simp only [trace, diag_apply, ptraceSnd, Fintype.sum_prod_type]

variable [StarRing R]

/-- the partial trace of a Hermitian matrix is Hermitian. -/
theorem T18_ptraceFst_hermitian (W : Matrix (a × b) (a × b) R) (h : Wᴴ = W) :
    (ptraceFst W)ᴴ = ptraceFst W := by
  ext j k
  simp only [conjTranspose_apply, ptraceFst, star_sum]
  refine Finset.sum_congr rfl fun x _ => ?_
  rw [← conjTranspose_apply, h]

theorem T18_ptraceSnd_hermitian (W : Matrix (b × a) (b × a) R) (h : Wᴴ = W) :
    (ptraceSnd W)ᴴ = ptraceSnd W := by
  ext j k
  simp only [conjTranspose_apply, ptraceSnd, star_sum]
  refine Finset.sum_congr rfl fun x _ => ?_
  rw [← conjTranspose_apply, h]

end ptrace

/-! ### BCSZ channels -/

section bcsz
variable {o i r R : Type} [Fintype o] [Fintype i] [Fintype r] [DecidableEq o] [DecidableEq i]
  [DecidableEq r] [CommRing R] [StarRing R]

/-- **BCSZ, row order, trace preservation.**  For ANY `X` (`d² × rank`) and any `S` with
`S · Tr_out(X X†) · S = 1`, the partial trace over the output system of the Choi matrix
`(1 ⊗ S) X X† (1 ⊗ S)` is the identity. -/
theorem T18_bcsz_row_trace_preserving (X : Matrix (o × i) r R) (S : Matrix i i R)
    (hS : S * ptraceFst (X * Xᴴ) * S = 1) :
    ptraceFst (((1 : Matrix o o R) ⊗ₖ S) * (X * Xᴴ) * ((1 : Matrix o o R) ⊗ₖ S)) = 1 := by
  rw [ptraceFst_conj, hS]

/-- **BCSZ, column order, trace preservation**: Choi index = (input, output); the output
system is the SECOND factor (`"jiki->jk"`) and `S` acts on the first. -/
theorem T18_bcsz_column_trace_preserving (X : Matrix (i × o) r R) (S : Matrix i i R)
    (hS : S * ptraceSnd (X * Xᴴ) * S = 1) :
    ptraceSnd ((S ⊗ₖ (1 : Matrix o o R)) * (X * Xᴴ) * (S ⊗ₖ (1 : Matrix o o R))) = 1 := by
  rw [ptraceSnd_conj, hS]

/-- the Choi matrix is `Z Z†` with `Z = (1 ⊗ S) X`: Kraus rank ≤ number of columns of `X`. -/
theorem T18_bcsz_row_gram (X : Matrix (o × i) r R) (S : Matrix i i R) (hSh : Sᴴ = S) :
    ((1 : Matrix o o R) ⊗ₖ S) * (X * Xᴴ) * ((1 : Matrix o o R) ⊗ₖ S)
      = (((1 : Matrix o o R) ⊗ₖ S) * X) * (((1 : Matrix o o R) ⊗ₖ S) * X)ᴴ := by
  rw [conjTranspose_mul, conjTranspose_kronecker, conjTranspose_one, hSh]
  simp only [Matrix.mul_assoc]

theorem T18_bcsz_column_gram (X : Matrix (i × o) r R) (S : Matrix i i R) (hSh : Sᴴ = S) :
    (S ⊗ₖ (1 : Matrix o o R)) * (X * Xᴴ) * (S ⊗ₖ (1 : Matrix o o R))
      = ((S ⊗ₖ (1 : Matrix o o R)) * X) * ((S ⊗ₖ (1 : Matrix o o R)) * X)ᴴ := by
  rw [conjTranspose_mul, conjTranspose_kronecker, conjTranspose_one, hSh]
  simp only [Matrix.mul_assoc]

variable [PartialOrder R] [StarOrderedRing R]

/-- **BCSZ, row order, complete positivity**: the Choi matrix is positive semidefinite. -/
theorem T18_bcsz_row_psd (X : Matrix (o × i) r R) (S : Matrix i i R) (hSh : Sᴴ = S) :
    (((1 : Matrix o o R) ⊗ₖ S) * (X * Xᴴ) * ((1 : Matrix o o R) ⊗ₖ S)).PosSemidef := by
  rw [T18_bcsz_row_gram X S hSh]
  exact posSemidef_self_mul_conjTranspose _

/-- **BCSZ, column order, complete positivity.** -/
theorem T18_bcsz_column_psd (X : Matrix (i × o) r R) (S : Matrix i i R) (hSh : Sᴴ = S) :
    ((S ⊗ₖ (1 : Matrix o o R)) * (X * Xᴴ) * (S ⊗ₖ (1 : Matrix o o R))).PosSemidef := by
  rw [T18_bcsz_column_gram X S hSh]
  exact posSemidef_self_mul_conjTranspose _

/-- **BCSZ: a CPTP map in both orders** (the two statements together). -/
theorem T18_bcsz_cptp (Xr : Matrix (o × i) r R) (Xc : Matrix (i × o) r R) (Sr Sc : Matrix i i R)
    (hr : Sr * ptraceFst (Xr * Xrᴴ) * Sr = 1) (hrh : Srᴴ = Sr)
    (hc : Sc * ptraceSnd (Xc * Xcᴴ) * Sc = 1) (hch : Scᴴ = Sc) :
    ((((1 : Matrix o o R) ⊗ₖ Sr) * (Xr * Xrᴴ) * ((1 : Matrix o o R) ⊗ₖ Sr)).PosSemidef
      ∧ ptraceFst (((1 : Matrix o o R) ⊗ₖ Sr) * (Xr * Xrᴴ) * ((1 : Matrix o o R) ⊗ₖ Sr)) = 1)
    ∧ (((Sc ⊗ₖ (1 : Matrix o o R)) * (Xc * Xcᴴ) * (Sc ⊗ₖ (1 : Matrix o o R))).PosSemidef
      ∧ ptraceSnd ((Sc ⊗ₖ (1 : Matrix o o R)) * (Xc * Xcᴴ) * (Sc ⊗ₖ (1 : Matrix o o R))) = 1) :=
  ⟨⟨T18_bcsz_row_psd Xr Sr hrh, T18_bcsz_row_trace_preserving Xr Sr hr⟩,
   ⟨T18_bcsz_column_psd Xc Sc hch, T18_bcsz_column_trace_preserving Xc Sc hc⟩⟩

end bcsz

/-! ### the loop that builds `S` from `numpy.linalg.eigh(Y)` -/

section eigh
variable {i R : Type} [Fintype i] [DecidableEq i] [CommRing R] [StarRing R]

/-- `operator = Σ_k s_k · outer(v_k, conj v_k)` (the loop of `_super_op_from_bcsz_measure`, `v_k`
the columns of `V`) is `V · diag(s) · V†`. -/
theorem T18_bcsz_loop_form (V : Matrix i i R) (s : i → R) :
    ∑ k, s k • vecMulVec (fun a => V a k) (star fun a => V a k) = V * diagonal s * Vᴴ := by
  ext a c
  simp only [Matrix.sum_apply, Matrix.smul_apply, vecMulVec_apply, Pi.star_apply, mul_apply,
    diagonal_apply, conjTranspose_apply, smul_eq_mul, mul_ite, mul_zero, Finset.sum_ite_eq',
    Finset.mem_univ, if_true]
  refine Finset.sum_congr rfl fun k _ => ?_
  ring

/-- **the hypotheses of the BCSZ theorems follow from the eigendecomposition**: if `Y = V diag(λ) V†`
with `V` unitary and `s_k` real with `s_k·λ_k·s_k = 1` (`s_k = 1/√λ_k`), then `S = V diag(s) V†`
satisfies `S·Y·S = 1` and `S† = S`. -/
theorem T18_bcsz_S_from_eigh (V : Matrix i i R) (ev s : i → R) (hV : Vᴴ * V = 1) (hV' : V * Vᴴ = 1)
    (hs : ∀ k, s k * ev k * s k = 1) (hreal : ∀ k, star (s k) = s k) :
    (V * diagonal s * Vᴴ) * (V * diagonal ev * Vᴴ) * (V * diagonal s * Vᴴ) = 1
      ∧ (V * diagonal s * Vᴴ)ᴴ = V * diagonal s * Vᴴ := by
  constructor
  · have e : (V * diagonal s * Vᴴ) * (V * diagonal ev * Vᴴ) * (V * diagonal s * Vᴴ)
        = V * (diagonal s * (Vᴴ * V) * diagonal ev * (Vᴴ * V) * diagonal s) * Vᴴ := by
      simp only [Matrix.mul_assoc]
    rw [e, hV, Matrix.mul_one, Matrix.mul_one, diagonal_mul_diagonal, diagonal_mul_diagonal]
    have : (fun k => s k * ev k * s k) = fun _ => (1 : R) := funext hs
    rw [this, diagonal_one, Matrix.mul_one, hV']
  · rw [conjTranspose_mul, conjTranspose_mul, conjTranspose_conjTranspose, diagonal_conjTranspose,
      Matrix.mul_assoc]
    congr 3
    funext k
    exact hreal k

end eigh

/-! ### what "partial trace over the output = identity" means; positivity of `Y` -/

section choi
variable {o i t R : Type} [Fintype o] [Fintype i] [Fintype t] [DecidableEq o] [DecidableEq i]
  [CommRing R] [StarRing R]

/-- Choi matrix of a Kraus family in ROW vectorisation `vec(K)[(a, j)] = K[a, j]`
(index = (output, input)): `Σ_t vec(K_t) vec(K_t)†`. -/
def choiRow (K : t → Matrix o i R) : Matrix (o × i) (o × i) R :=
  fun p q => ∑ s, K s p.1 p.2 * star (K s q.1 q.2)

/-- … in COLUMN vectorisation `vec(K)[(j, a)] = K[a, j]` (index = (input, output)). -/
def choiCol (K : t → Matrix o i R) : Matrix (i × o) (i × o) R :=
  fun p q => ∑ s, K s p.2 p.1 * star (K s q.2 q.1)

/-- the partial trace over the output of the Choi matrix is `(Σ_t K_t† K_t)ᵀ` — row order. -/
theorem T18_choi_row_ptrace (K : t → Matrix o i R) :
    ptraceFst (choiRow K) = (∑ s, (K s)ᴴ * K s)ᵀ := by
  ext j l
  simp only [ptraceFst, choiRow, transpose_apply, Matrix.sum_apply, mul_apply, conjTranspose_apply]
  rw [Finset.sum_comm]
  refine Finset.sum_congr rfl fun s _ => Finset.sum_congr rfl fun x _ => ?_
  ring

/-- … and column order (the SECOND factor is the output). -/
theorem T18_choi_column_ptrace (K : t → Matrix o i R) :
    ptraceSnd (choiCol K) = (∑ s, (K s)ᴴ * K s)ᵀ := by
  ext j l
  simp only [ptraceSnd, choiCol, transpose_apply, Matrix.sum_apply, mul_apply, conjTranspose_apply]
  rw [Finset.sum_comm]
  refine Finset.sum_congr rfl fun s _ => Finset.sum_congr rfl fun x _ => ?_
  ring

/-- hence "`Tr_out` Choi `= 1`" IS the textbook trace-preservation condition `Σ K†K = 1`,
in both orders. -/
theorem T18_choi_tp_iff (K : t → Matrix o i R) :
    (ptraceFst (choiRow K) = 1 ↔ ∑ s, (K s)ᴴ * K s = 1)
      ∧ (ptraceSnd (choiCol K) = 1 ↔ ∑ s, (K s)ᴴ * K s = 1) := by
  rw [T18_choi_row_ptrace, T18_choi_column_ptrace]
  have h : ∀ M : Matrix i i R, Mᵀ = 1 ↔ M = 1 := fun M => by
    constructor
    · intro h; have := congrArg transpose h; simpa using this
    · intro h; rw [h, transpose_one]
  exact ⟨h _, h _⟩

/-- a trace-preserving Choi matrix has trace `d_in`. -/
theorem T18_choi_trace_of_tp (C : Matrix (o × i) (o × i) R) (h : ptraceFst C = 1) :
    trace C = Fintype.card i := by
  rw [← T18_ptraceFst_trace, h, trace_one]

/-- the vectorised Kraus operators as the columns of one matrix. -/
def vecRow (K : t → Matrix o i R) : Matrix (o × i) t R := fun p s => K s p.1 p.2
def vecCol (K : t → Matrix o i R) : Matrix (i × o) t R := fun p s => K s p.2 p.1

/-- the Choi matrix of a Kraus family is a Gram matrix `M M†` (`M[(a,j), s] = K_s[a,j]`). -/
theorem T18_choi_row_gram (K : t → Matrix o i R) : choiRow K = vecRow K * (vecRow K)ᴴ := by
  ext p q
  simp [choiRow, vecRow, mul_apply, conjTranspose_apply]

theorem T18_choi_column_gram (K : t → Matrix o i R) :
    choiCol K = vecCol K * (vecCol K)ᴴ := by
  ext p q
  simp [choiCol, vecCol, mul_apply, conjTranspose_apply]

variable [PartialOrder R] [StarOrderedRing R] [AddLeftMono R]

/-- the partial trace of a positive semidefinite matrix is positive semidefinite: the matrix
`Y = Tr_out(X X†)` whose inverse square root the generator takes is PSD. -/
theorem T18_ptraceFst_psd (W : Matrix (o × i) (o × i) R) (hW : W.PosSemidef) :
    (ptraceFst W).PosSemidef := by
  have : ptraceFst W = ∑ x : o, W.submatrix (Prod.mk x) (Prod.mk x) := by
    ext j k
    simp [ptraceFst, Matrix.sum_apply]
  rw [this]
  exact posSemidef_sum _ fun x _ => hW.submatrix _

theorem T18_ptraceSnd_psd (W : Matrix (i × o) (i × o) R) (hW : W.PosSemidef) :
    (ptraceSnd W).PosSemidef := by
  have : ptraceSnd W = ∑ x : o, W.submatrix (fun j => (j, x)) (fun j => (j, x)) := by
    ext j k
    simp [ptraceSnd, Matrix.sum_apply]
  rw [this]
  exact posSemidef_sum _ fun x _ => hW.submatrix _

/-- every Kraus family gives a positive semidefinite Choi matrix (complete positivity), in both
orders. -/
theorem T18_choi_psd (K : t → Matrix o i R) : (choiRow K).PosSemidef ∧ (choiCol K).PosSemidef := by
  rw [T18_choi_row_gram, T18_choi_column_gram]
  exact ⟨posSemidef_self_mul_conjTranspose _, posSemidef_self_mul_conjTranspose _⟩

/-- `random_quantum_channel(measure=None | "haar")`: the Choi matrix `vec(U) vec(U)†` of a unitary
(`U†U = 1` suffices) is a CPTP map, in both orders. -/
theorem T18_unitary_channel_cptp (U : Matrix o i R) (hU : Uᴴ * U = 1) :
    ((choiRow fun _ : Unit => U).PosSemidef ∧ ptraceFst (choiRow fun _ : Unit => U) = 1)
      ∧ ((choiCol fun _ : Unit => U).PosSemidef ∧ ptraceSnd (choiCol fun _ : Unit => U) = 1) := by
  have hsum : ∑ _s : Unit, Uᴴ * U = 1 := by simp [hU]
  exact ⟨⟨(T18_choi_psd _).1, (T18_choi_tp_iff fun _ : Unit => U).1.mpr hsum⟩,
         ⟨(T18_choi_psd _).2, (T18_choi_tp_iff fun _ : Unit => U).2.mpr hsum⟩⟩

end choi

/-- the flattened form the code uses: with `numpy.reshape(C, (d,d,d,d))` (row-major: index
`a·d + j ↔ (a, j)`, Mathlib's `finProdFinEquiv`), `einsum("ijik->jk")` is `ptraceFst` and
`einsum("jiki->jk")` is `ptraceSnd`. -/
theorem T18_ptrace_flat {d : Nat} {R : Type} [CommRing R]
    (M : Matrix (Fin (d * d)) (Fin (d * d)) R) (j k : Fin d) :
    ptraceFst (M.submatrix finProdFinEquiv finProdFinEquiv) j k
        = ∑ x : Fin d, M (finProdFinEquiv (x, j)) (finProdFinEquiv (x, k))
      ∧ ptraceSnd (M.submatrix finProdFinEquiv finProdFinEquiv) j k
        = ∑ x : Fin d, M (finProdFinEquiv (j, x)) (finProdFinEquiv (k, x))
      ∧ ((finProdFinEquiv (j, k) : Fin (d * d)) : Nat) = k + d * j :=
  ⟨rfl, rfl, rfl⟩

/-! ### the repaired column-order defect, as a witness

`W = X X†` with `X = diag(3, 1, 4, 0)` on `2 ⊗ 2` (index = (input, output), column order).
The defective code took `Y' = ptraceFst W = diag(25, 1)` (tracing the INPUT factor) and
`S' = Y'^{-1/2} = diag(1/5, 1)`, then `(S' ⊗ 1) W (S' ⊗ 1)`. -/

section witness

def Xw : Matrix (Fin 2 × Fin 2) (Fin 2 × Fin 2) ℚ :=
  Matrix.diagonal fun p => if p = (0, 0) then 3 else if p = (0, 1) then 1 else if p = (1, 0) then 4 else 0

def Sw : Matrix (Fin 2) (Fin 2) ℚ := Matrix.diagonal fun k => if k = 0 then 1 / 5 else 1

theorem Xw_gram : Xw * Xwᴴ
    = Matrix.diagonal fun p => if p = (0, 0) then 9 else if p = (0, 1) then 1 else if p = (1, 0) then 16 else 0 := by
  unfold Xw
  rw [diagonal_conjTranspose, diagonal_mul_diagonal]
  congr 1
  funext p
  rcases p with ⟨x, y⟩
  fin_cases x <;> fin_cases y <;> (simp; try norm_num)

/-- the defective `S'` does satisfy its own (row-order) equation `S'·ptraceFst W·S' = 1` … -/
theorem T18_bcsz_column_defect_own_equation : Sw * ptraceFst (Xw * Xwᴴ) * Sw = 1 := by
  rw [Xw_gram]
  ext j k
  fin_cases j <;> fin_cases k <;>
    simp [Sw, ptraceFst, mul_apply, Fin.sum_univ_two, diagonal_apply] <;> norm_num

/-- … but NOT the hypothesis of the column theorem (`S·ptraceSnd W·S = 1`) … -/
theorem T18_bcsz_column_defect_hypothesis_fails : Sw * ptraceSnd (Xw * Xwᴴ) * Sw ≠ 1 := by
  rw [Xw_gram]
  intro h
  have h00 := congrFun (congrFun h 0) 0
  simp [Sw, ptraceSnd, mul_apply, Fin.sum_univ_two, diagonal_apply] at h00
  norm_num at h00

/-- … and the resulting map is not trace preserving: `Tr_out` of its Choi matrix is not `1`. -/
theorem T18_bcsz_column_defect_not_tp :
    ptraceSnd ((Sw ⊗ₖ (1 : Matrix (Fin 2) (Fin 2) ℚ)) * (Xw * Xwᴴ) * (Sw ⊗ₖ (1 : Matrix (Fin 2) (Fin 2) ℚ)))
      ≠ 1 := by
  rw [ptraceSnd_conj, Xw_gram]
  intro h
  have h00 := congrFun (congrFun h 0) 0
  simp [Sw, ptraceSnd, mul_apply, Fin.sum_univ_two, diagonal_apply] at h00
  norm_num at h00

/-- non-vacuity of the row theorem on the same data: `S'` is Hermitian and solves the row
equation, so the row-order construction with it IS a CPTP map. -/
example : Swᴴ = Sw ∧ Sw * ptraceFst (Xw * Xwᴴ) * Sw = 1 := by
  refine ⟨?_, T18_bcsz_column_defect_own_equation⟩
  unfold Sw
  rw [diagonal_conjTranspose]
  congr 1

/-- non-vacuity of the column theorem: `W = X X†` with `X = 1` (`Y = 2·1` … over ℝ one takes
`S = 1/√2`); over ℚ: `X = diag(3,4,4,3)`, `ptraceSnd W = 25·1`, `S = 1/5`. -/
example :
    let X : Matrix (Fin 2 × Fin 2) (Fin 2 × Fin 2) ℚ :=
      Matrix.diagonal fun p => if p.1 = p.2 then 3 else 4
    let S : Matrix (Fin 2) (Fin 2) ℚ := Matrix.diagonal fun _ => 1 / 5
    Sᴴ = S ∧ S * ptraceSnd (X * Xᴴ) * S = 1 := by
  intro X S
  constructor
  · simp only [S]; rw [diagonal_conjTranspose]; congr 1
  · have hX : X * Xᴴ = Matrix.diagonal fun p => if p.1 = p.2 then 9 else 16 := by
      simp only [X]
      rw [diagonal_conjTranspose, diagonal_mul_diagonal]
      congr 1
      funext p
      rcases p with ⟨x, y⟩
      fin_cases x <;> fin_cases y <;> (simp; try norm_num)
    rw [hX]
    ext j k
    fin_cases j <;> fin_cases k <;>
      simp [S, ptraceSnd, mul_apply, Fin.sum_univ_two, diagonal_apply] <;> norm_num

end witness

/-! ### `random_density_matrix`: Bures and Ginibre metrics -/

section bures
variable {n r : Type} [Fintype n] [Fintype r] [DecidableEq n] [DecidableEq r]

/-- the matrix the Bures branch normalises: `((1+U) A) ((1+U) A)† = (1+U) A A† (1+U)†`. -/
theorem T18_bures_form {R : Type} [CommRing R] [StarRing R] (U : Matrix n n R) (A : Matrix n r R) :
    ((1 + U) * A) * ((1 + U) * A)ᴴ = (1 + U) * (A * Aᴴ) * (1 + Uᴴ) := by
  rw [conjTranspose_mul, conjTranspose_add, conjTranspose_one]
  simp only [Matrix.mul_assoc]

variable {K : Type} [Field K] [StarRing K]

/-- **Bures density matrix: Hermitian, unit trace** (whenever the normalising trace ≠ 0). -/
theorem T18_bures_hermitian_trace_one (U : Matrix n n K) (A : Matrix n r K)
    (ht : trace ((1 + U) * (A * Aᴴ) * (1 + Uᴴ)) ≠ 0) :
    ((trace ((1 + U) * (A * Aᴴ) * (1 + Uᴴ)))⁻¹ • ((1 + U) * (A * Aᴴ) * (1 + Uᴴ)))ᴴ
        = (trace ((1 + U) * (A * Aᴴ) * (1 + Uᴴ)))⁻¹ • ((1 + U) * (A * Aᴴ) * (1 + Uᴴ))
      ∧ trace ((trace ((1 + U) * (A * Aᴴ) * (1 + Uᴴ)))⁻¹ • ((1 + U) * (A * Aᴴ) * (1 + Uᴴ))) = 1 := by
  rw [← T18_bures_form U A] at ht ⊢
  have h := QV.Props.C18c.T18_density_from_ginibre ((1 + U) * A) ht
  exact ⟨h.1, h.2.1⟩

/-- **rank**: `c • (B A)(B A)†` has rank at most the number of columns of `A` — so
`rank=k` gives a state of rank ≤ k for `metric="bures"` (`B = 1+U`) and `"ginibre"` (`B = 1`). -/
theorem T18_density_rank_le (B : Matrix n n K) (A : Matrix n r K) (c : K) :
    (c • ((B * A) * (B * A)ᴴ)).rank ≤ Fintype.card r := by
  have h1 : (c • ((B * A) * (B * A)ᴴ)) = (c • (B * A)) * (B * A)ᴴ := by
    rw [Matrix.smul_mul]
  rw [h1]
  exact (rank_mul_le_right _ _).trans (rank_le_card_height _)

/-- … and at most the dimension, of course. -/
theorem T18_density_rank_le_dim (B : Matrix n n K) (A : Matrix n r K) (c : K) :
    (c • ((B * A) * (B * A)ᴴ)).rank ≤ Fintype.card n :=
  rank_le_card_width _

end bures

section buresPSD
open ComplexOrder
variable {n r : Type} [Fintype n] [Fintype r] [DecidableEq n] [DecidableEq r]
variable {𝕜 : Type} [RCLike 𝕜]

/-- **positivity** (ℝ or ℂ): the normalised matrix is positive semidefinite; its quadratic form
is `x† ρ x = tr⁻¹ · ‖((1+U)A)† x‖² ≥ 0`. -/
theorem T18_bures_psd (U : Matrix n n 𝕜) (A : Matrix n r 𝕜) :
    ((trace ((1 + U) * (A * Aᴴ) * (1 + Uᴴ)))⁻¹ • ((1 + U) * (A * Aᴴ) * (1 + Uᴴ))).PosSemidef := by
  rw [← T18_bures_form U A]
  have hpsd : (((1 + U) * A) * ((1 + U) * A)ᴴ).PosSemidef := posSemidef_self_mul_conjTranspose _
  have ht : 0 ≤ trace (((1 + U) * A) * ((1 + U) * A)ᴴ) := hpsd.trace_nonneg
  rcases ht.eq_or_lt with h0 | hpos
  · rw [← h0, _root_.inv_zero, zero_smul]; exact PosSemidef.zero
  · exact hpsd.smul (RCLike.inv_pos_of_pos hpos).le

/-- the quadratic form written out. -/
theorem T18_bures_quadratic_form (U : Matrix n n 𝕜) (A : Matrix n r 𝕜) (x : n → 𝕜) :
    star x ⬝ᵥ (((1 + U) * (A * Aᴴ) * (1 + Uᴴ)) *ᵥ x)
      = star (((1 + U) * A)ᴴ *ᵥ x) ⬝ᵥ (((1 + U) * A)ᴴ *ᵥ x) := by
  rw [← T18_bures_form U A, star_mulVec, conjTranspose_conjTranspose, ← mulVec_mulVec,
    dotProduct_mulVec]

/-- the Hilbert–Schmidt / Ginibre state `A A† / tr` is the case `U = 0` … of the same algebra
with `B = 1`; it is positive semidefinite as well. -/
theorem T18_ginibre_psd (A : Matrix n r 𝕜) : ((trace (A * Aᴴ))⁻¹ • (A * Aᴴ)).PosSemidef := by
  have hpsd : (A * Aᴴ).PosSemidef := posSemidef_self_mul_conjTranspose _
  rcases hpsd.trace_nonneg.eq_or_lt with h0 | hpos
  · rw [← h0, _root_.inv_zero, zero_smul]; exact PosSemidef.zero
  · exact hpsd.smul (RCLike.inv_pos_of_pos hpos).le

end buresPSD

/-- non-vacuity for the Bures statement over ℂ: `U = 1`, `A = 1` on one dimension has
normalising trace `4 ≠ 0`. -/
example : trace ((1 + (1 : Matrix (Fin 1) (Fin 1) ℂ)) * ((1 : Matrix (Fin 1) (Fin 1) ℂ) * 1ᴴ)
    * (1 + (1 : Matrix (Fin 1) (Fin 1) ℂ)ᴴ)) ≠ 0 := by
  simp [trace, Fin.sum_univ_one, mul_apply]

/-- non-vacuity of `T18_bcsz_S_from_eigh`: `V = 1`, eigenvalues `(4, 9)`, `s = (1/2, 1/3)` over ℚ. -/
example : (1 : Matrix (Fin 2) (Fin 2) ℚ)ᴴ * 1 = 1 ∧ (1 : Matrix (Fin 2) (Fin 2) ℚ) * 1ᴴ = 1
    ∧ (∀ k : Fin 2, (![1 / 2, 1 / 3] : Fin 2 → ℚ) k * (![4, 9] : Fin 2 → ℚ) k * (![1 / 2, 1 / 3] : Fin 2 → ℚ) k = 1)
    ∧ ∀ k : Fin 2, star ((![1 / 2, 1 / 3] : Fin 2 → ℚ) k) = (![1 / 2, 1 / 3] : Fin 2 → ℚ) k := by
  refine ⟨by simp, by simp, ?_, fun k => rfl⟩
  intro k; fin_cases k <;> norm_num

/-- non-vacuity of `T18_unitary_channel_cptp` and `T18_choi_tp_iff`: a genuinely complex unitary. -/
example : (!![0, Complex.I; Complex.I, 0] : Matrix (Fin 2) (Fin 2) ℂ)ᴴ * !![0, Complex.I; Complex.I, 0] = 1 := by
  ext a b
  fin_cases a <;> fin_cases b <;> simp [Matrix.mul_apply, Fin.sum_univ_two, conjTranspose_apply]

end QV.Props.C18d
