/-
  C15 (continued) — `SymbolicHamiltonian.expectation_from_circuit`: the basis-rotation step.
  Model: QV/Model/HamilCirc.lean (measurement layer = one measurement per non-identity
  factor, on that factor's qubit in that factor's Pauli basis, whatever the written order;
  rotations H / (Y+Z)/√2 / none; frequency-weighted signs).  Lemmas: QV/Proofs/HamilCirc.lean.
-/
import QV.Proofs.HamilCirc
import Mathlib.Data.Complex.Basic
namespace QV.Props.C15
open QV

variable {α : Type} [CommRing α]

/-- **Measured value of a Pauli string = its expectation value**, for every written order
of the factors.  For a term whose non-identity factors sit on pairwise different qubits of
the register (any order: ascending, descending, mixed; identities anywhere; X, Y, Z mixed),
rotating every measured qubit into the basis of the Pauli *on that qubit* and weighting
the outcome probabilities by (−1)^(number of measured ones) gives
2^(number of rotated qubits) · ⟨ψ| P ψ⟩ (the rotations are kept un-normalised: each carries
√2), for every state ψ. -/
theorem T15_circuit_term {conj : α → α} {im : α} (hc : IsConj conj im) (n : Nat) (fs : List PFac)
    (hn : ((measurements fs).map (·.1)).Nodup) (hlt : ∀ m ∈ measurements fs, m.1 < n)
    (ψ : Lab → α) :
    measuredValue n conj im (measurements fs) ψ
      = 2 ^ rotCount (measurements fs) * expectState n conj (pauliWord im fs ψ) ψ := by
  rw [measuredValue_eq hc n _ hn hlt (measurements_ne_I fs), pauliWord_measurements]
  rfl

/-- non-vacuity: ℂ with complex conjugation and `Complex.I`. -/
example : IsConj (starRingEnd ℂ) Complex.I :=
  ⟨map_add _, map_mul _, map_one _, Complex.conj_I, Complex.I_mul_I⟩

/-- non-vacuity of the qubit hypotheses: `Z₁·X₀` (descending) on two qubits. -/
example : ((measurements [⟨.Z, 1⟩, ⟨.X, 0⟩]).map (·.1)).Nodup ∧
    ∀ m ∈ measurements [⟨.Z, 1⟩, ⟨.X, 0⟩], m.1 < 2 := by decide

/-- **The measurement layer does not depend on the written order**: permuting the factors
permutes the (qubit, basis) pairs — every qubit keeps the basis of its own Pauli. -/
theorem T15_circuit_layer_perm {fs fs' : List PFac} (h : fs.Perm fs') :
    (measurements fs).Perm (measurements fs') :=
  (h.filter _).map _

/-- every measured (qubit, basis) pair is a non-identity factor of the term, and conversely. -/
theorem T15_circuit_layer_mem (fs : List PFac) (q : Nat) (k : PKind) :
    (q, k) ∈ measurements fs ↔ k ≠ .I ∧ ∃ f ∈ fs, f.q = q ∧ f.kind = k := by
  unfold measurements nonId
  simp only [List.mem_map, List.mem_filter, Prod.mk.injEq]
  constructor
  · rintro ⟨f, ⟨hf, hid⟩, rfl, rfl⟩
    refine ⟨?_, f, hf, rfl, rfl⟩
    intro e
    simp [PFac.isId, e] at hid
  · rintro ⟨hk, f, hf, rfl, rfl⟩
    refine ⟨f, ⟨hf, ?_⟩, rfl, rfl⟩
    cases hkind : f.kind <;> simp [PFac.isId, hkind] at hk ⊢

/-- **The measured value does not depend on the written order** (factors on pairwise
different qubits). -/
theorem T15_circuit_order {conj : α → α} {im : α} (hc : IsConj conj im) (n : Nat)
    {fs fs' : List PFac} (h : fs.Perm fs')
    (hn : ((measurements fs).map (·.1)).Nodup) (hlt : ∀ m ∈ measurements fs, m.1 < n)
    (ψ : Lab → α) :
    measuredValue n conj im (measurements fs) ψ = measuredValue n conj im (measurements fs') ψ := by
  have hp := T15_circuit_layer_perm h
  have hn' : ((measurements fs').map (·.1)).Nodup := (hp.map _).nodup_iff.mp hn
  have hlt' : ∀ m ∈ measurements fs', m.1 < n := fun m hm => hlt m (hp.mem_iff.mpr hm)
  rw [measuredValue_eq hc n _ hn hlt (measurements_ne_I fs),
    measuredValue_eq hc n _ hn' hlt' (measurements_ne_I fs')]
  have e1 : rotCount (measurements fs) = rotCount (measurements fs') := by
    unfold rotCount
    exact (hp.filter _).length_eq
  have e2 : pWordM im (measurements fs) ψ = pWordM im (measurements fs') ψ := by
    unfold pWordM
    apply List.Perm.foldr_eq' hp
    intro a ha b hb φ
    by_cases e : a = b
    · subst e; rfl
    · have hne : b.1 ≠ a.1 := by
        intro hq
        exact e (List.inj_on_of_nodup_map hn ha hb hq.symm)
      exact g1_comm _ _ hne φ
  rw [e1, e2]

/-- **Zipping the sorted qubits with the bases in written order is wrong** (the planted
change): for `Z₁·X₀` the layer becomes {(0, Z), (1, X)} — each qubit measured in the other
qubit's basis — and on the product state |+⟩|1⟩ (every shot deterministic) the measured value
is 0 instead of −2·‖ψ‖² = −4. -/
theorem T15_circuit_sorted_zip_wrong :
    measurementsSortedZip [⟨.Z, 1⟩, ⟨.X, 0⟩] = [(0, .Z), (1, .X)] ∧
    measurements [⟨.Z, 1⟩, ⟨.X, 0⟩] = [(1, .Z), (0, .X)] ∧
    measuredValue (α := Int) 2 id 0 (measurements [⟨.Z, 1⟩, ⟨.X, 0⟩])
        (fun x => if x 1 then 1 else 0) = -4 ∧
    measuredValue (α := Int) 2 id 0 (measurementsSortedZip [⟨.Z, 1⟩, ⟨.X, 0⟩])
        (fun x => if x 1 then 1 else 0) = 0 := by
  refine ⟨by decide, by decide, by decide, by decide⟩

end QV.Props.C15
