/-
  C15 — symbolic and dense Hamiltonians denote the same operator.
  Property theorems only (helper lemmas: QV/Proofs/Hamil.lean).  Model: QV/Model/Hamil.lean.

  SPEC   `PForm.denote`  : the operator a Pauli polynomial denotes (free algebra over the
                           one-qubit symbols acting on functions of basis labels);
  MODEL  `dense`         : `SymbolicHamiltonian._get_symbol_matrix`;
         `STerm.*`       : `SymbolicTerm` (`matrix`, `__call__`);
         `expand`, `TermHam` : the term list and `apply_gates`.
-/
import QV.Proofs.Hamil
namespace QV.Props.C15
open QV

variable {α : Type} [CommSemiring α]

/-- every symbol of the form sits on a qubit of the `n`-qubit register. -/
def wf (n : Nat) : PForm α → Prop
  | .const _  => True
  | .sym s    => s.q < n
  | .add a b  => wf n a ∧ wf n b
  | .mul a b  => wf n a ∧ wf n b
  | .pow a _  => wf n a
  | .smul _ a => wf n a

/-- **Dense route = operator.**  For every form (sums, products, powers, scalar multiples,
constants, several factors on one qubit, any 2×2 symbol matrices, any coefficients) on an
`n`-qubit register, the matrix computed by the `_get_symbol_matrix` recursion, applied to
a state, is the operator the form denotes applied to that state. -/
theorem T15_dense_denotes (n : Nat) (f : PForm α) (h : wf n f) (ψ : Lab → α) :
    mulVec n (dense n f) ψ = f.denote ψ := by
  induction f generalizing ψ with
  | const c =>
    funext x
    simp only [dense, PForm.denote, mulVec_mSmul, mulVec_mId]
  | sym s => exact mulVec_fullMatrix n s h ψ
  | add a b iha ihb =>
    funext x
    simp only [dense, PForm.denote, mulVec_mAdd, iha h.1, ihb h.2]
  | mul a b iha ihb =>
    simp only [dense, PForm.denote, mulVec_mMul, iha h.1, ihb h.2]
  | pow a k iha =>
    have e : mulVec n (dense n a) = a.denote := funext fun φ => iha h φ
    simp only [dense, PForm.denote, mulVec_mPow, e]
  | smul c a iha =>
    funext x
    simp only [dense, PForm.denote, mulVec_mMul, mulVec_mSmul, mulVec_mId, iha h]

/-- non-vacuity: i·X₀·Z₀ on one qubit is well formed and its dense matrix is Y. -/
example : wf 1 (PForm.mul (.const (2 : Int)) (.mul (.sym (symX 0)) (.sym (symZ 0)))) :=
  ⟨trivial, Nat.zero_lt_one, Nat.zero_lt_one⟩

/-- **Dense route on density matrices**: `matrix @ ρ` acts column by column as the operator. -/
theorem T15_dense_denotes_dm (n : Nat) (f : PForm α) (h : wf n f) (ρ : DM α) (x y : Lab) :
    mMul n (dense n f) ρ x y = f.denote (fun r => ρ r y) x := by
  rw [← T15_dense_denotes n f h]
  rfl

/-- **Term-by-term application = the term's operator**: `SymbolicTerm.__call__` (factor
gates applied one after the other, rightmost factor first, then the coefficient) is the
coefficient times the product of the factors in the written order — also when several
non-commuting factors sit on one qubit. -/
theorem T15_term_apply (t : STerm α) (ψ : Lab → α) : t.apply ψ = t.denote ψ := by
  funext x
  simp only [STerm.apply, STerm.denote, List.foldl_reverse]

/-- the density-matrix call (`apply_gate_half_density_matrix` factor by factor) acts on
every column as the state-vector call. -/
theorem T15_term_apply_dm (t : STerm α) (ρ : DM α) (x y : Lab) :
    t.applyDM ρ x y = t.apply (fun r => ρ r y) x := by
  have key : ∀ (fs : List (PSym α)) (σ : DM α),
      (fs.foldl (fun s f => applyLeft f.gate s) σ) x y
        = (fs.foldl (fun s f => applyGate f.gate s) (fun r => σ r y)) x := by
    intro fs
    induction fs with
    | nil => intro σ; rfl
    | cons f fs ih => intro σ; simp only [List.foldl_cons]; rw [ih]; rfl
  simp only [STerm.applyDM, STerm.apply, key]

/-- **Matrix algebra denotes operator algebra** (dense `Hamiltonian.__add__`, `__mul__`
by a scalar, `__matmul__`; with `T15_dense_denotes` also `SymbolicHamiltonian._compose`). -/
theorem T15_algebra_add (n : Nat) (A B : DM α) (ψ : Lab → α) (x : Lab) :
    mulVec n (mAdd A B) ψ x = mulVec n A ψ x + mulVec n B ψ x := mulVec_mAdd n A B ψ x

theorem T15_algebra_smul (n : Nat) (c : α) (A : DM α) (ψ : Lab → α) (x : Lab) :
    mulVec n (mSmul c A) ψ x = c * mulVec n A ψ x := mulVec_mSmul n c A ψ x

theorem T15_algebra_matmul (n : Nat) (A B : DM α) (ψ : Lab → α) :
    mulVec n (mMul n A B) ψ = mulVec n A (mulVec n B ψ) := mulVec_mMul n A B ψ

theorem T15_algebra_pow (n : Nat) (A : DM α) (k : Nat) (ψ : Lab → α) :
    mulVec n (mPow n A k) ψ = iter (mulVec n A) k ψ := mulVec_mPow n A k ψ

/-- `h1 @ h2`, `h1 + h2`, `c * h` of symbolic Hamiltonians (forms composed by `_compose`)
have the dense matrices of the corresponding matrix operations' operators. -/
theorem T15_compose_matmul (n : Nat) (f g : PForm α) (hf : wf n f) (hg : wf n g) (ψ : Lab → α) :
    mulVec n (dense n (.mul f g)) ψ = mulVec n (dense n f) (mulVec n (dense n g) ψ) := by
  rw [T15_dense_denotes n (.mul f g) ⟨hf, hg⟩, T15_dense_denotes n f hf, T15_dense_denotes n g hg]
  rfl

end QV.Props.C15
