/-
  C09 (second part) — statements of Props/C09.lean that were only stated are proved here:

    * `T09_dag`              = `T09_dag_statement`: in the model of `_create_dag` (with its
                               `saturated_qubits` rule) two blocks that share a qubit are
                               joined by a directed path;
    * `T09_dag_linear_extension`, `T09_dag_order_accepted`, `T09_dag_order_operator`:
                               every order of the blocks that respects all edges of the DAG
                               (every topological order; also of any graph with the same
                               reachability, e.g. the transitive reduction qibo keeps) keeps
                               the relative order of blocks sharing a qubit, is accepted by
                               the order checker and has the input's operator;
    * `T09_pick_complete`, `T09_pick_iff_trace`: the order checker accepts EXACTLY the
                               reorderings that commute gates on disjoint qubits;
    * `T09_star_guards`      = `T09_star_guards_statement`: every action of the
                               StarConnectivityRouter loop satisfies its guard on the star
                               graph, so `T09_edges` applies to it unconditionally
                               (`T09_star_edges`, `T09_star_sound`).
-/
import QV.Proofs.RouterDag
import QV.Proofs.RouterStar

set_option linter.unusedSectionVars false
set_option linter.unusedVariables false

namespace QV.Props.C09
open QV QV.Router QV.Props.C05

variable {α : Type} [CommSemiring α]

/-! ### `_create_dag` is complete -/

/-- **DAG completeness** (was `T09_dag_statement`, stated only): for every list of qubit
    pairs, any two blocks i < j that share a qubit are connected by a directed path
    i → … → j of `dagEdges` — the `saturated_qubits` early exit never loses a dependency. -/
theorem T09_dag : T09_dag_statement := by
  intro pairs hp i j q hij hj hqi hqj
  exact dag_reach pairs hp (j - i - 1) i j q (by omega) hj hqi hqj

/-- every order that respects all edges of a graph `E'` in which every edge of the model
    DAG is a path (the DAG itself, its transitive reduction, …) lists two blocks that
    share a qubit in their original relative order. -/
theorem T09_dag_linear_extension (pairs : List (List Nat))
    (hp : ∀ p ∈ pairs, ∃ a b, a ≠ b ∧ p = [a, b])
    (E' : List (Nat × Nat)) (hE : ∀ e ∈ dagEdges 0 pairs, Reach E' e.1 e.2)
    (ord : List Nat) (hres : Respects E' ord)
    (i j q : Nat) (hij : i < j) (hj : j < pairs.length)
    (hqi : q ∈ pairs.getD i []) (hqj : q ∈ pairs.getD j []) :
    ord.idxOf i < ord.idxOf j := by
  have hr : Reach (dagEdges 0 pairs) i j := T09_dag pairs hp i j q hij hj hqi hqj
  have lift : ∀ {a b}, Reach (dagEdges 0 pairs) a b → Reach E' a b := by
    intro a b h
    induction h with
    | edge he => exact hE _ he
    | trans _ _ ih1 ih2 => exact Reach.trans ih1 ih2
  exact reach_idx hres (lift hr)

/-- the order checker is complete: if every qubit sees the same gate sequence in `inp` and
    `out`, `pickCheck` accepts. -/
theorem T09_pick_complete (inp out : List RGate) (h₁ : ∀ g ∈ inp, g.qs ≠ [])
    (h₂ : ∀ g ∈ out, g.qs ≠ [])
    (h : ∀ q, proj RGate.qs q inp = proj RGate.qs q out) : pickCheck inp out = true :=
  pickCheck_of_proj out inp h₁ h₂ h

/-- the order checker decides Mazurkiewicz trace equivalence: it accepts exactly the lists
    obtained from the input by repeatedly exchanging adjacent gates on disjoint qubits. -/
theorem T09_pick_iff_trace (inp out : List RGate) (h₁ : ∀ g ∈ inp, g.qs ≠ [])
    (h₂ : ∀ g ∈ out, g.qs ≠ []) :
    pickCheck inp out = true ↔ TraceEq RGate.qs inp out :=
  pickCheck_iff_traceEq h₁ h₂

/-- **Every topological order is accepted.**  Blocks `bs` on the qubit pairs `pairs`
    (every gate of block i acts inside pair i), `ord` any permutation of the block indices
    that respects the edges of the DAG: executing the blocks in the order `ord` is accepted
    by the order checker against the block list in its original order. -/
theorem T09_dag_order_accepted (bs : List (List RGate)) (pairs : List (List Nat)) (ord : List Nat)
    (hp : ∀ p ∈ pairs, ∃ a b, a ≠ b ∧ p = [a, b])
    (hlen : pairs.length = bs.length)
    (hin : ∀ i g, g ∈ bs.getD i [] → ∀ q ∈ g.qs, q ∈ pairs.getD i [])
    (hne : ∀ b ∈ bs, ∀ g ∈ b, g.qs ≠ [])
    (hperm : ord.Perm (List.range bs.length))
    (hres : Respects (dagEdges 0 pairs) ord) :
    pickCheck bs.flatten (execOrder bs ord) = true := by
  have hne1 : ∀ g ∈ bs.flatten, g.qs ≠ [] := by
    intro g hg
    obtain ⟨b, hb, hgb⟩ := List.mem_flatten.1 hg
    exact hne b hb g hgb
  apply T09_pick_complete _ _ hne1
  · intro g hg
    unfold execOrder at hg
    obtain ⟨b, hb, hgb⟩ := List.mem_flatten.1 hg
    obtain ⟨i, hi, rfl⟩ := List.mem_map.1 hb
    have hil : i < bs.length := by simpa using hperm.subset hi
    have : bs.getD i [] ∈ bs := by
      simp [List.getD_eq_getElem?_getD, hil]
    exact hne _ this g hgb
  · exact order_proj bs pairs ord hp hlen hin hperm hres

/-- … hence every execution order the routers may pick (Sabre's front layer, ShortestPaths'
    topological generations: any linear extension of the DAG) has the operator of the block
    list, which has the operator of the input whenever the block decomposition is accepted
    by the checker (`T09_order_sound`, `T09_blocks_accepted`). -/
theorem T09_dag_order_operator (mats : Nat → Nat → Nat → α)
    (bs : List (List RGate)) (pairs : List (List Nat)) (ord : List Nat)
    (hp : ∀ p ∈ pairs, ∃ a b, a ≠ b ∧ p = [a, b])
    (hlen : pairs.length = bs.length)
    (hin : ∀ i g, g ∈ bs.getD i [] → ∀ q ∈ g.qs, q ∈ pairs.getD i [])
    (hne : ∀ b ∈ bs, ∀ g ∈ b, g.qs ≠ [] ∧ g.qs.Nodup)
    (hperm : ord.Perm (List.range bs.length))
    (hres : Respects (dagEdges 0 pairs) ord) (ψ : Lab → α) :
    runCircuit (bs.flatten.map (den mats)) ψ = runCircuit ((execOrder bs ord).map (den mats)) ψ := by
  have hacc := T09_dag_order_accepted bs pairs ord hp hlen hin
    (fun b hb g hg => (hne b hb g hg).1) hperm hres
  refine (T09_order_sound mats _ _ hacc ?_).2 ψ
  intro g hg
  obtain ⟨b, hb, hgb⟩ := List.mem_flatten.1 hg
  exact (hne b hb g hgb).2

/-! ### StarConnectivityRouter: the guards hold -/

/-- **Star guards** (was `T09_star_guards_statement`, stated only): on the star graph with
    centre `mid`, every action generated by the StarConnectivityRouter loop satisfies its
    guard — every inserted SWAP and every executed two-qubit gate involves the centre. -/
theorem T09_star_guards : T09_star_guards_statement := by
  intro n mid queue as hmid hq h
  exact starTrace_guards hmid queue (init n) as (Inv_init n) hq h

/-- connectivity of the star router's output without any hypothesis on the run. -/
theorem T09_star_edges (n mid : Nat) (queue : List RGate) (s : RState) (hmid : mid < n)
    (hq : ∀ g ∈ queue, g.qs.Nodup ∧ ∀ q ∈ g.qs, q < n)
    (h : starRoute n mid queue = some s) :
    ∀ g ∈ s.routed, gateOk (starEdges n mid) g = true := by
  obtain ⟨as, ht, hs, _⟩ := T09_star_is_run n mid queue s h
  rw [hs]
  exact T09_edges n _ as _ (T09_star_guards n mid queue as hmid hq ht)
    (fun m hm => by
      have := (List.mem_filter.1 hm).2
      simp only [isFinalMeas, Bool.and_eq_true] at this
      exact this.1)

/-- **The star router is sound**: whenever it returns, (a) every two-qubit gate of its
    output involves the centre, (b) output = P · input with P the relabelling by the
    reported layout — provided the executed order (gates in place, final measurements
    deferred to the end) is accepted by the checker, i.e. no later gate touches a final
    measurement's qubits —, (c) the layout is a bijection. -/
theorem T09_star_sound (n mid : Nat) (mats : Nat → Nat → Nat → α) (queue : List RGate)
    (s : RState) (hmid : mid < n)
    (hq : ∀ g ∈ queue, g.qs.Nodup ∧ ∀ q ∈ g.qs, q < n)
    (h : starRoute n mid queue = some s)
    (hp : pickCheck queue s.executed = true) :
    (∀ g ∈ s.routed, gateOk (starEdges n mid) g = true) ∧
    (∀ ψ : Lab → α, runCircuit (s.routed.map (den mats)) ψ
        = fun y => runCircuit (queue.map (den mats)) ψ (pull (look (finalLayout s)) y)) ∧
    Inv n s := by
  obtain ⟨as, ht, hs, _⟩ := T09_star_is_run n mid queue s h
  have hg := T09_star_guards n mid queue as hmid hq ht
  have hm : ∀ m ∈ queue.filter isFinalMeas, m.meas = true := fun m hm => by
    have := (List.mem_filter.1 hm).2
    simp only [isFinalMeas, Bool.and_eq_true] at this
    exact this.1
  have := T09_routing_sound n (starEdges n mid) mats queue (queue.filter isFinalMeas) as hg hm
    (fun g hgm => (hq g hgm).1) (by rw [← hs]; exact hp)
  simp only at this
  rw [← hs] at this
  exact ⟨this.1, this.2.1, this.2.2.1⟩

/-! ### non-vacuity -/

/-- the DAG of three blocks on a line, one topological order, and its acceptance. -/
example : Respects (dagEdges 0 [[0, 1], [2, 3], [1, 2]]) [1, 0, 2] := by
  intro e he
  have : dagEdges 0 [[0, 1], [2, 3], [1, 2]] = [(0, 2), (1, 2)] := by decide
  rw [this] at he
  simp at he
  rcases he with rfl | rfl <;> decide

example : execOrder [[⟨5, false, [0, 1]⟩], [⟨6, false, [2, 3]⟩, ⟨7, false, [3]⟩], [⟨8, false, [1, 2]⟩]] [1, 0, 2]
    = [⟨6, false, [2, 3]⟩, ⟨7, false, [3]⟩, ⟨5, false, [0, 1]⟩, ⟨8, false, [1, 2]⟩] := by decide

/-- an order that does not respect the edge 0 → 2 is rejected by the checker. -/
example : pickCheck [⟨5, false, [0, 1]⟩, ⟨6, false, [2, 3]⟩, ⟨8, false, [1, 2]⟩]
    (execOrder [[⟨5, false, [0, 1]⟩], [⟨6, false, [2, 3]⟩], [⟨8, false, [1, 2]⟩]] [2, 0, 1]) = false := by
  decide

/-- the hypotheses of `T09_star_sound` hold on a concrete call (centre 2, one SWAP). -/
example : ∃ s, starRoute 5 2 [⟨7, false, [0, 1]⟩, ⟨1, true, [0, 1, 3]⟩] = some s ∧
    pickCheck [⟨7, false, [0, 1]⟩, ⟨1, true, [0, 1, 3]⟩] s.executed = true := by
  refine ⟨_, rfl, ?_⟩
  decide

end QV.Props.C09
