/-
  C18b — classical-distribution helpers of `qibo.quantum_info.utils`:
  `hamming_weight`, `hamming_distance` (bit strings and integers through `f"{n:b}"`),
  `total_variation_distance` (½·Σ|p_i − q_i|) and the sum-of-squares algebra behind
  `hellinger_distance` / `hellinger_fidelity`.

  All theorems are about the executable model `QV.Model.ClassicalDist` (the functions the
  correspondence driver runs) and hold for every list length / every natural number.
-/
import QV.Proofs.ClassicalDist
import Mathlib.Algebra.BigOperators.Group.Finset.Piecewise
import Mathlib.Algebra.Order.BigOperators.Group.Finset
import Mathlib.Data.Rat.Defs
import Mathlib.Algebra.Order.Ring.Rat
import Mathlib.Algebra.Order.Field.Rat
import Mathlib.Tactic.NormNum
import Mathlib.Tactic.LinearCombination
set_option linter.unusedSectionVars false
set_option linter.unusedSimpArgs false
namespace QV.Props.C18b
open QV.CD

/-! ### Hamming weight -/

/-- the weight is the number of `true` entries. -/
theorem T18_weight_eq_count (l : List Bool) : hammingWeightBits l = l.count true :=
  weight_eq_count l

/-- the weight never exceeds the string length. -/
theorem T18_weight_le_length (l : List Bool) : hammingWeightBits l ≤ l.length := by
  rw [weight_eq_count]; exact List.count_le_length

/-- the weight is additive under concatenation. -/
theorem T18_weight_append (l₁ l₂ : List Bool) :
    hammingWeightBits (l₁ ++ l₂) = hammingWeightBits l₁ + hammingWeightBits l₂ := by
  simp [weight_eq_count]

/-- `return_indexes=True`: `k` is reported iff position `k` holds a `1`. -/
theorem T18_onesIdx_mem (l : List Bool) (k : Nat) : k ∈ onesIdx l ↔ l[k]? = some true := by
  simpa [onesIdx] using mem_onesIdxFrom 0 k l

/-- the reported index list has exactly `weight` entries (the two return modes agree). -/
theorem T18_onesIdx_length (l : List Bool) : (onesIdx l).length = hammingWeightBits l := rfl

/-- `f"{n:b}"` read back as a binary numeral is `n` (most significant digit first). -/
theorem T18_bitsOfNat_roundtrip (n : Nat) :
    (bitsOfNat n).foldl (fun acc b => 2 * acc + (if b then 1 else 0)) 0 = n := by
  have key : ∀ l : List Bool,
      l.reverse.foldl (fun acc b => 2 * acc + (if b then 1 else 0)) 0 = ofBitsLE l := by
    intro l
    induction l with
    | nil => rfl
    | cons b l ih =>
      rw [List.reverse_cons, List.foldl_append, ih]
      simp [ofBitsLE]; omega
  unfold bitsOfNat
  by_cases h : n = 0
  · subst h; rfl
  · simp only [h, if_false]
    rw [key, ofBitsLE_bitsLE]

/-- `f"{n:b}"` has no leading zero for `n > 0`. -/
theorem T18_bitsOfNat_head (n : Nat) (h : n ≠ 0) : (bitsOfNat n).head? = some true := by
  simp only [bitsOfNat, h, if_false, List.head?_reverse]
  exact bitsLE_getLast n h

example : (5 : Nat) ≠ 0 := by decide

/-- binary recursion of the integer Hamming weight. -/
theorem T18_weightNat_bit (m : Nat) (b : Bool) :
    hammingWeightNat (2 * m + (if b then 1 else 0))
      = hammingWeightNat m + (if b then 1 else 0) := by
  rw [weightNat_eq_count, weightNat_eq_count]
  by_cases h : 2 * m + (if b then 1 else 0) = 0
  · have hm : m = 0 := by omega
    subst hm
    cases b <;> simp_all [bitsLE_zero]
  · rw [bitsLE_pos _ h]
    have h1 : (2 * m + (if b then 1 else 0)) / 2 = m := by
      cases b
      · simp
      · simp only [if_true]; omega
    have h2 : ((2 * m + (if b then 1 else 0)) % 2 == 1) = b := by
      cases b <;> simp
    rw [h1, h2]
    cases b <;> simp

/-- the integer Hamming weight is the population count: the number of set binary digits
    below any bound `N` with `n < 2^N`. -/
theorem T18_weightNat_eq_popcount (n N : Nat) (h : n < 2 ^ N) :
    hammingWeightNat n = ((Finset.range N).filter (fun k => n.testBit k = true)).card := by
  rw [← count_bitsK N n h, bitsK, List.count_eq_countP, List.countP_map,
    List.countP_eq_length_filter, ← List.toFinset_card_of_nodup
      ((List.nodup_range).filter _)]
  congr 1
  ext k
  simp

example : (22 : Nat) < 2 ^ 5 := by decide

/-- … in particular with `N = Nat.size n`, the exact number of binary digits. -/
theorem T18_weightNat_eq_popcount_size (n : Nat) :
    hammingWeightNat n
      = ((Finset.range n.size).filter (fun k => n.testBit k = true)).card :=
  T18_weightNat_eq_popcount n n.size (Nat.lt_size_self n)

/-! ### Hamming distance on bit lists -/

theorem T18_hdist_comm (a b : List Bool) :
    hammingDistanceBits a b = hammingDistanceBits b a := by
  rw [hdist_eq_dist0, hdist_eq_dist0, dist0_comm, Nat.max_comm]

theorem T18_hdist_self (a : List Bool) : hammingDistanceBits a a = 0 := by
  rw [hdist_eq_dist0, dist0_self]

/-- general lengths: distance 0 iff the zero-padded strings coincide. -/
theorem T18_hdist_eq_zero_iff (a b : List Bool) :
    hammingDistanceBits a b = 0
      ↔ padLeft (max a.length b.length) a = padLeft (max a.length b.length) b := by
  rw [hdist_eq_dist0]
  apply dist0_eq_zero_iff
  rw [padLeft_length, padLeft_length]; omega

/-- equal lengths: distance 0 iff the strings are equal. -/
theorem T18_hdist_eq_zero_iff_of_length_eq (a b : List Bool) (h : a.length = b.length) :
    hammingDistanceBits a b = 0 ↔ a = b := by
  rw [hdist_eq_dist0_of_length_eq a b h]; exact dist0_eq_zero_iff a b h

example : ([true, false, true] : List Bool).length = [false, false, true].length := rfl

/-- triangle inequality, strings of arbitrary (different) lengths. -/
theorem T18_hdist_triangle (a b c : List Bool) :
    hammingDistanceBits a c ≤ hammingDistanceBits a b + hammingDistanceBits b c := by
  have hK1 : max a.length c.length ≤ max a.length (max b.length c.length) := by omega
  have hK2 : max a.length b.length ≤ max a.length (max b.length c.length) := by omega
  have hK3 : max b.length c.length ≤ max a.length (max b.length c.length) := by omega
  rw [hdist_eq_dist0_pad a c _ hK1, hdist_eq_dist0_pad a b _ hK2, hdist_eq_dist0_pad b c _ hK3]
  apply dist0_triangle <;> simp only [padLeft_length] <;> omega

theorem T18_hdist_le_length (a b : List Bool) :
    hammingDistanceBits a b ≤ max a.length b.length := by
  rw [hdist_eq_dist0]
  refine (dist0_le_length _ _).trans ?_
  rw [padLeft_length, padLeft_length]; omega

/-- the difference string has the padded length (so reported indexes are `< max`). -/
theorem T18_diffBits_length (a b : List Bool) :
    (diffBits a b).length = max a.length b.length := by
  simp only [diffBits, List.length_zipWith, padLeft_length]; omega

/-- equal lengths: the distance is the weight of the positionwise xor. -/
theorem T18_hdist_eq_weight_xor (a b : List Bool) (h : a.length = b.length) :
    hammingDistanceBits a b = hammingWeightBits (List.zipWith xor a b) := by
  rw [hdist_eq_dist0_of_length_eq a b h, weight_eq_count, dist0]

/-- both return modes of `hamming_distance` agree. -/
theorem T18_hdistIdx_length (a b : List Bool) :
    (hammingDistanceIdx a b).length = hammingDistanceBits a b := rfl

/-- `return_indexes=True`: `k` is reported iff the zero-padded strings differ at position `k`
(positions of the padded common-length strings). -/
theorem T18_hdistIdx_mem (a b : List Bool) (k : Nat) :
    k ∈ hammingDistanceIdx a b ↔ (diffBits a b)[k]? = some true :=
  T18_onesIdx_mem (diffBits a b) k

/-- every reported index is a position of the padded string. -/
theorem T18_hdistIdx_lt (a b : List Bool) (k : Nat) (h : k ∈ hammingDistanceIdx a b) :
    k < max a.length b.length := by
  rw [T18_hdistIdx_mem] at h
  rw [← T18_diffBits_length a b]
  exact (List.getElem?_eq_some_iff.mp h).1

/-! ### Hamming distance on naturals -/

/-- integers: the index list has `hamming_distance` entries and lists the positions where the
padded binary strings `f"{a:b}"`, `f"{b:b}"` differ. -/
theorem T18_hdistNatIdx (a b : Nat) :
    (hammingDistanceNatIdx a b).length = hammingDistanceNat a b
      ∧ ∀ k, k ∈ hammingDistanceNatIdx a b ↔ (diffBits (bitsOfNat a) (bitsOfNat b))[k]? = some true :=
  ⟨rfl, fun k => T18_hdistIdx_mem _ _ k⟩

/-- the index list of `a xor b` taken on its own is a different list in general: `0b11111` vs
`0b10101` differ at positions 1 and 3 of the 5-digit strings, while `f"{a ^ b:b}" = "1010"`
has its ones at positions 0 and 2. -/
theorem T18_hdistNatIdx_not_xor_positions :
    hammingDistanceNatIdx 31 21 = [1, 3] ∧ hammingWeightNatIdx (31 ^^^ 21) = [0, 2] := by decide +kernel


theorem T18_hdistNat_comm (a b : Nat) : hammingDistanceNat a b = hammingDistanceNat b a :=
  T18_hdist_comm _ _

theorem T18_hdistNat_self (a : Nat) : hammingDistanceNat a a = 0 := T18_hdist_self _

/-- for integers the string-based distance is the weight of the bitwise xor. -/
theorem T18_hdistNat_eq_weight_xor (a b : Nat) :
    hammingDistanceNat a b = hammingWeightNat (a ^^^ b) :=
  hdistNat_eq_weight_xor a b

/-- distance 0 between integers iff they are equal. -/
theorem T18_hdistNat_eq_zero_iff (a b : Nat) : hammingDistanceNat a b = 0 ↔ a = b := by
  constructor
  · intro h
    rw [T18_hdistNat_eq_weight_xor,
      T18_weightNat_eq_popcount _ _ (Nat.lt_size_self (a ^^^ b)), Finset.card_eq_zero,
      Finset.filter_eq_empty_iff] at h
    have hx : a ^^^ b = 0 := by
      apply Nat.eq_of_testBit_eq
      intro k
      rw [Nat.zero_testBit]
      by_cases hk : k < (a ^^^ b).size
      · have := h (Finset.mem_range.mpr hk)
        simpa using this
      · exact Nat.testBit_lt_two_pow
          (lt_of_lt_of_le (Nat.lt_size_self _) (Nat.pow_le_pow_right (by omega) (by omega)))
    exact Nat.xor_eq_zero_iff.mp hx
  · rintro rfl; exact T18_hdistNat_self a

/-- triangle inequality on integers. -/
theorem T18_hdistNat_triangle (a b c : Nat) :
    hammingDistanceNat a c ≤ hammingDistanceNat a b + hammingDistanceNat b c :=
  T18_hdist_triangle _ _ _

/-! ### total variation distance (`sumAbsDiff` = 2·TVD) -/

section tvd
variable {α : Type} [Field α] [LinearOrder α] [IsStrictOrderedRing α]

/-- the model's `max x (−x)` sum is the 1-norm Σ|p_i − q_i|. -/
theorem T18_tvd_eq_abs (p q : List α) :
    sumAbsDiff p q = (List.zipWith (fun x y => |x - y|) p q).sum :=
  sumAbsDiff_eq_absSum p q

theorem T18_tvd_comm (p q : List α) : sumAbsDiff p q = sumAbsDiff q p := by
  rw [sumAbsDiff_eq_absSum, sumAbsDiff_eq_absSum, absSum_comm]

theorem T18_tvd_nonneg (p q : List α) : 0 ≤ sumAbsDiff p q := by
  rw [sumAbsDiff_eq_absSum]; exact absSum_nonneg p q

theorem T18_tvd_self (p : List α) : sumAbsDiff p p = 0 := by
  rw [sumAbsDiff_eq_absSum, absSum_self]

theorem T18_tvd_eq_zero_iff (p q : List α) (h : p.length = q.length) :
    sumAbsDiff p q = 0 ↔ p = q := by
  rw [sumAbsDiff_eq_absSum]; exact absSum_eq_zero_iff p q h

theorem T18_tvd_triangle (p q r : List α) (h1 : p.length = q.length)
    (h2 : q.length = r.length) : sumAbsDiff p r ≤ sumAbsDiff p q + sumAbsDiff q r := by
  simp only [sumAbsDiff_eq_absSum]; exact absSum_triangle p q r h1 h2

/-- for probability vectors (entries ≥ 0, sum 1) the total variation distance
    ½·Σ|p_i − q_i| is at most 1. -/
theorem T18_tvd_le_one (p q : List α) (hp : ∀ x ∈ p, 0 ≤ x) (hq : ∀ y ∈ q, 0 ≤ y)
    (sp : p.sum = 1) (sq : q.sum = 1) : (1 / 2) * sumAbsDiff p q ≤ 1 := by
  have := absSum_le_sum_add_sum p q hp hq
  rw [sumAbsDiff_eq_absSum]
  rw [sp, sq] at this
  linarith

end tvd

/-- non-vacuity: two different distributions on three outcomes over ℚ. -/
example : ([1/2, 1/2, 0] : List ℚ).length = [1/4, 1/4, 1/2].length
    ∧ (∀ x ∈ ([1/2, 1/2, 0] : List ℚ), 0 ≤ x) ∧ (∀ x ∈ ([1/4, 1/4, 1/2] : List ℚ), 0 ≤ x)
    ∧ ([1/2, 1/2, 0] : List ℚ).sum = 1 ∧ ([1/4, 1/4, 1/2] : List ℚ).sum = 1
    ∧ sumAbsDiff ([1/2, 1/2, 0] : List ℚ) [1/4, 1/4, 1/2] = 1 := by
  refine ⟨rfl, ?_, ?_, ?_, ?_, ?_⟩
  · intro x hx; simp at hx; rcases hx with rfl | rfl <;> norm_num
  · intro x hx; simp at hx; rcases hx with rfl | rfl <;> norm_num
  · norm_num
  · norm_num
  · rw [T18_tvd_eq_abs]; norm_num [abs_of_nonneg, abs_of_nonpos]

/-! ### Hellinger algebra -/

section hell
variable {α : Type} [CommRing α]

/-- Σ(a_i − b_i)² = Σa_i² + Σb_i² − 2 Σ a_i b_i. -/
theorem T18_hellinger_sq (a b : List α) (h : a.length = b.length) :
    sumSqDiff a b = sumSq a + sumSq b - 2 * dot a b := by
  induction a generalizing b with
  | nil =>
    cases b with
    | nil => simp [sumSqDiff_nil_left, sumSq_nil, dot_nil_left]
    | cons y b => simp at h
  | cons x a ih =>
    cases b with
    | nil => simp at h
    | cons y b =>
      rw [sumSqDiff_cons, sumSq_cons, sumSq_cons, dot_cons, ih b (by simpa using h)]
      ring

theorem T18_hellinger_comm (a b : List α) : sumSqDiff a b = sumSqDiff b a := by
  induction a generalizing b with
  | nil => cases b <;> rfl
  | cons x a ih =>
    cases b with
    | nil => rfl
    | cons y b => rw [sumSqDiff_cons, sumSqDiff_cons, ih b]; ring

theorem T18_dot_comm (a b : List α) : dot a b = dot b a := by
  induction a generalizing b with
  | nil => cases b <;> rfl
  | cons x a ih =>
    cases b with
    | nil => rfl
    | cons y b => rw [dot_cons, dot_cons, ih b, mul_comm]

end hell

/-- Bhattacharyya form: for a_i = √p_i, b_i = √q_i with Σp = Σq = 1,
    1 − H² = 1 − ½ Σ(a_i − b_i)² = Σ a_i b_i, so `hellinger_fidelity` = (Σ√(p_i q_i))². -/
theorem T18_hellinger_bhattacharyya {α : Type} [Field α] (h2 : (2 : α) ≠ 0)
    (a b : List α) (h : a.length = b.length) (ha : sumSq a = 1) (hb : sumSq b = 1) :
    1 - (1 / 2) * sumSqDiff a b = dot a b := by
  rw [T18_hellinger_sq a b h, ha, hb]
  have h12 : (1 / 2 : α) * 2 = 1 := by simp [h2]
  linear_combination (dot a b - 1) * h12

/-- non-vacuity: a = (3/5, 4/5), b = (1, 0) over ℚ. -/
example : (2 : ℚ) ≠ 0 ∧ ([3/5, 4/5] : List ℚ).length = [1, 0].length
    ∧ sumSq ([3/5, 4/5] : List ℚ) = 1 ∧ sumSq ([1, 0] : List ℚ) = 1
    ∧ dot ([3/5, 4/5] : List ℚ) [1, 0] = 3/5 := by
  refine ⟨by norm_num, rfl, ?_, ?_, ?_⟩ <;> norm_num [sumSq, dot]

end QV.Props.C18b
