/-
  C02 — Density-matrix execution evolves the state as ρ ↦ U ρ U†.
  Property theorems only (proofs are thin wrappers of QV/Proofs/DMLemmas.lean).
  Model: QV/Model/Sim.lean (`applyLeft`, `applyRight`, `applyGateDM`, `runCircuitDM`).

  The scalars form an arbitrary commutative semiring `α`; the conjugation is an arbitrary
  map `conj : α → α` of which only additivity and multiplicativity are ever used (explicit
  hypotheses `hadd`, `hmul`).  `star` on any commutative star ring — in particular complex
  conjugation on ℂ — satisfies them (see `T02_execute_pure_star`).  No register size appears:
  every statement holds for all row/column labels, i.e. for every number of qubits.
-/
import Mathlib.Algebra.Star.Basic
import QV.Proofs.DMLemmas
namespace QV.Props.C02
open QV Finset

variable {α : Type} [CommSemiring α]

/-- one gate on a pure state: `G |ψ⟩⟨ψ| G† = |Gψ⟩⟨Gψ|`, where `Gψ` is the state-vector
application of the same gate. -/
theorem T02_pure_projector (conj : α → α) (hadd : ∀ a b, conj (a + b) = conj a + conj b)
    (hmul : ∀ a b, conj (a * b) = conj a * conj b) (g : MGate α) (ψ : Lab → α) :
    applyGateDM conj g (fun x y => ψ x * conj (ψ y))
      = fun x y => applyGate g ψ x * conj (applyGate g ψ y) :=
  applyGateDM_outer conj hadd hmul g ψ ψ

/-- density-matrix execution of a circuit on a pure input is the projector onto the
state-vector execution of the same circuit. -/
theorem T02_execute_pure (conj : α → α) (hadd : ∀ a b, conj (a + b) = conj a + conj b)
    (hmul : ∀ a b, conj (a * b) = conj a * conj b) (gs : List (MGate α)) (ψ : Lab → α) :
    runCircuitDM conj gs (fun x y => ψ x * conj (ψ y))
      = fun x y => runCircuit gs ψ x * conj (runCircuit gs ψ y) :=
  runCircuitDM_outer conj hadd hmul gs ψ ψ

/-- the same for a general rank-one operator `|ψ⟩⟨φ|` (these span all matrices). -/
theorem T02_execute_outer (conj : α → α) (hadd : ∀ a b, conj (a + b) = conj a + conj b)
    (hmul : ∀ a b, conj (a * b) = conj a * conj b) (gs : List (MGate α)) (ψ φ : Lab → α) :
    runCircuitDM conj gs (fun x y => ψ x * conj (φ y))
      = fun x y => runCircuit gs ψ x * conj (runCircuit gs φ y) :=
  runCircuitDM_outer conj hadd hmul gs ψ φ

/-- the left action `ρ ↦ G ρ` and the right action `ρ ↦ ρ G†` commute, so the order in which
the backend performs them is immaterial. -/
theorem T02_left_right_commute (conj : α → α) (g : MGate α) (ρ : DM α) :
    applyLeft g (applyRight conj g ρ) = applyRight conj g (applyLeft g ρ) :=
  applyLeft_applyRight_comm conj g ρ

/-- `ρ ↦ G ρ G†` is additive … -/
theorem T02_linear_add (conj : α → α) (g : MGate α) (ρ σ : DM α) :
    applyGateDM conj g (fun x y => ρ x y + σ x y)
      = fun x y => applyGateDM conj g ρ x y + applyGateDM conj g σ x y :=
  applyGateDM_add conj g ρ σ

/-- … and homogeneous in `ρ`. -/
theorem T02_linear_smul (conj : α → α) (g : MGate α) (c : α) (ρ : DM α) :
    applyGateDM conj g (fun x y => c * ρ x y) = fun x y => c * applyGateDM conj g ρ x y :=
  applyGateDM_smul conj g c ρ

/-- circuit-level linearity. -/
theorem T02_execute_linear_add (conj : α → α) (gs : List (MGate α)) (ρ σ : DM α) :
    runCircuitDM conj gs (fun x y => ρ x y + σ x y)
      = fun x y => runCircuitDM conj gs ρ x y + runCircuitDM conj gs σ x y :=
  runCircuitDM_add conj gs ρ σ

theorem T02_execute_linear_smul (conj : α → α) (gs : List (MGate α)) (c : α) (ρ : DM α) :
    runCircuitDM conj gs (fun x y => c * ρ x y)
      = fun x y => c * runCircuitDM conj gs ρ x y :=
  runCircuitDM_smul conj gs c ρ

/-- mixed states: the ensemble `Σᵢ pᵢ |ψᵢ⟩⟨ψᵢ|` is sent to `Σᵢ pᵢ |C ψᵢ⟩⟨C ψᵢ|`, i.e. density-matrix
execution is `ρ ↦ U ρ U†` with `U` the action of the state-vector execution. -/
theorem T02_execute_mixture {ι : Type} (conj : α → α)
    (hadd : ∀ a b, conj (a + b) = conj a + conj b)
    (hmul : ∀ a b, conj (a * b) = conj a * conj b) (gs : List (MGate α)) (s : Finset ι)
    (p : ι → α) (ψ : ι → Lab → α) :
    runCircuitDM conj gs (fun x y => ∑ i ∈ s, p i * (ψ i x * conj (ψ i y)))
      = fun x y => ∑ i ∈ s, p i * (runCircuit gs (ψ i) x * conj (runCircuit gs (ψ i) y)) :=
  runCircuitDM_mixture conj hadd hmul gs s p ψ

/-- trace preservation: `trN qs ρ x = Σ_{y : assignments of qs} ρ y y` (other bits from `x`).
For a well-formed gate whose targets are among `qs` and whose matrix satisfies `M† M = 1`,
`ρ ↦ G ρ G†` leaves it unchanged. -/
theorem T02_trace_preserved (conj : α → α) (qs : List Nat) (g : MGate α)
    (hn : g.targets.Nodup) (hd : ∀ c, c ∈ g.controls → c ∉ g.targets)
    (hsub : ∀ t, t ∈ g.targets → t ∈ qs)
    (hU : ∀ i j, i < 2 ^ g.targets.length → j < 2 ^ g.targets.length →
      ∑ k ∈ range (2 ^ g.targets.length), conj (g.mat k i) * g.mat k j = if i = j then 1 else 0)
    (ρ : DM α) (x : Lab) :
    trN qs (applyGateDM conj g ρ) x = trN qs ρ x :=
  trN_applyGateDM conj qs g hn hd hsub hU ρ x

/-- circuit-level trace preservation. -/
theorem T02_execute_trace_preserved (conj : α → α) (qs : List Nat) (gs : List (MGate α))
    (hgs : ∀ g ∈ gs, g.targets.Nodup ∧ (∀ c, c ∈ g.controls → c ∉ g.targets) ∧
      (∀ t, t ∈ g.targets → t ∈ qs) ∧
      ∀ i j, i < 2 ^ g.targets.length → j < 2 ^ g.targets.length →
        ∑ k ∈ range (2 ^ g.targets.length), conj (g.mat k i) * g.mat k j
          = if i = j then 1 else 0)
    (ρ : DM α) (x : Lab) :
    trN qs (runCircuitDM conj gs ρ) x = trN qs ρ x :=
  trN_runCircuitDM conj qs gs hgs ρ x

/-! ### non-vacuity -/

/-- the hypotheses on `conj` hold for `star` on every commutative star ring (e.g. ℂ). -/
theorem T02_execute_pure_star {β : Type} [CommSemiring β] [StarRing β] (gs : List (MGate β))
    (ψ : Lab → β) :
    runCircuitDM star gs (fun x y => ψ x * star (ψ y))
      = fun x y => runCircuit gs ψ x * star (runCircuit gs ψ y) :=
  T02_execute_pure star star_add star_mul' gs ψ

/-- Pauli-X local matrix over `ℤ` (real, so `conj = id`). -/
private def X : Nat → Nat → Int := fun i j => if i + j = 1 then 1 else 0

private theorem X_unitary : ∀ i j, i < 2 → j < 2 →
    ∑ k ∈ range 2, id (X k i) * X k j = if i = j then 1 else 0 := by
  intro i j hi hj
  have h : (i = 0 ∨ i = 1) ∧ (j = 0 ∨ j = 1) := by omega
  rcases h with ⟨rfl | rfl, rfl | rfl⟩ <;> decide

private def CX01 : MGate Int := { mat := X, targets := [1], controls := [0] }

/-- controlled-X on (control 0, target 1) preserves the trace over qubits [0, 1, 2] of every
`ρ`. -/
example (ρ : DM Int) (x : Lab) :
    trN [0, 1, 2] (applyGateDM id CX01 ρ) x = trN [0, 1, 2] ρ x :=
  T02_trace_preserved id [0, 1, 2] CX01 (by decide) (by decide) (by decide) X_unitary ρ x

/-- concrete evaluation: CX on |11⟩⟨11| gives |10⟩⟨10|; entry (10,10) is 1. -/
example :
    applyGateDM (α := Int) id CX01
      (fun x y => if x 0 && x 1 && y 0 && y 1 then 1 else 0)
      (fun q => q == 0) (fun q => q == 0) = 1 := by decide

end QV.Props.C02
