/-
  C05b — the table obligations about `dagger()` meet the circuit-level theorems of C05.

  `QV/Props/C05.lean` proves `T05_invert_run` from a hypothesis `hdag` ("every gate's dagger
  undoes it") about the simulator model; the generated obligations `C05_dagger_<G>`
  (`QV/Gen/C05_Ob*.lean`) are statements decided by the kernel about traced expression
  matrices.  `QV/Proofs/Bridge.lean` proves that both speak about the same operators; here
  the two halves are joined:

    * `T05_traced_circuit_is_matrix`, `T05_ob_check_run` : the bridge, restated for the audit
    * `T05_hdag_of_dagger_obligation` : `C05_dagger_<G>` + unitarity of the class matrix ⇒ `hdag`
    * `T05_invert_run_inst`, `T05_invert_run_mem` : `T05_invert_run` with `hdag` asked only of
      the gates that occur
    * `T05_undo_relabel` : an undoing pair stays one on every placement
    * `T05_invert_identity_of_classes`, `T05_invert_identity_of_obligations` : END TO END —
      a circuit all of whose gates are instances (any parameter values, any placement) of
      classes whose dagger obligation holds, followed by its `invert()`, is the identity on
      every state, for every circuit length.
  The generated file `QV/Gen/C05_Run.lean` instantiates the last theorem with the classes of
  the current qibo source on every run (`C05_invert_identity`).

  Modelling assumption stated once: a gate of a circuit is the class template (qubits
  `0 … k-1`, symbolic parameters) moved to its qubits, and `dagger()` of the placed gate is the
  placed `dagger()` of the template.  That `on_qubits` moves matrices faithfully is itself a
  generated obligation (`C05_onq_<G>`), and the numeric search of tools/props/C05.py runs the
  real `dagger()` on randomly placed gates.
-/
import QV.Props.C05
import QV.Proofs.Bridge
set_option linter.unusedSectionVars false
namespace QV.Props.C05
open QV

/-! ### the bridge, restated -/

/-- a list of traced gates on `n` template qubits, run by the simulator model on the `n`-qubit
    register, multiplies the `2^n`-vector of the state (qubit 0 most significant) by the
    evaluated product matrix of `prodOf` / `semProd` — all parameter values, all lists. -/
theorem T05_traced_circuit_is_matrix (θ : Nat → ℝ) (n : Nat) (gs : List SGate)
    (h : ∀ g ∈ gs, g.wf n = true) (ψ : Lab → ℂ) {i : Nat} (hi : i < 2 ^ n) :
    runCircuit (gs.map (SGate.toMGate θ)) ψ (Lab.ofIndex n i) =
      ∑ k ∈ Finset.range (2 ^ n), semProd θ n gs CMat.one i k * ψ (Lab.ofIndex n k) :=
  runCircuit_toMGate_table θ n gs (fun g hg => SGate.wf_sound (h g hg)) ψ hi

/-- … and on ANY register containing the template qubits: the bits of `x` outside `0 … n-1`
    are carried along unchanged. -/
theorem T05_traced_circuit_any_register (θ : Nat → ℝ) (n : Nat) (gs : List SGate)
    (h : ∀ g ∈ gs, g.wf n = true) (ψ : Lab → ℂ) (x : Lab) :
    runCircuit (gs.map (SGate.toMGate θ)) ψ x =
      ∑ k ∈ Finset.range (2 ^ n), semProd θ n gs CMat.one (Lab.toIndex n x) k *
        ψ (Lab.wIdx x (List.range n) k) :=
  runCircuit_toMGate_apply θ n gs (fun g hg => SGate.wf_sound (h g hg)) ψ x

/-- what a kernel-checked obligation means for the simulator: for all parameter values both
    gate lists act in the same way on every state of every register — exactly in exact mode,
    up to a unit-modulus scalar in phase mode. -/
theorem T05_ob_check_run (o : Ob) (hwf : o.wf = true) (h : o.check = true) (θ : Nat → ℝ) :
    ∃ c : ℂ, ‖c‖ = 1 ∧ (o.mode = .exact → c = 1) ∧ ∀ (ψ : Lab → ℂ) (x : Lab),
      runCircuit (o.ls.map (SGate.toMGate θ)) ψ x =
        c * runCircuit (o.rs.map (SGate.toMGate θ)) ψ x :=
  Ob.check_run o hwf h θ

/-- **`hdag` from the table**: a checked dagger obligation `⟦g.dagger()⟧ = ⟦g⟧ᴴ` and the
    unitarity of the class matrix give the hypothesis of `T05_invert_run` for that class, for
    all parameter values and all states of all registers. -/
theorem T05_hdag_of_dagger_obligation (o : Ob) (hs : o.dagShape = true) (h : o.check = true)
    (hu : unitaryCheck o.np (o.rs.headD default).mat = true) (θ : Nat → ℝ) (ψ : Lab → ℂ) :
    applyGate (o.dagGate.toMGate θ) (applyGate (o.baseGate.toMGate θ) ψ) = ψ :=
  Ob.daggerUndoes_of_check o hs h hu θ ψ

/-! ### `invert` with the hypothesis asked only of the gates that occur -/

section Generic
variable {α : Type} [Zero α] [Add α] [Mul α]

/-- a circuit given as a list of instances `is` (gate `G i`, its dagger `D i`): if every
    occurring dagger undoes its gate, circuit ++ reversed daggers is the identity. -/
theorem T05_invert_run_inst {ι : Type} (G D : ι → MGate α) (is : List ι)
    (h : ∀ i ∈ is, ∀ ψ : Lab → α, applyGate (D i) (applyGate (G i) ψ) = ψ) (ψ : Lab → α) :
    runCircuit (is.map G ++ (is.map D).reverse) ψ = ψ := by
  induction is generalizing ψ with
  | nil => rfl
  | cons i is ih =>
    have e : (i :: is).map G ++ ((i :: is).map D).reverse
        = G i :: ((is.map G ++ (is.map D).reverse) ++ [D i]) := by simp
    rw [e]
    show runCircuit ((is.map G ++ (is.map D).reverse) ++ [D i]) (applyGate (G i) ψ) = ψ
    rw [T05_add_run, ih (fun j hj => h j (List.mem_cons_of_mem _ hj))]
    exact h i (List.mem_cons_self ..) ψ

/-- `T05_invert_run` with `hdag` restricted to the gates of the circuit. -/
theorem T05_invert_run_mem (dag : MGate α → MGate α) (gs : List (MGate α))
    (hdag : ∀ g ∈ gs, ∀ ψ : Lab → α, applyGate (dag g) (applyGate g ψ) = ψ) (ψ : Lab → α) :
    runCircuit (gs ++ invertWith dag gs) ψ = ψ := by
  have := T05_invert_run_inst (fun g => g) dag gs hdag ψ
  simpa [invertWith] using this

/-- an undoing pair stays an undoing pair on every placement (σ a relabelling of the qubits
    with inverse τ; every injective assignment of finitely many qubits extends to one). -/
theorem T05_undo_relabel (σ τ : Nat → Nat) (hστ : ∀ q, σ (τ q) = q) (hτσ : ∀ q, τ (σ q) = q)
    (D G : MGate α) (h : ∀ ψ : Lab → α, applyGate D (applyGate G ψ) = ψ) (φ : Lab → α) :
    applyGate (D.relabel σ) (applyGate (G.relabel σ) φ) = φ := by
  have hσ : Function.Injective σ := fun a b e => by
    have := congrArg τ e
    rwa [hτσ, hτσ] at this
  have hφ : (fun y => (fun x => φ (pull τ x)) (pull σ y)) = φ := by
    funext y
    show φ (fun r => y (σ (τ r))) = φ y
    simp only [hστ]
  have h1 : applyGate (G.relabel σ) φ = fun y => applyGate G (fun x => φ (pull τ x)) (pull σ y) := by
    funext y
    have := T05_relabel_apply σ hσ G (fun x => φ (pull τ x)) y
    rwa [hφ] at this
  rw [h1]
  funext y
  rw [T05_relabel_apply σ hσ D (applyGate G (fun x => φ (pull τ x))) y, h]
  exact congrFun hφ y

end Generic

/-! ### end to end -/

/-- one gate of a circuit: its class (given by the class's dagger obligation), its parameter
    values, and the relabelling that moves the template qubits to the gate's qubits. -/
structure Inst where
  o : Ob
  θ : Nat → ℝ
  σ : Nat → Nat
  τ : Nat → Nat

/-- the gate as the simulator sees it. -/
noncomputable def Inst.gate (i : Inst) : MGate ℂ := (i.o.baseGate.toMGate i.θ).relabel i.σ
/-- what `dagger()` returns for it (the traced `dagger()` of the class, same values, same place). -/
noncomputable def Inst.dag (i : Inst) : MGate ℂ := (i.o.dagGate.toMGate i.θ).relabel i.σ

/-- `Circuit.invert()` on instance lists. -/
noncomputable def invertInst (is : List Inst) : List (MGate ℂ) := (is.map Inst.dag).reverse

theorem T05_invertInst_eq (is : List Inst) :
    invertInst is = (invertWith (fun g => g) (is.map Inst.dag)) := by
  simp [invertInst, invertWith]

/-- **end to end, over a table of classes**: if the dagger of every class of the table undoes
    the class gate, then for every circuit built from instances of these classes — any length,
    any parameter values, any placement — the circuit followed by its inverse is the identity
    on every state of every register. -/
theorem T05_invert_identity_of_classes (classes : List Ob)
    (hcl : ∀ o ∈ classes, o.DaggerUndoes) (is : List Inst)
    (his : ∀ i ∈ is, i.o ∈ classes ∧ (∀ q, i.σ (i.τ q) = q) ∧ (∀ q, i.τ (i.σ q) = q))
    (ψ : Lab → ℂ) :
    runCircuit (is.map Inst.gate ++ invertInst is) ψ = ψ := by
  refine T05_invert_run_inst Inst.gate Inst.dag is (fun i hi φ => ?_) ψ
  obtain ⟨hm, h1, h2⟩ := his i hi
  exact T05_undo_relabel i.σ i.τ h1 h2 _ _ (hcl i.o hm i.θ) φ

/-- **end to end, from the kernel checks**: the same with the hypothesis on the classes replaced
    by what the generated files establish (`Ob.check` and `unitaryCheck` decided by the kernel,
    the shape test `Ob.dagShape`). -/
theorem T05_invert_identity_of_obligations (is : List Inst)
    (his : ∀ i ∈ is, i.o.dagShape = true ∧ i.o.check = true ∧
      unitaryCheck i.o.np (i.o.rs.headD default).mat = true ∧
      (∀ q, i.σ (i.τ q) = q) ∧ (∀ q, i.τ (i.σ q) = q))
    (ψ : Lab → ℂ) :
    runCircuit (is.map Inst.gate ++ invertInst is) ψ = ψ := by
  refine T05_invert_run_inst Inst.gate Inst.dag is (fun i hi φ => ?_) ψ
  obtain ⟨hs, hc, hu, h1, h2⟩ := his i hi
  exact T05_undo_relabel i.σ i.τ h1 h2 _ _ (Ob.daggerUndoes_of_check i.o hs hc hu i.θ) φ

/-! ### non-vacuity -/

/-- a one-parameter class written by hand in the generated format: `U1(θ) = diag(1, e^{iθ})`,
    with the matrix `diag(1, e^{-iθ})` as its `dagger()`. -/
def demoU1 : Ob :=
  { np := 1, n := 1,
    ls := [{ mat := [[.rat 1 1, .rat 0 1], [.rat 0 1, .exp (.neg (.mul .I (.par 0)))]],
             targets := [0] }],
    rs := [{ mat := [[.rat 1 1, .rat 0 1], [.rat 0 1, .exp (.mul .I (.par 0))]],
             targets := [0], dagger := true }],
    mode := .exact }

theorem demoU1_check : demoU1.check = true := by decide +kernel
theorem demoU1_shape : demoU1.dagShape = true := by decide +kernel
theorem demoU1_unitary : unitaryCheck demoU1.np (demoU1.rs.headD default).mat = true := by
  decide +kernel
example : demoU1.wf = true := by decide +kernel

/-- the hypotheses of `T05_hdag_of_dagger_obligation` are satisfiable. -/
example (θ : Nat → ℝ) (ψ : Lab → ℂ) :
    applyGate (demoU1.dagGate.toMGate θ) (applyGate (demoU1.baseGate.toMGate θ) ψ) = ψ :=
  T05_hdag_of_dagger_obligation demoU1 demoU1_shape demoU1_check demoU1_unitary θ ψ

/-- … and those of the end-to-end theorem: U1(a) on qubit 5, U1(b) on qubit 2, then the inverse. -/
example (a b : ℝ) (ψ : Lab → ℂ) :
    let sw (p : Nat) : Nat → Nat := fun q => if q = 0 then p else if q = p then 0 else q
    let is : List Inst := [⟨demoU1, fun _ => a, sw 5, sw 5⟩, ⟨demoU1, fun _ => b, sw 2, sw 2⟩]
    runCircuit (is.map Inst.gate ++ invertInst is) ψ = ψ := by
  intro sw is
  have hsw : ∀ p q, sw p (sw p q) = q := by
    intro p q
    simp only [sw]
    by_cases h0 : q = 0
    · subst h0; by_cases hp : p = 0 <;> simp [hp]
    · by_cases hp : q = p
      · subst hp; simp [h0]
      · simp [h0, hp]
  refine T05_invert_identity_of_obligations is (fun i hi => ?_) ψ
  simp only [is, List.mem_cons, List.not_mem_nil, or_false] at hi
  rcases hi with rfl | rfl <;>
    exact ⟨demoU1_shape, demoU1_check, demoU1_unitary, hsw _, hsw _⟩

end QV.Props.C05
