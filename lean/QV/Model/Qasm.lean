/-
  Model of qibo's OpenQASM writer / reader on the *skeleton* of a circuit (C13).

  anchors:  models/circuit.py   Circuit.to_qasm, Circuit.add (measurement bookkeeping),
                                 Circuit.measurement_tuples
            models/_openqasm.py  QASMParser.to_circuit / _get_qubit / _get_gate /
                                 _get_measurement / _merge_measurements,  _qibo_gate_name

  A circuit skeleton is: number of qubits, the gate list (qasm label, qubits, parameters
  as opaque tokens — the float text is an oracle) and the measurement registers
  (`measurement_tuples`: name ↦ ordered qubits).  `exportLines` mirrors `to_qasm` after
  the three header lines, `importLines` mirrors the statement loop of `to_circuit`,
  `_merge_measurements` and the `Circuit.add` loop.  Import-free and executable.
-/
namespace QV.Qasm

/-- one gate of the queue: qasm label, qubits, parameter tokens -/
structure GateS where
  label : String
  qubits : List Nat
  params : List String
deriving DecidableEq, Repr, Inhabited

/-- a measurement register: name and ordered qubits (`M(*qubits, register_name=name)`) -/
structure Reg where
  name : String
  qubits : List Nat
deriving DecidableEq, Repr, Inhabited

/-- what the property observes of a circuit: `nqubits`, the non-measurement queue and
`measurement_tuples` (registers of the non-collapsing measurements, in order). -/
structure Circ where
  nqubits : Nat
  gates : List GateS
  regs : List Reg
deriving DecidableEq, Repr, Inhabited

/-- a qubit reference `name[idx]` -/
structure QRef where
  reg : String
  idx : Nat
deriving DecidableEq, Repr, Inhabited

/-- the statements the writer emits / the reader understands -/
inductive Line where
  | qreg (name : String) (size : Nat)
  | creg (name : String) (size : Nat)
  | gate (label : String) (params : List String) (qubits : List QRef)
  | measure (q : QRef) (reg : String) (idx : Nat)
deriving DecidableEq, Repr, Inhabited

/-! ### writer: `Circuit.to_qasm` -/

def qref (i : Nat) : QRef := ⟨"q", i⟩

def gateLine (g : GateS) : Line := .gate g.label g.params (g.qubits.map qref)

/-- `for i, q in enumerate(qubits): measure q[q] -> register[i];` starting at index `i` -/
def measLinesFrom (name : String) : Nat → List Nat → List Line
  | _, [] => []
  | i, q :: qs => .measure (qref q) name i :: measLinesFrom name (i + 1) qs

def measLines (r : Reg) : List Line := measLinesFrom r.name 0 r.qubits

def exportLines (c : Circ) : List Line :=
  .qreg "q" c.nqubits
    :: (c.regs.map fun r => Line.creg r.name r.qubits.length)
    ++ c.gates.map gateLine
    ++ c.regs.flatMap measLines

/-! ### reader: `QASMParser.to_circuit` -/

/-- python `dict.update({k: v})` on an insertion-ordered dict -/
def dictSet {β : Type} (d : List (String × β)) (k : String) (v : β) : List (String × β) :=
  match d with
  | [] => [(k, v)]
  | (k', v') :: rest => if k' = k then (k, v) :: rest else (k', v') :: dictSet rest k v

def dictGet {β : Type} (d : List (String × β)) (k : String) : Option β :=
  match d with
  | [] => none
  | (k', v) :: rest => if k' = k then some v else dictGet rest k

def dictPop {β : Type} (d : List (String × β)) (k : String) : List (String × β) :=
  match d with
  | [] => []
  | (k', v) :: rest => if k' = k then rest else (k', v) :: dictPop rest k

/-- queue entries before `_merge_measurements` -/
inductive Item where
  | gate (g : GateS)
  | meas (q : Nat) (reg : String)
deriving DecidableEq, Repr, Inhabited

structure St where
  nq : Nat := 0
  qregs : List (String × List Nat) := []
  cregs : List (String × List Nat) := []
  items : List Item := []
deriving DecidableEq, Repr, Inhabited

/-- `_get_qubit`: `self.q_registers[name][idx]` -/
def resolve (qregs : List (String × List Nat)) (r : QRef) : Option Nat :=
  match dictGet qregs r.reg with
  | none => none
  | some l => l[r.idx]?

def resolveAll (qregs : List (String × List Nat)) : List QRef → Option (List Nat)
  | [] => some []
  | r :: rs =>
    match resolve qregs r, resolveAll qregs rs with
    | some q, some qs => some (q :: qs)
    | _, _ => none

/-- one statement of the loop in `to_circuit` (`none` = the reader raises) -/
def step (s : St) : Line → Option St
  | .qreg name size =>
    some { s with qregs := dictSet s.qregs name ((List.range size).map (· + s.nq)),
                  nq := s.nq + size }
  | .creg name size => some { s with cregs := dictSet s.cregs name (List.range size) }
  | .gate label params qs =>
    match resolveAll s.qregs qs with
    | none => none
    | some qubits => some { s with items := s.items ++ [.gate ⟨label, qubits, params⟩] }
  | .measure q reg idx =>
    match resolve s.qregs q, dictGet s.cregs reg with
    | some qubit, some l =>
      if idx < l.length then
        some { s with cregs := dictSet s.cregs reg (l.set idx qubit),
                      items := s.items ++ [.meas qubit reg] }
      else none
    | _, _ => none

def parse : St → List Line → Option St
  | s, [] => some s
  | s, l :: ls =>
    match step s l with
    | none => none
    | some s' => parse s' ls

/-- entries of the final queue -/
inductive QItem where
  | gate (g : GateS)
  | meas (r : Reg)
deriving DecidableEq, Repr, Inhabited

/-- `_merge_measurements`: the first measurement of a register becomes the measurement
of the whole register (popped from `c_registers`), later ones are dropped. -/
def merge : List (String × List Nat) → List Item → List QItem
  | _, [] => []
  | cregs, .gate g :: rest => .gate g :: merge cregs rest
  | cregs, .meas _ reg :: rest =>
    match dictGet cregs reg with
    | some qs => .meas ⟨reg, qs⟩ :: merge (dictPop cregs reg) rest
    | none => merge cregs rest

def allLt (n : Nat) (l : List Nat) : Bool := l.all (· < n)

def disjointFrom (a b : List Nat) : Bool := a.all fun x => !b.contains x

/-- the `Circuit.add` loop restricted to what the property observes.  A measurement gate
must have distinct in-range qubits and a fresh register name; a later gate on a measured
qubit turns that measurement into a collapsing one (it leaves `measurement_tuples`).
Returns gates and registers in queue order (`none` = `add` raises). -/
def assemble (n : Nat) : List QItem → List GateS → List Reg → Option (List GateS × List Reg)
  | [], gs, rs => some (gs, rs)
  | .gate g :: rest, gs, rs =>
    if allLt n g.qubits then
      assemble n rest (gs ++ [g]) (rs.filter fun r => disjointFrom r.qubits g.qubits)
    else none
  | .meas r :: rest, gs, rs =>
    if allLt n r.qubits && r.qubits.Nodup && !(rs.map (·.name)).contains r.name then
      assemble n rest gs (rs ++ [r])
    else none

def finish (s : St) : Option Circ :=
  match assemble s.nq (merge s.cregs s.items) [] [] with
  | none => none
  | some (gs, rs) => some ⟨s.nq, gs, rs⟩

/-- `Circuit.from_qasm` on the statement list -/
def importLines (ls : List Line) : Option Circ :=
  match parse {} ls with
  | none => none
  | some s => finish s

/-! ### the name table of the reader: `_qibo_gate_name` -/

def qiboGateName (g : String) : String :=
  if g = "cx" then "CNOT"
  else if g = "id" then "I"
  else if g = "ccx" then "TOFFOLI"
  else if g = "iswap" then "iSWAP"
  else if g = "u" || g = "U" then "U3"
  else g.toUpper

/-- one row of the regenerated class table: class name, its `qasm_label`, its
`parameter_names`, the constructor's positional names after the qubits -/
structure NameRow where
  cls : String
  label : String
  paramNames : List String
  ctorParams : List String
deriving DecidableEq, Repr, Inhabited

/-- the reader resolves the label the writer emits to the class itself, and the
positional order `cls(*qubits, *params)` is the order of `gate.parameters` -/
def NameRow.ok (r : NameRow) : Bool :=
  qiboGateName r.label == r.cls && r.ctorParams.take r.paramNames.length == r.paramNames

def tableOk (t : List NameRow) : Bool :=
  t.all NameRow.ok && (t.map (·.label)).Nodup

/-! ### well-formedness of a skeleton (what `Circuit.add` / the `M` constructor enforce) -/

def Reg.wf (n : Nat) (r : Reg) : Bool :=
  allLt n r.qubits && r.qubits.Nodup && !r.qubits.isEmpty

def Circ.wf (c : Circ) : Bool :=
  c.gates.all (fun g => allLt c.nqubits g.qubits)
    && c.regs.all (Reg.wf c.nqubits)
    && (c.regs.map (·.name)).Nodup

/-! ### text form (for the line-by-line comparison with the real writer) -/

def QRef.text (r : QRef) : String := s!"{r.reg}[{r.idx}]"

def Line.text : Line → String
  | .qreg name size => s!"qreg {name}[{size}];"
  | .creg name size => s!"creg {name}[{size}];"
  | .gate label params qs =>
    let nm := if params.isEmpty then label else s!"{label}({", ".intercalate params})"
    s!"{nm} {",".intercalate (qs.map QRef.text)};"
  | .measure q reg idx => s!"measure {q.text} -> {reg}[{idx}];"

end QV.Qasm
