/-
  QV.Model.Dilation — the action of a Stinespring dilation (SPEC side of
  `kraus_to_stinespring` / `stinespring_to_kraus`, whose index models are in QV.Model.Superop).
  Import-free apart from the C17 index model.
-/
import QV.Model.Superop
namespace QV.Superop

variable {α : Type} [Zero α] [Add α] [Mul α]

/-- SPEC: `Tr_E [ S (ρ ⊗ |v⟩⟨v|) S† ]` for a `(d·e) × (d·e)` matrix `S` (system index major,
environment index minor, as `np.kron(K, outer(…))` lays it out), environment state `v ∈ α^e`:
`out[i,i'] = Σ_a Σ_{r,c} S[(i,a), r] · (ρ ⊗ v v†)[r, c] · conj S[(i',a), c]`. -/
def applyStinespring (conj : α → α) (d e : Nat) (S : Mat α) (v : Nat → α) (ρ : Mat α) : Mat α :=
  fun i i' => sumRange e (fun a => sumRange (d * e) (fun r => sumRange (d * e) (fun c =>
    S (i * e + a) r * (ρ (r / e) (c / e) * (v (r % e) * conj (v (c % e)))) * conj (S (i' * e + a) c))))

/-- the list `stinespring_to_kraus` returns. -/
def stinespringKrausList (e : Nat) (S : Mat α) (v : Nat → α) : List (Mat α) :=
  (List.range e).map (stinespringToKraus e S v)

/-- `Σ_α K_α† K_α`. -/
def krausGram (conj : α → α) (d : Nat) (Ks : List (Mat α)) : Mat α :=
  fun j j' => sumList Ks (fun K => sumRange d (fun i => conj (K i j) * K i j'))

/-- the default environment state `|0⟩`. -/
def env0 [One α] : Nat → α := fun k => if k = 0 then 1 else 0

end QV.Superop
