/-
  QV.Model.EncodingsB — executable model of the remaining state-preparation constructors of
  `models/encodings.py`: `phase_encoder`, `binary_encoder` (`_binary_encoder_hyperspherical`
  with `_intermediate_gate`, `_binary_encoder_hopf`), and `hamming_weight_encoder` for complex
  data (`_get_gate` with its RZ pair, `_get_phase_gate_correction`).  Mathlib-free.

  As in QV/Model/Encodings.lean a constructor is modelled by the gate list it appends to the
  circuit queue.  A descriptor names the gate class, the qubits, the extra controls (sorted) and
  SYMBOLIC angle indices:
      e : index of a "modulus" angle θ_e       (RBS(θ_e), RY(2θ_e), RX(2θ_e), U3(2θ_e, ·, ·))
      f : index of a "phase" angle   φ_f       (RZ(±φ_f) / RZ(2φ_f), U3(·, 2φ_f, 0))
  `BG.sem` gives every descriptor its meaning as a gate of the simulator model
  QV/Model/Sim.lean over abstract scalars (`Par2`): c e = cos θ_e, s e = sin θ_e,
  p f = exp(+iφ_f/2), m f = exp(−iφ_f/2), i = the imaginary unit, and the four unit phases of
  the last U3 gate of the complex hyperspherical encoder.
-/
import QV.Core.Bits
import QV.Model.Sim
import QV.Model.Encodings
namespace QV.Enc
open QV

inductive BK where
  | X | RX | RY | RZ | RBS | U3 | U3L
  deriving DecidableEq, Repr, Inhabited

/-- one entry of a circuit queue. -/
structure BG where
  kind : BK
  q0 : Nat
  q1 : Nat := 0
  e : Nat := 0
  f : Nat := 0
  /-- RZ: the parameter is `-φ_f` -/
  neg : Bool := false
  /-- RZ: the parameter is `2φ_f` -/
  dbl : Bool := false
  ctrl : List Nat := []
  deriving DecidableEq, Repr, Inhabited

def BK.name : BK → String
  | .X => "x" | .RX => "rx" | .RY => "ry" | .RZ => "rz" | .RBS => "rbs" | .U3 => "u3" | .U3L => "u3l"

/-- canonical text: `name qubits indices | controls`. -/
def BG.show (g : BG) : String :=
  let body := match g.kind with
    | .X => s!"x {g.q0}"
    | .RX | .RY => s!"{g.kind.name} {g.q0} {g.e}"
    | .RZ => s!"rz {g.q0} {if g.neg then "-" else "+"}{if g.dbl then "2*" else ""}{g.f}"
    | .RBS => s!"rbs {g.q0} {g.q1} {g.e}"
    | .U3 => s!"u3 {g.q0} {g.e} {g.f}"
    | .U3L => s!"u3l {g.q0} {g.e}"
  if g.ctrl.isEmpty then body else body ++ " c " ++ " ".intercalate (g.ctrl.map toString)

/-- the scalars a circuit needs. -/
structure Par2 (α : Type) where
  c : Nat → α           -- cos θ_e
  s : Nat → α           -- sin θ_e
  p : Nat → α           -- exp(+iφ_f/2)
  m : Nat → α           -- exp(−iφ_f/2)
  i : α                 -- imaginary unit
  lp0 : α               -- exp(+i(φ+λ)/2) of the last U3
  lm0 : α               -- exp(−i(φ+λ)/2)
  lp1 : α               -- exp(+i(φ−λ)/2)
  lm1 : α               -- exp(−i(φ−λ)/2)

section sem
variable {α : Type} [Zero α] [One α] [Neg α] [Mul α]

/-- 2×2 matrix `[[a, b], [c, d]]`. -/
def mat2 (a b c d : α) : Nat → Nat → α := fun i j =>
  if i = 0 then (if j = 0 then a else b) else (if j = 0 then c else d)

/-- qibo: `RY(2θ) = [[cos θ, −sin θ], [sin θ, cos θ]]`. -/
def matRY (c s : α) : Nat → Nat → α := mat2 c (-s) s c
/-- qibo: `RX(2θ) = [[cos θ, −i sin θ], [−i sin θ, cos θ]]`. -/
def matRX (i c s : α) : Nat → Nat → α := mat2 c (-(i * s)) (-(i * s)) c
/-- qibo: `RZ(φ) = diag(exp(−iφ/2), exp(iφ/2))`. -/
def matRZ (m p : α) : Nat → Nat → α := mat2 m 0 0 p
/-- qibo: `U3(2θ, φ, λ) = [[e₊* cos θ, −e₋* sin θ], [e₋ sin θ, e₊ cos θ]]`, `e± = exp(i(φ±λ)/2)`. -/
def matU3 (ep epc em emc c s : α) : Nat → Nat → α := mat2 (epc * c) (-(emc * s)) (em * s) (ep * c)

def BG.sem (P : Par2 α) (g : BG) : MGate α :=
  match g.kind with
  | .X => { mat := matX, targets := [g.q0], controls := g.ctrl }
  | .RX => { mat := matRX P.i (P.c g.e) (P.s g.e), targets := [g.q0], controls := g.ctrl }
  | .RY => { mat := matRY (P.c g.e) (P.s g.e), targets := [g.q0], controls := g.ctrl }
  | .RZ =>
    let p := if g.dbl then P.p g.f * P.p g.f else P.p g.f
    let m := if g.dbl then P.m g.f * P.m g.f else P.m g.f
    { mat := if g.neg then matRZ p m else matRZ m p, targets := [g.q0], controls := g.ctrl }
  | .RBS => { mat := matRBS (P.c g.e) (P.s g.e), targets := [g.q0, g.q1], controls := g.ctrl }
  | .U3 =>
    { mat := matU3 (P.p g.f * P.p g.f) (P.m g.f * P.m g.f) (P.p g.f * P.p g.f) (P.m g.f * P.m g.f)
        (P.c g.e) (P.s g.e), targets := [g.q0], controls := g.ctrl }
  | .U3L => { mat := matU3 P.lp0 P.lm0 P.lp1 P.lm1 (P.c g.e) (P.s g.e), targets := [g.q0], controls := g.ctrl }

end sem

/-! ## models/qft.py :: _DistributedQFT (the branch `QFT(n, accelerators=…)`) -/

/-- step `i1` of `_DistributedQFT`: in the first half (`i1 < ⌈n/2⌉`) the ladder of the plain QFT;
in the second half `SWAP(i1, n-1-i1)` first and then the ladder on the partner qubit
`i1eff = n-1-i1`, still with the angles `π/2^(i2-i1)` and the controls `i2 > i1`. -/
def qftDistStep (n i1 : Nat) : List GD :=
  let icrit := n / 2 + n % 2
  let eff := if i1 < icrit then i1 else n - i1 - 1
  (if i1 < icrit then [] else [({ kind := .SWAP, q0 := i1, q1 := eff } : GD)]) ++
    ({ kind := .H, q0 := eff } : GD) ::
      (List.range (n - i1 - 1)).map (fun d => { kind := .CU1, q0 := i1 + 1 + d, q1 := eff, e := d + 1 })

/-- queue of `QFT(n, accelerators=…)` (no final swaps: they are interleaved). -/
def qftDist (n : Nat) : List GD := (List.range n).flatMap (qftDistStep n)

/-! ## phase_encoder -/

/-- `gate(qubit, data[qubit])` for every qubit; `rot` is RX, RY or RZ. -/
def phaseEnc (n : Nat) (rot : BK) : List BG :=
  (List.range n).map (fun q => { kind := rot, q0 := q, e := q, f := q })

/-! ## loading chains: steps numbered in queue order -/

/-- the gates of one step of a loading chain, given the number of the step. -/
abbrev StepFn := Nat → List BG

def numberSteps (S : List StepFn) : List BG :=
  ((List.range S.length).zipWith (fun k (f : StepFn) => f k) S).flatten

/-- positions of the ones / zeros of a bit string. -/
def onesOf (bs : List Bool) : List Nat := (List.range bs.length).filter (fun i => bs.getD i false)
def zerosOf (bs : List Bool) : List Nat := (List.range bs.length).filter (fun i => !bs.getD i false)

/-- `_get_gate` for one step of the walk (`len(qubits_in) == len(qubits_out) == 1`): the RBS gate
between the qubit that loses the 1 and the one that gains it, for complex data followed by
`RZ(in, −φ)` and `RZ(out, φ)`, all controlled on `cs`.  Positions of the numpy array `p` are
qubits `n-1-p`. -/
def rbsStepOn (cplx : Bool) (a b : Nat) (cs : List Nat) : StepFn := fun k =>
  ({ kind := .RBS, q0 := a, q1 := b, e := k, ctrl := cs } : BG) ::
    (if cplx then
      [{ kind := .RZ, q0 := a, f := k, neg := true, ctrl := cs }, { kind := .RZ, q0 := b, f := k, ctrl := cs }]
    else [])

/-- the rotation that opens the next Hamming-weight block (`RY(q, 2θ)` / `U3(q, 2θ, 2φ, 0)`,
the very last one `U3(q, 2θ, φ', λ')`), controlled on `cs`. -/
def ryStep (cplx last : Bool) (q : Nat) (cs : List Nat) : StepFn := fun k =>
  [if cplx then { kind := if last then .U3L else .U3, q0 := q, e := k, f := k, ctrl := cs }
   else { kind := .RY, q0 := q, e := k, ctrl := cs }]

/-- description of one step of a loading chain: `add = false`: move the 1 from qubit `a` to
qubit `b` (controlled RBS, for complex data with its two RZ gates); `add = true`: write a 1 on
qubit `a` (controlled RY / U3; `last`: the very last U3 of the complex encoder). -/
structure ChainStep where
  add : Bool
  a : Nat
  b : Nat := 0
  cs : List Nat
  last : Bool := false
  deriving DecidableEq, Repr, Inhabited

def ChainStep.fn (cplx : Bool) (d : ChainStep) : StepFn :=
  if d.add then ryStep cplx d.last d.a d.cs else rbsStepOn cplx d.a d.b d.cs

/-- the step of the walk `st` (positions of the numpy array) as a chain step on qubits. -/
def moveStep (n : Nat) (st : Step) : ChainStep :=
  { add := false, a := n - 1 - st.src, b := n - 1 - st.dst,
    cs := sortNat (st.controls.map (fun c => n - 1 - c)) }

def rbsStep (n : Nat) (cplx : Bool) (st : Step) : StepFn := (moveStep n st).fn cplx

/-! ## binary_encoder, hyperspherical parametrisation -/

/-- position (in the numpy array) of the 1 that `_intermediate_gate` adds to the last string of
the weight-`w` block: the highest empty position for even `w`, the lowest for odd `w`. -/
def hsIdx (last : List Bool) (w : Nat) : Nat :=
  if w % 2 = 0 then (zerosOf last).getLast?.getD 0 else (zerosOf last).head?.getD 0

/-- the blocks of weight `w, w+1, …` (`fuel` of them): the walk of `hamming_weight_encoder(…,
full_hwp=True, optimize_controls=False, phase_correction=False, initial_string=init)` followed
by the gate of `_intermediate_gate`. -/
def hsChainFrom (n : Nat) : Nat → Nat → List Bool → List ChainStep
  | 0, _, _ => []
  | fuel + 1, w, init =>
    let last := ehrLast init
    let idx := hsIdx last w
    (ehrlich init).map (moveStep n) ++
      [{ add := true, a := n - 1 - idx, cs := sortNat ((onesOf last).map (fun c => n - 1 - c)),
         last := fuel == 0 }] ++
      hsChainFrom n fuel (w + 1) (last.set idx true)

/-- the steps of `binary_encoder(data, "hyperspherical")` on `n` qubits. -/
def hsChain (n : Nat) : List ChainStep :=
  { add := true, a := n - 1, cs := [], last := n == 1 } ::
    hsChainFrom n (n - 1) 1 (true :: List.replicate (n - 1) false)

def hsSteps (n : Nat) (cplx : Bool) : List StepFn := (hsChain n).map (·.fn cplx)

/-- queue of `binary_encoder(data, "hyperspherical")` on `n` qubits (`cplx`: complex dtype). -/
def hsEncoder (n : Nat) (cplx : Bool) : List BG := numberSteps (hsSteps n cplx)

/-- the basis states in the order in which the encoder writes them (numpy-array bit order:
position `p` is qubit `n-1-p`): `0^n`, the walks of weight `1 … n-1`, `1^n`. -/
def hsWalkFrom : Nat → Nat → List Bool → List (List Bool)
  | 0, _, init => [init]
  | fuel + 1, w, init =>
    ehrlichStrings init ++ hsWalkFrom fuel (w + 1) ((ehrLast init).set (hsIdx (ehrLast init) w) true)

def hsWalk (n : Nat) : List (List Bool) :=
  List.replicate n false :: hsWalkFrom (n - 1) 1 (true :: List.replicate (n - 1) false)

/-! ## binary_encoder, Hopf parametrisation -/

/-- bit of qubit `q` in the `l`-bit prefix number `j` (qubit 0 most significant). -/
def prefBit (l j q : Nat) : Bool := (j >>> (l - 1 - q)) % 2 == 1

/-- anticontrols of the pair `(j·0·0…0, j·1·0…0)` at level `l`: the prefix qubits holding 0 and
every qubit behind the target. -/
def hopfAnti (n l j : Nat) : List Nat :=
  (List.range n).filter (fun q => if q < l then !prefBit l j q else decide (l < q))

/-- `X` on the anticontrols, `RY(l)` controlled on every other qubit, `X` on the anticontrols. -/
def hopfBlock (n l j : Nat) : List BG :=
  let xs : List BG := (hopfAnti n l j).map (fun q => { kind := .X, q0 := q })
  xs ++ [{ kind := .RY, q0 := l, e := 2 ^ l - 1 + j, ctrl := (List.range n).filter (· ≠ l) }] ++ xs

def hopfLevel (n l : Nat) : List BG := (List.range (2 ^ l)).flatMap (hopfBlock n l)

/-- queue of `binary_encoder(data, "hopf")` on `n` qubits. -/
def hopf (n : Nat) : List BG := (List.range n).flatMap (hopfLevel n)

/-! ## hamming_weight_encoder, real or complex data -/

/-- `_get_phase_gate_correction`: `RZ(first empty qubit, 2φ)` controlled on the ones of the
last string. -/
def phaseCorrection (n : Nat) (last : List Bool) (f : Nat) : BG :=
  let qz := sortNat ((zerosOf last).map (fun c => n - 1 - c))
  { kind := .RZ, q0 := qz.headD 0, f := f, dbl := true,
    ctrl := sortNat ((onesOf last).map (fun c => n - 1 - c)) }

def hwSteps (n k : Nat) (optimize cplx : Bool) : List StepFn :=
  let last := n - 1
  let indices := (List.range (k - 1)).map (fun t => let j := k - 1 - t; choose (n - j) (k - j) - 1)
  let steps := ehrlich (defaultInit n k)
  (List.range steps.length).zipWith (fun idx (st : Step) =>
    let controls := sortNat (st.controls.map (fun c => last - c))
    let controls := if optimize then
        (controls.zip indices).filterMap (fun (c, i) => if i ≤ idx then some c else none)
      else controls
    rbsStepOn cplx (last - st.src) (last - st.dst) controls) steps

/-- queue of `hamming_weight_encoder(data, n, k, full_hwp, optimize_controls, phase_correction)`
with the default initial string. -/
def hwEncoderB (n k : Nat) (optimize fullHwp cplx phaseCorr : Bool) : List BG :=
  let xs : List BG := if fullHwp then [] else (List.range k).map (fun j => { kind := .X, q0 := n - 1 - j })
  let S := hwSteps n k optimize cplx
  xs ++ numberSteps S ++
    (if cplx && phaseCorr then [phaseCorrection n (ehrLast (defaultInit n k)) S.length] else [])

end QV.Enc
