/-
  QV.Model.KAK — the canonical two-qubit core of `transpiler/unitary_decompositions.py` as an
  expression matrix (import-free; used by the kernel obligations `C10_kak_*` regenerated from the
  real `cnot_decomposition` / `cnot_decomposition_light` on symbolic `hx, hy, hz`).

  `udEx` is `Ud(h) = B · diag(e^{-iλ₀}, e^{-iλ₁}, e^{-iλ₂}, e^{-iλ₃}) · B†` written out entrywise, with
  `B` the code's `bell_basis` and
      λ₀ = hx − hy + hz,  λ₁ = −hx + hy + hz,  λ₂ = hx + hy − hz,  λ₃ = −hx − hy − hz
  (the parametrisation `calculate_h_vector` inverts: hx = (λ₀+λ₂)/2, hy = (λ₁+λ₂)/2, hz = (λ₀+λ₁)/2).
  `QV/Proofs/KAK.lean` proves `udEx = exp(−i (hx XX + hy YY + hz ZZ))` over Mathlib matrices.
-/
import QV.Core.Oblig
namespace QV.KAK
open QV

/-- `e^{-i·l}` for a linear form `l` in the parameters. -/
def ph (l : Ex) : Ex := .exp (.mul .I (.neg l))

def lam0 : Ex := .add (.sub (.par 0) (.par 1)) (.par 2)
def lam1 : Ex := .add (.sub (.par 1) (.par 0)) (.par 2)
def lam2 : Ex := .sub (.add (.par 0) (.par 1)) (.par 2)
def lam3 : Ex := .neg (.add (.add (.par 0) (.par 1)) (.par 2))

def half (a : Ex) : Ex := .div a (.rat 2 1)
def z : Ex := .rat 0 1

/-- `Ud(hx, hy, hz)` (parameters 0, 1, 2) in the computational basis. -/
def udEx : List (List Ex) :=
  [[half (.add (ph lam0) (ph lam1)), z, z, half (.sub (ph lam0) (ph lam1))],
   [z, half (.add (ph lam2) (ph lam3)), half (.sub (ph lam2) (ph lam3)), z],
   [z, half (.sub (ph lam2) (ph lam3)), half (.add (ph lam2) (ph lam3)), z],
   [half (.sub (ph lam0) (ph lam1)), z, z, half (.add (ph lam0) (ph lam1))]]

/-- `calculate_h_vector` on the angles `λ_k = -angle(ud_diag[k])`. -/
def hVector {α : Type} [Add α] [Div α] [OfNat α 2] (l0 l1 l2 : α) : α × α × α :=
  ((l0 + l2) / 2, (l1 + l2) / 2, (l0 + l1) / 2)

end QV.KAK
