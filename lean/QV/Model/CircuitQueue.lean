/-
  QV.Model.CircuitQueue — executable model (Mathlib-free) of the CIRCUIT-LEVEL glue of
  `Circuit.invert`, `Circuit.copy`, `Circuit.__add__`, `Circuit.on_qubits` and of the
  measurement branch of `Circuit.add` with its basis-rotation bookkeeping
  (src/qibo/models/circuit.py, gates/abstract.py `Gate.dagger` / `Gate.on_qubits`,
  gates/measurements.py `M.__init__` / `M.on_qubits`, gates/special.py `FusedGate._dagger`),
  property C05.  Tied to /repo by the `queue` correspondence suite of tools/props/C05.py through
  lean/DriverC05.lean (exact comparison of entry lists with the real methods).

  A queue is a list of entries:
    * `gate`   an ordinary gate object: an opaque KERNEL `ker` (class + current parameter values;
               what the per-class `_dagger` acts on — the per-class facts are the kernel-checked
               table obligations of C05), `targets`, `controls` (`control_qubits`, a sorted tuple),
               `cb` (`is_controlled_by`), the `trainable` attribute and its mirror
               `init_kwargs["trainable"]`;
    * `meas`   a measurement object: targets, `register_name` (attribute and constructor
               argument), `collapse` (attribute and constructor argument),
               `init_kwargs["basis"]` (one code per target, 0 = Z) and `.basis`, the list of
               rotation gate OBJECTS it brings along;
    * `fused`  a FusedGate: its qubits and member gates.
  Object identity (`base is queued` in `Circuit.add`) is a `uid`; objects created by `dagger()`,
  `copy.copy`, `on_qubits` are never referenced by a measurement's `.basis`, they get uid 0; the
  rotation objects of a measurement built by the constructor get fresh uids from `St.next`.

  The register names / `collapse` flags / `measurements` list are kept by the C03 model
  `QV.CAdd` (QV/Model/CircuitAdd.lean), reused unchanged as the field `bk`.

  Not modelled: `nqubits` range checks, channels (invert refuses them), the bit-flip maps of M,
  sharing of `M.result`, and the effect of an `add` on OTHER circuits that hold the same M object
  (known finding K19-1).
-/
import QV.Model.CircuitAdd
namespace QV.CQ

/-! ### `sorted(...)` on qubit ids -/

def insertSorted (a : Nat) : List Nat → List Nat
  | [] => [a]
  | b :: l => if a ≤ b then a :: b :: l else b :: insertSorted a l

/-- insertion sort: `tuple(sorted(qubits))` -/
def isort : List Nat → List Nat
  | [] => []
  | a :: l => insertSorted a (isort l)

/-! ### entries -/

/-- an ordinary gate object (neither `M` nor `FusedGate`). -/
structure Gt where
  uid : Nat := 0
  /-- class and current parameter values -/
  ker : Nat
  targets : List Nat
  /-- `control_qubits` (sorted) -/
  controls : List Nat := []
  /-- `is_controlled_by` -/
  cb : Bool := false
  /-- `trainable` attribute of a ParametrizedGate (`none`: not parametrized) -/
  train : Option Bool := none
  /-- `init_kwargs["trainable"]` (`none`: no such key) -/
  kwTrain : Option Bool := none
deriving DecidableEq, Repr

def Gt.qubits (g : Gt) : List Nat := g.controls ++ g.targets

/-- a measurement object. -/
structure Ms (ν : Type) where
  targets : List Nat
  /-- `register_name` attribute -/
  name : Option ν := none
  /-- `init_kwargs["register_name"]` -/
  kwName : Option ν := none
  /-- `collapse` attribute -/
  collapse : Bool := false
  /-- `init_kwargs["collapse"]` -/
  kwCollapse : Bool := false
  /-- `init_kwargs["basis"]`, one code per target (0 = Z) -/
  kwBasis : List Nat := []
  /-- `.basis`: the rotation gate objects -/
  rot : List Gt := []
deriving DecidableEq

inductive Entry (ν : Type)
  | gate (g : Gt)
  | meas (m : Ms ν)
  | fused (qubits : List Nat) (members : List Gt)
deriving DecidableEq

variable {ν : Type}

def Entry.isMeas : Entry ν → Bool
  | .meas _ => true
  | _ => false

/-- `gate.qubits` as used by the collapse loop of `Circuit.add`. -/
def Entry.qubits : Entry ν → List Nat
  | .gate g => g.qubits
  | .meas m => m.targets
  | .fused qs _ => qs

/-- is the object with identity `u` this queue element, or a member of this fused gate? -/
def Entry.holds (u : Nat) : Entry ν → Bool
  | .gate g => g.uid == u
  | .meas _ => false
  | .fused _ ms => ms.any fun g => g.uid == u

/-- `any(base is queued or (isinstance(queued, FusedGate) and any(base is f for f in queued.gates)))` -/
def present (q : List (Entry ν)) (u : Nat) : Bool := q.any (Entry.holds u)

/-! ### the measurement constructor -/

/-- what `basis_cls(qubit).basis_rotation()` returns, apart from the qubit. -/
structure Tmpl where
  ker : Nat
  train : Option Bool := none
  kwTrain : Option Bool := none
deriving DecidableEq

/-- the loop `for qubit, basis_cls in zip(self.target_qubits, self.basis_gates)` of `M.__init__`;
    `rotOf code = none` : `basis_rotation()` is `None` (Z). -/
def mkRots (rotOf : Nat → Option Tmpl) : Nat → List Nat → List Nat → List Gt
  | u, t :: ts, b :: bs =>
    match rotOf b with
    | some r => { uid := u, ker := r.ker, targets := [t], train := r.train, kwTrain := r.kwTrain } ::
        mkRots rotOf (u + 1) ts bs
    | none => mkRots rotOf u ts bs
  | _, _, _ => []

/-- number of rotation gates a measurement with these constructor arguments brings along. -/
def rotCount (rotOf : Nat → Option Tmpl) : List Nat → List Nat → Nat
  | _ :: ts, b :: bs => (if (rotOf b).isSome then 1 else 0) + rotCount rotOf ts bs
  | _, _ => 0

/-- `gates.M(*ts, register_name=…, collapse=…, basis=…)`; `u` = first unused object id. -/
def Ms.build (rotOf : Nat → Option Tmpl) (u : Nat) (ts : List Nat) (kwName : Option ν)
    (kwCollapse : Bool) (kwBasis : List Nat) : Ms ν :=
  { targets := ts, name := kwName, kwName := kwName, collapse := kwCollapse,
    kwCollapse := kwCollapse, kwBasis := kwBasis, rot := mkRots rotOf u ts kwBasis }

/-! ### `Circuit.add` -/

structure St (ν : Type) where
  queue : List (Entry ν) := []
  /-- register names, `collapse` attributes, `circuit.measurements`, `has_collapse` (C03 model) -/
  bk : CAdd.St ν := {}
  /-- first unused object id -/
  next : Nat := 1

variable [DecidableEq ν]

/-- the ordinary-gate branch. -/
def addPlain (s : St ν) (e : Entry ν) : St ν :=
  { s with queue := s.queue ++ [e], bk := CAdd.addGate s.bk e.qubits }

/-- `for base in gate.basis: if not present: self.add(base)` -/
def addRots (s : St ν) (rs : List Gt) : St ν :=
  rs.foldl (fun s r => if present s.queue r.uid then s else addPlain s (.gate r)) s

/-- the `isinstance(gate, gates.M)` branch.  `rewrite` = the repaired behaviour: once the
    rotations are in the queue, `init_kwargs["basis"]` says Z.  `none` = `KeyError`. -/
def addMeas (rewrite : Bool) (dflt : Nat → ν) (s : St ν) (m : Ms ν) : Option (St ν) :=
  let s1 := addRots s m.rot
  let kwB := if rewrite && !m.rot.isEmpty then m.targets.map (fun _ => 0) else m.kwBasis
  match CAdd.addMeas dflt s1.bk m.targets m.name m.collapse with
  | none => none
  | some bk' =>
    let nm : Option ν := match m.name with
      | none => some (dflt (CAdd.nMeas s1.bk.queue))
      | some x => some x
    some { s1 with queue := s1.queue ++ [.meas { m with kwBasis := kwB, name := nm }], bk := bk' }

/-- what is handed to `add`. -/
inductive Step (ν : Type)
  /-- an existing ordinary / fused gate object -/
  | plain (e : Entry ν)
  /-- an existing measurement object -/
  | obj (m : Ms ν)
  /-- `M(*ts, **kwargs)` constructed on the spot, then added -/
  | build (ts : List Nat) (kwName : Option ν) (kwCollapse : Bool) (kwBasis : List Nat)

def addStep (rewrite : Bool) (dflt : Nat → ν) (rotOf : Nat → Option Tmpl) (s : St ν) :
    Step ν → Option (St ν)
  | .plain e => some (addPlain s e)
  | .obj m => addMeas rewrite dflt s m
  | .build ts kn kc kb =>
    let m : Ms ν := Ms.build rotOf s.next ts kn kc kb
    addMeas rewrite dflt { s with next := s.next + m.rot.length } m

def addSteps (rewrite : Bool) (dflt : Nat → ν) (rotOf : Nat → Option Tmpl) :
    St ν → List (Step ν) → Option (St ν)
  | s, [] => some s
  | s, x :: xs =>
    match addStep rewrite dflt rotOf s x with
    | none => none
    | some s' => addSteps rewrite dflt rotOf s' xs

/-- an existing queue element handed to `add` as it is. -/
def Step.same : Entry ν → Step ν
  | .meas m => .obj m
  | e => .plain e

/-- `M(*m.init_args, **m.init_kwargs)` on qubits `ts`. -/
def Step.rebuilt (m : Ms ν) (ts : List Nat) : Step ν := .build ts m.kwName m.kwCollapse m.kwBasis

/-! ### gate-level glue -/

/-- `Gate.on_qubits` / `ParametrizedGate.on_qubits`: rebuilt from the constructor arguments on the
    mapped qubits (targets AND controls), current parameters copied. -/
def Gt.onQubits (σ : Nat → Nat) (g : Gt) : Gt :=
  { uid := 0, ker := g.ker, targets := g.targets.map σ, controls := isort (g.controls.map σ),
    cb := g.cb, train := g.train.map (fun _ => g.kwTrain.getD true), kwTrain := g.kwTrain }

/-- what `Circuit.invert` appends for an ordinary gate: `gate.dagger()` (kernel daggered by the
    class, controls and `is_controlled_by` put back by `Gate.dagger`), then the `trainable` flag
    of a parametrized gate mirrored into attribute and constructor arguments.  `dfl k` = flags of
    the dagger of a non-parametrized gate with kernel `k` (e.g. iSWAP → fSim, not trainable). -/
def Gt.invertOf (dg : Nat → Nat) (dfl : Nat → Option Bool × Option Bool) (g : Gt) : Gt :=
  match g.train with
  | some t => { g with uid := 0, ker := dg g.ker, train := some t, kwTrain := g.kwTrain.map fun _ => t }
  | none => { g with uid := 0, ker := dg g.ker, train := (dfl g.ker).1, kwTrain := (dfl g.ker).2 }

/-- `gate.dagger()` of a member inside `FusedGate._dagger` (controls kept; the flags of members
    are not modelled: members carry `none`). -/
def Gt.daggerMember (dg : Nat → Nat) (g : Gt) : Gt := { g with uid := 0, ker := dg g.ker }

/-! ### `Circuit.invert` -/

/-- loop state of `invert`: steps for the new circuit so far, `skip_measurements`, `measurements`. -/
structure InvAcc (ν : Type) where
  steps : List (Step ν) := []
  skip : Bool := true
  trailing : List (Ms ν) := []

/-- body of `for gate in self.queue[::-1]`. -/
def invertStep (dg : Nat → Nat) (dfl : Nat → Option Bool × Option Bool) (a : InvAcc ν) :
    Entry ν → InvAcc ν
  | .meas m =>
    if a.skip then { a with trailing := a.trailing ++ [m] }
    else { a with steps := a.steps ++ [Step.rebuilt m m.targets] }  -- `M.dagger()` = rebuilt M
  | .gate g => { a with steps := a.steps ++ [.plain (.gate (g.invertOf dg dfl))], skip := false }
  | .fused qs ms =>
    { a with steps := a.steps ++ [.plain (.fused qs (ms.reverse.map (Gt.daggerMember dg)))],
             skip := false }

/-- everything `invert` hands to `new_circuit.add`, in order.  `repaired`: the final
    measurements are re-created from their constructor arguments (fix 82c92086c); before, the
    same objects were added again. -/
def invertPlan (repaired : Bool) (dg : Nat → Nat) (dfl : Nat → Option Bool × Option Bool)
    (q : List (Entry ν)) : List (Step ν) :=
  let a := q.reverse.foldl (invertStep dg dfl) {}
  a.steps ++ a.trailing.reverse.map fun m => if repaired then Step.rebuilt m m.targets else .obj m

def invert (repaired rewrite : Bool) (dflt : Nat → ν) (rotOf : Nat → Option Tmpl)
    (dg : Nat → Nat) (dfl : Nat → Option Bool × Option Bool) (q : List (Entry ν)) :
    Option (St ν) :=
  addSteps rewrite dflt rotOf {} (invertPlan repaired dg dfl q)

/-! ### `Circuit.copy`, `Circuit.__add__`, `Circuit.on_qubits` -/

/-- `copy(deep=False)`: the same objects added to a new circuit. -/
def copyShallow (rewrite : Bool) (dflt : Nat → ν) (rotOf : Nat → Option Tmpl)
    (q : List (Entry ν)) : Option (St ν) :=
  addSteps rewrite dflt rotOf {} (q.map Step.same)

/-- one element of `copy(deep=True)`; `none` = NotImplementedError (fused circuit). -/
def deepStep : Entry ν → Option (Step ν)
  | .fused _ _ => none
  | .meas m => some (Step.rebuilt m m.targets)
  | .gate g => some (.plain (.gate { g with uid := 0 }))   -- `copy.copy(gate)`

def mapM' {α β : Type} (f : α → Option β) : List α → Option (List β)
  | [] => some []
  | a :: l =>
    match f a, mapM' f l with
    | some b, some bs => some (b :: bs)
    | _, _ => none

def copyDeep (rewrite : Bool) (dflt : Nat → ν) (rotOf : Nat → Option Tmpl)
    (q : List (Entry ν)) : Option (St ν) :=
  match mapM' deepStep q with
  | none => none
  | some steps => addSteps rewrite dflt rotOf {} steps

/-- `c1 + c2` on the queues (the `init_kwargs` comparison is `Circ.add` below). -/
def concat (rewrite : Bool) (dflt : Nat → ν) (rotOf : Nat → Option Tmpl)
    (q1 q2 : List (Entry ν)) : Option (St ν) :=
  addSteps rewrite dflt rotOf {} ((q1 ++ q2).map Step.same)

/-- one element of the generator `Circuit.on_qubits`; `none` = NotImplementedError (special gate). -/
def onqStep (σ : Nat → Nat) : Entry ν → Option (Step ν)
  | .fused _ _ => none
  | .meas m => some (Step.rebuilt m (m.targets.map σ))
  | .gate g => some (.plain (.gate (g.onQubits σ)))

/-- `big.add(c.on_qubits(*qubits))` with `σ i = qubits[i]`. -/
def onQubitsInto (rewrite : Bool) (dflt : Nat → ν) (rotOf : Nat → Option Tmpl)
    (big : St ν) (σ : Nat → Nat) (q : List (Entry ν)) : Option (St ν) :=
  match mapM' (onqStep σ) q with
  | none => none
  | some steps => addSteps rewrite dflt rotOf big steps

/-- a circuit: constructor arguments (`init_kwargs`) and queue. -/
structure Circ (κ ν : Type) where
  kw : κ
  st : St ν

/-- `Circuit.__add__`: ValueError unless the constructor arguments agree; the result is built
    with the same arguments. -/
def Circ.add {κ : Type} [DecidableEq κ] (rewrite : Bool) (dflt : Nat → ν)
    (rotOf : Nat → Option Tmpl) (c1 c2 : Circ κ ν) : Option (Circ κ ν) :=
  if c1.kw = c2.kw then
    (concat rewrite dflt rotOf c1.st.queue c2.st.queue).map fun s => { kw := c1.kw, st := s }
  else none

/-! ### what is compared -/

/-- constructor-level content of an entry: object identities, the assigned register name and
    the mutable `collapse` attribute erased. -/
def Entry.erase : Entry ν → Entry ν
  | .gate g => .gate { g with uid := 0 }
  | .meas m => .meas { targets := m.targets, kwName := m.kwName, kwCollapse := m.kwCollapse,
                       kwBasis := m.kwBasis }
  | .fused qs ms => .fused qs (ms.map fun g => { g with uid := 0 })

def Step.erase : Step ν → Entry ν
  | .plain e => e.erase
  | .obj m => (Entry.meas m).erase
  | .build ts kn kc kb => .meas { targets := ts, kwName := kn, kwCollapse := kc, kwBasis := kb }

/-- number of ordinary gate entries of the queue acting on qubit `k` (basis rotations are such
    entries). -/
def gatesOn (q : List (Entry ν)) (k : Nat) : Nat :=
  q.countP fun e => !e.isMeas && e.qubits.contains k

end QV.CQ
