/-
  Materialisation of functions on labels as arrays (driver side) — qubit 0 is the most
  significant bit of the array index, as in qibo.
-/
import QV.Core.Bits
namespace QV

def tableOf {α : Type} (n : Nat) (f : Lab → α) : Array α :=
  Array.ofFn (n := 2 ^ n) (fun i => f (Lab.ofIndex n i.val))

def ofTable {α : Type} [Inhabited α] (n : Nat) (a : Array α) : Lab → α :=
  fun x => a[Lab.toIndex n x]!

def tableOf2 {α : Type} (n : Nat) (f : Lab → Lab → α) : Array α :=
  Array.ofFn (n := 2 ^ n * 2 ^ n) (fun i => f (Lab.ofIndex n (i.val / 2 ^ n)) (Lab.ofIndex n (i.val % 2 ^ n)))

def ofTable2 {α : Type} [Inhabited α] (n : Nat) (a : Array α) : Lab → Lab → α :=
  fun x y => a[Lab.toIndex n x * 2 ^ n + Lab.toIndex n y]!

end QV
