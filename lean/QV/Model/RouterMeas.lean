/-
  QV.Model.RouterMeas — what qibo's three routers do with MEASUREMENTS, and the front layer of
  the block DAG (`transpiler/router.py`).  Import-free apart from the router core model.

  A queue entry (`QItem`) is a router gate `g` (tag / meas / ordered qubits, as in
  QV/Model/Router.lean) together with what a measurement gate carries:
    coll      the CURRENT value of the mutable attribute `gate.collapse` (`Circuit.add` sets it
              to True as soon as a later non-measurement gate touches one of its qubits);
    md        the constructor keyword arguments `init_kwargs`: register name, `collapse`,
              `basis` (all "Z" once the rotations have been put into the queue), `p0`, `p1`
              (none / scalar / list / dict keyed by qubit id);
    ins       marks a SWAP inserted by the router (never set on input gates).

  Modelled code:
    ShortestPaths / Sabre `_detach_final_measurements`   -> `detach`
        (final = non-collapsing measurement anywhere in the queue, plus the trailing run of
         measurement gates; the rest is the body that is decomposed into blocks and routed)
    `CircuitMap.execute_block` on blocks holding measurements, `Gate.on_qubits`,
    `M.on_qubits` / `M._init_kwargs_on`                   -> `QItem.onQubits`, `mstep`
    `_append_final_measurements`                          -> `reattach`
    `StarConnectivityRouter.__call__`                     -> `mstarActions` / `mstarRoute`
    `Circuit.add` of the routed circuit (collapse flags, `circuit.measurements`)
                                                          -> `addFlags`, `measurementsOf`
    `_update_front_layer` (`nx.topological_generations`, generation 0) and
    `dag.remove_node`                                     -> `frontLayer`, `removeNode`
  and, as executable counter-models for the kernel witnesses, the seeded variants
  `detachSliced` (`queue[:-trailing]`), `mstarRouteEarly` (routed copy of a final measurement
  built where it is met) and `frontLayerFalsy` (`any()` over predecessor ids).
-/
import QV.Model.Router
namespace QV.Router

/-- the forms of the `p0` / `p1` constructor arguments of `gates.M` (values are coded as
    naturals by the harness: numerators over 64). -/
inductive PForm where
  | none
  | scalar (v : Nat)
  | list (vs : List Nat)
  | dict (kv : List (Nat × Nat))
  deriving DecidableEq, Repr, Inhabited

/-- `M._init_kwargs_on`: a dictionary is keyed by qubit id, so its keys follow the qubits. -/
def PForm.rekey (σ : Nat → Nat) : PForm → PForm
  | .dict kv => .dict (kv.map fun e => (σ e.1, e.2))
  | p => p

/-- `M.init_kwargs`. -/
structure MData where
  reg   : Nat := 0            -- explicit register name (code ≥ 1); 0 = `None` (default name)
  collK : Bool := false       -- init_kwargs["collapse"]
  basis : List Nat := []      -- init_kwargs["basis"], one code per qubit (0 = "Z")
  p0    : PForm := .none
  p1    : PForm := .none
  deriving DecidableEq, Repr, Inhabited

structure QItem where
  g    : RGate
  coll : Bool := false
  ins  : Bool := false
  md   : MData := {}
  deriving DecidableEq, Repr, Inhabited

/-- `Gate.on_qubits` / `M.on_qubits`: the gate rebuilt on other qubits.  A rebuilt
    measurement starts with `collapse` = its constructor argument, keeps register name and
    basis argument, and has dictionary-form bit-flip maps re-keyed. -/
def QItem.onQubits (σ : Nat → Nat) (it : QItem) : QItem :=
  if it.g.meas then
    { g := it.g.relabel σ, coll := it.md.collK, ins := false,
      md := { it.md with p0 := it.md.p0.rekey σ, p1 := it.md.p1.rekey σ } }
  else { it with g := it.g.relabel σ }

/-- the SWAP a router inserts. -/
def insSwap (a b : Nat) : QItem := { g := swapGate a b, ins := true }

/-! ### `Circuit.add` on the routed circuit -/

/-- a non-measurement gate sharing a qubit with `qs`. -/
def touches (qs : List Nat) (it : QItem) : Bool := !it.g.meas && it.g.qs.any fun q => qs.contains q

/-- collapse attributes after all gates have been added: a measurement collapses iff it was
    built so or a later non-measurement gate touches one of its qubits. -/
def addFlags : List QItem → List QItem
  | [] => []
  | it :: rest =>
    (if it.g.meas then { it with coll := it.coll || rest.any (touches it.g.qs) } else it)
      :: addFlags rest

/-- `circuit.measurements` of a circuit built by `add` from the given gates. -/
def measurementsOf (out : List QItem) : List QItem :=
  (addFlags out).filter fun it => it.g.meas && !it.coll

/-- a measurement as it is when constructed: `collapse` = the constructor argument. -/
def resetColl (it : QItem) : QItem := if it.g.meas then { it with coll := it.md.collK } else it

/-- the input queue carries the flags `Circuit.add` has given it. -/
def AddBuilt (q : List QItem) : Prop := addFlags (q.map resetColl) = q

/-! ### ShortestPaths / Sabre: detach, route, re-attach -/

/-- the criterion of the code for a measurement inside the body. -/
def isFinalItem (it : QItem) : Bool := it.g.meas && !it.coll

/-- number of measurement gates at the end of the queue. -/
def trailingCount (q : List QItem) : Nat := (q.reverse.takeWhile fun it => it.g.meas).length

/-- `_detach_final_measurements`: (body left in the queue, detached measurements). -/
def detach (q : List QItem) : List QItem × List QItem :=
  let k := q.length - trailingCount q
  ((q.take k).filter fun it => !isFinalItem it, (q.take k).filter isFinalItem ++ q.drop k)

/-- SEEDED VARIANT (C09-7): body written as the slice `queue[:-trailing]`, which is empty
    when the queue does not end with a measurement. -/
def detachSliced (q : List QItem) : List QItem × List QItem :=
  let t := trailingCount q
  if t = 0 then (q, [])
  else detach q

structure MState where
  base     : RState
  routed   : List QItem
  executed : List QItem
  deriving Repr

inductive MAction where
  | exec (its : List QItem)
  | swap (l0 l1 : Nat)
  | undo
  deriving Repr

def MAction.erase : MAction → Action
  | .exec its => .exec (its.map (·.g))
  | .swap a b => .swap a b
  | .undo => .undo

def minit (n : Nat) : MState := ⟨init n, [], []⟩

/-- one action: the maps evolve exactly as in the core model (`step` on the erased action);
    a block is emitted gate by gate through the layout current at that point. -/
def mstep (s : MState) (a : MAction) : MState :=
  match a with
  | .exec its =>
    { base := step s.base (.exec (its.map (·.g))),
      routed := s.routed ++ its.map (QItem.onQubits (look s.base.l2p)),
      executed := s.executed ++ its }
  | .swap l0 l1 =>
    { base := step s.base (.swap l0 l1),
      routed := s.routed ++ [insSwap (look s.base.l2p l0) (look s.base.l2p l1)],
      executed := s.executed }
  | .undo =>
    { base := step s.base .undo,
      routed := (match s.base.routed.getLast? with
        | some g => (match g.qs with
          | [_, _] => s.routed.dropLast
          | _ => s.routed)
        | none => s.routed),
      executed := s.executed }

def mrun (s : MState) (as : List MAction) : MState := as.foldl mstep s

/-- `_append_final_measurements`: `measurement.on_qubits({q: l2p[q]})`, original order. -/
def reattach (s : MState) (fin : List QItem) : List QItem :=
  s.routed ++ fin.map (QItem.onQubits (look s.base.l2p))

/-- a whole ShortestPaths / Sabre call, given the routing actions the heuristics chose. -/
def mroute (n : Nat) (q : List QItem) (as : List MAction) : List QItem :=
  reattach (mrun (minit n) as) (detach q).2

def mrouteSliced (n : Nat) (q : List QItem) (as : List MAction) : List QItem :=
  reattach (mrun (minit n) as) (detachSliced q).2

/-- stricter guard of the measurement-aware machine: `undo` only removes a SWAP the router
    inserted itself. -/
def mwf (n : Nat) (s : MState) (a : MAction) : Bool :=
  wf n s.base a.erase &&
  match a with
  | .undo => (match s.routed.getLast? with | some it => it.ins | none => false)
  | .exec its => its.all fun it => !it.ins
  | _ => true

def mwfAll (n : Nat) : MState → List MAction → Bool
  | _, [] => true
  | s, a :: as => mwf n s a && mwfAll n (mstep s a) as

/-! ### StarConnectivityRouter -/

def mstarActions (mid : Nat) (s : RState) (it : QItem) (rest : List QItem) :
    Option (List MAction) :=
  if it.g.meas then (if it.coll then some [.exec [it]] else some [])
  else if it.g.qs.length > 2 then none
  else
    match it.g.qs.map (look s.l2p) with
    | [r0, r1] =>
      if r0 == mid || r1 == mid then some [.exec [it]]
      else
        match findConnected r0 r1 s.l2p [r0, r1] (rest.map (·.g)) with
        | none => none
        | some nm => some [.swap (s.l2p.idxOf nm) (s.l2p.idxOf mid), .exec [it]]
    | _ => some [.exec [it]]

def mstarTrace (mid : Nat) : MState → List QItem → Option (List MAction)
  | _, [] => some []
  | s, it :: rest =>
    match mstarActions mid s.base it rest with
    | none => none
    | some as => (mstarTrace mid (mrun s as) rest).map (as ++ ·)

/-- the whole call: collapsing measurements in place, non-collapsing ones deferred and rebuilt
    on `l2p[q]` of the final layout, in their original order. -/
def mstarRoute (n mid : Nat) (q : List QItem) : Option (List QItem) :=
  (mstarTrace mid (minit n) q).map fun as =>
    reattach (mrun (minit n) as) (q.filter isFinalItem)

/-- SEEDED VARIANT (C09-8): the routed copy of a deferred measurement is built where the
    measurement is met, i.e. through the layout of that moment. -/
def mstarLoopEarly (mid : Nat) : MState → List QItem → List QItem → Option (List QItem)
  | s, [], acc => some (s.routed ++ acc)
  | s, it :: rest, acc =>
    match mstarActions mid s.base it rest with
    | none => none
    | some as =>
      mstarLoopEarly mid (mrun s as) rest
        (if isFinalItem it then acc ++ [it.onQubits (look s.base.l2p)] else acc)

def mstarRouteEarly (n mid : Nat) (q : List QItem) : Option (List QItem) :=
  mstarLoopEarly mid (minit n) q []

/-! ### front layer of the block DAG -/

/-- a DAG as the routers hold it: remaining node ids (insertion order) and edges. -/
structure Dag where
  nodes : List Nat
  edges : List (Nat × Nat)
  deriving Repr, DecidableEq

/-- `_create_dag` before the transitive reduction. -/
def mkDag (pairs : List (List Nat)) : Dag := ⟨List.range pairs.length, dagEdges 0 pairs⟩

/-- `dag.remove_node(v)`: the node and every edge at it. -/
def removeNode (d : Dag) (v : Nat) : Dag :=
  ⟨d.nodes.filter (· != v), d.edges.filter fun e => e.1 != v && e.2 != v⟩

/-- predecessors of `v` among the remaining nodes. -/
def preds (d : Dag) (v : Nat) : List Nat :=
  (d.edges.filter fun e => e.2 == v && d.nodes.contains e.1).map (·.1)

/-- `_update_front_layer`: generation 0 of `nx.topological_generations` = the nodes of
    in-degree zero, in node order. -/
def frontLayer (d : Dag) : List Nat := d.nodes.filter fun v => (preds d v).isEmpty

/-- the DAG after the blocks `ex` have been executed (`_execute_blocks`: `remove_node` each). -/
def execAll (d : Dag) (ex : List Nat) : Dag := ex.foldl removeNode d

/-- every executed block was in the front layer when it was executed. -/
def legitB : Dag → List Nat → Bool
  | _, [] => true
  | d, v :: rest => (frontLayer d).contains v && legitB (removeNode d v) rest

/-- SEEDED VARIANT (C09-9): `not any(dag.predecessors(node))` — Python's `any` over the
    predecessor IDS, so a predecessor with id 0 does not count. -/
def frontLayerFalsy (d : Dag) : List Nat := d.nodes.filter fun v => !(preds d v).any (· != 0)

end QV.Router
