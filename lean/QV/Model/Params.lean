/-
  QV.Model.Params — model of qibo's circuit-parameter bookkeeping (property C06).
  Import-free, executable (run by `DriverC06.lean` against the real code on every check).

  Mirrors, in `/repo/src/qibo/models/circuit.py`:
    * `_ParametrizedGates.append`                      → `PList.append`
    * `Circuit.add` (trainable bookkeeping part)       → `Circ.add`, `build`
    * `Circuit._set_parameters_list`                   → `setParametersList`
        – branch `n == len(self.trainable_gates)`      → `assignPerGate`
        – branch `n == self.trainable_gates.nparams`   → `flatLoop` (the `i + k`,
          `k += gate.nparams - 1` arithmetic, `k` a Python int, hence `Int` here)
    * `Circuit.set_parameters` dict branch             → `setParametersDict`
    * `Circuit.get_parameters` ("list"/"dict"/"flatlist", `include_not_trainable`)
                                                       → `getList`, `getDict`, `getFlat`
    * `Circuit.invert` / `copy(deep=True)` as far as parameters are concerned
                                                       → `Circ.invert`, `Circ.copy`
  A gate is seen through what the bookkeeping reads: is it a `ParametrizedGate`, its
  `trainable` flag, `gate.nparams` (`width`) and its current parameter values flattened
  to `width` scalars.  `kind` is an opaque tag (class and qubits) that no update touches.
-/
namespace QV.Params

structure PG (β : Type) where
  kind : Nat
  isParam : Bool
  trainable : Bool
  width : Nat
  vals : List β
deriving Repr, DecidableEq

/-- what a parameter update may never change -/
structure Skel where
  kind : Nat
  isParam : Bool
  trainable : Bool
  width : Nat
deriving Repr, DecidableEq

def PG.skel {β : Type} (g : PG β) : Skel := ⟨g.kind, g.isParam, g.trainable, g.width⟩

/-- `_ParametrizedGates`: the gates (as positions in the queue) and the `nparams` counter. -/
structure PList where
  idx : List Nat
  nparams : Nat
deriving Repr, DecidableEq

def PList.empty : PList := ⟨[], 0⟩

/-- `_ParametrizedGates.append` -/
def PList.append (l : PList) (i w : Nat) : PList := ⟨l.idx ++ [i], l.nparams + w⟩

structure Circ (β : Type) where
  queue : List (PG β)
  par : PList      -- self.parametrized_gates
  tr : PList       -- self.trainable_gates
deriving Repr, DecidableEq

variable {β : Type}

def Circ.empty : Circ β := ⟨[], PList.empty, PList.empty⟩

/-- `Circuit.add` for a non-measurement gate. -/
def Circ.add (c : Circ β) (g : PG β) : Circ β :=
  let i := c.queue.length
  let q := c.queue ++ [g]
  if g.isParam then
    let par := c.par.append i g.width
    if g.trainable then ⟨q, par, c.tr.append i g.width⟩ else ⟨q, par, c.tr⟩
  else ⟨q, c.par, c.tr⟩

/-- a freshly built circuit: `Circuit(n)` followed by `add` of every gate in order. -/
def build (gs : List (PG β)) : Circ β := gs.foldl Circ.add Circ.empty

/-- `gate.parameters = v` on the gate at queue position `i`. -/
def setAt : List (PG β) → Nat → List β → List (PG β)
  | [], _, _ => []
  | g :: q, 0, v => { g with vals := v } :: q
  | g :: q, i + 1, v => g :: setAt q i v

def valsAt (q : List (PG β)) (i : Nat) : List β :=
  match q[i]? with
  | some g => g.vals
  | none => []

def widthAt (q : List (PG β)) (i : Nat) : Nat :=
  match q[i]? with
  | some g => g.width
  | none => 0

/-- `for i, gate in enumerate(gates): gate.parameters = parameters[i]` -/
def assignPerGate (q : List (PG β)) : List Nat → List (List β) → List (PG β)
  | i :: is, v :: vs => assignPerGate (setAt q i v) is vs
  | _, _ => q

/-- `[parameters[off]]` (a scalar, kept as a one-element value) -/
def pick (ps : List β) (off : Nat) : List β :=
  match ps[off]? with
  | some x => [x]
  | none => []

/-- The flat branch of `_set_parameters_list`, loop state `(i, k)`:
    gate `i` receives `parameters[i + k]` if `nparams == 1`, else
    `parameters[i + k : i + k + nparams]`; then `k += nparams - 1`. -/
def flatLoop (ps : List β) : List Nat → Nat → Int → List (List β)
  | [], _, _ => []
  | w :: rest, i, k =>
    let off := ((i : Int) + k).toNat
    let v := if w = 1 then pick ps off
             else (ps.drop off).take w
    v :: flatLoop ps rest (i + 1) (k + (w : Int) - 1)

inductive Err | value | key
deriving Repr, DecidableEq

def trWidths (c : Circ β) : List Nat := c.tr.idx.map (widthAt c.queue)

/-- every per-gate value has the length its gate expects (else the gate setter raises). -/
def widthsOK (ws : List Nat) (vs : List (List β)) : Bool :=
  ws.length == vs.length && (List.zipWith (fun w (v : List β) => w == v.length) ws vs).all id

/-- `Circuit.set_parameters` for a list / tuple / array `xs` (`n = len(xs)`); an element
    is a per-gate value (scalar = singleton) or, in the flat branch, a scalar. -/
def setParametersList (c : Circ β) (xs : List (List β)) : Except Err (Circ β) :=
  let n := xs.length
  if n = c.tr.idx.length then
    if widthsOK (trWidths c) xs then .ok { c with queue := assignPerGate c.queue c.tr.idx xs }
    else .error .value
  else if n = c.tr.nparams then
    if xs.all (fun x => x.length == 1) then
      .ok { c with queue := assignPerGate c.queue c.tr.idx (flatLoop xs.flatten (trWidths c) 0 0) }
    else .error .value
  else .error .value

/-- dict branch: keys are gates (queue positions); a key outside the trainable set raises
    `KeyError` before anything is assigned. -/
def setParametersDict (c : Circ β) (kvs : List (Nat × List β)) : Except Err (Circ β) :=
  if kvs.all (fun kv => c.tr.idx.contains kv.1) then
    if kvs.all (fun kv => widthAt c.queue kv.1 == kv.2.length) then
      .ok { c with queue := assignPerGate c.queue (kvs.map (·.1)) (kvs.map (·.2)) }
    else .error .value
  else .error .key

def Circ.gates (c : Circ β) (includeNT : Bool) : List Nat :=
  if includeNT then c.par.idx else c.tr.idx

/-- `get_parameters("list", include_not_trainable)` -/
def getList (c : Circ β) (includeNT : Bool) : List (List β) :=
  (c.gates includeNT).map (valsAt c.queue)

/-- `get_parameters("dict", …)` (keys = queue positions of the gate objects) -/
def getDict (c : Circ β) (includeNT : Bool) : List (Nat × List β) :=
  (c.gates includeNT).map (fun i => (i, valsAt c.queue i))

/-- `get_parameters("flatlist", …)` -/
def getFlat (c : Circ β) (includeNT : Bool) : List β :=
  (getList c includeNT).flatten

/-- `Circuit.invert` on the bookkeeping level: daggers in reverse order, `trainable` kept,
    added one by one to a new circuit. `dag` = effect of `_dagger` on the flat values. -/
def Circ.invert (dag : PG β → List β) (c : Circ β) : Circ β :=
  build (c.queue.reverse.map (fun g => { g with vals := dag g }))

/-- `Circuit.copy(deep=True)`: new gate objects with the current values, re-added. -/
def Circ.copy (c : Circ β) : Circ β := build c.queue

/-- operations of the history machine `ParamSM`; failed updates leave the state unchanged
    (this is what the real code does for the errors modelled here, which are raised before
    the first assignment). -/
inductive Op (β : Type)
  | setList (xs : List (List β))
  | setDict (kvs : List (Nat × List β))
  | invert     -- replace the circuit by its inverse (parameters negated by `dag`)
  | copy       -- replace the circuit by a deep copy

def step (dag : PG β → List β) (c : Circ β) : Op β → Circ β
  | .setList xs => match setParametersList c xs with | .ok c' => c' | .error _ => c
  | .setDict kvs => match setParametersDict c kvs with | .ok c' => c' | .error _ => c
  | .invert => c.invert dag
  | .copy => c.copy

def run (dag : PG β → List β) (c : Circ β) (ops : List (Op β)) : Circ β :=
  ops.foldl (step dag) c

/-- the simple specification of the flat format: cut `ps` into consecutive pieces. -/
def splitBy : List Nat → List β → List (List β)
  | [], _ => []
  | w :: rest, ps => ps.take w :: splitBy rest (ps.drop w)

end QV.Params
