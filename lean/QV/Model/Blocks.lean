/-
  QV.Model.Blocks — executable transliteration of qibo's `transpiler/blocks.py`:
  `block_decomposition` (with `fuse`), `_initial_block_decomposition`,
  `_find_previous_gates`, `_find_successive_gates`, `_gates_on_qubit`, `_remove_gates`,
  `_split_multi_qubit_measurements`, `Block.qubits / fuse / commute`.  Import-free apart
  from the gate type of QV.Model.Router.

  Python removes gates and blocks from its work lists with `list.remove(obj)`, which
  compares OBJECTS (neither `Gate` nor `Block` defines `__eq__`).  The model therefore
  carries an identity with every gate (its position in the queue) and every block (its
  creation index); `removeAll` is `list.remove` in a loop.
-/
import QV.Model.Router

namespace QV.Blocks
open QV.Router

/-- a gate object: (identity, gate). -/
abbrev IG := Nat × RGate

/-- `gate.qubits[0]` (gates act on at least one qubit; `0` is never used). -/
def head0 (g : IG) : Nat := g.2.qs.headD 0

structure Block where
  id     : Nat          -- identity of the Block object
  qubits : List Nat     -- `_qubits`, as passed to the constructor
  gates  : List IG
  deriving DecidableEq, Repr

/-- insertion of one element in a sorted list / `sorted(...)`. -/
def insertSorted (x : Nat) : List Nat → List Nat
  | [] => [x]
  | y :: ys => if x ≤ y then x :: y :: ys else y :: insertSorted x ys

def sortNat (l : List Nat) : List Nat := l.foldr insertSorted []

/-- the property `Block.qubits`: sorted tuple. -/
def Block.sortedQubits (b : Block) : List Nat := sortNat b.qubits

/-- `_remove_gates(gatelist, remove_list)`: `for gate in remove_list: gatelist.remove(gate)`. -/
def removeAll {α : Type} [BEq α] (l rm : List α) : List α := rm.foldl (fun acc g => acc.erase g) l

/-- `_find_previous_gates(gates_list, qubits)`. -/
def findPrev (l : List IG) (qs : List Nat) : List IG := l.filter fun g => qs.contains (head0 g)

/-- inner loop of `_find_successive_gates` for one qubit: one-qubit gates on `q` until the
    first two-qubit gate that uses `q`. -/
def succOn (q : Nat) : List IG → List IG
  | [] => []
  | g :: rest =>
    if g.2.qs.length == 1 && head0 g == q then g :: succOn q rest
    else if g.2.qs.length == 2 && g.2.qs.contains q then []
    else succOn q rest

/-- `_find_successive_gates(gates_list, qubits)`. -/
def findSucc (l : List IG) (qs : List Nat) : List IG := qs.flatMap fun q => succOn q l

/-- `_gates_on_qubit(gatelist, qubit)`. -/
def gatesOn (l : List IG) (q : Nat) : List IG := l.filter fun g => head0 g == q

/-- the scan `for idx, gate in enumerate(all_gates)`: gates in front of the first gate on two
    or more qubits, and the list from that gate on. -/
def splitTwo : List IG → List IG × List IG
  | [] => ([], [])
  | g :: rest =>
    if g.2.qs.length < 2 then
      let r := splitTwo rest
      (g :: r.1, r.2)
    else ([], g :: rest)

/-- `_initial_block_decomposition`: both `while` loops as one recursion (`fuel` bounds the
    number of iterations: every iteration removes at least one gate); `none` = raises
    (a gate on more than two qubits).  `bid` = identity given to the next Block. -/
def initialBlocks (n : Nat) : Nat → Nat → List IG → Option (List Block)
  | 0, _, _ => some []
  | fuel + 1, bid, all =>
    match splitTwo all with
    | (pre, g :: post) =>
      -- first loop: `g` is the first gate on two (or more) qubits
      if g.2.qs.length == 2 then
        let blockGates := findPrev pre g.2.qs ++ [g] ++ findSucc post g.2.qs
        (initialBlocks n fuel (bid + 1) (removeAll all blockGates)).map
          (⟨bid, g.2.qs, blockGates⟩ :: ·)
      else none
    | (_, []) =>
      -- second loop: only one-qubit gates are left
      match all with
      | [] => some []
      | g0 :: _ =>
        let q1 := head0 g0
        let b1 := gatesOn all q1
        let all1 := removeAll all b1
        match all1 with
        | [] => some [⟨bid, [q1, (q1 + 1) % n], b1⟩]
        | h :: _ =>
          let q2 := head0 h
          let b2 := gatesOn all1 q2
          (initialBlocks n fuel (bid + 1) (removeAll all1 b2)).map (⟨bid, [q1, q2], b1 ++ b2⟩ :: ·)

/-- `Block.commute`: no common qubit. -/
def commuteQ (a b : List Nat) : Bool := a.all fun q => !b.contains q

/-- the scan `for second_block in initial_blocks[1:]` of `block_decomposition`: gates of the
    fused block after the first block's, and the blocks put on `remove_list`. -/
def fuseScan (fq : List Nat) : List Block → List IG × List Block
  | [] => ([], [])
  | b :: rest =>
    if b.sortedQubits == fq then
      let r := fuseScan fq rest
      (b.gates ++ r.1, b :: r.2)
    else if !(commuteQ fq b.sortedQubits) then ([], [])
    else fuseScan fq rest

/-- the `while len(initial_blocks) > 0` loop of `block_decomposition(fuse=True)`. -/
def fuseBlocks : Nat → List Block → List Block
  | 0, _ => []
  | _ + 1, [] => []
  | fuel + 1, first :: rest =>
    let r := fuseScan first.sortedQubits rest
    ⟨first.id, first.sortedQubits, first.gates ++ r.1⟩ ::
      fuseBlocks fuel (removeAll (first :: rest) (first :: r.2))

/-- `_split_multi_qubit_measurements` (the identity when there is no such measurement). -/
def splitMeas (queue : List RGate) : List RGate :=
  queue.flatMap fun g =>
    if g.meas && decide (g.qs.length > 1) then g.qs.map fun q => ⟨measTag, true, [q]⟩ else [g]

/-- gate objects of a queue: identity = position. -/
def withIds (queue : List RGate) : List IG := (List.range queue.length).zip queue

/-- `block_decomposition(circuit, fuse)`; `none` = raises. -/
def blockDecomposition (n : Nat) (fuse : Bool) (queue : List RGate) : Option (List Block) :=
  if n < 2 then none
  else
    let all := withIds (splitMeas queue)
    match initialBlocks n (all.length + 1) 0 all with
    | none => none
    | some ib => some (if fuse then fuseBlocks (ib.length + 1) ib else ib)

/-- the gate list `CircuitBlocks.circuit()` rebuilds / the routers execute in list order. -/
def flatGates (bs : List Block) : List RGate := (bs.map fun b => b.gates.map Prod.snd).flatten

end QV.Blocks
