/-
  QV.Model.Hamil — executable model of qibo's Hamiltonian classes
  (hamiltonians/hamiltonians.py, hamiltonians/terms.py, symbols.py, the model builders
  of hamiltonians/models.py), generic in the scalar type (Gaussian integers in the
  driver, any commutative (semi)ring in the proofs).  Import-free apart from the
  simulator model.

  SPEC  `PForm.denote` : a Pauli polynomial (free non-commutative algebra over the
        one-qubit symbols) as an operator on functions of basis labels.
  MODEL `dense`        : `SymbolicHamiltonian._get_symbol_matrix` (recursion over
                         Add / Mul / Pow / Symbol / number on 2^n × 2^n matrices, a
                         symbol being the Kronecker chain `Symbol.full_matrix`);
        `STerm`        : `SymbolicTerm` (coefficient folding, Pauli powers reduced mod 2,
                         ordered factor list, per-qubit `matrix_map`, sorted
                         `target_qubits`, `matrix` = coefficient · kron over sorted qubits of
                         the per-qubit products, `__call__` = factor-by-factor gate
                         application, rightmost factor first);
        `expand`       : the list of monomials handed to `SymbolicTerm` (what
                         `sympy.expand(form).as_coefficients_dict()` denotes);
        `applyGates`, `expectation…`, `samples…` : `apply_gates`, `expectation`,
                         `expectation_from_samples` of both classes;
        `buildSpin`, `tfim…`, `oneBody…`, `heis…` : `_build_spin_model` and the model builders
                         (TFIM, X/Y/Z, Heisenberg and with it XXX / XXZ).

  A matrix on n qubits is a function of a row label and a column label (type `DM α` of
  the simulator model); numpy's `kron` is then concatenation of bit ranges, and the
  driver materialises with qubit 0 as the most significant bit.  That numpy's
  kron/matmul/reshape behave like this is what the exact integer correspondence checks
  on every run.
-/
import QV.Model.Sim
namespace QV

/-- a one-qubit symbol of `qibo.symbols`: 2×2 matrix, target qubit, and whether its class
is one of I, X, Y, Z (then `SymbolicTerm` reduces its powers mod 2). -/
structure PSym (α : Type) where
  mat   : Nat → Nat → α
  q     : Nat
  pauli : Bool := true
  /-- the symbol's name (sympy identifies symbols by name) -/
  id    : Nat := 0

/-- symbolic forms: what `SymbolicHamiltonian.form` can be. -/
inductive PForm (α : Type) where
  | const (c : α)
  | sym (s : PSym α)
  | add (a b : PForm α)
  | mul (a b : PForm α)
  | pow (a : PForm α) (k : Nat)
  | smul (c : α) (a : PForm α)

variable {α : Type}

/-- the gate that applies a symbol to a state. -/
def PSym.gate (s : PSym α) : MGate α := { mat := s.mat, targets := [s.q], controls := [] }

section spec
variable [Zero α] [Add α] [Mul α]

/-- operators on states. -/
abbrev Op (α : Type) := (Lab → α) → (Lab → α)

/-- `k`-fold composition. -/
def iter {β : Type} (f : β → β) : Nat → β → β
  | 0, b => b
  | k + 1, b => f (iter f k b)

/-- **SPEC.**  The operator a form denotes. -/
def PForm.denote : PForm α → Op α
  | .const c  => fun ψ x => c * ψ x
  | .sym s    => applyGate s.gate
  | .add a b  => fun ψ x => a.denote ψ x + b.denote ψ x
  | .mul a b  => fun ψ => a.denote (b.denote ψ)
  | .pow a k  => iter a.denote k
  | .smul c a => fun ψ x => c * a.denote ψ x

end spec

/-! ### dense route: `_get_symbol_matrix` -/
section dense
variable [Zero α] [One α] [Add α] [Mul α]

def bit (b : Bool) : Nat := if b then 1 else 0

/-- identity on the first `n` qubits (`matrices.I(2**n)`). -/
def mId (n : Nat) : DM α := fun x y => if (List.range n).all (fun r => x r == y r) then 1 else 0

def mAdd (A B : DM α) : DM α := fun x y => A x y + B x y
def mSmul (c : α) (A : DM α) : DM α := fun x y => c * A x y
def mZero : DM α := fun _ _ => 0

/-- `np.matmul` of two 2^n × 2^n matrices. -/
def mMul (n : Nat) (A B : DM α) : DM α := fun x y =>
  sumOver (List.range n) (fun z => A x z * B z y) x

/-- `np.linalg.matrix_power` (k ≥ 0): `k` factors, identity for k = 0. -/
def mPow (n : Nat) (A : DM α) : Nat → DM α
  | 0 => mId n
  | k + 1 => mMul n (mPow n A k) A

/-- `_multikron` of one 2×2 matrix per qubit 0..n-1: `reduce(np.kron, ms)`;
`kron` concatenates bit ranges, so entry (x, y) is the product of the entries selected
by the bits of qubit 0, 1, …  (accumulated left to right like `reduce`). -/
def multikron (ms : List (Nat → Nat → α)) : DM α := fun x y =>
  (ms.foldl (fun (acc : α × Nat) m => (acc.1 * m (bit (x acc.2)) (bit (y acc.2)), acc.2 + 1)) (1, 0)).1

def eye2 : Nat → Nat → α := fun i j => if i = j then 1 else 0

/-- `Symbol.full_matrix(nqubits)`: q identities, the symbol's matrix, n-q-1 identities. -/
def fullMatrix (n : Nat) (s : PSym α) : DM α :=
  multikron (List.replicate s.q eye2 ++ [s.mat] ++ List.replicate (n - s.q - 1) eye2)

/-- **MODEL** of `SymbolicHamiltonian._get_symbol_matrix`. -/
def dense (n : Nat) : PForm α → DM α
  | .const c  => mSmul c (mId n)
  | .sym s    => fullMatrix n s
  | .add a b  => mAdd (dense n a) (dense n b)
  | .mul a b  => mMul n (dense n a) (dense n b)
  | .pow a k  => mPow n (dense n a) k
  | .smul c a => mMul n (mSmul c (mId n)) (dense n a)

/-- matrix–vector product `matrix @ state` (dense `Hamiltonian.__matmul__`). -/
def mulVec (n : Nat) (A : DM α) (ψ : Lab → α) : Lab → α := fun x =>
  sumOver (List.range n) (fun z => A x z * ψ z) x

end dense

/-! ### term route: `SymbolicTerm`, `SymbolicHamiltonian.terms` -/

/-- a factor as sympy hands it to `SymbolicTerm.__init__` (`as_ordered_factors`):
a symbol with an integer power, or a number (`sympy.I`, numbers). -/
inductive RawFactor (α : Type) where
  | symPow (s : PSym α) (k : Nat)
  | num (c : α)

/-- `SymbolicTerm`: coefficient and the ordered list `factors`. -/
structure STerm (α : Type) where
  coef    : α
  factors : List (PSym α)

section terms
variable [Zero α] [One α] [Add α] [Mul α]

/-- `SymbolicTerm.__init__`: numbers are folded into the coefficient; a Pauli symbol with
an even power vanishes and with an odd power appears once; other symbols are repeated
`pow` times. -/
def STerm.ofRaw (c : α) (fs : List (RawFactor α)) : STerm α :=
  fs.foldl (fun t f =>
    match f with
    | .num d => { t with coef := t.coef * d }
    | .symPow s k =>
      if s.pauli then
        (if k % 2 = 0 then t else { t with factors := t.factors ++ [s] })
      else { t with factors := t.factors ++ List.replicate k s }) { coef := c, factors := [] }

/-- insertion into a sorted duplicate-free list. -/
def insertSorted (q : Nat) : List Nat → List Nat
  | [] => [q]
  | r :: rs => if q < r then q :: r :: rs else if q = r then r :: rs else r :: insertSorted q rs

/-- `target_qubits = tuple(sorted(matrix_map.keys()))`. -/
def STerm.targets (t : STerm α) : List Nat := t.factors.foldl (fun acc s => insertSorted s.q acc) []

/-- a 2×2 matrix by its four entries (strict, so that long products stay linear). -/
structure M2 (α : Type) where
  a : α
  b : α
  c : α
  d : α

def M2.ofFn (m : Nat → Nat → α) : M2 α := ⟨m 0 0, m 0 1, m 1 0, m 1 1⟩

def M2.toFn (x : M2 α) : Nat → Nat → α := fun i j =>
  if i = 0 then (if j = 0 then x.a else x.b) else (if j = 0 then x.c else x.d)

def M2.mul (x y : M2 α) : M2 α :=
  ⟨x.a * y.a + x.b * y.c, x.a * y.b + x.b * y.d, x.c * y.a + x.d * y.c, x.c * y.b + x.d * y.d⟩

def M2.one : M2 α := ⟨1, 0, 0, 1⟩

/-- `reduce(matmul, matrix_map[q])`: product of the factors on qubit `q`, in order. -/
def STerm.qubitM2 (t : STerm α) (q : Nat) : M2 α :=
  match t.factors.filter (fun s => s.q == q) with
  | [] => M2.one
  | s :: ss => ss.foldl (fun acc r => M2.mul acc (M2.ofFn r.mat)) (M2.ofFn s.mat)

def STerm.qubitMatrix (t : STerm α) (q : Nat) : Nat → Nat → α := (t.qubitM2 q).toFn

/-- bit `p` (from the most significant) of a local index on `k` qubits. -/
def localBit (k p i : Nat) : Nat := (i >>> (k - 1 - p)) % 2

/-- `SymbolicTerm.matrix`: coefficient · kron over the sorted target qubits of the
per-qubit products, as a local matrix on `targets`. -/
def STerm.matrix (t : STerm α) : Nat → Nat → α := fun i j =>
  let ts := t.targets
  let k := ts.length
  t.coef * ((ts.zipIdx).foldl (fun acc (qp : Nat × Nat) =>
      acc * t.qubitMatrix qp.1 (localBit k qp.2 i) (localBit k qp.2 j)) 1)

/-- the term as a gate on its target qubits (`HamiltonianTerm.gate`). -/
def STerm.gate (t : STerm α) : MGate α := { mat := t.matrix, targets := t.targets, controls := [] }

/-- `SymbolicTerm.__call__` on a state vector: the factors' gates applied one after the
other, rightmost factor first, then the coefficient. -/
def STerm.apply (t : STerm α) (ψ : Lab → α) : Lab → α :=
  let φ := t.factors.reverse.foldl (fun s f => applyGate f.gate s) ψ
  fun x => t.coef * φ x

/-- `SymbolicTerm.__call__(density_matrix=True)`: `apply_gate_half_density_matrix`
(left multiplication) factor by factor. -/
def STerm.applyDM (t : STerm α) (ρ : DM α) : DM α :=
  let σ := t.factors.reverse.foldl (fun s f => applyLeft f.gate s) ρ
  fun x y => t.coef * σ x y

/-- the operator a term denotes: coefficient times the product of its factors in the
written order. -/
def STerm.denote (t : STerm α) : Op α := fun ψ x =>
  t.coef * (t.factors.foldr (fun f φ => applyGate f.gate φ) ψ) x

/-- a Hamiltonian in term form: `terms` (those with target qubits) and `constant`. -/
structure TermHam (α : Type) where
  terms    : List (STerm α)
  constant : α

/-- `SymbolicHamiltonian.terms` from the (coefficient, monomial) pairs of the expanded
form: terms without target qubits go to `constant`. -/
def TermHam.ofRaw (ms : List (α × List (RawFactor α))) : TermHam α :=
  ms.foldl (fun h m =>
    let t := STerm.ofRaw m.1 m.2
    if t.factors.isEmpty then { h with constant := h.constant + t.coef }
    else { h with terms := h.terms ++ [t] }) { terms := [], constant := 0 }

/-- `SymbolicHamiltonian.apply_gates`: sum of the terms' actions plus constant·state. -/
def TermHam.applyGates (h : TermHam α) (ψ : Lab → α) : Lab → α := fun x =>
  h.terms.foldl (fun acc t => acc + t.apply ψ x) 0 + h.constant * ψ x

def TermHam.applyGatesDM (h : TermHam α) (ρ : DM α) : DM α := fun x y =>
  h.terms.foldl (fun acc t => acc + t.applyDM ρ x y) 0 + h.constant * ρ x y

/-! #### the expanded form (what `sympy.expand` + `as_coefficients_dict` denote) -/

/-- a monomial: coefficient and word of symbols. -/
abbrev Mono (α : Type) := α × List (PSym α)

def Mono.mul (a b : Mono α) : Mono α := (a.1 * b.1, a.2 ++ b.2)

def monosMul (as bs : List (Mono α)) : List (Mono α) :=
  as.flatMap (fun a => bs.map (fun b => Mono.mul a b))

def monosPow (as : List (Mono α)) : Nat → List (Mono α)
  | 0 => [(1, [])]
  | k + 1 => monosMul (monosPow as k) as

/-- distribute products over sums: the list of ordered monomials of a form. -/
def expand : PForm α → List (Mono α)
  | .const c  => [(c, [])]
  | .sym s    => [(1, [s])]
  | .add a b  => expand a ++ expand b
  | .mul a b  => monosMul (expand a) (expand b)
  | .pow a k  => monosPow (expand a) k
  | .smul c a => (expand a).map (fun m => (c * m.1, m.2))

/-- group equal adjacent symbols of a word into powers (sympy's automatic `X0*X0 → X0**2`);
`same` decides equality of symbols. -/
def groupPowersAux (same : PSym α → PSym α → Bool) : PSym α → Nat → List (PSym α) → List (RawFactor α)
  | cur, k, [] => [.symPow cur k]
  | cur, k, s :: ss =>
    if same cur s then groupPowersAux same cur (k + 1) ss
    else .symPow cur k :: groupPowersAux same s 1 ss

def groupPowers (same : PSym α → PSym α → Bool) : List (PSym α) → List (RawFactor α)
  | [] => []
  | s :: ss => groupPowersAux same s 1 ss

/-- the term form of a symbolic form, through the expansion. -/
def TermHam.ofForm (same : PSym α → PSym α → Bool) (f : PForm α) : TermHam α :=
  TermHam.ofRaw ((expand f).map (fun m => (m.1, groupPowers same m.2)))

end terms

/-! ### expectation values -/
section expect
variable [Zero α] [One α] [Add α] [Mul α]

/-- `calculate_expectation_state` before taking the real part:  Σ_x conj(ψ x) · (Hψ)(x). -/
def expectState (n : Nat) (conj : α → α) (Hψ ψ : Lab → α) : α :=
  sumOver (List.range n) (fun x => conj (ψ x) * Hψ x) (fun _ => false)

def norm2 (n : Nat) (conj : α → α) (ψ : Lab → α) : α :=
  sumOver (List.range n) (fun x => conj (ψ x) * ψ x) (fun _ => false)

/-- `calculate_expectation_density_matrix` before taking the real part: trace(Hρ). -/
def traceN (n : Nat) (ρ : DM α) : α := sumOver (List.range n) (fun x => ρ x x) (fun _ => false)

end expect

/-! ### expectation from samples (diagonal observables) -/
section samples
variable [Zero α] [One α] [Add α] [Mul α] [Neg α]

/-- position of `q` in the qubit map (`qubit_map.index(q)`). -/
def mapIndex (qm : List Nat) (q : Nat) : Nat := qm.idxOf q

/-- the bit of qubit `q` in the measured key. -/
def keyBit (qm : List Nat) (key : List Bool) (q : Nat) : Bool := key.getD (mapIndex qm q) false

/-- `(-1) ** count("1")` over the (non-identity) factors of a Z-string term — every
factor counts, also several on one qubit. -/
def zSign (qm : List Nat) (key : List Bool) (fs : List (PSym α)) : α :=
  fs.foldl (fun acc f => if keyBit qm key f.q then -acc else acc) 1

/-- `SymbolicHamiltonian.expectation_from_samples` scaled by the number of shots:
Σ_terms Σ_keys coef · sign · count  +  constant · N.  (The real code divides the counts by
N first; the scaled form keeps the statement in a ring.) -/
def samplesSymbolicScaled (h : TermHam α) (qm : List Nat) (freq : List (List Bool × α)) : α :=
  h.terms.foldl (fun acc t =>
    acc + freq.foldl (fun a kc => a + t.coef * zSign qm kc.1 t.factors * kc.2) 0) 0
  + h.constant * freq.foldl (fun a kc => a + kc.2) 0

/-- the index the dense class computes for a key:
`Σ_{i ∈ qubit_map} int(k[qubit_map.index(i)]) * 2 ** (size - 1 - i)`. -/
def denseIndex (qm : List Nat) (key : List Bool) : Nat :=
  qm.foldl (fun acc i => acc + bit (keyBit qm key i) * 2 ^ (qm.length - 1 - i)) 0

/-- dense `Hamiltonian.expectation_from_samples`, scaled by the number of shots;
`diag i` is `obs[i, i]`. -/
def samplesDenseScaled (diag : Nat → α) (qm : List Nat) (freq : List (List Bool × α)) : α :=
  freq.foldl (fun a kc => a + diag (denseIndex qm kc.1) * kc.2) 0

/-- the label a key denotes under a qubit map. -/
def keyLabel (qm : List Nat) (key : List Bool) : Lab := fun q => keyBit qm key q

end samples

/-! ### model builders (`hamiltonians/models.py`) -/
section models
variable [Zero α] [One α] [Add α] [Mul α] [Neg α]

/-- `_build_spin_model(nqubits, matrix, condition)`:
Σ_i kron_j (matrix if condition(i, j) else I). -/
def buildSpin (n : Nat) (m : Nat → Nat → α) (cond : Nat → Nat → Bool) : DM α :=
  (List.range n).foldl (fun acc i =>
    mAdd acc (multikron ((List.range n).map (fun j => if cond i j then m else eye2)))) mZero

def pauliX : Nat → Nat → α := fun i j => if i + j = 1 then 1 else 0
def pauliZ : Nat → Nat → α := fun i j => if i = j then (if i = 0 then 1 else -1) else 0

def symX (q : Nat) : PSym α := { mat := pauliX, q := q }
def symZ (q : Nat) : PSym α := { mat := pauliZ, q := q }

/-- TFIM ring condition `i in {j % n, (j+1) % n}`. -/
def ringCond (n : Nat) (i j : Nat) : Bool := i == j % n || i == (j + 1) % n
def siteCond (n : Nat) (i j : Nat) : Bool := i == j % n

/-- dense TFIM: `-build(Z, ring) - h * build(X, site)`. -/
def tfimDense (n : Nat) (h : α) : DM α :=
  mAdd (mSmul (-1) (buildSpin n pauliZ (ringCond n))) (mSmul (-h) (buildSpin n pauliX (siteCond n)))

/-- symbolic TFIM form: `-Σ_{i<n-1} term(i, i+1) - term(n-1, 0)`,
`term(a, b) = Z_a Z_b + h X_a`. -/
def tfimTerm (h : α) (a b : Nat) : PForm α :=
  .add (.mul (.sym (symZ a)) (.sym (symZ b))) (.smul h (.sym (symX a)))

def tfimForm (n : Nat) (h : α) : PForm α :=
  .add (.smul (-1) ((List.range (n - 1)).foldl (fun acc i => .add acc (tfimTerm h i (i + 1))) (.const 0)))
       (.smul (-1) (tfimTerm h (n - 1) 0))

/-- `_OneBodyPauli` dense and symbolic. -/
def oneBodyDense (n : Nat) (m : Nat → Nat → α) : DM α := mSmul (-1) (buildSpin n m (siteCond n))

def oneBodyForm (n : Nat) (m : Nat → Nat → α) : PForm α :=
  (List.range n).foldl (fun acc i => .add acc (.smul (-1) (.sym { mat := m, q := i }))) (.const 0)

/-- one Pauli component of the Heisenberg builder: coupling constant, external field, whether
the symbolic form keeps the field term (`field_strength != 0.0`), and the 2×2 matrix. -/
structure HComp (α : Type) where
  J    : α
  h    : α
  keep : Bool
  mat  : Nat → Nat → α

/-- dense `Heisenberg`: for each of X, Y, Z
`matrix = matrix - J · build(σ, ring)`; `matrix = matrix + h · _OneBodyPauli(σ).matrix`. -/
def heisDense (n : Nat) (cs : List (HComp α)) : DM α :=
  cs.foldl (fun M c =>
    mAdd (mAdd M (mSmul (-c.J) (buildSpin n c.mat (ringCond n)))) (mSmul c.h (oneBodyDense n c.mat))) mZero

/-- `term(q1, q2) = sum(J_σ · σ(q1) · σ(q2))` (python's `sum` starts from 0). -/
def heisTerm (cs : List (HComp α)) (a b : Nat) : PForm α :=
  cs.foldl (fun acc c =>
    .add acc (.smul c.J (.mul (.sym { mat := c.mat, q := a }) (.sym { mat := c.mat, q := b })))) (.const 0)

/-- `sum(h_σ · σ(q) for q in range(n) for σ if h_σ != 0)`. -/
def heisField (n : Nat) (cs : List (HComp α)) : PForm α :=
  (List.range n).foldl (fun acc q =>
    (cs.filter (·.keep)).foldl (fun acc c => .add acc (.smul c.h (.sym { mat := c.mat, q := q }))) acc) (.const 0)

/-- symbolic `Heisenberg` form:
`-1 * sum(term(i, i+1) for i < n-1) - term(n-1, 0)`, then `form -= field sum`. -/
def heisForm (n : Nat) (cs : List (HComp α)) : PForm α :=
  .add (.add (.smul (-1) ((List.range (n - 1)).foldl (fun acc i => .add acc (heisTerm cs i (i + 1))) (.const 0)))
             (.smul (-1) (heisTerm cs (n - 1) 0)))
       (.smul (-1) (heisField n cs))

end models

end QV
