/-
  QV.Model.CircuitOps — model of qibo's circuit-level transformations
  (Circuit.invert / __add__ / on_qubits / copy) on gate lists.  Import-free.
-/
import QV.Model.Sim
namespace QV

variable {α : Type}

/-- `Gate.on_qubits`: move a gate to other qubits. -/
def MGate.relabel (σ : Nat → Nat) (g : MGate α) : MGate α :=
  { g with targets := g.targets.map σ, controls := g.controls.map σ }

/-- `Circuit.invert`: daggers of the gates in reverse order (`dag` = per-gate dagger). -/
def invertWith (dag : MGate α → MGate α) (gs : List (MGate α)) : List (MGate α) :=
  (gs.map dag).reverse

/-- `Circuit.on_qubits`: every gate relabelled. -/
def relabelCircuit (σ : Nat → Nat) (gs : List (MGate α)) : List (MGate α) :=
  gs.map (MGate.relabel σ)

end QV
