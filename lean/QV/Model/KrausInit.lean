/-
  QV.Model.KrausInit — which qubits the operators of a `KrausChannel` (and of every channel class
  derived from it: `UnitaryChannel`, …) act on when the channel is built from Gate OBJECTS
  (src/qibo/gates/channels.py `KrausChannel.__init__`, branch `isinstance(operators[0], Gate)`).

  `qubits` is an int, a tuple or a list of tuples (int / tuple are repeated once per operator); an
  empty list keeps the gates where they were declared; otherwise gate k is moved with
  `on_qubits({gate.qubits[i]: qubits[k][i]})`, i.e. its i-th DECLARED qubit (controls first, as
  `Gate.qubits` reports them) goes to the i-th requested one.  `target_qubits` of the channel is the
  sorted set of the gates' target qubits.  Import-free; run by DriverC17c.lean.
-/
namespace QV.KrausInit

inductive QArg where
  | int (q : Nat)
  | tuple (qs : List Nat)
  | list (qss : List (List Nat))
deriving Repr

def normalise (a : QArg) (nops : Nat) : List (List Nat) :=
  match a with
  | .int q => List.replicate nops [q]
  | .tuple qs => List.replicate nops qs
  | .list l => l

/-- the dict handed to `on_qubits` -/
def relabelDict (declared requested : List Nat) : List (Nat × Nat) := declared.zip requested

def lookup (d : List (Nat × Nat)) (q : Nat) : Nat := (d.lookup q).getD q

/-- the qubits of the moved gate, in the gate's own order -/
def relabelGate (declared requested : List Nat) : List Nat :=
  declared.map (lookup (relabelDict declared requested))

/-- a gate as far as this constructor looks at it: its control qubits (as `Gate.control_qubits`
reports them, sorted) and its target qubits in declared order; `Gate.qubits` = controls ++ targets -/
structure G where
  controls : List Nat
  targets : List Nat
deriving Repr, DecidableEq

def G.qubits (g : G) : List Nat := g.controls ++ g.targets

def hasDup : List Nat → Bool
  | [] => false
  | x :: xs => xs.contains x || hasDup xs

def insertSorted (x : Nat) : List Nat → List Nat
  | [] => [x]
  | y :: ys => if x < y then x :: y :: ys else if x = y then y :: ys else y :: insertSorted x ys

def sortedSet (l : List Nat) : List Nat := l.foldr insertSorted []

/-- one gate: `none` = the real constructor raises (index out of range in `qubits[k][i]`, or a gate
asked to act twice on one qubit); the moved gate reports its controls sorted again -/
def moveGate (g : G) (requested : List Nat) : Option G :=
  if requested.length < g.qubits.length then none
  else
    let qs := relabelGate g.qubits requested
    if hasDup qs then none
    else some { controls := sortedSet (qs.take g.controls.length), targets := qs.drop g.controls.length }

def moveAll : List G → List (List Nat) → Option (List G)
  | [], _ => some []
  | _ :: _, [] => none
  | g :: gs, r :: rs =>
    match moveGate g r, moveAll gs rs with
    | some g', some gs' => some (g' :: gs')
    | _, _ => none

structure Built where
  gates : List G
  targetQubits : List Nat
deriving Repr, DecidableEq

def build (a : QArg) (ops : List G) : Option Built :=
  let qs := normalise a ops.length
  let moved := if qs.isEmpty then some ops else moveAll ops qs
  moved.map fun gs => { gates := gs, targetQubits := sortedSet (gs.flatMap G.targets) }

/-- the variant planted as seeded change C17-21: i-th SMALLEST declared qubit -> i-th requested -/
def relabelGateSorted (declared requested : List Nat) : List Nat :=
  declared.map (lookup (relabelDict (sortedSet declared) requested))

end QV.KrausInit
