/-
  Model of the argument evaluation of qibo's OpenQASM reader (C13).

  anchors:  models/_openqasm.py  QASMParser._unroll_expression (the syntax tree is printed
                                 in order: lhs, op, rhs / op, expression — the tree keeps no
                                 parentheses, so none are printed),
                                 QASMParser._get_gate (`eval` of the printed text: python's
                                 precedence and left associativity decide the value)

  `unroll` is the printed token sequence; `evalFlat` is python's reading of a
  parenthesis-free arithmetic text, as a left-to-right machine (sum so far, product so
  far, pending unary minus signs).  Values are generic (`ν` with the four operations and
  negation; the driver instantiates IEEE doubles).  Import-free and executable.
-/
namespace QV.QasmExpr

inductive Op where
  | add | sub | mul | div
deriving DecidableEq, Repr, Inhabited

/-- `openqasm3.ast` expression: literal, the constant `pi`, identifier, unary minus,
binary operation -/
inductive Expr (ν : Type) where
  | num (v : ν)
  | pi
  | var (s : String)
  | neg (e : Expr ν)
  | bin (op : Op) (l r : Expr ν)
deriving Repr, Inhabited

inductive Tok (ν : Type) where
  | num (v : ν)
  | pi
  | var (s : String)
  | op (o : Op)          -- `-` is the same character for the unary and the binary minus
deriving Repr, Inhabited

/-- `_unroll_expression` -/
def unroll {ν : Type} : Expr ν → List (Tok ν)
  | .num v => [.num v]
  | .pi => [.pi]
  | .var s => [.var s]
  | .neg e => .op .sub :: unroll e
  | .bin o l r => unroll l ++ .op o :: unroll r

class Arith (ν : Type) where
  add : ν → ν → ν
  sub : ν → ν → ν
  mul : ν → ν → ν
  div : ν → ν → ν
  neg : ν → ν
  pi : ν

def applyOp {ν : Type} [Arith ν] : Op → ν → ν → ν
  | .add => Arith.add
  | .sub => Arith.sub
  | .mul => Arith.mul
  | .div => Arith.div

/-- the value the program text denotes (the tree as parsed by openqasm3) -/
def eval {ν : Type} [Arith ν] (env : String → ν) : Expr ν → ν
  | .num v => v
  | .pi => Arith.pi
  | .var s => env s
  | .neg e => Arith.neg (eval env e)
  | .bin o l r => applyOp o (eval env l) (eval env r)

def negN {ν : Type} [Arith ν] : Nat → ν → ν
  | 0, v => v
  | k + 1, v => negN k (Arith.neg v)

/-- python's evaluation state on a parenthesis-free text -/
structure St (ν : Type) where
  sum : Option ν := none       -- value of the terms closed so far
  addop : Op := .add           -- the pending `+` / `-`
  term : Option ν := none      -- value of the factors of the current term
  mulop : Op := .mul           -- the pending `*` / `/`
  negs : Nat := 0              -- pending unary minus signs
  expecting : Bool := true     -- an operand must follow
  err : Bool := false

def St.close {ν : Type} [Arith ν] (s : St ν) : Option ν :=
  match s.term with
  | none => none
  | some t =>
    match s.sum with
    | none => some t
    | some a => some (applyOp s.addop a t)

def St.atom {ν : Type} [Arith ν] (s : St ν) (v : ν) : St ν :=
  if s.expecting then
    let v' := negN s.negs v
    { s with term := some (match s.term with
                           | none => v'
                           | some t => applyOp s.mulop t v'),
             negs := 0, expecting := false }
  else { s with err := true }

def St.step {ν : Type} [Arith ν] (env : String → ν) (s : St ν) : Tok ν → St ν
  | .num v => s.atom v
  | .pi => s.atom Arith.pi
  | .var x => s.atom (env x)
  | .op .sub =>
    if s.expecting then { s with negs := s.negs + 1 }
    else { s with sum := s.close, addop := .sub, term := none, expecting := true }
  | .op .add =>
    if s.expecting then { s with err := true }
    else { s with sum := s.close, addop := .add, term := none, expecting := true }
  | .op o =>
    if s.expecting then { s with err := true } else { s with mulop := o, expecting := true }

def runToks {ν : Type} [Arith ν] (env : String → ν) (s : St ν) (ts : List (Tok ν)) : St ν :=
  ts.foldl (St.step env) s

/-- `eval(text)` (`none` = python raises a SyntaxError) -/
def evalFlat {ν : Type} [Arith ν] (env : String → ν) (ts : List (Tok ν)) : Option ν :=
  let s := runToks env {} ts
  if s.err || s.expecting then none else s.close

/-- the argument `_get_gate` passes on -/
def argValue {ν : Type} [Arith ν] (env : String → ν) (e : Expr ν) : Option ν :=
  evalFlat env (unroll e)

/-! ### expressions whose text needs no parentheses -/

/-- operand of a unary minus / right operand of `*`, `/` -/
def Expr.isFactor {ν : Type} : Expr ν → Bool
  | .num _ => true
  | .pi => true
  | .var _ => true
  | .neg e => e.isFactor
  | .bin _ _ _ => false

/-- right operand of `+`, `-` -/
def Expr.isTerm {ν : Type} : Expr ν → Bool
  | .bin .mul l r => l.isTerm && r.isFactor
  | .bin .div l r => l.isTerm && r.isFactor
  | .bin _ _ _ => false
  | e => e.isFactor

def Expr.isSum {ν : Type} : Expr ν → Bool
  | .bin .add l r => l.isSum && r.isTerm
  | .bin .sub l r => l.isSum && r.isTerm
  | e => e.isTerm

end QV.QasmExpr
