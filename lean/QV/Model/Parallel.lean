/-
  QV.Model.Parallel — executable model (import-free) of the three thread-pool helpers of
  src/qibo/parallel.py (property C14, "… through which parallel helper with how many workers").

  MODELLED (hand model, tied to /repo by the `parallel-model` suites of tools/props/C14.py, which
  run the REAL helpers under a harness-imposed schedule and replay the observed event trace here):

    parallel.py   parallel_execution            operation(state, circuit): ONE circuit object shared
                                                by all jobs, nothing copied, no parameter written
                  parallel_circuits_execution   operation(circuit, state): the circuit objects of the
                                                caller's list (the same object may be listed twice)
                  parallel_parametrized_execution
                                                operation(params, circuit.copy(deep=True), state):
                                                a DEEP COPY per job, `state = cast(state, copy=True)`,
                                                `circuit.set_parameters(params)`, execute
    backends/numpy.py  execute_circuit          reset of the measurement gates' shared results, the
                                                gate loop `state = gate.apply(state)` (every gate reads
                                                its parameter when it is applied), `circuit._final_state`
    models/circuit.py  Circuit.copy(deep=True)  new gate objects holding the source's parameters, new
                                                measurement gates (fresh shared results), no final state
                       Circuit.set_parameters   one write per trainable gate

  A job is a straight-line program of ATOMIC instructions (`prog`); the thread pool is a
  SCHEDULE = list of job numbers, each occurrence lets that job perform its next instruction
  (nothing if it has finished).  Every interleaving of k workers, for every k, is such a list.
  The heap holds the circuit objects: the parameter slot of every gate, which job last reset the
  measurement gates' shared results, and `_final_state` (as the number of the job that wrote it).
  Worker-local: program counter and the state vector being computed (`acc : S`, abstract; the
  driver instantiates it with the log of the parameter values the gates read).
-/
namespace QV.Par

/-- one circuit object, as far as the workers touch it. -/
structure Circ (V : Type) where
  /-- parameter slot of every gate of the queue -/
  params : List V
  /-- `gate.result.reset()`: the job that last reset the measurement gates' shared results -/
  resetBy : Option Nat := none
  /-- `circuit._final_state`: the job whose result it is -/
  final : Option Nat := none
deriving DecidableEq, Repr

/-- one task handed to the pool. -/
structure Job (V S : Type) where
  /-- address of the circuit object the worker is given -/
  circ : Nat
  /-- `circuit.copy(deep=True)`: the object at `circ` is first made a deep copy of this one -/
  copyFrom : Option Nat := none
  /-- `circuit.set_parameters`: (slot, value) writes, in order -/
  set : List (Nat × V) := []
  /-- length of the circuit's queue -/
  ngates : Nat
  /-- the initial state -/
  input : S
  /-- `state = backend.cast(state, copy=True)`: the worker is given a private copy of the
  caller's initial-state array (descriptive: inputs are values in this model) -/
  ownInput : Bool := false
deriving Repr

inductive Instr (V : Type)
  | copy (src : Nat)
  | setp (i : Nat) (v : V)
  | reset
  | gate (i : Nat)
  | finish
deriving DecidableEq, Repr

def copyInstrs {V : Type} : Option Nat → List (Instr V)
  | some s => [.copy s]
  | none => []

/-- the program of a job: [deep copy] ; parameter writes ; reset ; gate loop ; `_final_state`. -/
def prog {V S : Type} (j : Job V S) : List (Instr V) :=
  copyInstrs j.copyFrom ++ j.set.map (fun w => Instr.setp w.1 w.2) ++ [Instr.reset]
    ++ (List.range j.ngates).map Instr.gate ++ [Instr.finish]

structure Loc (S : Type) where
  pc : Nat := 0
  acc : S
deriving DecidableEq, Repr

structure St (V S : Type) where
  heap : List (Circ V)
  locs : List (Loc S)
deriving Repr

/-- the parameters of the object at address `a` (nothing if there is no such object). -/
def paramsAt {V : Type} (heap : List (Circ V)) (a : Nat) : List V :=
  match heap[a]? with
  | some c => c.params
  | none => []

def modifyAt {V : Type} (heap : List (Circ V)) (a : Nat) (f : Circ V → Circ V) : List (Circ V) :=
  match heap[a]? with
  | some c => heap.set a (f c)
  | none => heap

/-- one atomic instruction of job `jid` working on the object at address `a`. -/
def execInstr {V S : Type} (apply : Nat → Option V → S → S) (jid a : Nat) (ins : Instr V)
    (heap : List (Circ V)) (acc : S) : List (Circ V) × S :=
  match ins with
  | .copy src => (modifyAt heap a fun _ => { params := paramsAt heap src }, acc)
  | .setp i v => (modifyAt heap a fun c => { c with params := c.params.set i v }, acc)
  | .reset => (modifyAt heap a fun c => { c with resetBy := some jid }, acc)
  | .gate i => (heap, apply i ((paramsAt heap a)[i]?) acc)
  | .finish => (modifyAt heap a fun c => { c with final := some jid }, acc)

/-- job `j` performs its next instruction (nothing if it has finished or does not exist). -/
def step {V S : Type} (apply : Nat → Option V → S → S) (jobs : List (Job V S)) (σ : St V S)
    (j : Nat) : St V S :=
  match jobs[j]?, σ.locs[j]? with
  | some job, some loc =>
    match (prog job)[loc.pc]? with
    | some ins =>
      let r := execInstr apply j job.circ ins σ.heap loc.acc
      { heap := r.1, locs := σ.locs.set j { pc := loc.pc + 1, acc := r.2 } }
    | none => σ
  | _, _ => σ

/-- run a schedule. -/
def run {V S : Type} (apply : Nat → Option V → S → S) (jobs : List (Job V S)) (σ : St V S)
    (sched : List Nat) : St V S :=
  sched.foldl (step apply jobs) σ

def init {V S : Type} (heap : List (Circ V)) (jobs : List (Job V S)) : St V S :=
  { heap := heap, locs := jobs.map fun j => { pc := 0, acc := j.input } }

/-- what job `j` returns: its state once its program has ended. -/
def result {V S : Type} (jobs : List (Job V S)) (σ : St V S) (j : Nat) : Option S :=
  match jobs[j]?, σ.locs[j]? with
  | some job, some loc => if loc.pc = (prog job).length then some loc.acc else none
  | _, _ => none

/-- the list the helper returns (joblib hands results back in task order). -/
def results {V S : Type} (jobs : List (Job V S)) (σ : St V S) : List (Option S) :=
  (List.range jobs.length).map (result jobs σ)

/-- job `j` run alone, from start to end, on the initial heap. -/
def alone {V S : Type} (apply : Nat → Option V → S → S) (heap : List (Circ V))
    (jobs : List (Job V S)) (j : Nat) : St V S :=
  match jobs[j]? with
  | some job => run apply jobs (init heap jobs) (List.replicate (prog job).length j)
  | none => init heap jobs

/-- `[operation(job) for job in jobs]`: the schedule of a plain sequential loop. -/
def seqSched {V S : Type} (jobs : List (Job V S)) : List Nat :=
  (List.range jobs.length).flatMap fun j =>
    match jobs[j]? with
    | some job => List.replicate (prog job).length j
    | none => []

/-! ## the copy discipline -/

/-- does the job write parameters of the object it works on? -/
def Job.writer {V S : Type} (j : Job V S) : Bool := j.copyFrom.isSome || !j.set.isEmpty

/-- job `a` writes parameters that job `b` reads. -/
def clash {V S : Type} (a b : Job V S) : Bool :=
  a.writer && (a.circ == b.circ || b.copyFrom == some a.circ)

/-- no job writes the parameters of an object another job reads (as working object or as the
source of its copy). -/
def Disciplined {V S : Type} (jobs : List (Job V S)) : Prop :=
  ∀ (i j : Nat) (a b : Job V S), jobs[i]? = some a → jobs[j]? = some b → i ≠ j → clash a b = false

def disciplinedB {V S : Type} (jobs : List (Job V S)) : Bool :=
  (List.range jobs.length).all fun i => (List.range jobs.length).all fun j =>
    i == j || match jobs[i]?, jobs[j]? with
      | some a, some b => !clash a b
      | _, _ => true

/-- every job gets as many turns as its program is long. -/
def Complete {V S : Type} (jobs : List (Job V S)) (sched : List Nat) : Prop :=
  ∀ (j : Nat) (job : Job V S), jobs[j]? = some job → (prog job).length ≤ sched.count j

def completeB {V S : Type} (jobs : List (Job V S)) (sched : List Nat) : Bool :=
  (List.range jobs.length).all fun j =>
    match jobs[j]? with
    | some job => decide ((prog job).length ≤ sched.count j)
    | none => true

/-! ## closed form of a job run alone -/

/-- the parameter slots after the writes of `set_parameters`. -/
def applyWrites {V : Type} (ps : List V) : List (Nat × V) → List V
  | [] => ps
  | w :: ws => applyWrites (ps.set w.1 w.2) ws

/-- the parameters the gates of the job read when nobody interferes. -/
def expected {V S : Type} (heap : List (Circ V)) (job : Job V S) : List V :=
  applyWrites (paramsAt heap (job.copyFrom.getD job.circ)) job.set

/-- the gate loop over fixed parameters. -/
def gateLoop {V S : Type} (apply : Nat → Option V → S → S) (ps : List V) (n : Nat) (s : S) : S :=
  (List.range n).foldl (fun acc i => apply i ps[i]? acc) s

/-- `execute(circuit with the job's parameters, job's input)`. -/
def seqResult {V S : Type} (apply : Nat → Option V → S → S) (heap : List (Circ V))
    (job : Job V S) : S :=
  gateLoop apply (expected heap job) job.ngates job.input

/-! ## the three helpers: which objects the jobs are given -/

/-- `parallel_execution(circuit, states)`: the caller's object (address 0) for every job. -/
def parExecution {V S : Type} (ngates : Nat) (states : List S) : List (Job V S) :=
  states.map fun s => { circ := 0, ngates := ngates, input := s }

/-- `parallel_circuits_execution(circuits, states)`: `addrs` = the caller's objects, in list
order (equal addresses = the same object listed twice). -/
def parCircuits {V S : Type} (addrs : List (Nat × Nat)) (states : List S) (dflt : S) :
    List (Job V S) :=
  (List.zip addrs (states ++ List.replicate (addrs.length - states.length) dflt)).map fun as =>
    { circ := as.1.1, ngates := as.1.2, input := as.2 }

/-- `parallel_parametrized_execution(circuit, parameters, initial_state)`: job `j` works on the
fresh object at address `j + 1`, a deep copy of the caller's object (address 0). -/
def parParametrized {V S : Type} (ngates : Nat) (slots : List Nat) (params : List (List V))
    (input : S) : List (Job V S) :=
  (List.zip (List.range params.length) params).map fun jp =>
    { circ := jp.1 + 1, copyFrom := some 0, set := List.zip slots jp.2, ngates := ngates,
      input := input, ownInput := true }

/-- the same helper WITHOUT the copy (every worker is handed the caller's object). -/
def parParametrizedShared {V S : Type} (ngates : Nat) (slots : List Nat) (params : List (List V))
    (input : S) : List (Job V S) :=
  params.map fun p => { circ := 0, set := List.zip slots p, ngates := ngates, input := input }

/-- heap of `parallel_parametrized_execution`: the caller's object and one blank cell per job. -/
def paramHeap {V : Type} (c : Circ V) (njobs : Nat) : List (Circ V) :=
  c :: List.replicate njobs { params := [] }

/-! ## the ONE global random generator

`backend.sample_shots` draws from numpy's global generator (seeded by `backend.set_seed`).  An
execution of a plain circuit draws nothing (samples are drawn lazily by the accessors, after the
helper has returned); a repeated execution (noise channels on state vectors, collapsing
measurements) draws inside the worker, once or more per shot.  Here a job is the list of its
steps, `true` = the step consumes the next answer of the generator. -/

structure Tape where
  pcs : List Nat
  /-- how many answers have been consumed -/
  cursor : Nat := 0
  /-- per job: the positions (in the generator's stream) of the answers it was given -/
  got : List (List Nat)
deriving DecidableEq, Repr

def tapeStep (progs : List (List Bool)) (τ : Tape) (j : Nat) : Tape :=
  match progs[j]?, τ.pcs[j]?, τ.got[j]? with
  | some p, some pc, some g =>
    match p[pc]? with
    | some true =>
      { pcs := τ.pcs.set j (pc + 1), cursor := τ.cursor + 1, got := τ.got.set j (g ++ [τ.cursor]) }
    | some false => { τ with pcs := τ.pcs.set j (pc + 1) }
    | none => τ
  | _, _, _ => τ

def tapeInit (progs : List (List Bool)) : Tape :=
  { pcs := progs.map fun _ => 0, got := progs.map fun _ => [] }

def tapeRun (progs : List (List Bool)) (sched : List Nat) : Tape :=
  sched.foldl (tapeStep progs) (tapeInit progs)

/-- the schedule of the plain loop (one worker). -/
def tapeSeq (progs : List (List Bool)) : List Nat :=
  (List.range progs.length).flatMap fun j => List.replicate (progs.getD j []).length j

/-- the instance the driver runs: the "state" is the log of the parameter values the gates read
(`0` for a gate without slot), after the input's own log. -/
def logApply : Nat → Option Nat → List Nat → List Nat := fun _ v acc => acc ++ [v.getD 0]

end QV.Par
