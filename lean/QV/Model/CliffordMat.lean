/-
  QV.Model.CliffordMat — the gate matrices the tableau operations are meant to conjugate by,
  over the Gaussian integers (each is the documented qibo matrix times a positive real or
  unit-modulus scalar, which cancels in `U P U†`; the check compares them with `gate.matrix()`
  up to that scalar on every run), and the Pauli matrices of the local bits.  Import-free.
-/
import QV.Core.GI
import QV.Model.Clifford
namespace QV.Cliff
open QV

abbrev M2 := Fin 2 → Fin 2 → GI
abbrev M4 := Fin 4 → Fin 4 → GI

def gi (a b : Int) : GI := ⟨a, b⟩

def ofRows2 (r0 r1 : GI × GI) : M2 := fun i j =>
  let r := if i.val = 0 then r0 else r1
  if j.val = 0 then r.1 else r.2

def ofRows4 (rows : List (List GI)) : M4 := fun i j => (rows.getD i.val []).getD j.val 0

def mul2 (A B : M2) : M2 := fun i j => A i 0 * B 0 j + A i 1 * B 1 j
def mul4 (A B : M4) : M4 := fun i j => A i 0 * B 0 j + A i 1 * B 1 j + A i 2 * B 2 j + A i 3 * B 3 j

/-- Kronecker product, first factor = most significant qubit (qibo's convention). -/
def kron (A B : M2) : M4 := fun i j =>
  A ⟨i.val / 2, by omega⟩ ⟨j.val / 2, by omega⟩ * B ⟨i.val % 2, by omega⟩ ⟨j.val % 2, by omega⟩

def sgn (b : Bool) : GI := if b then gi (-1) 0 else gi 1 0

/-- σ(0,0)=I, σ(1,0)=X, σ(0,1)=Z, σ(1,1)=Y. -/
def sigma (x z : Bool) : M2 :=
  match x, z with
  | false, false => ofRows2 (gi 1 0, gi 0 0) (gi 0 0, gi 1 0)
  | true, false => ofRows2 (gi 0 0, gi 1 0) (gi 1 0, gi 0 0)
  | false, true => ofRows2 (gi 1 0, gi 0 0) (gi 0 0, gi (-1) 0)
  | true, true => ofRows2 (gi 0 0, gi 0 (-1)) (gi 0 1, gi 0 0)

/-- `i^e`. -/
def ipow (e : Int) : GI :=
  match (e % 4).toNat with
  | 0 => gi 1 0 | 1 => gi 0 1 | 2 => gi (-1) 0 | _ => gi 0 (-1)

/-! one-qubit gate matrices (name, angle index `k` for rotations by `k·π/2`) -/
def mat1 (name : String) (k : Int) : M2 :=
  let o := gi 0 0; let e := gi 1 0; let i := gi 0 1; let m := gi (-1) 0; let mi := gi 0 (-1)
  match name, res4 k with
  | "I", _ => ofRows2 (e, o) (o, e)
  | "H", _ => ofRows2 (e, e) (e, m)
  | "X", _ => ofRows2 (o, e) (e, o)
  | "Y", _ => ofRows2 (o, mi) (i, o)
  | "Z", _ => ofRows2 (e, o) (o, m)
  | "S", _ => ofRows2 (e, o) (o, i)
  | "SDG", _ => ofRows2 (e, o) (o, mi)
  | "SX", _ => ofRows2 (gi 1 1, gi 1 (-1)) (gi 1 (-1), gi 1 1)
  | "SXDG", _ => ofRows2 (gi 1 (-1), gi 1 1) (gi 1 1, gi 1 (-1))
  | "RX", 0 => ofRows2 (e, o) (o, e)
  | "RX", 1 => ofRows2 (e, mi) (mi, e)
  | "RX", 2 => ofRows2 (o, mi) (mi, o)
  | "RX", _ => ofRows2 (m, mi) (mi, m)
  | "RY", 0 => ofRows2 (e, o) (o, e)
  | "RY", 1 => ofRows2 (e, m) (e, e)
  | "RY", 2 => ofRows2 (o, m) (e, o)
  | "RY", _ => ofRows2 (m, m) (e, m)
  | "RZ", 0 => ofRows2 (e, o) (o, e)
  | "RZ", 1 => ofRows2 (gi 1 (-1), o) (o, gi 1 1)
  | "RZ", 2 => ofRows2 (mi, o) (o, i)
  | "RZ", _ => ofRows2 (gi (-1) (-1), o) (o, gi (-1) 1)
  | _, _ => ofRows2 (o, o) (o, o)

/-- two-qubit gate matrices on (first listed qubit, second listed qubit); rotations by `k·π`. -/
def mat2 (name : String) (k : Int) : M4 :=
  let o := gi 0 0; let e := gi 1 0; let i := gi 0 1; let m := gi (-1) 0; let mi := gi 0 (-1)
  let ctl (a b c d : GI) : M4 := ofRows4 [[e, o, o, o], [o, e, o, o], [o, o, a, b], [o, o, c, d]]
  match name, res4 k with
  | "CNOT", _ => ctl o e e o
  | "CZ", _ => ctl e o o m
  | "CY", _ => ctl o mi i o
  | "SWAP", _ => ofRows4 [[e, o, o, o], [o, o, e, o], [o, e, o, o], [o, o, o, e]]
  | "iSWAP", _ => ofRows4 [[e, o, o, o], [o, o, i, o], [o, i, o, o], [o, o, o, e]]
  | "FSWAP", _ => ofRows4 [[e, o, o, o], [o, o, e, o], [o, e, o, o], [o, o, o, m]]
  | "ECR", _ => ofRows4 [[o, o, e, i], [o, o, i, e], [e, mi, o, o], [mi, e, o, o]]
  | "CRX", 0 => ctl e o o e
  | "CRX", 1 => ctl o mi mi o
  | "CRX", 2 => ctl m o o m
  | "CRX", _ => ctl o i i o
  | "CRY", 0 => ctl e o o e
  | "CRY", 1 => ctl o m e o
  | "CRY", 2 => ctl m o o m
  | "CRY", _ => ctl o e m o
  | "CRZ", 0 => ctl e o o e
  | "CRZ", 1 => ctl mi o o i
  | "CRZ", 2 => ctl m o o m
  | "CRZ", _ => ctl i o o mi
  | _, _ => ofRows4 []

/-- a row carrying the local bits on qubit 0 (and 1), sign `+`. -/
def row1 (x z : Bool) : Row := ⟨fun k => k == 0 && x, fun k => k == 0 && z, false⟩
def row2 (xc zc xt zt : Bool) : Row :=
  ⟨fun k => (k == 0 && xc) || (k == 1 && xt), fun k => (k == 0 && zc) || (k == 1 && zt), false⟩

/-- "`U · P = ± P' · U`" for a one-qubit operation `f` on qubit 0 and matrix `U`. -/
def Conj1 (U : M2) (f : Row → Row) : Prop :=
  ∀ x z : Bool, ∀ i j : Fin 2,
    mul2 U (sigma x z) i j
      = sgn (f (row1 x z)).r * mul2 (sigma ((f (row1 x z)).x 0) ((f (row1 x z)).z 0)) U i j

/-- the same for a two-qubit operation on qubits (0, 1). -/
def Conj2 (U : M4) (f : Row → Row) : Prop :=
  ∀ xc zc xt zt : Bool, ∀ i j : Fin 4,
    mul4 U (kron (sigma xc zc) (sigma xt zt)) i j
      = sgn (f (row2 xc zc xt zt)).r *
          mul4 (kron (sigma ((f (row2 xc zc xt zt)).x 0) ((f (row2 xc zc xt zt)).z 0))
                     (sigma ((f (row2 xc zc xt zt)).x 1) ((f (row2 xc zc xt zt)).z 1))) U i j

instance (U : M2) (f : Row → Row) : Decidable (Conj1 U f) := by unfold Conj1; infer_instance
instance (U : M4) (f : Row → Row) : Decidable (Conj2 U f) := by unfold Conj2; infer_instance

end QV.Cliff
