/-
  QV.Model.Fusion — executable model of qibo's gate fusion and light-cone reduction
  (import-free apart from the trace-equivalence vocabulary and the simulator model).

  Transliterated from
    * `models/circuit.py`  `_Queue.to_fused`, `_Queue.from_fused`, `Circuit.fuse`,
                           `Circuit.light_cone`
    * `gates/special.py`   `FusedGate.from_gate / can_fuse / fuse / append / prepend`
    * `backends/numpy.py`  `matrix_fused`

  A node of the fusion graph is a `FusedGate` object; the model keeps the nodes in an
  array in queue order and refers to them by their index (Python object identity).  The
  Python dictionaries `left_neighbors` / `right_neighbors` / `last_gate` are association
  lists `qubit ↦ node index` with the dictionary operations `dget`, `dset`, `dpop`, `dvals`.
  Gates of the original circuit are referred to by their position in the original queue.
-/
import QV.Model.TraceEq
import QV.Model.Sim
namespace QV

/-! ### Python dictionaries and sets on small integers -/

abbrev Dict := List (Nat × Nat)

/-- `d.get(q)` -/
def dget (d : Dict) (q : Nat) : Option Nat := (d.find? (fun kv => kv.1 == q)).map (·.2)

/-- `d.pop(q)` -/
def dpop (d : Dict) (q : Nat) : Dict := d.filter (fun kv => kv.1 != q)

/-- `d[q] = v` -/
def dset (d : Dict) (q v : Nat) : Dict := (q, v) :: dpop d q

/-- `set(d.values())` as a duplicate-free list. -/
def dvals (d : Dict) : List Nat := (d.map (·.2)).eraseDups

/-- insertion into an ascending duplicate-free list. -/
def insertS (q : Nat) : List Nat → List Nat
  | [] => [q]
  | a :: l => if q < a then q :: a :: l else if q = a then a :: l else a :: insertS q l

/-- `sorted(a | b)` for `a` ascending duplicate-free. -/
def unionS (a b : List Nat) : List Nat := b.foldl (fun acc q => insertS q acc) a

/-- `sorted(set(qs))` -/
def sortS (qs : List Nat) : List Nat := unionS [] qs

/-! ### the fusion graph -/

/-- what fusion sees of a gate of the original queue: `gate.qubits` and whether it is an
ordinary gate (0), a measurement `M` (1) or a `SpecialGate` (2: callback gate, fused gate). -/
structure FIn where
  qs : List Nat
  kind : Nat
  deriving Repr, Inhabited

/-- a `FusedGate` object. -/
structure FNode where
  qubits : List Nat            -- `qubit_set`, ascending (= `target_qubits`)
  gates  : List Nat            -- member gates (positions in the original queue), in order
  marked : Bool
  left   : Dict                -- `left_neighbors`
  right  : Dict                -- `right_neighbors`
  deriving Repr, Inhabited

abbrev FState := Array FNode

def nodeAt (s : FState) (i : Nat) : FNode := s.getD i default

/-- `_Queue.to_fused`: one node per gate, neighbour maps per qubit. -/
def toFused (n : Nat) (queue : List FIn) : FState :=
  let step := fun (acc : FState × Dict × Nat) (g : FIn) =>
    let (s, last, i) := acc
    let qubits := if g.kind == 2 then List.range n else sortS g.qs
    let node : FNode := { qubits := qubits, gates := [i], marked := g.kind != 0, left := [], right := [] }
    let s := s.push node
    let (s, last) := qubits.foldl (fun (sl : FState × Dict) q =>
      let (s, last) := sl
      let s := match dget last q with
        | some nb =>
          (s.modify i (fun nd => { nd with left := dset nd.left q nb })).modify nb
            (fun nd => { nd with right := dset nd.right q i })
        | none => s
      (s, dset last q i)) (s, last)
    (s, last, i + 1)
  (queue.foldl step (#[], [], 0)).1

/-- `FusedGate.can_fuse` (with `gate is None` handled by the caller's `Option`). -/
def canFuse (s : FState) (a : Nat) (ob : Option Nat) (maxq : Nat) : Bool :=
  match ob with
  | none => false
  | some b =>
    !(nodeAt s a).marked && !(nodeAt s b).marked &&
      (unionS (nodeAt s a).qubits (nodeAt s b).qubits).length ≤ maxq

/-- for q in qs: `nb = child.<side>.get(q)`; if found `parent.<side>[q] = nb; nb.<other>[q] = parent` -/
def linkRight (s : FState) (parent child q : Nat) : FState :=
  match dget (nodeAt s child).right q with
  | some nb =>
    (s.modify parent (fun nd => { nd with right := dset nd.right q nb })).modify nb
      (fun nd => { nd with left := dset nd.left q parent })
  | none => s

def linkLeft (s : FState) (parent child q : Nat) : FState :=
  match dget (nodeAt s child).left q with
  | some nb =>
    (s.modify parent (fun nd => { nd with left := dset nd.left q nb })).modify nb
      (fun nd => { nd with right := dset nd.right q parent })
  | none => s

/-- the final block of `FusedGate.fuse` (qubits of the child that are not shared). -/
def rewire (s : FState) (parent child : Nat) (qs : List Nat) : FState :=
  qs.foldl (fun s q => linkLeft (linkRight s parent child q) parent child q) s

/-- `a.fuse(b)`: `a` is the earlier node (`self`), `b` the later one (`gate`). -/
def fuseNodes (s : FState) (a b : Nat) : FState :=
  let A := nodeAt s a
  let B := nodeAt s b
  let leftGates := (dvals A.right).filter (· != b)
  let rightGates := (dvals B.left).filter (· != a)
  if leftGates.length > 0 && rightGates.length > 0 then s else
  let shared := A.qubits.filter (fun q => B.qubits.contains q)
  if leftGates.length > rightGates.length then
    -- parent = a (self), child = b
    if !shared.isEmpty && shared.all (fun q => dget A.right q == some b) then
      let s := s.modify b (fun nd => { nd with marked := true })
      let s := s.modify a (fun nd =>
        { nd with qubits := unionS nd.qubits B.qubits, gates := nd.gates ++ B.gates })
      let s := shared.foldl (fun s q =>
        match dget (nodeAt s b).right q with
        | some nb =>
          (s.modify a (fun nd => { nd with right := dset nd.right q nb })).modify nb
            (fun nd => { nd with left := dset nd.left q a })
        | none => s.modify a (fun nd => { nd with right := dpop nd.right q })) s
      rewire s a b ((nodeAt s b).qubits.filter (fun q => !shared.contains q))
    else s
  else
    -- parent = b (gate), child = a
    if !shared.isEmpty && shared.all (fun q => dget B.left q == some a) then
      let s := s.modify a (fun nd => { nd with marked := true })
      let s := s.modify b (fun nd =>
        { nd with qubits := unionS nd.qubits A.qubits, gates := A.gates ++ nd.gates })
      let s := shared.foldl (fun s q => linkLeft s b a q) s
      rewire s b a ((nodeAt s a).qubits.filter (fun q => !shared.contains q))
    else s

/-- body of the inner loop of `Circuit.fuse` for node `i` and qubit `q`. -/
def fuseAt (maxq : Nat) (i : Nat) (s : FState) (q : Nat) : FState :=
  let nb := dget (nodeAt s i).right q
  let s := if canFuse s i nb maxq then fuseNodes s i (nb.getD 0) else s
  let nb := dget (nodeAt s i).left q
  if canFuse s i nb maxq then fuseNodes s (nb.getD 0) i else s

/-- the double loop of `Circuit.fuse` (`gate.qubits` is read once per outer iteration). -/
def fuseLoop (maxq : Nat) (s : FState) : FState :=
  (List.range s.size).foldl (fun s i =>
    if (nodeAt s i).marked then s else (nodeAt s i).qubits.foldl (fuseAt maxq i) s) s

/-- `_Queue.from_fused`: the groups of the fused queue, each a list of original positions
(a group of length 1 is the original gate itself, a longer one is a `FusedGate`). -/
def fromFused (queue : List FIn) (s : FState) : List (List Nat) :=
  s.toList.filterMap (fun nd =>
    if !nd.marked then some nd.gates
    else match nd.gates with
      | g :: _ => if (queue.getD g default).kind != 0 then some [g] else none
      | [] => none)

/-- `Circuit.fuse(max_qubits)` on the level of gate positions. -/
def fuseModel (n maxq : Nat) (queue : List FIn) : List (List Nat) :=
  fromFused queue (fuseLoop maxq (toFused n queue))

/-- qubits of a group of the fused queue (`FusedGate.target_qubits`). -/
def groupQubits (queue : List FIn) (grp : List Nat) : List Nat :=
  grp.foldl (fun acc g => unionS acc (queue.getD g default).qs) []

/-- the gates of the original queue as items for trace equivalence (a special gate touches
every qubit: it is a barrier). -/
def tgates (n : Nat) (queue : List FIn) : List TGate :=
  (List.range queue.length).map (fun i =>
    let g := queue.getD i default
    { id := i, qs := if g.kind == 2 then List.range n else g.qs })

/-! ### light cone -/

/-- `Circuit.light_cone`: backward sweep over the REVERSED queue `rq`; returns the gates of
the cone (in the order they are collected, i.e. reversed queue order), the gates left out
(same order) and the final qubit set. -/
def coneSweep {G : Type} (supp : G → List Nat) : List G → List Nat → List G × List G × List Nat
  | [], qs => ([], [], qs)
  | g :: r, qs =>
    if disjointB (supp g) qs then
      let (c, o, Q) := coneSweep supp r qs
      (c, g :: o, Q)
    else
      let (c, o, Q) := coneSweep supp r (qs ++ supp g)
      (g :: c, o, Q)

/-- gates of the light-cone circuit in queue order, the gates left out in queue order, and
the sorted cone qubits (`qubit_map` sends the i-th of them to i). -/
def lightCone {G : Type} (supp : G → List Nat) (queue : List G) (S : List Nat) :
    List G × List G × List Nat :=
  let (c, o, Q) := coneSweep supp queue.reverse S
  (c.reverse, o.reverse, sortS Q)

/-! ### matrix of a fused group (`matrix_fused`) -/

section
variable {α : Type} [Zero α] [One α] [Add α] [Mul α]

/-- label whose bits on the ordered qubit list `Q` spell the local index `i`. -/
def Lab.ofLocal (Q : List Nat) (i : Nat) : Lab := Lab.withIdx (fun _ => false) Q i

/-- entry `(i, j)` of the gate's matrix enlarged to the ordered qubit list `Q`:
`block_diag(1, M)` on (controls, targets), Kronecker identity on the other qubits of `Q`,
axes transposed to the positions of the gate's qubits. -/
def embedEntry (Q : List Nat) (g : MGate α) (i j : Nat) : α :=
  let x := Lab.ofLocal Q i
  let y := Lab.ofLocal Q j
  let own := g.controls ++ g.targets
  if (Q.filter (fun q => !own.contains q)).all (fun q => x q == y q) then
    if Lab.allOne g.controls x && Lab.allOne g.controls y then
      g.mat (Lab.idx g.targets x) (Lab.idx g.targets y)
    else if own.all (fun q => x q == y q) then 1 else 0
  else 0

def sumRange (d : Nat) (f : Nat → α) : α := (List.range d).foldl (fun acc k => acc + f k) 0

def matMul (d : Nat) (A B : Nat → Nat → α) : Nat → Nat → α :=
  fun i j => sumRange d (fun k => A i k * B k j)

/-- `matrix_fused`: product of the enlarged member matrices, later members on the left. -/
def fusedMat (Q : List Nat) (gs : List (MGate α)) : Nat → Nat → α :=
  gs.foldl (fun M g => matMul (2 ^ Q.length) (embedEntry Q g) M) (fun i j => if i = j then 1 else 0)

/-- the fused gate as the simulator sees it. -/
def fusedGate (Q : List Nat) (gs : List (MGate α)) : MGate α :=
  { mat := fusedMat Q gs, targets := Q, controls := [] }

/-- partial trace of a density matrix over the listed qubits: the reduced state on the
remaining qubits, as a function of a row label and a column label (only their bits outside
`T` matter). -/
def ptrace : List Nat → DM α → DM α
  | [], ρ => ρ
  | q :: T, ρ => fun x y =>
      ptrace T ρ (x.set q false) (y.set q false) + ptrace T ρ (x.set q true) (y.set q true)

end

end QV
