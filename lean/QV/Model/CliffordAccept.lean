/-
  QV.Model.CliffordAccept — executable model of `CliffordBackend.execute_circuit`
  (`backends/clifford.py`, numpy engine, one execution: `nshots = 1` or no repeated execution).

  A queue entry is seen by the backend through
    * `gate.clifford`                      (the flag),
    * the engine function named after the class applied to `init_args` (+ `theta`): present or
      not (no function of that name / the engine refuses the angle),
    * for `M`: the target qubits and `collapse`,
    * for `PauliNoiseChannel`: the Pauli drawn for this run.
  The acceptance loop raises `RuntimeError` for an entry that is neither flagged nor an `M` nor a
  `PauliNoiseChannel`; then the state is `zero_state(n)` or the given `initial_state` and every
  entry is applied in order (`gate.apply_clifford`): the tableau update of the gate; nothing for a
  non-collapsing `M`; `M(state, sorted(target_qubits), n, collapse=True)` for a collapsing one,
  the outcomes being reported in the order of `target_qubits`.  Import-free.
-/
import QV.Model.Clifford
namespace QV.Cliff

inductive QItem where
  /-- any gate other than `M` / `PauliNoiseChannel`: its flag and the engine operation. -/
  | gate (flag : Bool) (op : Option Gate)
  | meas (qs : List Nat) (collapse : Bool)
  /-- `PauliNoiseChannel` with the Pauli drawn in this run (`none`: no error). -/
  | noise (drawn : Option Gate)

/-- the condition under which the acceptance loop raises. -/
def QItem.refuses : QItem → Bool
  | .gate flag _ => !flag
  | _ => false

/-- the acceptance loop of `execute_circuit` does not raise. -/
def accepts (c : List QItem) : Bool := c.all (fun it => !it.refuses)

def insertNat (a : Nat) : List Nat → List Nat
  | [] => [a]
  | b :: l => if a ≤ b then a :: b :: l else b :: insertNat a l

/-- `sorted(target_qubits)`. -/
def sortNat (l : List Nat) : List Nat := l.foldr insertNat []

/-- `qubits.index(q)`. -/
def indexIn (q : Nat) : List Nat → Nat
  | [] => 0
  | a :: l => if a = q then 0 else indexIn q l + 1

/-- `Gate.apply_clifford` / `M.apply_clifford` / `apply_channel` for the queue in order; `none`: the
engine has no operation for a flagged gate (an exception other than the refusal). -/
def execItems (n : Nat) : List QItem → Tableau → List Bool → List (List Bool) →
    Option (Tableau × List (List Bool))
  | [], T, _, outs => some (T, outs)
  | .gate _ (some g) :: rest, T, coins, outs => execItems n rest (applyGate g T) coins outs
  | .gate _ none :: _, _, _, _ => none
  | .meas _ false :: rest, T, coins, outs => execItems n rest T coins outs
  | .meas qs true :: rest, T, coins, outs =>
    let sq := sortNat qs
    let r := measure n T sq (coins.take sq.length)
    let bits := qs.map fun q => (r.2.getD (indexIn q sq) (false, false)).1
    execItems n rest r.1 (coins.drop sq.length) (outs ++ [bits])
  | .noise (some g) :: rest, T, coins, outs => execItems n rest (applyGate g T) coins outs
  | .noise none :: rest, T, coins, outs => execItems n rest T coins outs

inductive Res where
  /-- `RuntimeError("Circuit contains non-Clifford gates.")`. -/
  | refused
  /-- accepted, but the engine has no Clifford operation for a flagged gate (other exception). -/
  | engineError
  /-- final tableau and the outcomes of the collapsing measurements. -/
  | done (T : Tableau) (outs : List (List Bool))

/-- `CliffordBackend.execute_circuit(circuit, initial_state)`; `coins` are the random bits. -/
def execute (n : Nat) (init : Option Tableau) (c : List QItem) (coins : List Bool) : Res :=
  if accepts c then
    match execItems n c (init.getD (zeroState n)) coins [] with
    | some (T, outs) => .done T outs
    | none => .engineError
  else .refused

/-- one shot of `execute_circuit_repeated` (and the single run followed by `samples()`): the queue
from `initial_state` — the SAME for every shot — then `sample_shots` (no collapse) of the qubits
of the final measurements on the tableau of this shot.  `coins` feed the collapsing measurements,
`fcoins` the final sample. -/
def shotOf (n : Nat) (init : Option Tableau) (c : List QItem) (finalQs : List Nat)
    (coins fcoins : List Bool) : Res × List Bool :=
  match execute n init c coins with
  | .done T outs => (.done T outs, (measure n T finalQs fcoins).2.map Prod.fst)
  | r => (r, [])

/-- `execute_circuit_repeated(circuit, nshots, initial_state)`: one `shotOf` per shot, each with
its own random bits. -/
def executeRepeated (n : Nat) (init : Option Tableau) (c : List QItem) (finalQs : List Nat)
    (shots : List (List Bool × List Bool)) : List (Res × List Bool) :=
  shots.map fun s => shotOf n init c finalQs s.1 s.2

/-- the tableau operations of the entries that change the state unitarily. -/
def opsOf : List QItem → List Gate
  | [] => []
  | .gate _ (some g) :: rest => g :: opsOf rest
  | .noise (some g) :: rest => g :: opsOf rest
  | _ :: rest => opsOf rest

/-- entries without collapse and with an engine operation. -/
def QItem.unitary : QItem → Bool
  | .gate _ (some _) => true
  | .meas _ false => true
  | .noise _ => true
  | _ => false

end QV.Cliff
