/-
  QV.Model.CircuitAdd — executable model (import-free) of the measurement bookkeeping of
  `Circuit.add` (models/circuit.py), property C03.

  MODELLED (hand transliteration, tied to /repo by the `ADD` correspondence suite of
  tools/props/C03.py through lean/DriverC03.lean):

    Circuit.add            the `isinstance(gate, gates.M)` branch (basis-rotation gates added
                           first, queue append, default register name `register<k>` with
                           k = number of M gates already in the queue, duplicate-name rejection
                           (explicit names only) against the measurements that are still terminal, `has_collapse`,
                           `measurements.append`) and the ordinary-gate branch (queue append, the
                           loop over `list(self.measurements)` that turns every terminal
                           measurement sharing a qubit with the new gate into a collapsing one
                           and removes it from `self.measurements`)
    Circuit.measurement_tuples   `{m.register_name: m.target_qubits for m in self.measurements}`

  A gate object is identified with its position in the queue; the mutable attribute
  `gate.collapse` is the store `St.coll`.  Register names are values of an arbitrary type `ν`
  with decidable equality; `dflt k` is the default name `f"register{k}"`.
-/
namespace QV.CAdd

/-- `set(a) & set(b)` is non-empty. -/
def touches (a b : List Nat) : Bool := a.any fun q => b.contains q

/-- what is handed to `Circuit.add`. -/
inductive Item (ν : Type)
  /-- any gate that is not a measurement; `qubits = control_qubits + target_qubits` -/
  | gate (qubits : List Nat)
  /-- `gates.M(*targets, register_name=name, collapse=collapse)` -/
  | meas (targets : List Nat) (name : Option ν) (collapse : Bool)
  /-- a measurement in another basis: `rot` are the qubits that get a basis-rotation gate
  (added to the circuit right before the measurement itself) -/
  | measB (targets : List Nat) (name : Option ν) (collapse : Bool) (rot : List Nat)

/-- static data of a queued gate. -/
structure Entry (ν : Type) where
  isM : Bool
  qubits : List Nat
  /-- `register_name` after `add` (meaningless for ordinary gates) -/
  name : Option ν
  /-- `collapse` as given to the constructor -/
  collapse0 : Bool

structure St (ν : Type) where
  queue : List (Entry ν) := []
  /-- current value of `queue[i].collapse` -/
  coll : Nat → Bool := fun _ => false
  /-- `circuit.measurements`, as positions in the queue -/
  meas : List Nat := []
  hasCollapse : Bool := false

variable {ν : Type} [DecidableEq ν]

def qubitsAt (q : List (Entry ν)) (p : Nat) : List Nat :=
  match q[p]? with
  | some e => e.qubits
  | none => []

def nameAt (q : List (Entry ν)) (p : Nat) : Option ν :=
  match q[p]? with
  | some e => e.name
  | none => none

/-- `self.queue.nmeasurements` -/
def nMeas (q : List (Entry ν)) : Nat := q.countP fun e => e.isM

/-- body of the loop `for measurement in list(self.measurements): …` for one measurement. -/
def hitStep (q : List (Entry ν)) (qs : List Nat) (st : St ν) (p : Nat) : St ν :=
  if touches (qubitsAt q p) qs then
    { st with coll := fun i => if i = p then true else st.coll i,
              meas := st.meas.erase p,
              hasCollapse := true }
  else st

/-- `Circuit.add(gate)` for an ordinary gate on `qs`. -/
def addGate (s : St ν) (qs : List Nat) : St ν :=
  let q := s.queue ++ [{ isM := false, qubits := qs, name := none, collapse0 := false }]
  s.meas.foldl (hitStep q qs) { s with queue := q }

/-- `Circuit.add(M(*ts, register_name=name, collapse=c))` (basis Z); `none` = `KeyError`.
Only an EXPLICIT name is checked against the existing registers. -/
def addMeas (dflt : Nat → ν) (s : St ν) (ts : List Nat) (name : Option ν) (c : Bool) :
    Option (St ν) :=
  let pos := s.queue.length
  let nm : Option ν :=
    match name with
    | none => some (dflt (nMeas s.queue))
    | some x => if s.meas.any (fun p => nameAt s.queue p == some x) then none else some x
  match nm with
  | none => none
  | some x =>
    some { queue := s.queue ++ [{ isM := true, qubits := ts, name := some x, collapse0 := c }],
           coll := fun i => if i = pos then c else s.coll i,
           meas := if c then s.meas else s.meas ++ [pos],
           hasCollapse := s.hasCollapse || c }

def addItem (dflt : Nat → ν) (s : St ν) : Item ν → Option (St ν)
  | .gate qs => some (addGate s qs)
  | .meas ts nm c => addMeas dflt s ts nm c
  | .measB ts nm c rot => addMeas dflt (rot.foldl (fun st q => addGate st [q]) s) ts nm c

/-- add the items in order to a state. -/
def runFrom (dflt : Nat → ν) : St ν → List (Item ν) → Option (St ν)
  | s, [] => some s
  | s, x :: xs =>
    match addItem dflt s x with
    | none => none
    | some s' => runFrom dflt s' xs

/-- an empty circuit, then `add` of every item. -/
def run (dflt : Nat → ν) (l : List (Item ν)) : Option (St ν) := runFrom dflt {} l

/-- what actually enters the queue: basis rotations are ordinary one-qubit gates. -/
def flat : List (Item ν) → List (Item ν)
  | [] => []
  | .measB ts nm c rot :: xs => rot.map (fun q => Item.gate [q]) ++ .meas ts nm c :: flat xs
  | x :: xs => x :: flat xs

/-! ### dict semantics of `measurement_tuples` -/

section Dict
variable {V : Type}

/-- `d[k] = v` on an insertion-ordered dict. -/
def dictInsert (d : List (ν × V)) (k : ν) (v : V) : List (ν × V) :=
  if d.any (fun e => e.1 == k) then d.map (fun e => if e.1 == k then (k, v) else e)
  else d ++ [(k, v)]

/-- `{k: v for k, v in l}` -/
def dictOf (l : List (ν × V)) : List (ν × V) := l.foldl (fun d e => dictInsert d e.1 e.2) []

end Dict

/-- `circuit.measurement_tuples` (register names of terminal measurements are never `None`). -/
def measurementTuples (s : St ν) : List (Option ν × List Nat) :=
  dictOf (s.meas.map fun p => (nameAt s.queue p, qubitsAt s.queue p))

/-! ### SPEC -/

/-- is `x` an ordinary gate sharing a qubit with `ts`? -/
def Item.gateTouching (x : Item ν) (ts : List Nat) : Bool :=
  match x with
  | .gate qs => touches ts qs
  | _ => false

def Item.qubits : Item ν → List Nat
  | .gate qs => qs
  | .meas ts _ _ => ts
  | .measB ts _ _ _ => ts

/-- SPEC: some LATER ordinary gate of the (flat) item list touches a qubit of item `i`. -/
def touchedLater (l : List (Item ν)) (i : Nat) : Bool :=
  match l[i]? with
  | some x => (l.drop (i + 1)).any fun y => y.gateTouching x.qubits
  | none => false

/-- SPEC: the `collapse` attribute of queue element `i` once everything has been added. -/
def collSpec (l : List (Item ν)) (i : Nat) : Bool :=
  match l[i]? with
  | some (.meas _ _ c) => c || touchedLater l i
  | _ => false

/-- SPEC: item `i` is a terminal measurement. -/
def isFinal (l : List (Item ν)) (i : Nat) : Bool :=
  match l[i]? with
  | some (.meas _ _ c) => !c && !touchedLater l i
  | _ => false

def Item.isMeas : Item ν → Bool
  | .meas .. => true
  | _ => false

/-- number of measurement gates among the first `i` items. -/
def mIndex (l : List (Item ν)) (i : Nat) : Nat := (l.take i).countP Item.isMeas

/-- SPEC: register name of item `i`. -/
def nameSpec (dflt : Nat → ν) (l : List (Item ν)) (i : Nat) : Option ν :=
  match l[i]? with
  | some (.meas _ (some x) _) => some x
  | some (.meas _ none _) => some (dflt (mIndex l i))
  | _ => none

/-! ### the seeded defect, as a model (used only for negative witnesses) -/

/-- `for measurement in self.measurements:` WITHOUT the `list(...)` copy: Python's list
iterator keeps an index into the list that is being shrunk. -/
def skippingLoop (q : List (Entry ν)) (qs : List Nat) : Nat → Nat → St ν → St ν
  | 0, _, st => st
  | fuel + 1, i, st =>
    match st.meas[i]? with
    | none => st
    | some p => skippingLoop q qs fuel (i + 1) (hitStep q qs st p)

def addGateSkipping (s : St ν) (qs : List Nat) : St ν :=
  let q := s.queue ++ [{ isM := false, qubits := qs, name := none, collapse0 := false }]
  skippingLoop q qs s.meas.length 0 { s with queue := q }

end QV.CAdd
