/-
  QV.Model.ZYZ — the matrix of `gates.U3(θ, φ, λ)` (`backends/npmatrices.py::U3`) written as an
  expression matrix in the parameters `0, 1, 2`, in the shape used by QV/Proofs/ZYZ.lean (`u3Mat`).
  Mathlib-free: the generated obligation `C10_u3_matrix` compares it, for all parameter values,
  with the matrix traced from the real `gates.U3` on every run.
-/
import QV.Core.Sym
namespace QV.ZYZ

def u3Ex : List (List Ex) :=
  let cost := Ex.cos (.div (.par 0) (.rat 2 1))
  let sint := Ex.sin (.div (.par 0) (.rat 2 1))
  let eplus := Ex.exp (.div (.mul .I (.add (.par 1) (.par 2))) (.rat 2 1))
  let eminus := Ex.exp (.div (.mul .I (.sub (.par 1) (.par 2))) (.rat 2 1))
  [[.mul (.conj eplus) cost, .mul (.neg (.conj eminus)) sint],
   [.mul eminus sint, .mul eplus cost]]

end QV.ZYZ
