/-
  QV.Model.Linalg — executable model of the axis bookkeeping in
  qibo/quantum_info/linalg_operations.py : `partial_trace` (state-vector branch and
  density-matrix branch), `partial_transpose`, the reshape/transpose of
  `schmidt_decomposition`; plus the purity-type contractions of metrics.py that are pure
  index bookkeeping (`purity`, the pure-state shortcut `tr(ρσ)`, `|⟨ψ|φ⟩|²`,
  Hilbert–Schmidt inner product).  Generic in the scalar type (Gaussian integers in the
  driver, a commutative (semi)ring in the proofs).  Import-free apart from the label
  vocabulary and the `DM` abbreviation of the simulator model.

  How numpy tensors are read (DESIGN §2.3): an array of shape `(2,)*n` (or `(2**n,)`) is a
  function of a label `x : Lab` (qubit 0 = most significant bit), a `(2**n, 2**n)` matrix a
  function of a row label and a column label.  Row-major `reshape` never moves data, so
    * `transpose(t, order)` followed by `reshape(2**a, 2**b)` with `order = A ++ B` is the
      matrix  `(i, j) ↦ t (label with the bits of i on the ordered list A, of j on B)`,
      i.e. `Lab.withIdx (Lab.withIdx 0 B j) A i`;
    * `tensordot(u, v, axes=[T, T])` sums over all assignments of the qubits in `T`
      (paired position-wise) and keeps the remaining axes of `u`, then of `v`, in ascending
      order;
    * `einsum("abac->bc")` is the sum over the first index of both pairs.
-/
import QV.Core.Bits
import QV.Model.Sim
namespace QV
namespace Linalg

variable {α : Type} [Zero α] [Add α] [Mul α]

/-- the all-zero label. -/
def zeroLab : Lab := fun _ => false

/-- `Σ_{k<d} f k` as an executable fold. -/
def sumTo (d : Nat) (f : Nat → α) : α := (List.range d).foldl (fun acc k => acc + f k) 0

/-- insertion of one qubit index into an ascending list (Python `sorted`). -/
def insertAsc (q : Nat) : List Nat → List Nat
  | [] => [q]
  | r :: rs => if q ≤ r then q :: r :: rs else r :: insertAsc q rs

def sortAsc (l : List Nat) : List Nat := l.foldr insertAsc []

/-- `tuple(set(range(n)) ^ set(traced))` for `traced ⊆ range n`: the kept qubits, ascending. -/
def kept (n : Nat) (traced : List Nat) : List Nat :=
  (List.range n).filter (fun q => !traced.contains q)

/-- label with local index `a` on the ordered list `A` and `b` on the ordered list `B`. -/
def lab2 (A B : List Nat) (a b : Nat) : Lab := Lab.withIdx (Lab.withIdx zeroLab B b) A a

/-- **density-matrix branch of `partial_trace`.**
    `order = sorted(traced) + kept`, `transpose(state, order + (order + n))`,
    `reshape(2^t, 2^k, 2^t, 2^k)`, `einsum("abac->bc")`. -/
def partialTraceDM (n : Nat) (traced : List Nat) (ρ : DM α) : Nat → Nat → α :=
  let ts := sortAsc traced
  let ks := kept n traced
  fun b c => sumTo (2 ^ ts.length) (fun a => ρ (lab2 ts ks a b) (lab2 ts ks a c))

/-- **state-vector branch of `partial_trace`.**
    `tensordot(state, conj(state), axes=[traced, traced])` then `reshape(2^k, 2^k)`:
    the traced qubits are contracted in the order they are listed. -/
def partialTraceSV (conj : α → α) (n : Nat) (traced : List Nat) (ψ : Lab → α) : Nat → Nat → α :=
  let ks := kept n traced
  fun b c => sumTo (2 ^ traced.length)
    (fun a => ψ (lab2 traced ks a b) * conj (ψ (lab2 traced ks a c)))

/-- result dimension of both branches. -/
def keptDim (n : Nat) (traced : List Nat) : Nat := 2 ^ (n - traced.length)

/-! ### partial transpose -/

/-- the axis permutation `new_shape` the Python loop builds (batch axis dropped): among the
`2n` axes (row qubits `0..n-1`, column qubits `n..2n-1`) the loop does, for every `ind` of
the partition in turn, `new_shape[ind] = ind + n; new_shape[ind + n] = ind`. -/
def axesPT (n : Nat) (P : List Nat) : Nat → Nat :=
  P.foldl (fun f ind => fun m => if m = ind + n then ind else if m = ind then ind + n else f m) id

/-- row label and column label glued into one label of the `2n` axes, and back. -/
def joinLab (n : Nat) (x y : Lab) : Lab := fun m => if m < n then x m else y (m - n)
def rowPart (n : Nat) (z : Lab) : Lab := fun q => q < n && z q
def colPart (n : Nat) (z : Lab) : Lab := fun q => q < n && z (q + n)

/-- **`partial_transpose`**: `reshape([2]*2n)`, `transpose(new_shape)`, `reshape(d, d)`.
`np.transpose(t, axes)[i] = t[j]` with `j[axes[k]] = i[k]`; `new_shape` is an involution
(`axesPT_invol` in the proofs), so `j[m] = i[new_shape[m]]`. -/
def partialTranspose (n : Nat) (P : List Nat) (ρ : DM α) : DM α := fun x y =>
  let z := joinLab n x y
  let z' : Lab := fun m => z (axesPT n P m)
  ρ (rowPart n z') (colPart n z')

/-! ### Schmidt reshape -/

/-- **`schmidt_decomposition`** before the SVD: `reshape([2]*n)`,
`transpose(partition + partition_2)` with `partition_2` the remaining qubits ascending,
`reshape(2^|partition|, -1)`. -/
def schmidtMat (n : Nat) (P : List Nat) (ψ : Lab → α) : Nat → Nat → α :=
  fun a b => ψ (lab2 P (kept n P) a b)

/-! ### contractions of metrics.py -/

/-- `purity` of a density matrix: `real(trace(state @ state))` before taking the real part. -/
def purityDM (d : Nat) (ρ : Nat → Nat → α) : α :=
  sumTo d (fun i => sumTo d (fun k => ρ i k * ρ k i))

/-- squared norm `Σ ψ_i conj ψ_i` (`calculate_vector_norm(state)**2` before rounding). -/
def normSq (conj : α → α) (d : Nat) (ψ : Nat → α) : α := sumTo d (fun i => ψ i * conj (ψ i))

/-- the pure-state shortcut of `fidelity` for matrices: `trace(state @ target)`. -/
def traceProd (d : Nat) (ρ σ : Nat → Nat → α) : α :=
  sumTo d (fun i => sumTo d (fun k => ρ i k * σ k i))

/-- the state-vector shortcut: the overlap `conj(state) @ target` (its squared modulus is the
fidelity). -/
def overlap (conj : α → α) (d : Nat) (ψ φ : Nat → α) : α := sumTo d (fun i => conj (ψ i) * φ i)

/-- `hilbert_schmidt_inner_product`: `trace(conj(A.T) @ B)` before the real part. -/
def hsInner (conj : α → α) (d : Nat) (A B : Nat → Nat → α) : α :=
  sumTo d (fun i => sumTo d (fun k => conj (A k i) * B k i))

end Linalg
end QV
