/-
  QV.Model.Unroller — executable model of qibo's native-gate unrolling
  (`transpiler/unroller.py`: `NativeGates`, `Unroller.__call__`, `translate_gate`,
  `_translate_single_qubit_gates`, `_translate_two_qubit_gates`;
  `transpiler/decompositions.py`: `GateDecompositions.__call__/_check_instance/count_2q/
  count_1q`; `transpiler/asserts.py`: `assert_decomposition`).  Import-free.

  The translation TABLES (`gpi2_dec`, `u3_dec`, `cz_dec`, `iswap_dec`, `opt_dec`,
  `cnot_dec_temp`) are a parameter of the model: the dispatch is modelled over an
  arbitrary table, the real tables' contents are regenerated from the source by the
  tracing translator (per-entry kernel obligations) and their shape is fed to the driver
  on every run.

  A gate is what the dispatch looks at: its class, its qubits (qibo order), an opaque
  tag standing for its parameter values, and whether it carries `controlled_by` controls.
-/
namespace QV.Unroll

structure UGate where
  cls    : Nat
  qubits : List Nat
  tag    : Nat := 0
  cb     : Bool := false
  deriving Repr, DecidableEq, Inhabited

/-! ### class ids: the nine `NativeGates` flags in the order of the enum (bit `k` of the
    mask = flag `1 <<< k`), then `Align`; every other class has an id ≥ 10. -/
def cI : Nat := 0
def cZ : Nat := 1
def cRZ : Nat := 2
def cM : Nat := 3
def cGPI2 : Nat := 4
def cU3 : Nat := 5
def cCZ : Nat := 6
def ciSWAP : Nat := 7
def cCNOT : Nat := 8
def cAlign : Nat := 9

/-- `NativeGates` as a bit mask (value of the `Flag`). -/
abbrev Natives := Nat

/-- `NativeGates.from_gate(gate) & native_gates` is non-empty. -/
def isNative (nat : Natives) (c : Nat) : Bool := c < 9 && nat.testBit c

/-- gates that `translate_gate` returns unchanged: `I`, `Align`, `M`. -/
def passThrough (c : Nat) : Bool := c == cI || c == cAlign || c == cM

/-- `assert_decomposition`: measurements are skipped, everything else must act on at
    most two qubits and be of a native class. -/
def assertDecomposition (nat : Natives) (gs : List UGate) : Bool :=
  gs.all fun g => g.cls == cM || (g.qubits.length ≤ 2 && isNative nat g.cls)

/-- kernel-checked on the traced outputs: every emitted class is native (or `M`). -/
def allNative (nat : Natives) (cs : List Nat) : Bool :=
  cs.all fun c => c == cM || isNative nat c

/-! ### tables -/

/-- a `GateDecompositions` object: `has c` = `c in self.decompositions`;
    `entry c tag` = the list `_check_instance` produces for a gate of class `c` whose
    parameters are `tag` (template qubits `0, 1, …`), `none` if producing it raises. -/
structure Table where
  has   : Nat → Bool
  entry : Nat → Nat → Option (List UGate)

structure Tables where
  gpi2  : Table
  u3    : Table
  cz    : Table
  iswap : Table
  opt   : Table
  cnot  : Table

/-- `_check_instance`: `self.decompositions[gate.__class__]` (KeyError = `none`). -/
def Table.check (t : Table) (g : UGate) : Option (List UGate) :=
  if t.has g.cls then t.entry g.cls g.tag else none

/-- `Gate.on_qubits({i: q for i, q in enumerate(gate.qubits)})` on a template gate. -/
def place (qs : List Nat) (x : UGate) : Option UGate := do
  let q ← x.qubits.mapM (fun i => qs[i]?)
  pure { x with qubits := q }

/-- `GateDecompositions.__call__`: a `controlled_by` gate is returned unchanged,
    otherwise the template is moved to the gate's qubits. -/
def Table.call (t : Table) (g : UGate) : Option (List UGate) :=
  if g.cb then some [g]
  else do
    let d ← t.check g
    d.mapM (place g.qubits)

def Table.count2q (t : Table) (g : UGate) : Option Nat := do
  let d ← t.check g
  pure (d.filter fun x => decide (x.qubits.length > 1)).length

def Table.count1q (t : Table) (g : UGate) : Option Nat := do
  let d ← t.check g
  pure (d.filter fun x => decide (x.qubits.length = 1)).length

/-! ### dispatch -/

/-- `_translate_single_qubit_gates`: U3 has precedence over GPI2. -/
def single (T : Tables) (nat : Natives) (g : UGate) : Option (List UGate) :=
  if nat.testBit cU3 then T.u3.call g
  else if nat.testBit cGPI2 then T.gpi2.call g
  else none

/-- sequencing of list-valued partial maps (`for … : out += f x`). -/
def flatMapM {α β : Type} (f : α → Option (List β)) : List α → Option (List β)
  | [] => some []
  | x :: xs => do
      let a ← f x
      let b ← flatMapM f xs
      pure (a ++ b)

/-- `_translate_two_qubit_gates`; `rec` is the recursive call of `translate_gate` used
    by the iSWAP-only path. -/
def twoQ (T : Tables) (nat : Natives) (rec : UGate → Option (List UGate)) (g : UGate) :
    Option (List UGate) :=
  if nat.testBit cCZ && nat.testBit ciSWAP then
    if T.opt.has g.cls then T.opt.call g
    else if !T.iswap.has g.cls then T.cz.call g
    else do
      let c ← T.cz.count2q g
      let i ← T.iswap.count2q g
      if c < i then T.cz.call g
      else if c > i then T.iswap.call g
      else do
        let c1 ← T.cz.count1q g
        let i1 ← T.iswap.count1q g
        if c1 < i1 then T.cz.call g else T.iswap.call g
  else if nat.testBit cCZ then T.cz.call g
  else if nat.testBit ciSWAP then
    if T.iswap.has g.cls then T.iswap.call g
    else do
      let d ← T.cz.call g
      flatMapM rec d
  else if nat.testBit cCNOT then T.cnot.call g
  else none

/-- re-translation of the one-qubit gates of a two-qubit decomposition. -/
def retranslate (T : Tables) (nat : Natives) (x : UGate) : Option (List UGate) :=
  if x.qubits.length = 1 then single T nat x else some [x]

/-- `translate_gate` with a list result (`none` = an exception is raised — in particular
    the `DecompositionError` for a gate with `controlled_by` controls; `fuel` bounds
    the depth of the Python recursion, exhausted fuel = `RecursionError`).
    `listOnly` = the caller iterates over the result (the recursive call of the iSWAP
    path), where the bare gate returned for `I`/`Align`/`M` is a `TypeError`. -/
def translateAux (T : Tables) (nat : Natives) : Nat → Bool → UGate → Option (List UGate)
  | 0, _, _ => none
  | fuel + 1, listOnly, g =>
    if passThrough g.cls then (if listOnly then none else some [g])
    else if g.cb then none
    else if g.qubits.length = 1 then single T nat g
    else do
      let d ← twoQ T nat (translateAux T nat fuel true) g
      flatMapM (retranslate T nat) d

def translate (T : Tables) (nat : Natives) (fuel : Nat) (g : UGate) : Option (List UGate) :=
  translateAux T nat fuel false g

/-- `Unroller.__call__`: every gate of the queue is translated, results concatenated. -/
def unroll (T : Tables) (nat : Natives) (fuel : Nat) (gs : List UGate) : Option (List UGate) :=
  flatMapM (translate T nat fuel) gs

/-- `Gate.on_qubits` with a total qubit map. -/
def UGate.relabel (σ : Nat → Nat) (g : UGate) : UGate := { g with qubits := g.qubits.map σ }

/-! ### finite tables (what the driver and the closure check work on) -/

/-- rows `(class, tag, template)`; `classes` = keys of `decompositions`. -/
structure TableData where
  classes : List Nat
  rows    : List (Nat × Nat × List UGate)
  deriving Repr, Inhabited

def TableData.toTable (d : TableData) : Table where
  has c := d.classes.contains c
  entry c t := (d.rows.find? fun r => r.1 == c && r.2.1 == t).map (·.2.2)

structure TablesData where
  gpi2  : TableData
  u3    : TableData
  cz    : TableData
  iswap : TableData
  opt   : TableData
  cnot  : TableData
  deriving Repr, Inhabited

def TablesData.toTables (d : TablesData) : Tables :=
  ⟨d.gpi2.toTable, d.u3.toTable, d.cz.toTable, d.iswap.toTable, d.opt.toTable, d.cnot.toTable⟩

/-- the table used for one-qubit gates under `nat` (`none`: neither U3 nor GPI2). -/
def singleTable (T : Tables) (nat : Natives) : Option Table :=
  if nat.testBit cU3 then some T.u3 else if nat.testBit cGPI2 then some T.gpi2 else none

/-- closure of a one-qubit table: every template gate is native. -/
def TableData.nativeRows (nat : Natives) (d : TableData) : Bool :=
  d.rows.all fun r => r.2.2.all fun x => isNative nat x.cls && !x.cb

/-- Bool version of the closure property `Closed` (QV/Proofs/Unroller.lean) on table data. -/
def closedCheck (D : TablesData) (nat : Natives) : Bool :=
  (if nat.testBit cU3 then D.u3.nativeRows nat
   else if nat.testBit cGPI2 then D.gpi2.nativeRows nat else true) &&
  (let ok := fun (d : TableData) => d.rows.all fun r => r.2.2.all fun x =>
      (x.qubits.length == 1 && !x.cb) || isNative nat x.cls
   if nat.testBit cCZ && nat.testBit ciSWAP then ok D.opt && ok D.cz && ok D.iswap
   else if nat.testBit cCZ then ok D.cz
   else if nat.testBit ciSWAP then ok D.iswap
   else if nat.testBit cCNOT then ok D.cnot
   else true)

end QV.Unroll
