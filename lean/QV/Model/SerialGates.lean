/-
  Model of dump / load of `MeasurementOutcomes` with the samples held by the measurement
  gates (C13).

  anchors:  result.py   MeasurementOutcomes.__init__ (a `samples=` array is registered on
                        the gates), _from_measurement_gates, has_samples, samples,
                        frequencies, to_dict (every gate's JSON carries its result's
                        samples; `samples` = `_samples`; `probabilities` = `_probs`),
                        from_dict (M.load re-registers the gates' samples; probabilities
                        are dropped when samples are present)
            gates/measurements.py   M.raw (`measurement_result`), Gate.from_dict (M branch)

  A result is built from gates that hold shots (`gates`), from a `samples=` array or from
  `probabilities=`.  Samples, frequencies are opaque; draws are oracle functions of a tape
  position.  Import-free and executable.
-/
namespace QV.SerialGates

structure Oracle (S F : Type) where
  count : S → F
  drawS : Nat → S
  drawF : Nat → F
  expand : F → Nat → S

structure Res (S F : Type) where
  samples : Option S := none     -- `_samples`
  probs : Bool := false          -- `_probs is not None`
  freqs : Option F := none       -- `_frequencies`
  gates : Option S := none       -- the shots held by the measurement gates' results
  nshots : Nat := 0
  tape : Nat := 0
deriving Repr

/-- `_from_measurement_gates` -/
def Res.fromGates {S F : Type} (r : Res S F) : Bool :=
  r.samples.isNone && !r.probs && r.freqs.isNone

/-- `has_samples` -/
def Res.hasSamples {S F : Type} (r : Res S F) : Bool :=
  if r.fromGates then r.gates.isSome else r.samples.isSome

inductive Op where
  | samples
  | frequencies
deriving DecidableEq, Repr

/-- `samples()` -/
def Res.stepS {S F : Type} (o : Oracle S F) (r : Res S F) : Res S F :=
  match r.samples with
  | some _ => r
  | none =>
    if r.fromGates then { r with samples := r.gates }
    else
      match r.freqs with
      | some f => { r with samples := some (o.expand f r.tape), gates := some (o.expand f r.tape),
                           tape := r.tape + 1 }
      | none => { r with samples := some (o.drawS r.tape), gates := some (o.drawS r.tape),
                         tape := r.tape + 1 }

/-- `frequencies()` -/
def Res.stepF {S F : Type} (o : Oracle S F) (r : Res S F) : Res S F :=
  match r.freqs with
  | some _ => r
  | none =>
    if r.hasSamples then
      let r' := r.stepS o
      { r' with freqs := r'.samples.map o.count }
    else { r with freqs := some (o.drawF r.tape), tape := r.tape + 1 }

def Res.step {S F : Type} (o : Oracle S F) (r : Res S F) : Op → Res S F
  | .samples => r.stepS o
  | .frequencies => r.stepF o

def Res.run {S F : Type} (o : Oracle S F) (r : Res S F) : List Op → Res S F
  | [] => r
  | op :: ops => (r.step o op).run o ops

structure Payload (S : Type) where
  samples : Option S
  probs : Bool
  gates : Option S
  nshots : Nat

/-- `to_dict`.  `stripGates = false` is result.py; `true` is the variant that omits the
samples inside the gates' JSON "when the result has samples". -/
def Res.dump {S F : Type} (stripGates : Bool) (r : Res S F) : Payload S :=
  { samples := r.samples, probs := r.probs,
    gates := if stripGates && r.hasSamples then none else r.gates, nshots := r.nshots }

/-- `from_dict` -/
def load {S F : Type} (p : Payload S) (tape : Nat) : Res S F :=
  { samples := p.samples, probs := p.probs && p.samples.isNone,
    gates := match p.samples with
             | some s => some s
             | none => p.gates,
    nshots := p.nshots, tape := tape }

def Res.obsSamples {S F : Type} (o : Oracle S F) (r : Res S F) : Option S := (r.stepS o).samples
def Res.obsFreq {S F : Type} (o : Oracle S F) (r : Res S F) : Option F := (r.stepF o).freqs

/-- the three ways of building the object -/
def ofGates {S F : Type} (g : Option S) (n : Nat) : Res S F := { gates := g, nshots := n }
def ofSamples {S F : Type} (s : S) (n : Nat) : Res S F := { samples := some s, gates := some s, nshots := n }
def ofProbs {S F : Type} (n : Nat) : Res S F := { probs := true, nshots := n }

end QV.SerialGates
