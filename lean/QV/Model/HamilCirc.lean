/-
  QV.Model.HamilCirc — executable model of the measurement route of
  `SymbolicHamiltonian.expectation_from_circuit` (hamiltonians/hamiltonians.py) for one
  term that is a Pauli string: the measurement layer appended to the circuit (one
  measurement per non-identity factor: that factor's qubit, in that factor's Pauli basis —
  whatever the order in which the factors are written), the basis rotations
  (`gates.M(..., basis=…)`: `X.basis_rotation` = H, `Y.basis_rotation` = (Y+Z)/√2,
  `Z.basis_rotation` = none), and the value the frequencies converge to / equal on
  deterministic states: Σ_x |φ(x)|² · (−1)^(number of measured 1s), φ the rotated state.
  The rotations are kept un-normalised (H·√2, (Y+Z)): exact in the Gaussian integers; the
  value is then scaled by 2^(number of X/Y factors) · ‖ψ‖².
  Import-free apart from the Hamiltonian model.
-/
import QV.Model.Hamil
namespace QV

inductive PKind where
  | I | X | Y | Z
  deriving DecidableEq, Repr

/-- a factor of a Pauli string: which Pauli, on which qubit. -/
structure PFac where
  kind : PKind
  q    : Nat

/-- a term: coefficient and the factors in the written order. -/
structure PTerm (α : Type) where
  coef    : α
  factors : List PFac

variable {α : Type}

section circ
variable [Zero α] [One α] [Add α] [Mul α] [Neg α]

/-- Pauli Y, `im` the imaginary unit. -/
def pauliYm (im : α) : Nat → Nat → α := fun i j => if i = j then 0 else if i = 0 then -im else im

def pauliMat (im : α) : PKind → Nat → Nat → α
  | .I => eye2
  | .X => pauliX
  | .Y => pauliYm im
  | .Z => pauliZ

/-- √2 · H. -/
def rotX : Nat → Nat → α := fun i j => if i = 0 then 1 else if j = 0 then 1 else -1

/-- Y + Z  (= √2 · `Y.basis_rotation`). -/
def rotY (im : α) : Nat → Nat → α := fun i j =>
  if i = 0 then (if j = 0 then 1 else -im) else (if j = 0 then im else -1)

/-- the (un-normalised) rotation into the measurement basis. -/
def rotMat (im : α) : PKind → Nat → Nat → α
  | .X => rotX
  | .Y => rotY im
  | _ => eye2

def gate1 (m : Nat → Nat → α) (q : Nat) : MGate α := { mat := m, targets := [q], controls := [] }

def PFac.isId (f : PFac) : Bool := match f.kind with | .I => true | _ => false

/-- `non_identity_factors`. -/
def nonId (fs : List PFac) : List PFac := fs.filter (fun f => !f.isId)

/-- **the measurement layer**: `[gates.M(factor.target_qubit, basis=factor.gate.__class__)
for factor in non_identity_factors]` as (qubit, basis) pairs, in the written order. -/
def measurements (fs : List PFac) : List (Nat × PKind) := (nonId fs).map (fun f => (f.q, f.kind))

/-- sorted with repetitions (`sorted(...)`). -/
def insertNat (q : Nat) : List Nat → List Nat
  | [] => [q]
  | r :: rs => if q ≤ r then q :: r :: rs else r :: insertNat q rs

def sortNat (l : List Nat) : List Nat := l.foldr insertNat []

/-- the variant a planted change used: the *sorted* qubits zipped with the bases in the
*written* order. -/
def measurementsSortedZip (fs : List PFac) : List (Nat × PKind) :=
  (sortNat ((nonId fs).map (·.q))).zip ((nonId fs).map (·.kind))

/-- the basis rotations of the measurement layer, in queue order. -/
def rotate (im : α) (ms : List (Nat × PKind)) (ψ : Lab → α) : Lab → α :=
  ms.foldl (fun s m => applyGate (gate1 (rotMat im m.2) m.1) s) ψ

/-- `(-1) ** count("1")` over the measured qubits. -/
def parity (qs : List Nat) (x : Lab) : α := qs.foldl (fun acc q => if x q then -acc else acc) 1

/-- number of rotated qubits: the value below carries the factor `2 ^ rotCount`. -/
def rotCount (ms : List (Nat × PKind)) : Nat :=
  (ms.filter (fun m => match m.2 with | .X => true | .Y => true | _ => false)).length

/-- what the frequency-weighted signs of one rotated circuit equal (exactly on deterministic
states, in the limit of many shots otherwise), times `2 ^ rotCount · ‖ψ‖²`. -/
def measuredValue (n : Nat) (conj : α → α) (im : α) (ms : List (Nat × PKind)) (ψ : Lab → α) : α :=
  let φ := rotate im ms ψ
  sumOver (List.range n) (fun x => conj (φ x) * φ x * parity (ms.map (·.1)) x) (fun _ => false)

/-- SPEC: the Pauli string as an operator, factors in the written order. -/
def pauliWord (im : α) (fs : List PFac) (ψ : Lab → α) : Lab → α :=
  fs.foldr (fun f φ => applyGate (gate1 (pauliMat im f.kind) f.q) φ) ψ

end circ

end QV
