/-
  QV.Model.HamilAlg — executable model of the algebra of `SymbolicHamiltonian` objects over
  call histories (hamiltonians/hamiltonians.py: `_compose`, `__add__`, `__sub__`, `__rsub__`,
  `__mul__`, `__matmul__`, the cached property `terms` and the attribute `constant`).

  An object is its sympy form, the cache of the parsed `terms` (absent until `terms` is first
  read: by `h @ state`, `expectation`, `expectation_from_samples`, `circuit`) and `constant`
  (0 until `terms` is read).  A composition builds the form of the result from the forms of
  the operands and returns a *fresh* object: nothing parsed, constant 0 — whatever was
  computed with the operands before.  `reuse := true` models the optimisation "hand the
  parsed terms of both operands to the result" (`terms₁ ++ sign·terms₂`,
  `constant₁ + sign·constant₂`, `c·terms`, `c·constant`); it is not what the code under test
  does, but it is observably equivalent (QV/Props/C15e.lean), so the correspondence accepts
  either — and rejects a variant that forgets the sign of the constant.
  Import-free apart from the Hamiltonian model.
-/
import QV.Model.Hamil
namespace QV

/-- a `SymbolicHamiltonian` object. -/
structure SObj (α : Type) where
  form     : PForm α
  terms    : Option (List (STerm α))
  constant : α

/-- one step of a history; indices refer to the objects created so far. -/
inductive AStep (α : Type) where
  | new (f : PForm α)            -- SymbolicHamiltonian(form)
  | touch (i : Nat)              -- h_i.terms is read (h @ state, expectation, …)
  | add (i j : Nat)              -- h_i + h_j
  | sub (i j : Nat)              -- h_i - h_j
  | matmul (i j : Nat)           -- h_i @ h_j
  | smul (c : α) (i : Nat)       -- c * h_i, h_i * c
  | sadd (c : α) (i : Nat)       -- h_i + c, c + h_i
  | ssub (c : α) (i : Nat)       -- h_i - c
  | rsub (c : α) (i : Nat)       -- c - h_i

variable {α : Type}

section alg
variable [Zero α] [One α] [Add α] [Mul α] [Neg α]

/-- `-f` as sympy builds it: `(-1)·f`. -/
def PForm.neg (f : PForm α) : PForm α := .smul (-1) f

def STerm.scale (c : α) (t : STerm α) : STerm α := { t with coef := c * t.coef }

/-- `SymbolicHamiltonian(form)`: nothing parsed, `constant = 0`. -/
def SObj.fresh (f : PForm α) : SObj α := { form := f, terms := none, constant := 0 }

/-- reading the cached property `terms`: parsed once, `constant` set by the parse. -/
def SObj.touch (same : PSym α → PSym α → Bool) (o : SObj α) : SObj α :=
  match o.terms with
  | some _ => o
  | none =>
    let h := TermHam.ofForm same o.form
    { o with terms := some h.terms, constant := h.constant }

/-- the parsed content (after `touch`). -/
def SObj.termHam (o : SObj α) : TermHam α := { terms := o.terms.getD [], constant := o.constant }

/-- `h @ state`: reads `terms`, then `apply_gates`. -/
def SObj.act (same : PSym α → PSym α → Bool) (o : SObj α) (ψ : Lab → α) : Lab → α :=
  (o.touch same).termHam.applyGates ψ

/-- result of `h_a ± h_b` with form `f`; with `reuse` the parsed terms of both operands are
handed on. -/
def composeSum (reuse : Bool) (sign : α) (a b : SObj α) (f : PForm α) : SObj α :=
  match reuse, a.terms, b.terms with
  | true, some ta, some tb =>
    { form := f, terms := some (ta ++ tb.map (STerm.scale sign)),
      constant := a.constant + sign * b.constant }
  | _, _, _ => SObj.fresh f

/-- result of `c * h_a`. -/
def composeScale (reuse : Bool) (c : α) (a : SObj α) (f : PForm α) : SObj α :=
  match reuse, a.terms with
  | true, some ta => { form := f, terms := some (ta.map (STerm.scale c)), constant := c * a.constant }
  | _, _ => SObj.fresh f

/-- one step on the store of objects (a step naming a missing object changes nothing). -/
def stepAlg (same : PSym α → PSym α → Bool) (reuse : Bool) (st : List (SObj α)) :
    AStep α → List (SObj α)
  | .new f => st ++ [SObj.fresh f]
  | .touch i =>
    match st[i]? with
    | some o => st.set i (o.touch same)
    | none => st
  | .add i j =>
    match st[i]?, st[j]? with
    | some a, some b => st ++ [composeSum reuse 1 a b (.add a.form b.form)]
    | _, _ => st
  | .sub i j =>
    match st[i]?, st[j]? with
    | some a, some b => st ++ [composeSum reuse (-1) a b (.add a.form b.form.neg)]
    | _, _ => st
  | .matmul i j =>
    match st[i]?, st[j]? with
    | some a, some b => st ++ [SObj.fresh (.mul a.form b.form)]
    | _, _ => st
  | .smul c i =>
    match st[i]? with
    | some a => st ++ [composeScale reuse c a (.smul c a.form)]
    | none => st
  | .sadd c i =>
    match st[i]? with
    | some a => st ++ [SObj.fresh (.add a.form (.const c))]
    | none => st
  | .ssub c i =>
    match st[i]? with
    | some a => st ++ [SObj.fresh (.add a.form (.const (-c)))]
    | none => st
  | .rsub c i =>
    match st[i]? with
    | some a => st ++ [SObj.fresh (.add (.const c) a.form.neg)]
    | none => st

/-- a whole history from the empty store. -/
def runAlg (same : PSym α → PSym α → Bool) (reuse : Bool) (steps : List (AStep α)) : List (SObj α) :=
  steps.foldl (stepAlg same reuse) []

/-- the pure algebra of forms: the same history with every cache forgotten. -/
def stepForms (fs : List (PForm α)) : AStep α → List (PForm α)
  | .new f => fs ++ [f]
  | .touch _ => fs
  | .add i j =>
    match fs[i]?, fs[j]? with
    | some a, some b => fs ++ [.add a b]
    | _, _ => fs
  | .sub i j =>
    match fs[i]?, fs[j]? with
    | some a, some b => fs ++ [.add a b.neg]
    | _, _ => fs
  | .matmul i j =>
    match fs[i]?, fs[j]? with
    | some a, some b => fs ++ [.mul a b]
    | _, _ => fs
  | .smul c i =>
    match fs[i]? with
    | some a => fs ++ [.smul c a]
    | none => fs
  | .sadd c i =>
    match fs[i]? with
    | some a => fs ++ [.add a (.const c)]
    | none => fs
  | .ssub c i =>
    match fs[i]? with
    | some a => fs ++ [.add a (.const (-c))]
    | none => fs
  | .rsub c i =>
    match fs[i]? with
    | some a => fs ++ [.add (.const c) a.neg]
    | none => fs

def runForms (steps : List (AStep α)) : List (PForm α) := steps.foldl stepForms []

/-- the variant that forgets the sign of the constant in `h_a - h_b` (a planted change the
check must catch): terms right, constant `a.constant + b.constant`. -/
def composeSubBad (a b : SObj α) (f : PForm α) : SObj α :=
  match a.terms, b.terms with
  | some ta, some tb =>
    { form := f, terms := some (ta ++ tb.map (STerm.scale (-1))), constant := a.constant + b.constant }
  | _, _ => SObj.fresh f

end alg

end QV
