/-
  QV.Model.Router — executable model of the bookkeeping core of qibo's routers
  (`transpiler/router.py`): `CircuitMap.update / undo / execute_block /
  _update_mappings_swap / final_layout`, the re-attachment of final measurements, the loop
  of `StarConnectivityRouter.__call__` with `_find_connected_qubit`, the edge list of
  `_create_dag`, and the order check used to validate block decompositions and
  execution orders.  Import-free.

  A router run is a sequence of ACTIONS on a state (p2l / l2p as lists, routed gates,
  logical gates executed so far):
     exec gs    `execute_block`: emit every gate of the block relabelled through l2p
     swap l0 l1 `update((l0,l1))`: emit SWAP on (l2p[l0], l2p[l1]) and update both maps
     undo       `undo()`: drop the last routed SWAP and update both maps back
  Heuristic choices (costs, random.choice, lookahead, thresholds) only select which action
  comes next; they are not part of the model.  The check records the action sequence of
  every real run and replays it here (correspondence by action replay).
-/
namespace QV.Router

/-- a gate occurrence as the routers see it: `tag` names class + parameters (tag 0 is
    SWAP), `meas` marks measurement gates, `qs` are the ordered qubits. -/
structure RGate where
  tag  : Nat
  meas : Bool
  qs   : List Nat
  deriving DecidableEq, Repr, Inhabited

def swapTag : Nat := 0

/-- tag of a final (non-collapsing) measurement; collapsing measurements carry other tags. -/
def measTag : Nat := 1

/-- a measurement that no later gate touches: the routers detach it and re-attach it after
    the last SWAP, through the final layout. -/
def isFinalMeas (g : RGate) : Bool := g.meas && g.tag == measTag

/-- the SWAP gate the routers insert. -/
def swapGate (a b : Nat) : RGate := ⟨swapTag, false, [a, b]⟩

/-- `Gate.on_qubits` / `Block.on_qubits`: move a gate through a qubit map. -/
def RGate.relabel (σ : Nat → Nat) (g : RGate) : RGate := { g with qs := g.qs.map σ }

/-- list lookup, identity outside the list (the maps are total functions on qubits). -/
def look (m : List Nat) (i : Nat) : Nat := m.getD i i

structure RState where
  p2l      : List Nat
  l2p      : List Nat
  routed   : List RGate
  executed : List RGate        -- logical gates executed so far, in execution order
  deriving Repr

/-- `CircuitMap.__init__`: identity maps, nothing routed. -/
def init (n : Nat) : RState := ⟨List.range n, List.range n, [], []⟩

inductive Action where
  | exec (gs : List RGate)
  | swap (l0 l1 : Nat)
  | undo
  deriving Repr

/-- `_update_mappings_swap(logical_swap=(l0,l1), physical_swap=(p0,p1))`
    (tuple assignment = two successive item assignments). -/
def updateMaps (s : RState) (l0 l1 p0 p1 : Nat) : RState :=
  { s with p2l := (s.p2l.set p0 l1).set p1 l0, l2p := (s.l2p.set l0 p1).set l1 p0 }

def step (s : RState) : Action → RState
  | .exec gs =>
      { s with routed := s.routed ++ gs.map (RGate.relabel (look s.l2p)),
               executed := s.executed ++ gs }
  | .swap l0 l1 =>
      let p0 := look s.l2p l0
      let p1 := look s.l2p l1
      updateMaps { s with routed := s.routed ++ [swapGate p0 p1] } l0 l1 p0 p1
  | .undo =>
      match s.routed.getLast? with
      | some g =>
        match g.qs with
        | [a, b] =>
          -- `Block.qubits` is the sorted tuple
          let p0 := min a b
          let p1 := max a b
          let l0 := look s.p2l p0
          let l1 := look s.p2l p1
          updateMaps { s with routed := s.routed.dropLast } l0 l1 p0 p1
        | _ => s
      | none => s

def run (s : RState) (as : List Action) : RState := as.foldl step s

/-- `final_layout` values: logical i ↦ l2p[i]. -/
def finalLayout (s : RState) : List Nat := s.l2p

/-- `_append_final_measurements`: trailing measurements re-attached on l2p. -/
def appendFinal (s : RState) (ms : List RGate) : RState := step s (.exec ms)

/-! ### guards -/

def edgeOk (E : List (Nat × Nat)) (a b : Nat) : Bool := E.contains (a, b) || E.contains (b, a)

/-- a routed gate is executable: measurements and one-qubit gates always, two-qubit
    gates iff they sit on an edge. -/
def gateOk (E : List (Nat × Nat)) (g : RGate) : Bool :=
  g.meas ||
  match g.qs with
  | [a, b] => edgeOk E a b
  | _ => true

def isSwapOn (g : RGate) : Bool :=
  match g.qs with
  | [a, b] => g.tag == swapTag && !g.meas && a != b
  | _ => false

/-- well-formedness of an action (no edges involved): swaps name two different logical
    qubits of the register, undo finds a SWAP as last routed gate. -/
def wf (n : Nat) (s : RState) : Action → Bool
  | .exec _ => true
  | .swap l0 l1 => l0 != l1 && decide (l0 < n) && decide (l1 < n)
  | .undo =>
      match s.routed.getLast? with
      | some g => isSwapOn g && g.qs.all (fun q => decide (q < n))
      | none => false

/-- connectivity part of the guard: what is emitted sits on an edge. -/
def edgeGuard (E : List (Nat × Nat)) (s : RState) : Action → Bool
  | .exec gs => gs.all fun g => gateOk E (g.relabel (look s.l2p))
  | .swap l0 l1 => edgeOk E (look s.l2p l0) (look s.l2p l1)
  | .undo => true

/-- guard of one action in state `s` (n qubits, edge list E). -/
def guard (n : Nat) (E : List (Nat × Nat)) (s : RState) (a : Action) : Bool :=
  wf n s a && edgeGuard E s a

def wfAll (n : Nat) : RState → List Action → Bool
  | _, [] => true
  | s, a :: as => wf n s a && wfAll n (step s a) as

def guardsOk (n : Nat) (E : List (Nat × Nat)) : RState → List Action → Bool
  | _, [] => true
  | s, a :: as => guard n E s a && guardsOk n E (step s a) as

/-- the two maps are mutually inverse permutations of `range n` (executable form). -/
def mapsOk (n : Nat) (s : RState) : Bool :=
  s.p2l.length == n && s.l2p.length == n &&
  (List.range n).all (fun i => decide (look s.l2p i < n) && look s.p2l (look s.l2p i) == i &&
                               decide (look s.p2l i < n) && look s.l2p (look s.p2l i) == i)

/-! ### order check (blocks, DAG execution order) -/

def disjointG (a b : RGate) : Bool := a.qs.all fun q => !b.qs.contains q

/-- take the first occurrence of `o` out of the remaining gates; every gate in front of it
    must act on other qubits. -/
def pickOne (o : RGate) : List RGate → Option (List RGate)
  | [] => none
  | g :: rest =>
    if g = o then some rest
    else if disjointG g o then (pickOne o rest).map (g :: ·) else none

/-- `out` is obtained from `rem` by repeatedly taking a gate that no earlier remaining
    gate shares a qubit with. -/
def pickCheck : List RGate → List RGate → Bool
  | rem, [] => rem.isEmpty
  | rem, o :: out =>
    match pickOne o rem with
    | some rem' => pickCheck rem' out
    | none => false

/-! ### StarConnectivityRouter -/

/-- `_find_connected_qubit(qubits=(q0,q1), queue, mapping)`; `none` = raises. -/
def findConnected (q0 q1 : Nat) (l2p : List Nat) : List Nat → List RGate → Option Nat
  | _, [] => some q0
  | poss, g :: rest =>
    if g.meas then findConnected q0 q1 l2p poss rest
    else if g.qs.length > 2 then none
    else match g.qs with
      | [a, b] =>
        let poss' := poss.filter fun p => p == look l2p a || p == look l2p b
        match poss' with
        | [] => some q0
        | [p] => some p
        | _ => findConnected q0 q1 l2p poss' rest
      | _ => findConnected q0 q1 l2p poss rest

/-- the actions of one iteration of the loop of `StarConnectivityRouter.__call__`. -/
def starActions (mid : Nat) (s : RState) (g : RGate) (rest : List RGate) : Option (List Action) :=
  if g.meas then (if isFinalMeas g then some [] else some [.exec [g]])
  else if g.qs.length > 2 then none
  else
    match g.qs.map (look s.l2p) with
    | [r0, r1] =>
      if r0 == mid || r1 == mid then some [.exec [g]]
      else
        match findConnected r0 r1 s.l2p [r0, r1] rest with
        | none => none
        | some nm => some [.swap (s.l2p.idxOf nm) (s.l2p.idxOf mid), .exec [g]]
    | _ => some [.exec [g]]

def starLoop (mid : Nat) : RState → List RGate → Option RState
  | s, [] => some s
  | s, g :: rest =>
    match starActions mid s g rest with
    | none => none
    | some as => starLoop mid (run s as) rest

/-- the whole call: collapsing measurements are routed in place, final measurements are
    deferred and re-attached through the final layout, in their original order. -/
def starRoute (n mid : Nat) (queue : List RGate) : Option RState :=
  (starLoop mid (init n) queue).map fun s => appendFinal s (queue.filter isFinalMeas)

/-- the action list of a whole star run (for the theorems). -/
def starTrace (mid : Nat) : RState → List RGate → Option (List Action)
  | _, [] => some []
  | s, g :: rest =>
    match starActions mid s g rest with
    | none => none
    | some as => (starTrace mid (run s as) rest).map (as ++ ·)

/-! ### `_create_dag` -/

/-- first later index (offset `k`) whose pair contains `q`. -/
def nextUser (q : Nat) : Nat → List (List Nat) → Option Nat
  | _, [] => none
  | k, p :: ps => if p.contains q then some k else nextUser q (k + 1) ps

/-- edges added for node `idx` with qubits `gate` (the `saturated_qubits` rule: for each
    qubit of the gate, an edge to the first later gate using that qubit; the scan stops
    once two qubits are saturated).  Listed in the order Python appends them is not
    needed: the harness compares edge sets. -/
def dagEdgesFrom (idx : Nat) (gate : List Nat) (later : List (List Nat)) : List (Nat × Nat) :=
  let rec go (sat : List Nat) (k : Nat) : List (List Nat) → List (Nat × Nat)
    | [] => []
    | p :: ps =>
      let new := (gate.filter fun q => p.contains q && !sat.contains q).eraseDups
      let sat' := sat ++ new
      let es := new.map fun _ => (idx, k)
      if sat'.length ≥ 2 then es else es ++ go sat' (k + 1) ps
  go [] (idx + 1) later

def dagEdges : Nat → List (List Nat) → List (Nat × Nat)
  | _, [] => []
  | i, g :: rest => dagEdgesFrom i g rest ++ dagEdges (i + 1) rest

end QV.Router
