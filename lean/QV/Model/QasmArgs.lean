/-
  Operand order of the QASM writer and reader, per gate class (C13).

  anchors:  models/circuit.py    Circuit.to_qasm (`label(params) q[..],q[..];` from
                                 `gate.qubits` and `gate.parameters`)
            models/_openqasm.py  QASMParser._get_gate (`cls(*qubits, *init_args)`)
            gates/gates.py       the constructors (which positional operand is a control,
                                 which a target; the order of the parameters)

  A row is TRACED from the checked source tree on every run: the class is built on
  distinct qubits / parameters, exported, and re-imported; every list is recorded as
  indices.  Import-free and executable.
-/
namespace QV.QasmArgs

structure ArgRow where
  cls : String
  label : String
  nq : Nat
  np : Nat
  /-- operand `j` of the written statement is constructor qubit `wq[j]` -/
  wq : List Nat
  /-- argument `j` of the written statement is constructor parameter `wp[j]` -/
  wp : List Nat
  /-- `qubits[k]` of the re-imported gate is operand `rq[k]` of the statement -/
  rq : List Nat
  /-- `parameters[k]` of the re-imported gate is argument `rp[k]` of the statement -/
  rp : List Nat
  /-- `qubits[k]` of the exported gate is constructor qubit `gq[k]` -/
  gq : List Nat
  /-- `parameters[k]` of the exported gate is constructor parameter `gp[k]` -/
  gp : List Nat
deriving DecidableEq, Repr, Inhabited

/-- the statement written for constructor operands `xs` -/
def written {α : Type} (w : List Nat) (xs : List α) : List (Option α) := w.map (xs[·]?)

/-- what the re-imported gate reports, given the written statement -/
def reread {α : Type} (r : List Nat) (text : List (Option α)) : List (Option α) :=
  r.map fun k => (text[k]?).join

/-- what the exported gate reports -/
def reported {α : Type} (g : List Nat) (xs : List α) : List (Option α) := g.map (xs[·]?)

def ArgRow.ok (r : ArgRow) : Bool :=
  r.wq.length == r.nq && r.wp.length == r.np
    && r.rq.map (fun k => (r.wq[k]?)) == r.gq.map some
    && r.rp.map (fun k => (r.wp[k]?)) == r.gp.map some
    && r.gq.all (· < r.nq) && r.gp.all (· < r.np)

def argTableOk (t : List ArgRow) : Bool := t.all ArgRow.ok

end QV.QasmArgs
