/-
  QV.Model.Clifford — executable model of qibo's stabiliser-tableau simulator
  (`backends/_clifford_operations.py`): one tableau row = one signed Pauli string
  `(-1)^r · ⊗_k σ(x k, z k)` with σ(0,0)=I, σ(1,0)=X, σ(0,1)=Z, σ(1,1)=Y.

  The gate functions are transliterations of the Python bit formulas (`^` ↦ `^^`,
  `&` ↦ `&&`, `~` ↦ `!`; Python precedence `&` over `^` kept by explicit brackets), the
  composite operations (FSWAP, ECR, rotations, controlled rotations) follow the Python
  call sequences, `exponent` / `rowsum` / `measure` follow `_exponent`, `_rowsum`,
  `M` / `_random_outcome` / `_determined_outcome` (the determined case accumulates the
  stabiliser rows into the scratch row one after the other, as in Aaronson–Gottesman).
  Packing of bits into bytes is the identity on bits and is not modelled.  Import-free.
-/
namespace QV.Cliff

/-- a signed Pauli string on qubits `0, 1, 2, …` (only the qubits below the register size matter). -/
structure Row where
  x : Nat → Bool
  z : Nat → Bool
  r : Bool

def upd (f : Nat → Bool) (q : Nat) (v : Bool) : Nat → Bool := fun k => if k = q then v else f k

def Row.zero : Row := ⟨fun _ => false, fun _ => false, false⟩

/-! ### primitive tableau updates (one function per Python function) -/

def opI (_q : Nat) (w : Row) : Row := w

def opH (q : Nat) (w : Row) : Row :=
  { r := w.r ^^ (w.x q && w.z q), x := upd w.x q (w.z q), z := upd w.z q (w.x q) }

def opCNOT (c t : Nat) (w : Row) : Row :=
  let xc := w.x c; let xt := w.x t; let zt := w.z t; let zc := w.z c
  { r := w.r ^^ ((xc && zt) && (xt ^^ !zc)), x := upd w.x t (xt ^^ xc), z := upd w.z c (zc ^^ zt) }

def opCZ (c t : Nat) (w : Row) : Row :=
  let xc := w.x c; let xt := w.x t; let zt := w.z t; let zc := w.z c
  let ztx := zt ^^ xc
  { r := w.r ^^ (xt && zt) ^^ (xc && xt && (zt ^^ !zc)) ^^ (xt && ztx),
    x := w.x,
    z := upd (upd w.z c (xt ^^ zc)) t ztx }

def opS (q : Nat) (w : Row) : Row :=
  { r := w.r ^^ (w.x q && w.z q), x := w.x, z := upd w.z q (w.z q ^^ w.x q) }

def opZ (q : Nat) (w : Row) : Row :=
  let x := w.x q; let z := w.z q
  { w with r := w.r ^^ ((x && z) ^^ (x && (z ^^ x))) }

def opX (q : Nat) (w : Row) : Row :=
  let x := w.x q; let z := w.z q
  { w with r := w.r ^^ (z && (z ^^ x)) ^^ (z && x) }

def opY (q : Nat) (w : Row) : Row :=
  let x := w.x q; let z := w.z q
  { w with r := w.r ^^ (z && (z ^^ x)) ^^ (x && (z ^^ x)) }

def opSX (q : Nat) (w : Row) : Row :=
  let x := w.x q; let z := w.z q
  { r := w.r ^^ (z && (z ^^ x)), x := upd w.x q (z ^^ x), z := w.z }

def opSDG (q : Nat) (w : Row) : Row :=
  let x := w.x q; let z := w.z q
  { r := w.r ^^ (x && (z ^^ x)), x := w.x, z := upd w.z q (z ^^ x) }

def opSXDG (q : Nat) (w : Row) : Row :=
  let x := w.x q; let z := w.z q
  { r := w.r ^^ (z && x), x := upd w.x q (z ^^ x), z := w.z }

/-- `RY_pi` of the Python file (used for θ = π/2 + 2kπ). -/
def opRYpi (q : Nat) (w : Row) : Row :=
  let x := w.x q; let z := w.z q
  { r := w.r ^^ (x && (z ^^ x)), x := upd w.x q z, z := upd w.z q x }

/-- `RY_3pi_2` of the Python file (used for θ = 3π/2 + 2kπ). -/
def opRY3pi2 (q : Nat) (w : Row) : Row :=
  let x := w.x q; let z := w.z q
  { r := w.r ^^ (z && (z ^^ x)), x := upd w.x q z, z := upd w.z q x }

def opSWAP (c t : Nat) (w : Row) : Row :=
  let xc := w.x c; let xt := w.x t; let zt := w.z t; let zc := w.z c
  { r := w.r ^^ (xc && zt && (xt ^^ !zc)) ^^ ((xt ^^ xc) && (zt ^^ zc) && (zt ^^ !xc))
          ^^ (xt && zc && (xc ^^ xt ^^ zc ^^ !zt)),
    x := upd (upd w.x c xt) t xc,
    z := upd (upd w.z c zt) t zc }

def opiSWAP (c t : Nat) (w : Row) : Row :=
  let xc := w.x c; let xt := w.x t; let zt := w.z t; let zc := w.z c
  { r := w.r ^^ (xt && zt) ^^ (xc && zc) ^^ (xc && (zc ^^ xc))
          ^^ ((zc ^^ xc) && (zt ^^ xt) && (xt ^^ !xc))
          ^^ ((xt ^^ zc ^^ xc) && (xt ^^ zt ^^ xc) && (xt ^^ zt ^^ xc ^^ !zc))
          ^^ (xc && (xt ^^ xc ^^ zc)),
    x := upd (upd w.x c xt) t xc,
    z := upd (upd w.z c (xt ^^ zt ^^ xc)) t (xt ^^ zc ^^ xc) }

def opCY (c t : Nat) (w : Row) : Row :=
  let xc := w.x c; let xt := w.x t; let zt := w.z t; let zc := w.z c
  { r := w.r ^^ (xt && (zt ^^ xt)) ^^ (xc && (xt ^^ zt) && (zc ^^ !xt)) ^^ ((xt ^^ xc) && (zt ^^ xt)),
    x := upd w.x t (xc ^^ xt),
    z := upd (upd w.z c (zc ^^ zt ^^ xt)) t (zt ^^ xc) }

/-! ### rotations: `θ = k·π/2` (single qubit) and `θ = k·π` (controlled); the Python float tests
`θ % 2π == 0`, `(θ/π − 1) % 2 == 0`, `(θ/(π/2) − 1) % 4 == 0`, … select on `k mod 4`. -/

def res4 (k : Int) : Nat := (k % 4).toNat

def opRX (q : Nat) (k : Int) (w : Row) : Row :=
  match res4 k with
  | 0 => opI q w
  | 2 => opX q w
  | 1 => opSX q w
  | _ => opSXDG q w

def opRZ (q : Nat) (k : Int) (w : Row) : Row :=
  match res4 k with
  | 0 => opI q w
  | 2 => opZ q w
  | 1 => opS q w
  | _ => opSDG q w

def opRY (q : Nat) (k : Int) (w : Row) : Row :=
  match res4 k with
  | 0 => opI q w
  | 2 => opY q w
  | 1 => opRYpi q w
  | _ => opRY3pi2 q w

def opFSWAP (c t : Nat) (w : Row) : Row :=
  opX c (opCNOT c t (opCNOT t c (opRY c (-1) (opCNOT t c (opRY c 1 (opCNOT c t (opX t w)))))))

def opECR (c t : Nat) (w : Row) : Row := opX c (opCNOT c t (opSX t (opS c w)))

def opCRX (c t : Nat) (k : Int) (w : Row) : Row :=
  match res4 k with
  | 0 => opI t w
  | 1 => opCY c t (opX t (opCZ c t (opX t w)))
  | 2 => opY t (opCZ c t (opY t (opCZ c t w)))
  | _ => opCZ c t (opX t (opCY c t (opX t w)))

def opCRZ (c t : Nat) (k : Int) (w : Row) : Row :=
  match res4 k with
  | 0 => opI t w
  | 1 => opCNOT c t (opX t (opCY c t (opX t w)))
  | 2 => opX t (opCZ c t (opX t (opCZ c t w)))
  | _ => opX t (opCY c t (opX t (opCNOT c t w)))

def opCRY (c t : Nat) (k : Int) (w : Row) : Row :=
  match res4 k with
  | 0 => opI t w
  | 1 => opCZ c t (opZ t (opCNOT c t (opZ t w)))
  | 2 => opCRZ c t k w
  | _ => opZ t (opCNOT c t (opZ t (opCZ c t w)))

/-- gates as the backend dispatches them (class name, `init_args`, angle index). -/
inductive Gate where
  | I (q : Nat) | H (q : Nat) | X (q : Nat) | Y (q : Nat) | Z (q : Nat)
  | S (q : Nat) | SDG (q : Nat) | SX (q : Nat) | SXDG (q : Nat)
  | CNOT (c t : Nat) | CZ (c t : Nat) | CY (c t : Nat) | SWAP (c t : Nat) | iSWAP (c t : Nat)
  | FSWAP (c t : Nat) | ECR (c t : Nat)
  | RX (q : Nat) (k : Int) | RY (q : Nat) (k : Int) | RZ (q : Nat) (k : Int)
  | CRX (c t : Nat) (k : Int) | CRY (c t : Nat) (k : Int) | CRZ (c t : Nat) (k : Int)

def Gate.act : Gate → Row → Row
  | .I q => opI q | .H q => opH q | .X q => opX q | .Y q => opY q | .Z q => opZ q
  | .S q => opS q | .SDG q => opSDG q | .SX q => opSX q | .SXDG q => opSXDG q
  | .CNOT c t => opCNOT c t | .CZ c t => opCZ c t | .CY c t => opCY c t
  | .SWAP c t => opSWAP c t | .iSWAP c t => opiSWAP c t
  | .FSWAP c t => opFSWAP c t | .ECR c t => opECR c t
  | .RX q k => opRX q k | .RY q k => opRY q k | .RZ q k => opRZ q k
  | .CRX c t k => opCRX c t k | .CRY c t k => opCRY c t k | .CRZ c t k => opCRZ c t k

/-- a tableau: destabilisers, stabilisers, scratch row; every gate acts on every row. -/
abbrev Tableau := List Row

def applyGate (g : Gate) (T : Tableau) : Tableau := T.map g.act

def runGates (gs : List Gate) (T : Tableau) : Tableau := gs.foldl (fun s g => applyGate g s) T

/-- `CliffordBackend.zero_state`: destabilisers X_k, stabilisers Z_k, zero scratch row. -/
def zeroState (n : Nat) : Tableau :=
  (List.range n).map (fun k => (⟨fun j => j == k, fun _ => false, false⟩ : Row))
  ++ (List.range n).map (fun k => (⟨fun _ => false, fun j => j == k, false⟩ : Row))
  ++ [Row.zero]

/-! ### phase arithmetic of row products -/

def b2i (b : Bool) : Int := if b then 1 else 0

/-- `_exponent(x1, z1, x2, z2)`. -/
def exponent (x1 z1 x2 z2 : Bool) : Int :=
  2 * (b2i x1 * b2i x2 * (b2i z2 - b2i z1) + b2i z1 * b2i z2 * (b2i x1 - b2i x2))
    - b2i x1 * b2i z2 + b2i x2 * b2i z1

/-- `np.sum(exponents, axis=-1)` over the `n` qubits. -/
def expSum : Nat → Row → Row → Int
  | 0, _, _ => 0
  | n + 1, a, b => expSum n a b + exponent (a.x n) (a.z n) (b.x n) (b.z n)

/-- `_rowsum` for one pair: row `h` becomes (row `i`)·(row `h`). -/
def rowsum (n : Nat) (ri rh : Row) : Row :=
  { r := !((2 * b2i rh.r + 2 * b2i ri.r + expSum n ri rh) % 4 == 0),
    x := fun k => ri.x k ^^ rh.x k,
    z := fun k => ri.z k ^^ rh.z k }

/-! ### measurement in the computational basis -/

def getRow (T : Tableau) (j : Nat) : Row := T.getD j Row.zero

/-- first stabiliser row (index in `[n, 2n)`) with an X on qubit `q`. -/
def findP (n : Nat) (T : Tableau) (q : Nat) : Option Nat :=
  (List.range n).find? (fun j => (getRow T (n + j)).x q) |>.map (n + ·)

/-- `_random_outcome` with the coin `b` in place of `np.random.randint(2)`. -/
def randomOutcome (n : Nat) (T : Tableau) (p q : Nat) (b : Bool) : Tableau :=
  let rp := getRow T p
  let T1 := (List.range T.length).map fun h =>
    let rh := getRow T h
    if h < 2 * n && h ≠ p && rh.x q then rowsum n rp rh else rh
  let T2 := T1.set (p - n) rp
  T2.set p ⟨fun _ => false, fun k => k == q, b⟩

/-- `_determined_outcome`: the scratch row accumulates the stabilisers `n+i` with `x_i q = 1`. -/
def determinedScratch (n : Nat) (T : Tableau) (q : Nat) : Row :=
  (List.range n).foldl
    (fun s i => if (getRow T i).x q then rowsum n (getRow T (n + i)) s else s) Row.zero

def measureQubit (n : Nat) (T : Tableau) (q : Nat) (coin : Bool) : Tableau × Bool × Bool :=
  match findP n T q with
  | some p => (randomOutcome n T p q coin, coin, true)
  | none =>
    let s := determinedScratch n T q
    (T.set (2 * n) s, s.r, false)

/-- `M(state, qubits, nqubits)`: outcomes and "was random" flags; `coins` are consumed one per
measured qubit (used only by the random ones). -/
def measure (n : Nat) : Tableau → List Nat → List Bool → Tableau × List (Bool × Bool)
  | T, [], _ => (T, [])
  | T, q :: qs, coins =>
    let (T', o, rnd) := measureQubit n T q (coins.headD false)
    let (T'', rest) := measure n T' qs coins.tail
    (T'', (o, rnd) :: rest)

/-! ### symplectic form (commutation structure) -/

/-- parity of the number of qubits on which the two strings anticommute: the strings
anticommute iff `symp n a b = true`. -/
def symp : Nat → Row → Row → Bool
  | 0, _, _ => false
  | n + 1, a, b => symp n a b ^^ ((a.x n && b.z n) ^^ (a.z n && b.x n))

end QV.Cliff
