/-
  QV.Model.Bitflip — executable model (Mathlib-free) of qibo's bit-flip readout noise
  (property C03, second deepening).

  MODELLED (hand transliteration, tied to /repo by the `bitflip` suites of
  tools/props/C03_bitflip.py through lean/DriverC03.lean):

    gates/measurements.py   M.__init__ (the `collapse` × `p0/p1` check, `p1 = p0` / `p0 = p1`
                            defaults), M._get_bitflip_tuple (float / tuple-or-list / dict /
                            anything else, with exactly its raising cases), M._get_bitflip_map,
                            M.has_bitflip_noise, M.add (dict.update of both maps)
    result.py               MeasurementOutcomes.measurement_gate (first gate rebuilt, the others
                            `add`ed), the bit-flip branch of `samples()` (`[p0.get(q) for q in
                            qubits]`, noise applied to the freshly drawn / expanded rows before
                            they are registered), `frequencies()` forcing the samples when
                            there is noise, `apply_bitflips(p0, p1)`
    measurements.py         apply_bitflips(result, p0, p1)
    backends/numpy.py       apply_bitflips: `noisy = s + (1 - s)·[u < p0] - s·[u < p1]`

  Also here (item "frequencies only"): `frequencies_to_binary` keys and a result that holds only
  `_frequencies` (`RState.withFreq`).

  Probabilities live in any type `P` with `0`, `1`, `+`, a decidable `<` (floats in qibo; the
  driver instantiates a fixed-point type).  Randomness is an input: `u` is the array returned by
  `np.random.random(samples.shape)`, one number per shot × measured qubit.
-/
import QV.Model.Measure
namespace QV.BF
open QV

/-- the exception classes `M(...)` / `apply_bitflips` raise. -/
inductive Err
  | value            -- ValueError
  | key              -- KeyError
  | type             -- TypeError
  | notImplemented   -- NotImplementedError
deriving DecidableEq, Repr

/-- the forms a `p0` / `p1` argument can take. -/
inductive PForm (P : Type)
  | none
  /-- a python `float` -/
  | scalar (p : P)
  /-- a `tuple` or `list` -/
  | list (ps : List P)
  /-- a `dict`: items in insertion order, keys already passed through `int(q)` -/
  | dict (kvs : List (Nat × P))
  /-- any other type (python `int`, `str`, `np.ndarray`, …) -/
  | other

def PForm.isNone {P : Type} : PForm P → Bool
  | .none => true
  | _ => false

/-- a python dict qubit ↦ probability with distinct keys. -/
abbrev FMap (P : Type) := List (Nat × P)

section
variable {P : Type} [Zero P] [One P] [Add P] [LT P] [DecidableLT P]

/-- `{int(q): p for q, p in probs.items()}[q]`: a later item with the same key wins. -/
def dictGet (kvs : List (Nat × P)) (q : Nat) : Option P :=
  (kvs.reverse.find? (fun kv => kv.1 == q)).map (·.2)

/-- `M._get_bitflip_tuple(qubits, probs)`. -/
def flipTuple (qs : List Nat) : PForm P → Except Err (List P)
  | .scalar p => if p < 0 ∨ 1 < p then .error .value else .ok (List.replicate qs.length p)
  | .list ps => if ps.length = qs.length then .ok ps else .error .value
  | .dict kvs =>
    if kvs.all (fun kv => qs.contains kv.1) then .ok (qs.map fun q => (dictGet kvs q).getD 0)
    else .error .key
  | _ => .error .type

/-- `M._get_bitflip_map(p)` = `dict(zip(self.qubits, tuple))`. -/
def flipMap (qs : List Nat) : PForm P → Except Err (FMap P)
  | .none => .ok (qs.map fun q => (q, 0))
  | f => (flipTuple qs f).map fun pt => qs.zip pt

/-- arguments of one `gates.M(*targets, collapse=…, p0=…, p1=…)`. -/
structure MSpec (P : Type) where
  targets : List Nat
  collapse : Bool := false
  p0 : PForm P := .none
  p1 : PForm P := .none

/-- `M.__init__`: the pair `bitflip_map`, or the exception raised. -/
def mkMaps (g : MSpec P) : Except Err (FMap P × FMap P) :=
  if g.collapse && (!g.p0.isNone || !g.p1.isNone) then .error .notImplemented
  else
    let p1 := if g.p1.isNone then g.p0 else g.p1
    let p0 := if g.p0.isNone then p1 else g.p0
    match flipMap g.targets p0 with
    | .error e => .error e
    | .ok m0 =>
      match flipMap g.targets p1 with
      | .error e => .error e
      | .ok m1 => .ok (m0, m1)

/-- `d[q]` / `d.get(q)`. -/
def mapGet (m : FMap P) (q : Nat) : Option P := (m.find? (fun kv => kv.1 == q)).map (·.2)

/-- `d.update(e)`. -/
def mapUpdate (m upd : FMap P) : FMap P :=
  m.filter (fun kv => !(upd.any fun e => e.1 == kv.1)) ++ upd

/-- a constructed measurement gate: targets and the two maps. -/
structure MG (P : Type) where
  targets : List Nat
  m0 : FMap P
  m1 : FMap P

/-- `MeasurementOutcomes.measurement_gate`: the first gate, then `M.add` of every other one. -/
def globalGate : List (MG P) → MG P
  | [] => { targets := [], m0 := [], m1 := [] }
  | g :: gs => gs.foldl (fun acc h =>
      { targets := acc.targets ++ h.targets, m0 := mapUpdate acc.m0 h.m0, m1 := mapUpdate acc.m1 h.m1 }) g

/-- python `sum(values)`. -/
def sumP (l : List P) : P := l.foldl (· + ·) 0

/-- `M.has_bitflip_noise()`. -/
def hasNoise (g : MG P) : Bool :=
  decide (0 < sumP (g.m0.map (·.2))) || decide (0 < sumP (g.m1.map (·.2)))

/-- `[p.get(q) for q in qubits]` (a missing key would be `None`; it cannot be missing, see
`T03_bitflip_global_defined`). -/
def colProbs (glob : List Nat) (m : FMap P) : List P := glob.map fun q => (mapGet m q).getD 0

/-! ### the flips -/

/-- one entry of `noiseless + (1 - noiseless)·flip_0 - noiseless·flip_1` with
`flip_i = (u < p_i)`: a `0` becomes `1` iff `u < p0`, a `1` becomes `0` iff `u < p1`. -/
def flipBit (p0 p1 u : P) (b : Nat) : Nat :=
  b + (1 - b) * (if u < p0 then 1 else 0) - b * (if u < p1 then 1 else 0)

/-- one row (broadcast of the two probability rows over a sample row). -/
def flipRow : List P → List P → List P → List Nat → List Nat
  | p0 :: p0s, p1 :: p1s, u :: us, b :: bs => flipBit p0 p1 u b :: flipRow p0s p1s us bs
  | _, _, _, _ => []

/-- `backend.apply_bitflips(noiseless_samples, [p0s, p1s])` with `np.random.random(shape) = u`. -/
def applyBitflips (p0s p1s : List P) : List (List P) → List (List Nat) → List (List Nat)
  | u :: us, r :: rs => flipRow p0s p1s u r :: applyBitflips p0s p1s us rs
  | _, _ => []

/-- `MeasurementOutcomes.apply_bitflips(p0, p1)` on the rows `result.samples()` returned. -/
def applyBitflipsAPI (glob : List Nat) (p0 p1 : PForm P) (u : List (List P))
    (rows : List (List Nat)) : Except Err (List (List Nat)) :=
  match flipTuple glob p0 with
  | .error e => .error e
  | .ok t0 =>
    if p1.isNone then .ok (applyBitflips t0 t0 u rows)
    else
      match flipTuple glob p1 with
      | .error e => .error e
      | .ok t1 => .ok (applyBitflips t0 t1 u rows)

/-! ### the result object with readout noise -/

/-- what `samples()` reads off the global measurement gate. -/
structure Noise (P : Type) where
  /-- `has_bitflip_noise()` -/
  on : Bool
  /-- `[p0.get(q) for q in qubits]`, `[p1.get(q) for q in qubits]` -/
  p0 : List P
  p1 : List P

def noiseOf (g : MG P) : Noise P :=
  { on := hasNoise g, p0 := colProbs g.targets g.m0, p1 := colProbs g.targets g.m1 }

/-- `MeasurementOutcomes.samples()` up to the point where `_samples` is filled. -/
def nEnsureSamples (c : RCfg) (nz : Noise P) (o : Oracle) (u : List (List P)) (s : RState) :
    RState × List (List Nat) :=
  match s.gSamples with
  | some t => (s, t)
  | none =>
    let dec := match s.gFreq with
      | some F => applyPerm o.perm (repeatFreq c.k F)
      | none => o.shots
    let t0 := dec.map (samplesToBinary c.k)
    let t := if nz.on then applyBitflips nz.p0 nz.p1 u t0 else t0
    ({ s with gSamples := some t, rSamples := fun i => some (t.map (pick · (c.pos i))) }, t)

def nEnsureRegSamples (c : RCfg) (nz : Noise P) (o : Oracle) (u : List (List P)) (s : RState)
    (i : Nat) : RState × List (List Nat) :=
  match s.rSamples i with
  | some t => (s, t)
  | none =>
    let s' := (nEnsureSamples c nz o u s).1
    (s', (s'.rSamples i).getD [])

def nEnsureRegFreq (c : RCfg) (nz : Noise P) (o : Oracle) (u : List (List P)) (s : RState)
    (i : Nat) : RState × Freq :=
  match s.rFreq i with
  | some F => (s, F)
  | none =>
    let (s', t) := nEnsureRegSamples c nz o u s i
    let F := hist (t.map samplesToDecimal)
    ({ s' with rFreq := fun j => if j = i then some F else s'.rFreq j }, F)

/-- `MeasurementOutcomes.frequencies()` up to the point where `_frequencies` is filled:
with noise the samples are forced first. -/
def nEnsureFreq (c : RCfg) (nz : Noise P) (o : Oracle) (u : List (List P)) (s : RState) :
    RState × Freq :=
  match s.gFreq with
  | some F => (s, F)
  | none =>
    let s1 := if nz.on && !s.gSamples.isSome then (nEnsureSamples c nz o u s).1 else s
    if s1.gSamples.isSome then
      let (s', t) := nEnsureSamples c nz o u s1
      let F := hist (t.map samplesToDecimal)
      ({ s' with gFreq := some F }, F)
    else
      let F := sampleFrequencies o.batches
      ({ s1 with gFreq := some F,
                 rFreq := fun i => some (regFreqOfGlobal c.k (c.pos i) F) }, F)

def nAllRegFreq (c : RCfg) (nz : Noise P) (o : Oracle) (u : List (List P)) (s : RState) :
    RState × (Nat → Freq) :=
  let s1 := if (List.range c.nregs).all (fun i => (s.rFreq i).isSome) then s
            else (nEnsureSamples c nz o u s).1
  ({ s1 with rFreq := fun i => some ((nEnsureRegFreq c nz o u s1 i).2) },
    fun i => (nEnsureRegFreq c nz o u s1 i).2)

def nstep (c : RCfg) (nz : Noise P) (o : Oracle) (u : List (List P)) (s : RState) :
    ROp → RState × ROut
  | .samples b r =>
    let (s', t) := nEnsureSamples c nz o u s
    if r then
      if b then (s', .regRows fun i => (s'.rSamples i).getD [])
      else (s', .regDecs fun i => ((s'.rSamples i).getD []).map samplesToDecimal)
    else if b then (s', .rows t) else (s', .decs (t.map samplesToDecimal))
  | .freqs _ r =>
    let (s', F) := nEnsureFreq c nz o u s
    if r then
      let (s'', G) := nAllRegFreq c nz o u s'
      (s'', .regFreq G)
    else (s', .freq F)
  | .regSamples i b =>
    let (s', t) := nEnsureRegSamples c nz o u s i
    if b then (s', .rows t) else (s', .decs (t.map samplesToDecimal))
  | .regFreqs i _ =>
    let (s', F) := nEnsureRegFreq c nz o u s i
    (s', .freq F)

/-- a history of accessor calls on a result with readout noise. -/
def nrun (c : RCfg) (nz : Noise P) (o : Oracle) (u : List (List P)) :
    RState → List ROp → List ROut
  | _, [] => []
  | s, op :: ops => (nstep c nz o u s op).2 :: nrun c nz o u (nstep c nz o u s op).1 ops

/-- SPEC: the shot table (decimal) of a fresh result with active noise: the drawn shots with
the flips applied. -/
def noisyTable (c : RCfg) (nz : Noise P) (o : Oracle) (u : List (List P)) : List Nat :=
  (applyBitflips nz.p0 nz.p1 u (o.shots.map (samplesToBinary c.k))).map samplesToDecimal

end

/-! ### results that hold frequencies only -/

/-- a `MeasurementOutcomes` whose `_frequencies` were given (hardware backends, error
mitigation) and nothing else. -/
def _root_.QV.RState.withFreq (F : Freq) : RState := { gFreq := some F }

/-- key of `frequencies_to_binary`: `"{:b}".format(v).zfill(k)` as a list of digits — the
big-endian binary representation of `v` on `max k (bit length of v)` digits. -/
def binKey (k v : Nat) : List Nat := samplesToBinary (max k (Nat.log2 v + 1)) v

end QV.BF
