/-
  QV.Model.Sim — executable model of qibo's state-vector and density-matrix gate
  application (NumpyBackend.apply_gate / apply_gate_density_matrix / matrix_fused /
  Circuit.unitary), generic in the scalar type (Gaussian integers in the driver, ℂ in
  the proofs).  Import-free.

  MODELLED (hand model, tied by correspondence): the *effect* of the reshape /
  transpose / einsum / concatenate pipeline of the backend, i.e. for every basis label x

      (apply g ψ)(x) = if all controls of g are 1 in x
                       then Σ_a  M[idx targets x][a] · ψ(x with targets := a)
                       else ψ(x)

  with qubit 0 the most significant bit and `targets` in the order qibo stores them.
-/
import QV.Core.Bits
namespace QV

/-- a gate as the simulator sees it: local matrix, ordered targets, controls. -/
structure MGate (α : Type) where
  mat      : Nat → Nat → α
  targets  : List Nat
  controls : List Nat := []

variable {α : Type} [Zero α] [Add α] [Mul α]

/-- state-vector application. -/
def applyGate (g : MGate α) (ψ : Lab → α) : Lab → α := fun x =>
  if Lab.allOne g.controls x then
    sumOver g.targets (fun y => g.mat (Lab.idx g.targets x) (Lab.idx g.targets y) * ψ y) x
  else ψ x

/-- execution = fold in queue order. -/
def runCircuit (gs : List (MGate α)) (ψ : Lab → α) : Lab → α :=
  gs.foldl (fun s g => applyGate g s) ψ

/-- density matrices are functions of a row label and a column label. -/
abbrev DM (α : Type) := Lab → Lab → α

/-- left action  ρ ↦ G ρ  -/
def applyLeft (g : MGate α) (ρ : DM α) : DM α := fun x y => applyGate g (fun r => ρ r y) x

/-- right action ρ ↦ ρ G†, with `conj` the scalar conjugation. -/
def applyRight (conj : α → α) (g : MGate α) (ρ : DM α) : DM α := fun x y =>
  applyGate { g with mat := fun i j => conj (g.mat i j) } (fun c => ρ x c) y

/-- density-matrix application ρ ↦ G ρ G†. -/
def applyGateDM (conj : α → α) (g : MGate α) (ρ : DM α) : DM α :=
  applyLeft g (applyRight conj g ρ)

def runCircuitDM (conj : α → α) (gs : List (MGate α)) (ρ : DM α) : DM α :=
  gs.foldl (fun s g => applyGateDM conj g s) ρ

end QV
