/-
  QV.Model.XDecompose — executable model of qibo's multi-controlled-X decomposition
  (`gates/gates.py :: X.decompose(*free, use_toffolis)`, `TOFFOLI.congruent`,
  `X.controlled_by` fall-backs) and of `Circuit.decompose`.  Import-free.

  The gates produced are X / CNOT / TOFFOLI (and, with `use_toffolis=False`, the 7-gate
  RY/CNOT block returned by `TOFFOLI.congruent(False)`, kept here as the single gate `rtof`:
  a Toffoli that additionally reverses the sign of |c0 c1 t⟩ = |1 0 0⟩, c0 < c1 the sorted
  controls).  qibo keeps the controls of every gate sorted (`Gate.control_qubits`), so the
  model sorts wherever the Python code builds a gate.  All of them map
  computational-basis states to (signed) computational-basis states, so their meaning is a
  function on bit assignments `Lab = Nat → Bool` together with a sign bit.

  MODELLED (hand model, tied by correspondence on every run: exact equality of the gate
  lists returned by the real `decompose` for all m ≤ 8 controls, |free| ≤ m, permuted
  labels, both `use_toffolis` values; the classical action of the REAL gate list is run
  through `runC` / `runS` below for every bit assignment).
-/
import QV.Core.Bits
namespace QV

/-- the gates occurring in a multi-controlled-X decomposition. -/
inductive CGate where
  | x (t : Nat)
  | cnot (c t : Nat)
  | toffoli (c0 c1 t : Nat)
  | rtof (c0 c1 t : Nat)      -- TOFFOLI(c0,c1,t).congruent(use_toffolis=False) as one block
  deriving Repr, DecidableEq, Inhabited

/-- classical action on a bit assignment. -/
def CGate.apply : CGate → Lab → Lab
  | .x t, b => b.set t (!b t)
  | .cnot c t, b => b.set t (xor (b t) (b c))
  | .toffoli c0 c1 t, b => b.set t (xor (b t) (b c0 && b c1))
  | .rtof c0 c1 t, b => b.set t (xor (b t) (b c0 && b c1))

/-- does the gate reverse the sign of basis state `b`?  Only the congruent Toffoli does:
    the amplitude of |c0 c1 t⟩ = |1 0 0⟩ is multiplied by −1 (kernel-checked against the real
    `TOFFOLI.congruent(False)` in the generated obligations `C08_congruent_*`). -/
def CGate.sign : CGate → Lab → Bool
  | .rtof c0 c1 t, b => b c0 && !b c1 && !b t
  | _, _ => false

/-- run a gate list on a bit assignment (first element acts first). -/
def runC (gs : List CGate) (b : Lab) : Lab := gs.foldl (fun s g => g.apply s) b

/-- run a gate list on a signed basis state `(s, b)` meaning `(-1)^s |b⟩`. -/
def runS (gs : List CGate) (sb : Bool × Lab) : Bool × Lab :=
  gs.foldl (fun s g => (xor s.1 (g.sign s.2), g.apply s.2)) sb

/-- `Gate.control_qubits`: the controls of a gate object are kept sorted. -/
def insSorted (x : Nat) : List Nat → List Nat
  | [] => [x]
  | y :: ys => if x ≤ y then x :: y :: ys else y :: insSorted x ys

def srt (l : List Nat) : List Nat := l.foldr insSorted []

/-- `TOFFOLI(c0, c1, t)` as the gate object reports it (sorted controls). -/
def tof (c0 c1 t : Nat) : CGate := .toffoli (min c0 c1) (max c0 c1) t

/-- `X(t).controlled_by(*cs)` for fewer than three controls: X, CNOT or TOFFOLI. -/
def mcxSmall (cs : List Nat) (t : Nat) : CGate :=
  match cs with
  | [] => .x t
  | [c] => .cnot c t
  | c0 :: c1 :: _ => tof c0 c1 t

/-- `TOFFOLI(c0,c1,t).congruent(use_toffolis)` (the method reads the sorted controls). -/
def congruent (ut : Bool) (c0 c1 t : Nat) : CGate :=
  if ut then tof c0 c1 t else .rtof (min c0 c1) (max c0 c1) t

/-- outcome of `X.decompose`. -/
inductive XRes where
  | ok (gs : List CGate)
  | valueError          -- free qubits coincide with target or controls
  | notImplemented      -- m ≥ 3 controls and no free qubit
  | outOfFuel
  deriving Repr, DecidableEq, Inhabited

/-- the "n ≥ 2m−1" branch of `X.decompose` before the final doubling:
    `[first] ++ gates1 ++ gates2 ++ gates1[::-1]`. -/
def ladderHalf (ut : Bool) (cs : List Nat) (t : Nat) (fs : List Nat) : List CGate :=
  let m := cs.length
  let gates1 := (List.range (m - 3)).map fun i =>
    congruent ut (cs.getD (m - 2 - i) 0) (fs.getD (m - 4 - i) 0) (fs.getD (m - 3 - i) 0)
  let gates2 := congruent ut (cs.getD 0 0) (cs.getD 1 0) (fs.getD 0 0)
  let first := tof (cs.getD (m - 1) 0) (fs.getD (m - 3) 0) t
  [first] ++ gates1 ++ [gates2] ++ gates1.reverse

/-- transliteration of `X.decompose(*free, use_toffolis=ut)` for the gate
    `X(t).controlled_by(*cs)` (`cs` = the gate's `control_qubits`; the gates `x1`, `x2` built
    in the splitting branch sort their controls again); the recursion of the Python code is bounded by `fuel`
    (`cs.length + 1` always suffices, see `T08_mcx_total`). -/
def xDecompose (ut : Bool) : Nat → List Nat → Nat → List Nat → XRes
  | 0, _, _, _ => .outOfFuel
  | fuel + 1, cs, t, fs =>
    let m := cs.length
    -- one or two controls: the object is a CNOT / TOFFOLI, whose `decompose` returns the gate
    if m = 1 ∨ m = 2 then .ok [mcxSmall cs t]
    -- `X.decompose`: free qubits must not coincide with the gate's qubits
    else if fs.any (fun q => q == t || cs.contains q) then .valueError
    else
      if m < 3 then .ok [mcxSmall cs t]
      else
        let n := m + 1 + fs.length
        if n ≥ 2 * m - 1 then
          let d := ladderHalf ut cs t fs
          .ok (d ++ d)
        else if fs.length ≥ 1 then
          let m1 := n / 2
          let f0 := fs.getD 0 0
          let free1 := cs.drop m1 ++ [t] ++ fs.drop 1
          match xDecompose ut fuel (srt (cs.take m1)) f0 free1 with
          | .ok part1 =>
            let free2 := cs.take m1 ++ fs.drop 1
            let controls2 := srt (cs.drop m1 ++ [f0])
            match xDecompose ut fuel controls2 t free2 with
            | .ok part2 =>
              let d := part1 ++ part2
              .ok (d ++ d)
            | e => e
          | e => e
        else .notImplemented

/-- the specification: flip `t` iff all controls are 1; nothing else changes. -/
def mcxSpec (cs : List Nat) (t : Nat) (b : Lab) : Lab := b.set t (xor (b t) (cs.all b))

/-! ### `Circuit.decompose` -/

/-- `Circuit.decompose(*free)`: a new circuit holding, in queue order, the gates of
    `gate.decompose(*free)` of every gate (`dec` = the per-gate decomposition). -/
def decomposeCircuit {γ : Type} (dec : γ → List γ) (queue : List γ) : List γ :=
  queue.foldl (fun acc g => acc ++ dec g) []

end QV
