/-
  Model of the custom-gate machinery of qibo's OpenQASM reader (C13).

  anchors:  models/_openqasm.py  QASMParser._get_gate (built-in class first, then
                                 `defined_gates`, else "Undefined gate"),
                                 QASMParser._def_gate (body converted AT DEFINITION TIME
                                 with the definitions known so far, `defined_gates.update`),
                                 CustomQASMGate.get_gate (arity checks, `dict(zip(...))`),
                                 CustomQASMGate._construct_fused_gate (loop with
                                 `FusedGate.append`, which flattens a fused argument and
                                 joins its qubits), _compile_gate_qubits_and_args
                                 (`qubit_map[q]` — KeyError when unbound —,
                                 `args_map.get(arg, arg)`)
            gates/special.py     FusedGate.__init__ / append

  Values of evaluated arguments are opaque (type `ν`); an argument that did not evaluate
  (a formal parameter name) stays a string.  A qubit operand is an index (register
  reference already resolved) or an identifier.  Import-free and executable.
-/
namespace QV.QasmDef

/-- what `_get_qubit` returns for an operand: `reg[i]` resolved to a global index, or the
bare identifier (inside a `gate` body) -/
inductive QArg where
  | idx (q : Nat)
  | name (s : String)
deriving DecidableEq, Repr, Inhabited

/-- an argument after `_unroll_expression` and `eval`: the value, or the text itself when
`eval` raised (a formal parameter) -/
inductive Arg (ν : Type) where
  | val (v : ν)
  | sym (s : String)
deriving DecidableEq, Repr, Inhabited

/-- a gate object of a built-in class as far as the reader is concerned:
`cls(*qs, *args)` (its `qubits` and the values of `init_kwargs` before `trainable`) -/
structure Prim (ν : Type) where
  cls : String
  qs : List QArg
  args : List (Arg ν)
deriving DecidableEq, Repr, Inhabited

/-- a `FusedGate`: the qubits joined so far (`qubit_set`, un-normalised: the real object
keeps `sorted(set(...))`) and the flat gate list (`append` never nests) -/
structure Fused (ν : Type) where
  qs : List QArg
  gates : List (Prim ν)
deriving DecidableEq, Repr, Inhabited

/-- what `_get_gate` returns -/
inductive SG (ν : Type) where
  | prim (p : Prim ν)
  | fused (f : Fused ν)
deriving DecidableEq, Repr, Inhabited

/-- a gate statement `name(args) qs;` after `_get_qubit` / argument evaluation -/
structure Call (ν : Type) where
  name : String
  args : List (Arg ν)
  qs : List QArg
deriving DecidableEq, Repr, Inhabited

/-- `gate name(formals) qformals { body }` -/
structure Def (ν : Type) where
  name : String
  formals : List String
  qformals : List String
  body : List (Call ν)
deriving DecidableEq, Repr, Inhabited

inductive Stmt (ν : Type) where
  | call (c : Call ν)
  | gdef (d : Def ν)
deriving DecidableEq, Repr, Inhabited

/-- a `CustomQASMGate` object -/
structure Stored (ν : Type) where
  name : String
  gates : List (SG ν)
  qubits : List String
  args : List String
deriving DecidableEq, Repr, Inhabited

/-! ### python dictionaries -/

/-- `dict(zip(keys, vals))` as the list of pairs; lookup takes the LAST pair of a key
(a later duplicate overwrites) -/
def getLast {β : Type} : List (String × β) → String → Option β
  | [], _ => none
  | (k', v) :: rest, k =>
    match getLast rest k with
    | some w => some w
    | none => if k' = k then some v else none

/-- `defined_gates.update({k: v})` on an insertion-ordered dict -/
def dictSet {β : Type} (d : List (String × β)) (k : String) (v : β) : List (String × β) :=
  match d with
  | [] => [(k, v)]
  | (k', v') :: rest => if k' = k then (k, v) :: rest else (k', v') :: dictSet rest k v

def dictGet {β : Type} (d : List (String × β)) (k : String) : Option β :=
  match d with
  | [] => none
  | (k', v) :: rest => if k' = k then some v else dictGet rest k

/-! ### `_compile_gate_qubits_and_args` -/

/-- `qubit_map[q]` (`none` = KeyError; an index is never a key: the keys are the formal
qubit identifiers) -/
def substQ (qm : List (String × QArg)) : QArg → Option QArg
  | .name s => getLast qm s
  | .idx _ => none

def substQs (qm : List (String × QArg)) : List QArg → Option (List QArg)
  | [] => some []
  | q :: qs =>
    match substQ qm q, substQs qm qs with
    | some q', some qs' => some (q' :: qs')
    | _, _ => none

/-- `args_map.get(arg, arg)` -/
def substA {ν : Type} (am : List (String × Arg ν)) : Arg ν → Arg ν
  | .sym s => (getLast am s).getD (.sym s)
  | .val v => .val v

def compilePrim {ν : Type} (qm : List (String × QArg)) (am : List (String × Arg ν))
    (p : Prim ν) : Option (Prim ν) :=
  match substQs qm p.qs with
  | none => none
  | some qs => some ⟨p.cls, qs, p.args.map (substA am)⟩

/-! ### `FusedGate.append` and `_construct_fused_gate` -/

/-- `append(gate)`: `qubit_set |= set(gate.qubits)`; `gates.append(gate)` -/
def Fused.appendPrim {ν : Type} (f : Fused ν) (p : Prim ν) : Fused ν :=
  ⟨f.qs ++ p.qs, f.gates ++ [p]⟩

/-- `append(fused)`: `qubit_set |= set(fused.qubits)`; `gates.extend(fused.gates)` -/
def Fused.appendFused {ν : Type} (f g : Fused ν) : Fused ν :=
  ⟨f.qs ++ g.qs, f.gates ++ g.gates⟩

/-- the loop of `_construct_fused_gate` over the (flat) gates of a fused argument -/
def constructPrims {ν : Type} (qm : List (String × QArg)) (am : List (String × Arg ν)) :
    List (Prim ν) → Fused ν → Option (Fused ν)
  | [], f => some f
  | p :: ps, f =>
    match compilePrim qm am p with
    | none => none
    | some p' => constructPrims qm am ps (f.appendPrim p')

/-- the loop of `_construct_fused_gate` over the stored gates of a definition: a plain
gate is rebuilt on the mapped qubits / arguments; a fused one is rebuilt recursively on
its mapped qubits and appended (flattened) -/
def construct {ν : Type} (qm : List (String × QArg)) (am : List (String × Arg ν)) :
    List (SG ν) → Fused ν → Option (Fused ν)
  | [], f => some f
  | .prim p :: rest, f =>
    match compilePrim qm am p with
    | none => none
    | some p' => construct qm am rest (f.appendPrim p')
  | .fused g :: rest, f =>
    match substQs qm g.qs with
    | none => none
    | some qs' =>
      match constructPrims qm am g.gates ⟨qs', []⟩ with
      | none => none
      | some inner => construct qm am rest (f.appendFused inner)

/-- `CustomQASMGate.get_gate(qubits, args)` (`none` = it raises) -/
def Stored.getGate {ν : Type} (st : Stored ν) (qs : List QArg) (args : List (Arg ν)) :
    Option (Fused ν) :=
  if st.args.length ≠ args.length then none
  else if st.qubits.length ≠ qs.length then none
  else construct (st.qubits.zip qs) (st.args.zip args) st.gates ⟨qs, []⟩

/-! ### `_get_gate`, `_def_gate`, the statement loop -/

/-- the built-in classes as the reader sees them: `cls name = some c` when
`_qibo_gate_name(name)` is an attribute of `qibo.gates`; `ctorOk c k` when `c` accepts `k`
positional arguments (otherwise python's TypeError, re-raised as "Invalid gate
declaration") -/
structure Builtins where
  cls : String → Option String
  ctorOk : String → Nat → Bool

/-- `getattr(qibo.gates, cls)(*qubits, *init_args)` -/
def mkPrim {ν : Type} (B : Builtins) (cls : String) (c : Call ν) : Option (List (Prim ν)) :=
  if B.ctorOk cls (c.qs.length + c.args.length) then some [⟨cls, c.qs, c.args⟩] else none

/-- `_get_gate`: the class wins over a user definition of the same name -/
def getGate {ν : Type} (B : Builtins) (env : List (String × Stored ν))
    (c : Call ν) : Option (SG ν) :=
  match B.cls c.name with
  | some cls =>
    if B.ctorOk cls (c.qs.length + c.args.length) then some (.prim ⟨cls, c.qs, c.args⟩) else none
  | none =>
    match dictGet env c.name with
    | none => none
    | some st =>
      match st.getGate c.qs c.args with
      | none => none
      | some f => some (.fused f)

def getGates {ν : Type} (B : Builtins) (env : List (String × Stored ν)) :
    List (Call ν) → Option (List (SG ν))
  | [] => some []
  | c :: cs =>
    match getGate B env c, getGates B env cs with
    | some g, some gs => some (g :: gs)
    | _, _ => none

/-- `_def_gate` -/
def defGate {ν : Type} (B : Builtins) (env : List (String × Stored ν))
    (d : Def ν) : Option (List (String × Stored ν)) :=
  match getGates B env d.body with
  | none => none
  | some gs => some (dictSet env d.name ⟨d.name, gs, d.qformals, d.formals⟩)

/-- the statement loop of `to_circuit` restricted to gate statements and definitions:
the list of gates handed to `Circuit.add` -/
def run {ν : Type} (B : Builtins) :
    List (String × Stored ν) → List (Stmt ν) → Option (List (SG ν))
  | _, [] => some []
  | env, .call c :: rest =>
    match getGate B env c, run B env rest with
    | some g, some gs => some (g :: gs)
    | _, _ => none
  | env, .gdef d :: rest =>
    match defGate B env d with
    | none => none
    | some env' => run B env' rest

/-- the plain gates a queue entry stands for -/
def SG.flat {ν : Type} : SG ν → List (Prim ν)
  | .prim p => [p]
  | .fused f => f.gates

def flatten {ν : Type} (gs : List (SG ν)) : List (Prim ν) := gs.flatMap SG.flat

/-! ### specification: inlining by substitution -/

/-- the substituted statement: formal qubits / parameters replaced by the actual ones -/
def substCall {ν : Type} (qm : List (String × QArg)) (am : List (String × Arg ν))
    (c : Call ν) : Option (Call ν) :=
  match substQs qm c.qs with
  | none => none
  | some qs => some ⟨c.name, c.args.map (substA am), qs⟩

def flatMapM {α β : Type} (f : α → Option (List β)) : List α → Option (List β)
  | [] => some []
  | a :: as =>
    match f a, flatMapM f as with
    | some x, some y => some (x ++ y)
    | _, _ => none

/-- the gate list a call denotes under the definitions `ds` (MOST RECENT FIRST): a
built-in name denotes itself; a defined name denotes the concatenation of what the body
statements denote AFTER substituting the actual qubits and arguments, read under the
definitions that preceded it (text-level inlining, early binding). -/
def inline {ν : Type} (B : Builtins) :
    List (Def ν) → Call ν → Option (List (Prim ν))
  | [], c =>
    match B.cls c.name with
    | some cls => mkPrim B cls c
    | none => none
  | d :: older, c =>
    match B.cls c.name with
    | some cls => mkPrim B cls c
    | none =>
      if d.name = c.name then
        if d.formals.length ≠ c.args.length then none
        else if d.qformals.length ≠ c.qs.length then none
        else
          flatMapM (fun s =>
            match substCall (d.qformals.zip c.qs) (d.formals.zip c.args) s with
            | none => none
            | some s' => inline B older s') d.body
      else inline B older c

def inlineProg {ν : Type} (B : Builtins) :
    List (Def ν) → List (Stmt ν) → Option (List (Prim ν))
  | _, [] => some []
  | ds, .call c :: rest =>
    match inline B ds c, inlineProg B ds rest with
    | some a, some b => some (a ++ b)
    | _, _ => none
  | ds, .gdef d :: rest => inlineProg B (d :: ds) rest

/-! ### scoping -/

def Arg.scopedIn {ν : Type} (fs : List String) : Arg ν → Bool
  | .sym s => fs.contains s
  | .val _ => true

/-- every identifier used as an argument in the body is a formal parameter -/
def Def.scoped {ν : Type} (d : Def ν) : Bool :=
  d.body.all fun c => c.args.all (Arg.scopedIn d.formals)

def progDefs {ν : Type} : List (Stmt ν) → List (Def ν)
  | [] => []
  | .call _ :: rest => progDefs rest
  | .gdef d :: rest => d :: progDefs rest

end QV.QasmDef
