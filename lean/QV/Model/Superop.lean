/-
  QV.Model.Superop — executable model of the index conventions of
  `qibo/quantum_info/superoperator_transformations.py` and `basis.py` (import-free).

  Matrices are functions `Nat → Nat → α`, vectors `Nat → α`; the dimension `d` (and, for the
  `system` order, the number of qubits `n`, `d = 2^n`) is passed explicitly.  The scalar type is
  generic (`GI` in the driver, any commutative semiring with a conjugation in the proofs).

  MODELLED (tied by exact correspondence on every run):
    * `vectorization` / `unvectorization` for `order = row | column | system`
      (numpy `reshape`, `transpose`, `reshape(order="F")` and the bit interleaving
      `new_axis = [0, n+1, 1, n+2, 2, …]`) as index functions `vecIdx`, `rowOf`, `colOf`;
    * `_reshuffling` (`swapaxes(1,2)` for row, `swapaxes(0,3)` for column on the `(d,d,d,d)` view);
    * `kraus_to_choi` = Σ vec(K) vec(K)†, `choi_to_liouville` = `liouville_to_choi` = reshuffling,
      `kraus_to_liouville` = their composition;
    * `pauli_basis` (Kronecker structure of the einsum, any `pauli_order`),
      `comp_basis_to_pauli` (un-normalised), `liouville_to_pauli`, `pauli_to_liouville`,
      `kraus_to_chi`;
    * `kraus_to_stinespring`, `stinespring_to_kraus`.
-/
namespace QV.Superop

abbrev Mat (α : Type) := Nat → Nat → α

inductive Order where
  | row | column | system
  deriving DecidableEq, Repr

section sums
variable {α : Type} [Zero α] [Add α]

/-- `Σ_{k<n} f k`. -/
def sumRange : Nat → (Nat → α) → α
  | 0, _ => 0
  | n + 1, f => sumRange n f + f n

/-- `Σ_{x ∈ l} f x`. -/
def sumList {β : Type} : List β → (β → α) → α
  | [], _ => 0
  | x :: xs, f => f x + sumList xs f

end sums

/-! ### vectorisation index functions -/

/-- position of entry `(i, j)` in the `system` vectorisation of a `2^n × 2^n` matrix: the bits
of the column and row index are interleaved, column bit first, qubit 0 most significant. -/
def sysIdx : Nat → Nat → Nat → Nat
  | 0, _, _ => 0
  | n + 1, i, j => 4 * sysIdx n (i / 2) (j / 2) + (2 * (j % 2) + i % 2)

def sysRow : Nat → Nat → Nat
  | 0, _ => 0
  | n + 1, k => 2 * sysRow n (k / 4) + k % 2

def sysCol : Nat → Nat → Nat
  | 0, _ => 0
  | n + 1, k => 2 * sysCol n (k / 4) + (k / 2) % 2

/-- position of entry `(i, j)` of a `d × d` matrix in its vectorisation. -/
def vecIdx (o : Order) (d n : Nat) (i j : Nat) : Nat :=
  match o with
  | .row => i * d + j
  | .column => j * d + i
  | .system => sysIdx n i j

/-- row index of the matrix entry stored at position `k` of the vectorisation. -/
def rowOf (o : Order) (d n : Nat) (k : Nat) : Nat :=
  match o with
  | .row => k / d
  | .column => k % d
  | .system => sysRow n k

def colOf (o : Order) (d n : Nat) (k : Nat) : Nat :=
  match o with
  | .row => k % d
  | .column => k / d
  | .system => sysCol n k

variable {α : Type}

/-- `vectorization(A, order)`: output position `k` reads entry `(rowOf k, colOf k)`. -/
def vectorization (o : Order) (d n : Nat) (A : Mat α) : Nat → α :=
  fun k => A (rowOf o d n k) (colOf o d n k)

/-- `unvectorization(v, order)`: entry `(i, j)` reads position `vecIdx i j`. -/
def unvectorization (o : Order) (d n : Nat) (v : Nat → α) : Mat α :=
  fun i j => v (vecIdx o d n i j)

/-- `_reshuffling`: view the `d² × d²` matrix as `(d,d,d,d)`, swap axes 1,2 (row) or 0,3
(column).  (`system` raises `NotImplementedError` in qibo; the model returns the input.) -/
def reshuffle (o : Order) (d : Nat) (M : Mat α) : Mat α :=
  match o with
  | .row => fun r c => M ((r / d) * d + c / d) ((r % d) * d + c % d)
  | .column => fun r c => M ((c % d) * d + r % d) ((c / d) * d + r / d)
  | .system => M

section arith
variable [Zero α] [Add α] [Mul α]

/-- `kraus_to_choi`: Σ_K vec(K) vec(K)†. -/
def krausToChoi (conj : α → α) (o : Order) (d n : Nat) (Ks : List (Mat α)) : Mat α :=
  fun r c => sumList Ks (fun K => vectorization o d n K r * conj (vectorization o d n K c))

def choiToLiouville (o : Order) (d : Nat) (M : Mat α) : Mat α := reshuffle o d M
def liouvilleToChoi (o : Order) (d : Nat) (M : Mat α) : Mat α := reshuffle o d M

/-- `kraus_to_liouville` = `choi_to_liouville ∘ kraus_to_choi`. -/
def krausToLiouville (conj : α → α) (o : Order) (d n : Nat) (Ks : List (Mat α)) : Mat α :=
  choiToLiouville o d (krausToChoi conj o d n Ks)

/-- matrix–vector and matrix–matrix products of size `m`. -/
def matVec (m : Nat) (L : Mat α) (v : Nat → α) : Nat → α :=
  fun k => sumRange m (fun c => L k c * v c)

def matMul (m : Nat) (A B : Mat α) : Mat α :=
  fun r c => sumRange m (fun k => A r k * B k c)

def conjT (conj : α → α) (A : Mat α) : Mat α := fun r c => conj (A c r)

/-- SPEC: the Kraus action `Σ_K K ρ K†` on a `d × d` operator. -/
def applyKraus (conj : α → α) (d : Nat) (Ks : List (Mat α)) (ρ : Mat α) : Mat α :=
  fun i j => sumList Ks (fun K =>
    sumRange d (fun a => sumRange d (fun b => K i a * ρ a b * conj (K j b))))

/-- SPEC: the action encoded by a Choi matrix built with vectorisation index `v`:
`out[a,c] = Σ_{b,e} C[v a b, v c e] ρ[b,e]`. -/
def applyChoi (o : Order) (d n : Nat) (C : Mat α) (ρ : Mat α) : Mat α :=
  fun a c => sumRange d (fun b => sumRange d (fun e =>
    C (vecIdx o d n a b) (vecIdx o d n c e) * ρ b e))

/-- Kronecker product of two `d × d` matrices. -/
def kron (d : Nat) (A B : Mat α) : Mat α :=
  fun r c => A (r / d) (c / d) * B (r % d) (c % d)

/-! ### Stinespring dilation -/

/-- `kraus_to_stinespring`: Σ_α K_α ⊗ |α⟩⟨v| with `e = len(kraus_ops)` and environment
state `v` (the code conjugates `v` once and takes `outer(e_α, conj v)`). -/
def krausToStinespring (conj : α → α) (e : Nat) (Ks : List (Mat α)) (v : Nat → α) : Mat α :=
  fun r c => sumRange e (fun a =>
    (Ks.getD a (fun _ _ => 0)) (r / e) (c / e) * (if r % e = a then conj (v (c % e)) else 0))

/-- `stinespring_to_kraus`: `K_α = ⟨α| S |v⟩` on the `(d, e, d, e)` view. -/
def stinespringToKraus (e : Nat) (S : Mat α) (v : Nat → α) (a : Nat) : Mat α :=
  fun i j => sumRange e (fun b => S (i * e + a) (j * e + b) * v b)

end arith

/-! ### Pauli basis -/

section pauli
variable [Zero α] [One α] [Add α] [Mul α] [Neg α]

/-- single-qubit Pauli matrices in canonical numbering 0=I, 1=X, 2=Y, 3=Z; `im` is the
imaginary unit. -/
def pauli1 (im : α) (p : Nat) (i j : Nat) : α :=
  match p, i, j with
  | 0, 0, 0 => 1 | 0, 1, 1 => 1
  | 1, 0, 1 => 1 | 1, 1, 0 => 1
  | 2, 0, 1 => -im | 2, 1, 0 => im
  | 3, 0, 0 => 1 | 3, 1, 1 => -1
  | _, _, _ => 0

/-- element `k` of the `n`-qubit Pauli basis for `pauli_order = po` (position ↦ canonical
number): the Kronecker product of the single-qubit elements named by the base-4 digits of `k`,
first qubit = most significant digit. -/
def pauliN (im : α) (po : List Nat) : Nat → Nat → Mat α
  | 0, _ => fun i j => if i = 0 ∧ j = 0 then 1 else 0
  | n + 1, k => fun i j =>
      pauliN im po n (k / 4) (i / 2) (j / 2) * pauli1 im (po.getD (k % 4) 0) (i % 2) (j % 2)

/-- `comp_basis_to_pauli(n, normalize=False, order, pauli_order)`: row `k` is the conjugate of
the vectorised basis element `k`. -/
def compToPauli (conj : α → α) (im : α) (po : List Nat) (o : Order) (n : Nat) : Mat α :=
  fun k m => conj (vectorization o (2 ^ n) n (pauliN im po n k) m)

/-- `pauli_to_comp_basis`: the transpose of the vectorised basis (no conjugate). -/
def pauliToComp (im : α) (po : List Nat) (o : Order) (n : Nat) : Mat α :=
  fun m k => vectorization o (2 ^ n) n (pauliN im po n k) m

/-- `liouville_to_pauli(S)` (also `choi_to_chi`) = `B S B†`. -/
def liouvilleToPauli (conj : α → α) (im : α) (po : List Nat) (o : Order) (n : Nat) (S : Mat α) :
    Mat α :=
  let B := compToPauli conj im po o n
  matMul (4 ^ n) (matMul (4 ^ n) B S) (conjT conj B)

/-- `pauli_to_liouville(P)` (also `chi_to_choi`) = `B† P B` (= `Bᵀ* …`). -/
def pauliToLiouville (conj : α → α) (im : α) (po : List Nat) (o : Order) (n : Nat) (P : Mat α) :
    Mat α :=
  let Bi := pauliToComp im po o n
  matMul (4 ^ n) (matMul (4 ^ n) Bi P) (conjT conj Bi)

/-- `kraus_to_chi`: Σ_K (B vec K)(B vec K)†. -/
def krausToChi (conj : α → α) (im : α) (po : List Nat) (o : Order) (n : Nat)
    (Ks : List (Mat α)) : Mat α :=
  let B := compToPauli conj im po o n
  fun r c => sumList Ks (fun K =>
    matVec (4 ^ n) B (vectorization o (2 ^ n) n K) r
      * conj (matVec (4 ^ n) B (vectorization o (2 ^ n) n K) c))

end pauli

end QV.Superop
