/-
  QV.Model.Evolution — executable model of the bookkeeping behind qibo's time evolution
  (property C16).  Import-free apart from the simulator model and `embedEntry` (the
  enlargement of a local matrix to a bigger ordered qubit list, shared with the fusion model).

  Transliterated from
    * `hamiltonians/terms.py`   `TermGroup.__init__ / append / can_append / from_terms /
                                 to_term`, `HamiltonianTerm.merge / __mul__ / expgate`
    * `hamiltonians/hamiltonians.py`  `SymbolicHamiltonian.circuit`
    * `hamiltonians/adiabatic.py`     `SymbolicAdiabaticHamiltonian.__init__ / circuit`
    * `models/evolution.py`     `StateEvolution.execute` (number of steps, stepping,
                                 normalisation, callbacks)
    * `solvers.py`              the stepping scheme (`t += dt` per step)

  `expm` (scipy) is a parameter of the model (`E`), meaning `NormedSpace.exp`.

  What `merge` does with `kron` / `reshape` / `transpose(order)` / `reshape` is modelled by
  its effect on entries: the child's matrix, enlarged to the parent's ordered qubit list with
  the identity on the parent's other qubits, is added to the parent's matrix
  (`embedEntry parent.qs child`).  That numpy's pipeline has this effect for every qubit order
  is what the exact integer correspondence checks on every run.
-/
import QV.Model.Sim
import QV.Model.Fusion
namespace QV
namespace Evo

/-- a `HamiltonianTerm`: matrix on its ordered `target_qubits`; `ham` tags the parent
Hamiltonian (`term.hamiltonian`: 0 = h0, 1 = h1 in adiabatic evolution); `id` is the position
in the list handed to `from_terms` (Python object identity). -/
structure HTerm (α : Type) where
  mat : Nat → Nat → α
  qs  : List Nat
  ham : Nat := 0
  id  : Nat := 0

variable {α : Type}

/-- `term.gate` as the simulator sees it. -/
def HTerm.gate (t : HTerm α) : MGate α := { mat := t.mat, targets := t.qs, controls := [] }

/-- a `TermGroup`: the members in append order and the Python set `target_qubits`
(kept as a duplicate-free list). -/
structure TGroup (α : Type) where
  members : List (HTerm α)
  qubits  : List Nat

/-- `set(a).issubset(b)` -/
def subsetB (a b : List Nat) : Bool := a.all (fun q => b.contains q)

/-- `b | set(a)` on duplicate-free lists. -/
def unionL (b a : List Nat) : List Nat := a.foldl (fun acc q => if acc.contains q then acc else acc ++ [q]) b

/-- `TermGroup(term)` -/
def TGroup.new (t : HTerm α) : TGroup α := { members := [t], qubits := unionL [] t.qs }

/-- `group.can_append(term)` -/
def TGroup.canAppend (g : TGroup α) (t : HTerm α) : Bool := subsetB t.qs g.qubits

/-- `group.append(term)` -/
def TGroup.append (g : TGroup α) (t : HTerm α) : TGroup α :=
  { members := g.members ++ [t], qubits := unionL g.qubits t.qs }

/-- the inner loop of `from_terms`: the child goes to the first group that can take it,
otherwise it founds a new group at the end. -/
def place (t : HTerm α) : List (TGroup α) → List (TGroup α)
  | [] => [TGroup.new t]
  | g :: gs => if g.canAppend t then g.append t :: gs else g :: place t gs

/-- insertion that keeps a list ordered by decreasing arity, the new element in front of the
elements of its own arity. -/
def insertByArity (t : HTerm α) : List (HTerm α) → List (HTerm α)
  | [] => [t]
  | u :: us => if u.qs.length ≤ t.qs.length then t :: u :: us else u :: insertByArity t us

/-- the order in which `from_terms` visits the terms: `for order in sorted(orders)[::-1]:
for child in orders[order]` — decreasing arity, original order within one arity. -/
def orderTerms : List (HTerm α) → List (HTerm α)
  | [] => []
  | t :: ts => insertByArity t (orderTerms ts)

/-- `TermGroup.from_terms(terms)` -/
def fromTerms (ts : List (HTerm α)) : List (TGroup α) :=
  (orderTerms ts).foldl (fun gs t => place t gs) []

/-- the term list behind `SymbolicAdiabaticHamiltonian.groups`: the terms of `h0` in the order
of their own grouping, tagged 0, then those of `h1`, tagged 1. -/
def adiabaticTerms (t0 t1 : List (HTerm α)) : List (HTerm α) :=
  ((fromTerms t0).flatMap (·.members)).map (fun t => { t with ham := 0 })
    ++ ((fromTerms t1).flatMap (·.members)).map (fun t => { t with ham := 1 })

/-- `SymbolicAdiabaticHamiltonian.groups` -/
def adiabaticGroups (t0 t1 : List (HTerm α)) : List (TGroup α) := fromTerms (adiabaticTerms t0 t1)

section arith
variable [Zero α] [One α] [Add α] [Mul α]

/-- `term * c` -/
def HTerm.scale (c : α) (t : HTerm α) : HTerm α := { t with mat := fun i j => c * t.mat i j }

/-- `parent.merge(term)`: the parent's matrix plus the child's matrix enlarged to the parent's
ordered qubits; the result lives on the parent's qubits. -/
def HTerm.merge (p t : HTerm α) : HTerm α :=
  { p with mat := fun i j => p.mat i j + embedEntry p.qs t.gate i j }

/-- `group.to_term(coefficients)`; `c` maps the tag of the parent Hamiltonian to its
coefficient (the constant 1 when no coefficients are given). -/
def TGroup.toTerm (c : Nat → α) (g : TGroup α) : HTerm α :=
  match g.members with
  | [] => { mat := fun _ _ => 0, qs := [] }
  | p :: rest => rest.foldl (fun m t => m.merge (t.scale (c t.ham))) (p.scale (c p.ham))

/-- the queue of `SymbolicHamiltonian.circuit(dt)` /
`SymbolicAdiabaticHamiltonian.circuit(dt, t)`: every group forward, then every group backward,
each as `expgate(dt / 2)` of its merged term.  `E a t` is the matrix of `t.exp(a)`; `a` is the
already halved step. -/
def trotterGates (E : α → HTerm α → Nat → Nat → α) (c : Nat → α) (a : α)
    (groups : List (TGroup α)) : List (MGate α) :=
  (groups ++ groups.reverse).map fun g =>
    let t := g.toTerm c
    { mat := E a t, targets := t.qs, controls := [] }

end arith

/-! ### `StateEvolution.execute` -/

/-- the loop of `execute`: `n` solver steps; with callbacks the state is normalised after every
step and recorded; the state is normalised once more at the end.  Returns the final state and
the list of states the callbacks saw (most recent first). -/
def evolveLoop {S : Type} (step norm : S → S) (cb : Bool) : Nat → S → List S → S × List S
  | 0, s, hist => (norm s, hist)
  | n + 1, s, hist =>
      let s' := step s
      if cb then evolveLoop step norm cb n (norm s') (norm s' :: hist)
      else evolveLoop step norm cb n s' hist

def execute {S : Type} (step norm : S → S) (cb : Bool) (n : Nat) (s : S) : S × List S :=
  evolveLoop step norm cb n s [s]

/-- the number of steps in IEEE double arithmetic, as the repaired `execute` computes it:
`q = (T - t0) / dt`, `round(q)` if `|q - round(q)| < 1e-9`, else `int(q)`; `range(n)` with a
negative `n` is empty.  `round` is computed as the truncation of `q + 0.5` (so that the kernel
can evaluate it): this differs from Python's `round` only when `q` is not within `1e-9` of the
result (ties, `q + 0.5` rounding up to the next integer, `q < 0`), where the first branch is
not taken and both give `int(q)`. -/
def nstepsF (tf t0 dt : Float) : Nat :=
  let q := (tf - t0) / dt
  let r := (q + 0.5).toUInt64
  if (q - r.toFloat).abs < 1e-9 then r.toNat else q.toUInt64.toNat

/-- the step count of the code before the repair (`int((T - t0) / dt)`), kept as the
documented negation witness. -/
def nstepsLegacyF (tf t0 dt : Float) : Nat := ((tf - t0) / dt).toUInt64.toNat

/-! ### solvers with a clock (time-dependent Hamiltonians)

`BaseSolver` keeps its own time `t`; `solver(state)` reads the Hamiltonian at times derived from
the CURRENT `t` (the exponential and Trotter solvers at `t` itself — the Hamiltonian is frozen over
the step —, the Runge–Kutta solvers at their stage times) and then advances the clock
(`self.t += self.dt`).  `execute` sets `solver.t = start_time` first. -/

inductive SolverKind where
  | exp | rk4 | rk45
  deriving DecidableEq, Repr

/-- the times at which one solver step started at clock `t` reads the Hamiltonian, in the order
in which the values are USED (`k1, k2, …`): `Exponential` / `TrotterizedExponential`: `t`;
`RungeKutta4`: `t, t + dt/2, t + dt/2, t + dt`; `RungeKutta45`: `t, t + dt/4, t + 3dt/8,
t + 12dt/13, t + dt, t + dt/2`.  Written with the operations of the code (`3 * dt / 8.0` is
`(3 * dt) / 8`) so that over `Float` the values are bit-identical; `nat` is the cast of the
literals. -/
def stageTimes {T : Type} [Add T] [Mul T] [Div T] (nat : Nat → T) (k : SolverKind) (t dt : T) :
    List T :=
  match k with
  | .exp => [t]
  | .rk4 => [t, t + dt / nat 2, t + dt / nat 2, t + dt]
  | .rk45 => [t, t + dt / nat 4, t + nat 3 * dt / nat 8, t + nat 12 * dt / nat 13, t + dt,
      t + dt / nat 2]

/-- one call `solver(state)` of a solver with a clock: the step operator of the current time is
applied and the clock advances. -/
def timedStep {T V : Type} (adv : T → T) (U : T → V → V) (p : T × V) : T × V :=
  (adv p.1, U p.1 p.2)

/-- `normalize_state` does not touch the clock. -/
def timedNorm {T V : Type} (norm : V → V) (p : T × V) : T × V := (p.1, norm p.2)

/-- the ordered composition of `n` steps started at clock `t`: the step of time `t` first, then
that of `adv t`, … -/
def timedIter {T V : Type} (adv : T → T) (U : T → V → V) : Nat → T → V → V
  | 0, _, v => v
  | n + 1, t, v => timedIter adv U n (adv t) (U t v)

/-- what `StateEvolution.execute` does with a solver of kind `k`, observed through the times at
which the Hamiltonian is read: the state is the log of reads. -/
def readLog {T : Type} [Add T] [Mul T] [Div T] (nat : Nat → T) (k : SolverKind) (cb : Bool)
    (n : Nat) (t0 dt : T) : T × List T :=
  (execute (timedStep (fun t => t + dt) (fun t log => log ++ stageTimes nat k t dt))
    (timedNorm id) cb n (t0, [])).1

end Evo
end QV
