/-
  QV.Model.Pipeline — executable model of qibo's transpilation pipeline glue
  (`transpiler/pipeline.py`: `restrict_connectivity_qubits`, `Passes.__call__`,
  `Passes.is_satisfied`; `transpiler/optimizer.py`: `Preprocessing.__call__`;
  `transpiler/placer.py`: the `wire_names := sorted(mapping, key=mapping.get)` step of
  Random / Subgraph, `StarConnectivityPlacer.__call__` exactly;
  `transpiler/asserts.py`: `assert_placement`, `assert_connectivity`,
  `assert_decomposition`; the relabelling of the connectivity graph to wire indices
  that the routers perform).  Mathlib-free.

  A circuit is what the pipeline looks at: number of qubits, wire names (device node
  names, encoded as naturals by the harness), and the queue as gate skeletons
  (class id in the convention of QV/Model/Unroller.lean — 3 is `M` —, an opaque tag for
  the parameters, the ordered qubits = wire INDICES).  The tag of a measurement entry
  stands for ALL its constructor arguments (register name, collapse flag, bases, the
  readout-error maps p0 / p1 in the order of its qubits): "the queue is kept" (padding,
  placers) and "the measurement entries are kept" (unroller contract) include them.

  The heuristic searches (Random's sampling, Subgraph's isomorphism search,
  ReverseTraversal, the routers, the unroller's tables) are ORACLES of the pipeline
  model: `Pass.placer / router / unroller` carry the oracle's answer, and the model
  VALIDATES it (`permOf`, `routeOk`, `unrollOk`) — these validations are the
  hypotheses of the composition theorem and are evaluated on every real run.
-/
import QV.Model.Router
import QV.Model.Unroller
namespace QV.Pipe
open QV.Router

abbrev Name := Nat

structure PGate where
  cls : Nat
  tag : Nat
  qs  : List Nat
  deriving DecidableEq, Repr, Inhabited

/-- `isinstance(gate, gates.M)`. -/
def PGate.meas (g : PGate) : Bool := g.cls == Unroll.cM

/-- the gate as the routers see it (C09's model). -/
def PGate.toR (g : PGate) : RGate := ⟨2 * (g.cls + g.tag * 1024) + 2, g.meas, g.qs⟩

/-- the gate as the unroller sees it (C10's model). -/
def PGate.toU (g : PGate) : Unroll.UGate := ⟨g.cls, g.qs, g.tag, false⟩

def PGate.relabel (σ : Nat → Nat) (g : PGate) : PGate := { g with qs := g.qs.map σ }

structure Circ where
  nqubits : Nat
  wires   : List Name
  queue   : List PGate
  deriving DecidableEq, Repr, Inhabited

structure Device where
  nodes : List Name
  edges : List (Name × Name)
  deriving Repr, Inhabited

/-- `(a, b) in connectivity.edges` of an undirected graph. -/
def Device.hasEdge (d : Device) (a b : Name) : Bool := d.edges.contains (a, b) || d.edges.contains (b, a)

/-! ### `restrict_connectivity_qubits` -/

/-- nodes reachable from the seeds in at most `fuel` rounds. -/
def reach (d : Device) : Nat → List Name → List Name
  | 0, seen => seen
  | fuel + 1, seen =>
    let new := d.nodes.filter fun v => !seen.contains v && seen.any fun u => d.hasEdge u v
    if new.isEmpty then seen else reach d fuel (seen ++ new)

/-- `nx.is_connected` (the empty graph has no answer: networkx raises). -/
def Device.connected (d : Device) : Bool :=
  match d.nodes with
  | [] => false
  | v :: _ => (reach d d.nodes.length [v]).length == d.nodes.length

/-- `restrict_connectivity_qubits(connectivity, qubits)`; `none` = ConnectivityError. -/
def restrict (d : Device) (qs : List Name) : Option Device :=
  if !(qs.all d.nodes.contains) then none
  else
    let d' : Device := ⟨qs.eraseDups, d.edges.filter fun e => qs.contains e.1 && qs.contains e.2⟩
    if d'.connected then some d' else none

/-! ### `Preprocessing` -/

/-- `Preprocessing.__call__`; `none` = ValueError.  The unused device nodes are appended
    (in node order here; qibo appends them in the iteration order of a Python set — the
    harness compares the appended part as a set). -/
def pad (d : Device) (c : Circ) : Option Circ :=
  if !(c.wires.all d.nodes.contains) then none
  else if c.nqubits > d.nodes.length then none
  else if c.nqubits == d.nodes.length then some c
  else
    let w := c.wires ++ d.nodes.filter fun v => !c.wires.contains v
    if w.length == d.nodes.length then some { nqubits := d.nodes.length, wires := w, queue := c.queue }
    else none

/-! ### acceptance predicates -/

/-- `assert_placement` does not raise. -/
def assertPlacement (d : Device) (c : Circ) : Bool :=
  c.nqubits == c.wires.length && c.nqubits == d.nodes.length &&
  c.wires.all d.nodes.contains && d.nodes.all c.wires.contains

/-- `layout[gate.qubits[k]]`. -/
def wireAt (w : List Name) (i : Nat) : Name := w.getD i 0

/-- the test `assert_connectivity` applies to one gate. -/
def connOk (d : Device) (w : List Name) (g : PGate) : Bool :=
  g.meas ||
  match g.qs with
  | [a, b] => d.hasEdge (wireAt w a) (wireAt w b)
  | qs => decide (qs.length ≤ 2)

/-- `assert_connectivity` does not raise. -/
def assertConnectivity (d : Device) (c : Circ) : Bool := c.queue.all (connOk d c.wires)

/-- `assert_decomposition` does not raise (class test of C10's model). -/
def assertDecomposition (nat : Unroll.Natives) (c : Circ) : Bool :=
  Unroll.assertDecomposition nat (c.queue.map PGate.toU)

/-- `Passes.is_satisfied`. -/
def isSatisfied (d : Device) (nat : Unroll.Natives) (c : Circ) : Bool :=
  assertPlacement d c && assertConnectivity d c && assertDecomposition nat c

/-! ### placers -/

/-- stable insertion by value (position before the first entry with a value ≥ x's). -/
def insertByVal (x : Name × Nat) : List (Name × Nat) → List (Name × Nat)
  | [] => [x]
  | y :: ys => if x.2 ≤ y.2 then x :: y :: ys else y :: insertByVal x ys

def sortByVal : List (Name × Nat) → List (Name × Nat)
  | [] => []
  | x :: xs => insertByVal x (sortByVal xs)

/-- `sorted(mapping, key=mapping.get)` on a dict given as its item list. -/
def sortedKeys (m : List (Name × Nat)) : List Name := (sortByVal m).map (·.1)

/-- `w` lists every device node exactly once (same length, every node present). -/
def permOf (d : Device) (w : List Name) : Bool :=
  w.length == d.nodes.length && d.nodes.all w.contains && w.all d.nodes.contains

/-- degree of a node (distinct neighbours among the nodes). -/
def Device.degree (d : Device) (v : Name) : Nat :=
  (d.nodes.filter fun u => u != v && d.hasEdge u v).length

/-- `_check_star_connectivity`: the middle qubit, `none` = ConnectivityError. -/
def starMiddle (d : Device) : Option Name :=
  if d.nodes.length != 5 then none
  else if d.nodes.any (fun v => d.degree v != 4 && d.degree v != 1) then none
  else (d.nodes.filter fun v => d.degree v == 4).getLast?

/-- exchange the entries at two positions (Python tuple assignment on a list). -/
def swapAt (w : List Name) (i j : Nat) : List Name :=
  (w.set i (w.getD j 0)).set j (w.getD i 0)

/-- the loop of `StarConnectivityPlacer.__call__` over the queue; measurements are
    skipped, as `StarConnectivityRouter` and `_find_connected_qubit` do. -/
def starPlaceLoop (n midIdx : Nat) (w : List Name) : List PGate → Option (List Name)
  | [] => some w
  | g :: rest =>
    if g.meas then starPlaceLoop n midIdx w rest
    else if g.qs.length > 2 then none
    else
      match g.qs with
      | [a, b] =>
        if a == midIdx || b == midIdx then starPlaceLoop n midIdx w rest
        else
          match findConnected a b (List.range n) [a, b] (rest.map PGate.toR) with
          | none => none
          | some nm => some (swapAt w midIdx nm)
      | _ => starPlaceLoop n midIdx w rest

/-- `StarConnectivityPlacer.__call__`: the new wire names, `none` = an error is raised. -/
def starPlace (d : Device) (c : Circ) : Option (List Name) :=
  if !assertPlacement d c then none
  else
    match starMiddle d with
    | none => none
    | some mid => starPlaceLoop c.nqubits (c.wires.idxOf mid) c.wires c.queue

/-! ### the hand-over of the connectivity to the routers -/

/-- `nx.relabel_nodes(connectivity, {v: i for i, v in enumerate(wire_names)})`: the edge
    list in wire indices, on which the routers of C09 work. -/
def relabelEdges (w : List Name) (E : List (Name × Name)) : List (Nat × Nat) :=
  E.map fun e => (w.idxOf e.1, w.idxOf e.2)

/-! ### validation of the oracles' answers (hypotheses of the composition theorem) -/

def isPermOfRange (n : Nat) (l : List Nat) : Bool :=
  l.length == n && (List.range n).all l.contains

/-- contract of a router answer `(queue, l2p)` on the placed circuit, in wire indices:
    every gate executable on the relabelled graph, `l2p` a permutation of the indices. -/
def routeOk (d : Device) (c : Circ) (q : List PGate) (l2p : List Nat) : Bool :=
  q.all (fun g => gateOk (relabelEdges c.wires d.edges) g.toR) &&
  q.all (fun g => g.meas || decide (g.qs.length ≤ 2)) &&
  q.all (fun g => g.qs.all fun i => decide (i < c.nqubits)) &&
  isPermOfRange c.nqubits l2p

def samePair (a b : List Nat) : Bool := a == b || a == b.reverse

/-- contract of an unroller answer: only native classes (or `M`), at most two qubits,
    every two-qubit gate on the pair of a two-qubit gate of the input, measurements
    untouched. -/
def unrollOk (nat : Unroll.Natives) (inp out : List PGate) : Bool :=
  out.all (fun g => g.meas || (decide (g.qs.length ≤ 2) && Unroll.isNative nat g.cls)) &&
  out.all (fun g => g.meas || g.qs.length != 2 ||
    inp.any fun h => !h.meas && samePair g.qs h.qs) &&
  out.filter (·.meas) == inp.filter (·.meas)

/-! ### the unroller INSIDE the model: C10's dispatch on table data -/

/-- shape property of a table's rows behind the locality of its calls: the qubit indices
    of every template gate are pairwise distinct and no template is a measurement. -/
def localRows (d : Unroll.TableData) : Bool :=
  d.rows.all fun r => r.2.2.all fun x => decide x.qubits.Nodup && x.cls != Unroll.cM

/-- Bool version of `TablesLocal` (QV/Proofs/PipelineUnroll.lean) on the data of the real
    tables (driver command LOCAL, on every run, like C10's `closedCheck`). -/
def localCheck (D : Unroll.TablesData) : Bool :=
  localRows D.gpi2 && localRows D.u3 && localRows D.cz && localRows D.iswap &&
  localRows D.opt && localRows D.cnot

/-- what the derived unroller contract asks of the queue handed to the unroller:
    measurements, and gates on at most two qubits whose pass-through classes (`I`,
    `Align`) are native. -/
def unrollInputOk (nat : Unroll.Natives) (inp : List PGate) : Bool :=
  inp.all fun g => g.meas ||
    (decide (g.qs.length ≤ 2) && (!Unroll.passThrough g.cls || Unroll.isNative nat g.cls))

def PGate.ofU (x : Unroll.UGate) : PGate := ⟨x.cls, x.tag, x.qubits⟩

/-- the unroller pass COMPUTED by C10's dispatch model (instead of taken as an oracle);
    `none` = an exception, or a `controlled_by` gate in the result (never with real tables). -/
def unrollDispatch (T : Unroll.Tables) (nat : Unroll.Natives) (fuel : Nat) (q : List PGate) :
    Option (List PGate) :=
  (Unroll.unroll T nat fuel (q.map PGate.toU)).bind fun out =>
    if out.all (fun x => !x.cb) then some (out.map PGate.ofU) else none

/-! ### `Passes.__call__` -/

inductive Pass where
  | pre
  | placer (answer : Option (List Name))                    -- new wire names / raises
  | star                                                     -- StarConnectivityPlacer, modelled
  | router (answer : Option (List PGate × List Nat))         -- routed queue and l2p / raises
  | unroller (answer : Option (List PGate))                  -- translated queue / raises
  deriving Repr

structure PState where
  circ   : Circ
  layout : Option (List Nat)      -- `final_layout` values by wire index; `none` = Python None
  deriving Repr

/-- one iteration of the loop of `Passes.__call__` (every pass gets `self.connectivity`). -/
def runPass (d : Device) (s : PState) : Pass → Option PState
  | .pre => (pad d s.circ).map fun c => { s with circ := c }
  | .placer ans =>
    if !assertPlacement d s.circ then none
    else ans.bind fun w =>
      if w.length == s.circ.nqubits then some { circ := { s.circ with wires := w }, layout := none } else none
  | .star => (starPlace d s.circ).map fun w => { circ := { s.circ with wires := w }, layout := none }
  | .router ans =>
    if !assertPlacement d s.circ then none
    else ans.map fun (q, l2p) => { circ := { s.circ with queue := q }, layout := some l2p }
  | .unroller ans => ans.map fun q => { s with circ := { s.circ with queue := q } }

def runPasses (d : Device) : PState → List Pass → Option PState
  | s, [] => some s
  | s, p :: ps => (runPass d s p).bind fun s' => runPasses d s' ps

/-- `Passes(...)(circuit)`. -/
def passesCall (d : Device) (c : Circ) (ps : List Pass) : Option PState :=
  runPasses d ⟨c, none⟩ ps

/-! ### validation of a whole run (what the driver evaluates on every recorded real run) -/

/-- the validation of one pass's answer in the state it is given (`pre` and the modelled
    star placer have no oracle; the star placer's loop needs the queue's wire indices in
    range). -/
def validPass (d : Device) (nat : Unroll.Natives) (s : PState) : Pass → Bool
  | .pre => true
  | .star => s.circ.queue.all fun g => g.qs.all fun i => decide (i < s.circ.nqubits)
  | .placer (some w) => permOf d w
  | .router (some (q, l)) => routeOk d s.circ q l
  | .unroller (some q) => unrollOk nat s.circ.queue q
  | _ => true

/-- every answer along the run of an arbitrary pass list passes its validation. -/
def validRun (d : Device) (nat : Unroll.Natives) : PState → List Pass → Bool
  | _, [] => true
  | s, p :: ps =>
    validPass d nat s p &&
    match runPass d s p with
    | none => true
    | some s' => validRun d nat s' ps

/-! ### what a pass list establishes (folds over the list, any order, repetitions allowed) -/

/-- after the list the circuit is placed (one device node per wire): every pass except the
    unroller establishes or demands it. -/
def placedAfter (b : Bool) : List Pass → Bool
  | [] => b
  | .unroller _ :: ps => placedAfter b ps
  | _ :: ps => placedAfter true ps

/-- after the list the circuit respects the connectivity: established by a router, kept by
    padding (the identity on a placed circuit) and unrolling, lost by a placer. -/
def connAfter (b : Bool) : List Pass → Bool
  | [] => b
  | .router _ :: ps => connAfter true ps
  | .placer _ :: ps => connAfter false ps
  | .star :: ps => connAfter false ps
  | _ :: ps => connAfter b ps

/-- after the list only native gates are left: established by the unroller, lost by a
    router (it inserts SWAPs). -/
def decAfter (b : Bool) : List Pass → Bool
  | [] => b
  | .unroller _ :: ps => decAfter true ps
  | .router _ :: ps => decAfter false ps
  | _ :: ps => decAfter b ps

/-- the `final_layout` `Passes.__call__` returns: the last router's, `None` after a placer. -/
def layoutAfter (l : Option (List Nat)) : List Pass → Option (List Nat)
  | [] => l
  | .router (some (_, l2p)) :: ps => layoutAfter (some l2p) ps
  | .placer _ :: ps => layoutAfter none ps
  | .star :: ps => layoutAfter none ps
  | _ :: ps => layoutAfter l ps

/-! ### pass OBJECTS: the attribute `connectivity` and its hand-over -/

/-- the attribute `connectivity` of every pass object alive (`none` = Python `None`);
    the identity of a pass object is its index. -/
abbrev Store := List (Option Device)

/-- one iteration of the loop of `Passes.__call__` on pass object `i`:
    `transpiler_pass.connectivity = self.connectivity`, then the call, which reads the
    attribute (the unroller has none and is called directly). -/
def runPassObj (d : Device) (st : Store) (s : PState) (i : Nat) (p : Pass) : Option (PState × Store) :=
  match p with
  | .unroller _ => (runPass d s p).map fun s' => (s', st)
  | _ =>
    let st' := st.set i (some d)
    match st'.getD i none with
    | none => none
    | some dev => (runPass dev s p).map fun s' => (s', st')

def runPassesObj (d : Device) : Store → PState → List (Nat × Pass) → Option (PState × Store)
  | st, s, [] => some (s, st)
  | st, s, (i, p) :: ps => (runPassObj d st s i p).bind fun r => runPassesObj d r.2 r.1 ps

/-- the variant "a pass that already has a connectivity keeps it" (NOT what qibo does;
    used for a negative witness only). -/
def runPassObjKeep (d : Device) (st : Store) (s : PState) (i : Nat) (p : Pass) : Option (PState × Store) :=
  match p with
  | .unroller _ => (runPass d s p).map fun s' => (s', st)
  | _ =>
    let st' := match st.getD i none with
      | none => st.set i (some d)
      | some _ => st
    match st'.getD i none with
    | none => none
    | some dev => (runPass dev s p).map fun s' => (s', st')

end QV.Pipe
