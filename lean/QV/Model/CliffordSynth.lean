/-
  QV.Model.CliffordSynth — executable model of qibo's tableau → circuit synthesis
  `Clifford.to_circuit("AG04")` (`quantum_info/_clifford_utils.py`: `_decomposition_AG04`,
  `_set_qubit_x_to_true`, `_set_row_x_to_zero`, `_set_row_z_to_zero`,
  `_single_qubit_clifford_decomposition`, `Circuit.invert`).

  The Python helpers work on a deep copy of the symplectic matrix and on a circuit: every engine
  call `engine.G(symplectic_matrix, …)` is immediately followed by `circuit.add(gates.G(…))`.  The
  model state is the pair (tableau, gates appended so far) and `emit g` does both.  The Python
  names `x`, `z` are numpy VIEWS of one row of the matrix the engine updates in place, so every
  test `x[k]` / `z[k]` / `np.any(z[qubit:])` reads the CURRENT tableau: the model re-reads the row
  from the current state at every test.  `for k in range(a, b)` is `forRange … a (b - a)`, a loop
  that returns at the first hit is `firstIdx`.  Import-free (core Lean + the tableau model).
-/
import QV.Model.Clifford
namespace QV.Cliff

/-- (working tableau, gates appended to `circuit` so far, in order). -/
abbrev Synth := Tableau × List Gate

/-- `engine.G(clifford.symplectic_matrix, …); circuit.add(gates.G(…))`. -/
def emit (g : Gate) (s : Synth) : Synth := (applyGate g s.1, s.2 ++ [g])

/-- `if b: engine.G(…); circuit.add(G)`. -/
def emitIf (b : Bool) (g : Gate) (s : Synth) : Synth := if b then emit g s else s

/-- `for k in range(lo, lo + cnt): s = f(k, s)`. -/
def forRange (f : Nat → Synth → Synth) : Nat → Nat → Synth → Synth
  | _, 0, s => s
  | lo, cnt + 1, s => forRange f (lo + 1) cnt (f lo s)

/-- first `k` in `range(lo, lo + cnt)` with `p k` (a loop that returns at its first hit). -/
def firstIdx (p : Nat → Bool) : Nat → Nat → Option Nat
  | _, 0 => none
  | lo, cnt + 1 => if p lo then some lo else firstIdx p (lo + 1) cnt

/-- `np.any(v[lo : lo + cnt])`. -/
def anyIdx (p : Nat → Bool) (lo cnt : Nat) : Bool := (firstIdx p lo cnt).isSome

/-- `_set_qubit_x_to_true(clifford, circuit, qubit=i)`: row `i` is the destabiliser `i`. -/
def setQubitXToTrue (n i : Nat) (s : Synth) : Synth :=
  let w := getRow s.1 i
  if w.x i then s else
  match firstIdx (fun k => w.x k) (i + 1) (n - (i + 1)) with
  | some k => emit (.SWAP k i) s
  | none =>
    match firstIdx (fun k => w.z k) i (n - i) with
    | some k =>
      let s1 := emit (.H k) s
      if k ≠ i then emit (.SWAP k i) s1 else s1
    | none => s

/-- `_set_row_x_to_zero(clifford, circuit, qubit=i)`. -/
def setRowXToZero (n i : Nat) (s : Synth) : Synth :=
  let s1 := forRange (fun k s => emitIf ((getRow s.1 i).x k) (.CNOT i k) s) (i + 1) (n - (i + 1)) s
  if anyIdx (fun k => (getRow s1.1 i).z k) i (n - i) then
    let s2 := emitIf (!(getRow s1.1 i).z i) (.S i) s1
    let s3 := forRange (fun k s => emitIf ((getRow s.1 i).z k) (.CNOT k i) s) (i + 1) (n - (i + 1)) s2
    emit (.S i) s3
  else s1

/-- `_set_row_z_to_zero(clifford, circuit, qubit=i)`: row `n + i` is the stabiliser `i`. -/
def setRowZToZero (n i : Nat) (s : Synth) : Synth :=
  let s1 :=
    if anyIdx (fun k => (getRow s.1 (n + i)).z k) (i + 1) (n - (i + 1)) then
      forRange (fun k s => emitIf ((getRow s.1 (n + i)).z k) (.CNOT k i) s) (i + 1) (n - (i + 1)) s
    else s
  if anyIdx (fun k => (getRow s1.1 (n + i)).x k) i (n - i) then
    let s2 := emit (.H i) s1
    let s3 := forRange (fun k s => emitIf ((getRow s.1 (n + i)).x k) (.CNOT i k) s) (i + 1) (n - (i + 1)) s2
    let s4 := emitIf ((getRow s3.1 (n + i)).z i) (.S i) s3
    emit (.H i) s4
  else s1

/-- one pass of the main loop of `_decomposition_AG04` for qubit `k`. -/
def ag04Step (n k : Nat) (s : Synth) : Synth :=
  setRowZToZero n k (setRowXToZero n k (setQubitXToTrue n k s))

/-- the first loop of `_decomposition_AG04`. -/
def ag04Eliminate (n : Nat) (s : Synth) : Synth := forRange (ag04Step n) 0 n s

/-- one pass of the second loop (phases) for qubit `k`. -/
def signStep (n k : Nat) (s : Synth) : Synth :=
  let s1 := emitIf (getRow s.1 k).r (.Z k) s
  emitIf (getRow s1.1 (n + k)).r (.X k) s1

/-- the second loop of `_decomposition_AG04`: clear the phases with `Z` / `X`. -/
def fixSigns (n : Nat) (s : Synth) : Synth := forRange (signStep n) 0 n s

/-- both loops, starting from the copy of the tableau and the empty circuit. -/
def ag04Forward (n : Nat) (T : Tableau) : Synth := fixSigns n (ag04Eliminate n (T, []))

/-- `gate.dagger()` for the gates of the Clifford library that have an inverse in the library
(angles are indices: `k·π/2` resp. `k·π`). -/
def Gate.dagger : Gate → Gate
  | .S q => .SDG q | .SDG q => .S q | .SX q => .SXDG q | .SXDG q => .SX q
  | .RX q k => .RX q (-k) | .RY q k => .RY q (-k) | .RZ q k => .RZ q (-k)
  | .CRX c t k => .CRX c t (-k) | .CRY c t k => .CRY c t (-k) | .CRZ c t k => .CRZ c t (-k)
  | g => g

/-- `circuit.invert()`: daggers in reverse order. -/
def invertCircuit (gs : List Gate) : List Gate := gs.reverse.map Gate.dagger

/-- `_single_qubit_clifford_decomposition` on the bits of a 1-qubit tableau (destabiliser
`dx dz dr`, stabiliser `sx sz sr`), the gates placed on qubit `q` (BM20 re-targets them). -/
def singleQubitQ (q : Nat) (dx dz dr sx sz sr : Bool) : List Gate :=
  (if dr && !sr then [Gate.Z q] else if !dr && sr then [Gate.X q]
    else if dr && sr then [Gate.Y q] else [])
  ++
  (if sz && !sx then (if dz then [Gate.S q] else [])
    else if !sz && sx then (if dx then [Gate.SDG q] else []) ++ [Gate.H q]
    else (if !dz then [Gate.S q] else []) ++ [Gate.H q, Gate.S q])

/-- `_single_qubit_clifford_decomposition(symplectic_matrix)` of a 1-qubit tableau. -/
def singleQubitB (dx dz dr sx sz sr : Bool) : List Gate := singleQubitQ 0 dx dz dr sx sz sr

def singleQubit (T : Tableau) : List Gate :=
  singleQubitB ((getRow T 0).x 0) ((getRow T 0).z 0) (getRow T 0).r
    ((getRow T 1).x 0) ((getRow T 1).z 0) (getRow T 1).r

/-- `Clifford.to_circuit("AG04")` as a gate list (`nqubits == 1` is decomposed directly and is not
inverted; otherwise the recorded circuit is inverted). -/
def toCircuitAG04 (n : Nat) (T : Tableau) : List Gate :=
  if n = 1 then singleQubit T else invertCircuit (ag04Forward n T).2

/-! ### `to_circuit("BM20")`: `_decomposition_BM20`, `_cnot_cost`, `_reduce_cost` -/

/-- `_rank_2(a, b, c, d)`. -/
def rank2 (a b c d : Bool) : Nat :=
  if (a && d) ^^ (b && c) then 2 else if a || b || c || d then 1 else 0

/-- `_cnot_cost2`: entries `[i, j]` of `symplectic_matrix[:-1, :-1]` are `x_j` (`j < n`) resp.
`z_{j-n}` of row `i`. -/
def cnotCost2 (T : Tableau) : Nat :=
  let a := getRow T 0
  let c := getRow T 2
  let r00 := rank2 (a.x 0) (a.z 0) (c.x 0) (c.z 0)
  let r01 := rank2 (a.x 1) (a.z 1) (c.x 1) (c.z 1)
  if r00 = 2 then r01 else r01 + 1 - r00

/-- `np.array_equal(row & mask, row)` with the mask of qubit `q` on a 3-qubit row given by bits. -/
def onlyOn3 (x z : Nat → Bool) (q : Nat) : Bool :=
  (List.range 3).all fun k => k == q || (!x k && !z k)

def sort3 (a b c : Nat) : List Nat :=
  let ins := fun (v : Nat) (l : List Nat) =>
    match l with
    | [] => [v]
    | [p] => if v ≤ p then [v, p] else [p, v]
    | p :: r :: _ => if v ≤ p then [v, p, r] else if v ≤ r then [p, v, r] else [p, r, v]
  ins a (ins b (ins c []))

def b2n (b : Bool) : Nat := if b then 1 else 0

/-- `R2[q1, q2]` of `_cnot_cost3`. -/
def r2Entry (T : Tableau) (q1 q2 : Nat) : Nat :=
  rank2 ((getRow T q1).x q2) ((getRow T q1).z q2) ((getRow T (q1 + 3)).x q2) ((getRow T (q1 + 3)).z q2)

/-- `R1[q1, q2]` of `_cnot_cost3`: how many of destabiliser, stabiliser and their product … -/
def r1Entry (T : Tableau) (q1 q2 : Nat) : Nat :=
  let a := getRow T q1
  let c := getRow T (q1 + 3)
  let lx := onlyOn3 a.x a.z q2
  let lz := onlyOn3 c.x c.z q2
  let ly := onlyOn3 (fun k => a.x k ^^ c.x k) (fun k => a.z k ^^ c.z k) q2
  b2n (lx || lz || ly) + b2n (lx && lz && ly)

/-- the decision list at the end of `_cnot_cost3`. -/
def cost3Table (diag1 diag2 : List Nat) (nz1 nz2 : Nat) : Nat :=
  if diag1 == [2, 2, 2] then 0
  else if diag1 == [1, 1, 2] then 1
  else if diag1 == [0, 1, 1] || (diag1 == [1, 1, 1] && nz2 < 9) || (diag1 == [0, 0, 2] && diag2 == [1, 1, 2]) then 2
  else if (diag1 == [1, 1, 1] && nz2 == 9)
      || (diag1 == [0, 0, 1] && (nz1 == 1 || diag2 == [2, 2, 2] || (diag2 == [1, 1, 2] && nz2 < 9)))
      || (diag1 == [0, 0, 2] && diag2 == [0, 0, 2])
      || (diag2 == [1, 2, 2] && nz1 == 0) then 3
  else if diag2 == [0, 0, 1]
      || (diag1 == [0, 0, 0] && ((diag2 == [1, 1, 1] && nz2 == 9 && nz1 == 3)
        || (diag2 == [0, 1, 1] && nz2 == 8 && nz1 == 2))) then 5
  else if nz1 == 3 && nz2 == 3 then 6
  else 4

/-- `_cnot_cost3`. -/
def cnotCost3 (T : Tableau) : Nat :=
  let pairs := (List.range 3).flatMap fun q1 => (List.range 3).map fun q2 => (q1, q2)
  cost3Table (sort3 (r1Entry T 0 0) (r1Entry T 1 1) (r1Entry T 2 2))
    (sort3 (r2Entry T 0 0) (r2Entry T 1 1) (r2Entry T 2 2))
    (pairs.filter fun p => r1Entry T p.1 p.2 != 0).length
    (pairs.filter fun p => r2Entry T p.1 p.2 != 0).length

/-- `_cnot_cost` (`nqubits == 3` → `_cnot_cost3`, otherwise `_cnot_cost2`). -/
def cnotCost (n : Nat) (T : Tableau) : Nat := if n = 3 then cnotCost3 T else cnotCost2 T

/-- what `_reduce_cost` applies to the copy for the local choice `k ∈ {0, 1, 2}` on `q`. -/
def bmApply (k q : Nat) (T : Tableau) : Tableau :=
  match k with
  | 1 => applyGate (.H q) (applyGate (.SDG q) T)
  | 2 => applyGate (.H q) (applyGate (.SDG q) (applyGate (.H q) (applyGate (.SDG q) T)))
  | _ => T

/-- what `_reduce_cost` appends to `inverse_circuit` for that choice. -/
def bmRecord (k q : Nat) : List Gate :=
  match k with
  | 1 => [.SDG q, .H q]
  | 2 => [.H q, .S q]
  | _ => []

/-- the candidates of `_reduce_cost` in loop order: `(control, target, n0, n1)`. -/
def bmCandidates (n : Nat) : List (Nat × Nat × Nat × Nat) :=
  (List.range n).flatMap fun c => ((List.range n).filter fun t => c < t).flatMap fun t =>
    (List.range 3).flatMap fun n0 => (List.range 3).map fun n1 => (c, t, n0, n1)

/-- `_reduce_cost(clifford, inverse_circuit, cost)`: the first candidate whose cost is `cost - 1`
(`none`: `RuntimeError("Failed to reduce CNOT cost.")`); returns the reduced tableau and the gates
appended to `inverse_circuit`. -/
def reduceCost (cost : Tableau → Nat) (n : Nat) (T : Tableau) (c : Nat) : Option (Tableau × List Gate) :=
  (bmCandidates n).findSome? fun (ctrl, tgt, n0, n1) =>
    let R := applyGate (.CNOT ctrl tgt) (bmApply n1 tgt (bmApply n0 ctrl T))
    if cost R + 1 = c then some (R, bmRecord n0 ctrl ++ bmRecord n1 tgt ++ [.CNOT ctrl tgt]) else none

/-- `while cnot_cost > 0: … = _reduce_cost(…)`; the cost drops by exactly one per pass. -/
def bmLoop (cost : Tableau → Nat) (n : Nat) : Nat → Tableau → List Gate → Option (Tableau × List Gate)
  | 0, T, inv => some (T, inv)
  | c + 1, T, inv =>
    match reduceCost cost n T (c + 1) with
    | some (R, gs) => bmLoop cost n c R (inv ++ gs)
    | none => none

/-- the single-qubit circuits read off the reduced tableau, qubit by qubit. -/
def bmLocalPart (n : Nat) (F : Tableau) : List Gate :=
  (List.range n).flatMap fun q =>
    singleQubitQ q ((getRow F q).x q) ((getRow F q).z q) (getRow F q).r
      ((getRow F (n + q)).x q) ((getRow F (n + q)).z q) (getRow F (n + q)).r

/-- `_decomposition_BM20` with an arbitrary cost function (`none`: an exception is raised). -/
def bm20With (cost : Tableau → Nat) (n : Nat) (T : Tableau) : Option (List Gate) :=
  if n > 3 then none
  else if n = 1 then some (singleQubit T)
  else
    match bmLoop cost n (cost T) T [] with
    | some (F, inv) => some (bmLocalPart n F ++ invertCircuit inv)
    | none => none

/-- `Clifford.to_circuit("BM20")`. -/
def toCircuitBM20 (n : Nat) (T : Tableau) : Option (List Gate) := bm20With (cnotCost n) n T

end QV.Cliff
