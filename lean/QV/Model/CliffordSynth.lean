/-
  QV.Model.CliffordSynth — executable model of qibo's tableau → circuit synthesis
  `Clifford.to_circuit("AG04")` (`quantum_info/_clifford_utils.py`: `_decomposition_AG04`,
  `_set_qubit_x_to_true`, `_set_row_x_to_zero`, `_set_row_z_to_zero`,
  `_single_qubit_clifford_decomposition`, `Circuit.invert`).

  The Python helpers work on a deep copy of the symplectic matrix and on a circuit: every engine
  call `engine.G(symplectic_matrix, …)` is immediately followed by `circuit.add(gates.G(…))`.  The
  model state is the pair (tableau, gates appended so far) and `emit g` does both.  The Python
  names `x`, `z` are numpy VIEWS of one row of the matrix the engine updates in place, so every
  test `x[k]` / `z[k]` / `np.any(z[qubit:])` reads the CURRENT tableau: the model re-reads the row
  from the current state at every test.  `for k in range(a, b)` is `forRange … a (b - a)`, a loop
  that returns at the first hit is `firstIdx`.  Import-free (core Lean + the tableau model).
-/
import QV.Model.Clifford
namespace QV.Cliff

/-- (working tableau, gates appended to `circuit` so far, in order). -/
abbrev Synth := Tableau × List Gate

/-- `engine.G(clifford.symplectic_matrix, …); circuit.add(gates.G(…))`. -/
def emit (g : Gate) (s : Synth) : Synth := (applyGate g s.1, s.2 ++ [g])

/-- `if b: engine.G(…); circuit.add(G)`. -/
def emitIf (b : Bool) (g : Gate) (s : Synth) : Synth := if b then emit g s else s

/-- `for k in range(lo, lo + cnt): s = f(k, s)`. -/
def forRange (f : Nat → Synth → Synth) : Nat → Nat → Synth → Synth
  | _, 0, s => s
  | lo, cnt + 1, s => forRange f (lo + 1) cnt (f lo s)

/-- first `k` in `range(lo, lo + cnt)` with `p k` (a loop that returns at its first hit). -/
def firstIdx (p : Nat → Bool) : Nat → Nat → Option Nat
  | _, 0 => none
  | lo, cnt + 1 => if p lo then some lo else firstIdx p (lo + 1) cnt

/-- `np.any(v[lo : lo + cnt])`. -/
def anyIdx (p : Nat → Bool) (lo cnt : Nat) : Bool := (firstIdx p lo cnt).isSome

/-- `_set_qubit_x_to_true(clifford, circuit, qubit=i)`: row `i` is the destabiliser `i`. -/
def setQubitXToTrue (n i : Nat) (s : Synth) : Synth :=
  let w := getRow s.1 i
  if w.x i then s else
  match firstIdx (fun k => w.x k) (i + 1) (n - (i + 1)) with
  | some k => emit (.SWAP k i) s
  | none =>
    match firstIdx (fun k => w.z k) i (n - i) with
    | some k =>
      let s1 := emit (.H k) s
      if k ≠ i then emit (.SWAP k i) s1 else s1
    | none => s

/-- `_set_row_x_to_zero(clifford, circuit, qubit=i)`. -/
def setRowXToZero (n i : Nat) (s : Synth) : Synth :=
  let s1 := forRange (fun k s => emitIf ((getRow s.1 i).x k) (.CNOT i k) s) (i + 1) (n - (i + 1)) s
  if anyIdx (fun k => (getRow s1.1 i).z k) i (n - i) then
    let s2 := emitIf (!(getRow s1.1 i).z i) (.S i) s1
    let s3 := forRange (fun k s => emitIf ((getRow s.1 i).z k) (.CNOT k i) s) (i + 1) (n - (i + 1)) s2
    emit (.S i) s3
  else s1

/-- `_set_row_z_to_zero(clifford, circuit, qubit=i)`: row `n + i` is the stabiliser `i`. -/
def setRowZToZero (n i : Nat) (s : Synth) : Synth :=
  let s1 :=
    if anyIdx (fun k => (getRow s.1 (n + i)).z k) (i + 1) (n - (i + 1)) then
      forRange (fun k s => emitIf ((getRow s.1 (n + i)).z k) (.CNOT k i) s) (i + 1) (n - (i + 1)) s
    else s
  if anyIdx (fun k => (getRow s1.1 (n + i)).x k) i (n - i) then
    let s2 := emit (.H i) s1
    let s3 := forRange (fun k s => emitIf ((getRow s.1 (n + i)).x k) (.CNOT i k) s) (i + 1) (n - (i + 1)) s2
    let s4 := emitIf ((getRow s3.1 (n + i)).z i) (.S i) s3
    emit (.H i) s4
  else s1

/-- one pass of the main loop of `_decomposition_AG04` for qubit `k`. -/
def ag04Step (n k : Nat) (s : Synth) : Synth :=
  setRowZToZero n k (setRowXToZero n k (setQubitXToTrue n k s))

/-- the first loop of `_decomposition_AG04`. -/
def ag04Eliminate (n : Nat) (s : Synth) : Synth := forRange (ag04Step n) 0 n s

/-- one pass of the second loop (phases) for qubit `k`. -/
def signStep (n k : Nat) (s : Synth) : Synth :=
  let s1 := emitIf (getRow s.1 k).r (.Z k) s
  emitIf (getRow s1.1 (n + k)).r (.X k) s1

/-- the second loop of `_decomposition_AG04`: clear the phases with `Z` / `X`. -/
def fixSigns (n : Nat) (s : Synth) : Synth := forRange (signStep n) 0 n s

/-- both loops, starting from the copy of the tableau and the empty circuit. -/
def ag04Forward (n : Nat) (T : Tableau) : Synth := fixSigns n (ag04Eliminate n (T, []))

/-- `gate.dagger()` for the gates of the Clifford library that have an inverse in the library
(angles are indices: `k·π/2` resp. `k·π`). -/
def Gate.dagger : Gate → Gate
  | .S q => .SDG q | .SDG q => .S q | .SX q => .SXDG q | .SXDG q => .SX q
  | .RX q k => .RX q (-k) | .RY q k => .RY q (-k) | .RZ q k => .RZ q (-k)
  | .CRX c t k => .CRX c t (-k) | .CRY c t k => .CRY c t (-k) | .CRZ c t k => .CRZ c t (-k)
  | g => g

/-- `circuit.invert()`: daggers in reverse order. -/
def invertCircuit (gs : List Gate) : List Gate := gs.reverse.map Gate.dagger

/-- `_single_qubit_clifford_decomposition` on the bits of the 1-qubit tableau
(destabiliser `dx dz dr`, stabiliser `sx sz sr`). -/
def singleQubitB (dx dz dr sx sz sr : Bool) : List Gate :=
  (if dr && !sr then [Gate.Z 0] else if !dr && sr then [Gate.X 0]
    else if dr && sr then [Gate.Y 0] else [])
  ++
  (if sz && !sx then (if dz then [Gate.S 0] else [])
    else if !sz && sx then (if dx then [Gate.SDG 0] else []) ++ [Gate.H 0]
    else (if !dz then [Gate.S 0] else []) ++ [Gate.H 0, Gate.S 0])

def singleQubit (T : Tableau) : List Gate :=
  singleQubitB ((getRow T 0).x 0) ((getRow T 0).z 0) (getRow T 0).r
    ((getRow T 1).x 0) ((getRow T 1).z 0) (getRow T 1).r

/-- `Clifford.to_circuit("AG04")` as a gate list (`nqubits == 1` is decomposed directly and is not
inverted; otherwise the recorded circuit is inverted). -/
def toCircuitAG04 (n : Nat) (T : Tableau) : List Gate :=
  if n = 1 then singleQubit T else invertCircuit (ag04Forward n T).2

end QV.Cliff
