/-
  QV.Model.Networks — executable model of the tensor bookkeeping of
  `qibo/quantum_info/quantum_networks.py` (import-free apart from the C17 index model).

  A network is `(partition, system_input, pure, tensor)`; tensors are functions on multi-indices
  (`List Nat → α`), the scalar type is generic (`GI` in the driver, a commutative semiring with a
  conjugation in the proofs).

  MODELLED (tied by exact correspondence on every run, tools/props/C17_networks.py):
    * `QuantumNetwork.__init__` / `_set_parameters` (reshape of the given array to `partition`
      (pure) or to `[p² for p in partition]`, default `system_input`);
    * `_operator_to_tensor` / `_order_operator_to_tensor` (`T[t₀,…] = O[a₀…,b₀…]`, `t_k = a_k p_k + b_k`)
      and `_order_tensor_to_operator` / `operator()` / `matrix()`;
    * `from_operator` (pure and non-pure), `QuantumComb.from_operator(inverse=True)`
      (partition reversed, tensor transposed), `QuantumChannel.__init__` (one-leg partitions);
    * `full()` (pure ⇒ `tensordot(ψ, conj ψ, axes=0)` pushed through `_operator_to_tensor`);
    * `QuantumChannel.apply` (`einsum("ij,lk,il")` on the stored operator for pure networks,
      `einsum("ijkl,ik")` on `operator()` otherwise);
    * `link_product` (general einsum over the full tensors with the partition / system_input
      bookkeeping loop), `__matmul__` (`"jk,kl->jl"` and `"jklm,kl->jm"` with its checks),
      `IdentityChannel`, `TraceOperation`, `__add__`, `conj`.
-/
import QV.Model.Superop
namespace QV.Networks
open QV.Superop

structure Net (α : Type) where
  part : List Nat
  sysIn : List Bool
  pure : Bool
  ten : List Nat → α

/-! ### multi-index arithmetic -/

def prodL : List Nat → Nat
  | [] => 1
  | p :: ps => p * prodL ps

/-- C-order flat position of a multi-index in an array of the given shape. -/
def flat : List Nat → List Nat → Nat
  | _ :: ps, i :: is => i * prodL ps + flat ps is
  | _, _ => 0

/-- the multi-index at a flat position. -/
def unflat : List Nat → Nat → List Nat
  | [], _ => []
  | _ :: ps, k => (k / prodL ps) :: unflat ps (k % prodL ps)

/-- shape of the stored tensor of a non-pure network. -/
def sq (ps : List Nat) : List Nat := ps.map (fun p => p * p)

/-- `a_k = t_k / p_k`: the "row" (ket) part of the tensor index of every system. -/
def rowIdx : List Nat → List Nat → List Nat
  | p :: ps, t :: ts => t / p :: rowIdx ps ts
  | _, _ => []

/-- `b_k = t_k % p_k`: the "column" (bra) part. -/
def colIdx : List Nat → List Nat → List Nat
  | p :: ps, t :: ts => t % p :: colIdx ps ts
  | _, _ => []

/-- `t_k = a_k p_k + b_k`. -/
def pairIdx : List Nat → List Nat → List Nat → List Nat
  | p :: ps, a :: as, b :: bs => (a * p + b) :: pairIdx ps as bs
  | _, _, _ => []

/-- `_check_system_input(None, partition)`: `True` at `0, 2, …, 2(⌊n/2⌋ − 1)`. -/
def defaultSysIn (n : Nat) : List Bool :=
  (List.range n).map (fun k => k % 2 == 0 && decide (k / 2 < n / 2))

variable {α : Type}

/-! ### constructors -/

/-- `QuantumNetwork(tensor, partition, system_input, pure)`: the given array (any shape of the
right size, here its C-order flattening `v`) is reshaped to `partition` (pure) or to
`[p² for p in partition]`. -/
def mkNet (v : Nat → α) (part : List Nat) (sysIn : Option (List Bool)) (pure : Bool) : Net α :=
  { part := part
    sysIn := sysIn.getD (defaultSysIn part.length)
    pure := pure
    ten := fun t => v (flat (if pure then part else sq part) t) }

/-- `_operator_to_tensor(operator, partition)` for the operator seen as a `dims × dims` matrix. -/
def operatorToTensor (M : Mat α) (part : List Nat) : List Nat → α :=
  fun t => M (flat part (rowIdx part t)) (flat part (colIdx part t))

/-- `QuantumNetwork.from_operator(operator, partition, system_input, pure=False)`. -/
def fromOperator (M : Mat α) (part : List Nat) (sysIn : Option (List Bool)) : Net α :=
  { part := part, sysIn := sysIn.getD (defaultSysIn part.length), pure := false
    ten := operatorToTensor M part }

/-- `QuantumNetwork.from_operator(operator, partition, system_input, pure=True)`:
`operator.reshape(partition)`. -/
def fromOperatorPure (v : Nat → α) (part : List Nat) (sysIn : Option (List Bool)) : Net α :=
  mkNet v part sysIn true

/-- `QuantumComb.from_operator(..., inverse=True)`: partition reversed, tensor transposed
(`.T` reverses all axes); the system_input of a comb is always `[True, False] * n`. -/
def inverseNet (N : Net α) : Net α :=
  { N with part := N.part.reverse, ten := fun t => N.ten t.reverse }

def combSysIn (n : Nat) : List Bool := (List.range n).map (fun k => k % 2 == 0)

def combFromOperator (M : Mat α) (part : List Nat) (inverse : Bool) : Net α :=
  let N := fromOperator M part (some (combSysIn part.length))
  if inverse then inverseNet N else N

def combFromOperatorPure (v : Nat → α) (part : List Nat) (inverse : Bool) : Net α :=
  let N := fromOperatorPure v part (some (combSysIn part.length))
  if inverse then inverseNet N else N

/-- `QuantumChannel.__init__` completes a one-leg partition: a state `(1, d)` unless
`system_input[0]` says it is an input `(d, 1)`. -/
def channelPartition (part : List Nat) (sysIn : Option (List Bool)) : List Nat :=
  match part, sysIn with
  | [d], none => [1, d]
  | [d], some s => if s.getD 0 false then [d, 1] else [1, d]
  | p, _ => p

/-! ### full tensor, operator, matrix -/

section arith
variable [Zero α] [Add α] [Mul α]

/-- `full()`: for a pure network `tensordot(ψ, conj ψ, axes=0)` = `O[a…, b…] = ψ[a] conj ψ[b]`
pushed through `_operator_to_tensor`; the stored tensor otherwise. -/
def fullTen (conj : α → α) (N : Net α) : List Nat → α :=
  if N.pure then fun t => N.ten (rowIdx N.part t) * conj (N.ten (colIdx N.part t)) else N.ten

/-- `full(update=True)`. -/
def fullNet (conj : α → α) (N : Net α) : Net α :=
  { N with pure := false, ten := fullTen conj N }

/-- `operator(full=True)` as a function of the `2n` indices `(a₀…a_{n−1}, b₀…b_{n−1})`. -/
def operatorFull (conj : α → α) (N : Net α) : List Nat → α :=
  fun ab => fullTen conj N
    (pairIdx N.part (ab.take N.part.length) (ab.drop N.part.length))

/-- `matrix()`: `operator(full=True).reshape(dims, dims)`. -/
def matrix (conj : α → α) (N : Net α) : Mat α :=
  fun r c => fullTen conj N (pairIdx N.part (unflat N.part r) (unflat N.part c))

/-! ### `QuantumChannel.apply` -/

/-- `apply(state)`: pure ⇒ `einsum("ij,lk,il", ψ, conj ψ, ρ)` (output `jk`) with the stored
`ψ[in, out]`; otherwise `einsum("ijkl,ik", operator(), ρ)` (output `jl`) with
`operator()[i,j,k,l] = T[i p₀ + k, j p₁ + l]`. -/
def chanApply (conj : α → α) (N : Net α) (ρ : Mat α) : Mat α :=
  let din := N.part.getD 0 1
  if N.pure then
    fun j k => sumRange din (fun i => sumRange din (fun l =>
      N.ten [i, j] * conj (N.ten [l, k]) * ρ i l))
  else
    fun j l => sumRange din (fun i => sumRange din (fun k =>
      N.ten (pairIdx N.part [i, j] [k, l]) * ρ i k))

/-! ### link product -/

/-- nested sum over the values of the contracted labels. -/
def sumLabels (dim : Nat → Nat) : List Nat → (Nat → Nat) → ((Nat → Nat) → α) → α
  | [], env, f => f env
  | l :: ls, env, f =>
    sumRange (dim l) (fun v => sumLabels dim ls (fun x => if x = l then v else env x) f)

/-- the assignment of output labels to the entries of the output index. -/
def bindEnv : List Nat → List Nat → (Nat → Nat) → Nat → Nat
  | l :: ls, v :: vs, env => bindEnv ls vs (fun x => if x = l then v else env x)
  | _, _, env => env

def mulAll [One α] : List α → α
  | [] => 1
  | [a] => a
  | a :: as => a * mulAll as

def dedup : List Nat → List Nat
  | [] => []
  | x :: xs => x :: (dedup xs).filter (· ≠ x)

/-- labels that are summed: those of the inputs that are not in the output. -/
def summedLabels (inputs : List (List Nat)) (out : List Nat) : List Nat :=
  (dedup inputs.flatten).filter (fun l => !out.contains l)

/-- extent of a label: the extent of the axis where it first occurs. -/
def labelDim : List (List Nat × List Nat) → Nat → Nat
  | [], _ => 0
  | (labels, shape) :: rest, l =>
    if labels.contains l then shape.getD (labels.idxOf l) 0 else labelDim rest l

/-- `np.einsum(subscripts, *tensors)` with explicit output labels. -/
def einsum [One α] (ops : List (List Nat × List Nat × (List Nat → α))) (out : List Nat) :
    List Nat → α :=
  let dim := labelDim (ops.map (fun o => (o.1, o.2.1)))
  let summed := summedLabels (ops.map (·.1)) out
  fun t => sumLabels dim summed (bindEnv out t (fun _ => 0))
    (fun env => mulAll (ops.map (fun o => o.2.2 (o.1.map env))))

/-- the bookkeeping loop of `link_product`: for every output label, for every input script that
contains it (numpy lists the scripts in REVERSED operand order), append the partition entry /
system_input flag of that operand's axis. -/
def linkMeta {β : Type} (ops : List (List Nat × List β)) (out : List Nat) (dflt : β) : List β :=
  out.flatMap (fun l => ops.reverse.filterMap (fun o =>
    if o.1.contains l then some (o.2.getD (o.1.idxOf l) dflt) else none))

/-- `link_product(subscripts, *operands)`: einsum of the FULL tensors; the result is non-pure. -/
def linkProduct [One α] (conj : α → α) (ops : List (List Nat × Net α)) (out : List Nat) : Net α :=
  { part := linkMeta (ops.map (fun o => (o.1, o.2.part))) out 0
    sysIn := linkMeta (ops.map (fun o => (o.1, o.2.sysIn))) out false
    pure := false
    ten := einsum (ops.map (fun o => (o.1, sq o.2.part, fullTen conj o.2))) out }

/-- the link product behind `A @ B` for two channels: `"jk,kl -> jl"`. -/
def matmulCh [One α] (conj : α → α) (A B : Net α) : Net α :=
  linkProduct conj [([0, 1], A), ([1, 2], B)] [0, 2]

/-- the link product behind `S @ B` for a super-channel `S`: `"jklm,kl -> jm"`. -/
def matmulSuper [One α] (conj : α → α) (S B : Net α) : Net α :=
  linkProduct conj [([0, 1, 2, 3], S), ([1, 2], B)] [0, 3]

/-- the tensor product of two channels as a super-channel (comb with an open slot):
`link_product("jk,lm->jklm", P, Q)`. -/
def tensorCh [One α] (conj : α → α) (P Q : Net α) : Net α :=
  linkProduct conj [([0, 1], P), ([2, 3], Q)] [0, 1, 2, 3]

/-- `__matmul__` with its checks (`none` = the method raises).  As in the code, the super-channel
branch compares only the first inner leg (`partition[1]` with `second.partition[0]`); for the
second inner leg — and for every contracted index of a general `link_product` — the real code
relies on `einsum`, which refuses differing extents EXCEPT when one of them is 1 (broadcast).
The model (and every theorem about composition) is for well-typed compositions only: matching
dimensions are a hypothesis. -/
def matmul [One α] (conj : α → α) (A B : Net α) : Option (Net α) :=
  if A.part.length = 2 then
    if B.part.length ≠ 2 then none
    else if A.part.getD 1 0 ≠ B.part.getD 0 0 then none
    else some (matmulCh conj A B)
  else if A.part.length = 4 then
    if B.part.length ≠ 2 then none
    else if A.part.getD 1 0 ≠ B.part.getD 0 0 then none
    else some (matmulSuper conj A B)
  else none

/-- `IdentityChannel(dim)`: the pure network storing `eye(dim)` with partition `[dim, dim]`. -/
def identityChannel [One α] (d : Nat) : Net α :=
  { part := [d, d], sysIn := [true, false], pure := true
    ten := fun t => if t.getD 0 0 = t.getD 1 0 then 1 else 0 }

/-- `TraceOperation(dim)`: the non-pure one-leg network storing `eye(dim)`. -/
def traceOperation [One α] (d : Nat) : Net α :=
  { part := [d], sysIn := [true], pure := false
    ten := fun t => if (t.getD 0 0) / d = (t.getD 0 0) % d then 1 else 0 }

/-- `__add__`: sum of the full tensors, non-pure. -/
def addNet (conj : α → α) (A B : Net α) : Net α :=
  { part := A.part, sysIn := A.sysIn, pure := false
    ten := fun t => fullTen conj A t + fullTen conj B t }

/-- `conj()`. -/
def conjNet (conj : α → α) (N : Net α) : Net α := { N with ten := fun t => conj (N.ten t) }

/-- `QuantumChannel.from_operator(ρ)` for a `d × d` operator: the one-leg partition `(d,)` is
completed to `(1, d)` (a state: trivial input), the tensor is `ρ` flattened in C order. -/
def stateNet (ρ : Mat α) (d : Nat) : Net α :=
  { part := [1, d], sysIn := [true, false], pure := false
    ten := fun t => ρ (t.getD 1 0 / d) (t.getD 1 0 % d) }

/-! ### `is_hermitian`, `is_causal`, `is_unital` (exact versions of the norm tests) -/

/-- `TraceOperation(d).full()`: `eye(d)` flattened. -/
def eyeVec [One α] (d : Nat) (t : Nat) : α := if t / d = t % d then 1 else 0

/-- all multi-indices of a shape, C order. -/
def allIdx : List Nat → List (List Nat)
  | [] => [[]]
  | p :: ps => (List.range p).flatMap (fun i => (allIdx ps).map (fun is => i :: is))

/-- `tensordot(T, TraceOperation(d).full(), axes=(-1, 0))`: contract the last leg with the
flattened identity (partial trace over that system). -/
def traceLast [One α] (d : Nat) (T : List Nat → α) : List Nat → α :=
  fun idx => sumRange (d * d) (fun t => T (idx ++ [t]) * eyeVec d t)

/-- `tensordot(T, TraceOperation(d).full(), axes=(0, 0))`: contract the first leg. -/
def traceFirst [One α] (d : Nat) (T : List Nat → α) : List Nat → α :=
  fun idx => sumRange (d * d) (fun t => T (t :: idx) * eyeVec d t)

/-- scalar multiple `n · x` by repeated addition (no `Nat` cast needed). -/
def nsmulN : Nat → α → α
  | 0, _ => 0
  | n + 1, x => nsmulN n x + x

/-- one step of `QuantumComb.is_causal`: with `reduced = Tr_out T` and `sub = Tr_in reduced` the
test `‖reduced − sub ⊗ 1_in / d_in‖ ≤ tol`, exactly: `d_in · reduced = sub ⊗ 1_in`. -/
def causalStep [One α] [DecidableEq α] (part : List Nat) (T : List Nat → α) : Bool :=
  let n := part.length
  let dout := part.getD (n - 1) 1
  let din := part.getD (n - 2) 1
  let reduced := traceLast dout T
  let sub := traceLast din reduced
  (allIdx (sq (part.take (n - 2)))).all (fun idx =>
    (List.range (din * din)).all (fun t =>
      nsmulN din (reduced (idx ++ [t])) == sub idx * eyeVec din t))

/-- `QuantumComb.is_causal`: the step, then recursively the comb without its last two legs. -/
def isCausal [One α] [DecidableEq α] (conj : α → α) (N : Net α) : Bool :=
  let rec go : Nat → List Nat → (List Nat → α) → Bool
    | 0, _, _ => true
    | fuel + 1, part, T =>
      causalStep part T &&
        (if part.length ≤ 2 then true
         else go fuel (part.take (part.length - 2))
           (traceLast (part.getD (part.length - 2) 1) (traceLast (part.getD (part.length - 1) 1) T)))
  go N.part.length N.part (fullTen conj N)

/-- `QuantumChannel.is_unital` for a channel object: with `reduced = Tr_in T`,
`d_out · reduced = (Tr reduced) · 1_out`. -/
def isUnital [One α] [DecidableEq α] (conj : α → α) (N : Net α) : Bool :=
  let din := N.part.getD 0 1
  let dout := N.part.getD 1 1
  let reduced := traceFirst din (fullTen conj N)
  let sub := traceFirst dout reduced []
  (List.range (dout * dout)).all (fun t => nsmulN dout (reduced [t]) == eyeVec dout t * sub)

/-- `is_hermitian`: pure networks always; otherwise `matrix() = matrix()†`. -/
def isHermitian [DecidableEq α] (conj : α → α) (N : Net α) : Bool :=
  N.pure || (List.range (prodL N.part)).all (fun r => (List.range (prodL N.part)).all (fun c =>
    conj (matrix conj N c r) == matrix conj N r c))

/-! ### reference objects used in the theorems -/

/-- the tensor of the channel with Kraus operators `Ks` (each `d_out × d_in`), partition
`[d_in, d_out]`: `T[t₀, t₁] = Σ_K K[t₁ / d_out, t₀ / d_in] · conj K[t₁ % d_out, t₀ % d_in]`. -/
def krausTen (conj : α → α) (din dout : Nat) (Ks : List (Mat α)) : List Nat → α :=
  fun t => sumList Ks (fun K =>
    K (t.getD 1 0 / dout) (t.getD 0 0 / din) * conj (K (t.getD 1 0 % dout) (t.getD 0 0 % din)))

def krausNet (conj : α → α) (din dout : Nat) (Ks : List (Mat α)) : Net α :=
  { part := [din, dout], sysIn := [true, false], pure := false, ten := krausTen conj din dout Ks }

/-- leading dimension of the vectorisation of a `d_out × d_in` operator: the number of columns
for `row`, the number of rows for `column`. -/
def dimOf (o : Order) (din dout : Nat) : Nat :=
  match o with
  | .row => din
  | _ => dout

/-- SPEC: the action encoded by a Choi matrix of a map from dimension `d_in` to `d_out` built with
the vectorisation `o`: `out[j,l] = Σ_{i,k<d_in} C[v j i, v l k] ρ[i,k]` (for `d_in = d_out` this is
`Superop.applyChoi`). -/
def applyChoiRect (o : Order) (din dout n : Nat) (C ρ : Mat α) : Mat α :=
  fun j l => sumRange din (fun i => sumRange din (fun k =>
    C (vecIdx o (dimOf o din dout) n j i) (vecIdx o (dimOf o din dout) n l k) * ρ i k))

/-- all products `L · K` (`K` first), the Kraus family of the composed map. -/
def composeKraus (d : Nat) (Ks Ls : List (Mat α)) : List (Mat α) :=
  Ks.flatMap (fun K => Ls.map (fun L => matMul d L K))

end arith

end QV.Networks
