/-
  QV.Model.DecomposeDispatch — executable model of the GLUE of qibo's gate decomposition:
  `Gate.decompose` (gates/abstract.py), the overrides in gates/gates.py (`X`, `CNOT`, `TOFFOLI`,
  the classes that call `standard_decompositions(self)`), `GateDecompositions.__call__`
  (transpiler/decompositions.py: `controlled_by` gates are returned unchanged, templates are
  instantiated with `on_qubits`), `Gate.on_qubits`, `Gate.controlled_by` with the X → CNOT /
  TOFFOLI fall-backs.  Import-free of Mathlib.

  A gate object is modelled by what the decomposition code reads and what a user can observe:
  class, parameter payload (`init_kwargs`, a tag here), the qubits in `init_args` (what a rebuild
  of the gate from its constructor arguments uses), `control_qubits` (as the property reports
  them: sorted), `target_qubits`, `is_controlled_by`.

  MODELLED (hand model, tied by correspondence on every run — tools/props/C08.py
  `dispatch_suite`: for every generic gate class × 0..3 `controlled_by` controls × shuffled
  placements the real `gate.decompose(*free)` / `standard_decompositions(gate)` is compared,
  gate by gate, with `decompose` below on class, init_args qubits, control_qubits,
  target_qubits and is_controlled_by; the templates are read from the real table).
-/
import QV.Model.XDecompose
namespace QV.Dec

/-- how a class answers `decompose`. -/
inductive Family where
  | plain      -- no override: `Gate.decompose` (a rebuilt copy of the gate)
  | xgate      -- `X.decompose`: multi-controlled X recursion
  | selfret    -- `CNOT`, `TOFFOLI`: the gate itself, rebuilt from its control / target qubits
  | table      -- `standard_decompositions(self)`
  deriving Repr, DecidableEq, Inhabited

/-- class ids the glue itself refers to. -/
def clsX : Nat := 0
def clsCNOT : Nat := 1
def clsTOFFOLI : Nat := 2
def clsRY : Nat := 3

/-- what the code knows of a class: its family and how many of the leading `init_args` qubits
    are built-in controls (CNOT 1, TOFFOLI 2, CRY 1, …). -/
structure ClassInfo where
  fam : Family
  nctl : Nat
  fb1 : Option Nat := none     -- class that `controlled_by` with ONE control falls back to (X → CNOT, RY → CRY, …)
  fb2 : Option Nat := none     -- … with TWO controls (X → TOFFOLI)
  deriving Repr, Inhabited

abbrev Classes := Nat → ClassInfo

/-- a gate object. -/
structure GObj where
  cls : Nat
  par : Int              -- stands for init_kwargs / parameters
  init : List Nat        -- qubit ids in init_args (constructor order)
  ctl : List Nat         -- `gate.control_qubits` (sorted)
  tgt : List Nat         -- `gate.target_qubits`
  cb : Bool              -- `gate.is_controlled_by`
  deriving Repr, DecidableEq, Inhabited

/-- `gate.qubits`. -/
def GObj.qubits (o : GObj) : List Nat := o.ctl ++ o.tgt

/-- `cls(*qs, **kwargs)`. -/
def construct (K : Classes) (cls : Nat) (par : Int) (qs : List Nat) : GObj :=
  { cls := cls, par := par, init := qs, ctl := srt (qs.take (K cls).nctl),
    tgt := qs.drop (K cls).nctl, cb := false }

/-- the class a `controlled_by` with `n` controls falls back to, if any. -/
def fallback (K : Classes) (cls n : Nat) : Option Nat :=
  if n = 1 then (K cls).fb1 else if n = 2 then (K cls).fb2 else none

/-- `g.controlled_by(*cs)` for a gate without controls (X falls back to CNOT / TOFFOLI, Y, Z, RX,
    RY, RZ, U1, U2, U3 with one control to CY, …, CU3: `cls'(*cs, target, **init_kwargs)`). -/
def controlledBy (K : Classes) (cs : List Nat) (g : GObj) : GObj :=
  if cs.isEmpty then g
  else
    match fallback K g.cls cs.length with
    | some c' => construct K c' g.par (cs ++ g.tgt)
    | none => { g with ctl := srt cs, cb := true }

/-- the gate the constructor arguments describe: `cls(*init_args, **init_kwargs)` with the
    `controlled_by` controls put back — this is `Gate.decompose` (and what `dagger`, deep copies,
    `raw`/`from_dict` rebuild from). -/
def rebuild (K : Classes) (o : GObj) : GObj :=
  let g := construct K o.cls o.par o.init
  if o.cb then controlledBy K o.ctl g else g

/-- `gate.on_qubits(m)`: reads the qubits the gate ACTS on. -/
def onQubits (K : Classes) (m : Nat → Nat) (o : GObj) : GObj :=
  if o.cb then controlledBy K (o.ctl.map m) (construct K o.cls o.par (o.tgt.map m))
  else construct K o.cls o.par (o.qubits.map m)

/-- the template table: class, parameters ↦ gate objects on the template qubits 0, 1, …. -/
abbrev Templates := Nat → Int → List GObj

/-- `GateDecompositions.__call__`. -/
def tableCall (K : Classes) (T : Templates) (o : GObj) : List GObj :=
  if o.cb then [rebuild K o]
  else (T o.cls o.par).map (onQubits K (fun i => o.qubits.getD i 0))

/-- VARIANT (seeded change C08-8, NOT the real code): the template gates are relabelled in place
    (`_set_targets_and_controls`), their constructor arguments keep the template qubits. -/
def tableCallInPlace (K : Classes) (T : Templates) (o : GObj) : List GObj :=
  if o.cb then [rebuild K o]
  else (T o.cls o.par).map fun g =>
    { g with tgt := g.tgt.map (fun i => o.qubits.getD i 0),
             ctl := srt (g.ctl.map (fun i => o.qubits.getD i 0)) }

/-- VARIANT (seeded change C08-9, NOT the real code): decompose the bare gate through the table
    and attach the `controlled_by` controls to every returned gate. -/
def tableCallAttach (K : Classes) (T : Templates) (o : GObj) : List GObj :=
  (tableCall K T (construct K o.cls o.par o.init)).map (controlledBy K o.ctl)

/-- the gates of the MCX recursion as gate objects (`RY` parameters in units of π/4). -/
def ofCGate (K : Classes) : CGate → List GObj
  | .x t => [construct K clsX 0 [t]]
  | .cnot c t => [construct K clsCNOT 0 [c, t]]
  | .toffoli c0 c1 t => [construct K clsTOFFOLI 0 [c0, c1, t]]
  | .rtof c0 c1 t =>
    [construct K clsRY (-1) [t], construct K clsCNOT 0 [c1, t], construct K clsRY (-1) [t],
     construct K clsCNOT 0 [c0, t], construct K clsRY 1 [t], construct K clsCNOT 0 [c1, t],
     construct K clsRY 1 [t]]

inductive Res where
  | ok (gs : List GObj)
  | valueError
  | notImplemented
  | outOfFuel
  deriving Repr, DecidableEq, Inhabited

/-- which route a call takes (observable from the shape of the result). -/
inductive Route where
  | unchanged | table | mcx | self
  deriving Repr, DecidableEq, Inhabited

def route (K : Classes) (o : GObj) : Route :=
  match (K o.cls).fam with
  | .plain => .unchanged
  | .selfret => .self
  | .xgate => .mcx
  | .table => if o.cb then .unchanged else .table

/-- **`gate.decompose(*free, use_toffolis=ut)`**. -/
def decompose (K : Classes) (T : Templates) (ut : Bool) (free : List Nat) (o : GObj) : Res :=
  match (K o.cls).fam with
  | .plain => .ok [rebuild K o]
  | .selfret => .ok [construct K o.cls o.par o.qubits]
  | .table => .ok (tableCall K T o)
  | .xgate =>
    let t := o.tgt.getD 0 0
    if free.any (fun q => q == t || o.ctl.contains q) then .valueError
    else if o.ctl.length < 3 then .ok [controlledBy K o.ctl (construct K clsX 0 [t])]
    else
      match xDecompose ut (o.ctl.length + 1) o.ctl t free with
      | .ok gs => .ok (gs.flatMap (ofCGate K))
      | .valueError => .valueError
      | .notImplemented => .notImplemented
      | .outOfFuel => .outOfFuel

/-- a second decomposition level over a list (an exception aborts). -/
def decomposeAll (K : Classes) (T : Templates) (ut : Bool) (free : List Nat) : List GObj → Res
  | [] => .ok []
  | o :: os =>
    match decompose K T ut free o, decomposeAll K T ut free os with
    | .ok a, .ok b => .ok (a ++ b)
    | .ok _, e => e
    | e, _ => e

/-- the constructor arguments describe the gate: targets / built-in controls are the ones in
    `init_args`. -/
def GObj.fresh (K : Classes) (o : GObj) : Bool :=
  if o.cb then o.tgt == o.init
  else o.ctl == srt (o.init.take (K o.cls).nctl) && o.tgt == o.init.drop (K o.cls).nctl

end QV.Dec
