/-
  QV.Model.NoiseIBMQ — executable model of `qibo.noise.IBMQNoiseModel.from_dict`
  (noise.py): how the parameters dictionary becomes the rule list of the `NoiseModel`, and
  the simple SPEC of what the documentation promises ("a DepolarizingChannel followed by a
  ThermalRelaxationChannel after each one- or two-qubit gate, single-qubit ReadoutErrorChannels
  before every measurement").  Import-free apart from the noise-attachment model.

  Transliterated (`fromDict`), in the order of the Python:
    * `depolarizing_one_qubit`: number → one rule (key `None`, no qubit filter, condition
      `len(gate.qubits) == 1`); dict → one rule per item, in insertion order, filter `(int(key),)`;
    * `depolarizing_two_qubit`: number → one rule, condition `len(gate.qubits) == 2`; dict → per
      item `"a-b"`: filter `(a, b)`, conditions `[len == 2, gate.qubits == (a, b)]`;
    * `t1` / `t2`: both numbers → two rules (single-qubit gates with `gate_times[0]`, two-qubit
      gates with `gate_times[1]`); both dicts → for every key of `t1`, in order, the same two rules
      with filter `(int(key),)` and the values `t1[key]`, `t2[key]` (a key missing in `t2` raises
      `KeyError` = `none`); any other combination of types → no rule;
    * `readout_one_qubit`: number `r` → one rule keyed by `gates.M`, matrix `P2(r, r)`; dict →
      per item a rule keyed by `gates.M` with filter `(int(key),)`; the value may be a number
      (`p → (p, p)`), a sequence of length 1 (`[p] → (p, p)`) or longer (`probs[0], probs[1]`; the
      empty sequence raises `IndexError` = `none`);
    * a value that is neither a number nor a dict creates no rule (the `isinstance` chains have
      no `else`).
  The numbers themselves are opaque (`V`): they are passed through to the channels unchanged.
-/
import QV.Model.Noise
namespace QV.Noise

/-- a value of the parameters dictionary: a number, a dict (items in insertion order) or
anything else. -/
inductive PVal (K V : Type)
  | num (v : V)
  | dict (items : List (K × V))
  | other

/-- a value of the `readout_one_qubit` dict: a number or a tuple / list. -/
inductive ROVal (V : Type)
  | num (p : V)
  | seq (l : List V)

/-- the value of `readout_one_qubit`. -/
inductive ROParam (V : Type)
  | num (r : V)
  | dict (items : List (Nat × ROVal V))
  | other

/-- the parameters dictionary. Keys of the per-qubit dicts after `int(key)`; keys of the
two-qubit dict after `tuple(map(int, key.replace(" ", "").split("-")))`. -/
structure IBMQParams (V : Type) where
  dep1 : PVal Nat V
  dep2 : PVal (List Nat) V
  t1 : PVal Nat V
  t2 : PVal Nat V
  gt1 : V
  gt2 : V
  ep : V
  ro : ROParam V

/-- what the error object of a rule was built from. -/
inductive IParam (V : Type)
  | depol (lam : V)
  | thermal (t1 t2 time ep : V)
  | readout (p01 p10 : V)
deriving DecidableEq, Repr

/-- `_Conditions().condition_gate_single`. -/
def condSingle : NGate → Bool := fun g => g.qubits.length == 1
/-- `_Conditions().condition_gate_two`. -/
def condTwo : NGate → Bool := fun g => g.qubits.length == 2
/-- `_Conditions(qubits).condition_qubits`. -/
def condQubits (qs : List Nat) : NGate → Bool := fun g => g.qubits == qs

/-- a rule together with the parameters of its error object. -/
abbrev PRule (V : Type) := Rule × IParam V

variable {V : Type}

/-- `dict[key]` (first item with that key; `none` = `KeyError`). -/
def dictGet (l : List (Nat × V)) (k : Nat) : Option V :=
  (l.find? fun e => e.1 == k).map (·.2)

def dep1Rules : PVal Nat V → List (PRule V)
  | .num v => [(⟨none, .depol, none, [condSingle]⟩, .depol v)]
  | .dict l => l.map fun e => (⟨none, .depol, some [e.1], [condSingle]⟩, .depol e.2)
  | .other => []

def dep2Rules : PVal (List Nat) V → List (PRule V)
  | .num v => [(⟨none, .depol, none, [condTwo]⟩, .depol v)]
  | .dict l => l.map fun e => (⟨none, .depol, some e.1, [condTwo, condQubits e.1]⟩, .depol e.2)
  | .other => []

/-- the two thermal rules of one qubit (`filt = none`: all qubits). -/
def thermalPair (filt : Option (List Nat)) (a b g1 g2 ep : V) : List (PRule V) :=
  [(⟨none, .thermal, filt, [condSingle]⟩, .thermal a b g1 ep),
   (⟨none, .thermal, filt, [condTwo]⟩, .thermal a b g2 ep)]

/-- the loop `for qubit_key in t_1.keys()`. -/
def thermalDict (l2 : List (Nat × V)) (g1 g2 ep : V) : List (Nat × V) → Option (List (PRule V))
  | [] => some []
  | e :: rest =>
    match dictGet l2 e.1 with
    | none => none
    | some b =>
      match thermalDict l2 g1 g2 ep rest with
      | none => none
      | some r => some (thermalPair (some [e.1]) e.2 b g1 g2 ep ++ r)

def thermalRules (t1 t2 : PVal Nat V) (g1 g2 ep : V) : Option (List (PRule V)) :=
  match t1, t2 with
  | .num a, .num b => some (thermalPair none a b g1 g2 ep)
  | .dict l1, .dict l2 => thermalDict l2 g1 g2 ep l1
  | _, _ => some []

/-- `(probs[0], probs[1])` after the normalisation of the value. -/
def roProbs : ROVal V → Option (V × V)
  | .num p => some (p, p)
  | .seq [p] => some (p, p)
  | .seq (a :: b :: _) => some (a, b)
  | .seq [] => none

/-- the loop `for qubit, probs in readout_one_qubit.items()`. -/
def readoutDict (mCls : Nat) : List (Nat × ROVal V) → Option (List (PRule V))
  | [] => some []
  | e :: rest =>
    match roProbs e.2 with
    | none => none
    | some p =>
      match readoutDict mCls rest with
      | none => none
      | some r => some ((⟨some mCls, .readout, some [e.1], []⟩, .readout p.1 p.2) :: r)

def readoutRules (mCls : Nat) : ROParam V → Option (List (PRule V))
  | .num r => some [(⟨some mCls, .readout, none, []⟩, .readout r r)]
  | .dict l => readoutDict mCls l
  | .other => some []

/-- **`IBMQNoiseModel.from_dict(parameters)`**: the rules appended to the model, in order, each
with the parameters of its error; `none` if the Python raises.  `mCls` is the class `gates.M`. -/
def fromDict (mCls : Nat) (P : IBMQParams V) : Option (List (PRule V)) :=
  match thermalRules P.t1 P.t2 P.gt1 P.gt2 P.ep with
  | none => none
  | some th =>
    match readoutRules mCls P.ro with
    | none => none
    | some ro => some (dep1Rules P.dep1 ++ dep2Rules P.dep2 ++ th ++ ro)

/-! ## the noisy queue with the parameters written out -/

/-- an element of the noisy queue, the channel carrying the parameters of its error. -/
inductive SItem (V : Type)
  | gate (g : NGate)
  | chan (kind : ErrKind) (par : IParam V) (qs : List Nat)
  | bad
deriving DecidableEq, Repr

/-- replace the rule number of a channel by the parameters of that rule. -/
def decodeItem (R : List (PRule V)) : Item → SItem V
  | .gate g => .gate g
  | .chan i kind qs =>
    match R[i]? with
    | some rp => .chan kind rp.2 qs
    | none => .bad

/-- `IBMQNoiseModel.from_dict(P)` followed by `.apply(circuit)`, channels labelled by their
parameters (`none`: `from_dict` raises). -/
def ibmqApply (mCls : Nat) (P : IBMQParams V) (queue : List NGate) : Option (List (SItem V)) :=
  (fromDict mCls P).map fun R => (attachNoise (R.map (·.1)) queue).map (decodeItem R)

/-! ## the SPEC: what the documentation prescribes, gate by gate -/

/-- every key of the dict `t1` is present in the dict `t2` (other type combinations are accepted). -/
def thermalOk : PVal Nat V → PVal Nat V → Bool
  | .dict l1, .dict l2 => l1.all fun e => (dictGet l2 e.1).isSome
  | _, _ => true

/-- no empty readout tuple. -/
def readoutOk : ROParam V → Bool
  | .dict l => l.all fun e => (roProbs e.2).isSome
  | _ => true

/-- does `from_dict` succeed? -/
def paramsOk (P : IBMQParams V) : Bool := thermalOk P.t1 P.t2 && readoutOk P.ro

/-- the depolarizing channels after a gate. -/
def specDepol (P : IBMQParams V) (g : NGate) : List (SItem V) :=
  (if g.qubits.length == 1 then
    match P.dep1 with
    | .num v => [.chan .depol (.depol v) g.qubits]
    | .dict l => (l.filter fun e => g.qubits.contains e.1).map fun e => .chan .depol (.depol e.2) [e.1]
    | .other => []
   else []) ++
  (if g.qubits.length == 2 then
    match P.dep2 with
    | .num v => [.chan .depol (.depol v) g.qubits]
    | .dict l => (l.filter fun e => g.qubits == e.1).map fun e =>
        .chan .depol (.depol e.2) (setInter g.qubits g.qubits)
    | .other => []
   else [])

/-- the thermal-relaxation channels after a gate: one per qubit, with the gate time of the
gate's arity. -/
def specThermal (P : IBMQParams V) (g : NGate) : List (SItem V) :=
  if g.qubits.length == 1 || g.qubits.length == 2 then
    let time := if g.qubits.length == 1 then P.gt1 else P.gt2
    match P.t1, P.t2 with
    | .num a, .num b => g.qubits.map fun q => .chan .thermal (.thermal a b time P.ep) [q]
    | .dict l1, .dict l2 => (l1.filter fun e => g.qubits.contains e.1).filterMap fun e =>
        (dictGet l2 e.1).map fun b => .chan .thermal (.thermal e.2 b time P.ep) [e.1]
    | _, _ => []
  else []

/-- the readout channels before a measurement. -/
def specReadout (P : IBMQParams V) (g : NGate) : List (SItem V) :=
  match P.ro with
  | .num r => [.chan .readout (.readout r r) g.qubits]
  | .dict l => (l.filter fun e => g.qubits.contains e.1).filterMap fun e =>
      (roProbs e.2).map fun p => .chan .readout (.readout p.1 p.2) [e.1]
  | .other => []

/-- what one gate contributes: measurements get their readout channels in front, channels
already in the circuit get nothing, every other gate is followed by its depolarizing channels
and then its thermal-relaxation channels. -/
def specBlock (P : IBMQParams V) (g : NGate) : List (SItem V) :=
  if g.isM then specReadout P g ++ [.gate g]
  else if g.isChan then [.gate g]
  else .gate g :: (specDepol P g ++ specThermal P g)

/-- the documented noisy queue. -/
def ibmqSpec (P : IBMQParams V) (queue : List NGate) : Option (List (SItem V)) :=
  if paramsOk P then some (queue.flatMap (specBlock P)) else none

/-! ## the keys of the dictionaries are strings

`int(qubit_key)` for the per-qubit dictionaries, and
`tuple(map(int, key.replace(" ", "").split("-")))` for the keys of `depolarizing_two_qubit`.
Strings are lists of characters; `none` = `ValueError`.  Modelled: decimal digits (any number of
them — qubit indices above 9 are ordinary), spaces, the separator `-`.  Not modelled: the other
spellings Python's `int` accepts (sign, underscores, non-ASCII digits). -/

/-- value of a decimal digit. -/
def digitVal (c : Char) : Option Nat :=
  if '0' ≤ c ∧ c ≤ '9' then some (c.toNat - 48) else none

/-- one step of the left-to-right evaluation of a decimal numeral. -/
def digitStep (acc : Option Nat) (c : Char) : Option Nat :=
  match acc, digitVal c with
  | some a, some d => some (10 * a + d)
  | _, _ => none

/-- `int(s)` for a string of decimal digits (`none`: empty, or a character that is not a digit). -/
def parseNat (cs : List Char) : Option Nat :=
  if cs.isEmpty then none else cs.foldl digitStep (some 0)

/-- `s.split("-")`. -/
def splitDash : List Char → List (List Char)
  | [] => [[]]
  | c :: cs =>
    if c = '-' then [] :: splitDash cs
    else
      match splitDash cs with
      | [] => [[c]]
      | h :: t => (c :: h) :: t

/-- `mapM` for `Option` (written out to stay import-free and easy to reason about). -/
def allSome {β : Type} : List (Option β) → Option (List β)
  | [] => some []
  | none :: _ => none
  | some x :: r => (allSome r).map (x :: ·)

/-- `tuple(map(int, key.replace(" ", "").split("-")))`. -/
def parsePairKey (key : List Char) : Option (List Nat) :=
  allSome ((splitDash (key.filter (· ≠ ' '))).map parseNat)

/-- `s.strip()` restricted to spaces. -/
def stripSpaces (cs : List Char) : List Char :=
  ((cs.dropWhile (· = ' ')).reverse.dropWhile (· = ' ')).reverse

/-- `int(qubit_key)` (`int` ignores surrounding blanks). -/
def parseQubitKey (key : List Char) : Option Nat := parseNat (stripSpaces key)

/-- the value of `readout_one_qubit` with string keys. -/
inductive ROParamS (V : Type)
  | num (r : V)
  | dict (items : List (List Char × ROVal V))
  | other

/-- the parameters dictionary as the user writes it: string keys. -/
structure IBMQParamsS (V : Type) where
  dep1 : PVal (List Char) V
  dep2 : PVal (List Char) V
  t1 : PVal (List Char) V
  t2 : PVal (List Char) V
  gt1 : V
  gt2 : V
  ep : V
  ro : ROParamS V

/-- convert the keys of a dict with `f`; `none` if one of them is rejected. -/
def parseKeys {K W : Type} (f : List Char → Option K) (l : List (List Char × W)) : Option (List (K × W)) :=
  allSome (l.map fun e => (f e.1).map fun k => (k, e.2))

def parsePVal {K W : Type} (f : List Char → Option K) : PVal (List Char) W → Option (PVal K W)
  | .num v => some (.num v)
  | .dict l => (parseKeys f l).map .dict
  | .other => some .other

def parseRO : ROParamS V → Option (ROParam V)
  | .num r => some (.num r)
  | .dict l => (parseKeys parseQubitKey l).map .dict
  | .other => some .other

/-- all keys converted (`t2` is looked up by the converted key: the same as the Python's lookup by
string as long as different key strings of `t1`/`t2` denote different qubits). -/
def parseParams (P : IBMQParamsS V) : Option (IBMQParams V) :=
  match parsePVal parseQubitKey P.dep1, parsePVal parsePairKey P.dep2, parsePVal parseQubitKey P.t1,
      parsePVal parseQubitKey P.t2, parseRO P.ro with
  | some d1, some d2, some t1, some t2, some ro =>
    some { dep1 := d1, dep2 := d2, t1 := t1, t2 := t2, gt1 := P.gt1, gt2 := P.gt2, ep := P.ep, ro := ro }
  | _, _, _, _, _ => none

/-- **`from_dict` on the dictionary as written** (string keys). -/
def fromDictS (mCls : Nat) (P : IBMQParamsS V) : Option (List (PRule V)) :=
  match parseParams P with
  | none => none
  | some Q => fromDict mCls Q

/-- `from_dict` + `apply` on the dictionary as written. -/
def ibmqApplyS (mCls : Nat) (P : IBMQParamsS V) (queue : List NGate) : Option (List (SItem V)) :=
  match parseParams P with
  | none => none
  | some Q => ibmqApply mCls Q queue

/-- the documented queue for the dictionary as written. -/
def ibmqSpecS (P : IBMQParamsS V) (queue : List NGate) : Option (List (SItem V)) :=
  match parseParams P with
  | none => none
  | some Q => ibmqSpec Q queue

end QV.Noise
