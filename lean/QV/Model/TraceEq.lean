/-
  QV.Model.TraceEq — Mazurkiewicz trace equivalence of gate lists (import-free).

  Two lists of items are trace equivalent (`l₁ ~ₜ l₂`) when one is obtained from the other by
  repeatedly swapping two ADJACENT items whose qubit supports are disjoint.  Fusion, the
  light-cone reduction (C07), block decomposition and routing all output a rearrangement of
  the input queue; "the rearrangement preserves the meaning" is exactly `~ₜ`.

  `traceEqB` is the computable decision used by the correspondence driver: the projections
  of the two lists on every qubit coincide.  Its soundness and completeness are proved in
  QV/Proofs/TraceEq.lean; the semantic lemma (`~ₜ` lists act identically) is there too.
-/
namespace QV

/-- the two qubit lists share no qubit. -/
def disjointB (a b : List Nat) : Bool := a.all (fun q => !b.contains q)

section
variable {G : Type}

/-- Mazurkiewicz trace equivalence for the support function `supp`. -/
inductive TraceEq (supp : G → List Nat) : List G → List G → Prop
  | nil : TraceEq supp [] []
  | cons (a : G) {l₁ l₂ : List G} : TraceEq supp l₁ l₂ → TraceEq supp (a :: l₁) (a :: l₂)
  | swap (a b : G) (l : List G) : disjointB (supp a) (supp b) = true →
      TraceEq supp (a :: b :: l) (b :: a :: l)
  | trans {l₁ l₂ l₃ : List G} : TraceEq supp l₁ l₂ → TraceEq supp l₂ l₃ → TraceEq supp l₁ l₃

/-- projection of a list on one qubit: the items that touch it, in order. -/
def proj (supp : G → List Nat) (q : Nat) (l : List G) : List G :=
  l.filter (fun g => (supp g).contains q)

/-- all qubits mentioned by a list (with repetitions). -/
def supportOf (supp : G → List Nat) (l : List G) : List Nat := l.flatMap supp

/-- decision procedure: the per-qubit projections of the two lists are equal. -/
def traceEqB [DecidableEq G] (supp : G → List Nat) (l₁ l₂ : List G) : Bool :=
  (supportOf supp (l₁ ++ l₂)).all (fun q => proj supp q l₁ == proj supp q l₂)

end

/-- a gate as the reordering algorithms see it: an identifier (position in the original
queue) and the qubits it touches. -/
structure TGate where
  id : Nat
  qs : List Nat
  deriving DecidableEq, Repr, Inhabited

end QV
