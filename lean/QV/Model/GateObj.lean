/-
  QV.Model.GateObj — model of the GATE-level state behind property C06.

  A parametrised qibo gate stores every constructor argument ("slot": parameter number `i`, or
  the `trainable` flag) in several places of the object, and every derived method reads one of
  those copies:

      kind 0  `_parameters[idx]`                     kind 3  ad-hoc attribute number `idx`
      kind 1  `init_kwargs[parameter_names[idx]]`            (`PRX.theta`, `_Rn_.initparams`, …)
      kind 2  `init_args[idx]`                       kind 4  `trainable`
                                                     kind 5  `init_kwargs['trainable']`

  A `Field` is one such storage location together with the slot it mirrors.  A class is
  described by a row of a `Table` (REGENERATED from the source on every run by
  `tools/props/C06_gateobj.py`, emitted as `lean/QV/Gen/C06_GateTable.lean`):

    * `fields`    what the constructor writes (`field := argument of field.slot`);
    * `setters`   one entry per update route (`gate.parameters = x`, `Circuit.set_parameters` in
                  list / dict / flat format, every accepted encoding): the slots it assigns and the
                  fields that hold the new value afterwards (base `ParametrizedGate.parameters`
                  setter: `_parameters` and `init_kwargs[n]` iff `n` is a key; overridden setters
                  of `Unitary` (`init_args[0]`), `GeneralizedfSim`);
    * `views`     per consuming method (matrix, execution, qasm, raw, decompose, …) the fields
                  it READS;
    * `producers` per method returning a parametrised gate (dagger, on_qubits, controlled_by,
                  from_dict∘raw, Circuit.invert, …) the row of the result's class and, for every
                  field of the RESULT, the fields of the source it is computed from (`deps`) and
                  a tag `fn` naming the function applied (result fields of one slot holding the
                  same value carry the same tag); `idents` = result fields holding their source
                  value unchanged; `keeps` = SPECIFIED slots that must be carried over unchanged
                  (a non-trainable gate must yield a non-trainable gate);
    * `copied` / `shared`   `Circuit.copy(deep=True)`: fields carried over unchanged, and fields
                  living in a container (`init_kwargs`, `init_args`) that the copy SHARES with
                  its source (qibo commit 5ecf884b9 made this list empty);
    * `live`      the fields that matter: every field read by a view, closed under the producers'
                  dependencies (a certificate computed by the generator, checked by `fresh`).

  `step` / `run` execute a history of construct / update (any route) / deep copy / producer
  calls on a store of objects.  The component `Entry.cur` is SPECIFICATION state (the current
  value of every slot as a user of the API understands it); no computation of an `obj` reads it.
  `Table.fresh` is the decidable predicate "every field a method reads is refreshed by every
  setter that can run, copies do not share it, and producers return coherent gates".
  Import-free.
-/
namespace QV.GateObj

structure Field where
  kind : Nat
  idx : Nat
  slot : Nat
deriving DecidableEq, Repr

/-- an object: storage location ↦ value (`none` = the location does not exist). -/
abbrev Obj (V : Type) := Field → Option V

structure Setter where
  name : String
  slots : List Nat
  writes : List Field
deriving Repr

structure View where
  name : String
  reads : List Field
deriving Repr

structure OutField where
  field : Field
  deps : List Field
  fn : Nat
deriving Repr

structure Producer where
  name : String
  out : Nat
  outs : List OutField
  /-- result fields that hold the value of their (single) source field UNCHANGED -/
  idents : List Field
  /-- SPECIFICATION: pairs (source slot, result slot) the method must carry over unchanged (the
      `trainable` flag through controlled_by / on_qubits / Circuit.invert / Circuit.on_qubits) -/
  keeps : List (Nat × Nat)
deriving Repr

structure Cls where
  name : String
  fields : List Field
  live : List Field
  setters : List Setter
  views : List View
  producers : List Producer
  copied : List Field
  shared : List Field
deriving Repr

abbrev Table := List Cls

def Cls.empty : Cls := ⟨"", [], [], [], [], [], [], []⟩

def Table.cls (T : Table) (i : Nat) : Cls := T.getD i Cls.empty

variable {V : Type}

/-- the constructor: every field receives the argument of its slot. -/
def construct (c : Cls) (args : Nat → V) : Obj V :=
  fun f => if f ∈ c.fields then some (args f.slot) else none

/-- a setter run: the listed fields receive the new value of their slot. -/
def writeAll (o : Obj V) (fs : List Field) (vals : Nat → V) : Obj V :=
  fun f => if f ∈ fs then some (vals f.slot) else o f

/-- what a consuming method sees: the values of the fields it reads (its result is a function of
    them). -/
def observe (m : View) (o : Obj V) : List (Option V) := m.reads.map o

/-- interpretation of the functions applied by producers: producer name, slot of the result
    field, function tag, values read. -/
abbrev Fn (V : Type) := String → Nat → Nat → List (Option V) → V

/-- value of one result field from the values read: an identity field passes the first value
    read through, any other field applies the producer's function. -/
def outVal (F : Fn V) (p : Producer) (j : Nat) (x : OutField) (vals : List (Option V)) : Option V :=
  match decide (x.field ∈ p.idents), vals with
  | true, v :: _ => v
  | _, _ => some (F p.name j x.fn vals)

/-- the gate object a producer returns, computed from the source's STORED values. -/
def produceObj (F : Fn V) (p : Producer) (o : Obj V) : Obj V :=
  fun g => match p.outs.find? (fun x => decide (x.field = g)) with
    | some x => outVal F p g.slot x (x.deps.map o)
    | none => none

/-- specification of a producer: slot `j` of the returned gate as a function of the source's
    current slot values. -/
def produceCur (F : Fn V) (p : Producer) (cur : Nat → V) : Nat → V :=
  fun j => match p.outs.find? (fun x => decide (x.field.slot = j)) with
    | some x => (outVal F p j x (x.deps.map (fun f => some (cur f.slot)))).getD (F p.name j 0 [])
    | none => F p.name j 0 []

/-- `Circuit.copy(deep=True)` on one gate. -/
def copyObj (c : Cls) (o : Obj V) : Obj V :=
  fun f => if f ∈ c.copied then o f else none

structure Entry (V : Type) where
  cls : Nat
  obj : Obj V
  fam : Nat          -- alias family: a deep copy stays in the family of its source
  cur : Nat → V      -- SPECIFICATION: current value of every slot

inductive Op (V : Type)
  | construct (c : Nat) (args : Nat → V)
  | update (k s : Nat) (vals : Nat → V)   -- setter number `s` of object `k`'s class
  | copy (k : Nat)
  | call (k p : Nat)                       -- producer number `p` on object `k`

/-- the effect of a setter run on object `t` on another object `e` of the store: copies of `t`
    (same alias family) see the writes to fields living in shared containers. -/
def leak (C : Cls) (S : Setter) (vals : Nat → V) (t e : Entry V) : Entry V :=
  if e.fam = t.fam ∧ e.cls = t.cls then
    { e with obj := writeAll e.obj (S.writes.filter (fun f => decide (f ∈ C.shared))) vals }
  else e

def step (T : Table) (F : Fn V) (st : List (Entry V)) : Op V → List (Entry V)
  | .construct c args => st ++ [⟨c, construct (T.cls c) args, st.length, args⟩]
  | .update k s vals =>
    match st[k]? with
    | none => st
    | some t =>
      match (T.cls t.cls).setters[s]? with
      | none => st
      | some S =>
        (st.map (leak (T.cls t.cls) S vals t)).set k
          { t with obj := writeAll t.obj S.writes vals,
                   cur := fun i => if i ∈ S.slots then vals i else t.cur i }
  | .copy k =>
    match st[k]? with
    | none => st
    | some t => st ++ [⟨t.cls, copyObj (T.cls t.cls) t.obj, t.fam, t.cur⟩]
  | .call k p =>
    match st[k]? with
    | none => st
    | some t =>
      match (T.cls t.cls).producers[p]? with
      | none => st
      | some P => st ++ [⟨P.out, produceObj F P t.obj, st.length, produceCur F P t.cur⟩]

def run (T : Table) (F : Fn V) (ops : List (Op V)) : List (Entry V) :=
  ops.foldl (step T F) []

/-! ### the decidable predicate -/

def sub (a b : List Field) : Bool := a.all (fun f => b.contains f)

/-- clauses about one row that do not mention other rows. -/
def Cls.okFields (c : Cls) : Bool := sub c.live c.fields
def Cls.okViews (c : Cls) : Bool := c.views.all (fun m => sub m.reads c.live)
def Cls.okSetters (c : Cls) : Bool :=
  c.setters.all (fun s => c.live.all (fun f =>
    (!(s.slots.contains f.slot) || s.writes.contains f) &&
    (!(s.writes.contains f) || s.slots.contains f.slot)))
def Cls.okCopy (c : Cls) : Bool :=
  sub c.live c.copied &&
  c.shared.all (fun f => !(c.live.contains f) || c.setters.all (fun s => !(s.writes.contains f)))

/-- a producer returns a coherent gate computed from live fields only: for every live field `g`
    of the result class, the out-entry of `g` reads live source fields, and it applies the same
    function to the same SLOTS as the first out-entry of `g`'s slot (the one `produceCur` uses). -/
def Producer.ok (T : Table) (c : Cls) (p : Producer) : Bool :=
  (T.cls p.out).live.all (fun g =>
    match p.outs.find? (fun x => decide (x.field = g)),
          p.outs.find? (fun x => decide (x.field.slot = g.slot)) with
    | some x, some y =>
      sub x.deps c.live && (x.deps.map (·.slot) == y.deps.map (·.slot)) && (x.fn == y.fn) &&
      (decide (x.field ∈ p.idents) == decide (y.field ∈ p.idents))
    | _, _ => false) &&
  -- the slots the method must carry over are passed through unchanged
  p.keeps.all (fun ij =>
    match p.outs.find? (fun x => decide (x.field.slot = ij.2)) with
    | some y => decide (y.field ∈ p.idents) && (y.deps.map (·.slot) == [ij.1])
    | none => false)

def Cls.okProducers (T : Table) (c : Cls) : Bool := c.producers.all (Producer.ok T c)

def Cls.ok (T : Table) (c : Cls) : Bool :=
  c.okFields && c.okViews && c.okSetters && c.okCopy && c.okProducers T

def Table.freshAt (T : Table) (i : Nat) : Bool := (T.cls i).ok T

/-- **Fresh**: every row of the table is ok. -/
def Table.fresh (T : Table) : Bool := T.all (fun c => c.ok T)

/-- the invariant: every live field holds the current value of its slot. -/
def Coh (T : Table) (e : Entry V) : Prop :=
  ∀ f ∈ (T.cls e.cls).live, e.obj f = some (e.cur f.slot)

end QV.GateObj
