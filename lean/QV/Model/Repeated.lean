/-
  QV.Model.Repeated — executable model (import-free) of the shot loop of
  `NumpyBackend.execute_circuit_repeated` (backends/numpy.py) together with the per-gate
  bookkeeping of collapsing measurements (`M.apply` → `MeasurementResult.add_shot`,
  measurements.py) and of gates conditioned on a recorded outcome
  (`gate.substitute_symbols()` → `MeasurementSymbol.outcome()` = last recorded row), property C03.

  MODELLED (hand transliteration, tied to /repo by the `REP` correspondence suite of
  tools/props/C03.py through lean/DriverC03.lean):

    execute_circuit_repeated   `gate.result.reset()` of every M of the queue before the loop;
                               for every shot: a fresh copy of the initial state, the pass over
                               the queue, `CircuitResult(state, measurements, nshots=1).samples()[0]`
                               appended to `results`, reset of the terminal gates' results;
                               after the loop `MeasurementOutcomes(measurements, samples=
                               aggregate_shots(results))` (which registers `samples[:, indices]`
                               in every terminal gate) and `_repeated_execution_frequencies =
                               calculate_frequencies(bitstrings)`
    M.apply / add_shot         draw over the SORTED targets, the recorded row in the order of
                               the gate's qubits, `if self._samples: append else: [row]`
    MeasurementSymbol.outcome  `result.samples(binary=True)[-1][index]`
    ParametrizedGate.substitute_symbols (gates/abstract.py)
                               every symbolic parameter is evaluated with every free symbol
                               replaced by its `outcome()` (`QOp.pgate`)

  The simulator itself is a parameter (`Sem`): state vectors (`applyGate`, `collapseState`) and
  density matrices (`applyGateDM`, `collapseDM`) are two instances.  Randomness is an input: the
  flat tape of the answers of `sample_shots(probs, 1)` in call order.
-/
import QV.Model.Measure
namespace QV.Rep
open QV

/-- what the loop needs from the simulator. -/
structure Sem (σ G : Type) where
  gate : G → σ → σ
  /-- `collapse_state(state, sorted_targets, shot, nqubits)` -/
  coll : List Nat → Nat → σ → σ

/-- queue element as `execute_circuit_repeated` sees it (after `Circuit.add`). -/
inductive QOp (G : Type)
  | gate (g : G)
  /-- `collapse` is the flag left by `Circuit.add` -/
  | meas (targets : List Nat) (collapse : Bool)
  /-- gate whose parameter is symbol `j` of the `m`-th measurement gate of the queue: applied
  iff the recorded outcome is 1 (`RX(q, theta=pi*symbol)`) -/
  | cgate (g : G) (m j : Nat)
  /-- gate whose parameters are sympy expressions in measurement symbols: `uses` lists the
  symbols `(measurement gate, bit)` in the order in which `f` expects their values, `f` maps the
  values to the gate that `substitute_symbols()` leaves (every symbol is replaced by
  `symbol.outcome()`, the parameters become floats, the expressions are kept for the next shot) -/
  | pgate (f : List Nat → G) (uses : List (Nat × Nat))

/-- `MeasurementResult._samples` of one gate while the loop runs. -/
abbrev Cache := Option (List (List Nat))

/-- `if self._samples: self._samples.append(row) else: self._samples = [row]`. -/
def addShot (c : Cache) (row : List Nat) : Cache :=
  match c with
  | some (r :: rs) => some ((r :: rs) ++ [row])
  | _ => some [row]

/-- `symbol.outcome()` = `result.samples(binary=True)[-1][index]`. -/
def lastBit (caches : Nat → Cache) (m j : Nat) : Nat :=
  (((caches m).getD []).getLast?.getD []).getD j 0

/-- what one pass over the queue threads along. -/
structure Pass (σ : Type) where
  /-- per measurement gate of the queue (index = how many M come before it) -/
  caches : Nat → Cache
  tape : List Nat
  state : σ
  /-- states on which a collapsing measurement drew, in call order (observation for the tie) -/
  seen : List σ := []

variable {σ G : Type}

/-- `for gate in circuit.queue: state = gate.apply(self, state, nqubits)`; `m` counts the
measurement gates met so far. -/
def passQueue (S : Sem σ G) : List (QOp G) → Nat → Pass σ → Pass σ
  | [], _, p => p
  | .gate g :: ops, m, p => passQueue S ops m { p with state := S.gate g p.state }
  | .meas ts true :: ops, m, p =>
    let d := p.tape.headD 0
    passQueue S ops (m + 1)
      { caches := fun i => if i = m then addShot (p.caches m) (recordedBits ts d) else p.caches i,
        tape := p.tape.tail,
        state := S.coll (sortAsc ts) d p.state,
        seen := p.seen ++ [p.state] }
  | .meas _ false :: ops, m, p => passQueue S ops (m + 1) p
  | .cgate g m' j :: ops, m, p =>
    passQueue S ops m
      { p with state := if lastBit p.caches m' j = 1 then S.gate g p.state else p.state }
  | .pgate f uses :: ops, m, p =>
    passQueue S ops m
      { p with state := S.gate (f (uses.map fun e => lastBit p.caches e.1 e.2)) p.state }

/-- targets of the terminal measurements with their measurement index, in queue order. -/
def finals : List (QOp G) → Nat → List (Nat × List Nat)
  | [], _ => []
  | .meas ts false :: ops, m => (m, ts) :: finals ops (m + 1)
  | .meas _ true :: ops, m => finals ops (m + 1)
  | _ :: ops, m => finals ops m

/-- `measurement_gate.target_qubits` of the result: the terminal registers concatenated. -/
def globOf (ops : List (QOp G)) : List Nat := (finals ops 0).flatMap (·.2)

/-- state of the whole loop. -/
structure Loop (σ : Type) where
  caches : Nat → Cache
  tape : List Nat
  /-- `results`: one binary row per shot -/
  rows : List (List Nat) := []
  /-- final state of every shot (`final_states` of the density-matrix branch) -/
  states : List σ := []
  /-- per shot: states on which collapsing measurements drew, then the state given to
  `CircuitResult` -/
  seen : List (List σ) := []

/-- body of `for _ in range(nshots)`. -/
def shotStep (S : Sem σ G) (ops : List (QOp G)) (ψ0 : σ) (L : Loop σ) : Loop σ :=
  let p := passQueue S ops 0 { caches := L.caches, tape := L.tape, state := ψ0 }
  let fin := finals ops 0
  if fin.isEmpty then
    { L with caches := p.caches, tape := p.tape, states := L.states ++ [p.state],
             seen := L.seen ++ [p.seen] }
  else
    let row := samplesToBinary (globOf ops).length (p.tape.headD 0)
    { caches := fun i => if fin.any (fun e => e.1 == i) then none else p.caches i,   -- reset
      tape := p.tape.tail,
      rows := L.rows ++ [row],
      states := L.states ++ [p.state],
      seen := L.seen ++ [p.seen ++ [p.state]] }

def shotLoop (S : Sem σ G) (ops : List (QOp G)) (ψ0 : σ) : Nat → Loop σ → Loop σ
  | 0, L => L
  | n + 1, L => shotLoop S ops ψ0 n (shotStep S ops ψ0 L)

/-- what the caller can observe afterwards. -/
structure Out (σ : Type) where
  /-- `result.samples()` -/
  rows : List (List Nat)
  /-- `gate.result._samples` of every measurement gate of the queue -/
  caches : Nat → Cache
  /-- `_repeated_execution_frequencies` (keys read as decimals) -/
  repFreq : Freq
  states : List σ
  seen : List (List σ)
  tape : List Nat

/-- `execute_circuit_repeated(circuit, nshots, initial_state)`. -/
def execRepeated (S : Sem σ G) (ops : List (QOp G)) (nshots : Nat) (tape : List Nat) (ψ0 : σ) :
    Out σ :=
  let L := shotLoop S ops ψ0 nshots { caches := fun _ => none, tape := tape }
  let glob := globOf ops
  let fin := finals ops 0
  { rows := L.rows,
    caches := fun i =>
      match fin.find? (fun e => e.1 == i) with
      | some e => some (L.rows.map fun r => pick r (positions glob e.2))   -- register_samples
      | none => L.caches i,
    repFreq := hist (L.rows.map samplesToDecimal),
    states := L.states, seen := L.seen, tape := L.tape }

/-! ### SPEC: one shot on its own -/

/-- number of draws one shot consumes: one per collapsing measurement, one for the terminal
sample (if there is a terminal measurement). -/
def ncoll : List (QOp G) → Nat
  | [] => 0
  | .meas _ true :: ops => ncoll ops + 1
  | _ :: ops => ncoll ops

def need (ops : List (QOp G)) : Nat := ncoll ops + if (finals ops 0).isEmpty then 0 else 1

/-- SPEC: a single shot executed on a circuit whose measurement results are empty, with its own
draws `d`. -/
def oneShot (S : Sem σ G) (ops : List (QOp G)) (ψ0 : σ) (d : List Nat) : Pass σ :=
  passQueue S ops 0 { caches := fun _ => none, tape := d, state := ψ0 }

/-- SPEC: row recorded by the `m`-th measurement gate in that shot (`[]` if it records none). -/
def recOf (S : Sem σ G) (ops : List (QOp G)) (ψ0 : σ) (d : List Nat) (m : Nat) : List Nat :=
  (((oneShot S ops ψ0 d).caches m).getD []).getLast?.getD []

/-- SPEC: the terminal sample of that shot as a binary row. -/
def rowOf (S : Sem σ G) (ops : List (QOp G)) (ψ0 : σ) (d : List Nat) : List Nat :=
  samplesToBinary (globOf ops).length ((oneShot S ops ψ0 d).tape.headD 0)

/-- every `cgate` refers to a collapsing measurement that precedes it in the queue. -/
def wellFormed : List (QOp G) → Nat → (Nat → Bool) → Bool
  | [], _, _ => true
  | .gate _ :: ops, m, ok => wellFormed ops m ok
  | .meas _ c :: ops, m, ok => wellFormed ops (m + 1) (fun i => if i = m then c else ok i)
  | .cgate _ m' _ :: ops, m, ok => ok m' && wellFormed ops m ok
  | .pgate _ uses :: ops, m, ok => uses.all (fun e => ok e.1) && wellFormed ops m ok

/-- state-vector simulator. -/
def svSem {α : Type} [Zero α] [Add α] [Mul α] : Sem (Lab → α) (MGate α) :=
  { gate := applyGate, coll := collapseState }

/-- density-matrix simulator. -/
def dmSem {α : Type} [Zero α] [Add α] [Mul α] (conj : α → α) : Sem (DM α) (MGate α) :=
  { gate := applyGateDM conj, coll := collapseDM }

end QV.Rep
