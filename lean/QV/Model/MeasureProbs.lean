/-
  QV.Model.MeasureProbs — executable model (import-free) of
  `MeasurementOutcomes.probabilities(qubits)` (result.py) on a result that has no final state
  (shot-by-shot execution, or built from samples), as one more accessor of the result state
  machine of QV/Model/Measure.lean, including the cache `_probs` it fills.  Property C03.

  MODELLED (hand transliteration, tied to /repo by the `PROBH` correspondence suite of
  tools/props/C03.py through lean/DriverC03.lean):

    MeasurementOutcomes.probabilities   positions of the requested qubits in the measurement
                                        gate, `_probs` cache, `probs[state] = freq / nshots`
                                        from `frequencies(binary=False)`, marginal through
                                        `calculate_probabilities(sqrt(probs), positions, k)`
    MeasurementOutcomes.frequencies     the early return of `_repeated_execution_frequencies`
                                        (non-register calls)

  Probabilities are kept as COUNTS (`nshots · p`): the division by `nshots` and the
  `sqrt`/`abs**2` round trip are float operations, compared with tolerance by the harness.
-/
import QV.Model.Measure
namespace QV

/-- a result without final state: the state machine of `Measure.lean` plus the two extra
attributes. -/
structure PState where
  base : RState
  /-- `_repeated_execution_frequencies` (keys read as decimals) -/
  repFreq : Option Freq := none
  /-- `_probs`, as counts -/
  probs : Option Freq := none

inductive POp
  | acc (op : ROp)
  /-- `result.probabilities(qs)` -/
  | probs (qs : List Nat)

inductive PAns
  | view (o : ROut)
  /-- `nshots ·` the returned array -/
  | table (t : List Nat)

/-- the array `probs` (index = decimal outcome of the `k` measured qubits) as a weight on the
labels of a `k`-qubit register. -/
def weightOf (k : Nat) (P : Freq) : Lab → Nat := fun x => P (Lab.idx (List.range k) x)

/-- `calculate_probabilities(sqrt(probs), idx, k)`, flattened. -/
def probsTable (k : Nat) (idx : List Nat) (P : Freq) : List Nat :=
  (List.range (2 ^ idx.length)).map (calculateProbabilities k idx (weightOf k P))

/-- `self.frequencies(binary=False)` as called from `probabilities`. -/
def pFreq (c : RCfg) (o : Oracle) (s : PState) : PState × Freq :=
  match s.repFreq with
  | some F => (s, F)
  | none =>
    let (b, F) := ensureFreq c o s.base
    ({ s with base := b }, F)

/-- `probabilities(qs)`. -/
def pProbs (c : RCfg) (o : Oracle) (s : PState) (qs : List Nat) : PState × List Nat :=
  let idx := positions c.glob qs
  match s.probs with
  | some P => (s, probsTable c.k idx P)
  | none =>
    let (s', F) := pFreq c o s
    ({ s' with probs := some F }, probsTable c.k idx F)

def pstep (c : RCfg) (o : Oracle) (s : PState) : POp → PState × PAns
  | .acc (.freqs b false) =>
    match s.repFreq with
    | some F => (s, .view (.freq F))
    | none => let (b', out) := rstep c o s.base (.freqs b false); ({ s with base := b' }, .view out)
  | .acc op => let (b', out) := rstep c o s.base op; ({ s with base := b' }, .view out)
  | .probs qs => let (s', t) := pProbs c o s qs; (s', .table t)

def prun (c : RCfg) (o : Oracle) : PState → List POp → List PAns
  | _, [] => []
  | s, op :: ops => (pstep c o s op).2 :: prun c o (pstep c o s op).1 ops

/-- the result returned by `execute_circuit_repeated` (state vectors) for the shot table `T`. -/
def PState.repeated (c : RCfg) (T : List Nat) : PState :=
  { base := RState.withSamples c T, repFreq := some (hist T) }

/-- SPEC: empirical marginal (as counts) of the shot table on the ordered qubit list `qs`. -/
def empirical (c : RCfg) (T : List Nat) (qs : List Nat) : List Nat :=
  (List.range (2 ^ qs.length)).map (hist (T.map (projDec c.k (positions c.glob qs))))

def pview (c : RCfg) (T : List Nat) : POp → PAns
  | .acc op => .view (rview c T op)
  | .probs qs => .table (empirical c T qs)

/-! ### the seeded defect, as a model (negative witness only) -/

/-- `probabilities` caching the RETURNED table (requested order) when all measured qubits were
requested. -/
def pProbsPoisoned (c : RCfg) (o : Oracle) (s : PState) (qs : List Nat) : PState × List Nat :=
  let idx := positions c.glob qs
  match s.probs with
  | some P => (s, probsTable c.k idx P)
  | none =>
    let (s', F) := pFreq c o s
    let t := probsTable c.k idx F
    (if idx.length = c.k then { s' with probs := some fun v => t.getD v 0 } else s', t)

end QV
