/-
  QV.Model.Einsum — transliteration of qibo's gate-application PIPELINE (import-free):

    * `backends/einsum_utils.py`: `prepare_strings`, `apply_gate_string`,
      `apply_gate_density_matrix_string`, `apply_gate_density_matrix_controlled_string`,
      `control_order`, `control_order_density_matrix`, `reverse_order`
      (einsum labels are natural numbers: label `i` stands for `EINSUM_CHARS[i]`; the
      "not enough einsum characters" guards are explicit: `none` = the call raises);
    * `backends/numpy.py`: `NumpyBackend.apply_gate` and `apply_gate_density_matrix`
      (reshape to `(2,)*n`, transpose by `order`, slice `state[-1]` on the merged control axes,
      `einsum`, `concatenate`, inverse transpose; for density matrices the right/left einsum
      with `conj(matrix)` / `matrix` and the 4-block controlled update).

  Tensors with m binary axes are functions on bit vectors `Lab → α` (axis i ↦ bit i; only bits
  `< m` are read): reshape between `(2^m,)` and `(2,)*m` is the identity on labels (axis 0 = most
  significant bit), `transpose` is a bit permutation, the last entry of merged leading axes is
  "all those bits are 1", `einsum` is a label-list interpreter (value at an output assignment =
  sum over the assignments of the contracted labels of the product of the operand entries).

  That this pipeline has the EFFECT stated in QV/Model/Sim.lean (`applyGate`, `applyGateDM`) is
  proved in QV/Proofs/Einsum*.lean (theorems in QV/Props/C01c.lean, C02b.lean).
-/
import QV.Core.Bits
import QV.Model.Sim
namespace QV.Einsum

/-! ### einsum_utils.py : strings -/

/-- `len(EINSUM_CHARS)` (qibo/config.py: a–z, A–Z). -/
def EINSUM_LEN : Nat := 52

/-- result of `prepare_strings`: `(inp, out, trans, rest)` as label lists. -/
structure Strings where
  inp : List Nat
  out : List Nat
  trans : List Nat
  rest : List Nat
  deriving Repr, DecidableEq

/-- an einsum call `"a,b->out"`. -/
structure Spec where
  a : List Nat
  b : List Nat
  out : List Nat
  deriving Repr, DecidableEq

/-- `prepare_strings(qubits, nqubits)`; `none` = `NotImplementedError`.
`trans` starts as the `len(qubits)` fresh labels after the first `nqubits`; the loop appends
`inp[q]` to it and overwrites `out[q]` by the i-th fresh label. -/
def prepareStrings (qubits : List Nat) (nqubits : Nat) : Option Strings :=
  if nqubits + qubits.length > EINSUM_LEN then none
  else
    let inp := List.range nqubits
    let fresh := List.range' nqubits qubits.length
    let trans := fresh ++ qubits.map (fun q => inp.getD q 0)
    let out := (qubits.zip fresh).foldl (fun o qf => o.set qf.1 qf.2) inp
    some ⟨inp, out, trans,
      List.range' (nqubits + qubits.length) (EINSUM_LEN - (nqubits + qubits.length))⟩

/-- `apply_gate_string`: `"{inp},{trans}->{out}"`. -/
def applyGateString (qubits : List Nat) (nqubits : Nat) : Option Spec :=
  (prepareStrings qubits nqubits).map fun s => ⟨s.inp, s.trans, s.out⟩

/-- `apply_gate_density_matrix_string`: `(left, right)`. -/
def applyGateDMString (qubits : List Nat) (nqubits : Nat) : Option (Spec × Spec) :=
  match prepareStrings qubits nqubits with
  | none => none
  | some s =>
    if nqubits > s.rest.length then none
    else
      let trest := s.rest.take nqubits
      some (⟨s.inp ++ trest, s.trans, s.out ++ trest⟩, ⟨trest ++ s.inp, s.trans, trest ++ s.out⟩)

/-- `apply_gate_density_matrix_controlled_string`: `(left, right)` with the extra leading label
`c = rest[nqubits]` (`none` also stands for the `IndexError` of `rest[nqubits]` when
`len(rest) == nqubits`). -/
def applyGateDMControlledString (qubits : List Nat) (nqubits : Nat) : Option (Spec × Spec) :=
  match prepareStrings qubits nqubits with
  | none => none
  | some s =>
    if nqubits ≥ s.rest.length then none
    else
      let trest := s.rest.take nqubits
      let c := s.rest.getD nqubits 0
      some (⟨c :: (s.inp ++ trest), s.trans, c :: (s.out ++ trest)⟩,
            ⟨c :: (trest ++ s.inp), s.trans, c :: (trest ++ s.out)⟩)

/-! ### einsum_utils.py : axis orders -/

/-- one round of the `for control in gate.control_qubits` loop of `control_order`; the state is
`(loop_start, order, targets)`, `orig` is `gate.target_qubits` (the comparison `t > control`
reads the ORIGINAL targets). -/
def controlStep (orig : List Nat) (st : Nat × List Nat × List Nat) (control : Nat) :
    Nat × List Nat × List Nat :=
  (control + 1,
   st.2.1 ++ List.range' st.1 (control - st.1),
   List.zipWith (fun t cur => if t > control then cur - 1 else cur) orig st.2.2)

/-- `control_order(gate, nqubits)` → `(order, targets)`. -/
def controlOrder (controls targets : List Nat) (nqubits : Nat) : List Nat × List Nat :=
  let st := controls.foldl (controlStep targets) (0, controls, targets)
  (st.2.1 ++ List.range' st.1 (nqubits - st.1), st.2.2)

/-- `control_order_density_matrix(gate, nqubits)` → `(order_dm, targets)`. -/
def controlOrderDM (controls targets : List Nat) (nqubits : Nat) : List Nat × List Nat :=
  let ncontrol := controls.length
  let (order, targets) := controlOrder controls targets nqubits
  let additional := order.map (· + order.length)
  (order.take ncontrol ++ additional.take ncontrol ++ order.drop ncontrol ++ additional.drop ncontrol,
   targets)

/-- `reverse_order(order)`: `rorder[r] = i` for `i, r in enumerate(order)`. -/
def reverseOrder (order : List Nat) : List Nat :=
  order.zipIdx.foldl (fun r xi => r.set xi.1 xi.2) (List.replicate order.length 0)

/-- `Gate.control_qubits` returns `tuple(sorted(self._control_qubits))`. -/
def sortedControls (cs : List Nat) : List Nat := cs.mergeSort (fun a b => decide (a ≤ b))

/-! ### tensors and einsum -/

/-- all bits at positions `≥ m` are 0: the label is a multi-index of a tensor with m axes. -/
def InRange (m : Nat) (y : Lab) : Prop := ∀ q, m ≤ q → y q = false

/-- operand index from an assignment of the labels: axis i ↦ value of label `ls[i]`. -/
def pull (ls : List Nat) (σ : Lab) : Lab := fun i =>
  match ls[i]? with
  | some l => σ l
  | none => false

/-- assignment of the labels `ls` (in axis order) from a multi-index. -/
def push (ls : List Nat) (y : Lab) : Lab := fun l =>
  if ls.contains l then y (ls.idxOf l) else false

def dedup : List Nat → List Nat
  | [] => []
  | l :: ls => l :: (dedup ls).filter (· != l)

/-- the labels summed over: those of the operands that do not occur in the output. -/
def contracted (s : Spec) : List Nat :=
  dedup ((s.a ++ s.b).filter fun l => !s.out.contains l)

variable {α : Type} [Zero α] [Add α] [Mul α]

/-- `np.einsum("a,b->out", A, B)` for tensors with binary axes. -/
def einsum (s : Spec) (A B : Lab → α) : Lab → α := fun y =>
  sumOver (contracted s) (fun σ => A (pull s.a σ) * B (pull s.b σ)) (push s.out y)

/-- the same call when the first label of the first operand and of the output is a batch axis
(the merged control axis of length `2^ncontrol - 1` in the controlled density-matrix branch):
the contraction is done for every batch index `r`.  A spec of another shape gives the zero tensor
(never produced by `applyGateDMControlledString`). -/
def einsumBatch (s : Spec) (A : Lab → Lab → α) (B : Lab → α) : Lab → Lab → α := fun r z =>
  match s.a, s.out with
  | c :: a', c' :: o' =>
    if c = c' ∧ !a'.contains c ∧ !o'.contains c ∧ !s.b.contains c then
      einsum ⟨a', s.b, o'⟩ (A r) B z
    else 0
  | _, _ => 0

/-- a `2^k × 2^k` matrix reshaped to `(2,)*2k`: axes `0..k-1` = row bits, `k..2k-1` = column bits. -/
def matT (k : Nat) (mat : Nat → Nat → α) : Lab → α := fun w =>
  mat (Lab.idx (List.range k) w) (Lab.idx (List.range' k k) w)

/-- `np.transpose(T, order)`: axis `a` of the result is axis `order[a]` of `T`. -/
def transposeT (order : List Nat) (T : Lab → α) : Lab → α := fun y => T (push order y)

/-- index, in the tensor whose first `nc` axes are merged, of entry `z` of the block `[-1]`. -/
def shiftUp (nc : Nat) (z : Lab) : Lab := fun a => if a < nc then true else z (a - nc)

def shiftDown (nc : Nat) (y : Lab) : Lab := fun b => y (b + nc)

/-- `np.reshape(T, (2**nc,) + rest)[-1]`. -/
def sliceLast (nc : Nat) (T : Lab → α) : Lab → α := fun z => T (shiftUp nc z)

/-- `np.concatenate([S[:-1], U[None]], axis=0)` with `S = np.reshape(T, (2**nc,) + rest)`. -/
def concatLast (nc : Nat) (T U : Lab → α) : Lab → α := fun y =>
  if (List.range nc).all y then U (shiftDown nc y) else T y

/-! ### NumpyBackend.apply_gate -/

/-- `NumpyBackend.apply_gate(gate, state, nqubits)`.  A gate of the model has controls exactly
when the qibo gate was made with `controlled_by` (`is_controlled_by`); otherwise its `targets`
are `gate.qubits`.  `none` = the call raises `NotImplementedError`. -/
def applyGateSV (n : Nat) (g : MGate α) (ψ : Lab → α) : Option (Lab → α) :=
  let matrix := matT g.targets.length g.mat
  if g.controls.isEmpty then
    (applyGateString g.targets n).map fun opstring => einsum opstring ψ matrix
  else
    let controls := sortedControls g.controls
    let ncontrol := controls.length
    let nactive := n - ncontrol
    let ot := controlOrder controls g.targets n
    let state := transposeT ot.1 ψ
    (applyGateString ot.2 nactive).map fun opstring =>
      let updates := einsum opstring (sliceLast ncontrol state) matrix
      transposeT (reverseOrder ot.1) (concatLast ncontrol state updates)

/-- execution loop on state vectors (`none` as soon as a gate raises). -/
def runSV (n : Nat) (gs : List (MGate α)) (ψ : Lab → α) : Option (Lab → α) :=
  gs.foldl (fun s g => s.bind (applyGateSV n g)) (some ψ)

/-! ### NumpyBackend.apply_gate_density_matrix -/

/-- `np.reshape(rho, 2*n*(2,))`: axes `0..n-1` row bits, `n..2n-1` column bits. -/
def dmToT (n : Nat) (ρ : DM α) : Lab → α := fun w =>
  ρ (fun q => decide (q < n) && w q) (fun q => decide (q < n) && w (q + n))

def joinRC (n : Nat) (x y : Lab) : Lab := fun a =>
  if a < n then x a else if a < 2 * n then y (a - n) else false

/-- `np.reshape(T, 2*(2**n,))`. -/
def tToDM (n : Nat) (T : Lab → α) : DM α := fun x y => T (joinRC n x y)

/-- multi-index with row-control bits `r`, column-control bits `c`, remaining axes `z`
(after `np.reshape(state, 2*(2**nc,) + 2*nactive*(2,))`). -/
def blockIdx (nc : Nat) (r c z : Lab) : Lab := fun a =>
  if a < nc then r a else if a < 2 * nc then c (a - nc) else z (a - 2 * nc)

def ones : Lab := fun _ => true

/-- the right einsum with `conj(matrix)` followed by the left einsum with `matrix`. -/
def leftRight (conj : α → α) (lr : Spec × Spec) (k : Nat) (mat : Nat → Nat → α) (T : Lab → α) :
    Lab → α :=
  let matrix := matT k mat
  let matrixc : Lab → α := fun w => conj (matrix w)
  einsum lr.1 (einsum lr.2 T matrixc) matrix

/-- `NumpyBackend.apply_gate_density_matrix(gate, state, nqubits)`. -/
def applyGateDMT (conj : α → α) (n : Nat) (g : MGate α) (ρ : DM α) : Option (DM α) :=
  let k := g.targets.length
  let matrix := matT k g.mat
  let matrixc : Lab → α := fun w => conj (matrix w)
  let state := dmToT n ρ
  if g.controls.isEmpty then
    (applyGateDMString g.targets n).map fun lr => tToDM n (leftRight conj lr k g.mat state)
  else
    let controls := sortedControls g.controls
    let nc := controls.length
    let nactive := n - nc
    let ot := controlOrderDM controls g.targets n
    let state := transposeT ot.1 state
    match applyGateDMControlledString ot.2 nactive, applyGateDMString ot.2 nactive with
    | some lrc, some lr =>
      -- state[: n - 1, n - 1] and state[n - 1, : n - 1] (batch axis = the other control index)
      let state01 := einsumBatch lrc.2 (fun r z => state (blockIdx nc r ones z)) matrixc
      let state10 := einsumBatch lrc.1 (fun c z => state (blockIdx nc ones c z)) matrix
      let state11 := leftRight conj lr k g.mat (fun z => state (blockIdx nc ones ones z))
      -- state00 and the three concatenations
      let allc : Lab → Bool := fun r => (List.range nc).all r
      let out : Lab → α := fun y =>
        let r : Lab := y
        let c : Lab := shiftDown nc y
        let z : Lab := shiftDown (2 * nc) y
        if allc r then (if allc c then state11 z else state10 c z)
        else (if allc c then state01 r z else state y)
      some (tToDM n (transposeT (reverseOrder ot.1) out))
    | _, _ => none

def runDMT (conj : α → α) (n : Nat) (gs : List (MGate α)) (ρ : DM α) : Option (DM α) :=
  gs.foldl (fun s g => s.bind (applyGateDMT conj n g)) (some ρ)

end QV.Einsum
