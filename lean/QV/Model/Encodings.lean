/-
  QV.Model.Encodings — executable model of qibo's library circuit constructors
  (`models/qft.py::QFT`, `models/encodings.py::comp_basis_encoder / ghz_state /
  unary_encoder / _generate_rbs_pairs / _ehrlich_algorithm / _get_markers /
  _get_next_bistring / hamming_weight_encoder`).  Mathlib-free.

  A constructor is modelled by the *gate list it appends to the circuit queue*:
  gate class, qubits in qibo's order (controls first, then targets) and, for
  parametrised gates, an angle descriptor
      CU1 : exponent e   (the angle is π / 2^e)
      RBS : index of the circuit parameter (angle θ_e, set by `set_parameters`)
  The lists are compared verbatim with the queues of the real constructors on every
  check run (tools/props/C20.py).  `GD.sem` gives every descriptor its meaning as a
  gate of the simulator model `QV/Model/Sim.lean`, over abstract scalars
  (h = 1/√2, w e = exp(iπ/2^e), c e = cos θ_e, s e = sin θ_e).
-/
import QV.Core.Bits
import QV.Model.Sim
namespace QV.Enc
open QV

/-! ## gate descriptors -/

inductive GK where
  | H | X | CNOT | CU1 | SWAP | RBS
  deriving DecidableEq, Repr, Inhabited

/-- one entry of a circuit queue. `ctrl` are extra `controlled_by` controls (sorted). -/
structure GD where
  kind : GK
  q0 : Nat
  q1 : Nat := 0
  e : Nat := 0
  ctrl : List Nat := []
  deriving DecidableEq, Repr, Inhabited

def GK.name : GK → String
  | .H => "h" | .X => "x" | .CNOT => "cx" | .CU1 => "cu1" | .SWAP => "swap" | .RBS => "rbs"

/-- canonical text: `name q0 [q1] [e] | controls`. -/
def GD.show (g : GD) : String :=
  let body := match g.kind with
    | .H | .X => s!"{g.kind.name} {g.q0}"
    | .CNOT | .SWAP => s!"{g.kind.name} {g.q0} {g.q1}"
    | .CU1 | .RBS => s!"{g.kind.name} {g.q0} {g.q1} {g.e}"
  if g.ctrl.isEmpty then body else body ++ " c " ++ " ".intercalate (g.ctrl.map toString)

/-! ## semantics of a descriptor in the simulator model -/

/-- the scalars a circuit needs. -/
structure Par (α : Type) where
  h : α                 -- 1/√2
  w : Nat → α           -- w e = exp(iπ/2^e)   (CU1 angle π/2^e)
  c : Nat → α           -- cos of the e-th circuit parameter
  s : Nat → α           -- sin of the e-th circuit parameter

section sem
variable {α : Type} [Zero α] [One α] [Neg α]

def matH (h : α) : Nat → Nat → α := fun i j => if i = 1 ∧ j = 1 then -h else h
def matX : Nat → Nat → α := fun i j => if i + j = 1 then 1 else 0
def matPhase (w : α) : Nat → Nat → α := fun i j => if i = j then (if i = 1 then w else 1) else 0
def matSwap : Nat → Nat → α := fun i j =>
  if (i = 0 ∧ j = 0) ∨ (i = 3 ∧ j = 3) ∨ (i = 1 ∧ j = 2) ∨ (i = 2 ∧ j = 1) then 1 else 0
/-- qibo's RBS(θ): rows `[1,0,0,0],[0,c,s,0],[0,-s,c,0],[0,0,0,1]`. -/
def matRBS (c s : α) : Nat → Nat → α := fun i j =>
  if (i = 0 ∧ j = 0) ∨ (i = 3 ∧ j = 3) then 1
  else if (i = 1 ∧ j = 1) ∨ (i = 2 ∧ j = 2) then c
  else if i = 1 ∧ j = 2 then s
  else if i = 2 ∧ j = 1 then -s
  else 0

def GD.sem (P : Par α) (g : GD) : MGate α :=
  match g.kind with
  | .H => { mat := matH P.h, targets := [g.q0], controls := g.ctrl }
  | .X => { mat := matX, targets := [g.q0], controls := g.ctrl }
  | .CNOT => { mat := matX, targets := [g.q1], controls := g.q0 :: g.ctrl }
  | .CU1 => { mat := matPhase (P.w g.e), targets := [g.q1], controls := g.q0 :: g.ctrl }
  | .SWAP => { mat := matSwap, targets := [g.q0, g.q1], controls := g.ctrl }
  | .RBS => { mat := matRBS (P.c g.e) (P.s g.e), targets := [g.q0, g.q1], controls := g.ctrl }

end sem

/-! ## models/qft.py :: QFT (non-distributed branch) -/

/-- inner loop for one `i1`: `H(i1)` then `CU1(i2, i1, π/2^(i2-i1))` for `i2 = i1+1 .. n-1`. -/
def qftLadder (n i1 : Nat) : List GD :=
  { kind := .H, q0 := i1 } ::
    (List.range (n - i1 - 1)).map (fun d => { kind := .CU1, q0 := i1 + 1 + d, q1 := i1, e := d + 1 })

def qftBody (n : Nat) : List GD := (List.range n).flatMap (qftLadder n)

def qftSwaps (n : Nat) : List GD :=
  (List.range (n / 2)).map (fun i => { kind := .SWAP, q0 := i, q1 := n - i - 1 })

def qft (n : Nat) (withSwaps : Bool) : List GD :=
  qftBody n ++ (if withSwaps then qftSwaps n else [])

/-! ## comp_basis_encoder, ghz_state -/

/-- `X(qubit)` for every position holding a 1 (after the int / str / list input has been
turned into a list of bits, first element = qubit 0). -/
def compBasisFrom (q : Nat) : List Bool → List GD
  | [] => []
  | b :: bs => (if b then [{ kind := .X, q0 := q }] else []) ++ compBasisFrom (q + 1) bs

def compBasis (bits : List Bool) : List GD := compBasisFrom 0 bits

/-- `f"{v:0{n}b}"` — most significant bit first, at least `n` characters. -/
def bitsOfNat (n v : Nat) : List Bool :=
  let m := max n (Nat.log2 v + 1)
  (List.range m).map (fun i => (v >>> (m - 1 - i)) % 2 == 1)

def cnotChain (k : Nat) : List GD :=
  (List.range k).map (fun q => { kind := .CNOT, q0 := q, q1 := q + 1 })

def ghz (n : Nat) : List GD := { kind := .H, q0 := 0 } :: cnotChain (n - 1)

/-! ## _generate_rbs_pairs and unary_encoder -/

def diagPairsRaw (n : Nat) : List (List (Nat × Nat)) :=
  (List.range (n - 1)).map (fun k => [(k, k + 1)])

/-- rows of the tree, before the final index reversal. `fuel` = number of further depths. -/
def treeRowsFrom (n : Nat) : Nat → Nat → List Nat → List (List (Nat × Nat))
  | 0, _, _ => []
  | fuel + 1, depth, idxs =>
    let row := idxs.map (fun i => (i, i + n / 2 ^ depth))
    row :: treeRowsFrom n fuel (depth + 1) (row.flatMap (fun p => [p.1, p.2]))

def treePairsRaw (n : Nat) : List (List (Nat × Nat)) :=
  [(0, n / 2)] :: treeRowsFrom n (Nat.log2 n - 1) 2 [0, n / 2]

def rbsPairs (n : Nat) (tree : Bool) : List (List (Nat × Nat)) :=
  (if tree then treePairsRaw n else diagPairsRaw n).map
    (fun row => row.map (fun p => (n - 1 - p.1, n - 1 - p.2)))

/-- number the RBS gates in queue order: the e-th gate takes the e-th circuit parameter. -/
def rbsGates (pairs : List (Nat × Nat)) : List GD :=
  (List.range pairs.length).zipWith (fun e p => { kind := .RBS, q0 := p.1, q1 := p.2, e := e }) pairs

def unary (n : Nat) (tree : Bool) : List GD :=
  { kind := .X, q0 := n - 1 } :: rbsGates (rbsPairs n tree).flatten

/-! ## Ehrlich walk over fixed-weight bit strings -/

/-- positions of the trailing run of entries equal to the last one (`last_run=True`),
or its complement (`last_run=False`). -/
def getMarkers (bs : List Bool) (lastRun : Bool) : List Nat :=
  let n := bs.length
  let run := match bs.reverse with
    | [] => 0
    | l :: rest => 1 + (rest.takeWhile (· == l)).length
  (List.range n).filter (fun i => if lastRun then n - run ≤ i else i < n - run)

def listMax : List Nat → Nat
  | [] => 0
  | a :: as => max a (listMax as)

def setBit (bs : List Bool) (i : Nat) (v : Bool) : List Bool := bs.set i v

structure Step where
  bits : List Bool
  markers : List Nat
  src : Nat          -- position that lost its 1   (`difference == -1`)
  dst : Nat          -- position that gained a 1   (`difference == +1`)
  controls : List Nat -- ones present before and after, ascending
  deriving Repr, DecidableEq, Inhabited

/-- first 1 above `mx` (`ones[ones > max_index][0]`). -/
def nearestOne (bs : List Bool) (mx : Nat) : Option Nat :=
  ((List.range bs.length).filter (fun i => bs.getD i false && decide (mx < i))).head?

/-- last 0 above `mx` and below the nearest 1 (`farthest_zero`). -/
def farthestZero (bs : List Bool) (mx : Nat) (nearest : Option Nat) : Option Nat :=
  ((List.range bs.length).filter (fun i => !bs.getD i false && decide (mx < i) &&
      (match nearest with | some no => decide (i < no) | none => true))).getLast?

/-- the new bit string of `_get_next_bistring`, `mx = max(markers)`. -/
def nextBits (bs : List Bool) (mx : Nat) : List Bool :=
  match bs.getD mx false, nearestOne bs mx with
  | false, some no => setBit (setBit bs mx true) no false
  | _, near =>
    match farthestZero bs mx near with
    | some fz => setBit (setBit bs mx false) fz true
    | none => bs   -- python raises IndexError here; never reached from a valid start

/-- `_get_next_bistring` (markers non-empty). -/
def nextString (bs : List Bool) (markers : List Nat) : Step :=
  let n := bs.length
  let mx := listMax markers
  let ones := (List.range n).filter (fun i => bs.getD i false)
  let new := nextBits bs mx
  let lastRun := getMarkers new true
  let ms := (markers.filter (· ≠ mx)) ++
    ((List.range n).filter (fun i => mx < i ∧ !lastRun.contains i ∧ !markers.contains i))
  let newOnes := (List.range n).filter (fun i => new.getD i false)
  let src := ((List.range n).filter (fun i => bs.getD i false && !new.getD i false)).headD 0
  let dst := ((List.range n).filter (fun i => !bs.getD i false && new.getD i false)).headD 0
  { bits := new, markers := ms, src := src, dst := dst,
    controls := ones.filter (fun i => newOnes.contains i) }

def choose : Nat → Nat → Nat
  | _, 0 => 1
  | 0, _ + 1 => 0
  | n + 1, k + 1 => choose n k + choose n (k + 1)

def weight (bs : List Bool) : Nat := (bs.filter id).length

def ehrlichLoop : Nat → List Bool → List Nat → List Step
  | 0, _, _ => []
  | fuel + 1, bs, ms =>
    let st := nextString bs ms
    st :: ehrlichLoop fuel st.bits st.markers

/-- `_ehrlich_algorithm(initial_string)`: the steps after the initial string. -/
def ehrlich (init : List Bool) : List Step :=
  ehrlichLoop (choose init.length (weight init) - 1) init (getMarkers init false)

/-- the strings as python prints them (`string[::-1]` joined). -/
def showBits (bs : List Bool) : String :=
  String.ofList (bs.reverse.map (fun b => if b then '1' else '0'))

def ehrlichStrings (init : List Bool) : List (List Bool) :=
  init :: (ehrlich init).map (·.bits)

def defaultInit (n k : Nat) : List Bool := List.replicate k true ++ List.replicate (n - k) false

/-! ## hamming_weight_encoder: the gate skeleton (qubits and controls; angles are data) -/

def insertSorted (a : Nat) : List Nat → List Nat
  | [] => [a]
  | b :: bs => if a ≤ b then a :: b :: bs else b :: insertSorted a bs

def sortNat (l : List Nat) : List Nat := l.foldr insertSorted []

def hwEncoder (n k : Nat) (optimize fullHwp : Bool) : List GD :=
  let last := n - 1
  let xs : List GD := if fullHwp then [] else (List.range k).map (fun j => { kind := .X, q0 := last - j })
  let indices := (List.range (k - 1)).map (fun t => let j := k - 1 - t; choose (n - j) (k - j) - 1)
  let steps := ehrlich (defaultInit n k)
  let gs := (List.range steps.length).zipWith (fun idx (st : Step) =>
    let controls := sortNat (st.controls.map (fun c => last - c))
    let controls := if optimize then
        (controls.zip indices).filterMap (fun (c, i) => if i ≤ idx then some c else none)
      else controls
    ({ kind := .RBS, q0 := last - st.src, q1 := last - st.dst, e := idx, ctrl := controls } : GD)) steps
  xs ++ gs

/-! ## closed forms established by the proofs (QV/Proofs/EncodingsTree.lean, QV/Proofs/Ehrlich.lean)
and compared with the real code on every run as well -/

/-- row `d` of the tree loader on `2^m` qubits in closed form: gate `j < 2^d` acts on the
qubits `n-1-j·2^(m-d)` and `n-1-(j·2^(m-d)+2^(m-d-1))` and takes circuit parameter `2^d-1+j`. -/
def treeRowGates (m d : Nat) : List GD :=
  (List.range (2 ^ d)).map (fun j =>
    { kind := .RBS
      q0 := 2 ^ m - 1 - j * 2 ^ (m - d)
      q1 := 2 ^ m - 1 - (j * 2 ^ (m - d) + 2 ^ (m - d - 1))
      e := 2 ^ d - 1 + j })

/-- all RBS gates of `unary_encoder(·, "tree")` on `2^m` qubits, in queue order. -/
def treeGates (m : Nat) : List GD := (List.range m).flatMap (treeRowGates m)

/-- bit string and marker list after `k` steps of the Ehrlich walk. -/
def ehrState : Nat → List Bool → List Nat → List Bool × List Nat
  | 0, bs, ms => (bs, ms)
  | k + 1, bs, ms => ehrState k (nextString bs ms).bits (nextString bs ms).markers

/-- where the walk that starts on `1^w 0^z` ends: `0 1^w 0^(z-1)` for odd `w`, `0^z 1^w` for
even `w` (the string itself when `w = 0` or `z = 0`). -/
def endA (w z : Nat) : List Bool :=
  if w = 0 ∨ z = 0 then List.replicate w true ++ List.replicate z false
  else if w % 2 = 1 then false :: (List.replicate w true ++ List.replicate (z - 1) false)
  else List.replicate z false ++ List.replicate w true

/-- the table of admissible initial strings of the walk (`kind` 0: `1^w 0^z`; 1: `0 1^w 0^z`,
needs `w` even or `z = 0`; 2: `0^z 1^w`, needs `w` odd or `z ≤ 1`) … -/
def seValid (kind w z : Nat) : Bool :=
  match kind with
  | 0 => true
  | 1 => w % 2 == 0 || z == 0
  | _ => w % 2 == 1 || decide (z ≤ 1)

def seStart (kind w z : Nat) : List Bool :=
  match kind with
  | 0 => List.replicate w true ++ List.replicate z false
  | 1 => false :: (List.replicate w true ++ List.replicate z false)
  | _ => List.replicate z false ++ List.replicate w true

/-- … and the string the walk started there ends on. -/
def seEnd (kind w z : Nat) : List Bool :=
  match kind with
  | 0 => endA w z
  | 1 => List.replicate w true ++ List.replicate (z + 1) false
  | _ => List.replicate w true ++ List.replicate z false

/-- `_intermediate_gate`: the initial string of the next Hamming-weight block of the
hyperspherical binary encoder is the last string of the walk of weight `w` with one more 1:
at the lowest empty position for odd `w`, at the highest empty position for even `w`. -/
def hsNextInit (last : List Bool) (w : Nat) : List Bool :=
  let zeros := (List.range last.length).filter (fun i => !last.getD i false)
  let idx := if w % 2 = 0 then zeros.getLast?.getD 0 else zeros.head?.getD 0
  last.set idx true

/-- last string of the walk that starts on `init`. -/
def ehrLast (init : List Bool) : List Bool :=
  (ehrState (choose init.length (weight init) - 1) init (getMarkers init false)).1

/-- the initial strings `_binary_encoder_hyperspherical` passes to `hamming_weight_encoder`
for the weights `w, w+1, …` (`fuel` of them). -/
def hsInitsFrom : Nat → Nat → List Bool → List (List Bool)
  | 0, _, _ => []
  | fuel + 1, w, init => init :: hsInitsFrom fuel (w + 1) (hsNextInit (ehrLast init) w)

def hsInits (n : Nat) : List (List Bool) :=
  hsInitsFrom (n - 1) 1 (true :: List.replicate (n - 1) false)

/-- closed form of `hsInits`: weight 1: `1 0^(n-1)`, even `w`: `1^w 0^(n-w)`, odd `w ≥ 3`:
`0^(n-w) 1^w`. -/
def hsInitClosed (n w : Nat) : List Bool :=
  if w = 1 ∨ w % 2 = 0 then seStart 0 w (n - w) else seStart 2 w (n - w)

end QV.Enc
