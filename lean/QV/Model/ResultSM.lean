/-
  QV.Model.ResultSM — executable model (import-free) of the state shared between ONE qibo
  circuit object and ALL the result objects its executions returned (property C14).

  MODELLED (hand model, tied to /repo by the correspondence suites of tools/props/C14.py):

    result.py            MeasurementOutcomes.__init__ (samples= path), has_samples,
                         _from_measurement_gates, samples, frequencies, _register_frequencies,
                         probabilities; CircuitResult.probabilities; QuantumState.state /
                         probabilities (as "whose state is it")
    measurements.py      MeasurementResult.register_samples / register_frequencies / reset and,
                         for the legacy mode, .samples / .frequencies read through the gate
    backends/numpy.py    execute_circuit (new result, circuit._final_state, reset of the gates'
                         MeasurementResult), execute_circuit_repeated (shot loop, per-shot reset,
                         result built with samples=, _repeated_execution_frequencies)

  The state is: one cache per measurement gate (`M.result`), shared by all results; the list
  of result objects created so far, each with its own `_probs/_samples/_frequencies/
  _repeated_execution_frequencies`; `circuit._final_state`.

  Randomness is an input: every operation carries the answers of the random primitives it may
  consume (`backend.sample_shots`, `np.random.shuffle`), and reports how many it consumed.

  Data conventions: a shot is the decimal value of the measured bits (big-endian, first listed
  qubit = most significant); the register of gate `i` occupies bits `off_i … off_i+w_i-1`.
  A frequency table (`collections.Counter`) is the dense list of counts indexed by outcome.
  Binary/decimal formatting of the same data is not modelled (C03 covers it).

  `Cfg.legacy = true` is the accessor logic BEFORE the repair "results own their samples"
  (has_samples()/samples()/…(registers=True) consult the shared gate caches, executions do not
  reset them); `legacy = false` is the repaired code.
-/
namespace QV.RSM

/-- which execution path the circuit takes (fixed per circuit object). -/
inductive Kind
  /-- `execute_circuit`: one simulation, `CircuitResult` samples lazily from its probabilities -/
  | plain
  /-- `execute_circuit_repeated`, `density_matrix=True` (collapse): `CircuitResult(samples=…)` -/
  | repDM
  /-- `execute_circuit_repeated`, state vectors (noise / collapse): `MeasurementOutcomes` -/
  | repSV
deriving DecidableEq, Repr

structure Cfg where
  kind : Kind
  /-- number of qubits of every (non-collapsing) measurement gate, in circuit order -/
  widths : List Nat
  /-- `sample_shots` calls made per shot before the terminal measurement (channels, collapses) -/
  pre : Nat := 0
  legacy : Bool := false
deriving DecidableEq, Repr

/-- `(offset, width)` of every register inside the global row. -/
def layout : Nat → List Nat → List (Nat × Nat)
  | _, [] => []
  | off, w :: ws => (off, w) :: layout (off + w) ws

namespace Cfg
def k (c : Cfg) : Nat := c.widths.sum
def regs (c : Cfg) : List (Nat × Nat) := layout 0 c.widths
end Cfg

/-! ## data views -/

/-- value of the register `(off, w)` in the global shot `s` of `k` bits (`samples[:, rqubits]`). -/
def regVal (k : Nat) (ow : Nat × Nat) (s : Nat) : Nat := (s / 2 ^ (k - ow.1 - ow.2)) % 2 ^ ow.2

def regCol (k : Nat) (ow : Nat × Nat) (t : List Nat) : List Nat := t.map (regVal k ow)

/-- `calculate_frequencies` / one batch of `sample_frequencies`, as a dense table. -/
def histOf (size : Nat) (t : List Nat) : List Nat := (List.range size).map fun v => t.count v

/-- `_register_frequencies`: every global key adds its count to the key of the register. -/
def regHist (k : Nat) (ow : Nat × Nat) (h : List Nat) : List Nat :=
  (List.range (2 ^ ow.2)).map fun r =>
    (((List.range (2 ^ k)).filter fun v => regVal k ow v == r).map fun v => h.getD v 0).sum

/-- `np.concatenate([np.repeat(x, f) for x, f in frequencies.items()])` (sorted). -/
def repeatFreq (h : List Nat) : List Nat :=
  (List.range h.length).flatMap fun v => List.replicate (h.getD v 0) v

/-- recorded shuffle: `new[i] = sorted[perm[i]]`. -/
def applyPerm (perm l : List Nat) : List Nat := perm.map fun i => l.getD i 0

/-- `np.concatenate([gate.result.samples() for gate in measurements], axis=1)` on decimal
register columns. -/
def combine : List Nat → List (List Nat) → List Nat
  | _ :: ws, col :: cols =>
    (List.zip ws cols).foldl (fun acc wc => List.zipWith (fun a b => a * 2 ^ wc.1 + b) acc wc.2) col
  | _, _ => []

/-! ## state -/

/-- `MeasurementResult` of one gate: `_samples`, `_frequencies`. -/
structure GCache where
  samples : Option (List Nat) := none
  freq : Option (List Nat) := none
deriving DecidableEq, Repr

/-- `MeasurementOutcomes._probs`. -/
inductive Probs
  | none
  /-- Born probabilities of the final state computed from input `inp` -/
  | ofState (inp : Nat)
  /-- `frequencies / nshots` -/
  | ofHist (h : List Nat) (nshots : Nat)
deriving DecidableEq, Repr

def Probs.isNone : Probs → Bool
  | .none => true
  | _ => false

/-- one result object. `inp` stands for `QuantumState._state`: the state computed by the
execution that was given the input with identifier `inp` (the harness gives every execution of
a history its own identifier, so `inp` also identifies the execution). -/
structure Res where
  inp : Nat
  nshots : Nat
  probs : Probs
  samples : Option (List Nat) := none
  freq : Option (List Nat) := none
  repFreq : Option (List Nat) := none
deriving DecidableEq, Repr

structure St where
  caches : List GCache
  results : List Res := []
  /-- `circuit._final_state` (index of the result) -/
  final : Option Nat := none
deriving DecidableEq, Repr

def St.init (c : Cfg) : St := { caches := c.widths.map fun _ => {} }

/-! ## operations and observables -/

inductive Op
  /-- `circuit(initial_state=input[inp], nshots)`; `draws` = answers of the `sample_shots`
  calls (one shot each) made inside a repeated execution, in call order -/
  | exec (inp nshots : Nat) (draws : List Nat)
  /-- `results[r].samples(registers=…)`; `draw` = answer of `sample_shots(probs, nshots)`,
  `perm` = the shuffle -/
  | samples (r : Nat) (registers : Bool) (draw perm : List Nat)
  | freqs (r : Nat) (registers : Bool) (draw : List Nat)
  | probs (r : Nat)
  | state (r : Nat)
deriving DecidableEq, Repr

inductive Out
  | invalid
  | created
  | table (t : List Nat)
  | regTables (t : List (List Nat))
  | hist (h : List Nat)
  | regHists (h : List (List Nat))
  /-- the state / Born probabilities computed by the execution that was given input `inp` -/
  | owner (inp : Nat)
  /-- `h / nshots` -/
  | histProbs (h : List Nat) (nshots : Nat)
deriving DecidableEq, Repr

/-- an observable together with the number of random answers consumed. -/
abbrev Obs := Out × Nat

/-! ## accessors of one result (transliteration of result.py) -/

def cache0HasSamples (caches : List GCache) : Bool :=
  match caches with
  | g :: _ => g.samples.isSome
  | [] => false

/-- `_from_measurement_gates()`: nothing of its own to sample from. -/
def fromGates (r : Res) : Bool := r.samples.isNone && r.probs.isNone && r.freq.isNone

/-- the guard of the branch of `samples()` that reads the gates' shared `MeasurementResult`. -/
def readsGates (c : Cfg) (caches : List GCache) (r : Res) : Bool :=
  if c.legacy then cache0HasSamples caches else fromGates r

/-- `has_samples()`. -/
def hasSamples (c : Cfg) (caches : List GCache) (r : Res) : Bool :=
  if c.legacy then cache0HasSamples caches || r.samples.isSome
  else if fromGates r then cache0HasSamples caches else r.samples.isSome

/-- `gate.result.register_samples(samples[:, rqubits])` for every gate. -/
def publishSamples (c : Cfg) (t : List Nat) (caches : List GCache) : List GCache :=
  List.zipWith (fun g ow => { g with samples := some (regCol c.k ow t) }) caches c.regs

/-- `gate.result.register_frequencies(rfreqs)` for every gate. -/
def publishFreqs (c : Cfg) (h : List Nat) (caches : List GCache) : List GCache :=
  List.zipWith (fun g ow => { g with freq := some (regHist c.k ow h) }) caches c.regs

/-- `gate.result.reset()` for every gate. -/
def resetAll (caches : List GCache) : List GCache := caches.map fun _ => {}

/-- the block `if self._samples is None: …` of `samples()`. -/
def ensureSamples (c : Cfg) (caches : List GCache) (r : Res) (draw perm : List Nat) :
    List GCache × Res × Nat :=
  match r.samples with
  | some _ => (caches, r, 0)
  | none =>
    if readsGates c caches r then
      (caches,
       { r with samples := some (combine c.widths (caches.map fun g => g.samples.getD [])) }, 0)
    else
      match r.freq with
      | some h =>
        let dec := applyPerm perm (repeatFreq h)
        (publishSamples c dec caches, { r with samples := some dec }, 0)
      | none => (publishSamples c draw caches, { r with samples := some draw }, 1)

/-- `samples(registers=…)`. -/
def accSamples (c : Cfg) (caches : List GCache) (r : Res) (registers : Bool)
    (draw perm : List Nat) : List GCache × Res × Obs :=
  let e := ensureSamples c caches r draw perm
  let t := e.2.1.samples.getD []
  let out :=
    if registers then
      if c.legacy then Out.regTables (e.1.map fun g => g.samples.getD [])
      else Out.regTables (c.regs.map fun ow => regCol c.k ow t)
    else Out.table t
  (e.1, e.2.1, out, e.2.2)

/-- legacy `gate.result.frequencies()` of every gate (fills the gate's `_frequencies`). -/
def legacyRegFreqs (c : Cfg) (caches : List GCache) : List GCache × List (List Nat) :=
  let pairs := List.zipWith (fun (g : GCache) (ow : Nat × Nat) =>
      match g.freq with
      | some h => (g, h)
      | none =>
        let h := histOf (2 ^ ow.2) (g.samples.getD [])
        ({ g with freq := some h }, h)) caches c.regs
  (pairs.map (·.1), pairs.map (·.2))

/-- the block `if self._frequencies is None: …` of `frequencies()`. -/
def ensureFreq (c : Cfg) (caches : List GCache) (r : Res) (draw : List Nat) :
    List GCache × Res × Nat :=
  match r.freq with
  | some _ => (caches, r, 0)
  | none =>
    if hasSamples c caches r then
      let e := ensureSamples c caches r [] []
      (e.1, { e.2.1 with freq := some (histOf (2 ^ c.k) (e.2.1.samples.getD [])) }, e.2.2)
    else
      let h := histOf (2 ^ c.k) draw
      (publishFreqs c h caches, { r with freq := some h }, 1)

/-- `frequencies(registers=…)`. -/
def accFreqs (c : Cfg) (caches : List GCache) (r : Res) (registers : Bool) (draw : List Nat) :
    List GCache × Res × Obs :=
  if r.repFreq.isSome && !registers then (caches, r, Out.hist (r.repFreq.getD []), 0)
  else
    let e := ensureFreq c caches r draw
    let h := e.2.1.freq.getD []
    if registers then
      if c.legacy then
        let l := legacyRegFreqs c e.1
        (l.1, e.2.1, Out.regHists l.2, e.2.2)
      else (e.1, e.2.1, Out.regHists (c.regs.map fun ow => regHist c.k ow h), e.2.2)
    else (e.1, e.2.1, Out.hist h, e.2.2)

/-- `probabilities()` (no bit-flip noise). -/
def accProbs (c : Cfg) (caches : List GCache) (r : Res) : List GCache × Res × Obs :=
  match c.kind with
  | .repSV =>
    match r.probs with
    | .ofHist h n => (caches, r, Out.histProbs h n, 0)
    | _ =>
      let a := accFreqs c caches r false []
      let h := match a.2.2.1 with
        | .hist h => h
        | _ => []
      (a.1, { a.2.1 with probs := .ofHist h r.nshots }, Out.histProbs h r.nshots, a.2.2.2)
  | _ => (caches, r, Out.owner r.inp, 0)

/-- `state()`. -/
def accState (c : Cfg) (r : Res) : Obs :=
  match c.kind with
  | .repSV => (Out.invalid, 0)
  | _ => (Out.owner r.inp, 0)

/-! ## executions (transliteration of backends/numpy.py) -/

/-- the rows recorded by the shot loop of `execute_circuit_repeated`: every shot consumes `pre`
answers (channels, collapsing measurements) and then one for `result.samples()[0]`. -/
def shotRows (pre : Nat) : Nat → List Nat → List Nat
  | 0, _ => []
  | n + 1, ds => (ds.drop pre).headD 0 :: shotRows pre n (ds.drop (pre + 1))

/-- legacy only: the first shot's `CircuitResult(nshots=1).samples()` finds the rows a previous
execution left in the gates and returns their first row without drawing. -/
def staleFirst (c : Cfg) (caches : List GCache) : Option Nat :=
  if c.legacy && cache0HasSamples caches then
    some ((combine c.widths (caches.map fun g => g.samples.getD [])).headD 0)
  else none

def repRows (c : Cfg) (caches : List GCache) (nshots : Nat) (draws : List Nat) : List Nat × Nat :=
  match nshots, staleFirst c caches with
  | n + 1, some v => (v :: shotRows c.pre n (draws.drop c.pre), c.pre + n * (c.pre + 1))
  | n, _ => (shotRows c.pre n draws, n * (c.pre + 1))

def stepExec (c : Cfg) (σ : St) (inp nshots : Nat) (draws : List Nat) : St × Obs :=
  let idx := σ.results.length
  match c.kind with
  | .plain =>
    let caches := if c.legacy then σ.caches else resetAll σ.caches
    ({ caches := caches,
       results := σ.results ++ [{ inp := inp, nshots := nshots, probs := .ofState inp }],
       final := some idx }, Out.created, 0)
  | kind =>
    let (rows, used) := repRows c σ.caches nshots draws
    let caches := publishSamples c rows (resetAll σ.caches)
    let r : Res :=
      { inp := inp, nshots := nshots, probs := .none, samples := some rows,
        repFreq := if kind = .repSV then some (histOf (2 ^ c.k) rows) else none }
    ({ caches := caches, results := σ.results ++ [r], final := some idx }, Out.created, used)

/-! ## the state machine -/

/-- run an accessor on result `i` and write the result object back. -/
def onResult (σ : St) (i : Nat) (f : List GCache → Res → List GCache × Res × Obs) : St × Obs :=
  match σ.results[i]? with
  | none => (σ, Out.invalid, 0)
  | some r =>
    let a := f σ.caches r
    ({ σ with caches := a.1, results := σ.results.set i a.2.1 }, a.2.2)

def step (c : Cfg) (σ : St) : Op → St × Obs
  | .exec inp nshots draws => stepExec c σ inp nshots draws
  | .samples i reg draw perm => onResult σ i fun cs r => accSamples c cs r reg draw perm
  | .freqs i reg draw => onResult σ i fun cs r => accFreqs c cs r reg draw
  | .probs i => onResult σ i fun cs r => accProbs c cs r
  | .state i => onResult σ i fun cs r => (cs, r, accState c r)

/-- run a history; the observables in order. -/
def runFrom (c : Cfg) : St → List Op → List Obs
  | _, [] => []
  | σ, op :: ops => (step c σ op).2 :: runFrom c (step c σ op).1 ops

def run (c : Cfg) (h : List Op) : List Obs := runFrom c (St.init c) h

/-- final state of a history. -/
def stateAfter (c : Cfg) : St → List Op → St
  | σ, [] => σ
  | σ, op :: ops => stateAfter c (step c σ op).1 ops

/-! ## "alone": the sub-history of one result -/

/-- does the operation create a result? -/
def Op.isExec : Op → Bool
  | .exec .. => true
  | _ => false

/-- the result an accessor operation addresses. -/
def Op.target : Op → Option Nat
  | .exec .. => none
  | .samples i .. => some i
  | .freqs i .. => some i
  | .probs i => some i
  | .state i => some i

/-- the same accessor addressed to result `0`. -/
def Op.retarget : Op → Op
  | .samples _ reg d p => .samples 0 reg d p
  | .freqs _ reg d => .freqs 0 reg d
  | .probs _ => .probs 0
  | .state _ => .state 0
  | op => op

/-- `aloneFrom created j h`: the operations of `h` that concern the `j`-th result (its
execution and the accessor calls on it), as a history over a fresh circuit object where that
result has index 0.  `created` = number of results created before `h` starts. -/
def aloneFrom (j : Nat) : Nat → List Op → List Op
  | _, [] => []
  | created, op :: ops =>
    if op.isExec then
      if created = j then op :: aloneFrom j (created + 1) ops else aloneFrom j (created + 1) ops
    else if op.target = some j then op.retarget :: aloneFrom j created ops
    else aloneFrom j created ops

/-- the observables of `h` that concern the `j`-th result, in order. -/
def obsOnFrom (c : Cfg) (j : Nat) : Nat → St → List Op → List Obs
  | _, _, [] => []
  | created, σ, op :: ops =>
    let σ' := (step c σ op).1
    let o := (step c σ op).2
    if op.isExec then
      if created = j then o :: obsOnFrom c j (created + 1) σ' ops
      else obsOnFrom c j (created + 1) σ' ops
    else if op.target = some j then o :: obsOnFrom c j created σ' ops
    else obsOnFrom c j created σ' ops

end QV.RSM
