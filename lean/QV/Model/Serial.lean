/-
  Models of the dictionary serialisation of gates and of the dump / load of execution
  results (C13).

  anchors:  gates/abstract.py   Gate.raw / Gate.from_dict (REQUIRED_FIELDS,
                                 REQUIRED_FIELDS_INIT_KWARGS), ParametrizedGate.parameters setter
            gates/gates.py      Unitary.parameters setter (matrix kept in init_args[0])
            result.py           MeasurementOutcomes.samples / frequencies / to_dict / from_dict,
                                 CircuitResult.from_dict
  Parameter values, samples and frequencies are opaque (generic types); import-free.
-/
namespace QV.Serial

/-! ## gates -/

/-- `REQUIRED_FIELDS_INIT_KWARGS` of gates/abstract.py (the models take the list as an
argument `req`; this is its value in the source) -/
def requiredKwargs : List String :=
  ["theta", "phi", "lam", "phi0", "phi1", "register_name", "collapse", "basis", "p0", "p1"]

def kwGet {τ : Type} (d : List (String × τ)) (k : String) : Option τ :=
  match d with
  | [] => none
  | (k', v) :: rest => if k' = k then some v else kwGet rest k

/-- python `d.update({k: v})` restricted to existing keys (`if n in self.init_kwargs`) -/
def kwUpdate {τ : Type} (d : List (String × τ)) (k : String) (v : τ) : List (String × τ) :=
  d.map fun kv => if kv.1 = k then (k, v) else kv

/-- a gate object as far as serialisation sees it.  `argParam = true` is the `Unitary`
layout: the single parameter is `init_args[0]`, not a keyword. -/
structure GateObj (τ : Type) where
  cls : String
  paramNames : List String
  argParam : Bool
  initArgs : List τ
  initKwargs : List (String × τ)
  targets : List Nat
  controls : List Nat
  params : List τ
deriving Repr

/-- `ParametrizedGate.parameters = x` (and `Unitary.parameters = x`): the current values
replace `_parameters`; keyword arguments of the same names follow; for the `Unitary`
layout `init_args[0]` follows. -/
def updKw {τ : Type} (kw : List (String × τ)) : List String → List τ → List (String × τ)
  | n :: ns, v :: vs => updKw (kwUpdate kw n v) ns vs
  | _, _ => kw

def GateObj.setParams {τ : Type} (g : GateObj τ) (x : List τ) : GateObj τ :=
  if x.length ≠ g.paramNames.length then g      -- the setter raises, nothing changes
  else if g.argParam then
    { g with params := x, initArgs := match x, g.initArgs with
                                       | v :: _, _ :: rest => v :: rest
                                       | _, a => a }
  else { g with params := x, initKwargs := updKw g.initKwargs g.paramNames x }

/-- the dictionary written by `Gate.raw` -/
structure Raw (τ : Type) where
  cls : String
  initArgs : List τ
  initKwargs : List (String × τ)
  targets : List Nat
  controls : List Nat
deriving Repr

def GateObj.raw {τ : Type} (req : List String) (g : GateObj τ) : Raw τ :=
  { cls := g.cls, initArgs := g.initArgs,
    initKwargs := g.initKwargs.filter fun kv => req.contains kv.1,
    targets := g.targets, controls := g.controls }

/-- the constructor `cls(*init_args, **init_kwargs)` as far as parameters go: every
parameter name must be supplied as keyword (they have no defaults in the classes that are
modelled; a missing one is python's `TypeError: missing required argument`), or, for the
`Unitary` layout, be `init_args[0]`. -/
def lookupAll {τ : Type} (kw : List (String × τ)) : List String → Option (List τ)
  | [] => some []
  | n :: ns =>
    match kwGet kw n, lookupAll kw ns with
    | some v, some vs => some (v :: vs)
    | _, _ => none

/-- `Gate.from_dict`: the class template supplies the static data (names, layout);
qubits are rebuilt by the constructor from the positional arguments (oracle: kept). -/
def fromDict {τ : Type} (template : GateObj τ) (r : Raw τ) : Option (GateObj τ) :=
  if template.argParam then
    match r.initArgs with
    | v :: _ => some { template with initArgs := r.initArgs, initKwargs := r.initKwargs,
                                     targets := r.targets, controls := r.controls, params := [v] }
    | [] => none
  else
    match lookupAll r.initKwargs template.paramNames with
    | none => none
    | some ps => some { template with initArgs := r.initArgs, initKwargs := r.initKwargs,
                                      targets := r.targets, controls := r.controls, params := ps }

/-- any sequence of parameter updates -/
def GateObj.history {τ : Type} (g : GateObj τ) : List (List τ) → GateObj τ
  | [] => g
  | x :: xs => (g.setParams x).history xs

/-- keyword layout established by the constructors: the keywords start with the parameter
names in order (`{"theta": θ, "phi": φ, ..., "trainable": t}`), the names are distinct and
survive the `REQUIRED_FIELDS_INIT_KWARGS` filter; the keyword values are the parameters -/
def GateObj.kwInv {τ : Type} [DecidableEq τ] (req : List String) (g : GateObj τ) : Bool :=
  if g.argParam then
    g.paramNames.length == 1 && (match g.initArgs, g.params with
      | a :: _, [p] => a == p
      | _, _ => false)
  else
    lookupAll (g.initKwargs.filter fun kv => req.contains kv.1) g.paramNames
      == some g.params

/-! ## results -/

/-- the sampling oracles: fresh draws are arbitrary functions of a tape position;
`expand f t` produces samples that respect existing frequencies -/
structure Oracle (S F : Type) where
  count : S → F
  drawS : Nat → S
  drawF : Nat → F
  expand : F → Nat → S

/-- `MeasurementOutcomes` / `CircuitResult` as far as samples and frequencies go -/
structure Res (S F : Type) where
  samples : Option S := none
  freqs : Option F := none
  nshots : Nat := 0
  tape : Nat := 0
deriving Repr

inductive Op where
  | samples
  | frequencies
deriving DecidableEq, Repr

def Res.step {S F : Type} (o : Oracle S F) (r : Res S F) : Op → Res S F
  | .samples =>
    match r.samples, r.freqs with
    | some _, _ => r
    | none, some f => { r with samples := some (o.expand f r.tape), tape := r.tape + 1 }
    | none, none => { r with samples := some (o.drawS r.tape), tape := r.tape + 1 }
  | .frequencies =>
    match r.freqs, r.samples with
    | some _, _ => r
    | none, some s => { r with freqs := some (o.count s) }
    | none, none => { r with freqs := some (o.drawF r.tape), tape := r.tape + 1 }

def Res.run {S F : Type} (o : Oracle S F) (r : Res S F) : List Op → Res S F
  | [] => r
  | op :: ops => (r.step o op).run o ops

/-- what `to_dict` stores (`savesFreq` = whether `_frequencies` is part of the payload;
`false` in result.py) -/
structure Payload (S F : Type) where
  samples : Option S
  freqs : Option F
  nshots : Nat

def Res.dump {S F : Type} (savesFreq : Bool) (r : Res S F) : Payload S F :=
  { samples := r.samples, freqs := if savesFreq then r.freqs else none, nshots := r.nshots }

/-- `from_dict`: a fresh object on a fresh tape -/
def load {S F : Type} (p : Payload S F) (tape : Nat) : Res S F :=
  { samples := p.samples, freqs := p.freqs, nshots := p.nshots, tape := tape }

/-- the observable `frequencies()` of a result (may draw) -/
def Res.obsFreq {S F : Type} (o : Oracle S F) (r : Res S F) : Option F :=
  (r.step o .frequencies).freqs

def Res.obsSamples {S F : Type} (o : Oracle S F) (r : Res S F) : Option S :=
  (r.step o .samples).samples

end QV.Serial
